(* C02/Proofs.v — lemmas behind Properties.v *)
From Coq Require Import ZArith List Bool String Lia.
From C02 Require Import Model Spec.
Import ListNotations.
Open Scope list_scope.
Open Scope Z_scope.

Ltac run m := let r := fresh "r" in let s := fresh "s" in let e := fresh "e" in
  destruct m as [[r|e|] s].

(* ------------------------------------------------------------------ loops = sequenced maps *)
Section Generic.
  Variable S : Type.
  Notation M := (M S).

  Lemma for_append_mapM : forall A (f : A -> M val) xs r s,
    for_append f xs r s = bind (mapM f xs) (fun us => ret (r ++ us)) s.
  Proof.
    induction xs as [|x xs IH]; intros r s; simpl.
    - unfold bind, ret. rewrite app_nil_r. reflexivity.
    - unfold bind at 1 2 3. run (f x s); try reflexivity.
      rewrite IH. unfold bind. run (mapM f xs s0); try reflexivity.
      unfold ret. rewrite <- app_assoc. reflexivity.
  Qed.

  Lemma for_append_nil : forall A (f : A -> M val) xs (k : list val -> M val) s,
    bind (for_append f xs []) k s = bind (mapM f xs) k s.
  Proof.
    intros. unfold bind at 1. rewrite for_append_mapM. unfold bind.
    run (mapM f xs s); reflexivity.
  Qed.

  Lemma for_zip_map2M : forall (f : val -> val -> M val) xs ys r s,
    for_zip f xs ys r s = bind (map2M f xs ys) (fun us => ret (r ++ us)) s.
  Proof.
    induction xs as [|x xs IH]; intros ys r s; simpl.
    - unfold bind, ret. rewrite app_nil_r. reflexivity.
    - destruct ys as [|y ys].
      + unfold bind, ret. rewrite app_nil_r. reflexivity.
      + unfold bind at 1 2 3. run (f x y s); try reflexivity.
        rewrite IH. unfold bind. run (map2M f xs ys s0); try reflexivity.
        unfold ret. rewrite <- app_assoc. reflexivity.
  Qed.

  Lemma for_zip_nil : forall (f : val -> val -> M val) xs ys (k : list val -> M val) s,
    bind (for_zip f xs ys []) k s = bind (map2M f xs ys) k s.
  Proof.
    intros. unfold bind at 1. rewrite for_zip_map2M. unfold bind.
    run (map2M f xs ys s); reflexivity.
  Qed.

  Lemma for_enum_mapM : forall (f : val -> M val) xs i r s,
    for_enum (fun i x => f (VList [VInt i; x])) (Z.of_nat i) xs r s
    = bind (mapM f (map (fun p => VList [VInt (Z.of_nat (fst p)); snd p]) (combine (seq i (List.length xs)) xs)))
           (fun us => ret (r ++ us)) s.
  Proof.
    induction xs as [|x xs IH]; intros i r s; simpl.
    - unfold bind, ret. rewrite app_nil_r. reflexivity.
    - unfold bind at 1 2 3. run (f (VList [VInt (Z.of_nat i); x]) s); try reflexivity.
      replace (Z.of_nat i + 1) with (Z.of_nat (Datatypes.S i)) by lia.
      rewrite IH. unfold bind.
      match goal with |- context [mapM f ?l s0] => run (mapM f l s0) end; try reflexivity.
      unfold ret. rewrite <- app_assoc. reflexivity.
  Qed.

  (* ---------------------------------------------------------------- Each family *)
  Lemma norm_join_or_list : forall r, norm (join_or_list r) = norm (VList r).
  Proof.
    intro r. unfold join_or_list. destruct (all_chars r) eqn:H; [|reflexivity].
    simpl. f_equal. induction r as [|v r IH]; [reflexivity|].
    simpl in H. apply andb_prop in H. destruct H as [Hv Hr].
    destruct v; try discriminate. simpl. f_equal. apply IH. exact Hr.
  Qed.

  (* result of the model is the result of the expansion up to `norm`, in the same final state *)
  Definition agrees (x y : res val * S) : Prop := veq_res (fst x) (fst y) /\ snd x = snd y.

  Lemma agrees_refl : forall x, agrees x x.
  Proof. intros [[v|e|] s]; split; simpl; auto. Qed.

  Lemma each_agrees : forall (f : val -> M val) a s, agrees (m_each f a s) (s_each f a s).
  Proof.
    intros f a s. destruct a as [z|c|str|l|kvs].
    - apply agrees_refl.
    - apply agrees_refl.
    - destruct str as [|c str]; [apply agrees_refl|].
      unfold m_each, s_each. cbn [is_empty].
      remember (chars (c :: str)) as cs.
      rewrite for_append_nil. unfold bind.
      run (mapM f cs s); split; simpl; auto.
      apply norm_join_or_list.
    - destruct l as [|x l]; [apply agrees_refl|].
      unfold m_each, s_each. cbn [is_empty].
      remember (x :: l) as xs.
      rewrite for_append_nil. apply agrees_refl.
    - unfold m_each, s_each. cbn [is_empty].
      rewrite for_append_nil. apply agrees_refl.
  Qed.

  Lemma each_index_eq : forall (f : val -> M val) a s, m_each_index f a s = s_each_index f a s.
  Proof.
    intros f a s. unfold m_each_index, s_each_index.
    destruct (is_empty a) eqn:He; [reflexivity|].
    unfold is_atom. destruct (is_iterable a) eqn:Hi.
    - rewrite He. unfold bind at 1.
      change 0 with (Z.of_nat 0). rewrite for_enum_mapM. unfold indexed, bind.
      match goal with |- context [mapM f ?l s] => run (mapM f l s) end; reflexivity.
    - reflexivity.
  Qed.

  Lemma each_left_eq : forall (f : val -> val -> M val) a b s, m_each_left f a b s = s_each_left f a b s.
  Proof.
    intros f a b s. unfold m_each_left, s_each_left.
    destruct (is_empty b) eqn:He.
    - rewrite andb_false_r.
      destruct b as [| |[|]|[|]|]; try discriminate; reflexivity.
    - rewrite andb_true_r. destruct (is_atom b); [reflexivity|].
      apply for_append_nil.
  Qed.

  Lemma each_right_eq : forall (f : val -> val -> M val) a b s, m_each_right f a b s = s_each_right f a b s.
  Proof.
    intros f a b s. unfold m_each_right, s_each_right.
    destruct (is_empty b) eqn:He.
    - rewrite andb_false_r.
      destruct b as [| |[|]|[|]|]; try discriminate; reflexivity.
    - rewrite andb_true_r. destruct (is_atom b); [reflexivity|].
      apply for_append_nil.
  Qed.

  Lemma each_pair_eq : forall (f : val -> val -> M val) a s, m_each_pair f a s = s_each_pair f a s.
  Proof.
    intros f a s. unfold m_each_pair, s_each_pair.
    destruct (is_atom a) eqn:Ha; [reflexivity|]. cbn [orb].
    assert (Hi : is_iterable a = true).
    { unfold is_atom in Ha. destruct (is_iterable a); [reflexivity|discriminate]. }
    rewrite Hi. cbn [andb]. unfold vlen.
    destruct (items a) as [|x [|y xs]] eqn:Hit.
    - simpl. unfold bind, ret. reflexivity.
    - reflexivity.
    - cbn [Nat.eqb List.length]. apply for_zip_nil.
  Qed.

  Lemma each2_agrees : forall (f : val -> val -> M val) a b s,
    each2_dom a b = true -> agrees (m_each2 f a b s) (s_each2 f a b s).
  Proof.
    intros f a b s Hdom. unfold m_each2, s_each2.
    destruct (is_empty a || is_empty b) eqn:He.
    - split; [|reflexivity]. simpl. destruct (is_list a || is_list b); reflexivity.
    - unfold each2_dom in Hdom. rewrite He in Hdom. simpl in Hdom.
      destruct (is_atom a) eqn:Ha; destruct (is_atom b) eqn:Hb; try discriminate; cbn [andb].
      + apply agrees_refl.
      + assert (forall v, is_atom v = false -> seq_of v = Some (items v)) as Hs.
        { intros v Hv. destruct v; try discriminate; reflexivity. }
        rewrite (Hs a Ha), (Hs b Hb). rewrite for_zip_nil. unfold bind.
        run (map2M f (items a) (items b) s); split; simpl; auto.
        apply norm_join_or_list.
  Qed.

  (* ---------------------------------------------------------------- Over: iteration = nesting *)
  Lemma nest_snoc : forall (f : val -> val -> M val) rl y s, rl <> [] ->
    nest f (y :: rl) s = bind (nest f rl) (fun v => f v y) s.
  Proof. intros f rl y s H. destruct rl; [congruence|reflexivity]. Qed.

  Lemma py_reduce_app : forall (f : val -> val -> M val) xs x y s,
    py_reduce f x (xs ++ [y]) s = bind (py_reduce f x xs) (fun v => f v y) s.
  Proof.
    induction xs as [|z xs IH]; intros x y s.
    - simpl. unfold bind, ret. run (f x y s); reflexivity.
    - cbn [py_reduce app]. unfold bind. run (f x z s); try reflexivity.
      rewrite IH. reflexivity.
  Qed.

  Lemma py_reduce_nest : forall (f : val -> val -> M val) xs x s,
    py_reduce f x xs s = nest f (rev (x :: xs)) s.
  Proof.
    intros f xs. induction xs as [|y xs IH] using rev_ind; intros x s.
    - reflexivity.
    - change (x :: xs ++ [y]) with ((x :: xs) ++ [y]). rewrite rev_app_distr. simpl rev at 1.
      change ([y] ++ rev (x :: xs)) with (y :: rev (x :: xs)).
      rewrite nest_snoc.
      2:{ simpl. destruct (rev xs); discriminate. }
      rewrite py_reduce_app. unfold bind. rewrite IH. reflexivity.
  Qed.

  Lemma over_generic_eq : forall tbl (f : val -> val -> M val) a s,
    m_over tbl None f a s = s_over f a s.
  Proof.
    intros tbl f a s. unfold m_over, s_over.
    destruct (is_atom a) eqn:Ha; [reflexivity|].
    destruct (items a) as [|x [|y xs]] eqn:Hit.
    - destruct a as [| |[|]|[|]|]; simpl in *; try discriminate.
    - reflexivity.
    - change (over_shortcut tbl None (x :: y :: xs)) with (@None (res val)). cbv iota. apply py_reduce_nest.
  Qed.

  Lemma members_nonatom : forall b, is_atom b = false -> members b = items b.
  Proof. intros b H. unfold members. rewrite H. reflexivity. Qed.

  Lemma nonatom_items : forall b, is_atom b = false -> items b <> [].
  Proof. intros b H. destruct b as [| |[|]|[|]|]; simpl in *; try discriminate. Qed.

  Lemma over_neutral_eq : forall (f : val -> val -> M val) a b s,
    m_over_neutral f a b s = s_over_neutral f a b s.
  Proof.
    intros f a b s. unfold m_over_neutral, s_over_neutral.
    destruct (is_empty b) eqn:He; [reflexivity|].
    destruct (is_atom b) eqn:Hb.
    - unfold members. rewrite Hb. simpl. unfold bind, ret. run (f a b s); reflexivity.
    - rewrite members_nonatom by exact Hb.
      destruct (items b) as [|x xs] eqn:Hit; [exfalso; eapply nonatom_items; eauto|].
      rewrite <- py_reduce_nest. simpl. reflexivity.
  Qed.

  (* ---------------------------------------------------------------- Scan *)
  Lemma scan_nest_snoc : forall (f : val -> val -> M val) rl y s, rl <> [] ->
    scan_nest f (y :: rl) s
    = bind (scan_nest f rl) (fun vs => bind (f (last vs (VInt 0)) y) (fun v => ret (vs ++ [v]))) s.
  Proof. intros f rl y s H. destruct rl; [congruence|reflexivity]. Qed.

  (* invariant of itertools.accumulate: `total` is the last value produced so far *)
  Lemma py_accumulate_last : forall (f : val -> val -> M val) xs total r s,
    last r (VInt 0) = total -> r <> [] ->
    forall vs s', py_accumulate f total xs r s = (Ok vs, s') -> vs <> [] .
  Proof.
    induction xs as [|x xs IH]; intros total r s Hl Hr vs s' H; simpl in H.
    - inversion H. subst. exact Hr.
    - unfold bind in H. run (f total x s); try discriminate.
      eapply IH in H; auto. apply last_last. destruct r; discriminate.
  Qed.

  Lemma py_accumulate_app : forall (f : val -> val -> M val) xs y total r s,
    last r (VInt 0) = total -> r <> [] ->
    py_accumulate f total (xs ++ [y]) r s
    = bind (py_accumulate f total xs r)
           (fun vs => bind (f (last vs (VInt 0)) y) (fun v => ret (vs ++ [v]))) s.
  Proof.
    induction xs as [|x xs IH]; intros y total r s Hl Hr; simpl.
    - unfold bind, ret. rewrite Hl. run (f total y s); reflexivity.
    - cbn [py_accumulate app]. unfold bind. run (f total x s); try reflexivity.
      rewrite IH; [unfold bind; reflexivity| apply last_last | destruct r; discriminate].
  Qed.

  Lemma py_accumulate_scan_nest : forall (f : val -> val -> M val) xs x s,
    py_accumulate f x xs [x] s = scan_nest f (rev (x :: xs)) s.
  Proof.
    intros f xs. induction xs as [|y xs IH] using rev_ind; intros x s.
    - reflexivity.
    - change (x :: xs ++ [y]) with ((x :: xs) ++ [y]). rewrite rev_app_distr. simpl rev at 1.
      change ([y] ++ rev (x :: xs)) with (y :: rev (x :: xs)).
      rewrite scan_nest_snoc.
      2:{ simpl. destruct (rev xs); discriminate. }
      rewrite py_accumulate_app; [|reflexivity|discriminate].
      unfold bind. rewrite IH. reflexivity.
  Qed.

  Lemma scan_generic_eq : forall tbl (f : val -> val -> M val) a s,
    m_scan tbl None f a s = s_scan f a s.
  Proof.
    intros tbl f a s. unfold m_scan, s_scan.
    destruct (is_empty a) eqn:He; [reflexivity|].
    destruct (is_atom a) eqn:Ha; [reflexivity|].
    destruct (items a) as [|x xs] eqn:Hit; [exfalso; eapply nonatom_items; eauto|].
    change (scan_shortcut tbl None (x :: xs)) with (@None (res val)). cbv iota.
    unfold bind. rewrite py_accumulate_scan_nest. reflexivity.
  Qed.

  (* [a, *q] where q = accumulate([f(a,b1), b2, ...]) is the scan of a,b1,b2,... *)
  Lemma scan_nest_cons2 : forall (f : val -> val -> M val) xs a x s,
    scan_nest f (rev (a :: x :: xs)) s
    = bind (f a x) (fun v0 => bind (py_accumulate f v0 xs [v0]) (fun q => ret (a :: q))) s.
  Proof.
    intros f xs. induction xs as [|y xs IH] using rev_ind; intros a x s.
    - cbn. unfold bind, ret. cbn. run (f a x s); reflexivity.
    - change (a :: x :: xs ++ [y]) with ((a :: x :: xs) ++ [y]). rewrite rev_app_distr. simpl rev at 1.
      change ([y] ++ rev (a :: x :: xs)) with (y :: rev (a :: x :: xs)).
      rewrite scan_nest_snoc.
      2:{ simpl. destruct (rev xs); discriminate. }
      unfold bind at 1. rewrite IH. unfold bind.
      run (f a x s); try reflexivity.
      rewrite py_accumulate_app; [|reflexivity|discriminate].
      unfold bind.
      destruct (py_accumulate f r xs [r] s0) as [[q|e|] s1] eqn:Hq; try reflexivity.
      unfold ret.
      assert (Hne : q <> []).
      { eapply (py_accumulate_last f xs r [r] s0); [reflexivity | discriminate | exact Hq]. }
      assert (Hlast : last (a :: q) (VInt 0) = last q (VInt 0)).
      { destruct q; [congruence|reflexivity]. }
      rewrite Hlast. run (f (last q (VInt 0)) y s1); reflexivity.
  Qed.

  Lemma scan_neutral_eq : forall (f : val -> val -> M val) a b s,
    m_scan_neutral f a b s = s_scan_neutral f a b s.
  Proof.
    intros f a b s. unfold m_scan_neutral, s_scan_neutral.
    destruct (is_empty b) eqn:He; [reflexivity|].
    fold (members b).
    destruct (members b) as [|x xs] eqn:Hm.
    - exfalso. unfold members in Hm. destruct (is_atom b) eqn:Hb; [discriminate|].
      eapply nonatom_items; eauto.
    - unfold bind at 3. rewrite scan_nest_cons2. unfold bind.
      run (f a x s); try reflexivity.
      run (py_accumulate f r xs [r] s0); reflexivity.
  Qed.

  (* ---------------------------------------------------------------- Iterate *)
  Lemma iterM_shift : forall n (f : val -> M val) b s,
    iterM (Datatypes.S n) f b s = bind (f b) (fun b' => iterM n f b') s.
  Proof.
    induction n as [|n IH]; intros f b s.
    - simpl. unfold bind, ret. run (f b s); reflexivity.
    - change (iterM (Datatypes.S (Datatypes.S n)) f b s) with (bind (iterM (Datatypes.S n) f b) f s).
      unfold bind at 1. rewrite IH. unfold bind. run (f b s); reflexivity.
  Qed.

  Lemma iterate_loop_eq : forall n fuel (f : val -> M val) b s,
    (n < fuel)%nat -> iterate_loop fuel f (Z.of_nat n) b s = iterM n f b s.
  Proof.
    induction n as [|n IH]; intros fuel f b s Hf; destruct fuel as [|k]; try lia.
    - reflexivity.
    - cbn [iterate_loop]. replace (Z.of_nat (Datatypes.S n) =? 0) with false by (symmetry; apply Z.eqb_neq; lia).
      rewrite iterM_shift. unfold bind. run (f b s); try reflexivity.
      replace (Z.of_nat (Datatypes.S n) - 1) with (Z.of_nat n) by lia. apply IH. lia.
  Qed.

  Lemma iterate_eq : forall (f : val -> M val) n b fuel s,
    0 <= n -> (Z.to_nat n < fuel)%nat ->
    m_iterate fuel f (VInt n) b s = s_iterate f n b s.
  Proof.
    intros f n b fuel s Hn Hf. unfold m_iterate, s_iterate.
    rewrite <- (Z2Nat.id n) at 1 by exact Hn. apply iterate_loop_eq. exact Hf.
  Qed.

  Lemma orbitM_nonempty : forall n (f : val -> M val) b s vs s',
    orbitM n f b s = (Ok vs, s') -> vs <> [].
  Proof.
    induction n; intros f b s vs s' Ho; simpl in Ho.
    - inversion Ho. discriminate.
    - unfold bind in Ho. destruct (orbitM n f b s) as [[ws|e|] s2]; try discriminate.
      destruct (f (last ws (VInt 0)) s2) as [[w|e|] s3]; try discriminate.
      inversion Ho. destruct ws; discriminate.
  Qed.

  Lemma orbitM_shift : forall n (f : val -> M val) b s,
    orbitM (Datatypes.S n) f b s
    = bind (f b) (fun b' => bind (orbitM n f b') (fun vs => ret (b :: vs))) s.
  Proof.
    induction n as [|n IH]; intros f b s.
    - cbn. unfold bind, ret. cbn. run (f b s); reflexivity.
    - change (orbitM (Datatypes.S (Datatypes.S n)) f b s)
        with (bind (orbitM (Datatypes.S n) f b) (fun vs => bind (f (last vs (VInt 0))) (fun v => ret (vs ++ [v]))) s).
      unfold bind at 1. rewrite IH. unfold bind. run (f b s); try reflexivity.
      change (orbitM (Datatypes.S n) f r s0)
        with (bind (orbitM n f r) (fun vs => bind (f (last vs (VInt 0))) (fun v => ret (vs ++ [v]))) s0).
      unfold bind. destruct (orbitM n f r s0) as [[vs|e|] s1] eqn:Ho; try reflexivity.
      unfold ret.
      assert (Hne : vs <> []) by (eapply orbitM_nonempty; exact Ho).
      assert (Hl : last (b :: vs) (VInt 0) = last vs (VInt 0)) by (destruct vs; [congruence|reflexivity]).
      rewrite Hl. run (f (last vs (VInt 0)) s1); reflexivity.
  Qed.

  Lemma scan_iter_loop_orbit : forall n fuel (f : val -> M val) b r s,
    (n < fuel)%nat ->
    scan_iter_loop fuel f (Z.of_nat n) b (r ++ [b]) s
    = bind (orbitM n f b) (fun vs => ret (VList (r ++ vs))) s.
  Proof.
    induction n as [|n IH]; intros fuel f b r s Hf; destruct fuel as [|k]; try lia.
    - reflexivity.
    - cbn [scan_iter_loop]. replace (Z.of_nat (Datatypes.S n) =? 0) with false by (symmetry; apply Z.eqb_neq; lia).
      unfold bind at 2. rewrite orbitM_shift. unfold bind. run (f b s); try reflexivity.
      replace (Z.of_nat (Datatypes.S n) - 1) with (Z.of_nat n) by lia.
      rewrite IH by lia. unfold bind. run (orbitM n f r0 s0); try reflexivity.
      unfold ret. rewrite <- app_assoc. reflexivity.
  Qed.

  Lemma scan_iterating_eq : forall (f : val -> M val) n b fuel s,
    0 <= n -> (Z.to_nat n < fuel)%nat ->
    m_scan_iterating fuel f (VInt n) b s = s_scan_iterating f n b s.
  Proof.
    intros f n b fuel s Hn Hf. unfold m_scan_iterating, s_scan_iterating.
    destruct (n =? 0); [reflexivity|].
    rewrite <- (Z2Nat.id n) at 1 by exact Hn.
    change [b] with ([] ++ [b]). rewrite scan_iter_loop_orbit by exact Hf. reflexivity.
  Qed.
End Generic.

(* ------------------------------------------------------------------ pure verbs: the fold as a value *)
Section Pure.
  Variable S : Type.

  Lemma py_reduce_pure : forall (g : val -> val -> res val) xs x (s : S),
    py_reduce (pure2 g) x xs s = (fold_res g x xs, s).
  Proof.
    induction xs as [|y xs IH]; intros x s; simpl.
    - reflexivity.
    - unfold bind, pure2, lift at 1. destruct (g x y) as [v|e|]; try reflexivity. apply IH.
  Qed.

  Lemma s_over_pure : forall (g : val -> val -> res val) a (s : S),
    is_atom a = false -> s_over (pure2 g) a s = (over_pure g (items a), s).
  Proof.
    intros g a s Ha. unfold s_over. rewrite Ha.
    destruct (items a) as [|x xs] eqn:Hit; [exfalso; eapply nonatom_items; eauto|].
    rewrite <- py_reduce_nest. apply py_reduce_pure.
  Qed.
End Pure.

(* ------------------------------------------------------------------ the operator shortcuts *)
Lemma ints_of_spec : forall xs zs, ints_of xs = Some zs -> xs = map VInt zs.
Proof.
  induction xs as [|x xs IH]; intros zs H; simpl in H.
  - inversion H. reflexivity.
  - destruct x; try discriminate. destruct (ints_of xs) as [zs'|]; try discriminate.
    inversion H. simpl. f_equal. apply IH. reflexivity.
Qed.

Lemma rows_of_spec : forall xs rows, rows_of xs = Some rows -> xs = map vints rows.
Proof.
  induction xs as [|x xs IH]; intros rows H; simpl in H.
  - inversion H. reflexivity.
  - destruct x; try discriminate.
    destruct (ints_of l) as [zs|] eqn:Hz; try discriminate.
    destruct (rows_of xs) as [rs|]; try discriminate.
    inversion H. simpl. f_equal.
    + unfold vints. f_equal. apply ints_of_spec. exact Hz.
    + apply IH. reflexivity.
Qed.

Lemma fold_res_ints : forall u zs z,
  fold_res (ew2 u) (VInt z) (map VInt zs) = Ok (VInt (fold_left u zs z)).
Proof. induction zs as [|y zs IH]; intros z; simpl; [reflexivity|apply IH]. Qed.

(* element-wise operation on two integer rows of the same length *)
Lemma ew2_rows : forall u r1 r2, List.length r1 = List.length r2 ->
  ew2 u (vints r1) (vints r2) = Ok (vints (zipw u r1 r2)).
Proof.
  intros u r1. unfold vints.
  induction r1 as [|a r1 IH]; intros r2 Hlen; destruct r2 as [|b r2]; try discriminate.
  - reflexivity.
  - simpl in Hlen. injection Hlen as Hlen. specialize (IH r2 Hlen).
    cbn [map ew2] in IH |- *. cbn [is_list Bool.eqb negb ew_sl].
    cbn [ew2] in IH.
    match type of IH with ?lhs = _ => match goal with |- context [lhs] => rewrite IH end end.
    reflexivity.
Qed.

Lemma zipw_length : forall A (u : A -> A -> A) r1 r2, List.length r1 = List.length r2 ->
  List.length (zipw u r1 r2) = List.length r1.
Proof. intros. unfold zipw. rewrite map_length, combine_length, <- H. apply Nat.min_id. Qed.

Lemma fold_res_rows : forall u n rows r0,
  List.length r0 = n -> same_len n rows = true ->
  fold_res (ew2 u) (vints r0) (map vints rows) = Ok (vints (fold_left (zipw u) rows r0)).
Proof.
  intros u n rows. induction rows as [|r rows IH]; intros r0 H0 Hs; cbn [map fold_res fold_left].
  - reflexivity.
  - simpl in Hs. apply andb_prop in Hs. destruct Hs as [Hr Hs]. apply Nat.eqb_eq in Hr.
    rewrite ew2_rows by congruence. apply IH; [|exact Hs].
    rewrite zipw_length by congruence. exact H0.
Qed.

(* reduce along axis 0, column by column  =  left fold of the row-wise operation *)
Section Axis0.
  Variable A : Type.
  Variable u : A -> A -> A.
  Variable d : A.

  Lemma nth_zipw : forall r1 r2 j, List.length r1 = List.length r2 -> (j < List.length r1)%nat ->
    nth j (zipw u r1 r2) d = u (nth j r1 d) (nth j r2 d).
  Proof.
    induction r1 as [|a r1 IH]; intros r2 j Hl Hj; destruct r2 as [|b r2]; simpl in *; try lia.
    destruct j; [reflexivity|]. apply IH; lia.
  Qed.

  Lemma fold_zipw_length : forall rows acc n,
    List.length acc = n -> forallb (fun r => Nat.eqb (List.length r) n) rows = true ->
    List.length (fold_left (zipw u) rows acc) = n.
  Proof.
    induction rows as [|r rows IH]; intros acc n Ha Hs; simpl; [exact Ha|].
    simpl in Hs. apply andb_prop in Hs. destruct Hs as [Hr Hs]. apply Nat.eqb_eq in Hr.
    apply IH; [|exact Hs]. rewrite zipw_length by congruence. exact Ha.
  Qed.

  Lemma nth_fold_zipw : forall rows acc n j,
    List.length acc = n -> forallb (fun r => Nat.eqb (List.length r) n) rows = true -> (j < n)%nat ->
    nth j (fold_left (zipw u) rows acc) d = fold_left u (map (fun r => nth j r d) rows) (nth j acc d).
  Proof.
    induction rows as [|r rows IH]; intros acc n j Ha Hs Hj; simpl; [reflexivity|].
    simpl in Hs. apply andb_prop in Hs. destruct Hs as [Hr Hs]. apply Nat.eqb_eq in Hr.
    rewrite (IH (zipw u acc r) n j); [|rewrite zipw_length by congruence; exact Ha|exact Hs|exact Hj].
    rewrite nth_zipw by (congruence || lia). reflexivity.
  Qed.

  Lemma list_as_nth_map : forall (l : list A) n, List.length l = n ->
    l = map (fun j => nth j l d) (seq 0 n).
  Proof.
    intros l n Hn. apply (nth_ext _ _ d d).
    - rewrite map_length, seq_length. exact Hn.
    - intros j Hj. rewrite Hn in Hj.
      rewrite (nth_indep (map (fun j0 => nth j0 l d) (seq 0 n)) d ((fun j0 => nth j0 l d) 0%nat))
        by (rewrite map_length, seq_length; exact Hj).
      etransitivity; [|symmetry; apply (map_nth (fun j0 => nth j0 l d) (seq 0 n) 0%nat j)].
      cbv beta. rewrite seq_nth by exact Hj. reflexivity.
  Qed.

  Theorem reduce_axis0_is_fold : forall n r0 rows,
    List.length r0 = n -> forallb (fun r => Nat.eqb (List.length r) n) rows = true ->
    reduce_axis0 u d n (r0 :: rows) = fold_left (zipw u) rows r0.
  Proof.
    intros n r0 rows H0 Hs. unfold reduce_axis0, transpose.
    rewrite (list_as_nth_map (fold_left (zipw u) rows r0) n) by (apply fold_zipw_length; assumption).
    rewrite map_map. apply map_ext_in. intros j Hj. apply in_seq in Hj.
    unfold col. cbn [map fold1]. symmetry. apply (nth_fold_zipw rows r0 n j); try assumption. lia.
  Qed.
End Axis0.

Lemma obj_reduce_fold : forall u xs x, obj_reduce u x xs = fold_res (ew2 u) x xs.
Proof.
  induction xs as [|y xs IH]; intros x; simpl; [reflexivity|].
  destruct (ew2 u x y); try reflexivity. apply IH.
Qed.

Lemma classify_vec : forall xs zs, classify xs = IntVec zs -> xs = map VInt zs.
Proof.
  intros xs zs H. unfold classify in H. destruct xs as [|x xs]; try discriminate.
  destruct x; try discriminate.
  - destruct (ints_of (VInt z :: xs)) eqn:Hi; try discriminate. inversion H. subst. apply ints_of_spec. exact Hi.
  - destruct (rows_of (VList l :: xs)); try discriminate. destruct (same_len _ _); discriminate.
Qed.

Lemma classify_mat : forall xs n rows, classify xs = IntMat n rows ->
  xs = map vints rows /\ exists r0 rest, rows = r0 :: rest /\ List.length r0 = n /\ same_len n rest = true.
Proof.
  intros xs n rows H. unfold classify in H. destruct xs as [|x xs]; try discriminate.
  destruct x; try discriminate.
  - destruct (ints_of (VInt z :: xs)); discriminate.
  - destruct (rows_of (VList l :: xs)) as [rs|] eqn:Hr; try discriminate.
    destruct (same_len (List.length l) rs) eqn:Hs; try discriminate.
    inversion H. subst. split; [apply rows_of_spec; exact Hr|].
    simpl in Hr. destruct (ints_of l) as [zs|] eqn:Hz; try discriminate.
    destruct (rows_of xs) as [rs'|]; try discriminate. inversion Hr. subst.
    exists zs, rs'. split; [reflexivity|].
    simpl in Hs. apply andb_prop in Hs. destruct Hs as [H1 H2]. apply Nat.eqb_eq in H1.
    split; [exact H1|]. exact H2.
Qed.

(* np.<ufunc>.reduce(a) is the left fold of the element-wise extension of the scalar operation,
   for EVERY operand: integer vectors, integer matrices (reduce along axis 0), and object arrays *)
Theorem np_reduce_is_fold : forall u xs, xs <> [] -> np_reduce u xs = over_pure (ew2 u) xs.
Proof.
  intros u xs Hne. unfold np_reduce. destruct (classify xs) as [zs|n rows|] eqn:Hc.
  - apply classify_vec in Hc. subst. destruct zs as [|z zs]; [exfalso; apply Hne; reflexivity|].
    cbn [map over_pure fold1]. rewrite fold_res_ints. reflexivity.
  - apply classify_mat in Hc. destruct Hc as [Hx [r0 [rest [Hrows [H0 Hs]]]]]. subst.
    cbn [map over_pure]. rewrite (fold_res_rows u (List.length r0)) by (reflexivity || exact Hs).
    f_equal. f_equal. apply reduce_axis0_is_fold; [reflexivity|exact Hs].
  - destruct xs as [|x xs]; [congruence|]. simpl. apply obj_reduce_fold.
Qed.

(* np.min / np.max of an integer vector is the left fold of the dyad *)
Lemma np_extreme_is_fold : forall (u : Z -> Z -> Z),
  (forall x y z, u x (u y z) = u (u x y) z) -> (forall x y, u x y = u y x) ->
  forall zs, np_extreme u zs = fold1 u 0 zs.
Proof.
  intros u Hassoc Hcomm zs. destruct zs as [|z zs]; [reflexivity|].
  simpl. symmetry. apply fold_symmetric; [exact Hassoc|intro y; apply Hcomm].
Qed.

(* ,/a on an integer vector is a, on an integer matrix the concatenation of its rows *)
Lemma fold_join_ints : forall zs acc,
  fold_res join (vints acc) (map VInt zs) = Ok (vints (acc ++ zs)).
Proof.
  induction zs as [|z zs IH]; intros acc; simpl.
  - rewrite app_nil_r. reflexivity.
  - unfold vints at 1. cbn [join]. change (VList (map VInt acc ++ [VInt z])) with (VList (map VInt acc ++ map VInt [z])).
    rewrite <- map_app. fold (vints (acc ++ [z])). rewrite IH. rewrite <- app_assoc. reflexivity.
Qed.

Lemma fold_join_rows : forall rows acc,
  fold_res join (vints acc) (map vints rows) = Ok (vints (acc ++ List.concat rows)).
Proof.
  induction rows as [|r rows IH]; intros acc; simpl.
  - rewrite app_nil_r. reflexivity.
  - unfold vints at 1 2. cbn [join]. rewrite <- map_app. fold (vints (acc ++ r)).
    rewrite IH. rewrite <- app_assoc. reflexivity.
Qed.

Section Shortcuts.
  Variable S : Type.

  Definition arith_ops : list (string * (Z -> Z -> Z)) :=
    [("+"%string, Z.add); ("-"%string, Z.sub); ("*"%string, Z.mul)].

  (* +/a -/a */a by ufunc.reduce = the expansion with the operator's own semantics, every operand *)
  Theorem over_shortcut_arith : forall op u (a : val) (s : S),
    In (op, u) arith_ops ->
    m_over over_table_model (Some op) (pure2 (ew2 u)) a s = s_over (pure2 (ew2 u)) a s.
  Proof.
    intros op u a s Hin. unfold m_over.
    destruct (is_atom a) eqn:Ha; [unfold s_over; rewrite Ha; reflexivity|].
    rewrite s_over_pure by exact Ha.
    destruct (items a) as [|x [|y xs]] eqn:Hit.
    - exfalso; eapply nonatom_items; eauto.
    - reflexivity.
    - assert (Hsc : over_shortcut over_table_model (Some op) (x :: y :: xs) = Some (np_reduce u (x :: y :: xs))).
      { simpl in Hin. destruct Hin as [H|[H|[H|[]]]]; inversion H; subst; reflexivity. }
      rewrite Hsc. unfold lift. rewrite np_reduce_is_fold by discriminate. reflexivity.
  Qed.

  (* &/a |/a: np.min / np.max on integer vectors, the generic fold otherwise *)
  Theorem over_shortcut_minmax : forall op u (a : val) (s : S),
    In (op, u) [("&"%string, Z.min); ("|"%string, Z.max)] ->
    m_over over_table_model (Some op) (pure2 (ew2 u)) a s = s_over (pure2 (ew2 u)) a s.
  Proof.
    intros op u a s Hin. unfold m_over.
    destruct (is_atom a) eqn:Ha; [unfold s_over; rewrite Ha; reflexivity|].
    rewrite s_over_pure by exact Ha.
    destruct (items a) as [|x [|y xs]] eqn:Hit.
    - exfalso; eapply nonatom_items; eauto.
    - reflexivity.
    - assert (Hsc : over_shortcut over_table_model (Some op) (x :: y :: xs)
                    = match classify (x :: y :: xs) with IntVec zs => Some (Ok (VInt (np_extreme u zs))) | _ => None end).
      { simpl in Hin. destruct Hin as [H|[H|[]]]; inversion H; subst; reflexivity. }
      rewrite Hsc. destruct (classify (x :: y :: xs)) as [zs| |] eqn:Hc.
      + unfold lift. apply classify_vec in Hc. rewrite Hc.
        destruct zs as [|z zs]; [discriminate|]. cbn [map over_pure]. rewrite fold_res_ints.
        f_equal. f_equal. f_equal.
        simpl in Hin. destruct Hin as [H|[H|[]]]; inversion H; subst.
        * apply (np_extreme_is_fold Z.min Z.min_assoc Z.min_comm (z :: zs)).
        * apply (np_extreme_is_fold Z.max Z.max_assoc Z.max_comm (z :: zs)).
      + rewrite py_reduce_pure. reflexivity.
      + rewrite py_reduce_pure. reflexivity.
  Qed.

  (* ,/a: the array itself (vector) or the concatenated rows (matrix), the generic fold otherwise *)
  Theorem over_shortcut_join : forall (a : val) (s : S),
    m_over over_table_model (Some ","%string) (pure2 join) a s = s_over (pure2 join) a s.
  Proof.
    intros a s. unfold m_over.
    destruct (is_atom a) eqn:Ha; [unfold s_over; rewrite Ha; reflexivity|].
    rewrite s_over_pure by exact Ha.
    destruct (items a) as [|x [|y xs]] eqn:Hit.
    - exfalso; eapply nonatom_items; eauto.
    - reflexivity.
    - change (over_shortcut over_table_model (Some ","%string) (x :: y :: xs))
        with (match classify (x :: y :: xs) with
              | IntVec zs => Some (Ok (vints zs))
              | IntMat _ rows => Some (Ok (vints (List.concat rows)))
              | Other => None
              end).
      destruct (classify (x :: y :: xs)) as [zs|n rows|] eqn:Hc.
      + unfold lift. apply classify_vec in Hc. rewrite Hc.
        destruct zs as [|z [|z2 zs]]; try discriminate.
        cbn [map over_pure fold_res join].
        change (VList [VInt z; VInt z2]) with (vints [z; z2]). rewrite fold_join_ints. reflexivity.
      + unfold lift. apply classify_mat in Hc. destruct Hc as [Hx [r0 [rest [Hrows [H0 Hs]]]]].
        rewrite Hx, Hrows. cbn [map over_pure]. rewrite fold_join_rows. reflexivity.
      + rewrite py_reduce_pure. reflexivity.
  Qed.
End Shortcuts.

(* ------------------------------------------------------------------ chains compose left to right *)
Section Chains.
  Variable S : Type.
  Variables ot st : table.

  Lemma chain_rest_snoc : forall fuel op advs (g : val -> M S val) s0,
    chain_rest ot st fuel op g (advs ++ [s0]) = adverb1 ot st fuel s0 op (V1 (chain_rest ot st fuel op g advs)).
  Proof.
    intros fuel op advs. induction advs as [|x advs IH]; intros g s0; simpl; [reflexivity|apply IH].
  Qed.

  Theorem chain_snoc : forall fuel op (v : verb S) a1 advs s0,
    m_chain ot st fuel op v ((a1 :: advs) ++ [s0])
    = adverb1 ot st fuel s0 op (V1 (m_chain ot st fuel op v (a1 :: advs))).
  Proof. intros. simpl. apply chain_rest_snoc. Qed.

  Theorem chain_single : forall fuel op (v : verb S) a1, m_chain ot st fuel op v [a1] = adverb1 ot st fuel a1 op v.
  Proof. reflexivity. Qed.
End Chains.

(* ------------------------------------------------------------------ Converge: termination and result along the orbit *)
Section Converge.
  Variable g : val -> res val.
  Variable x : nat -> val.          (* the orbit: x 0 = a, x (k+1) = g (x k) *)
  Variable n : nat.
  Hypothesis Hn : (1 <= n)%nat.
  Hypothesis Horbit : forall k, (k <= n)%nat -> g (x k) = Ok (x (Datatypes.S k)).
  Hypothesis Hmoving : forall k, (1 <= k < n)%nat -> conv_eq (x k) (x (Datatypes.S k)) = false.
  Hypothesis Hfix : conv_eq (x n) (x (Datatypes.S n)) = true.

  Definition calls_of (from len : nat) : list call := map (fun k => Call1 (x k)) (seq from len).

  Lemma converge_loop_orbit : forall d j fuel log,
    (j + d = n)%nat -> (1 <= j)%nat -> (d < fuel)%nat ->
    converge_loop fuel (logged1 g) (x j) (x (Datatypes.S j)) log
    = (Ok (x n), log ++ calls_of (Datatypes.S j) d).
  Proof.
    induction d as [|d IH]; intros j fuel log Hj H1 Hf; destruct fuel as [|fuel]; try lia.
    - assert (j = n) by lia. subst j. cbn [converge_loop]. rewrite Hfix.
      unfold ret, calls_of. simpl. rewrite app_nil_r. reflexivity.
    - cbn [converge_loop]. rewrite Hmoving by lia.
      unfold bind, logged1. rewrite Horbit by lia.
      rewrite (IH (Datatypes.S j) fuel) by lia.
      unfold calls_of. cbn [seq map]. rewrite <- app_assoc. reflexivity.
  Qed.

  Theorem converge_terminates : forall fuel log,
    (n <= fuel)%nat ->
    m_converge fuel (logged1 g) (x 0%nat) log = (Ok (x n), log ++ calls_of 0 (Datatypes.S n)).
  Proof.
    intros fuel log Hf. unfold m_converge, bind, logged1.
    rewrite Horbit by lia. rewrite Horbit by lia.
    rewrite (converge_loop_orbit (n - 1) 1 fuel) by lia.
    unfold calls_of. rewrite <- !app_assoc. f_equal.
    replace (Datatypes.S n) with (2 + (n - 1))%nat by lia.
    rewrite seq_app, map_app. reflexivity.
  Qed.
End Converge.

(* ------------------------------------------------------------------ While: termination and result along the orbit *)
Section While.
  Variable p g : val -> res val.
  Variable x : nat -> val.
  Variable n : nat.
  Hypothesis Horbit : forall k, (k < n)%nat -> g (x k) = Ok (x (Datatypes.S k)).
  Hypothesis Htrue : forall k, (k < n)%nat -> exists t, p (x k) = Ok t /\ truthy t = Ok true.
  Hypothesis Hfalse : exists t, p (x n) = Ok t /\ truthy t = Ok false.

  Definition while_calls (from len : nat) : list call :=
    flat_map (fun k => [CallP (x k); Call1 (x k)]) (seq from len).

  Lemma while_loop_orbit : forall d j fuel log,
    (j + d = n)%nat -> (d < fuel)%nat ->
    while_loop fuel (loggedp p) (logged1 g) (x j) log
    = (Ok (x n), log ++ while_calls j d ++ [CallP (x n)]).
  Proof.
    induction d as [|d IH]; intros j fuel log Hj Hf; destruct fuel as [|fuel]; try lia.
    - assert (j = n) by lia. subst j. cbn [while_loop]. unfold bind, loggedp.
      destruct Hfalse as [t [Hp Ht]]. rewrite Hp, Ht. reflexivity.
    - cbn [while_loop]. unfold bind at 1. unfold loggedp at 1.
      destruct (Htrue j) as [t [Hp Ht]]; [lia|]. rewrite Hp, Ht.
      unfold bind, logged1. rewrite Horbit by lia.
      rewrite (IH (Datatypes.S j) fuel) by lia.
      unfold while_calls. cbn [seq flat_map]. rewrite <- !app_assoc. reflexivity.
  Qed.

  Theorem while_terminates : forall fuel log,
    (n < fuel)%nat ->
    m_while fuel (loggedp p) (logged1 g) (x 0%nat) log = (Ok (x n), log ++ while_calls 0 n ++ [CallP (x n)]).
  Proof. intros. unfold m_while. apply while_loop_orbit; lia. Qed.
End While.
