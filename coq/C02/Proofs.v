(* C02/Proofs.v — lemmas behind Properties.v *)
From Coq Require Import ZArith List Bool String Lia.
From C02 Require Import Model Spec.
Import ListNotations.
Open Scope list_scope.
Open Scope Z_scope.

Ltac run m := let r := fresh "r" in let s := fresh "s" in let e := fresh "e" in
  destruct m as [[r|e|] s].

(* ------------------------------------------------------------------ loops = sequenced maps *)
Section Generic.
  Variable S : Type.
  Notation M := (M S).

  Lemma for_append_mapM : forall A (f : A -> M val) xs r s,
    for_append f xs r s = bind (mapM f xs) (fun us => ret (r ++ us)) s.
  Proof.
    induction xs as [|x xs IH]; intros r s; simpl.
    - unfold bind, ret. rewrite app_nil_r. reflexivity.
    - unfold bind at 1 2 3. run (f x s); try reflexivity.
      rewrite IH. unfold bind. run (mapM f xs s0); try reflexivity.
      unfold ret. rewrite <- app_assoc. reflexivity.
  Qed.

  Lemma for_append_nil : forall A (f : A -> M val) xs (k : list val -> M val) s,
    bind (for_append f xs []) k s = bind (mapM f xs) k s.
  Proof.
    intros. unfold bind at 1. rewrite for_append_mapM. unfold bind.
    run (mapM f xs s); reflexivity.
  Qed.

  Lemma for_zip_map2M : forall (f : val -> val -> M val) xs ys r s,
    for_zip f xs ys r s = bind (map2M f xs ys) (fun us => ret (r ++ us)) s.
  Proof.
    induction xs as [|x xs IH]; intros ys r s; simpl.
    - unfold bind, ret. rewrite app_nil_r. reflexivity.
    - destruct ys as [|y ys].
      + unfold bind, ret. rewrite app_nil_r. reflexivity.
      + unfold bind at 1 2 3. run (f x y s); try reflexivity.
        rewrite IH. unfold bind. run (map2M f xs ys s0); try reflexivity.
        unfold ret. rewrite <- app_assoc. reflexivity.
  Qed.

  Lemma for_zip_nil : forall (f : val -> val -> M val) xs ys (k : list val -> M val) s,
    bind (for_zip f xs ys []) k s = bind (map2M f xs ys) k s.
  Proof.
    intros. unfold bind at 1. rewrite for_zip_map2M. unfold bind.
    run (map2M f xs ys s); reflexivity.
  Qed.

  Lemma for_enum_mapM : forall (f : val -> M val) xs i r s,
    for_enum (fun i x => f (pair_val i x)) (Z.of_nat i) xs r s
    = bind (mapM f (map (fun p => pair_val (Z.of_nat (fst p)) (snd p)) (combine (seq i (List.length xs)) xs)))
           (fun us => ret (r ++ us)) s.
  Proof.
    induction xs as [|x xs IH]; intros i r s; simpl.
    - unfold bind, ret. rewrite app_nil_r. reflexivity.
    - unfold bind at 1 2 3. run (f (pair_val (Z.of_nat i) x) s); try reflexivity.
      replace (Z.of_nat i + 1) with (Z.of_nat (Datatypes.S i)) by lia.
      rewrite IH. unfold bind.
      match goal with |- context [mapM f ?l s0] => run (mapM f l s0) end; try reflexivity.
      unfold ret. rewrite <- app_assoc. reflexivity.
  Qed.

  (* ---------------------------------------------------------------- Each family *)
  Lemma norm_join_or_list : forall r, norm (join_or_list r) = norm (VList r).
  Proof.
    intro r. unfold join_or_list. destruct (all_chars r) eqn:H; [|reflexivity].
    simpl. f_equal. induction r as [|v r IH]; [reflexivity|].
    simpl in H. apply andb_prop in H. destruct H as [Hv Hr].
    destruct v; try discriminate. simpl. f_equal. apply IH. exact Hr.
  Qed.

  (* result of the model is the result of the expansion up to `norm`, in the same final state *)
  Definition agrees (x y : res val * S) : Prop := veq_res (fst x) (fst y) /\ snd x = snd y.

  Lemma agrees_refl : forall x, agrees x x.
  Proof. intros [[v|e|] s]; split; simpl; auto. Qed.

  Lemma each_agrees : forall (f : val -> M val) a s, agrees (m_each f a s) (s_each f a s).
  Proof.
    intros f a s. destruct a as [z|r|c|str|l|kvs].
    - apply agrees_refl.
    - apply agrees_refl.
    - apply agrees_refl.
    - destruct str as [|c str]; [apply agrees_refl|].
      unfold m_each, s_each. cbn [is_empty].
      remember (chars (c :: str)) as cs.
      rewrite for_append_nil. unfold bind.
      run (mapM f cs s); split; simpl; auto.
      apply norm_join_or_list.
    - destruct l as [|x l]; [apply agrees_refl|].
      unfold m_each, s_each. cbn [is_empty].
      remember (x :: l) as xs.
      rewrite for_append_nil. apply agrees_refl.
    - unfold m_each, s_each. cbn [is_empty].
      rewrite for_append_nil. apply agrees_refl.
  Qed.

  Lemma each_index_eq : forall (f : val -> M val) a s, m_each_index f a s = s_each_index f a s.
  Proof.
    intros f a s. unfold m_each_index, s_each_index.
    destruct (is_empty a) eqn:He; [reflexivity|].
    unfold is_atom. destruct (is_iterable a) eqn:Hi.
    - rewrite He. unfold bind at 1.
      change 0 with (Z.of_nat 0). rewrite for_enum_mapM. unfold indexed, bind.
      match goal with |- context [mapM f ?l s] => run (mapM f l s) end; reflexivity.
    - reflexivity.
  Qed.

  Lemma each_left_eq : forall (f : val -> val -> M val) a b s, m_each_left f a b s = s_each_left f a b s.
  Proof.
    intros f a b s. unfold m_each_left, s_each_left.
    destruct (is_empty b) eqn:He.
    - rewrite andb_false_r.
      destruct b as [| | |[|]|[|]|]; try discriminate; reflexivity.
    - rewrite andb_true_r. destruct (is_atom b); [reflexivity|].
      apply for_append_nil.
  Qed.

  Lemma each_right_eq : forall (f : val -> val -> M val) a b s, m_each_right f a b s = s_each_right f a b s.
  Proof.
    intros f a b s. unfold m_each_right, s_each_right.
    destruct (is_empty b) eqn:He.
    - rewrite andb_false_r.
      destruct b as [| | |[|]|[|]|]; try discriminate; reflexivity.
    - rewrite andb_true_r. destruct (is_atom b); [reflexivity|].
      apply for_append_nil.
  Qed.

  Lemma each_pair_eq : forall (f : val -> val -> M val) a s, m_each_pair f a s = s_each_pair f a s.
  Proof.
    intros f a s. unfold m_each_pair, s_each_pair.
    destruct (is_atom a) eqn:Ha; [reflexivity|]. cbn [orb].
    assert (Hi : is_iterable a = true).
    { unfold is_atom in Ha. destruct (is_iterable a); [reflexivity|discriminate]. }
    rewrite Hi. cbn [andb]. unfold vlen.
    destruct (items a) as [|x [|y xs]] eqn:Hit.
    - simpl. unfold bind, ret. reflexivity.
    - reflexivity.
    - cbn [Nat.eqb List.length]. apply for_zip_nil.
  Qed.

  Lemma each2_agrees : forall (f : val -> val -> M val) a b s,
    agrees (m_each2 f a b s) (s_each2 f a b s).
  Proof.
    intros f a b s. unfold m_each2, s_each2.
    destruct (is_empty a || is_empty b) eqn:He.
    - split; [|reflexivity]. simpl. destruct (is_list a || is_list b); reflexivity.
    - destruct (is_atom a && is_atom b); [apply agrees_refl|].
      assert (forall v, seq_of v = pairable v) as Hs by (intro v; destruct v; reflexivity).
      rewrite (Hs a), (Hs b).
      destruct (pairable a) as [xs|]; destruct (pairable b) as [ys|]; try apply agrees_refl.
      rewrite for_zip_nil. unfold bind.
      run (map2M f xs ys s); split; simpl; auto.
      apply norm_join_or_list.
  Qed.

  (* ---------------------------------------------------------------- Over: iteration = nesting *)
  Lemma nest_snoc : forall (f : val -> val -> M val) rl y s, rl <> [] ->
    nest f (y :: rl) s = bind (nest f rl) (fun v => f v y) s.
  Proof. intros f rl y s H. destruct rl; [congruence|reflexivity]. Qed.

  Lemma py_reduce_app : forall (f : val -> val -> M val) xs x y s,
    py_reduce f x (xs ++ [y]) s = bind (py_reduce f x xs) (fun v => f v y) s.
  Proof.
    induction xs as [|z xs IH]; intros x y s.
    - simpl. unfold bind, ret. run (f x y s); reflexivity.
    - cbn [py_reduce app]. unfold bind. run (f x z s); try reflexivity.
      rewrite IH. reflexivity.
  Qed.

  Lemma py_reduce_nest : forall (f : val -> val -> M val) xs x s,
    py_reduce f x xs s = nest f (rev (x :: xs)) s.
  Proof.
    intros f xs. induction xs as [|y xs IH] using rev_ind; intros x s.
    - reflexivity.
    - change (x :: xs ++ [y]) with ((x :: xs) ++ [y]). rewrite rev_app_distr. simpl rev at 1.
      change ([y] ++ rev (x :: xs)) with (y :: rev (x :: xs)).
      rewrite nest_snoc.
      2:{ simpl. destruct (rev xs); discriminate. }
      rewrite py_reduce_app. unfold bind. rewrite IH. reflexivity.
  Qed.

  Lemma over_generic_eq : forall tbl (f : val -> val -> M val) a s,
    m_over tbl None f a s = s_over f a s.
  Proof.
    intros tbl f a s. unfold m_over, s_over.
    destruct (is_atom a) eqn:Ha; [reflexivity|].
    destruct (items a) as [|x [|y xs]] eqn:Hit.
    - destruct a as [| | |[|]|[|]|]; simpl in *; try discriminate.
    - reflexivity.
    - change (over_shortcut tbl None (x :: y :: xs)) with (@None (res val)). cbv iota. apply py_reduce_nest.
  Qed.

  Lemma members_nonatom : forall b, is_atom b = false -> members b = items b.
  Proof. intros b H. unfold members. rewrite H. reflexivity. Qed.

  Lemma nonatom_items : forall b, is_atom b = false -> items b <> [].
  Proof. intros b H. destruct b as [| | |[|]|[|]|]; simpl in *; try discriminate. Qed.

  Lemma over_neutral_eq : forall (f : val -> val -> M val) a b s,
    m_over_neutral f a b s = s_over_neutral f a b s.
  Proof.
    intros f a b s. unfold m_over_neutral, s_over_neutral.
    destruct (is_empty b) eqn:He; [reflexivity|].
    destruct (is_atom b) eqn:Hb.
    - unfold members. rewrite Hb. simpl. unfold bind, ret. run (f a b s); reflexivity.
    - rewrite members_nonatom by exact Hb.
      destruct (items b) as [|x xs] eqn:Hit; [exfalso; eapply nonatom_items; eauto|].
      rewrite <- py_reduce_nest. simpl. reflexivity.
  Qed.

  (* ---------------------------------------------------------------- Scan *)
  Lemma scan_nest_snoc : forall (f : val -> val -> M val) rl y s, rl <> [] ->
    scan_nest f (y :: rl) s
    = bind (scan_nest f rl) (fun vs => bind (f (last vs (VInt 0)) y) (fun v => ret (vs ++ [v]))) s.
  Proof. intros f rl y s H. destruct rl; [congruence|reflexivity]. Qed.

  (* invariant of itertools.accumulate: `total` is the last value produced so far *)
  Lemma py_accumulate_last : forall (f : val -> val -> M val) xs total r s,
    last r (VInt 0) = total -> r <> [] ->
    forall vs s', py_accumulate f total xs r s = (Ok vs, s') -> vs <> [] .
  Proof.
    induction xs as [|x xs IH]; intros total r s Hl Hr vs s' H; simpl in H.
    - inversion H. subst. exact Hr.
    - unfold bind in H. run (f total x s); try discriminate.
      eapply IH in H; auto. apply last_last. destruct r; discriminate.
  Qed.

  Lemma py_accumulate_app : forall (f : val -> val -> M val) xs y total r s,
    last r (VInt 0) = total -> r <> [] ->
    py_accumulate f total (xs ++ [y]) r s
    = bind (py_accumulate f total xs r)
           (fun vs => bind (f (last vs (VInt 0)) y) (fun v => ret (vs ++ [v]))) s.
  Proof.
    induction xs as [|x xs IH]; intros y total r s Hl Hr; simpl.
    - unfold bind, ret. rewrite Hl. run (f total y s); reflexivity.
    - cbn [py_accumulate app]. unfold bind. run (f total x s); try reflexivity.
      rewrite IH; [unfold bind; reflexivity| apply last_last | destruct r; discriminate].
  Qed.

  Lemma py_accumulate_scan_nest : forall (f : val -> val -> M val) xs x s,
    py_accumulate f x xs [x] s = scan_nest f (rev (x :: xs)) s.
  Proof.
    intros f xs. induction xs as [|y xs IH] using rev_ind; intros x s.
    - reflexivity.
    - change (x :: xs ++ [y]) with ((x :: xs) ++ [y]). rewrite rev_app_distr. simpl rev at 1.
      change ([y] ++ rev (x :: xs)) with (y :: rev (x :: xs)).
      rewrite scan_nest_snoc.
      2:{ simpl. destruct (rev xs); discriminate. }
      rewrite py_accumulate_app; [|reflexivity|discriminate].
      unfold bind. rewrite IH. reflexivity.
  Qed.

  Lemma scan_generic_eq : forall tbl (f : val -> val -> M val) a s,
    m_scan tbl None f a s = s_scan f a s.
  Proof.
    intros tbl f a s. unfold m_scan, s_scan.
    destruct (is_empty a) eqn:He; [reflexivity|].
    destruct (is_atom a) eqn:Ha; [reflexivity|].
    destruct (items a) as [|x xs] eqn:Hit; [exfalso; eapply nonatom_items; eauto|].
    change (scan_shortcut tbl None (x :: xs)) with (@None (res val)). cbv iota.
    unfold bind. rewrite py_accumulate_scan_nest. reflexivity.
  Qed.

  (* [a, *q] where q = accumulate([f(a,b1), b2, ...]) is the scan of a,b1,b2,... *)
  Lemma scan_nest_cons2 : forall (f : val -> val -> M val) xs a x s,
    scan_nest f (rev (a :: x :: xs)) s
    = bind (f a x) (fun v0 => bind (py_accumulate f v0 xs [v0]) (fun q => ret (a :: q))) s.
  Proof.
    intros f xs. induction xs as [|y xs IH] using rev_ind; intros a x s.
    - cbn. unfold bind, ret. cbn. run (f a x s); reflexivity.
    - change (a :: x :: xs ++ [y]) with ((a :: x :: xs) ++ [y]). rewrite rev_app_distr. simpl rev at 1.
      change ([y] ++ rev (a :: x :: xs)) with (y :: rev (a :: x :: xs)).
      rewrite scan_nest_snoc.
      2:{ simpl. destruct (rev xs); discriminate. }
      unfold bind at 1. rewrite IH. unfold bind.
      run (f a x s); try reflexivity.
      rewrite py_accumulate_app; [|reflexivity|discriminate].
      unfold bind.
      destruct (py_accumulate f r xs [r] s0) as [[q|e|] s1] eqn:Hq; try reflexivity.
      unfold ret.
      assert (Hne : q <> []).
      { eapply (py_accumulate_last f xs r [r] s0); [reflexivity | discriminate | exact Hq]. }
      assert (Hlast : last (a :: q) (VInt 0) = last q (VInt 0)).
      { destruct q; [congruence|reflexivity]. }
      rewrite Hlast. run (f (last q (VInt 0)) y s1); reflexivity.
  Qed.

  Lemma scan_neutral_eq : forall (f : val -> val -> M val) a b s,
    m_scan_neutral f a b s = s_scan_neutral f a b s.
  Proof.
    intros f a b s. unfold m_scan_neutral, s_scan_neutral.
    destruct (is_empty b) eqn:He; [reflexivity|].
    fold (members b).
    destruct (members b) as [|x xs] eqn:Hm.
    - exfalso. unfold members in Hm. destruct (is_atom b) eqn:Hb; [discriminate|].
      eapply nonatom_items; eauto.
    - unfold bind at 3. rewrite scan_nest_cons2. unfold bind.
      run (f a x s); try reflexivity.
      run (py_accumulate f r xs [r] s0); reflexivity.
  Qed.

  (* ---------------------------------------------------------------- Iterate *)
  Lemma iterM_shift : forall n (f : val -> M val) b s,
    iterM (Datatypes.S n) f b s = bind (f b) (fun b' => iterM n f b') s.
  Proof.
    induction n as [|n IH]; intros f b s.
    - simpl. unfold bind, ret. run (f b s); reflexivity.
    - change (iterM (Datatypes.S (Datatypes.S n)) f b s) with (bind (iterM (Datatypes.S n) f b) f s).
      unfold bind at 1. rewrite IH. unfold bind. run (f b s); reflexivity.
  Qed.

  Lemma iterate_loop_eq : forall n fuel (f : val -> M val) b s,
    (n < fuel)%nat -> iterate_loop fuel f (Z.of_nat n) b s = iterM n f b s.
  Proof.
    induction n as [|n IH]; intros fuel f b s Hf; destruct fuel as [|k]; try lia.
    - reflexivity.
    - cbn [iterate_loop]. replace (Z.of_nat (Datatypes.S n) =? 0) with false by (symmetry; apply Z.eqb_neq; lia).
      rewrite iterM_shift. unfold bind. run (f b s); try reflexivity.
      replace (Z.of_nat (Datatypes.S n) - 1) with (Z.of_nat n) by lia. apply IH. lia.
  Qed.

  Lemma iterate_eq : forall (f : val -> M val) n b fuel s,
    0 <= n -> (Z.to_nat n < fuel)%nat ->
    m_iterate fuel f (VInt n) b s = s_iterate f n b s.
  Proof.
    intros f n b fuel s Hn Hf. unfold m_iterate, s_iterate.
    rewrite <- (Z2Nat.id n) at 1 by exact Hn. apply iterate_loop_eq. exact Hf.
  Qed.

  Lemma orbitM_nonempty : forall n (f : val -> M val) b s vs s',
    orbitM n f b s = (Ok vs, s') -> vs <> [].
  Proof.
    induction n; intros f b s vs s' Ho; simpl in Ho.
    - inversion Ho. discriminate.
    - unfold bind in Ho. destruct (orbitM n f b s) as [[ws|e|] s2]; try discriminate.
      destruct (f (last ws (VInt 0)) s2) as [[w|e|] s3]; try discriminate.
      inversion Ho. destruct ws; discriminate.
  Qed.

  Lemma orbitM_shift : forall n (f : val -> M val) b s,
    orbitM (Datatypes.S n) f b s
    = bind (f b) (fun b' => bind (orbitM n f b') (fun vs => ret (b :: vs))) s.
  Proof.
    induction n as [|n IH]; intros f b s.
    - cbn. unfold bind, ret. cbn. run (f b s); reflexivity.
    - change (orbitM (Datatypes.S (Datatypes.S n)) f b s)
        with (bind (orbitM (Datatypes.S n) f b) (fun vs => bind (f (last vs (VInt 0))) (fun v => ret (vs ++ [v]))) s).
      unfold bind at 1. rewrite IH. unfold bind. run (f b s); try reflexivity.
      change (orbitM (Datatypes.S n) f r s0)
        with (bind (orbitM n f r) (fun vs => bind (f (last vs (VInt 0))) (fun v => ret (vs ++ [v]))) s0).
      unfold bind. destruct (orbitM n f r s0) as [[vs|e|] s1] eqn:Ho; try reflexivity.
      unfold ret.
      assert (Hne : vs <> []) by (eapply orbitM_nonempty; exact Ho).
      assert (Hl : last (b :: vs) (VInt 0) = last vs (VInt 0)) by (destruct vs; [congruence|reflexivity]).
      rewrite Hl. run (f (last vs (VInt 0)) s1); reflexivity.
  Qed.

  Lemma scan_iter_loop_orbit : forall n fuel (f : val -> M val) b r s,
    (n < fuel)%nat ->
    scan_iter_loop fuel f (Z.of_nat n) b (r ++ [b]) s
    = bind (orbitM n f b) (fun vs => ret (VList (r ++ vs))) s.
  Proof.
    induction n as [|n IH]; intros fuel f b r s Hf; destruct fuel as [|k]; try lia.
    - reflexivity.
    - cbn [scan_iter_loop]. replace (Z.of_nat (Datatypes.S n) =? 0) with false by (symmetry; apply Z.eqb_neq; lia).
      unfold bind at 2. rewrite orbitM_shift. unfold bind. run (f b s); try reflexivity.
      replace (Z.of_nat (Datatypes.S n) - 1) with (Z.of_nat n) by lia.
      rewrite IH by lia. unfold bind. run (orbitM n f r0 s0); try reflexivity.
      unfold ret. rewrite <- app_assoc. reflexivity.
  Qed.

  Lemma scan_iterating_eq : forall (f : val -> M val) n b fuel s,
    0 <= n -> (Z.to_nat n < fuel)%nat ->
    m_scan_iterating fuel f (VInt n) b s = s_scan_iterating f n b s.
  Proof.
    intros f n b fuel s Hn Hf. unfold m_scan_iterating, s_scan_iterating.
    destruct (n =? 0); [reflexivity|].
    rewrite <- (Z2Nat.id n) at 1 by exact Hn.
    change [b] with ([] ++ [b]). rewrite scan_iter_loop_orbit by exact Hf. reflexivity.
  Qed.
End Generic.

(* ------------------------------------------------------------------ pure verbs: the fold as a value *)
Section Pure.
  Variable S : Type.

  Lemma py_reduce_pure : forall (g : val -> val -> res val) xs x (s : S),
    py_reduce (pure2 g) x xs s = (fold_res g x xs, s).
  Proof.
    induction xs as [|y xs IH]; intros x s; simpl.
    - reflexivity.
    - unfold bind, pure2, lift at 1. destruct (g x y) as [v|e|]; try reflexivity. apply IH.
  Qed.

  Lemma s_over_pure : forall (g : val -> val -> res val) a (s : S),
    is_atom a = false -> s_over (pure2 g) a s = (over_pure g (items a), s).
  Proof.
    intros g a s Ha. unfold s_over. rewrite Ha.
    destruct (items a) as [|x xs] eqn:Hit; [exfalso; eapply nonatom_items; eauto|].
    rewrite <- py_reduce_nest. apply py_reduce_pure.
  Qed.
End Pure.

(* ------------------------------------------------------------------ the operator shortcuts *)
Lemma num_of_vnum : forall v n, num_of v = Some n -> v = vnum n.
Proof. intros v n H. destruct v; inversion H; reflexivity. Qed.

Lemma nums_of_spec : forall xs ns, nums_of xs = Some ns -> xs = map vnum ns.
Proof.
  induction xs as [|x xs IH]; intros ns H; simpl in H.
  - inversion H. reflexivity.
  - destruct (num_of x) as [n|] eqn:Hn; try discriminate.
    destruct (nums_of xs) as [ns'|]; try discriminate.
    inversion H. simpl. f_equal; [apply num_of_vnum; exact Hn|apply IH; reflexivity].
Qed.

Lemma rows_of_spec : forall xs rows, rows_of xs = Some rows -> xs = map vnums rows.
Proof.
  induction xs as [|x xs IH]; intros rows H; simpl in H.
  - inversion H. reflexivity.
  - destruct x; try discriminate.
    destruct (nums_of l) as [zs|] eqn:Hz; try discriminate.
    destruct (rows_of xs) as [rs|]; try discriminate.
    inversion H. simpl. f_equal.
    + unfold vnums. f_equal. apply nums_of_spec. exact Hz.
    + apply IH. reflexivity.
Qed.

Lemma ew2_vnum : forall u a b, ew2 u (vnum a) (vnum b) = Ok (vnum (u a b)).
Proof. intros u [x|x] [y|y]; reflexivity. Qed.

Lemma is_list_vnum : forall n, is_list (vnum n) = false.
Proof. intros [x|x]; reflexivity. Qed.

Lemma fold_res_nums : forall u zs z,
  fold_res (ew2 u) (vnum z) (map vnum zs) = Ok (vnum (fold_left u zs z)).
Proof. induction zs as [|y zs IH]; intros z; cbn [map fold_res fold_left]; [reflexivity|]. rewrite ew2_vnum. apply IH. Qed.

(* element-wise operation on two numeric rows of the same length *)
Lemma ew2_rows : forall u r1 r2, List.length r1 = List.length r2 ->
  ew2 u (vnums r1) (vnums r2) = Ok (vnums (zipw u r1 r2)).
Proof.
  intros u r1. unfold vnums.
  induction r1 as [|a r1 IH]; intros r2 Hlen; destruct r2 as [|b r2]; try discriminate.
  - reflexivity.
  - simpl in Hlen. injection Hlen as Hlen. specialize (IH r2 Hlen).
    cbn [map ew2] in IH |- *. rewrite !is_list_vnum. cbn [Bool.eqb negb].
    rewrite ew2_vnum.
    match type of IH with ?lhs = _ => match goal with |- context [lhs] => rewrite IH end end.
    reflexivity.
Qed.

Lemma zipw_length : forall A (u : A -> A -> A) r1 r2, List.length r1 = List.length r2 ->
  List.length (zipw u r1 r2) = List.length r1.
Proof. intros. unfold zipw. rewrite map_length, combine_length, <- H. apply Nat.min_id. Qed.

Lemma fold_res_rows : forall u n rows r0,
  List.length r0 = n -> same_len n rows = true ->
  fold_res (ew2 u) (vnums r0) (map vnums rows) = Ok (vnums (fold_left (zipw u) rows r0)).
Proof.
  intros u n rows. induction rows as [|r rows IH]; intros r0 H0 Hs; cbn [map fold_res fold_left].
  - reflexivity.
  - simpl in Hs. apply andb_prop in Hs. destruct Hs as [Hr Hs]. apply Nat.eqb_eq in Hr.
    rewrite ew2_rows by congruence. apply IH; [|exact Hs].
    rewrite zipw_length by congruence. exact H0.
Qed.

(* reduce along axis 0, column by column  =  left fold of the row-wise operation *)
Section Axis0.
  Variable A : Type.
  Variable u : A -> A -> A.
  Variable d : A.

  Lemma nth_zipw : forall r1 r2 j, List.length r1 = List.length r2 -> (j < List.length r1)%nat ->
    nth j (zipw u r1 r2) d = u (nth j r1 d) (nth j r2 d).
  Proof.
    induction r1 as [|a r1 IH]; intros r2 j Hl Hj; destruct r2 as [|b r2]; simpl in *; try lia.
    destruct j; [reflexivity|]. apply IH; lia.
  Qed.

  Lemma fold_zipw_length : forall rows acc n,
    List.length acc = n -> forallb (fun r => Nat.eqb (List.length r) n) rows = true ->
    List.length (fold_left (zipw u) rows acc) = n.
  Proof.
    induction rows as [|r rows IH]; intros acc n Ha Hs; simpl; [exact Ha|].
    simpl in Hs. apply andb_prop in Hs. destruct Hs as [Hr Hs]. apply Nat.eqb_eq in Hr.
    apply IH; [|exact Hs]. rewrite zipw_length by congruence. exact Ha.
  Qed.

  Lemma nth_fold_zipw : forall rows acc n j,
    List.length acc = n -> forallb (fun r => Nat.eqb (List.length r) n) rows = true -> (j < n)%nat ->
    nth j (fold_left (zipw u) rows acc) d = fold_left u (map (fun r => nth j r d) rows) (nth j acc d).
  Proof.
    induction rows as [|r rows IH]; intros acc n j Ha Hs Hj; simpl; [reflexivity|].
    simpl in Hs. apply andb_prop in Hs. destruct Hs as [Hr Hs]. apply Nat.eqb_eq in Hr.
    rewrite (IH (zipw u acc r) n j); [|rewrite zipw_length by congruence; exact Ha|exact Hs|exact Hj].
    rewrite nth_zipw by (congruence || lia). reflexivity.
  Qed.

  Lemma list_as_nth_map : forall (l : list A) n, List.length l = n ->
    l = map (fun j => nth j l d) (seq 0 n).
  Proof.
    intros l n Hn. apply (nth_ext _ _ d d).
    - rewrite map_length, seq_length. exact Hn.
    - intros j Hj. rewrite Hn in Hj.
      rewrite (nth_indep (map (fun j0 => nth j0 l d) (seq 0 n)) d ((fun j0 => nth j0 l d) 0%nat))
        by (rewrite map_length, seq_length; exact Hj).
      etransitivity; [|symmetry; apply (map_nth (fun j0 => nth j0 l d) (seq 0 n) 0%nat j)].
      cbv beta. rewrite seq_nth by exact Hj. reflexivity.
  Qed.

  Theorem reduce_axis0_is_fold : forall n r0 rows,
    List.length r0 = n -> forallb (fun r => Nat.eqb (List.length r) n) rows = true ->
    reduce_axis0 u d n (r0 :: rows) = fold_left (zipw u) rows r0.
  Proof.
    intros n r0 rows H0 Hs. unfold reduce_axis0, transpose.
    rewrite (list_as_nth_map (fold_left (zipw u) rows r0) n) by (apply fold_zipw_length; assumption).
    rewrite map_map. apply map_ext_in. intros j Hj. apply in_seq in Hj.
    unfold col. cbn [map fold1]. symmetry. apply (nth_fold_zipw rows r0 n j); try assumption. lia.
  Qed.
End Axis0.

Lemma obj_reduce_fold : forall u xs x, obj_reduce u x xs = fold_res (ew2 u) x xs.
Proof.
  induction xs as [|y xs IH]; intros x; simpl; [reflexivity|].
  destruct (ew2 u x y); try reflexivity. apply IH.
Qed.

Lemma classify_vec : forall xs ns, classify xs = NumVec ns -> xs = map vnum ns.
Proof.
  intros xs ns H. unfold classify in H. destruct xs as [|x xs]; try discriminate.
  destruct x;
    try (destruct (nums_of _) as [ms|] eqn:Hi; try discriminate;
         destruct (uniform ms); try discriminate; inversion H; subst; apply nums_of_spec; exact Hi).
  destruct (rows_of (VList l :: xs)); try discriminate. destruct (_ && _); discriminate.
Qed.

Lemma classify_mat : forall xs n rows, classify xs = NumMat n rows ->
  xs = map vnums rows /\ exists r0 rest, rows = r0 :: rest /\ List.length r0 = n /\ same_len n rest = true.
Proof.
  intros xs n rows H. unfold classify in H. destruct xs as [|x xs]; try discriminate.
  destruct x;
    try (destruct (nums_of _) as [ms|]; try discriminate; destruct (uniform ms); discriminate).
  destruct (rows_of (VList l :: xs)) as [rs|] eqn:Hr; try discriminate.
  destruct (same_len (List.length l) rs && uniform (List.concat rs)) eqn:Hs; try discriminate.
  inversion H. subst. split; [apply rows_of_spec; exact Hr|].
  apply andb_prop in Hs. destruct Hs as [Hs _].
  simpl in Hr. destruct (nums_of l) as [zs|] eqn:Hz; try discriminate.
  destruct (rows_of xs) as [rs'|]; try discriminate. inversion Hr. subst.
  exists zs, rs'. split; [reflexivity|].
  simpl in Hs. apply andb_prop in Hs. destruct Hs as [H1 H2]. apply Nat.eqb_eq in H1.
  split; [exact H1|]. exact H2.
Qed.

(* what the cast of a ufunc must satisfy: casting an operand does not change the result of the
   operation (true for "no cast", and for true_divide whose operation converts to binary64 itself) *)
Definition uf_ok (uf : ufunc) : Prop :=
  (forall a b, uf_op uf (uf_cast uf a) b = uf_op uf a b) /\ (forall a b, uf_op uf a (uf_cast uf b) = uf_op uf a b).

Lemma uf_ok_same : forall u, uf_ok {| uf_cast := same_dtype; uf_op := u |}.
Proof. intro u. split; reflexivity. Qed.

Lemma uf_ok_divide : uf_ok {| uf_cast := cast_real; uf_op := n_div |}.
Proof. split; intros a b; destruct a, b; reflexivity. Qed.

Section Cast.
  Variable uf : ufunc.
  Hypothesis Hok : uf_ok uf.
  Let c := uf_cast uf.
  Let u := uf_op uf.

  Lemma fold_cast : forall l a, fold_left u (map c l) a = fold_left u l a.
  Proof.
    induction l as [|x l IH]; intro a; simpl; [reflexivity|].
    unfold u, c at 1. rewrite (proj2 Hok). apply IH.
  Qed.

  Lemma fold1_cast : forall n0 n1 rest,
    fold1 u (NI 0) (map c (n0 :: n1 :: rest)) = fold_left u (n1 :: rest) n0.
  Proof.
    intros. cbn [map fold1 fold_left]. rewrite fold_cast.
    unfold u, c. rewrite (proj1 Hok), (proj2 Hok). reflexivity.
  Qed.

  Lemma zipw_cast_r : forall acc r, zipw u acc (map c r) = zipw u acc r.
  Proof.
    induction acc as [|a acc IH]; intros r; destruct r as [|b r]; try reflexivity.
    unfold zipw in *. cbn [map combine fst snd]. f_equal; [unfold u, c; apply (proj2 Hok)|apply IH].
  Qed.

  Lemma zipw_cast_l : forall acc r, zipw u (map c acc) r = zipw u acc r.
  Proof.
    induction acc as [|a acc IH]; intros r; destruct r as [|b r]; try reflexivity.
    unfold zipw in *. cbn [map combine fst snd]. f_equal; [unfold u, c; apply (proj1 Hok)|apply IH].
  Qed.

  Lemma fold_zipw_cast : forall rows acc, fold_left (zipw u) (map (map c) rows) acc = fold_left (zipw u) rows acc.
  Proof.
    induction rows as [|r rows IH]; intro acc; simpl; [reflexivity|]. rewrite zipw_cast_r. apply IH.
  Qed.

  Lemma same_len_cast : forall n rows, same_len n rows = true ->
    forallb (fun r => Nat.eqb (List.length r) n) (map (map c) rows) = true.
  Proof.
    induction rows as [|r rows IH]; intro H; simpl in *; [reflexivity|].
    apply andb_prop in H. destruct H as [H1 H2]. rewrite map_length, H1. apply IH. exact H2.
  Qed.

  (* np.<ufunc>.reduce(a) is the left fold of the element-wise extension of the scalar operation,
     for EVERY operand of at least two elements: numeric vectors, numeric matrices (reduce along axis 0),
     and object arrays *)
  Theorem np_reduce_is_fold : forall x y xs,
    np_reduce uf (x :: y :: xs) = over_pure (ew2 u) (x :: y :: xs).
  Proof.
    intros x y xs. unfold np_reduce. destruct (classify (x :: y :: xs)) as [ns|n rows|] eqn:Hc.
    - apply classify_vec in Hc. destruct ns as [|n0 [|n1 rest]]; try discriminate.
      rewrite Hc. fold c u. rewrite fold1_cast. cbn [map over_pure].
      change (vnum n1 :: map vnum rest) with (map vnum (n1 :: rest)). rewrite fold_res_nums. reflexivity.
    - apply classify_mat in Hc. destruct Hc as [Hx [r0 [rest [Hrows [H0 Hs]]]]]. subst rows. subst n.
      rewrite Hx. cbn [map over_pure]. rewrite (fold_res_rows u (List.length r0)) by (reflexivity || exact Hs).
      f_equal. f_equal. fold c u. cbn [map].
      rewrite (reduce_axis0_is_fold num u (NI 0) (List.length r0) (map c r0) (map (map c) rest));
        [|rewrite map_length; reflexivity|apply same_len_cast; exact Hs].
      rewrite fold_zipw_cast. destruct rest as [|r1 rest]; [destruct xs; discriminate|].
      cbn [fold_left]. rewrite zipw_cast_l. reflexivity.
    - cbn [over_pure]. apply obj_reduce_fold.
  Qed.
End Cast.

(* np.min / np.max of an integer vector is the left fold of the dyad *)
Lemma np_extreme_is_fold_Z : forall (u : Z -> Z -> Z),
  (forall x y z, u x (u y z) = u (u x y) z) -> (forall x y, u x y = u y x) ->
  forall z zs, fold_right u z zs = fold_left u zs z.
Proof. intros u Hassoc Hcomm z zs. symmetry. apply fold_symmetric; [exact Hassoc|intro y; apply Hcomm]. Qed.

Definition all_int (ns : list num) : bool := forallb (fun n => negb (is_real n)) ns.

Lemma all_int_spec : forall ns, all_int ns = true -> exists zs, ns = map NI zs.
Proof.
  induction ns as [|n ns IH]; intro H; [exists []; reflexivity|].
  simpl in H. apply andb_prop in H. destruct H as [H1 H2]. destruct n; try discriminate.
  destruct (IH H2) as [zs Hz]. exists (z :: zs). simpl. f_equal. exact Hz.
Qed.

Lemma fold_right_NI : forall fo zo, (forall x y, arith_op zo fo (NI x) (NI y) = NI (zo x y)) ->
  forall zs z, fold_right (arith_op zo fo) (NI z) (map NI zs) = NI (fold_right zo z zs).
Proof. intros fo zo H zs z. induction zs as [|y zs IH]; simpl; [reflexivity|]. rewrite IH. apply H. Qed.

Lemma fold_left_NI : forall fo zo,
  forall zs z, fold_left (arith_op zo fo) (map NI zs) (NI z) = NI (fold_left zo zs z).
Proof. intros fo zo zs. induction zs as [|y zs IH]; intro z; simpl; [reflexivity|]. apply IH. Qed.

(* ,/a on a numeric vector is a, on a numeric matrix the concatenation of its rows *)
Lemma join_list_vnum : forall l n, join (VList l) (vnum n) = Ok (VList (l ++ [vnum n])).
Proof. intros l [x|x]; reflexivity. Qed.

Lemma join_vnum_vnum : forall a b, join (vnum a) (vnum b) = Ok (VList [vnum a; vnum b]).
Proof. intros [x|x] [y|y]; reflexivity. Qed.

Lemma fold_join_nums : forall zs acc,
  fold_res join (vnums acc) (map vnum zs) = Ok (vnums (acc ++ zs)).
Proof.
  induction zs as [|z zs IH]; intros acc; cbn [map fold_res].
  - rewrite app_nil_r. reflexivity.
  - unfold vnums at 1. rewrite join_list_vnum.
    change (VList (map vnum acc ++ [vnum z])) with (VList (map vnum acc ++ map vnum [z])).
    rewrite <- map_app. fold (vnums (acc ++ [z])). rewrite IH. rewrite <- app_assoc. reflexivity.
Qed.

Lemma fold_join_rows : forall rows acc,
  fold_res join (vnums acc) (map vnums rows) = Ok (vnums (acc ++ List.concat rows)).
Proof.
  induction rows as [|r rows IH]; intros acc; simpl.
  - rewrite app_nil_r. reflexivity.
  - unfold vnums at 1 2. cbn [join]. rewrite <- map_app. fold (vnums (acc ++ r)).
    rewrite IH. rewrite <- app_assoc. reflexivity.
Qed.

Section Shortcuts.
  Variable S : Type.

  (* operator, its NumPy ufunc, its Klong semantics on numbers *)
  Definition reduce_ops : list (string * (ufunc * (num -> num -> num))) :=
    [("+"%string, ({| uf_cast := same_dtype; uf_op := n_add |}, n_add));
     ("-"%string, ({| uf_cast := same_dtype; uf_op := n_sub |}, n_sub));
     ("*"%string, ({| uf_cast := same_dtype; uf_op := n_mul |}, n_mul));
     ("%"%string, ({| uf_cast := cast_real; uf_op := n_div |}, n_div))].

  (* +/a -/a */a by ufunc.reduce = the expansion with the operator's own semantics, every operand *)
  Theorem over_shortcut_arith : forall op u (a : val) (s : S),
    In (op, u) [("+"%string, n_add); ("-"%string, n_sub); ("*"%string, n_mul)] ->
    m_over over_table_model (Some op) (pure2 (ew2 u)) a s = s_over (pure2 (ew2 u)) a s.
  Proof.
    intros op u a s Hin. unfold m_over.
    destruct (is_atom a) eqn:Ha; [unfold s_over; rewrite Ha; reflexivity|].
    rewrite s_over_pure by exact Ha.
    destruct (items a) as [|x [|y xs]] eqn:Hit.
    - exfalso; eapply nonatom_items; eauto.
    - reflexivity.
    - simpl in Hin. destruct Hin as [H|[H|[H|[]]]]; inversion H; subst.
      + change (over_shortcut over_table_model (Some "+"%string) (x :: y :: xs))
          with (Some (np_reduce {| uf_cast := same_dtype; uf_op := n_add |} (x :: y :: xs))).
        unfold lift. rewrite np_reduce_is_fold by apply uf_ok_same. reflexivity.
      + change (over_shortcut over_table_model (Some "-"%string) (x :: y :: xs))
          with (Some (np_reduce {| uf_cast := same_dtype; uf_op := n_sub |} (x :: y :: xs))).
        unfold lift. rewrite np_reduce_is_fold by apply uf_ok_same. reflexivity.
      + change (over_shortcut over_table_model (Some "*"%string) (x :: y :: xs))
          with (Some (np_reduce {| uf_cast := same_dtype; uf_op := n_mul |} (x :: y :: xs))).
        unfold lift. rewrite np_reduce_is_fold by apply uf_ok_same. reflexivity.
  Qed.

  (* ---- Divide.  The verb: a%0 is :undefined for atoms (klong_div), element-wise true division otherwise. *)
  Definition no_zero_scalars (l : list val) : bool := forallb (fun v => negb (is_zero_scalar v)) l.

  Lemma klong_div_nonzero : forall a b, is_zero_scalar b = false -> klong_div a b = ew2 n_div a b.
  Proof. intros a b H. unfold klong_div. rewrite H, andb_false_r. reflexivity. Qed.

  Lemma fold_res_klong_div : forall xs x, no_zero_scalars xs = true ->
    fold_res klong_div x xs = fold_res (ew2 n_div) x xs.
  Proof.
    induction xs as [|y xs IH]; intros x H; [reflexivity|].
    simpl in H. apply andb_prop in H. destruct H as [Hy Hxs]. apply negb_true_iff in Hy.
    cbn [fold_res]. rewrite klong_div_nonzero by exact Hy. destruct (ew2 n_div x y); try reflexivity. apply IH. exact Hxs.
  Qed.

  Lemma is_zero_scalar_vnum : forall n, is_zero_scalar (vnum n) = is_zero_num n.
  Proof. intros [z|f]; reflexivity. Qed.

  Lemma guard_no_zero : forall x xs,
    zero_divisor (x :: xs) = false ->
    (match classify (x :: xs) with Other => no_zero_scalars xs | _ => true end) = true ->
    no_zero_scalars xs = true.
  Proof.
    intros x xs Hz Hd. unfold zero_divisor in Hz.
    destruct (classify (x :: xs)) as [ns|n rows|] eqn:Hc.
    - apply classify_vec in Hc. destruct ns as [|n0 rest]; [discriminate|].
      cbn [map] in Hc. injection Hc as _ Hxs. subst xs. cbn [tl] in Hz.
      unfold no_zero_scalars. rewrite forallb_forall. intros v Hv. apply in_map_iff in Hv.
      destruct Hv as [m [Hm Hin]]. subst v. rewrite is_zero_scalar_vnum.
      apply negb_true_iff. destruct (is_zero_num m) eqn:Hzm; [|reflexivity].
      exfalso. assert (existsb is_zero_num rest = true) by (apply existsb_exists; exists m; split; assumption).
      congruence.
    - apply classify_mat in Hc. destruct Hc as [Hx _]. destruct rows as [|r0 rest]; [discriminate|].
      cbn [map] in Hx. injection Hx as _ Hxs. subst xs.
      unfold no_zero_scalars. rewrite forallb_forall. intros v Hv. apply in_map_iff in Hv.
      destruct Hv as [r [Hr _]]. subst v. reflexivity.
    - exact Hd.
  Qed.

  (* ---- object arrays: the guard is False only if every zero number among the divisors comes after a list
     element, and from a list element on the running quotient is a list, for which the verb never gives :undefined *)
  Fixpoint zsafe (l : list val) : bool :=
    match l with
    | [] => true
    | v :: l' => if is_list v then true else negb (is_zero_scalar v) && zsafe l'
    end.

  Lemma zfold_true : forall l, zfold (ZB true) l = Some (ZB true).
  Proof. induction l as [|c l IH]; [reflexivity|exact IH]. Qed.

  Lemma zcmp_nonlist : forall v, is_list v = false -> zcmp v = ZB (is_zero_scalar v).
  Proof. intros v H. destruct v; try reflexivity; discriminate. Qed.

  Lemma unsafe_guard : forall l, zsafe l = false -> zfold (ZB false) (map zcmp l) = Some (ZB true).
  Proof.
    induction l as [|v l IH]; intro H; [discriminate|].
    cbn [zsafe] in H. destruct (is_list v) eqn:Hl; [discriminate|].
    cbn [map zfold zc_truth]. rewrite (zcmp_nonlist v Hl).
    destruct (is_zero_scalar v); [apply zfold_true|]. apply IH. exact H.
  Qed.

  Lemma guard_obj_safe : forall l, zero_divisor_obj l = false -> zsafe l = true.
  Proof.
    intros l H. destruct (zsafe l) eqn:Hs; [reflexivity|].
    unfold zero_divisor_obj in H. rewrite (unsafe_guard l Hs) in H. discriminate.
  Qed.

  Lemma ew_sl_list : forall u x lb v, ew_sl u x (VList lb) = Ok v -> is_list v = true.
  Proof.
    intros u x lb v H. destruct lb as [|e l]; cbn in H; [inversion H; reflexivity|].
    destruct (ew_sl u x e); try discriminate.
    match type of H with context [match ?t with _ => _ end] => destruct t as [[]| |] end;
      try discriminate; inversion H; reflexivity.
  Qed.

  Lemma ew2_list_l : forall u la b v, ew2 u (VList la) b = Ok v -> is_list v = true.
  Proof.
    intros u la b v H. destruct b as [z|f|c|st|lb|kvs]; cbn in H; try discriminate.
    - destruct la as [|e l]; [inversion H; reflexivity|].
      destruct (ew2 u e (VInt z)); try discriminate.
      match type of H with context [match ?t with _ => _ end] => destruct t as [[]| |] end;
        try discriminate; inversion H; reflexivity.
    - destruct la as [|e l]; [inversion H; reflexivity|].
      destruct (ew2 u e (VReal f)); try discriminate.
      match type of H with context [match ?t with _ => _ end] => destruct t as [[]| |] end;
        try discriminate; inversion H; reflexivity.
    - destruct la as [|e l]; destruct lb as [|y m]; try discriminate; [inversion H; reflexivity|].
      destruct (negb (Bool.eqb (is_list e) (is_list y))); try discriminate.
      destruct (ew2 u e y); try discriminate.
      match type of H with context [match ?t with _ => _ end] => destruct t as [[]| |] end;
        try discriminate; inversion H; reflexivity.
  Qed.

  Lemma ew2_list_result : forall u a b v, ew2 u a b = Ok v -> is_list a || is_list b = true -> is_list v = true.
  Proof.
    intros u a b v H Hl. destruct a as [z|f|c|st|la|kvs]; try discriminate.
    - destruct b; try discriminate. eapply (ew_sl_list u (NI z)). exact H.
    - destruct b; try discriminate. eapply (ew_sl_list u (NR f)). exact H.
    - eapply ew2_list_l. exact H.
  Qed.

  Lemma klong_div_list : forall a b, is_list a = true -> klong_div a b = ew2 n_div a b.
  Proof. intros a b H. unfold klong_div. rewrite H. reflexivity. Qed.

  Lemma fold_klong_div_list : forall xs x, is_list x = true ->
    fold_res klong_div x xs = fold_res (ew2 n_div) x xs.
  Proof.
    induction xs as [|y xs IH]; intros x Hx; [reflexivity|]. cbn [fold_res].
    rewrite klong_div_list by exact Hx. destruct (ew2 n_div x y) as [v|e|] eqn:He; try reflexivity.
    apply IH. eapply ew2_list_result; [exact He|]. rewrite Hx. reflexivity.
  Qed.

  Lemma klong_div_rlist : forall x y, is_list y = true -> klong_div x y = ew2 n_div x y.
  Proof. intros x y H. unfold klong_div. destruct y; try discriminate. rewrite andb_false_r. reflexivity. Qed.

  Lemma fold_klong_div_safe : forall xs x, zsafe xs = true ->
    fold_res klong_div x xs = fold_res (ew2 n_div) x xs.
  Proof.
    induction xs as [|y xs IH]; intros x H; [reflexivity|]. cbn [zsafe] in H. cbn [fold_res].
    destruct (is_list y) eqn:Hy.
    - rewrite (klong_div_rlist x y Hy). destruct (ew2 n_div x y) as [v|e|] eqn:He; try reflexivity.
      apply fold_klong_div_list. eapply ew2_list_result; [exact He|]. rewrite Hy. apply orb_true_r.
    - apply andb_prop in H. destruct H as [Hz Hs]. apply negb_true_iff in Hz.
      rewrite klong_div_nonzero by exact Hz. destruct (ew2 n_div x y); try reflexivity. apply IH. exact Hs.
  Qed.

  Lemma no_zero_safe : forall l, no_zero_scalars l = true -> zsafe l = true.
  Proof.
    induction l as [|v l IH]; intro H; [reflexivity|]. simpl in H. apply andb_prop in H. destruct H as [Hv Hl].
    cbn [zsafe]. destruct (is_list v); [reflexivity|]. rewrite Hv. apply IH. exact Hl.
  Qed.

  (* whenever the guard lets the shortcut through, no application of the fold gives :undefined *)
  Lemma guard_safe : forall x xs, zero_divisor (x :: xs) = false -> zsafe xs = true.
  Proof.
    intros x xs Hz. pose proof Hz as Hz'. unfold zero_divisor in Hz.
    destruct (classify (x :: xs)) as [ns|n rows|] eqn:Hc.
    - apply no_zero_safe. apply (guard_no_zero x xs Hz'). rewrite Hc. reflexivity.
    - apply no_zero_safe. apply (guard_no_zero x xs Hz'). rewrite Hc. reflexivity.
    - apply guard_obj_safe. exact Hz.
  Qed.

  (* %/a: divide.reduce (guarded by `not _has_zero_divisor(a)`) = the expansion with the verb's own
     semantics, :undefined for a zero divisor included *)
  Theorem over_shortcut_divide : forall (a : val) (s : S),
    m_over over_table_model (Some "%"%string) (pure2 klong_div) a s = s_over (pure2 klong_div) a s.
  Proof.
    intros a s. unfold m_over.
    destruct (is_atom a) eqn:Ha; [unfold s_over; rewrite Ha; reflexivity|].
    rewrite s_over_pure by exact Ha.
    destruct (items a) as [|x [|y xs]] eqn:Hit.
    - exfalso; eapply nonatom_items; eauto.
    - reflexivity.
    - change (over_shortcut over_table_model (Some "%"%string) (x :: y :: xs))
        with (if zero_divisor (x :: y :: xs) then None
              else Some (np_reduce {| uf_cast := cast_real; uf_op := n_div |} (x :: y :: xs))).
      destruct (zero_divisor (x :: y :: xs)) eqn:Hz.
      + rewrite py_reduce_pure. reflexivity.
      + unfold lift. rewrite np_reduce_is_fold by apply uf_ok_divide.
        cbn [over_pure uf_op]. rewrite fold_klong_div_safe; [reflexivity|].
        apply (guard_safe x (y :: xs) Hz).
  Qed.

  (* &/a |/a: np.min / np.max (= minimum.reduce / maximum.reduce) on vectors, the generic fold otherwise *)
  Theorem over_shortcut_minmax : forall op u (a : val) (s : S),
    In (op, u) [("&"%string, n_min); ("|"%string, n_max)] ->
    m_over over_table_model (Some op) (pure2 (ew2 u)) a s = s_over (pure2 (ew2 u)) a s.
  Proof.
    intros op u a s Hin. unfold m_over.
    destruct (is_atom a) eqn:Ha; [unfold s_over; rewrite Ha; reflexivity|].
    rewrite s_over_pure by exact Ha.
    destruct (items a) as [|x [|y xs]] eqn:Hit.
    - exfalso; eapply nonatom_items; eauto.
    - reflexivity.
    - assert (Hsc : over_shortcut over_table_model (Some op) (x :: y :: xs)
                    = match classify (x :: y :: xs) with NumVec ns => Some (Ok (vnum (np_extreme u ns))) | _ => None end).
      { simpl in Hin. destruct Hin as [H|[H|[]]]; inversion H; subst; reflexivity. }
      rewrite Hsc. destruct (classify (x :: y :: xs)) as [ns| |] eqn:Hc.
      + unfold lift. apply classify_vec in Hc. rewrite Hc.
        destruct ns as [|z zs]; [discriminate|]. cbn [map over_pure]. rewrite fold_res_nums. reflexivity.
      + rewrite py_reduce_pure. reflexivity.
      + rewrite py_reduce_pure. reflexivity.
  Qed.

  (* ,/a: the array itself (vector) or the concatenated rows (matrix), the generic fold otherwise *)
  Theorem over_shortcut_join : forall (a : val) (s : S),
    m_over over_table_model (Some ","%string) (pure2 join) a s = s_over (pure2 join) a s.
  Proof.
    intros a s. unfold m_over.
    destruct (is_atom a) eqn:Ha; [unfold s_over; rewrite Ha; reflexivity|].
    rewrite s_over_pure by exact Ha.
    destruct (items a) as [|x [|y xs]] eqn:Hit.
    - exfalso; eapply nonatom_items; eauto.
    - reflexivity.
    - change (over_shortcut over_table_model (Some ","%string) (x :: y :: xs))
        with (match classify (x :: y :: xs) with
              | NumVec ns => Some (Ok (vnums ns))
              | NumMat _ rows => Some (Ok (vnums (List.concat rows)))
              | Other => None
              end).
      destruct (classify (x :: y :: xs)) as [ns|n rows|] eqn:Hc.
      + unfold lift. apply classify_vec in Hc. rewrite Hc.
        destruct ns as [|z [|z2 zs]]; try discriminate.
        cbn [map over_pure fold_res]. rewrite join_vnum_vnum.
        change (VList [vnum z; vnum z2]) with (vnums [z; z2]). rewrite fold_join_nums. reflexivity.
      + unfold lift. apply classify_mat in Hc. destruct Hc as [Hx [r0 [rest [Hrows [H0 Hs]]]]].
        rewrite Hx, Hrows. cbn [map over_pure]. rewrite fold_join_rows. reflexivity.
      + rewrite py_reduce_pure. reflexivity.
  Qed.
End Shortcuts.

(* ------------------------------------------------------------------ the Scan-Over shortcuts *)
Section PureScan.
  Variable S : Type.

  Lemma py_accumulate_pure : forall (g : val -> val -> res val) xs t r (s : S),
    py_accumulate (pure2 g) t xs r s
    = (match acc_res g t xs with Ok l => Ok (r ++ l) | Err e => Err e | OutOfFuel => OutOfFuel end, s).
  Proof.
    induction xs as [|x xs IH]; intros t r s; cbn [py_accumulate acc_res].
    - unfold ret. rewrite app_nil_r. reflexivity.
    - unfold bind, pure2, lift at 1. destruct (g t x) as [v|e|]; try reflexivity.
      rewrite IH. destruct (acc_res g v xs); try reflexivity. rewrite <- app_assoc. reflexivity.
  Qed.

  Lemma s_scan_pure : forall (g : val -> val -> res val) a (s : S),
    is_atom a = false -> s_scan (pure2 g) a s = (scan_pure g (items a), s).
  Proof.
    intros g a s Ha.
    rewrite <- (scan_generic_eq S [] (pure2 g) a s). unfold m_scan.
    assert (He : is_empty a = false).
    { unfold is_atom in Ha. destruct (is_iterable a); [exact Ha|discriminate]. }
    rewrite He, Ha.
    destruct (items a) as [|x xs] eqn:Hit; [exfalso; eapply nonatom_items; eauto|].
    cbn [scan_shortcut]. unfold bind. rewrite py_accumulate_pure. cbn [scan_pure].
    destruct (acc_res g x xs); reflexivity.
  Qed.
End PureScan.

Lemma obj_accumulate_acc : forall u xs x, obj_accumulate u x xs = acc_res (ew2 u) x xs.
Proof.
  induction xs as [|y xs IH]; intros x; simpl; [reflexivity|].
  destruct (ew2 u x y); try reflexivity. rewrite IH. reflexivity.
Qed.

Lemma acc_res_nums : forall u rest n0,
  acc_res (ew2 u) (vnum n0) (map vnum rest) = Ok (map vnum (scanl u n0 rest)).
Proof.
  induction rest as [|y rest IH]; intros n0; cbn [map acc_res scanl]; [reflexivity|].
  rewrite ew2_vnum. rewrite IH. reflexivity.
Qed.

Lemma acc_res_rows : forall u n rest r0,
  List.length r0 = n -> same_len n rest = true ->
  acc_res (ew2 u) (vnums r0) (map vnums rest) = Ok (map vnums (scanl (zipw u) r0 rest)).
Proof.
  intros u n rest. induction rest as [|r rest IH]; intros r0 H0 Hs; cbn [map acc_res scanl]; [reflexivity|].
  simpl in Hs. apply andb_prop in Hs. destruct Hs as [Hr Hs]. apply Nat.eqb_eq in Hr.
  rewrite ew2_rows by congruence. rewrite IH; [reflexivity| |exact Hs].
  rewrite zipw_length by congruence. exact H0.
Qed.

(* accumulate along axis 0, column by column  =  running fold of the row-wise operation *)
Section Axis0Scan.
  Variable A : Type.
  Variable u : A -> A -> A.
  Variable d : A.

  Lemma scanl_length : forall (B : Type) (f : B -> B -> B) l acc, List.length (scanl f acc l) = List.length l.
  Proof. induction l as [|x l IH]; intro acc; simpl; [reflexivity|]. rewrite IH. reflexivity. Qed.

  Lemma scanl1_length : forall (B : Type) (f : B -> B -> B) l, List.length (scanl1 f l) = List.length l.
  Proof. intros B f [|x l]; simpl; [reflexivity|]. rewrite scanl_length. reflexivity. Qed.

  Lemma nth_scanl : forall (B : Type) (f : B -> B -> B) (e : B) l acc i, (i < List.length l)%nat ->
    nth i (scanl f acc l) e = fold_left f (firstn (Datatypes.S i) l) acc.
  Proof.
    induction l as [|x l IH]; intros acc i Hi; simpl in Hi; [lia|].
    destruct i as [|i]; [reflexivity|]. cbn [scanl nth]. rewrite IH by lia. reflexivity.
  Qed.

  Lemma nth_scanl1 : forall (B : Type) (f : B -> B -> B) (e : B) l i, (i < List.length l)%nat ->
    nth i (scanl1 f l) e = fold1 f e (firstn (Datatypes.S i) l).
  Proof.
    intros B f e [|x l] i Hi; simpl in Hi; [lia|].
    destruct i as [|i]; [reflexivity|]. cbn [scanl1 nth]. rewrite nth_scanl by lia. reflexivity.
  Qed.

  Lemma in_firstn : forall (B : Type) k (l : list B) x, In x (firstn k l) -> In x l.
  Proof.
    induction k as [|k IH]; intros l x H; [destruct H|].
    destruct l as [|y l]; [destruct H|]. simpl in H. destruct H as [H|H]; [left; exact H|right; apply IH; exact H].
  Qed.

  Lemma col_firstn : forall k j (rows : list (list A)), col d j (firstn k rows) = firstn k (col d j rows).
  Proof. intros. unfold col. rewrite firstn_map. reflexivity. Qed.

  Theorem accumulate_axis0_is_scan : forall n r0 rows,
    List.length r0 = n -> forallb (fun r => Nat.eqb (List.length r) n) rows = true ->
    accumulate_axis0 u d n (r0 :: rows) = scanl1 (zipw u) (r0 :: rows).
  Proof.
    intros n r0 rows H0 Hs. unfold accumulate_axis0.
    set (all := r0 :: rows). set (m := List.length all).
    rewrite (list_as_nth_map (list A) [] (scanl1 (zipw u) all) m) by (apply scanl1_length).
    unfold transpose at 1. apply map_ext_in. intros i Hi. apply in_seq in Hi. destruct Hi as [_ Hi]. simpl in Hi.
    rewrite (nth_scanl1 (list A) (zipw u) [] all i) by exact Hi.
    (* row i of the right-hand side: the fold of the first i+1 rows = column-wise reduce of them *)
    assert (Hf : firstn (Datatypes.S i) all = r0 :: firstn i rows) by reflexivity.
    rewrite Hf. cbn [fold1].
    rewrite <- (reduce_axis0_is_fold A u d n r0 (firstn i rows) H0).
    2:{ apply forallb_forall. intros r Hr. apply in_firstn in Hr.
        rewrite forallb_forall in Hs. apply Hs. exact Hr. }
    unfold reduce_axis0, transpose, col. rewrite !map_map.
    apply map_ext_in. intros j Hj.
    rewrite (nth_scanl1 A u d) by (rewrite map_length; exact Hi).
    rewrite <- Hf. rewrite firstn_map. reflexivity.
  Qed.
End Axis0Scan.

Section CastScan.
  Variable uf : ufunc.
  Hypothesis Hok : uf_ok uf.
  Let c := uf_cast uf.
  Let u := uf_op uf.

  Lemma scanl_cast_tail : forall l a, scanl u a (map c l) = scanl u a l.
  Proof.
    induction l as [|x l IH]; intro a; cbn [map scanl]; [reflexivity|].
    replace (u a (c x)) with (u a x) by (symmetry; apply (proj2 Hok)). f_equal. apply IH.
  Qed.

  Lemma scanl_cast_head : forall l a, scanl u (c a) l = scanl u a l.
  Proof.
    intros [|x l] a; cbn [scanl]; [reflexivity|].
    replace (u (c a) x) with (u a x) by (symmetry; apply (proj1 Hok)). reflexivity.
  Qed.

  Lemma scanl1_cast : forall n0 rest, scanl1 u (map c (n0 :: rest)) = c n0 :: scanl u n0 rest.
  Proof. intros. cbn [map scanl1]. rewrite scanl_cast_tail, scanl_cast_head. reflexivity. Qed.

  Lemma scanl_zipw_cast_tail : forall rows acc, scanl (zipw u) acc (map (map c) rows) = scanl (zipw u) acc rows.
  Proof.
    induction rows as [|r rows IH]; intro acc; cbn [map scanl]; [reflexivity|].
    rewrite (zipw_cast_r uf Hok). f_equal. apply IH.
  Qed.

  Lemma scanl_zipw_cast_head : forall rows acc, scanl (zipw u) (map c acc) rows = scanl (zipw u) acc rows.
  Proof.
    intros [|r rows] acc; cbn [scanl]; [reflexivity|]. rewrite (zipw_cast_l uf Hok). reflexivity.
  Qed.

  (* the first slot of an accumulate is the first element, cast to the loop's dtype *)
  Definition cast_first (xs : list val) : val :=
    match classify xs with
    | NumVec (n0 :: _) => vnum (c n0)
    | NumMat _ (r0 :: _) => vnums (map c r0)
    | _ => hd (VInt 0) xs
    end.

  Theorem np_accumulate_is_scan : forall x xs,
    np_accumulate uf (x :: xs)
    = match acc_res (ew2 u) x xs with
      | Ok l => Ok (VList (cast_first (x :: xs) :: l))
      | Err e => Err e
      | OutOfFuel => OutOfFuel
      end.
  Proof.
    intros x xs. unfold np_accumulate, cast_first.
    destruct (classify (x :: xs)) as [ns|n rows|] eqn:Hc.
    - apply classify_vec in Hc. destruct ns as [|n0 rest]; [discriminate|].
      cbn [map] in Hc. injection Hc as Hx Hxs. subst x xs.
      fold c u. rewrite scanl1_cast. rewrite acc_res_nums. reflexivity.
    - apply classify_mat in Hc. destruct Hc as [Hx [r0 [rest [Hrows [H0 Hs]]]]]. subst rows n.
      cbn [map] in Hx. injection Hx as Hx Hxs. subst x xs.
      fold c u. cbn [map].
      rewrite (accumulate_axis0_is_scan num u (NI 0) (List.length r0) (map c r0) (map (map c) rest));
        [|rewrite map_length; reflexivity|apply (same_len_cast uf); exact Hs].
      cbn [scanl1]. rewrite scanl_zipw_cast_tail, scanl_zipw_cast_head.
      rewrite (acc_res_rows u (List.length r0)) by (reflexivity || exact Hs). reflexivity.
    - cbn [hd]. rewrite obj_accumulate_acc. fold u. destruct (acc_res (ew2 u) x xs); reflexivity.
  Qed.
End CastScan.

Lemma cast_first_same : forall u x xs,
  cast_first {| uf_cast := same_dtype; uf_op := u |} (x :: xs) = x.
Proof.
  intros u x xs. unfold cast_first. destruct (classify (x :: xs)) as [ns|n rows|] eqn:Hc; [| |reflexivity].
  - apply classify_vec in Hc. destruct ns as [|n0 rest]; [discriminate|]. cbn [map] in Hc.
    injection Hc as Hx _. subst x. reflexivity.
  - apply classify_mat in Hc. destruct Hc as [Hx [r0 [rest [Hrows _]]]]. subst rows.
    cbn [map] in Hx. injection Hx as Hx _. subst x. cbn [uf_cast]. unfold same_dtype. rewrite map_id. reflexivity.
Qed.

Definition on_first (g : val -> val) (r : res val) : res val :=
  match r with Ok (VList (x :: l)) => Ok (VList (g x :: l)) | other => other end.

Section ScanShortcuts.
  Variable S : Type.

  (* +\a -\a *\a by ufunc.accumulate = the expansion with the operator's own semantics, every operand *)
  Theorem scan_shortcut_arith : forall op u (a : val) (s : S),
    In (op, u) [("+"%string, n_add); ("-"%string, n_sub); ("*"%string, n_mul)] ->
    m_scan scan_table_model (Some op) (pure2 (ew2 u)) a s = s_scan (pure2 (ew2 u)) a s.
  Proof.
    intros op u a s Hin. unfold m_scan.
    destruct (is_empty a) eqn:He; [unfold s_scan; rewrite He; reflexivity|].
    destruct (is_atom a) eqn:Ha; [unfold s_scan; rewrite He, Ha; reflexivity|].
    rewrite s_scan_pure by exact Ha.
    destruct (items a) as [|x xs] eqn:Hit; [exfalso; eapply nonatom_items; eauto|].
    simpl in Hin. destruct Hin as [H|[H|[H|[]]]]; inversion H; subst.
    - change (scan_shortcut scan_table_model (Some "+"%string) (x :: xs))
        with (Some (np_accumulate {| uf_cast := same_dtype; uf_op := n_add |} (x :: xs))).
      unfold lift. rewrite np_accumulate_is_scan by apply uf_ok_same. rewrite cast_first_same. reflexivity.
    - change (scan_shortcut scan_table_model (Some "-"%string) (x :: xs))
        with (Some (np_accumulate {| uf_cast := same_dtype; uf_op := n_sub |} (x :: xs))).
      unfold lift. rewrite np_accumulate_is_scan by apply uf_ok_same. rewrite cast_first_same. reflexivity.
    - change (scan_shortcut scan_table_model (Some "*"%string) (x :: xs))
        with (Some (np_accumulate {| uf_cast := same_dtype; uf_op := n_mul |} (x :: xs))).
      unfold lift. rewrite np_accumulate_is_scan by apply uf_ok_same. rewrite cast_first_same. reflexivity.
  Qed.

  Lemma acc_klong_div_list : forall xs x, is_list x = true ->
    acc_res klong_div x xs = acc_res (ew2 n_div) x xs.
  Proof.
    induction xs as [|y xs IH]; intros x Hx; [reflexivity|]. cbn [acc_res].
    rewrite klong_div_list by exact Hx. destruct (ew2 n_div x y) as [v|e|] eqn:He; try reflexivity.
    rewrite IH; [reflexivity|]. eapply ew2_list_result; [exact He|]. rewrite Hx. reflexivity.
  Qed.

  Lemma acc_klong_div_safe : forall xs x, zsafe xs = true ->
    acc_res klong_div x xs = acc_res (ew2 n_div) x xs.
  Proof.
    induction xs as [|y xs IH]; intros x H; [reflexivity|]. cbn [zsafe] in H. cbn [acc_res].
    destruct (is_list y) eqn:Hy.
    - rewrite (klong_div_rlist x y Hy). destruct (ew2 n_div x y) as [v|e|] eqn:He; try reflexivity.
      rewrite acc_klong_div_list; [reflexivity|]. eapply ew2_list_result; [exact He|]. rewrite Hy. apply orb_true_r.
    - apply andb_prop in H. destruct H as [Hz Hs]. apply negb_true_iff in Hz.
      rewrite klong_div_nonzero by exact Hz. destruct (ew2 n_div x y); try reflexivity. rewrite IH by exact Hs. reflexivity.
  Qed.

  (* %\a by divide.accumulate (same guard) = the expansion with the verb's own semantics, except that the
     first slot a1 (which the expansion leaves as it is) comes out converted to binary64 when a is a numeric
     array and the shortcut is taken; with a zero divisor the generic path runs and the two are equal *)
  Theorem scan_shortcut_divide : forall (a : val) (s : S),
    is_atom a = false ->
    m_scan scan_table_model (Some "%"%string) (pure2 klong_div) a s
    = ((if zero_divisor (items a) then fun r => r
        else on_first (fun _ => cast_first {| uf_cast := cast_real; uf_op := n_div |} (items a)))
         (fst (s_scan (pure2 klong_div) a s)), s).
  Proof.
    intros a s Ha. unfold m_scan.
    assert (He : is_empty a = false).
    { unfold is_atom in Ha. destruct (is_iterable a); [exact Ha|discriminate]. }
    rewrite He, Ha. rewrite s_scan_pure by exact Ha.
    destruct (items a) as [|x xs] eqn:Hit; [exfalso; eapply nonatom_items; eauto|].
    change (scan_shortcut scan_table_model (Some "%"%string) (x :: xs))
      with (if zero_divisor (x :: xs) then None
            else Some (np_accumulate {| uf_cast := cast_real; uf_op := n_div |} (x :: xs))).
    destruct (zero_divisor (x :: xs)) eqn:Hz.
    - unfold bind. rewrite py_accumulate_pure. cbn [fst scan_pure].
      destruct (acc_res klong_div x xs); reflexivity.
    - unfold lift. rewrite np_accumulate_is_scan by apply uf_ok_divide.
      cbn [fst scan_pure uf_op]. rewrite acc_klong_div_safe by (apply (guard_safe x xs Hz)).
      destruct (acc_res (ew2 n_div) x xs); reflexivity.
  Qed.
End ScanShortcuts.

(* ------------------------------------------------------------------ chains compose left to right *)
Section Chains.
  Variable S : Type.
  Variables ot st : table.

  Lemma chain_rest_snoc : forall fuel op advs (g : val -> M S val) s0,
    chain_rest ot st fuel op g (advs ++ [s0]) = adverb1 ot st fuel s0 op (V1 (chain_rest ot st fuel op g advs)).
  Proof.
    intros fuel op advs. induction advs as [|x advs IH]; intros g s0; simpl; [reflexivity|apply IH].
  Qed.

  Theorem chain_snoc : forall fuel op (v : verb S) a1 advs s0,
    m_chain ot st fuel op v ((a1 :: advs) ++ [s0])
    = adverb1 ot st fuel s0 op (V1 (m_chain ot st fuel op v (a1 :: advs))).
  Proof. intros. simpl. apply chain_rest_snoc. Qed.

  Theorem chain_single : forall fuel op (v : verb S) a1, m_chain ot st fuel op v [a1] = adverb1 ot st fuel a1 op v.
  Proof. reflexivity. Qed.
End Chains.

(* ------------------------------------------------------------------ Converge: termination and result along the orbit *)
Section Converge.
  Variable g : val -> res val.
  Variable x : nat -> val.          (* the orbit: x 0 = a, x (k+1) = g (x k) *)
  Variable n : nat.
  Hypothesis Hn : (1 <= n)%nat.
  Hypothesis Horbit : forall k, (k <= n)%nat -> g (x k) = Ok (x (Datatypes.S k)).
  Hypothesis Hmoving : forall k, (1 <= k < n)%nat -> conv_eq (x k) (x (Datatypes.S k)) = false.
  Hypothesis Hfix : conv_eq (x n) (x (Datatypes.S n)) = true.

  Definition calls_of (from len : nat) : list call := map (fun k => Call1 (x k)) (seq from len).

  Lemma converge_loop_orbit : forall d j fuel log,
    (j + d = n)%nat -> (1 <= j)%nat -> (d < fuel)%nat ->
    converge_loop fuel (logged1 g) (x j) (x (Datatypes.S j)) log
    = (Ok (x n), log ++ calls_of (Datatypes.S j) d).
  Proof.
    induction d as [|d IH]; intros j fuel log Hj H1 Hf; destruct fuel as [|fuel]; try lia.
    - assert (j = n) by lia. subst j. cbn [converge_loop]. rewrite Hfix.
      unfold ret, calls_of. simpl. rewrite app_nil_r. reflexivity.
    - cbn [converge_loop]. rewrite Hmoving by lia.
      unfold bind, logged1. rewrite Horbit by lia.
      rewrite (IH (Datatypes.S j) fuel) by lia.
      unfold calls_of. cbn [seq map]. rewrite <- app_assoc. reflexivity.
  Qed.

  Theorem converge_terminates : forall fuel log,
    (n <= fuel)%nat ->
    m_converge fuel (logged1 g) (x 0%nat) log = (Ok (x n), log ++ calls_of 0 (Datatypes.S n)).
  Proof.
    intros fuel log Hf. unfold m_converge, bind, logged1.
    rewrite Horbit by lia. rewrite Horbit by lia.
    rewrite (converge_loop_orbit (n - 1) 1 fuel) by lia.
    unfold calls_of. rewrite <- !app_assoc. f_equal.
    replace (Datatypes.S n) with (2 + (n - 1))%nat by lia.
    rewrite seq_app, map_app. reflexivity.
  Qed.
End Converge.

(* ------------------------------------------------------------------ While: termination and result along the orbit *)
Section While.
  Variable kt : bool.
  Variable p g : val -> res val.
  Variable x : nat -> val.
  Variable n : nat.
  Hypothesis Horbit : forall k, (k < n)%nat -> g (x k) = Ok (x (Datatypes.S k)).
  Hypothesis Htrue : forall k, (k < n)%nat -> exists t, p (x k) = Ok t /\ truthy kt t = Ok true.
  Hypothesis Hfalse : exists t, p (x n) = Ok t /\ truthy kt t = Ok false.

  Definition while_calls (from len : nat) : list call :=
    flat_map (fun k => [CallP (x k); Call1 (x k)]) (seq from len).

  Lemma while_loop_orbit : forall d j fuel log,
    (j + d = n)%nat -> (d < fuel)%nat ->
    while_loop kt fuel (loggedp p) (logged1 g) (x j) log
    = (Ok (x n), log ++ while_calls j d ++ [CallP (x n)]).
  Proof.
    induction d as [|d IH]; intros j fuel log Hj Hf; destruct fuel as [|fuel]; try lia.
    - assert (j = n) by lia. subst j. cbn [while_loop]. unfold bind, loggedp.
      destruct Hfalse as [t [Hp Ht]]. rewrite Hp, Ht. reflexivity.
    - cbn [while_loop]. unfold bind at 1. unfold loggedp at 1.
      destruct (Htrue j) as [t [Hp Ht]]; [lia|]. rewrite Hp, Ht.
      unfold bind, logged1. rewrite Horbit by lia.
      rewrite (IH (Datatypes.S j) fuel) by lia.
      unfold while_calls. cbn [seq flat_map]. rewrite <- !app_assoc. reflexivity.
  Qed.

  Theorem while_terminates : forall fuel log,
    (n < fuel)%nat ->
    m_while kt fuel (loggedp p) (logged1 g) (x 0%nat) log = (Ok (x n), log ++ while_calls 0 n ++ [CallP (x n)]).
  Proof. intros. unfold m_while. apply while_loop_orbit; lia. Qed.
End While.

(* ------------------------------------------------------------------ Scan-Converging / Scan-While along the orbit *)
Section ScanConverge.
  Variable g : val -> res val.
  Variable x : nat -> val.
  Variable n : nat.
  Hypothesis Horbit : forall k, (k <= n)%nat -> g (x k) = Ok (x (Datatypes.S k)).
  Hypothesis Hmoving : forall k, (k < n)%nat -> kg_equal (x k) (x (Datatypes.S k)) = false.
  Hypothesis Hfix : kg_equal (x n) (x (Datatypes.S n)) = true.

  Definition orbit_list (len : nat) : list val := map x (seq 0 len).

  Lemma orbit_list_S : forall len, orbit_list (Datatypes.S len) = orbit_list len ++ [x len].
  Proof. intro len. unfold orbit_list. rewrite seq_S, map_app. reflexivity. Qed.

  Lemma scan_conv_loop_orbit : forall d j fuel log,
    (j + d = n)%nat -> (d < fuel)%nat ->
    scan_conv_loop fuel (logged1 g) (x j) (x (Datatypes.S j)) (orbit_list (Datatypes.S (Datatypes.S j))) log
    = (Ok (VList (orbit_list (Datatypes.S n))), log ++ calls_of x (Datatypes.S j) d).
  Proof.
    induction d as [|d IH]; intros j fuel log Hj Hf; destruct fuel as [|fuel]; try lia.
    - assert (j = n) by lia. subst j. cbn [scan_conv_loop]. rewrite Hfix.
      rewrite (orbit_list_S (Datatypes.S n)), removelast_last.
      unfold ret, calls_of. simpl. rewrite app_nil_r. reflexivity.
    - cbn [scan_conv_loop]. rewrite Hmoving by lia.
      unfold bind, logged1. rewrite Horbit by lia.
      rewrite <- (orbit_list_S (Datatypes.S (Datatypes.S j))).
      rewrite (IH (Datatypes.S j) fuel) by lia.
      unfold calls_of. cbn [seq map]. rewrite <- app_assoc. reflexivity.
  Qed.

  Theorem scan_converging_terminates : forall fuel log,
    (n < fuel)%nat ->
    m_scan_converging fuel (logged1 g) (x 0%nat) log
    = (Ok (VList (orbit_list (Datatypes.S n))), log ++ calls_of x 0 (Datatypes.S n)).
  Proof.
    intros fuel log Hf. unfold m_scan_converging, bind, logged1.
    rewrite Horbit by lia.
    change [x 0%nat; x 1%nat] with (orbit_list 2).
    rewrite (scan_conv_loop_orbit n 0 fuel) by lia.
    unfold calls_of. cbn [seq map]. rewrite <- app_assoc. reflexivity.
  Qed.
End ScanConverge.

Section ScanWhile.
  Variable kt : bool.
  Variable p g : val -> res val.
  Variable x : nat -> val.
  Variable n : nat.
  Hypothesis Horbit : forall k, (k < n)%nat -> g (x k) = Ok (x (Datatypes.S k)).
  Hypothesis Htrue : forall k, (k < n)%nat -> exists t, p (x k) = Ok t /\ truthy kt t = Ok true.
  Hypothesis Hfalse : exists t, p (x n) = Ok t /\ truthy kt t = Ok false.

  Lemma scan_while_loop_orbit : forall d j fuel log,
    (j + d = n)%nat -> (d < fuel)%nat ->
    scan_while_loop kt fuel (loggedp p) (logged1 g) (x j) (orbit_list x (Datatypes.S j)) log
    = (Ok (VList (orbit_list x n)), log ++ while_calls x j d ++ [CallP (x n)]).
  Proof.
    induction d as [|d IH]; intros j fuel log Hj Hf; destruct fuel as [|fuel]; try lia.
    - assert (j = n) by lia. subst j. cbn [scan_while_loop]. unfold bind, loggedp.
      destruct Hfalse as [t [Hp Ht]]. rewrite Hp, Ht.
      rewrite (orbit_list_S x n), removelast_last. reflexivity.
    - cbn [scan_while_loop]. unfold bind at 1. unfold loggedp at 1.
      destruct (Htrue j) as [t [Hp Ht]]; [lia|]. rewrite Hp, Ht.
      unfold bind, logged1. rewrite Horbit by lia.
      rewrite <- (orbit_list_S x (Datatypes.S j)).
      rewrite (IH (Datatypes.S j) fuel) by lia.
      unfold while_calls. cbn [seq flat_map]. rewrite <- !app_assoc. reflexivity.
  Qed.

  (* the collected list holds exactly the orbit elements that satisfy the test: x 0 .. x (n-1) *)
  Theorem scan_while_terminates : forall fuel log,
    (n < fuel)%nat ->
    m_scan_while kt fuel (loggedp p) (logged1 g) (x 0%nat) log
    = (Ok (VList (orbit_list x n)), log ++ while_calls x 0 n ++ [CallP (x n)]).
  Proof.
    intros. unfold m_scan_while. change [x 0%nat] with (orbit_list x 1).
    apply scan_while_loop_orbit; lia.
  Qed.
End ScanWhile.

(* ------------------------------------------------------------------ the truth test of While / Scan-While *)
Lemma truthy_klong : forall kt, kt = true -> forall t, truthy kt t = Ok (ktruth t).
Proof. intros kt -> t. reflexivity. Qed.

(* the old Python truth agreed with Klong truth except on lists and the empty dictionary *)
Lemma py_truth_is_ktruth : forall t, while_truth_known t = false -> truthy false t = Ok (ktruth t).
Proof.
  intros t H. destruct t as [z|f|c|s|l|kvs]; try reflexivity.
  - destruct s; reflexivity.
  - discriminate.
  - destruct kvs; [discriminate|reflexivity].
Qed.

(* ------------------------------------------------------------------ the expression compiler's route *)
Lemma np_reduce_same_fold : forall u x xs,
  np_reduce {| uf_cast := same_dtype; uf_op := u |} (x :: xs) = over_pure (ew2 u) (x :: xs).
Proof.
  intros u x xs. destruct xs as [|y xs]; [|apply (np_reduce_is_fold _ (uf_ok_same u))].
  unfold np_reduce. destruct (classify [x]) as [ns|n rows|] eqn:Hc.
  - apply classify_vec in Hc. destruct ns as [|n0 [|n1 rest]]; try discriminate.
    cbn [map] in Hc. injection Hc as Hx. subst x. reflexivity.
  - apply classify_mat in Hc. destruct Hc as [Hx [r0 [rest [Hrows [H0 Hs]]]]]. subst rows.
    destruct rest; [|discriminate]. cbn [map] in Hx. injection Hx as Hx. subst x.
    cbn [map uf_cast uf_op over_pure fold_res].
    rewrite (reduce_axis0_is_fold num u (NI 0) n (map same_dtype r0) []);
      [|rewrite map_length; exact H0|reflexivity].
    cbn [fold_left]. unfold same_dtype. rewrite map_id. reflexivity.
  - reflexivity.
Qed.

Lemma admitted_list_nonatom : forall l, admitted (VList l) = true -> is_atom (VList l) = false /\ l <> [].
Proof. intros l H. destruct l; [discriminate|]. split; [reflexivity|discriminate]. Qed.

Section Compiled.
  Variable S : Type.

  (* |/a &/a +/a */a of a variable or function argument, as compiled: np.<ufunc>.reduce = the expansion, for
     every admitted operand (number, numeric vector, matrix, higher rank) *)
  Theorem compiled_over_is_fold : forall op u (a : val) (s : S) r,
    In (op, u) [("+"%string, n_add); ("*"%string, n_mul); ("|"%string, n_max); ("&"%string, n_min)] ->
    compiled_over redscan_ops_model compiled_reduce_model (Some op) a = Some r ->
    (r, s) = s_over (pure2 (ew2 u)) a s.
  Proof.
    intros op u a s r Hin Hc. unfold compiled_over in Hc.
    assert (Hops : existsb (String.eqb op) redscan_ops_model = true).
    { simpl in Hin. destruct Hin as [H|[H|[H|[H|[]]]]]; inversion H; subst; reflexivity. }
    rewrite Hops in Hc. cbn [andb] in Hc.
    destruct (admitted a) eqn:Hadm; [|discriminate].
    assert (Hact : exists uf, lookup op compiled_reduce_model = Some uf /\
                   compiled_reduce_uf uf = Some {| uf_cast := same_dtype; uf_op := u |}).
    { simpl in Hin. destruct Hin as [H|[H|[H|[H|[]]]]]; inversion H; subst; eexists; split; reflexivity. }
    destruct Hact as [act [Hl Huf]]. rewrite Hl, Huf in Hc.
    destruct a as [z|f|c|str|l|kvs]; try discriminate.
    - inversion Hc. reflexivity.
    - inversion Hc. reflexivity.
    - destruct (admitted_list_nonatom l Hadm) as [Hna Hne].
      rewrite s_over_pure by exact Hna. cbn [items].
      destruct l as [|x xs]; [congruence|]. inversion Hc. rewrite np_reduce_same_fold. reflexivity.
  Qed.

  Theorem compiled_scan_is_scan : forall op u (a : val) (s : S) r,
    In (op, u) [("+"%string, n_add); ("*"%string, n_mul)] ->
    compiled_scan redscan_ops_model compiled_scan_model (Some op) a = Some r ->
    (r, s) = s_scan (pure2 (ew2 u)) a s.
  Proof.
    intros op u a s r Hin Hc. unfold compiled_scan in Hc.
    assert (Hops : existsb (String.eqb op) redscan_ops_model = true).
    { simpl in Hin. destruct Hin as [H|[H|[]]]; inversion H; subst; reflexivity. }
    rewrite Hops in Hc. cbn [andb] in Hc.
    destruct (admitted a) eqn:Hadm; [|discriminate].
    assert (Hact : exists uf, lookup op compiled_scan_model = Some uf /\
                   compiled_scan_uf uf = Some {| uf_cast := same_dtype; uf_op := u |}).
    { simpl in Hin. destruct Hin as [H|[H|[]]]; inversion H; subst; eexists; split; reflexivity. }
    destruct Hact as [act [Hl Huf]]. rewrite Hl, Huf in Hc.
    destruct a as [z|f|c|str|l|kvs]; try discriminate.
    destruct (admitted_list_nonatom l Hadm) as [Hna Hne].
    rewrite s_scan_pure by exact Hna. cbn [items].
    destruct l as [|x xs]; [congruence|]. inversion Hc.
    rewrite np_accumulate_is_scan by apply uf_ok_same. rewrite cast_first_same.
    cbn [scan_pure uf_op]. destruct (acc_res (ew2 u) x xs); reflexivity.
  Qed.
End Compiled.

Lemma compiled_over_gen : forall S ops rt, ops = redscan_ops_model -> rt = compiled_reduce_model ->
  forall op u (a : val) (s : S) r,
    In (op, u) [("+"%string, n_add); ("*"%string, n_mul); ("|"%string, n_max); ("&"%string, n_min)] ->
    compiled_over ops rt (Some op) a = Some r -> (r, s) = s_over (pure2 (ew2 u)) a s.
Proof. intros S ops rt -> ->. apply compiled_over_is_fold. Qed.

Lemma compiled_scan_gen : forall S ops st, ops = redscan_ops_model -> st = compiled_scan_model ->
  forall op u (a : val) (s : S) r,
    In (op, u) [("+"%string, n_add); ("*"%string, n_mul)] ->
    compiled_scan ops st (Some op) a = Some r -> (r, s) = s_scan (pure2 (ew2 u)) a s.
Proof. intros S ops st -> ->. apply compiled_scan_is_scan. Qed.
