(* C02/Proofs.v — lemmas behind Properties.v *)
From Coq Require Import ZArith List Bool String Lia.
From C02 Require Import Model Spec.
Import ListNotations.
Open Scope list_scope.
Open Scope Z_scope.

Ltac run m := let r := fresh "r" in let s := fresh "s" in let e := fresh "e" in
  destruct m as [[r|e|] s].

(* ------------------------------------------------------------------ loops = sequenced maps *)
Section Generic.
  Variable S : Type.
  Notation M := (M S).

  Lemma for_append_mapM : forall A (f : A -> M val) xs r s,
    for_append f xs r s = bind (mapM f xs) (fun us => ret (r ++ us)) s.
  Proof.
    induction xs as [|x xs IH]; intros r s; simpl.
    - unfold bind, ret. rewrite app_nil_r. reflexivity.
    - unfold bind at 1 2 3. run (f x s); try reflexivity.
      rewrite IH. unfold bind. run (mapM f xs s0); try reflexivity.
      unfold ret. rewrite <- app_assoc. reflexivity.
  Qed.

  Lemma for_append_nil : forall A (f : A -> M val) xs (k : list val -> M val) s,
    bind (for_append f xs []) k s = bind (mapM f xs) k s.
  Proof.
    intros. unfold bind at 1. rewrite for_append_mapM. unfold bind.
    run (mapM f xs s); reflexivity.
  Qed.

  Lemma for_zip_map2M : forall (f : val -> val -> M val) xs ys r s,
    for_zip f xs ys r s = bind (map2M f xs ys) (fun us => ret (r ++ us)) s.
  Proof.
    induction xs as [|x xs IH]; intros ys r s; simpl.
    - unfold bind, ret. rewrite app_nil_r. reflexivity.
    - destruct ys as [|y ys].
      + unfold bind, ret. rewrite app_nil_r. reflexivity.
      + unfold bind at 1 2 3. run (f x y s); try reflexivity.
        rewrite IH. unfold bind. run (map2M f xs ys s0); try reflexivity.
        unfold ret. rewrite <- app_assoc. reflexivity.
  Qed.

  Lemma for_zip_nil : forall (f : val -> val -> M val) xs ys (k : list val -> M val) s,
    bind (for_zip f xs ys []) k s = bind (map2M f xs ys) k s.
  Proof.
    intros. unfold bind at 1. rewrite for_zip_map2M. unfold bind.
    run (map2M f xs ys s); reflexivity.
  Qed.

  Lemma for_enum_mapM : forall (f : val -> M val) xs i r s,
    for_enum (fun i x => f (VList [VInt i; x])) (Z.of_nat i) xs r s
    = bind (mapM f (map (fun p => VList [VInt (Z.of_nat (fst p)); snd p]) (combine (seq i (List.length xs)) xs)))
           (fun us => ret (r ++ us)) s.
  Proof.
    induction xs as [|x xs IH]; intros i r s; simpl.
    - unfold bind, ret. rewrite app_nil_r. reflexivity.
    - unfold bind at 1 2 3. run (f (VList [VInt (Z.of_nat i); x]) s); try reflexivity.
      replace (Z.of_nat i + 1) with (Z.of_nat (Datatypes.S i)) by lia.
      rewrite IH. unfold bind.
      match goal with |- context [mapM f ?l s0] => run (mapM f l s0) end; try reflexivity.
      unfold ret. rewrite <- app_assoc. reflexivity.
  Qed.

  (* ---------------------------------------------------------------- Each family *)
  Lemma norm_join_or_list : forall r, norm (join_or_list r) = norm (VList r).
  Proof.
    intro r. unfold join_or_list. destruct (all_chars r) eqn:H; [|reflexivity].
    simpl. f_equal. induction r as [|v r IH]; [reflexivity|].
    simpl in H. apply andb_prop in H. destruct H as [Hv Hr].
    destruct v; try discriminate. simpl. f_equal. apply IH. exact Hr.
  Qed.

  (* result of the model is the result of the expansion up to `norm`, in the same final state *)
  Definition agrees (x y : res val * S) : Prop := veq_res (fst x) (fst y) /\ snd x = snd y.

  Lemma agrees_refl : forall x, agrees x x.
  Proof. intros [[v|e|] s]; split; simpl; auto. Qed.

  Lemma each_agrees : forall (f : val -> M val) a s, agrees (m_each f a s) (s_each f a s).
  Proof.
    intros f a s. destruct a as [z|c|str|l|kvs].
    - apply agrees_refl.
    - apply agrees_refl.
    - destruct str as [|c str]; [apply agrees_refl|].
      unfold m_each, s_each. cbn [is_empty].
      remember (chars (c :: str)) as cs.
      rewrite for_append_nil. unfold bind.
      run (mapM f cs s); split; simpl; auto.
      apply norm_join_or_list.
    - destruct l as [|x l]; [apply agrees_refl|].
      unfold m_each, s_each. cbn [is_empty].
      remember (x :: l) as xs.
      rewrite for_append_nil. apply agrees_refl.
    - unfold m_each, s_each. cbn [is_empty].
      rewrite for_append_nil. apply agrees_refl.
  Qed.

  Lemma each_index_eq : forall (f : val -> M val) a s, m_each_index f a s = s_each_index f a s.
  Proof.
    intros f a s. unfold m_each_index, s_each_index.
    destruct (is_empty a) eqn:He; [reflexivity|].
    unfold is_atom. destruct (is_iterable a) eqn:Hi.
    - rewrite He. unfold bind at 1.
      change 0 with (Z.of_nat 0). rewrite for_enum_mapM. unfold indexed, bind.
      match goal with |- context [mapM f ?l s] => run (mapM f l s) end; reflexivity.
    - reflexivity.
  Qed.

  Lemma each_left_eq : forall (f : val -> val -> M val) a b s, m_each_left f a b s = s_each_left f a b s.
  Proof.
    intros f a b s. unfold m_each_left, s_each_left.
    destruct (is_empty b) eqn:He.
    - rewrite andb_false_r.
      destruct b as [| |[|]|[|]|]; try discriminate; reflexivity.
    - rewrite andb_true_r. destruct (is_atom b); [reflexivity|].
      apply for_append_nil.
  Qed.

  Lemma each_right_eq : forall (f : val -> val -> M val) a b s, m_each_right f a b s = s_each_right f a b s.
  Proof.
    intros f a b s. unfold m_each_right, s_each_right.
    destruct (is_empty b) eqn:He.
    - rewrite andb_false_r.
      destruct b as [| |[|]|[|]|]; try discriminate; reflexivity.
    - rewrite andb_true_r. destruct (is_atom b); [reflexivity|].
      apply for_append_nil.
  Qed.

  Lemma each_pair_eq : forall (f : val -> val -> M val) a s, m_each_pair f a s = s_each_pair f a s.
  Proof.
    intros f a s. unfold m_each_pair, s_each_pair.
    destruct (is_atom a) eqn:Ha; [reflexivity|]. cbn [orb].
    assert (Hi : is_iterable a = true).
    { unfold is_atom in Ha. destruct (is_iterable a); [reflexivity|discriminate]. }
    rewrite Hi. cbn [andb]. unfold vlen.
    destruct (items a) as [|x [|y xs]] eqn:Hit.
    - simpl. unfold bind, ret. reflexivity.
    - reflexivity.
    - cbn [Nat.eqb List.length]. apply for_zip_nil.
  Qed.

  Lemma each2_agrees : forall (f : val -> val -> M val) a b s,
    each2_dom a b = true -> agrees (m_each2 f a b s) (s_each2 f a b s).
  Proof.
    intros f a b s Hdom. unfold m_each2, s_each2.
    destruct (is_empty a || is_empty b) eqn:He.
    - split; [|reflexivity]. simpl. destruct (is_list a || is_list b); reflexivity.
    - unfold each2_dom in Hdom. rewrite He in Hdom. simpl in Hdom.
      destruct (is_atom a) eqn:Ha; destruct (is_atom b) eqn:Hb; try discriminate; cbn [andb].
      + apply agrees_refl.
      + assert (forall v, is_atom v = false -> seq_of v = Some (items v)) as Hs.
        { intros v Hv. destruct v; try discriminate; reflexivity. }
        rewrite (Hs a Ha), (Hs b Hb). rewrite for_zip_nil. unfold bind.
        run (map2M f (items a) (items b) s); split; simpl; auto.
        apply norm_join_or_list.
  Qed.

  (* ---------------------------------------------------------------- Over: iteration = nesting *)
  Lemma nest_snoc : forall (f : val -> val -> M val) rl y s, rl <> [] ->
    nest f (y :: rl) s = bind (nest f rl) (fun v => f v y) s.
  Proof. intros f rl y s H. destruct rl; [congruence|reflexivity]. Qed.

  Lemma py_reduce_app : forall (f : val -> val -> M val) xs x y s,
    py_reduce f x (xs ++ [y]) s = bind (py_reduce f x xs) (fun v => f v y) s.
  Proof.
    induction xs as [|z xs IH]; intros x y s.
    - simpl. unfold bind, ret. run (f x y s); reflexivity.
    - cbn [py_reduce app]. unfold bind. run (f x z s); try reflexivity.
      rewrite IH. reflexivity.
  Qed.

  Lemma py_reduce_nest : forall (f : val -> val -> M val) xs x s,
    py_reduce f x xs s = nest f (rev (x :: xs)) s.
  Proof.
    intros f xs. induction xs as [|y xs IH] using rev_ind; intros x s.
    - reflexivity.
    - change (x :: xs ++ [y]) with ((x :: xs) ++ [y]). rewrite rev_app_distr. simpl rev at 1.
      change ([y] ++ rev (x :: xs)) with (y :: rev (x :: xs)).
      rewrite nest_snoc.
      2:{ simpl. destruct (rev xs); discriminate. }
      rewrite py_reduce_app. unfold bind. rewrite IH. reflexivity.
  Qed.

  Lemma over_generic_eq : forall tbl (f : val -> val -> M val) a s,
    m_over tbl None f a s = s_over f a s.
  Proof.
    intros tbl f a s. unfold m_over, s_over.
    destruct (is_atom a) eqn:Ha; [reflexivity|].
    destruct (items a) as [|x [|y xs]] eqn:Hit.
    - destruct a as [| |[|]|[|]|]; simpl in *; try discriminate.
    - reflexivity.
    - change (over_shortcut tbl None (x :: y :: xs)) with (@None (res val)). cbv iota. apply py_reduce_nest.
  Qed.

  Lemma members_nonatom : forall b, is_atom b = false -> members b = items b.
  Proof. intros b H. unfold members. rewrite H. reflexivity. Qed.

  Lemma nonatom_items : forall b, is_atom b = false -> items b <> [].
  Proof. intros b H. destruct b as [| |[|]|[|]|]; simpl in *; try discriminate. Qed.

  Lemma over_neutral_eq : forall (f : val -> val -> M val) a b s,
    m_over_neutral f a b s = s_over_neutral f a b s.
  Proof.
    intros f a b s. unfold m_over_neutral, s_over_neutral.
    destruct (is_empty b) eqn:He; [reflexivity|].
    destruct (is_atom b) eqn:Hb.
    - unfold members. rewrite Hb. simpl. unfold bind, ret. run (f a b s); reflexivity.
    - rewrite members_nonatom by exact Hb.
      destruct (items b) as [|x xs] eqn:Hit; [exfalso; eapply nonatom_items; eauto|].
      rewrite <- py_reduce_nest. simpl. reflexivity.
  Qed.

  (* ---------------------------------------------------------------- Scan *)
  Lemma scan_nest_snoc : forall (f : val -> val -> M val) rl y s, rl <> [] ->
    scan_nest f (y :: rl) s
    = bind (scan_nest f rl) (fun vs => bind (f (last vs (VInt 0)) y) (fun v => ret (vs ++ [v]))) s.
  Proof. intros f rl y s H. destruct rl; [congruence|reflexivity]. Qed.

  (* invariant of itertools.accumulate: `total` is the last value produced so far *)
  Lemma py_accumulate_last : forall (f : val -> val -> M val) xs total r s,
    last r (VInt 0) = total -> r <> [] ->
    forall vs s', py_accumulate f total xs r s = (Ok vs, s') -> vs <> [] .
  Proof.
    induction xs as [|x xs IH]; intros total r s Hl Hr vs s' H; simpl in H.
    - inversion H. subst. exact Hr.
    - unfold bind in H. run (f total x s); try discriminate.
      eapply IH in H; auto. apply last_last. destruct r; discriminate.
  Qed.

  Lemma py_accumulate_app : forall (f : val -> val -> M val) xs y total r s,
    last r (VInt 0) = total -> r <> [] ->
    py_accumulate f total (xs ++ [y]) r s
    = bind (py_accumulate f total xs r)
           (fun vs => bind (f (last vs (VInt 0)) y) (fun v => ret (vs ++ [v]))) s.
  Proof.
    induction xs as [|x xs IH]; intros y total r s Hl Hr; simpl.
    - unfold bind, ret. rewrite Hl. run (f total y s); reflexivity.
    - cbn [py_accumulate app]. unfold bind. run (f total x s); try reflexivity.
      rewrite IH; [unfold bind; reflexivity| apply last_last | destruct r; discriminate].
  Qed.

  Lemma py_accumulate_scan_nest : forall (f : val -> val -> M val) xs x s,
    py_accumulate f x xs [x] s = scan_nest f (rev (x :: xs)) s.
  Proof.
    intros f xs. induction xs as [|y xs IH] using rev_ind; intros x s.
    - reflexivity.
    - change (x :: xs ++ [y]) with ((x :: xs) ++ [y]). rewrite rev_app_distr. simpl rev at 1.
      change ([y] ++ rev (x :: xs)) with (y :: rev (x :: xs)).
      rewrite scan_nest_snoc.
      2:{ simpl. destruct (rev xs); discriminate. }
      rewrite py_accumulate_app; [|reflexivity|discriminate].
      unfold bind. rewrite IH. reflexivity.
  Qed.

  Lemma scan_generic_eq : forall tbl (f : val -> val -> M val) a s,
    m_scan tbl None f a s = s_scan f a s.
  Proof.
    intros tbl f a s. unfold m_scan, s_scan.
    destruct (is_empty a) eqn:He; [reflexivity|].
    destruct (is_atom a) eqn:Ha; [reflexivity|].
    destruct (items a) as [|x xs] eqn:Hit; [exfalso; eapply nonatom_items; eauto|].
    change (scan_shortcut tbl None (x :: xs)) with (@None (res val)). cbv iota.
    unfold bind. rewrite py_accumulate_scan_nest. reflexivity.
  Qed.

  (* [a, *q] where q = accumulate([f(a,b1), b2, ...]) is the scan of a,b1,b2,... *)
  Lemma scan_nest_cons2 : forall (f : val -> val -> M val) xs a x s,
    scan_nest f (rev (a :: x :: xs)) s
    = bind (f a x) (fun v0 => bind (py_accumulate f v0 xs [v0]) (fun q => ret (a :: q))) s.
  Proof.
    intros f xs. induction xs as [|y xs IH] using rev_ind; intros a x s.
    - cbn. unfold bind, ret. cbn. run (f a x s); reflexivity.
    - change (a :: x :: xs ++ [y]) with ((a :: x :: xs) ++ [y]). rewrite rev_app_distr. simpl rev at 1.
      change ([y] ++ rev (a :: x :: xs)) with (y :: rev (a :: x :: xs)).
      rewrite scan_nest_snoc.
      2:{ simpl. destruct (rev xs); discriminate. }
      unfold bind at 1. rewrite IH. unfold bind.
      run (f a x s); try reflexivity.
      rewrite py_accumulate_app; [|reflexivity|discriminate].
      unfold bind.
      destruct (py_accumulate f r xs [r] s0) as [[q|e|] s1] eqn:Hq; try reflexivity.
      unfold ret.
      assert (Hne : q <> []).
      { eapply (py_accumulate_last f xs r [r] s0); [reflexivity | discriminate | exact Hq]. }
      assert (Hlast : last (a :: q) (VInt 0) = last q (VInt 0)).
      { destruct q; [congruence|reflexivity]. }
      rewrite Hlast. run (f (last q (VInt 0)) y s1); reflexivity.
  Qed.

  Lemma scan_neutral_eq : forall (f : val -> val -> M val) a b s,
    m_scan_neutral f a b s = s_scan_neutral f a b s.
  Proof.
    intros f a b s. unfold m_scan_neutral, s_scan_neutral.
    destruct (is_empty b) eqn:He; [reflexivity|].
    fold (members b).
    destruct (members b) as [|x xs] eqn:Hm.
    - exfalso. unfold members in Hm. destruct (is_atom b) eqn:Hb; [discriminate|].
      eapply nonatom_items; eauto.
    - unfold bind at 3. rewrite scan_nest_cons2. unfold bind.
      run (f a x s); try reflexivity.
      run (py_accumulate f r xs [r] s0); reflexivity.
  Qed.

  (* ---------------------------------------------------------------- Iterate *)
  Lemma iterM_shift : forall n (f : val -> M val) b s,
    iterM (Datatypes.S n) f b s = bind (f b) (fun b' => iterM n f b') s.
  Proof.
    induction n as [|n IH]; intros f b s.
    - simpl. unfold bind, ret. run (f b s); reflexivity.
    - change (iterM (Datatypes.S (Datatypes.S n)) f b s) with (bind (iterM (Datatypes.S n) f b) f s).
      unfold bind at 1. rewrite IH. unfold bind. run (f b s); reflexivity.
  Qed.

  Lemma iterate_loop_eq : forall n fuel (f : val -> M val) b s,
    (n < fuel)%nat -> iterate_loop fuel f (Z.of_nat n) b s = iterM n f b s.
  Proof.
    induction n as [|n IH]; intros fuel f b s Hf; destruct fuel as [|k]; try lia.
    - reflexivity.
    - cbn [iterate_loop]. replace (Z.of_nat (Datatypes.S n) =? 0) with false by (symmetry; apply Z.eqb_neq; lia).
      rewrite iterM_shift. unfold bind. run (f b s); try reflexivity.
      replace (Z.of_nat (Datatypes.S n) - 1) with (Z.of_nat n) by lia. apply IH. lia.
  Qed.

  Lemma iterate_eq : forall (f : val -> M val) n b fuel s,
    0 <= n -> (Z.to_nat n < fuel)%nat ->
    m_iterate fuel f (VInt n) b s = s_iterate f n b s.
  Proof.
    intros f n b fuel s Hn Hf. unfold m_iterate, s_iterate.
    rewrite <- (Z2Nat.id n) at 1 by exact Hn. apply iterate_loop_eq. exact Hf.
  Qed.

  Lemma orbitM_nonempty : forall n (f : val -> M val) b s vs s',
    orbitM n f b s = (Ok vs, s') -> vs <> [].
  Proof.
    induction n; intros f b s vs s' Ho; simpl in Ho.
    - inversion Ho. discriminate.
    - unfold bind in Ho. destruct (orbitM n f b s) as [[ws|e|] s2]; try discriminate.
      destruct (f (last ws (VInt 0)) s2) as [[w|e|] s3]; try discriminate.
      inversion Ho. destruct ws; discriminate.
  Qed.

  Lemma orbitM_shift : forall n (f : val -> M val) b s,
    orbitM (Datatypes.S n) f b s
    = bind (f b) (fun b' => bind (orbitM n f b') (fun vs => ret (b :: vs))) s.
  Proof.
    induction n as [|n IH]; intros f b s.
    - cbn. unfold bind, ret. cbn. run (f b s); reflexivity.
    - change (orbitM (Datatypes.S (Datatypes.S n)) f b s)
        with (bind (orbitM (Datatypes.S n) f b) (fun vs => bind (f (last vs (VInt 0))) (fun v => ret (vs ++ [v]))) s).
      unfold bind at 1. rewrite IH. unfold bind. run (f b s); try reflexivity.
      change (orbitM (Datatypes.S n) f r s0)
        with (bind (orbitM n f r) (fun vs => bind (f (last vs (VInt 0))) (fun v => ret (vs ++ [v]))) s0).
      unfold bind. destruct (orbitM n f r s0) as [[vs|e|] s1] eqn:Ho; try reflexivity.
      unfold ret.
      assert (Hne : vs <> []) by (eapply orbitM_nonempty; exact Ho).
      assert (Hl : last (b :: vs) (VInt 0) = last vs (VInt 0)) by (destruct vs; [congruence|reflexivity]).
      rewrite Hl. run (f (last vs (VInt 0)) s1); reflexivity.
  Qed.

  Lemma scan_iter_loop_orbit : forall n fuel (f : val -> M val) b r s,
    (n < fuel)%nat ->
    scan_iter_loop fuel f (Z.of_nat n) b (r ++ [b]) s
    = bind (orbitM n f b) (fun vs => ret (VList (r ++ vs))) s.
  Proof.
    induction n as [|n IH]; intros fuel f b r s Hf; destruct fuel as [|k]; try lia.
    - reflexivity.
    - cbn [scan_iter_loop]. replace (Z.of_nat (Datatypes.S n) =? 0) with false by (symmetry; apply Z.eqb_neq; lia).
      unfold bind at 2. rewrite orbitM_shift. unfold bind. run (f b s); try reflexivity.
      replace (Z.of_nat (Datatypes.S n) - 1) with (Z.of_nat n) by lia.
      rewrite IH by lia. unfold bind. run (orbitM n f r0 s0); try reflexivity.
      unfold ret. rewrite <- app_assoc. reflexivity.
  Qed.

  Lemma scan_iterating_eq : forall (f : val -> M val) n b fuel s,
    0 <= n -> (Z.to_nat n < fuel)%nat ->
    m_scan_iterating fuel f (VInt n) b s = s_scan_iterating f n b s.
  Proof.
    intros f n b fuel s Hn Hf. unfold m_scan_iterating, s_scan_iterating.
    destruct (n =? 0); [reflexivity|].
    rewrite <- (Z2Nat.id n) at 1 by exact Hn.
    change [b] with ([] ++ [b]). rewrite scan_iter_loop_orbit by exact Hf. reflexivity.
  Qed.
End Generic.
