(* C02/Spec.v — the definitional expansions of the adverbs, written as the reference text
   (the docstrings of klongpy/adverbs.py) writes them:

     f'a      -->  f(a1),...,f(aN)                         mapM
     a f'b    -->  f(a1;b1),...,f(aN;bN)                   map2M (excess elements ignored)
     f/a      -->  f(...f(f(a1;a2);a3)...;aN)              nest: the OUTERMOST application is the last one
     f\a      -->  a1, f(a1;a2), f(f(a1;a2);a3), ...       scan_nest: slot k is the fold of the first k elements
     a f:*b   -->  f(f(...f(b)))  a times                  iterM: f applied to the result of a-1 applications

   Applications are sequenced in the monad of Model.v, so the expansion fixes the ORDER of the
   applications, their number, and that the first failing application ends the evaluation. *)
From Coq Require Import ZArith List Bool String.
From C02 Require Import Model.
Import ListNotations.
Open Scope list_scope.
Open Scope Z_scope.

(* representation-free form of a value: a string is the list of its characters *)
Fixpoint norm (v : val) : val :=
  match v with
  | VStr s => VList (map VChar s)
  | VList l => VList (map norm l)
  | VDict kvs => VDict (map (fun kv => (norm (fst kv), norm (snd kv))) kvs)
  | other => other
  end.

Definition veq_res (x y : res val) : Prop :=
  match x, y with
  | Ok a, Ok b => norm a = norm b
  | Err e, Err e' => e = e'
  | OutOfFuel, OutOfFuel => True
  | _, _ => False
  end.

Section Spec.
  Variable S : Type.
  Notation M := (M S).

  Fixpoint mapM {A} (f : A -> M val) (l : list A) : M (list val) :=
    match l with
    | [] => ret []
    | x :: t => bind (f x) (fun u => bind (mapM f t) (fun us => ret (u :: us)))
    end.

  Fixpoint map2M (f : val -> val -> M val) (xs ys : list val) : M (list val) :=
    match xs, ys with
    | x :: xs', y :: ys' => bind (f x y) (fun u => bind (map2M f xs' ys') (fun us => ret (u :: us)))
    | _, _ => ret []
    end.

  (* f(...f(f(a1;a2);a3)...;aN) on the REVERSED element list [aN; ...; a1] *)
  Fixpoint nest (f : val -> val -> M val) (rl : list val) : M val :=
    match rl with
    | [] => fail E_TYPE
    | y :: rl' =>
        match rl' with
        | [] => ret y
        | _ => bind (nest f rl') (fun v => f v y)
        end
    end.

  (* the list of the folds of the first 1, 2, ..., N elements, again on the reversed list *)
  Fixpoint scan_nest (f : val -> val -> M val) (rl : list val) : M (list val) :=
    match rl with
    | [] => fail E_TYPE
    | y :: rl' =>
        match rl' with
        | [] => ret [y]
        | _ => bind (scan_nest f rl') (fun vs => bind (f (last vs (VInt 0)) y) (fun v => ret (vs ++ [v])))
        end
    end.

  Definition members (b : val) : list val := if is_atom b then [b] else items b.

  (* ---- Each *)
  Definition s_each (f : val -> M val) (a : val) : M val :=
    if is_empty a then ret a
    else match a with
         | VStr s => bind (mapM f (chars s)) (fun r => ret (VList r))
         | VList l => bind (mapM f l) (fun r => ret (VList r))
         | VDict kvs => bind (mapM f (map tuple kvs)) (fun r => ret (VList r))
         | atom => f atom
         end.

  (* ---- Each-2: both atoms f(a;b); either empty []; lists pairwise.
     DOMAIN DECISION (the reference is silent on an atom paired with a list; the specification follows the
     implementation): a number paired with a list is an error; a character is the one-character string of it
     and a dictionary stands for the list of its keys (Python's zip iterates both). *)
  Definition pairable (a : val) : option (list val) :=
    match a with
    | VStr s => Some (chars s) | VList l => Some l
    | VChar c => Some [VChar c] | VDict kvs => Some (map fst kvs)
    | _ => None
    end.
  Definition s_each2 (f : val -> val -> M val) (a b : val) : M val :=
    if is_empty a || is_empty b then ret (VList [])
    else if is_atom a && is_atom b then f a b
    else match pairable a, pairable b with
         | Some xs, Some ys => bind (map2M f xs ys) (fun r => ret (VList r))
         | _, _ => fail E_TYPE
         end.
  (* the part of Each-2 the reference documents *)
  Definition each2_dom (a b : val) : bool :=
    is_empty a || is_empty b || Bool.eqb (is_atom a) (is_atom b).

  (* ---- Each-Left / Each-Right *)
  Definition s_each_left (f : val -> val -> M val) (a b : val) : M val :=
    if is_empty b then ret (VList [])
    else if is_atom b then f a b
    else bind (mapM (fun x => f a x) (items b)) (fun r => ret (VList r)).
  Definition s_each_right (f : val -> val -> M val) (a b : val) : M val :=
    if is_empty b then ret (VList [])
    else if is_atom b then f b a
    else bind (mapM (fun x => f x a) (items b)) (fun r => ret (VList r)).

  (* ---- Each-Pair *)
  Definition s_each_pair (f : val -> val -> M val) (a : val) : M val :=
    if is_atom a then ret a
    else match items a with
         | [_] => ret a
         | xs => bind (map2M f xs (tl xs)) (fun r => ret (VList r))
         end.

  (* ---- Each-Index: f([0;a1]), f([1;a2]), ... ; an atom is treated as its own only member *)
  Definition indexed (xs : list val) : list val :=
    map (fun p => pair_val (Z.of_nat (fst p)) (snd p)) (combine (seq 0 (List.length xs)) xs).
  Definition s_each_index (f : val -> M val) (a : val) : M val :=
    if is_empty a then ret a
    else if is_atom a then f (pair_val 0 a)      (* DOMAIN DECISION: the reference is silent; an atom is its own only member *)
    else bind (mapM f (indexed (items a))) (fun r => ret (VList r)).

  (* ---- Over, Over-Neutral *)
  Definition s_over (f : val -> val -> M val) (a : val) : M val :=
    if is_atom a then ret a else nest f (rev (items a)).
  (* "a f/b is equal to f/a,b" with a as ONE element; a f/[] --> a *)
  Definition s_over_neutral (f : val -> val -> M val) (a b : val) : M val :=
    if is_empty b then ret a else nest f (rev (a :: members b)).

  (* ---- Scan-Over, Scan-Over-Neutral *)
  Definition s_scan (f : val -> val -> M val) (a : val) : M val :=
    if is_empty a then ret a
    else if is_atom a then ret (VList [a])
    else bind (scan_nest f (rev (items a))) (fun vs => ret (VList vs)).
  Definition s_scan_neutral (f : val -> val -> M val) (a b : val) : M val :=
    if is_empty b then ret a
    else bind (scan_nest f (rev (a :: members b))) (fun vs => ret (VList vs)).

  (* ---- Iterate: f applied to the result of n-1 applications *)
  Fixpoint iterM (n : nat) (f : val -> M val) (b : val) : M val :=
    match n with
    | O => ret b
    | Datatypes.S k => bind (iterM k f b) f
    end.
  (* b, f(b), ..., f^n(b) *)
  Fixpoint orbitM (n : nat) (f : val -> M val) (b : val) : M (list val) :=
    match n with
    | O => ret [b]
    | Datatypes.S k => bind (orbitM k f b) (fun vs => bind (f (last vs (VInt 0))) (fun v => ret (vs ++ [v])))
    end.
  Definition s_iterate (f : val -> M val) (n : Z) (b : val) : M val := iterM (Z.to_nat n) f b.
  Definition s_scan_iterating (f : val -> M val) (n : Z) (b : val) : M val :=
    if Z.eqb n 0 then ret b else bind (orbitM (Z.to_nat n) f b) (fun vs => ret (VList vs)).
End Spec.

Arguments mapM {S A} f l.
Arguments map2M {S} f xs ys.
Arguments nest {S} f rl.
Arguments scan_nest {S} f rl.
Arguments s_each {S} f a.
Arguments s_each2 {S} f a b.
Arguments s_each_left {S} f a b.
Arguments s_each_right {S} f a b.
Arguments s_each_pair {S} f a.
Arguments s_each_index {S} f a.
Arguments s_over {S} f a.
Arguments s_over_neutral {S} f a b.
Arguments s_scan {S} f a.
Arguments s_scan_neutral {S} f a b.
Arguments iterM {S} n f b.
Arguments orbitM {S} n f b.
Arguments s_iterate {S} f n b.
Arguments s_scan_iterating {S} f n b.

(* ------------------------------------------------------------------ pure verbs *)
(* a verb without effects, possibly failing *)
Definition pure1 {S} (g : val -> res val) : val -> M S val := fun x => lift (g x).
Definition pure2 {S} (g : val -> val -> res val) : val -> val -> M S val := fun x y => lift (g x y).

(* the same verb with a call log as its only effect *)
Inductive call := Call1 (x : val) | Call2 (x y : val) | CallP (x : val).
Definition logged1 (g : val -> res val) : val -> M (list call) val :=
  fun x log => (g x, log ++ [Call1 x]).
Definition logged2 (g : val -> val -> res val) : val -> val -> M (list call) val :=
  fun x y log => (g x y, log ++ [Call2 x y]).
Definition loggedp (g : val -> res val) : val -> M (list call) val :=
  fun x log => (g x, log ++ [CallP x]).

(* left fold of a pure, possibly failing dyad *)
Fixpoint fold_res (g : val -> val -> res val) (acc : val) (l : list val) : res val :=
  match l with
  | [] => Ok acc
  | x :: l' => match g acc x with Ok v => fold_res g v l' | other => other end
  end.
Definition over_pure (g : val -> val -> res val) (l : list val) : res val :=
  match l with [] => Err E_TYPE | x :: l' => fold_res g x l' end.

Fixpoint map_res {A B} (g : A -> res B) (l : list A) : res (list B) :=
  match l with
  | [] => Ok []
  | x :: l' =>
      match g x with
      | Ok v => match map_res g l' with Ok vs => Ok (v :: vs) | Err e => Err e | OutOfFuel => OutOfFuel end
      | Err e => Err e
      | OutOfFuel => OutOfFuel
      end
  end.

(* the non-empty prefixes of a list, shortest first *)
Fixpoint prefixes {A} (l : list A) : list (list A) :=
  match l with
  | [] => []
  | x :: l' => [x] :: map (cons x) (prefixes l')
  end.

(* the running left fold of a pure dyad after its first element: f(t;x1), f(f(t;x1);x2), ... *)
Fixpoint acc_res (g : val -> val -> res val) (total : val) (it : list val) : res (list val) :=
  match it with
  | [] => Ok []
  | x :: it' =>
      match g total x with
      | Ok t => match acc_res g t it' with Ok r => Ok (t :: r) | other => other end
      | Err e => Err e
      | OutOfFuel => OutOfFuel
      end
  end.
Definition scan_pure (g : val -> val -> res val) (l : list val) : res val :=
  match l with
  | [] => Err E_TYPE
  | x :: l' => match acc_res g x l' with Ok r => Ok (VList (x :: r)) | Err e => Err e | OutOfFuel => OutOfFuel end
  end.

(* the answers of a While test on which Python's truth (the implementation) is not Klong's: a list, an empty dictionary *)
Definition while_truth_known (v : val) : bool :=
  match v with VList _ => true | VDict [] => true | _ => false end.
