(* C09/Model.v — executable model of the Python interop layer of klongpy.

   Modelled code
     interpreter.py  set_context_var (wrap a Python callable into KGCall(KGLambda(fn), None, arity)),
                     KlongContext.__setitem__/__getitem__/__delitem__ (scope stack of dictionaries),
                     KlongInterpreter.__getitem__ (KGFn -> KGFnWrapper(self, r, sym=k)),
                     _eval_fn: frame {x,y,z := evaluated arguments}, push, call, pop in `finally`;
                     under-application returns the call object; arity-0 application of a wrapped callable
     types.py        KGLambda.__init__ (args, provide_klong), _get_pos_args (lookup through the WHOLE
                     scope stack), __call__, wildcard mode; KGFnWrapper.__call__ (re-resolve the symbol,
                     arity check, fall back to the captured function)
     sys_fn.py       _handle_import's arity rule
   Python functions and Klong function bodies are opaque: applying Python callable `pid` to
   arguments `a` yields the symbolic value [VPyRes pid a] and appends (pid, a) to the call log;
   evaluating the body of Klong function `kid` on `a` yields [VKRes kid a].
   No proofs in this file. *)
From Coq Require Import ZArith List Bool.
Import ListNotations.
Open Scope Z_scope.

Inductive val :=
| VInt (z : Z)
| VStr (s : list Z)
| VList (l : list val)
| VPyRes (pid : Z) (args : list val)
| VKRes (kid : Z) (args : list val)
| VPyObj (pid : Z)                (* a Python function object used as a value *)
| VSym (s : Z)                    (* a symbol; the name it denotes is s (names and symbols share one space) *)
| VKlong                          (* the interpreter object handed to a `klong` parameter *)
| VUndef.                         (* :undefined (what a Python None argument of a wrapper call becomes) *)

Inductive pname := PX | PY | PZ | PKlong | POther.

Definition pname_eqb (a b : pname) : bool :=
  match a, b with
  | PX, PX | PY, PY | PZ, PZ | PKlong, PKlong | POther, POther => true
  | _, _ => false
  end.

(* a Python callable: identity, signature, and the oracle telling for which received arguments it raises *)
Record pyc := mkPyc { pid : Z; params : list pname; praises : list val -> bool }.
Record kfn := mkKfn { kid : Z; karity : nat }.            (* a Klong function {..} *)

(* a parameter as inspect.signature shows it (for _handle_import) *)
Inductive pkind := KPosOnly | KPosOrKw | KVarPos | KKwOnly | KVarKw.
Record iparam := mkIparam { ip_name : pname; ip_named_args : bool; ip_kind : pkind; ip_default : bool }.

(* a callable found in an imported module: its real signature, and whether it is wrapped by a
   functools.wraps decorator (the wrapper itself takes star-args and star-kwargs and carries
   __wrapped__, so inspect.signature(..., follow_wrapped=True) still shows the real one) *)
Record item := mkItem { iid : Z; ireal : list iparam; idecorated : bool }.

(* what a scope dictionary can hold *)
Inductive entry :=
| EData (v : val)
| EPy (c : pyc)       (* KGCall(KGLambda(fn), args=None, arity): a wrapped Python callable *)
| ERaw (c : pyc)      (* the bare Python function object *)
| EKfn (k : kfn)
| ELam (it : item) (nargs : nat) (klong wild : bool).
                      (* a KGLambda stored directly, as .py/.pyf do: KGLambda(item, args=x,y,z[:nargs], provide_klong)
                         or KGLambda(item, wildcard=True) *)

(* facts read from the source by the translator *)
Record flags := mkFlags {
  args_positional : bool;  (* KGLambda.args = the first n of x,y,z (n = declared names among x,y,z) *)
  setitem_wraps : bool;    (* KlongContext.__setitem__ wraps callables for existing names too *)
  pop_finally : bool       (* _eval_fn pops the call frame in a `finally` *)
}.

(* names: 0,1,2 are the reserved x,y,z *)
Definition reserved (n : Z) : bool := (0 <=? n) && (n <? 3).
Definition xyz : list Z := [0; 1; 2].
Definition pname_of (s : Z) : pname := if s =? 0 then PX else if s =? 1 then PY else PZ.

Definition frame := list (Z * entry).
Definition ctx := list frame.            (* innermost first *)

Fixpoint f_lookup (f : frame) (n : Z) : option entry :=
  match f with
  | [] => None
  | (m, e) :: r => if m =? n then Some e else f_lookup r n
  end.

Definition f_remove (f : frame) (n : Z) : frame := filter (fun p => negb (fst p =? n)) f.
Definition f_set (f : frame) (n : Z) (e : entry) : frame := (n, e) :: f_remove f n.

(* KlongContext.__getitem__ *)
Fixpoint c_lookup (c : ctx) (n : Z) : option entry :=
  match c with
  | [] => None
  | f :: r => match f_lookup f n with Some e => Some e | None => c_lookup r n end
  end.

(* a Python-level value handed to klong[name] = v *)
Inductive pyval := PData (v : val) | PCall (c : pyc) | PKfn (k : kfn).

(* set_context_var *)
Definition wrap (v : pyval) : entry :=
  match v with PData d => EData d | PCall c => EPy c | PKfn k => EKfn k end.
Definition raw (v : pyval) : entry :=
  match v with PData d => EData d | PCall c => ERaw c | PKfn k => EKfn k end.

Fixpoint c_set_existing (c : ctx) (n : Z) (e : entry) : option ctx :=
  match c with
  | [] => None
  | f :: r =>
      match f_lookup f n with
      | Some _ => Some (f_set f n e :: r)
      | None => match c_set_existing r n e with Some r' => Some (f :: r') | None => None end
      end
  end.

(* KlongContext.__setitem__ (strict mode 0) *)
Definition c_set (fl : flags) (c : ctx) (n : Z) (v : pyval) : ctx :=
  let fresh := match c with f :: r => f_set f n (wrap v) :: r | [] => [[(n, wrap v)]] end in
  if reserved n then fresh
  else match c_set_existing c n (if setitem_wraps fl then wrap v else raw v) with
       | Some c' => c'
       | None => fresh
       end.

(* KlongContext.__delitem__: None = KeyError *)
Fixpoint c_del (c : ctx) (n : Z) : option ctx :=
  match c with
  | [] => None
  | f :: r =>
      match f_lookup f n with
      | Some _ => Some (f_remove f n :: r)
      | None => match c_del r n with Some r' => Some (f :: r') | None => None end
      end
  end.

(* ---------------------------------------------------------------- KGLambda *)
Definition mem (p : pname) (l : list pname) : bool := existsb (pname_eqb p) l.

Definition lam_args (fl : flags) (ps : list pname) : list Z :=
  let declared := filter (fun s => mem (pname_of s) ps) xyz in
  if args_positional fl then firstn (length declared) xyz else declared.

Definition lam_arity (fl : flags) (c : pyc) : nat := length (lam_args fl (params c)).
Definition provide_klong (c : pyc) : bool := mem PKlong (params c).

(* _get_pos_args: each name through the whole scope stack; None = KeyError *)
Fixpoint get_pos_args (c : ctx) (names : list Z) : option (list val) :=
  match names with
  | [] => Some []
  | s :: r =>
      match c_lookup c s, get_pos_args c r with
      | Some (EData v), Some vs => Some (v :: vs)
      | Some (EPy p), Some vs | Some (ERaw p), Some vs => Some (VPyObj (pid p) :: vs)
      | _, _ => None
      end
  end.

(* Python binds actuals to the declared parameters by position; the logged arguments are the
   values of the non-klong parameters in declaration order.  None = TypeError (wrong count). *)
Fixpoint bind_params (ps : list pname) (actuals : list val) : option (list val) :=
  match ps, actuals with
  | [], [] => Some []
  | p :: ps', a :: as' =>
      match bind_params ps' as' with
      | Some r => Some (match p with PKlong => r | _ => a :: r end)
      | None => None
      end
  | _, _ => None
  end.

Record state := mkState { scx : ctx; log : list (Z * list val) }.

Inductive res :=
| RVal (v : val)
| RErr                 (* a Python exception *)
| RUnapplied           (* the call object is returned unevaluated (under-application / projection) *)
| RBad.                (* outside the model *)

(* KGLambda.__call__(klong, ctx) *)
Definition lam_call (fl : flags) (st : state) (c : pyc) : state * res :=
  match get_pos_args (scx st) (lam_args fl (params c)) with
  | None => (st, RErr)
  | Some pos =>
      match bind_params (params c) ((if provide_klong c then [VKlong] else []) ++ pos) with
      | None => (st, RErr)
      | Some logged =>
          (mkState (scx st) (log st ++ [(pid c, logged)]),
           if praises c logged then RErr else RVal (VPyRes (pid c) logged))
      end
  end.

Fixpoint zip_frame (names : list Z) (args : list val) : frame :=
  match names, args with
  | n :: ns, a :: as' => (n, EData a) :: zip_frame ns as'
  | _, _ => []
  end.

(* _eval_fn builds the frame with self.call(q) for every argument q: an argument that is a
   symbol is evaluated AGAIN as a variable (bound to data: that data; to a callable: the
   function object; unbound: the symbol itself) *)
Definition reval (c : ctx) (v : val) : val :=
  match v with
  | VSym s =>
      match c_lookup c s with
      | Some (EData d) => d
      | Some (EPy p) | Some (ERaw p) => VPyObj (pid p)
      | _ => v
      end
  | _ => v
  end.

Definition call_frame (c : ctx) (args : list val) : frame := zip_frame xyz (map (reval c) args).

(* after the call: the frame is popped; on an exception only if the pop sits in a `finally` *)
Definition after_call (fl : flags) (st : state) (pushed_frame : frame) (st' : state) (r : res) : state * res :=
  match r with
  | RErr => (mkState (if pop_finally fl then scx st else pushed_frame :: scx st) (log st'), r)
  | _ => (mkState (scx st) (log st'), r)
  end.

(* _eval_fn with f a KGLambda: ctx = {x,y,z: args}; push; call; pop (finally) *)
Definition call_lambda (fl : flags) (st : state) (c : pyc) (args : list val) : state * res :=
  let fr := call_frame (scx st) args in
  let '(st', r) := lam_call fl (mkState (fr :: scx st) (log st)) c in
  after_call fl st fr st' r.

(* ---------------------------------------------------------------- imported callables *)
(* wildcard mode of _get_pos_args: x, y, z in turn through the WHOLE scope stack, stopping at the first miss *)
Fixpoint get_pos_wild (c : ctx) (names : list Z) : list val :=
  match names with
  | [] => []
  | s :: r => match c_lookup c s with Some (EData v) => v :: get_pos_wild c r | _ => [] end
  end.

Definition pos_capable (p : iparam) : bool :=
  match ip_kind p with KPosOnly | KPosOrKw => true | _ => false end.

Definition is_required (p : iparam) : bool :=
  match ip_kind p with
  | KPosOnly => true
  | KPosOrKw => negb (ip_default p)
  | _ => false
  end.

(* does the real Python function accept k positional actuals (the interpreter object included)? *)
Definition accepts (real : list iparam) (k : nat) : bool :=
  (length (filter is_required real) <=? k)%nat
  && ((k <=? length (filter pos_capable real))%nat
      || existsb (fun p => match ip_kind p with KVarPos => true | _ => false end) real)
  && negb (existsb (fun p => match ip_kind p with KKwOnly => negb (ip_default p) | _ => false end) real).

(* _eval_fn + KGLambda.__call__ for a KGLambda registered by an import *)
Definition call_item (st : state) (it : item) (n : nat) (k w : bool) (args : list val) : state * res :=
  let pushed := call_frame (scx st) args :: scx st in
  match (if w then Some (get_pos_wild pushed xyz) else get_pos_args pushed (firstn n xyz)) with
  | None => (st, RErr)
  | Some pos =>
      if accepts (ireal it) (if k then S (length pos) else length pos)
      then (mkState (scx st) (log st ++ [(iid it, pos)]), RVal (VPyRes (iid it) pos))
      else (st, RErr)
  end.

(* the Klong application  n(a1;...;ak)  with already evaluated arguments *)
Definition apply_name (fl : flags) (st : state) (n : Z) (args : list val) : state * res :=
  match c_lookup (scx st) n with
  | Some (EPy c) =>
      (* fewer arguments than the arity (none included): the call object comes back unevaluated; a zero-argument
         application of an arity-0 callable re-enters _eval_fn with empty frames and calls it *)
      if (length args <? lam_arity fl c)%nat then (st, RUnapplied) else call_lambda fl st c args
  | Some (ERaw c) => (st, RVal (VPyObj (pid c)))           (* eval of a non-Klong object returns it *)
  | Some (EKfn k) =>
      if (length args <? karity k)%nat then (st, RUnapplied)
      else (st, RVal (VKRes (kid k) (firstn (karity k) (map (reval (scx st)) args))))
  | Some (ELam it n k w) => call_item st it n k w args      (* f is a KGLambda, f_arity is the call's own: always called *)
  | Some (EData _) => (st, RBad)
  | None => (st, RBad)
  end.

(* ---------------------------------------------------------------- call forms *)
(* merge_projections for one projection: holes filled left to right *)
Fixpoint fill (holes : list (option val)) (xs : list val) : list val :=
  match holes with
  | [] => []
  | Some v :: r => v :: fill r xs
  | None :: r => match xs with x :: xs' => x :: fill r xs' | [] => [] end
  end.

(* merge_projections: the first list has one slot per parameter; every further list supplies,
   position by position, the slots still open: its n-th entry goes to the n-th open slot, an
   omitted entry (None) leaves that slot open *)
Fixpoint fill_stage (slots st : list (option val)) : list (option val) :=
  match slots with
  | [] => []
  | Some v :: r => Some v :: fill_stage r st
  | None :: r => match st with [] => None :: r | e :: st' => e :: fill_stage r st' end
  end.

Definition merge (stages : list (list (option val))) : list (option val) :=
  match stages with [] => [] | s0 :: r => fold_left fill_stage r s0 end.

Fixpoint all_some (l : list (option val)) : option (list val) :=
  match l with
  | [] => Some []
  | Some v :: r => match all_some r with Some vs => Some (v :: vs) | None => None end
  | None :: _ => None
  end.

Fixpoint each_loop (fl : flags) (st : state) (n : Z) (vs : list val) : state * option (list val) :=
  match vs with
  | [] => (st, Some [])
  | v :: r =>
      match apply_name fl st n [v] with
      | (st1, RVal x) =>
          match each_loop fl st1 n r with
          | (st2, Some xs) => (st2, Some (x :: xs))
          | (st2, None) => (st2, None)
          end
      | (st1, _) => (st1, None)
      end
  end.

Fixpoint over_loop (fl : flags) (st : state) (n : Z) (acc : val) (vs : list val) : state * option val :=
  match vs with
  | [] => (st, Some acc)
  | v :: r =>
      match apply_name fl st n [acc; v] with
      | (st1, RVal x) => over_loop fl st1 n x r
      | (st1, _) => (st1, None)
      end
  end.

Inductive form :=
| FDirect (args : list val)                           (* n(a;b;c) *)
| FProj (holes : list (option val)) (xs : list val)   (* q::n(a;;c); q(b) *)
| FEach (vs : list val)                               (* n'[v1 v2 ...] *)
| FOver (vs : list val)                               (* n/[v1 v2 ...] *)
| FAt (args : list val)                               (* n@[a b c] *)
| FStaged (stages : list (list (option val)))         (* p::n(a;;); q::p(;c); q(b) : any number of stages *)
| FStagedEach (stages : list (list (option val))) (vs : list val)    (* ... q'[v1 v2 ..] : the last stage is one value *)
| FEach2 (xs ys : list val)                           (* xs n'ys : pairwise, stops at the shorter list *)
| FEachLeft (a b : val)                               (* a n:\b  : n(a;b1),...   or n(a;b) for an atom b *)
| FEachRight (a b : val)                              (* a n:/b  : n(b1;a),...   or n(b;a) for an atom b *)
| FEachPair (vs : list val)                           (* n:'vs   : n(v1;v2), n(v2;v3), ... *)
| FOverN (a b : val)                                  (* a n/b   : fold from a; n(a;b) for an atom b; a for [] *)
| FScan (vs : list val)                               (* n\vs    : v1, n(v1;v2), n(n(v1;v2);v3), ... *)
| FScanN (a b : val).                                 (* a n\b   : a, n(a;b1), n(n(a;b1);b2), ... *)

Definition apply_staged (fl : flags) (st : state) (n : Z) (stages : list (list (option val))) : state * res :=
  match all_some (merge stages) with
  | Some args => apply_name fl st n args
  | None => (st, RUnapplied)
  end.

Fixpoint staged_each_loop (fl : flags) (st : state) (n : Z) (stages : list (list (option val))) (vs : list val)
  : state * option (list val) :=
  match vs with
  | [] => (st, Some [])
  | v :: r =>
      match apply_staged fl st n (stages ++ [[Some v]]) with
      | (st1, RVal x) =>
          match staged_each_loop fl st1 n stages r with
          | (st2, Some xs) => (st2, Some (x :: xs))
          | (st2, None) => (st2, None)
          end
      | (st1, _) => (st1, None)
      end
  end.

Fixpoint each2_loop (fl : flags) (st : state) (n : Z) (xs ys : list val) : state * option (list val) :=
  match xs, ys with
  | x :: xr, y :: yr =>
      match apply_name fl st n [x; y] with
      | (st1, RVal r) =>
          match each2_loop fl st1 n xr yr with
          | (st2, Some rs) => (st2, Some (r :: rs))
          | (st2, None) => (st2, None)
          end
      | (st1, _) => (st1, None)
      end
  | _, _ => (st, Some [])
  end.

(* n applied to each pair in turn *)
Fixpoint pairs_loop (fl : flags) (st : state) (n : Z) (ps : list (val * val)) : state * option (list val) :=
  match ps with
  | [] => (st, Some [])
  | (x, y) :: r =>
      match apply_name fl st n [x; y] with
      | (st1, RVal v) =>
          match pairs_loop fl st1 n r with
          | (st2, Some vs) => (st2, Some (v :: vs))
          | (st2, None) => (st2, None)
          end
      | (st1, _) => (st1, None)
      end
  end.

(* itertools.accumulate: the running results of a left fold *)
Fixpoint scan_loop (fl : flags) (st : state) (n : Z) (acc : val) (vs : list val) : state * option (list val) :=
  match vs with
  | [] => (st, Some [])
  | v :: r =>
      match apply_name fl st n [acc; v] with
      | (st1, RVal x) =>
          match scan_loop fl st1 n x r with
          | (st2, Some xs) => (st2, Some (x :: xs))
          | (st2, None) => (st2, None)
          end
      | (st1, _) => (st1, None)
      end
  end.

Definition list_res (x : state * option (list val)) (pre : list val) : state * res :=
  match x with
  | (st', Some rs) => (st', RVal (VList (pre ++ rs)))
  | (st', None) => (st', RErr)
  end.

Definition run_form (fl : flags) (st : state) (n : Z) (f : form) : state * res :=
  match f with
  | FDirect args => apply_name fl st n args
  | FProj holes xs => apply_name fl st n (fill holes xs)
  | FEach vs =>
      match each_loop fl st n vs with
      | (st', Some xs) => (st', RVal (VList xs))
      | (st', None) => (st', RErr)
      end
  | FOver vs =>
      match vs with
      | [] => (st, RVal (VList []))
      | v :: r =>
          match over_loop fl st n v r with
          | (st', Some x) => (st', RVal x)
          | (st', None) => (st', RErr)
          end
      end
  | FAt args => apply_name fl st n args
  | FStaged stages => apply_staged fl st n stages
  | FEach2 xs ys =>
      match each2_loop fl st n xs ys with
      | (st', Some rs) => (st', RVal (VList rs))
      | (st', None) => (st', RErr)
      end
  | FEachLeft a b =>
      match b with
      | VList bs => list_res (pairs_loop fl st n (map (fun x => (a, x)) bs)) []
      | _ => apply_name fl st n [a; b]
      end
  | FEachRight a b =>
      match b with
      | VList bs => list_res (pairs_loop fl st n (map (fun x => (x, a)) bs)) []
      | _ => apply_name fl st n [b; a]
      end
  | FEachPair vs =>
      match vs with
      | [] | [_] => (st, RVal (VList vs))
      | _ :: r => list_res (pairs_loop fl st n (combine vs r)) []
      end
  | FOverN a b =>
      match b with
      | VList [] => (st, RVal a)
      | VList bs =>
          match over_loop fl st n a bs with
          | (st', Some x) => (st', RVal x)
          | (st', None) => (st', RErr)
          end
      | _ => apply_name fl st n [a; b]
      end
  | FScan vs =>
      match vs with
      | [] => (st, RVal (VList []))
      | v :: r => list_res (scan_loop fl st n v r) [v]
      end
  | FScanN a b =>
      match b with
      | VList [] => (st, RVal a)
      | VList bs => list_res (scan_loop fl st n a bs) [a]
      | _ => list_res (scan_loop fl st n a [b]) [a]
      end
  | FStagedEach stages vs =>
      match staged_each_loop fl st n stages vs with
      | (st', Some xs) => (st', RVal (VList xs))
      | (st', None) => (st', RErr)
      end
  end.

(* ---------------------------------------------------------------- klong[name] and KGFnWrapper *)
Inductive readback :=
| BData (v : val)
| BWrapper (sym : Z) (captured : entry)     (* KGFnWrapper(klong, r, sym) *)
| BRawCallable (c : pyc)                    (* the very Python object that was stored *)
| BKeyError.

Definition read_name (st : state) (n : Z) : readback :=
  match c_lookup (scx st) n with
  | Some (EData v) => BData v
  | Some (EPy c) => BWrapper n (EPy c)
  | Some (EKfn k) => BWrapper n (EKfn k)
  | Some (ERaw c) => BRawCallable c
  | Some (ELam _ _ _ _) => BKeyError        (* not produced by klong[name] = v; outside the store model *)
  | None => BKeyError
  end.

(* klong.call(KGCall(fn.a, args, arity)) for a captured / current function, after the arity check *)
Definition call_entry (fl : flags) (st : state) (e : entry) (args : list val) : state * res :=
  match e with
  | EKfn k => if (length args =? karity k)%nat then (st, RVal (VKRes (kid k) (map (reval (scx st)) args))) else (st, RErr)
  | EPy c => if (length args =? lam_arity fl c)%nat then call_lambda fl st c args else (st, RErr)
  | _ => (st, RBad)
  end.

(* KGFnWrapper.__call__ *)
Definition wrapper_call (fl : flags) (st : state) (sym : Z) (captured : entry) (args : list val) : state * res :=
  match c_lookup (scx st) sym with
  | Some (EKfn cur) => call_entry fl st (EKfn cur) args          (* a KGFn that is not a KGCall: use the current definition *)
  | _ => call_entry fl st captured args                          (* deleted (KeyError) or not a Klong function: captured one *)
  end.

(* calling what klong[name] returned, from Python *)
Definition call_readback (fl : flags) (st : state) (b : readback) (args : list val) : state * res :=
  match b with
  | BWrapper sym cap => wrapper_call fl st sym cap args
  | BRawCallable c =>
      match bind_params (params c) args with
      | Some logged => (mkState (scx st) (log st ++ [(pid c, logged)]),
                        if praises c logged then RErr else RVal (VPyRes (pid c) logged))
      | None => (st, RErr)
      end
  | _ => (st, RBad)
  end.

(* ---------------------------------------------------------------- histories (T9.store) *)
Inductive hop :=
| HSet (n : Z) (v : pyval)      (* klong[n] = v   /   klong('n::{...}') for a Klong function *)
| HDel (n : Z).                 (* del klong[n]  (KeyError leaves the state unchanged) *)

Definition hstep (fl : flags) (c : ctx) (o : hop) : ctx :=
  match o with
  | HSet n v => c_set fl c n v
  | HDel n => match c_del c n with Some c' => c' | None => c end
  end.

Definition hrun (fl : flags) (c : ctx) (h : list hop) : ctx := fold_left (hstep fl) h c.

(* ---------------------------------------------------------------- _handle_import *)

Inductive imported :=
| ILambda (nargs : nat) (klong : bool)     (* KGLambda(item, args = x,y,z[:nargs], provide_klong) *)
| IWildcard                                (* KGLambda(item, wildcard=True): takes what is in the frame, arity 3 *)
| IStar                                    (* a two-parameter .pyc-style trampoline: more than three parameters *)
| IError.

Definition is_optional (p : iparam) : bool :=
  match ip_kind p with KPosOrKw => ip_default p | _ => false end.

Definition handle_import (sig : list iparam) : imported :=
  if existsb ip_named_args sig then IWildcard
  else
    let req := filter is_required sig in
    if (length req =? 0)%nat && existsb is_optional sig then IWildcard
    else
      let has_klong := existsb (fun p => pname_eqb (ip_name p) PKlong) req in
      let n := if has_klong then (length req - 1)%nat else length req in
      if (n <=? 3)%nat then ILambda n has_klong
      else if has_klong then IError            (* assert n_args <= 3 *)
      else IStar.

(* what inspect.signature(item, follow_wrapped=follow) shows *)
Definition wrapper_sig : list iparam :=
  [mkIparam POther true KVarPos false; mkIparam POther false KVarKw false].

Definition inspect_sig (follow : bool) (it : item) : list iparam :=
  if idecorated it && negb follow then wrapper_sig else ireal it.

(* klong[name] = _handle_import(item): the entry the name gets (None: not registered as a KGLambda) *)
Definition register (follow : bool) (it : item) : option entry :=
  match handle_import (inspect_sig follow it) with
  | ILambda n k => Some (ELam it n k false)
  | IWildcard => Some (ELam it 0 (existsb (fun p => pname_eqb (ip_name p) PKlong) (ireal it)) true)
  | IStar | IError => None
  end.
