(* C09/Run.v — S-expression front end of the interop model, extracted to OCaml.
   values   (i z) (s z ...) (l v ...) (pyres pid v ...) (kres kid v ...) (pyobj pid) (klong)
   params   words x y z klong other
   ENTRY    (data v) (py pid (params)) (raw pid (params)) (kfn kid arity)
   PYVAL    (data v) (call pid (params)) (kfn kid arity)
   requests
     (form (frames ((n ENTRY) ...) ...) n FORM)      -> (ok RES (log (pid v ...) ...))
         FORM (direct v ...) (proj (H ...) v ...) (each v ...) (over v ...) (at v ...),  H = (some v) | (none)
     (hist STEP ...)                                 -> (ok OUT ...)     one OUT per STEP, top-level scope stack [[]]
         STEP (set n PYVAL) (del n) (read n) (apply n v ...) (wcall sym ENTRY v ...) (rbcall n v ...)
         OUT  (done) (keyerror) (rb READBACK) (res RES (log ...))        log = the calls made by this step
     (import (P ...))   P = (name named_args kind default)               -> (lambda n k) (wildcard) (star) (error)
   flags come from Generated.v *)
From Coq Require Import ZArith List String.
From KB Require Import Sx.
From C09 Require Import Generated Model.
Import ListNotations.
Open Scope Z_scope.

Definition the_flags : flags := mkFlags kglambda_args_positional setitem_wraps_existing eval_fn_pops_in_finally.

Fixpoint val_of_sx (fuel : nat) (x : sx) : option val :=
  match fuel with O => None | S n =>
  let go := (fix go (l : list sx) : option (list val) :=
               match l with
               | [] => Some []
               | a :: r => match val_of_sx n a, go r with Some v, Some vs => Some (v :: vs) | _, _ => None end
               end) in
  match x with
  | SL (SS t :: rest) =>
      if is_tag "i" t then match rest with [SZ z] => Some (VInt z) | _ => None end else
      if is_tag "s" t then option_map VStr (sx_get_zs rest) else
      if is_tag "l" t then option_map VList (go rest) else
      if is_tag "pyres" t then match rest with SZ p :: r => option_map (VPyRes p) (go r) | _ => None end else
      if is_tag "kres" t then match rest with SZ p :: r => option_map (VKRes p) (go r) | _ => None end else
      if is_tag "pyobj" t then match rest with [SZ p] => Some (VPyObj p) | _ => None end else
      if is_tag "sym" t then match rest with [SZ p] => Some (VSym p) | _ => None end else
      if is_tag "u" t then Some VUndef else
      if is_tag "klong" t then Some VKlong else None
  | _ => None
  end end.

Fixpoint vals_of_sx (l : list sx) : option (list val) :=
  match l with
  | [] => Some []
  | a :: r => match val_of_sx 1000 a, vals_of_sx r with Some v, Some vs => Some (v :: vs) | _, _ => None end
  end.

Definition pname_of_sx (x : sx) : option pname :=
  match x with
  | SS t => if is_tag "x" t then Some PX else if is_tag "y" t then Some PY else if is_tag "z" t then Some PZ
            else if is_tag "klong" t then Some PKlong else Some POther
  | _ => None
  end.

Fixpoint pnames_of_sx (l : list sx) : option (list pname) :=
  match l with
  | [] => Some []
  | a :: r => match pname_of_sx a, pnames_of_sx r with Some p, Some ps => Some (p :: ps) | _, _ => None end
  end.

(* raising oracle of an instrumented callable: never, or when one received argument is the integer z *)
Definition never : list val -> bool := fun _ => false.
Definition boom_on (z : Z) : list val -> bool :=
  existsb (fun v => match v with VInt y => Z.eqb y z | _ => false end).

Definition entry_of_sx (x : sx) : option entry :=
  match x with
  | SL [SS t; SZ p; SL ps; SZ z] =>
      if is_tag "py" t then option_map (fun l => EPy (mkPyc p l (boom_on z))) (pnames_of_sx ps) else None
  | SL [SS t; a] => if is_tag "data" t then option_map EData (val_of_sx 1000 a) else None
  | SL [SS t; SZ p; SL ps] =>
      if is_tag "py" t then option_map (fun l => EPy (mkPyc p l never)) (pnames_of_sx ps) else
      if is_tag "raw" t then option_map (fun l => ERaw (mkPyc p l never)) (pnames_of_sx ps) else None
  | SL [SS t; SZ k; SZ a] => if is_tag "kfn" t then Some (EKfn (mkKfn k (Z.to_nat a))) else None
  | _ => None
  end.

Definition pyval_of_sx (x : sx) : option pyval :=
  match x with
  | SL [SS t; a] => if is_tag "data" t then option_map PData (val_of_sx 1000 a) else None
  | SL [SS t; SZ p; SL ps] => if is_tag "call" t then option_map (fun l => PCall (mkPyc p l never)) (pnames_of_sx ps) else None
  | SL [SS t; SZ k; SZ a] => if is_tag "kfn" t then Some (PKfn (mkKfn k (Z.to_nat a))) else None
  | _ => None
  end.

Fixpoint frame_of_sx (l : list sx) : option frame :=
  match l with
  | [] => Some []
  | SL [SZ n; e] :: r => match entry_of_sx e, frame_of_sx r with Some x, Some f => Some ((n, x) :: f) | _, _ => None end
  | _ => None
  end.

Fixpoint frames_of_sx (l : list sx) : option ctx :=
  match l with
  | [] => Some []
  | SL f :: r => match frame_of_sx f, frames_of_sx r with Some x, Some c => Some (x :: c) | _, _ => None end
  | _ => None
  end.

Fixpoint holes_of_sx (l : list sx) : option (list (option val)) :=
  match l with
  | [] => Some []
  | SL [SS t; a] :: r =>
      if is_tag "some" t then match val_of_sx 1000 a, holes_of_sx r with Some v, Some hs => Some (Some v :: hs) | _, _ => None end else None
  | SL [SS t] :: r => if is_tag "none" t then option_map (cons None) (holes_of_sx r) else None
  | _ => None
  end.

Fixpoint stages_of_sx (l : list sx) : option (list (list (option val))) :=
  match l with
  | [] => Some []
  | SL hs :: r => match holes_of_sx hs, stages_of_sx r with Some h, Some t => Some (h :: t) | _, _ => None end
  | _ => None
  end.

Definition form_of_sx (x : sx) : option form :=
  match x with
  | SL (SS t :: rest) =>
      if is_tag "direct" t then option_map FDirect (vals_of_sx rest) else
      if is_tag "each" t then option_map FEach (vals_of_sx rest) else
      if is_tag "over" t then option_map FOver (vals_of_sx rest) else
      if is_tag "at" t then option_map FAt (vals_of_sx rest) else
      if is_tag "each2" t then
        match rest with
        | [SL xs; SL ys] => match vals_of_sx xs, vals_of_sx ys with Some a, Some b => Some (FEach2 a b) | _, _ => None end
        | _ => None
        end else
      if is_tag "eachleft" t then match rest with [a; b] => match val_of_sx 1000 a, val_of_sx 1000 b with Some x, Some y => Some (FEachLeft x y) | _, _ => None end | _ => None end else
      if is_tag "eachright" t then match rest with [a; b] => match val_of_sx 1000 a, val_of_sx 1000 b with Some x, Some y => Some (FEachRight x y) | _, _ => None end | _ => None end else
      if is_tag "overn" t then match rest with [a; b] => match val_of_sx 1000 a, val_of_sx 1000 b with Some x, Some y => Some (FOverN x y) | _, _ => None end | _ => None end else
      if is_tag "scann" t then match rest with [a; b] => match val_of_sx 1000 a, val_of_sx 1000 b with Some x, Some y => Some (FScanN x y) | _, _ => None end | _ => None end else
      if is_tag "eachpair" t then option_map FEachPair (vals_of_sx rest) else
      if is_tag "scan" t then option_map FScan (vals_of_sx rest) else
      if is_tag "staged" t then option_map FStaged (stages_of_sx rest) else
      if is_tag "stagedeach" t then
        match rest with
        | SL sts :: vs => match stages_of_sx sts, vals_of_sx vs with Some a, Some b => Some (FStagedEach a b) | _, _ => None end
        | _ => None
        end else
      if is_tag "proj" t then
        match rest with
        | SL hs :: xs => match holes_of_sx hs, vals_of_sx xs with Some h, Some v => Some (FProj h v) | _, _ => None end
        | _ => None
        end
      else None
  | _ => None
  end.

Fixpoint sx_of_val (v : val) : sx :=
  match v with
  | VInt z => SL [sx_w "i"; SZ z]
  | VStr s => SL (sx_w "s" :: map SZ s)
  | VList l => SL (sx_w "l" :: map sx_of_val l)
  | VPyRes p a => SL (sx_w "pyres" :: SZ p :: map sx_of_val a)
  | VKRes p a => SL (sx_w "kres" :: SZ p :: map sx_of_val a)
  | VPyObj p => SL [sx_w "pyobj"; SZ p]
  | VKlong => SL [sx_w "klong"]
  | VSym p => SL [sx_w "sym"; SZ p]
  | VUndef => SL [sx_w "u"]
  end.

Definition sx_of_res (r : res) : sx :=
  match r with
  | RVal v => SL [sx_w "val"; sx_of_val v]
  | RErr => SL [sx_w "err"]
  | RUnapplied => SL [sx_w "unapplied"]
  | RBad => SL [sx_w "bad"]
  end.

Definition sx_of_log (l : list (Z * list val)) : sx :=
  SL (sx_w "log" :: map (fun e => SL (SZ (fst e) :: map sx_of_val (snd e))) l).

Definition sx_of_pname (p : pname) : sx :=
  match p with PX => sx_w "x" | PY => sx_w "y" | PZ => sx_w "z" | PKlong => sx_w "klong" | POther => sx_w "other" end.

Definition sx_of_entry (e : entry) : sx :=
  match e with
  | EData v => SL [sx_w "data"; sx_of_val v]
  | EPy c => SL [sx_w "py"; SZ (pid c); SL (map sx_of_pname (params c))]
  | ERaw c => SL [sx_w "raw"; SZ (pid c); SL (map sx_of_pname (params c))]
  | EKfn k => SL [sx_w "kfn"; SZ (kid k); sx_nat (karity k)]
  | ELam it n k w => SL [sx_w "lam"; SZ (iid it); sx_nat n; sx_bool k; sx_bool w]
  end.

Definition sx_of_readback (b : readback) : sx :=
  match b with
  | BData v => SL [sx_w "data"; sx_of_val v]
  | BWrapper s e => SL [sx_w "wrapper"; SZ s; sx_of_entry e]
  | BRawCallable c => SL [sx_w "rawcallable"; SZ (pid c)]
  | BKeyError => SL [sx_w "keyerror"]
  end.

Definition out_res (before : state) (x : state * res) : state * sx :=
  (fst x, SL [sx_w "res"; sx_of_res (snd x); sx_of_log (skipn (List.length (log before)) (log (fst x)))]).

Definition hist_step (st : state) (x : sx) : option (state * sx) :=
  match x with
  | SL (SS t :: SZ n :: rest) =>
      if is_tag "set" t then
        match rest with
        | [pv] =>
            match pyval_of_sx pv with
            | Some v => Some (mkState (c_set the_flags (scx st) n v) (log st), SL [sx_w "done"])
            | None => None
            end
        | _ => None
        end
      else if is_tag "del" t then
        match c_del (scx st) n with
        | Some c => Some (mkState c (log st), SL [sx_w "done"])
        | None => Some (st, SL [sx_w "keyerror"])
        end
      else if is_tag "pop" t then Some (mkState (tl (scx st)) (log st), SL [sx_w "done"])
      else if is_tag "read" t then Some (st, SL [sx_w "rb"; sx_of_readback (read_name st n)])
      else if is_tag "apply" t then option_map (fun a => out_res st (apply_name the_flags st n a)) (vals_of_sx rest)
      else if is_tag "rbcall" t then option_map (fun a => out_res st (call_readback the_flags st (read_name st n) a)) (vals_of_sx rest)
      else if is_tag "wcall" t then
        match rest with
        | e :: args =>
            match entry_of_sx e, vals_of_sx args with
            | Some cap, Some a => Some (out_res st (wrapper_call the_flags st n cap a))
            | _, _ => None
            end
        | [] => None
        end
      else None
  | _ => None
  end.

Fixpoint hist_run (st : state) (l : list sx) : option (list sx) :=
  match l with
  | [] => Some []
  | x :: r =>
      match hist_step st x with
      | Some (st', o) => option_map (cons o) (hist_run st' r)
      | None => None
      end
  end.

Definition kind_of_sx (x : sx) : option pkind :=
  match x with
  | SS t => if is_tag "posonly" t then Some KPosOnly else if is_tag "pos" t then Some KPosOrKw
            else if is_tag "varpos" t then Some KVarPos else if is_tag "kwonly" t then Some KKwOnly
            else if is_tag "varkw" t then Some KVarKw else None
  | _ => None
  end.

Fixpoint sig_of_sx (l : list sx) : option (list iparam) :=
  match l with
  | [] => Some []
  | SL [nm; SZ na; k; SZ d] :: r =>
      match pname_of_sx nm, kind_of_sx k, sig_of_sx r with
      | Some p, Some kd, Some ps => Some (mkIparam p (Z.eqb na 1) kd (Z.eqb d 1) :: ps)
      | _, _, _ => None
      end
  | _ => None
  end.

(* bind n in the outermost (global) frame *)
Fixpoint add_global (c : ctx) (n : Z) (e : entry) : ctx :=
  match c with
  | [] => [[(n, e)]]
  | [f] => [(n, e) :: f]
  | f :: r => f :: add_global r n e
  end.

Definition dispatch (x : sx) : sx :=
  match x with
  | SL (SS t :: rest) =>
      if is_tag "form" t then
        match rest with
        | [SL (SS _ :: frames); SZ n; f] =>
            match frames_of_sx frames, form_of_sx f with
            | Some c, Some fm =>
                let st := mkState c [] in
                let '(st', r) := run_form the_flags st n fm in
                SL [sx_w "ok"; sx_of_res r; sx_of_log (log st'); SL [sx_w "depth"; sx_nat (List.length (scx st') - List.length c)]]
            | _, _ => sx_err "form"
            end
        | _ => sx_err "form"
        end
      else if is_tag "iform" t then
        match rest with
        | [SL (SS _ :: frames); SL [SS _; SZ i; SZ dec; SL ps]; SZ n; f] =>
            match frames_of_sx frames, sig_of_sx ps, form_of_sx f with
            | Some c, Some sg, Some fm =>
                match register import_follows_wrapped (mkItem i sg (Z.eqb dec 1)) with
                | Some e =>
                    let st := mkState (add_global c n e) [] in
                    let '(st', r) := run_form the_flags st n fm in
                    SL [sx_w "ok"; sx_of_entry e; sx_of_res r; sx_of_log (log st')]
                | None => SL [sx_w "unregistered"]
                end
            | _, _, _ => sx_err "iform"
            end
        | _ => sx_err "iform"
        end
      else if is_tag "import" t then
        match rest with
        | [SL ps] =>
            match sig_of_sx ps with
            | Some sg =>
                match handle_import sg with
                | ILambda n k => SL [sx_w "lambda"; sx_nat n; sx_bool k]
                | IWildcard => SL [sx_w "wildcard"]
                | IStar => SL [sx_w "star"]
                | IError => SL [sx_w "error"]
                end
            | None => sx_err "sig"
            end
        | _ => sx_err "import"
        end
      else if is_tag "scoped" t then
        match rest with
        | SL (SS _ :: frames) :: steps =>
            match frames_of_sx frames with
            | Some c =>
                match hist_run (mkState c []) steps with
                | Some outs => SL (sx_w "ok" :: outs)
                | None => sx_err "scoped"
                end
            | None => sx_err "scoped"
            end
        | _ => sx_err "scoped"
        end
      else if is_tag "hist" t then
        match hist_run (mkState [[]] []) rest with
        | Some outs => SL (sx_w "ok" :: outs)
        | None => sx_err "hist"
        end
      else sx_err "op"
  | _ => sx_err "shape"
  end.

Require Import ExtrOcamlBasic.
Extraction Language OCaml.
Extraction "extracted.ml" dispatch drv_add drv_mul drv_opp drv_div_eucl drv_ltb drv_eqb.
