(* C09/Proofs.v — lemmas for the interop model: exact argument passing for every signature
   among x,y,z (closed list of 16 signatures, with/without a leading klong), call forms,
   store/read-back histories, the Python wrapper of a Klong function, the import arity rule. *)
From Coq Require Import ZArith List Bool Lia.
From C09 Require Import Model.
Import ListNotations.
Open Scope Z_scope.

(* ------------------------------------------------------------------ signatures *)
(* every list of distinct names among x, y, z: the property's "parameters are among x, y, z" *)
Definition all_sigs : list (list pname) :=
  [ [];
    [PX]; [PY]; [PZ];
    [PX; PY]; [PY; PX]; [PX; PZ]; [PZ; PX]; [PY; PZ]; [PZ; PY];
    [PX; PY; PZ]; [PX; PZ; PY]; [PY; PX; PZ]; [PY; PZ; PX]; [PZ; PX; PY]; [PZ; PY; PX] ].

(* those whose SET of names is x / x,y / x,y,z: handled correctly whatever the flag *)
Definition prefix_sigs : list (list pname) :=
  [ [];
    [PX];
    [PX; PY]; [PY; PX];
    [PX; PY; PZ]; [PX; PZ; PY]; [PY; PX; PZ]; [PY; PZ; PX]; [PZ; PX; PY]; [PZ; PY; PX] ].

Definition xyz_name (p : pname) : bool := match p with PX | PY | PZ => true | _ => false end.

(* all_sigs is complete: any duplicate-free list of x,y,z names is in it *)
Lemma all_sigs_complete : forall l, NoDup l -> forallb xyz_name l = true -> In l all_sigs.
Proof.
  intros l Hnd Hall.
  destruct l as [|a [|b [|c [|d r]]]].
  - cbn. auto.
  - destruct a; try discriminate; cbn; auto 20.
  - destruct a, b; try discriminate; cbn; auto 20;
      exfalso; inversion Hnd as [|? ? Hn _]; apply Hn; left; reflexivity.
  - destruct a, b, c; try discriminate; cbn; auto 20;
      exfalso; inversion Hnd as [|? ? Hn Hnd']; subst;
      first [ apply Hn; cbn; tauto | inversion Hnd' as [|? ? Hn' _]; apply Hn'; cbn; tauto ].
  - (* four distinct names among three: impossible *)
    exfalso.
    assert (Hp : forall p q : pname, xyz_name p = true -> xyz_name q = true -> p <> q ->
                 forall s, xyz_name s = true -> s <> p -> s <> q ->
                 forall t, xyz_name t = true -> t <> p -> t <> q -> t <> s -> False).
    { intros p q Hp Hq Hpq s Hs Hsp Hsq t Ht Htp Htq Hts.
      destruct p, q, s, t; try discriminate; congruence. }
    cbn in Hall. repeat (apply andb_true_iff in Hall; destruct Hall as [? Hall]).
    inversion Hnd as [|? ? Ha Hnd1]; subst. inversion Hnd1 as [|? ? Hb Hnd2]; subst.
    inversion Hnd2 as [|? ? Hc Hnd3]; subst. inversion Hnd3 as [|? ? Hd _]; subst.
    apply (Hp a b) with (s := c) (t := d); try assumption.
    + intro E; subst; apply Ha; cbn; tauto.
    + intro E; subst; apply Ha; cbn; tauto.
    + intro E; subst; apply Hb; cbn; tauto.
    + intro E; subst; apply Ha; cbn; tauto.
    + intro E; subst; apply Hb; cbn; tauto.
    + intro E; subst; apply Hc; cbn; tauto.
Qed.

Definition sig_of (c : pyc) (l : list pname) : Prop := params c = l \/ params c = PKlong :: l.

Definition applied (st : state) (c : pyc) (args : list val) : state * res :=
  (mkState (scx st) (log st ++ [(pid c, args)]), RVal (VPyRes (pid c) args)).

Ltac exact_args_cases :=
  repeat match goal with
         | H : In _ (_ :: _) |- _ => destruct H as [H|H]; [subst|]
         | H : In _ [] |- _ => contradiction
         end.

(* T9.args, core: with positional binding, a callable of any signature among x,y,z (optionally
   preceded by klong) called through _eval_fn's frame with as many arguments as it declares is
   applied exactly once, to exactly those arguments in order; the scope stack is restored.
   Holds in ANY enclosing scope stack. *)
(* arguments that _eval_fn's second evaluation leaves alone (everything but a symbol bound in the scope stack) *)
Definition stable (c : ctx) (args : list val) : Prop := map (reval c) args = args.

(* the outcome of one call: logged once; the callable's result, or its exception *)
Definition called (st : state) (c : pyc) (args : list val) : state * res :=
  (mkState (scx st) (log st ++ [(pid c, args)]),
   if praises c args then RErr else RVal (VPyRes (pid c) args)).

Lemma call_general : forall fl st c l args,
  args_positional fl = true -> In l all_sigs -> sig_of c l -> length args = length l ->
  stable (scx st) args -> (pop_finally fl = true \/ praises c args = false) ->
  call_lambda fl st c args = called st c args.
Proof.
  intros fl st [p ps pr] l args Hf Hin [Hs|Hs] Hlen Hst Hp; cbn in Hs; subst ps;
    unfold call_lambda, call_frame; rewrite Hst; clear Hst;
    unfold all_sigs in Hin; exact_args_cases;
    cbn in Hlen;
    repeat (destruct args as [|? args]; cbn in Hlen; try lia);
    unfold lam_call, lam_args, provide_klong, called, after_call; cbn; rewrite Hf; cbn;
    cbn in Hp; (destruct Hp as [Hp|Hp]; [rewrite Hp; destruct (pr _); reflexivity | rewrite Hp; reflexivity]).
Qed.

Lemma call_exact : forall fl st c l args,
  args_positional fl = true -> In l all_sigs -> sig_of c l -> length args = length l ->
  stable (scx st) args -> praises c args = false ->
  call_lambda fl st c args = applied st c args.
Proof.
  intros fl st c l args Hf Hin Hs Hlen Hst Hp.
  rewrite (call_general fl st c l args Hf Hin Hs Hlen Hst (or_intror Hp)). unfold called, applied. rewrite Hp. reflexivity.
Qed.

(* a raising callable: called once (logged), the error propagates, the scope stack is restored *)
Lemma call_raises : forall fl st c l args,
  args_positional fl = true -> pop_finally fl = true -> In l all_sigs -> sig_of c l -> length args = length l ->
  stable (scx st) args -> praises c args = true ->
  call_lambda fl st c args = (mkState (scx st) (log st ++ [(pid c, args)]), RErr).
Proof.
  intros fl st c l args Hf Hpop Hin Hs Hlen Hst Hp.
  rewrite (call_general fl st c l args Hf Hin Hs Hlen Hst (or_introl Hpop)). unfold called. rewrite Hp. reflexivity.
Qed.

(* the same for the name-set prefixes, whatever the flag (the behaviour before the fix) *)
Lemma call_exact_prefix : forall fl st c l args,
  In l prefix_sigs -> sig_of c l -> length args = length l ->
  stable (scx st) args -> praises c args = false ->
  call_lambda fl st c args = applied st c args.
Proof.
  intros fl st [p ps pr] l args Hin [Hs|Hs] Hlen Hst Hp; cbn in Hs; subst ps;
    unfold call_lambda, call_frame; rewrite Hst; clear Hst;
    unfold prefix_sigs in Hin; exact_args_cases;
    cbn in Hlen;
    repeat (destruct args as [|? args]; cbn in Hlen; try lia);
    unfold lam_call, lam_args, provide_klong, applied, after_call; cbn; destruct (args_positional fl); cbn;
    cbn in Hp; rewrite Hp; reflexivity.
Qed.

Lemma lam_arity_sig : forall fl c l, args_positional fl = true -> In l all_sigs -> sig_of c l ->
  lam_arity fl c = length l.
Proof.
  intros fl [p ps pr] l Hf Hin [Hs|Hs]; cbn in Hs; subst ps; unfold all_sigs in Hin; exact_args_cases;
    unfold lam_arity, lam_args; cbn; rewrite Hf; reflexivity.
Qed.

(* the Klong application n(a1;...;ak) of a name bound to a wrapped callable *)
Lemma apply_full : forall fl st n c l args,
  args_positional fl = true -> In l all_sigs -> sig_of c l -> length args = length l ->
  c_lookup (scx st) n = Some (EPy c) ->
  apply_name fl st n args = call_lambda fl st c args.
Proof.
  intros fl st n c l args Hf Hin Hs Hlen Hn. unfold apply_name. rewrite Hn.
  rewrite (lam_arity_sig fl c l Hf Hin Hs). rewrite <- Hlen.
  rewrite (proj2 (Nat.ltb_ge _ _) (le_n _)). reflexivity.
Qed.

Lemma apply_exact : forall fl st n c l args,
  args_positional fl = true -> In l all_sigs -> sig_of c l -> length args = length l ->
  c_lookup (scx st) n = Some (EPy c) ->
  stable (scx st) args -> praises c args = false ->
  apply_name fl st n args = applied st c args.
Proof.
  intros fl st n c l args Hf Hin Hs Hlen Hn Hst Hp.
  rewrite (apply_full fl st n c l args Hf Hin Hs Hlen Hn). apply (call_exact fl st c l); assumption.
Qed.

(* fewer arguments than declared (none included): the callable is NOT called, the call object comes back *)
Lemma apply_under : forall fl st n c args,
  c_lookup (scx st) n = Some (EPy c) -> (length args < lam_arity fl c)%nat ->
  apply_name fl st n args = (st, RUnapplied).
Proof.
  intros fl st n c args Hn Hl. unfold apply_name. rewrite Hn. rewrite (proj2 (Nat.ltb_lt _ _) Hl). reflexivity.
Qed.

(* ------------------------------------------------------------------ call forms *)
Definition one_sigs : list (list pname) := [[PX]; [PY]; [PZ]].
Definition two_sigs : list (list pname) := [[PX; PY]; [PY; PX]; [PX; PZ]; [PZ; PX]; [PY; PZ]; [PZ; PY]].

Lemma one_in_all : forall l, In l one_sigs -> In l all_sigs /\ length l = 1%nat.
Proof. intros l H. unfold one_sigs in H. exact_args_cases; cbn; auto 20. Qed.

Lemma two_in_all : forall l, In l two_sigs -> In l all_sigs /\ length l = 2%nat.
Proof. intros l H. unfold two_sigs in H. exact_args_cases; cbn; auto 20. Qed.

(* f'[v1 ... vn]: one application per element, in order, each to exactly that element *)
Definition never_raises (c : pyc) : Prop := forall a, praises c a = false.
Definition sval (c : ctx) (v : val) : Prop := reval c v = v.

Lemma stable_of_sval : forall c vs, Forall (sval c) vs -> stable c vs.
Proof. intros c vs H. unfold stable. induction H as [|v vs Hv H IH]; cbn; [reflexivity | rewrite Hv, IH; reflexivity]. Qed.

Lemma each_exact : forall fl n c l vs st,
  args_positional fl = true -> In l one_sigs -> sig_of c l ->
  c_lookup (scx st) n = Some (EPy c) -> never_raises c -> Forall (sval (scx st)) vs ->
  each_loop fl st n vs =
    (mkState (scx st) (log st ++ map (fun v => (pid c, [v])) vs), Some (map (fun v => VPyRes (pid c) [v]) vs)).
Proof.
  intros fl n c l vs. induction vs as [|v vs IH]; intros st Hf Hin Hs Hn Hnr Hsv; cbn [each_loop map].
  - rewrite app_nil_r. destruct st; reflexivity.
  - destruct (one_in_all l Hin) as [Hall Hlen]. inversion Hsv as [|? ? Hv Hsv']; subst.
    assert (Hst : stable (scx st) [v]) by (apply stable_of_sval; constructor; [exact Hv | constructor]).
    rewrite (apply_exact fl st n c l [v] Hf Hall Hs (eq_sym Hlen) Hn Hst (Hnr _)). unfold applied.
    rewrite (IH (mkState (scx st) (log st ++ [(pid c, [v])])) Hf Hin Hs Hn Hnr Hsv'). cbn.
    rewrite <- app_assoc. reflexivity.
Qed.

Fixpoint over_log (p : Z) (acc : val) (vs : list val) : list (Z * list val) :=
  match vs with
  | [] => []
  | v :: r => (p, [acc; v]) :: over_log p (VPyRes p [acc; v]) r
  end.

(* f/[v1 ... vn]: a left fold, one application per step to (accumulator, element) *)
Lemma over_exact : forall fl n c l vs acc st,
  args_positional fl = true -> In l two_sigs -> sig_of c l ->
  c_lookup (scx st) n = Some (EPy c) -> never_raises c -> sval (scx st) acc -> Forall (sval (scx st)) vs ->
  over_loop fl st n acc vs =
    (mkState (scx st) (log st ++ over_log (pid c) acc vs),
     Some (fold_left (fun a v => VPyRes (pid c) [a; v]) vs acc)).
Proof.
  intros fl n c l vs. induction vs as [|v vs IH]; intros acc st Hf Hin Hs Hn Hnr Ha Hsv; cbn [over_loop over_log fold_left].
  - rewrite app_nil_r. destruct st; reflexivity.
  - destruct (two_in_all l Hin) as [Hall Hlen]. inversion Hsv as [|? ? Hv Hsv']; subst.
    assert (Hst : stable (scx st) [acc; v]) by (apply stable_of_sval; repeat constructor; assumption).
    rewrite (apply_exact fl st n c l [acc; v] Hf Hall Hs (eq_sym Hlen) Hn Hst (Hnr _)). unfold applied.
    rewrite (IH (VPyRes (pid c) [acc; v]) (mkState (scx st) (log st ++ [(pid c, [acc; v])])) Hf Hin Hs Hn Hnr eq_refl Hsv'). cbn.
    rewrite <- app_assoc. reflexivity.
Qed.

(* ------------------------------------------------------------------ store / read back *)
Lemma f_lookup_remove : forall f n k, f_lookup (f_remove f n) k = if k =? n then None else f_lookup f k.
Proof.
  intros f n k. unfold f_remove. induction f as [|[m e] f IH]; cbn.
  - destruct (k =? n); reflexivity.
  - destruct (m =? n) eqn:E; cbn.
    + apply Z.eqb_eq in E. subst m. rewrite IH. destruct (k =? n) eqn:E2; [reflexivity|].
      rewrite Z.eqb_sym, E2. reflexivity.
    + rewrite IH. destruct (m =? k) eqn:E2; [|reflexivity].
      apply Z.eqb_eq in E2. subst m. rewrite E. reflexivity.
Qed.

Lemma f_lookup_set : forall f n e k, f_lookup (f_set f n e) k = if k =? n then Some e else f_lookup f k.
Proof.
  intros f n e k. unfold f_set. cbn. rewrite f_lookup_remove. rewrite (Z.eqb_sym n k).
  destruct (k =? n); reflexivity.
Qed.

(* the last value stored under n and not deleted since *)
Fixpoint last_set (h : list hop) (n : Z) (acc : option pyval) : option pyval :=
  match h with
  | [] => acc
  | HSet m v :: r => last_set r n (if m =? n then Some v else acc)
  | HDel m :: r => last_set r n (if m =? n then None else acc)
  end.

Lemma hstep_single : forall fl f o, setitem_wraps fl = true -> exists f', hstep fl [f] o = [f'] /\
  forall k, f_lookup f' k =
    match o with
    | HSet n v => if k =? n then Some (wrap v) else f_lookup f k
    | HDel n => if k =? n then None else f_lookup f k
    end.
Proof.
  intros fl f o Hw. destruct o as [n v|n]; cbn [hstep].
  - exists (f_set f n (wrap v)). split; [|intro k; apply f_lookup_set].
    unfold c_set. rewrite Hw. cbn [c_set_existing]. destruct (reserved n); [reflexivity|].
    destruct (f_lookup f n); reflexivity.
  - cbn [c_del]. destruct (f_lookup f n) eqn:E.
    + exists (f_remove f n). split; [reflexivity | intro k; apply f_lookup_remove].
    + exists f. split; [reflexivity|]. intro k. destruct (k =? n) eqn:E2; [|reflexivity].
      apply Z.eqb_eq in E2. subst k. exact E.
Qed.

(* T9.store: at top level (one user scope), after ANY history of sets and deletes the
   binding of every name is the wrapped form of the last value stored and not deleted *)
Lemma store_history : forall fl h f n acc, setitem_wraps fl = true ->
  f_lookup f n = option_map wrap acc ->
  c_lookup (hrun fl [f] h) n = option_map wrap (last_set h n acc).
Proof.
  intros fl h. induction h as [|o h IH]; intros f n acc Hw Hf.
  - cbn. rewrite Hf. destruct (option_map wrap acc); reflexivity.
  - unfold hrun. cbn [fold_left]. destruct (hstep_single fl f o Hw) as [f' [Hs Hl]]. rewrite Hs.
    change (fold_left (hstep fl) h [f']) with (hrun fl [f'] h).
    destruct o as [m v|m]; cbn [last_set]; apply IH; try assumption; rewrite Hl, (Z.eqb_sym n m);
      destruct (m =? n); try reflexivity; exact Hf.
Qed.

(* ------------------------------------------------------------------ wrapper *)
Lemma wrapper_follows : forall fl st sym cap cur args,
  c_lookup (scx st) sym = Some (EKfn cur) ->
  wrapper_call fl st sym cap args =
    (if (length args =? karity cur)%nat then (st, RVal (VKRes (kid cur) (map (reval (scx st)) args))) else (st, RErr)) /\
  (length args = karity cur -> apply_name fl st sym args = wrapper_call fl st sym cap args).
Proof.
  intros fl st sym cap cur args H. unfold wrapper_call, apply_name. rewrite H. cbn [call_entry]. split; [reflexivity|].
  intro Hl. rewrite Hl, Nat.eqb_refl, Nat.ltb_irrefl. rewrite <- Hl, <- (map_length (reval (scx st)) args), firstn_all. reflexivity.
Qed.

Lemma wrapper_fallback : forall fl st sym cap args,
  (forall cur, c_lookup (scx st) sym <> Some (EKfn cur)) ->
  wrapper_call fl st sym cap args = call_entry fl st cap args.
Proof.
  intros fl st sym cap args H. unfold wrapper_call.
  destruct (c_lookup (scx st) sym) as [[]|]; try reflexivity. exfalso. apply (H k). reflexivity.
Qed.

(* ------------------------------------------------------------------ import *)
Lemma import_lambda : forall sig,
  existsb ip_named_args sig = false ->
  let req := filter is_required sig in
  (req <> [] \/ existsb is_optional sig = false) ->
  existsb (fun p => pname_eqb (ip_name p) PKlong) req = false ->
  (length req <= 3)%nat ->
  handle_import sig = ILambda (length req) false.
Proof.
  intros sig Ha req Hne Hk Hle. unfold handle_import. rewrite Ha. fold req. rewrite Hk.
  assert (Hw : ((length req =? 0)%nat && existsb is_optional sig) = false).
  { destruct Hne as [Hne|Hne]; [|rewrite Hne; apply andb_false_r].
    destruct req; [contradiction | reflexivity]. }
  rewrite Hw. rewrite (proj2 (Nat.leb_le _ _) Hle). reflexivity.
Qed.

Lemma import_lambda_klong : forall sig,
  existsb ip_named_args sig = false ->
  let req := filter is_required sig in
  existsb (fun p => pname_eqb (ip_name p) PKlong) req = true ->
  (length req <= 4)%nat ->
  handle_import sig = ILambda (length req - 1) true.
Proof.
  intros sig Ha req Hk Hle. unfold handle_import. rewrite Ha. fold req. rewrite Hk.
  assert (Hne : (length req =? 0)%nat = false) by (destruct req; [discriminate | reflexivity]).
  rewrite Hne. cbn [andb]. rewrite (proj2 (Nat.leb_le (length req - 1) 3)) by lia. reflexivity.
Qed.

Lemma import_wildcard : forall sig,
  (existsb ip_named_args sig = true \/
   (filter is_required sig = [] /\ existsb is_optional sig = true)) ->
  handle_import sig = IWildcard.
Proof.
  intros sig [H|[H1 H2]]; unfold handle_import.
  - rewrite H. reflexivity.
  - destruct (existsb ip_named_args sig); [reflexivity|]. rewrite H1, H2. reflexivity.
Qed.

(* what an imported callable of n <= 3 required parameters does when applied to n arguments:
   KGLambda(item, args = x,y,z[:n]) is a callable whose declared names are that prefix *)
Definition imported_pyc (p : Z) (n : nat) (klong : bool) : pyc :=
  mkPyc p ((if klong then [PKlong] else []) ++ firstn n [PX; PY; PZ]) (fun _ => false).

Lemma import_call_exact : forall fl st p n k args, (n <= 3)%nat -> length args = n -> stable (scx st) args ->
  call_lambda fl st (imported_pyc p n k) args = applied st (imported_pyc p n k) args.
Proof.
  intros fl st p n k args Hn Hl Hst.
  apply (call_exact_prefix fl st (imported_pyc p n k) (firstn n [PX; PY; PZ]) args).
  - destruct n as [|[|[|[|n]]]]; cbn; auto 20; lia.
  - unfold sig_of, imported_pyc; cbn. destruct k; [right | left]; reflexivity.
  - rewrite Hl. destruct n as [|[|[|[|n]]]]; cbn; try reflexivity; lia.
  - exact Hst.
  - reflexivity.
Qed.

(* an application that neither re-evaluates an argument nor raises *)
Definition quiet (cx : ctx) (c : pyc) (args : list val) : Prop := stable cx args /\ praises c args = false.

(* shape premise, see C10/Proofs.v *)
Lemma shaped {P : Prop} : forall shape_ok : bool, shape_ok = true -> P -> P.
Proof. intros _ _ H. exact H. Qed.

Lemma readback_callable : forall fl h n lg c l args, args_positional fl = true ->
  c_lookup (hrun fl [[]] h) n = option_map wrap (Some (PCall c)) ->
  NoDup l -> forallb xyz_name l = true -> sig_of c l -> length args = length l ->
  quiet (hrun fl [[]] h) c args ->
  let st := mkState (hrun fl [[]] h) lg in
  read_name st n = BWrapper n (EPy c) /\
  apply_name fl st n args = applied st c args /\
  call_readback fl st (read_name st n) args = applied st c args.
Proof.
  intros fl h n lg c l args Hf Hl Hnd Hall Hsig Hlen [Hq1 Hq2] st. cbn in Hl.
  assert (Hr : read_name st n = BWrapper n (EPy c)) by (unfold read_name, st; cbn [scx]; rewrite Hl; reflexivity).
  pose proof (all_sigs_complete l Hnd Hall) as Hin.
  split; [exact Hr|]. split.
  - apply (apply_exact fl st n c l args Hf Hin Hsig Hlen); [exact Hl | exact Hq1 | exact Hq2].
  - rewrite Hr. cbn [call_readback]. unfold wrapper_call. unfold st at 1; cbn [scx]. rewrite Hl. cbn [call_entry].
    rewrite (lam_arity_sig fl c l Hf Hin Hsig), Hlen, Nat.eqb_refl.
    apply (call_exact fl st c l args Hf Hin Hsig Hlen); [exact Hq1 | exact Hq2].
Qed.

Lemma wrapper_history : forall fl, setitem_wraps fl = true -> forall h n cap cur args lg,
  last_set h n None = Some (PKfn cur) -> length args = karity cur ->
  let st := mkState (hrun fl [[]] h) lg in
  wrapper_call fl st n cap args = (st, RVal (VKRes (kid cur) (map (reval (scx st)) args))) /\
  apply_name fl st n args = (st, RVal (VKRes (kid cur) (map (reval (scx st)) args))).
Proof.
  intros fl Hw h n cap cur args lg Hl Hlen st.
  assert (Hc : c_lookup (scx st) n = Some (EKfn cur)).
  { unfold st; cbn [scx]. eapply eq_trans; [exact (store_history fl h [] n None Hw eq_refl) | rewrite Hl; reflexivity]. }
  destruct (wrapper_follows fl st n cap cur args Hc) as [H1 H2].
  rewrite (H2 Hlen), H1, Hlen, Nat.eqb_refl. split; reflexivity.
Qed.

Lemma form_each_exact : forall fl n c l vs st,
  args_positional fl = true -> In l one_sigs -> sig_of c l -> c_lookup (scx st) n = Some (EPy c) ->
  never_raises c -> Forall (sval (scx st)) vs ->
  run_form fl st n (FEach vs) =
    (mkState (scx st) (log st ++ map (fun v => (pid c, [v])) vs), RVal (VList (map (fun v => VPyRes (pid c) [v]) vs))).
Proof. intros fl n c l vs st Hf Hin Hs Hn Hnr Hsv. cbn [run_form]. rewrite (each_exact fl n c l vs st Hf Hin Hs Hn Hnr Hsv). reflexivity. Qed.

Lemma form_over_exact : forall fl n c l v vs st,
  args_positional fl = true -> In l two_sigs -> sig_of c l -> c_lookup (scx st) n = Some (EPy c) ->
  never_raises c -> Forall (sval (scx st)) (v :: vs) ->
  run_form fl st n (FOver (v :: vs)) =
    (mkState (scx st) (log st ++ over_log (pid c) v vs), RVal (fold_left (fun a x => VPyRes (pid c) [a; x]) vs v)).
Proof.
  intros fl n c l v vs st Hf Hin Hs Hn Hnr Hsv. inversion Hsv as [|? ? Hv Hsv']; subst.
  cbn [run_form]. rewrite (over_exact fl n c l vs v st Hf Hin Hs Hn Hnr Hv Hsv'). reflexivity.
Qed.

Lemma form_by_name_exact : forall fl st n c l args,
  args_positional fl = true ->
  NoDup l -> forallb xyz_name l = true -> sig_of c l -> length args = length l ->
  c_lookup (scx st) n = Some (EPy c) -> quiet (scx st) c args ->
  run_form fl st n (FDirect args) = applied st c args /\
  run_form fl st n (FAt args) = applied st c args /\
  (forall holes xs, fill holes xs = args -> run_form fl st n (FProj holes xs) = applied st c args).
Proof.
  intros fl st n c l args Hf Hnd Hall Hs Hlen Hn [Hq1 Hq2].
  pose proof (apply_exact fl st n c l args Hf (all_sigs_complete l Hnd Hall) Hs Hlen Hn Hq1 Hq2) as H.
  cbn [run_form]. repeat split; try exact H. intros holes xs Hfill. rewrite Hfill. exact H.
Qed.

Lemma store_readback : forall fl, args_positional fl = true -> setitem_wraps fl = true -> forall h n lg,
  let st := mkState (hrun fl [[]] h) lg in
  (forall v, last_set h n None = Some (PData v) -> read_name st n = BData v) /\
  (last_set h n None = None -> read_name st n = BKeyError) /\
  (forall c l args, last_set h n None = Some (PCall c) ->
     NoDup l -> forallb xyz_name l = true -> sig_of c l -> length args = length l ->
     quiet (hrun fl [[]] h) c args ->
     read_name st n = BWrapper n (EPy c) /\
     apply_name fl st n args = applied st c args /\
     call_readback fl st (read_name st n) args = applied st c args).
Proof.
  intros fl Hf Hw h n lg st.
  assert (Hs : c_lookup (hrun fl [[]] h) n = option_map wrap (last_set h n None))
    by (exact (store_history fl h [] n None Hw eq_refl)).
  repeat split.
  - intros v Hl. unfold read_name, st; cbn [scx]. rewrite Hl in Hs. cbn in Hs. rewrite Hs. reflexivity.
  - intros Hl. unfold read_name, st; cbn [scx]. rewrite Hl in Hs. cbn in Hs. rewrite Hs. reflexivity.
  - rewrite H in Hs. exact (proj1 (readback_callable fl h n lg c l args Hf Hs H0 H1 H2 H3 H4)).
  - rewrite H in Hs. exact (proj1 (proj2 (readback_callable fl h n lg c l args Hf Hs H0 H1 H2 H3 H4))).
  - rewrite H in Hs. exact (proj2 (proj2 (readback_callable fl h n lg c l args Hf Hs H0 H1 H2 H3 H4))).
Qed.

(* ------------------------------------------------------------------ multi-stage projections *)
(* an entry of an argument list is either omitted or THE argument of its position *)
Definition entry_ok (e : option val) (a : val) : Prop := e = None \/ e = Some a.

(* the arguments belonging to the slots still open, in order *)
Fixpoint open_args (slots : list (option val)) (args : list val) : list val :=
  match slots, args with
  | None :: r, a :: as' => a :: open_args r as'
  | Some _ :: r, _ :: as' => open_args r as'
  | _, _ => []
  end.

(* every further list is written position by position against the slots still open *)
Fixpoint chain_ok (slots : list (option val)) (args : list val) (stages : list (list (option val))) : Prop :=
  match stages with
  | [] => True
  | st :: r => Forall2 entry_ok st (open_args slots args) /\ chain_ok (fill_stage slots st) args r
  end.

Lemma fill_stage_agrees : forall slots args, Forall2 entry_ok slots args ->
  forall st, Forall2 entry_ok st (open_args slots args) -> Forall2 entry_ok (fill_stage slots st) args.
Proof.
  intros slots args H. induction H as [|s a slots args Hs H IH]; intros st Hst; cbn [fill_stage].
  - constructor.
  - destruct s as [v|]; cbn [open_args] in Hst.
    + constructor; [exact Hs | apply IH; exact Hst].
    + inversion Hst as [|e a' st' oa He Hst' E1 E2]; subst. constructor; [exact He | apply IH; exact Hst'].
Qed.

Lemma fold_agrees : forall stages slots args, Forall2 entry_ok slots args -> chain_ok slots args stages ->
  Forall2 entry_ok (fold_left fill_stage stages slots) args.
Proof.
  induction stages as [|st stages IH]; intros slots args H Hc; cbn [fold_left]; [exact H|].
  destruct Hc as [H1 H2]. apply IH; [apply fill_stage_agrees; assumption | exact H2].
Qed.

Lemma agrees_complete : forall slots args, Forall2 entry_ok slots args ->
  forall vs, all_some slots = Some vs -> vs = args.
Proof.
  intros slots args H. induction H as [|s a slots args Hs H IH]; intros vs Hv; cbn in Hv.
  - inversion Hv. reflexivity.
  - destruct s as [v|]; [|discriminate]. destruct (all_some slots) as [ws|] eqn:E; [|discriminate].
    inversion Hv; subst. destruct Hs as [Hs|Hs]; [discriminate|]. inversion Hs; subst. f_equal. apply IH. reflexivity.
Qed.

(* merge_projections assembles the arguments positionally, for any number of stages and any hole pattern *)
Lemma merge_positional : forall s0 rest args vs,
  Forall2 entry_ok s0 args -> chain_ok s0 args rest ->
  all_some (merge (s0 :: rest)) = Some vs -> vs = args.
Proof.
  intros s0 rest args vs H Hc Hv. cbn [merge] in Hv.
  exact (agrees_complete _ args (fold_agrees rest s0 args H Hc) vs Hv).
Qed.

Lemma staged_exact : forall fl st n c l s0 rest args vs,
  args_positional fl = true -> NoDup l -> forallb xyz_name l = true -> sig_of c l ->
  c_lookup (scx st) n = Some (EPy c) ->
  Forall2 entry_ok s0 args -> chain_ok s0 args rest -> length args = length l ->
  all_some (merge (s0 :: rest)) = Some vs -> quiet (scx st) c args ->
  run_form fl st n (FStaged (s0 :: rest)) = applied st c args.
Proof.
  intros fl st n c l s0 rest args vs Hf Hnd Hall Hs Hn H0 Hc Hlen Hv [Hq1 Hq2].
  cbn [run_form]. unfold apply_staged. rewrite Hv. rewrite (merge_positional s0 rest args vs H0 Hc Hv).
  apply (apply_exact fl st n c l args Hf (all_sigs_complete l Hnd Hall) Hs Hlen Hn Hq1 Hq2).
Qed.

(* Each over a projection with one open slot: one application per element, to the assembled arguments *)
Lemma staged_each_exact : forall fl n c l stages (g : val -> list val) vs st,
  args_positional fl = true -> NoDup l -> forallb xyz_name l = true -> sig_of c l ->
  c_lookup (scx st) n = Some (EPy c) ->
  (forall v, all_some (merge (stages ++ [[Some v]])) = Some (g v) /\ length (g v) = length l /\ quiet (scx st) c (g v)) ->
  staged_each_loop fl st n stages vs =
    (mkState (scx st) (log st ++ map (fun v => (pid c, g v)) vs), Some (map (fun v => VPyRes (pid c) (g v)) vs)).
Proof.
  intros fl n c l stages g vs. induction vs as [|v vs IH]; intros st Hf Hnd Hall Hs Hn Hg; cbn [staged_each_loop map].
  - rewrite app_nil_r. destruct st; reflexivity.
  - unfold apply_staged. destruct (Hg v) as [Hv [Hl [Hq1 Hq2]]]. rewrite Hv.
    rewrite (apply_exact fl st n c l (g v) Hf (all_sigs_complete l Hnd Hall) Hs Hl Hn Hq1 Hq2). unfold applied.
    rewrite (IH (mkState (scx st) (log st ++ [(pid c, g v)])) Hf Hnd Hall Hs Hn Hg). cbn.
    rewrite <- app_assoc. reflexivity.
Qed.

(* ------------------------------------------------------------------ imported callables *)
Definition plainp (p : iparam) : Prop :=
  ip_kind p = KPosOrKw /\ ip_default p = false /\ ip_named_args p = false /\ pname_eqb (ip_name p) PKlong = false.
Definition klongp (p : iparam) : Prop :=
  ip_kind p = KPosOrKw /\ ip_default p = false /\ ip_named_args p = false /\ pname_eqb (ip_name p) PKlong = true.

Definition is_varpos (p : iparam) : bool := match ip_kind p with KVarPos => true | _ => false end.
Definition kwonly_required (p : iparam) : bool := match ip_kind p with KKwOnly => negb (ip_default p) | _ => false end.
Definition is_klong (p : iparam) : bool := pname_eqb (ip_name p) PKlong.

Lemma plain_facts : forall ps, Forall plainp ps ->
  filter is_required ps = ps /\ filter pos_capable ps = ps /\ existsb ip_named_args ps = false /\
  existsb is_klong ps = false /\ existsb is_optional ps = false /\ existsb kwonly_required ps = false.
Proof.
  induction ps as [|p ps IH]; intro H; [cbn; repeat split; reflexivity|].
  inversion H as [|? ? [Hk [Hd [Hn Hkl]]] Hps]; subst. destruct (IH Hps) as [I1 [I2 [I3 [I4 [I5 I6]]]]].
  cbn. unfold is_required, pos_capable, is_optional, kwonly_required, is_klong. rewrite Hk, Hd, Hn, Hkl. cbn.
  fold is_klong. unfold is_required, pos_capable, is_optional, kwonly_required in *.
  rewrite I1, I2, I3, I4, I5, I6. repeat split; reflexivity.
Qed.

Lemma pos_from_frame : forall args outer, (length args <= 3)%nat ->
  get_pos_args (zip_frame xyz args :: outer) (firstn (length args) xyz) = Some args.
Proof.
  intros args outer H. destruct args as [|a [|b [|c [|d r]]]]; cbn in H; try lia; cbn; reflexivity.
Qed.

Definition item_applied (st : state) (it : item) (args : list val) : state * res :=
  (mkState (scx st) (log st ++ [(iid it, args)]), RVal (VPyRes (iid it) args)).

(* a module function with r <= 3 plain positional parameters, decorated with functools.wraps or not *)
Lemma import_exact_plain : forall follow it ps,
  (follow = true \/ idecorated it = false) -> ireal it = ps -> Forall plainp ps -> (length ps <= 3)%nat ->
  register follow it = Some (ELam it (length ps) false false) /\
  forall fl st n args, c_lookup (scx st) n = Some (ELam it (length ps) false false) -> length args = length ps ->
    stable (scx st) args -> apply_name fl st n args = item_applied st it args.
Proof.
  intros follow it ps Hfd Hr Hp Hlen. destruct (plain_facts ps Hp) as [F1 [F2 [F3 [F4 [F5 F6]]]]].
  assert (Hi : inspect_sig follow it = ps).
  { unfold inspect_sig. destruct Hfd as [-> | ->]; [rewrite andb_false_r | cbn]; exact Hr. }
  split.
  - unfold register. rewrite Hi.
    rewrite (import_lambda ps F3); rewrite ?F1; auto.
  - intros fl st n args Hn Hl Hst. unfold apply_name. rewrite Hn. unfold call_item, call_frame. rewrite Hst.
    rewrite <- Hl. rewrite (pos_from_frame args (scx st)) by lia.
    unfold accepts. rewrite Hr, F1, F2. fold kwonly_required. rewrite F6. rewrite Hl, Nat.leb_refl. cbn. reflexivity.
Qed.

(* ... and with a leading klong parameter *)
Lemma import_exact_klong : forall follow it kp ps,
  (follow = true \/ idecorated it = false) -> ireal it = kp :: ps -> klongp kp -> Forall plainp ps -> (length ps <= 3)%nat ->
  register follow it = Some (ELam it (length ps) true false) /\
  forall fl st n args, c_lookup (scx st) n = Some (ELam it (length ps) true false) -> length args = length ps ->
    stable (scx st) args -> apply_name fl st n args = item_applied st it args.
Proof.
  intros follow it kp ps Hfd Hr [Kk [Kd [Kn Kkl]]] Hp Hlen. destruct (plain_facts ps Hp) as [F1 [F2 [F3 [F4 [F5 F6]]]]].
  assert (Hi : inspect_sig follow it = kp :: ps).
  { unfold inspect_sig. destruct Hfd as [-> | ->]; [rewrite andb_false_r | cbn]; exact Hr. }
  assert (Hreq : filter is_required (kp :: ps) = kp :: ps).
  { cbn. unfold is_required at 1. rewrite Kk, Kd. cbn. rewrite F1. reflexivity. }
  assert (Hcap : filter pos_capable (kp :: ps) = kp :: ps).
  { cbn. unfold pos_capable at 1. rewrite Kk. rewrite F2. reflexivity. }
  split.
  - unfold register. rewrite Hi.
    assert (Hh : handle_import (kp :: ps) = ILambda (length (filter is_required (kp :: ps)) - 1) true).
    { apply import_lambda_klong.
      - cbn. rewrite Kn, F3. reflexivity.
      - rewrite Hreq. cbn. rewrite Kkl. reflexivity.
      - rewrite Hreq. cbn. lia. }
    rewrite Hh, Hreq. cbn [length]. replace (S (length ps) - 1)%nat with (length ps) by lia. reflexivity.
  - intros fl st n args Hn Hl Hst. unfold apply_name. rewrite Hn. unfold call_item, call_frame. rewrite Hst.
    rewrite <- Hl. rewrite (pos_from_frame args (scx st)) by lia.
    unfold accepts. rewrite Hr, Hreq, Hcap. cbn [existsb]. rewrite Kk.
    change (existsb (fun p : iparam => match ip_kind p with KKwOnly => negb (ip_default p) | _ => false end) ps)
      with (existsb kwonly_required ps).
    rewrite F6. cbn [length]. rewrite Hl, Nat.leb_refl. cbn. reflexivity.
Qed.

(* what wildcard mode reads: at top level (no x, y, z visible outside the call frame) exactly the arguments *)
Lemma wild_toplevel : forall args outer, (length args <= 3)%nat ->
  c_lookup outer 0 = None -> c_lookup outer 1 = None -> c_lookup outer 2 = None ->
  get_pos_wild (zip_frame xyz args :: outer) xyz = args.
Proof.
  intros args outer H H0 H1 H2. destruct args as [|a [|b [|c [|d r]]]]; cbn in H; try lia; cbn; rewrite ?H0, ?H1, ?H2; reflexivity.
Qed.

(* ------------------------------------------------------------------ round 2: raising callables, surplus arguments, any scope *)
(* Each stops at the first element for which the callable raises: that call is logged, none after it *)
Lemma each_raises : forall fl n c l pre b post st,
  args_positional fl = true -> pop_finally fl = true -> In l one_sigs -> sig_of c l ->
  c_lookup (scx st) n = Some (EPy c) ->
  (forall v, In v pre -> praises c [v] = false) -> praises c [b] = true ->
  Forall (sval (scx st)) (pre ++ [b]) ->
  each_loop fl st n (pre ++ b :: post) =
    (mkState (scx st) (log st ++ map (fun v => (pid c, [v])) (pre ++ [b])), None).
Proof.
  intros fl n c l pre b post. induction pre as [|v pre IH]; intros st Hf Hpop Hin Hs Hn Hq Hb Hsv.
  - cbn [app each_loop map]. destruct (one_in_all l Hin) as [Hall Hlen]. inversion Hsv as [|? ? Hv _]; subst.
    assert (Hst : stable (scx st) [b]) by (apply stable_of_sval; constructor; [exact Hv | constructor]).
    rewrite (apply_full fl st n c l [b] Hf Hall Hs (eq_sym Hlen) Hn).
    rewrite (call_raises fl st c l [b] Hf Hpop Hall Hs (eq_sym Hlen) Hst Hb). reflexivity.
  - cbn [app each_loop map]. destruct (one_in_all l Hin) as [Hall Hlen]. cbn [app] in Hsv. inversion Hsv as [|? ? Hv Hsv']; subst.
    assert (Hst : stable (scx st) [v]) by (apply stable_of_sval; constructor; [exact Hv | constructor]).
    rewrite (apply_exact fl st n c l [v] Hf Hall Hs (eq_sym Hlen) Hn Hst (Hq v (or_introl eq_refl))). unfold applied.
    rewrite (IH (mkState (scx st) (log st ++ [(pid c, [v])])) Hf Hpop Hin Hs Hn (fun w Hw => Hq w (or_intror Hw)) Hb Hsv'). cbn.
    rewrite <- app_assoc. reflexivity.
Qed.

(* more arguments than declared (at most three can be written): the surplus is dropped, nothing else changes *)
Lemma call_surplus : forall fl st c l args,
  args_positional fl = true -> In l all_sigs -> sig_of c l -> (length l <= length args <= 3)%nat ->
  stable (scx st) args -> (pop_finally fl = true \/ praises c (firstn (length l) args) = false) ->
  call_lambda fl st c args = called st c (firstn (length l) args).
Proof.
  intros fl st [p ps pr] l args Hf Hin [Hs|Hs] Hlen Hst Hp; cbn in Hs; subst ps;
    unfold call_lambda, call_frame; rewrite Hst; clear Hst;
    unfold all_sigs in Hin; exact_args_cases;
    cbn in Hlen;
    repeat (destruct args as [|? args]; cbn in Hlen; try lia);
    unfold lam_call, lam_args, provide_klong, called, after_call; cbn; rewrite Hf; cbn;
    cbn in Hp; (destruct Hp as [Hp|Hp]; [rewrite Hp; destruct (pr _); reflexivity | rewrite Hp; reflexivity]).
Qed.

(* klong[n] = v in ANY scope stack (also from inside a running function): the name reads back as the wrapped value,
   every other name is untouched *)
Lemma c_set_existing_lookup : forall c n e c', c_set_existing c n e = Some c' ->
  forall k, c_lookup c' k = if k =? n then Some e else c_lookup c k.
Proof.
  induction c as [|f c IH]; intros n e c' H k; cbn in H; [discriminate|].
  destruct (f_lookup f n) eqn:E.
  - inversion H; subst. cbn [c_lookup]. rewrite f_lookup_set. destruct (k =? n); reflexivity.
  - destruct (c_set_existing c n e) as [r'|] eqn:E2; [|discriminate]. inversion H; subst. cbn [c_lookup].
    destruct (k =? n) eqn:Ek.
    + apply Z.eqb_eq in Ek. subst k. rewrite E. rewrite (IH n e r' E2 n), Z.eqb_refl. reflexivity.
    + destruct (f_lookup f k); [reflexivity|]. rewrite (IH n e r' E2 k), Ek. reflexivity.
Qed.

Lemma c_set_lookup : forall fl c n v, setitem_wraps fl = true ->
  forall k, c_lookup (c_set fl c n v) k = if k =? n then Some (wrap v) else c_lookup c k.
Proof.
  intros fl c n v Hw k. unfold c_set. rewrite Hw.
  assert (Hfresh : c_lookup (match c with f :: r => f_set f n (wrap v) :: r | [] => [[(n, wrap v)]] end) k
                   = if k =? n then Some (wrap v) else c_lookup c k).
  { destruct c as [|f r]; cbn [c_lookup].
    - cbn. rewrite (Z.eqb_sym n k). destruct (k =? n); reflexivity.
    - rewrite f_lookup_set. destruct (k =? n); reflexivity. }
  destruct (reserved n); [exact Hfresh|].
  destruct (c_set_existing c n (wrap v)) as [c'|] eqn:E; [|exact Hfresh].
  apply (c_set_existing_lookup c n (wrap v) c' E).
Qed.

(* ------------------------------------------------------------------ dyadic adverbs: exact argument order *)
Lemma pairs_exact : forall fl n c l ps st,
  args_positional fl = true -> In l two_sigs -> sig_of c l ->
  c_lookup (scx st) n = Some (EPy c) -> never_raises c ->
  Forall (fun p => sval (scx st) (fst p) /\ sval (scx st) (snd p)) ps ->
  pairs_loop fl st n ps =
    (mkState (scx st) (log st ++ map (fun p => (pid c, [fst p; snd p])) ps),
     Some (map (fun p => VPyRes (pid c) [fst p; snd p]) ps)).
Proof.
  intros fl n c l ps. induction ps as [|[x y] ps IH]; intros st Hf Hin Hs Hn Hnr Hsv; cbn [pairs_loop map].
  - rewrite app_nil_r. destruct st; reflexivity.
  - destruct (two_in_all l Hin) as [Hall Hlen]. inversion Hsv as [|? ? [Hx Hy] Hsv']; subst. cbn [fst snd] in *.
    assert (Hst : stable (scx st) [x; y]) by (apply stable_of_sval; repeat constructor; assumption).
    rewrite (apply_exact fl st n c l [x; y] Hf Hall Hs (eq_sym Hlen) Hn Hst (Hnr _)). unfold applied.
    rewrite (IH (mkState (scx st) (log st ++ [(pid c, [x; y])])) Hf Hin Hs Hn Hnr Hsv'). cbn.
    rewrite <- app_assoc. reflexivity.
Qed.

Fixpoint scan_vals (p : Z) (acc : val) (vs : list val) : list val :=
  match vs with
  | [] => []
  | v :: r => VPyRes p [acc; v] :: scan_vals p (VPyRes p [acc; v]) r
  end.

Lemma scan_exact : forall fl n c l vs acc st,
  args_positional fl = true -> In l two_sigs -> sig_of c l ->
  c_lookup (scx st) n = Some (EPy c) -> never_raises c -> sval (scx st) acc -> Forall (sval (scx st)) vs ->
  scan_loop fl st n acc vs =
    (mkState (scx st) (log st ++ over_log (pid c) acc vs), Some (scan_vals (pid c) acc vs)).
Proof.
  intros fl n c l vs. induction vs as [|v vs IH]; intros acc st Hf Hin Hs Hn Hnr Ha Hsv; cbn [scan_loop over_log scan_vals].
  - rewrite app_nil_r. destruct st; reflexivity.
  - destruct (two_in_all l Hin) as [Hall Hlen]. inversion Hsv as [|? ? Hv Hsv']; subst.
    assert (Hst : stable (scx st) [acc; v]) by (apply stable_of_sval; repeat constructor; assumption).
    rewrite (apply_exact fl st n c l [acc; v] Hf Hall Hs (eq_sym Hlen) Hn Hst (Hnr _)). unfold applied.
    rewrite (IH (VPyRes (pid c) [acc; v]) (mkState (scx st) (log st ++ [(pid c, [acc; v])])) Hf Hin Hs Hn Hnr eq_refl Hsv'). cbn.
    rewrite <- app_assoc. reflexivity.
Qed.

(* the definitional expansion of each dyadic adverb: which applications, in which order, with which arguments *)
Definition adverb_calls (f : form) : option (list (val * val)) :=
  match f with
  | FEachLeft a (VList bs) => Some (map (fun x => (a, x)) bs)
  | FEachRight a (VList bs) => Some (map (fun x => (x, a)) bs)
  | FEachPair (x :: y :: r) => Some (combine (x :: y :: r) (y :: r))
  | FEach2 xs ys => Some (combine xs ys)
  | _ => None
  end.

Lemma each2_pairs : forall fl st n xs ys, each2_loop fl st n xs ys = pairs_loop fl st n (combine xs ys).
Proof.
  intros fl st n xs. revert st. induction xs as [|x xs IH]; intros st ys; destruct ys as [|y ys]; cbn; try reflexivity.
  destruct (apply_name fl st n [x; y]) as [st1 r]. destruct r; try reflexivity. rewrite IH. reflexivity.
Qed.

Lemma adverb_pairs_exact : forall fl n c l f ps st,
  args_positional fl = true -> In l two_sigs -> sig_of c l ->
  c_lookup (scx st) n = Some (EPy c) -> never_raises c ->
  adverb_calls f = Some ps ->
  Forall (fun p => sval (scx st) (fst p) /\ sval (scx st) (snd p)) ps ->
  run_form fl st n f =
    (mkState (scx st) (log st ++ map (fun p => (pid c, [fst p; snd p])) ps),
     RVal (VList (map (fun p => VPyRes (pid c) [fst p; snd p]) ps))).
Proof.
  intros fl n c l f ps st Hf Hin Hs Hn Hnr Ha Hsv.
  destruct f; try discriminate; cbn [adverb_calls] in Ha.
  - inversion Ha; subst. cbn [run_form]. rewrite each2_pairs, (pairs_exact fl n c l _ st Hf Hin Hs Hn Hnr Hsv). reflexivity.
  - destruct b; try discriminate. inversion Ha; subst. cbn [run_form]. rewrite (pairs_exact fl n c l _ st Hf Hin Hs Hn Hnr Hsv). reflexivity.
  - destruct b; try discriminate. inversion Ha; subst. cbn [run_form]. rewrite (pairs_exact fl n c l _ st Hf Hin Hs Hn Hnr Hsv). reflexivity.
  - destruct vs as [|x [|y r]]; try discriminate. injection Ha as Hps. subst ps. cbn [run_form].
    pose proof (pairs_exact fl n c l (combine (x :: y :: r) (y :: r)) st Hf Hin Hs Hn Hnr Hsv) as Hp.
    cbn [combine] in Hp |- *. rewrite Hp. reflexivity.
Qed.

(* atom right operands: a n:\b = n(a;b), a n:/b = n(b;a) (the order Each-Right must keep), a n/b = n(a;b) *)
Lemma adverb_atom_exact : forall fl n c l a b st,
  args_positional fl = true -> In l two_sigs -> sig_of c l ->
  c_lookup (scx st) n = Some (EPy c) -> never_raises c ->
  (forall bs, b <> VList bs) -> sval (scx st) a -> sval (scx st) b ->
  run_form fl st n (FEachLeft a b) = applied st c [a; b] /\
  run_form fl st n (FEachRight a b) = applied st c [b; a] /\
  run_form fl st n (FOverN a b) = applied st c [a; b].
Proof.
  intros fl n c l a b st Hf Hin Hs Hn Hnr Hb Ha Hbv. destruct (two_in_all l Hin) as [Hall Hlen].
  assert (H1 : apply_name fl st n [a; b] = applied st c [a; b]).
  { apply (apply_exact fl st n c l [a; b] Hf Hall Hs (eq_sym Hlen) Hn); [apply stable_of_sval; repeat constructor; assumption | apply Hnr]. }
  assert (H2 : apply_name fl st n [b; a] = applied st c [b; a]).
  { apply (apply_exact fl st n c l [b; a] Hf Hall Hs (eq_sym Hlen) Hn); [apply stable_of_sval; repeat constructor; assumption | apply Hnr]. }
  cbn [run_form]. destruct b; try (repeat split; assumption). exfalso. apply (Hb l0). reflexivity.
Qed.

(* folds: a n/bs from a; n\vs and a n\bs with all intermediate results *)
Lemma adverb_fold_exact : forall fl n c l a v vs st,
  args_positional fl = true -> In l two_sigs -> sig_of c l ->
  c_lookup (scx st) n = Some (EPy c) -> never_raises c ->
  sval (scx st) a -> Forall (sval (scx st)) (v :: vs) ->
  run_form fl st n (FOverN a (VList (v :: vs))) =
    (mkState (scx st) (log st ++ over_log (pid c) a (v :: vs)), RVal (fold_left (fun x y => VPyRes (pid c) [x; y]) (v :: vs) a)) /\
  run_form fl st n (FScan (v :: vs)) =
    (mkState (scx st) (log st ++ over_log (pid c) v vs), RVal (VList (v :: scan_vals (pid c) v vs))) /\
  run_form fl st n (FScanN a (VList (v :: vs))) =
    (mkState (scx st) (log st ++ over_log (pid c) a (v :: vs)), RVal (VList (a :: scan_vals (pid c) a (v :: vs)))).
Proof.
  intros fl n c l a v vs st Hf Hin Hs Hn Hnr Ha Hsv. inversion Hsv as [|? ? Hv Hsv']; subst.
  cbn [run_form]. repeat split.
  - rewrite (over_exact fl n c l (v :: vs) a st Hf Hin Hs Hn Hnr Ha Hsv). reflexivity.
  - rewrite (scan_exact fl n c l vs v st Hf Hin Hs Hn Hnr Hv Hsv'). reflexivity.
  - rewrite (scan_exact fl n c l (v :: vs) a st Hf Hin Hs Hn Hnr Ha Hsv). reflexivity.
Qed.
