(* C09/Properties.v — property theorems only: statement, `exact`, Print Assumptions. *)
From Coq Require Import ZArith List Bool.
From C09 Require Import Generated Model Proofs.
Import ListNotations.
Open Scope Z_scope.

(* the facts the translator read from klongpy/types.py and klongpy/interpreter.py at this run *)
Definition src_flags : flags := mkFlags kglambda_args_positional setitem_wraps_existing eval_fn_pops_in_finally.

(* T9.args — a Python callable whose parameters are any duplicate-free list of names among
   x, y, z (any subset, any order), optionally preceded by klong, applied through the
   interpreter's call frame to as many evaluated arguments as it declares, in ANY enclosing
   scope stack: it is applied exactly once (one log entry), to exactly those arguments in
   positional order, its return value is the result, and the scope stack is restored. *)
Theorem C09_args : forall st c l args,
  NoDup l -> forallb xyz_name l = true -> sig_of c l -> length args = length l ->
  stable (scx st) args -> praises c args = false ->
  call_lambda src_flags st c args = applied st c args.
Proof.
  exact (fun st c l args Hnd Hall Hs Hlen =>
    shaped interop_shape_ok (eq_refl : interop_shape_ok = true)
      (call_exact src_flags st c l args (eq_refl : kglambda_args_positional = true) (all_sigs_complete l Hnd Hall) Hs Hlen)).
Qed.
Print Assumptions C09_args.

(* ... the same through a name: the Klong application n(a1;...;ak), a projection n(a;;c) later
   completed, and n@[a1 ... ak] all reach the callable with the merged argument list. *)
Theorem C09_args_by_name : forall st n c l args,
  NoDup l -> forallb xyz_name l = true -> sig_of c l -> length args = length l ->
  c_lookup (scx st) n = Some (EPy c) -> quiet (scx st) c args ->
  run_form src_flags st n (FDirect args) = applied st c args /\
  run_form src_flags st n (FAt args) = applied st c args /\
  (forall holes xs, fill holes xs = args -> run_form src_flags st n (FProj holes xs) = applied st c args).
Proof. exact (fun st n c l args => form_by_name_exact src_flags st n c l args (eq_refl : kglambda_args_positional = true)). Qed.
Print Assumptions C09_args_by_name.

(* Each: one application per element, in order, to exactly that element; the results in order. *)
Theorem C09_args_each : forall n c l vs st,
  In l one_sigs -> sig_of c l -> c_lookup (scx st) n = Some (EPy c) ->
  never_raises c -> Forall (sval (scx st)) vs ->
  run_form src_flags st n (FEach vs) =
    (mkState (scx st) (log st ++ map (fun v => (pid c, [v])) vs), RVal (VList (map (fun v => VPyRes (pid c) [v]) vs))).
Proof. exact (fun n c l vs st => form_each_exact src_flags n c l vs st (eq_refl : kglambda_args_positional = true)). Qed.
Print Assumptions C09_args_each.

(* Over: a left fold; step i applies the callable once to (accumulator, element i). *)
Theorem C09_args_over : forall n c l v vs st,
  In l two_sigs -> sig_of c l -> c_lookup (scx st) n = Some (EPy c) ->
  never_raises c -> Forall (sval (scx st)) (v :: vs) ->
  run_form src_flags st n (FOver (v :: vs)) =
    (mkState (scx st) (log st ++ over_log (pid c) v vs), RVal (fold_left (fun a x => VPyRes (pid c) [a; x]) vs v)).
Proof. exact (fun n c l v vs st => form_over_exact src_flags n c l v vs st (eq_refl : kglambda_args_positional = true)). Qed.
Print Assumptions C09_args_over.

(* Multi-stage projections. merge_projections assembles the arguments POSITIONALLY: whatever the
   number of stages and whichever slots each stage fills or leaves open, if every stage is written
   position by position against the slots still open (entry n of a stage is omitted or is the
   argument of the n-th open slot) then a complete merge is exactly the argument vector ... *)
Theorem C09_merge_positional : forall s0 rest args vs,
  Forall2 entry_ok s0 args -> chain_ok s0 args rest ->
  all_some (merge (s0 :: rest)) = Some vs -> vs = args.
Proof. exact (shaped merge_projections_positional (eq_refl : merge_projections_positional = true) merge_positional). Qed.
Print Assumptions C09_merge_positional.

(* ... so a Python callable reached through p::n(a;;); q::p(;c); q(b) (any chain) is applied exactly
   once to exactly (a, b, c) ... *)
Theorem C09_args_staged : forall st n c l s0 rest args vs,
  NoDup l -> forallb xyz_name l = true -> sig_of c l -> c_lookup (scx st) n = Some (EPy c) ->
  Forall2 entry_ok s0 args -> chain_ok s0 args rest -> length args = length l ->
  all_some (merge (s0 :: rest)) = Some vs -> quiet (scx st) c args ->
  run_form src_flags st n (FStaged (s0 :: rest)) = applied st c args.
Proof.
  exact (fun st n c l s0 rest args vs Hnd Hall Hs Hn =>
    shaped merge_projections_positional (eq_refl : merge_projections_positional = true)
      (staged_exact src_flags st n c l s0 rest args vs (eq_refl : kglambda_args_positional = true) Hnd Hall Hs Hn)).
Qed.
Print Assumptions C09_args_staged.

(* ... and Each over a projection with one open slot applies it once per element to the assembled arguments. *)
Theorem C09_args_staged_each : forall n c l stages (g : val -> list val) vs st,
  NoDup l -> forallb xyz_name l = true -> sig_of c l -> c_lookup (scx st) n = Some (EPy c) ->
  (forall v, all_some (merge (stages ++ [[Some v]])) = Some (g v) /\ length (g v) = length l /\ quiet (scx st) c (g v)) ->
  staged_each_loop src_flags st n stages vs =
    (mkState (scx st) (log st ++ map (fun v => (pid c, g v)) vs), Some (map (fun v => VPyRes (pid c) (g v)) vs)).
Proof.
  exact (fun n c l stages g vs st =>
    staged_each_exact src_flags n c l stages g vs st (eq_refl : kglambda_args_positional = true)).
Qed.
Print Assumptions C09_args_staged_each.

(* Dyadic adverbs over a Python callable of two parameters: the call log is the definitional expansion of the
   adverb — Each-Left a n:\bs = n(a;b1),..., Each-Right a n:/bs = n(b1;a),..., Each-Pair, Each-2 — one call per
   element, in order, arguments in exactly that order ... *)
Theorem C09_args_adverb_lists : forall n c l f ps st,
  In l two_sigs -> sig_of c l -> c_lookup (scx st) n = Some (EPy c) -> never_raises c ->
  adverb_calls f = Some ps ->
  Forall (fun p => sval (scx st) (fst p) /\ sval (scx st) (snd p)) ps ->
  run_form src_flags st n f =
    (mkState (scx st) (log st ++ map (fun p => (pid c, [fst p; snd p])) ps),
     RVal (VList (map (fun p => VPyRes (pid c) [fst p; snd p]) ps))).
Proof. exact (fun n c l f ps st => adverb_pairs_exact src_flags n c l f ps st (eq_refl : kglambda_args_positional = true)). Qed.
Print Assumptions C09_args_adverb_lists.

(* ... with an ATOM on the right: a n:\b = n(a;b), a n:/b = n(b;a), a n/b = n(a;b) ... *)
Theorem C09_args_adverb_atoms : forall n c l a b st,
  In l two_sigs -> sig_of c l -> c_lookup (scx st) n = Some (EPy c) -> never_raises c ->
  (forall bs, b <> VList bs) -> sval (scx st) a -> sval (scx st) b ->
  run_form src_flags st n (FEachLeft a b) = applied st c [a; b] /\
  run_form src_flags st n (FEachRight a b) = applied st c [b; a] /\
  run_form src_flags st n (FOverN a b) = applied st c [a; b].
Proof. exact (fun n c l a b st => adverb_atom_exact src_flags n c l a b st (eq_refl : kglambda_args_positional = true)). Qed.
Print Assumptions C09_args_adverb_atoms.

(* ... and the folds Over-Neutral, Scan-Over, Scan-Over-Neutral: step i applies n once to (running result, element i). *)
Theorem C09_args_adverb_folds : forall n c l a v vs st,
  In l two_sigs -> sig_of c l -> c_lookup (scx st) n = Some (EPy c) -> never_raises c ->
  sval (scx st) a -> Forall (sval (scx st)) (v :: vs) ->
  run_form src_flags st n (FOverN a (VList (v :: vs))) =
    (mkState (scx st) (log st ++ over_log (pid c) a (v :: vs)), RVal (fold_left (fun x y => VPyRes (pid c) [x; y]) (v :: vs) a)) /\
  run_form src_flags st n (FScan (v :: vs)) =
    (mkState (scx st) (log st ++ over_log (pid c) v vs), RVal (VList (v :: scan_vals (pid c) v vs))) /\
  run_form src_flags st n (FScanN a (VList (v :: vs))) =
    (mkState (scx st) (log st ++ over_log (pid c) a (v :: vs)), RVal (VList (a :: scan_vals (pid c) a (v :: vs)))).
Proof. exact (fun n c l a v vs st => adverb_fold_exact src_flags n c l a v vs st (eq_refl : kglambda_args_positional = true)). Qed.
Print Assumptions C09_args_adverb_folds.

(* R14, the behaviour before the fix (declared names looked up through the whole scope stack):
   signature (x, z) applied to (1, 2) raises at top level and receives (1, 9) inside a function
   whose z is 9. *)
Theorem C09_args_refuted_by_name_lookup :
  let old := mkFlags false true true in
  let c := mkPyc 7 [PX; PZ] (fun _ => false) in
  call_lambda old (mkState [[]] []) c [VInt 1; VInt 2] = (mkState [[]] [], RErr) /\
  call_lambda old (mkState [[(0, EData (VInt 7)); (1, EData (VInt 8)); (2, EData (VInt 9))]; []] []) c [VInt 1; VInt 2]
    = applied (mkState [[(0, EData (VInt 7)); (1, EData (VInt 8)); (2, EData (VInt 9))]; []] []) c [VInt 1; VInt 9].
Proof. vm_compute. split; reflexivity. Qed.

(* ... while signatures whose name SET is x / x,y / x,y,z were and are exact, whatever the flag. *)
Theorem C09_args_prefix_any_flag : forall fl st c l args,
  In l prefix_sigs -> sig_of c l -> length args = length l ->
  stable (scx st) args -> praises c args = false ->
  call_lambda fl st c args = applied st c args.
Proof. exact call_exact_prefix. Qed.
Print Assumptions C09_args_prefix_any_flag.

(* T9.store — at top level, after ANY history of klong[n]=v / n::{...} / del klong[n], every
   name is bound to the wrapped form of the last value stored and not deleted since ... *)
Theorem C09_store : forall h n,
  c_lookup (hrun src_flags [[]] h) n = option_map wrap (last_set h n None).
Proof. exact (fun h n => store_history src_flags h [] n None (eq_refl : setitem_wraps_existing = true) eq_refl). Qed.
Print Assumptions C09_store.

(* ... hence data reads back as itself, and a callable stored last is called by the program
   exactly once per application with exactly the arguments. *)
Theorem C09_store_readback : forall h n lg,
  let st := mkState (hrun src_flags [[]] h) lg in
  (forall v, last_set h n None = Some (PData v) -> read_name st n = BData v) /\
  (last_set h n None = None -> read_name st n = BKeyError) /\
  (forall c l args, last_set h n None = Some (PCall c) ->
     NoDup l -> forallb xyz_name l = true -> sig_of c l -> length args = length l ->
     quiet (hrun src_flags [[]] h) c args ->
     read_name st n = BWrapper n (EPy c) /\
     apply_name src_flags st n args = applied st c args /\
     call_readback src_flags st (read_name st n) args = applied st c args).
Proof. exact (store_readback src_flags (eq_refl : kglambda_args_positional = true) (eq_refl : setitem_wraps_existing = true)). Qed.
Print Assumptions C09_store_readback.

(* Before the fix an overwrite stored the callable raw; the Klong call then returned the function object. *)
Theorem C09_store_refuted_raw_overwrite :
  let old := mkFlags true false true in
  let c1 := mkPyc 1 [PX] (fun _ => false) in let c2 := mkPyc 2 [PX] (fun _ => false) in
  let st := mkState (hrun old [[]] [HSet 5 (PCall c1); HSet 5 (PCall c2)]) [] in
  c_lookup (scx st) 5 = Some (ERaw c2) /\ apply_name old st 5 [VInt 9] = (st, RVal (VPyObj 2)).
Proof. vm_compute. split; reflexivity. Qed.

(* T9.wrapper — the Python wrapper of a Klong function re-resolves its symbol at every call:
   while the symbol is bound to a Klong function it returns exactly what the Klong call
   name(a;b;c) returns (so it follows redefinitions) and rejects a wrong number of arguments;
   when the symbol was deleted or rebound to something else it falls back to the captured one. *)
Theorem C09_wrapper : forall st sym cap args,
  (forall cur, c_lookup (scx st) sym = Some (EKfn cur) ->
     wrapper_call src_flags st sym cap args =
       (if (length args =? karity cur)%nat then (st, RVal (VKRes (kid cur) (map (reval (scx st)) args))) else (st, RErr)) /\
     (length args = karity cur -> apply_name src_flags st sym args = wrapper_call src_flags st sym cap args)) /\
  ((forall cur, c_lookup (scx st) sym <> Some (EKfn cur)) ->
     wrapper_call src_flags st sym cap args = call_entry src_flags st cap args).
Proof.
  exact (fun st sym cap args => conj (fun cur H => wrapper_follows src_flags st sym cap cur args H)
                                     (wrapper_fallback src_flags st sym cap args)).
Qed.
Print Assumptions C09_wrapper.

(* ... composed with T9.store: after any history, the wrapper obtained earlier answers with the
   LAST definition of the name. *)
Theorem C09_wrapper_follows_history : forall h n cap cur args lg,
  last_set h n None = Some (PKfn cur) -> length args = karity cur ->
  let st := mkState (hrun src_flags [[]] h) lg in
  wrapper_call src_flags st n cap args = (st, RVal (VKRes (kid cur) (map (reval (scx st)) args))) /\
  apply_name src_flags st n args = (st, RVal (VKRes (kid cur) (map (reval (scx st)) args))).
Proof. exact (wrapper_history src_flags (eq_refl : setitem_wraps_existing = true)). Qed.
Print Assumptions C09_wrapper_follows_history.

(* T9.import — the arity .py()/.pyf() assign: number of required positional parameters (not
   counting a klong parameter) when at most three, wildcard for a parameter named args or for
   optional-only signatures; and such an imported callable is applied to exactly its arguments. *)
Theorem C09_import :
  (forall sig, existsb ip_named_args sig = false ->
     (filter is_required sig <> [] \/ existsb is_optional sig = false) ->
     existsb (fun p => pname_eqb (ip_name p) PKlong) (filter is_required sig) = false ->
     (length (filter is_required sig) <= 3)%nat ->
     handle_import sig = ILambda (length (filter is_required sig)) false) /\
  (forall sig, existsb ip_named_args sig = false ->
     existsb (fun p => pname_eqb (ip_name p) PKlong) (filter is_required sig) = true ->
     (length (filter is_required sig) <= 4)%nat ->
     handle_import sig = ILambda (length (filter is_required sig) - 1) true) /\
  (forall sig, (existsb ip_named_args sig = true \/ (filter is_required sig = [] /\ existsb is_optional sig = true)) ->
     handle_import sig = IWildcard) /\
  (forall fl st p n k args, (n <= 3)%nat -> length args = n -> stable (scx st) args ->
     call_lambda fl st (imported_pyc p n k) args = applied st (imported_pyc p n k) args).
Proof. exact (conj import_lambda (conj import_lambda_klong (conj import_wildcard import_call_exact))). Qed.
Print Assumptions C09_import.

(* Imported callables (.py / .pyf): a module function with r <= 3 plain positional parameters of ANY
   names, optionally preceded by klong, plain or wrapped by a functools.wraps decorator, is registered
   with arity r, and applied by name to r arguments in ANY scope stack it is called exactly once with
   exactly those arguments.  Closed by the translator's reading of follow_wrapped=True. *)
Theorem C09_import_exact : forall it ps,
  ireal it = ps -> Forall plainp ps -> (length ps <= 3)%nat ->
  register import_follows_wrapped it = Some (ELam it (length ps) false false) /\
  forall fl st n args, c_lookup (scx st) n = Some (ELam it (length ps) false false) -> length args = length ps ->
    stable (scx st) args -> apply_name fl st n args = item_applied st it args.
Proof.
  exact (fun it ps => import_exact_plain import_follows_wrapped it ps (or_introl (eq_refl : import_follows_wrapped = true))).
Qed.
Print Assumptions C09_import_exact.

Theorem C09_import_exact_klong : forall it kp ps,
  ireal it = kp :: ps -> klongp kp -> Forall plainp ps -> (length ps <= 3)%nat ->
  register import_follows_wrapped it = Some (ELam it (length ps) true false) /\
  forall fl st n args, c_lookup (scx st) n = Some (ELam it (length ps) true false) -> length args = length ps ->
    stable (scx st) args -> apply_name fl st n args = item_applied st it args.
Proof.
  exact (fun it kp ps => import_exact_klong import_follows_wrapped it kp ps (or_introl (eq_refl : import_follows_wrapped = true))).
Qed.
Print Assumptions C09_import_exact_klong.

(* wildcard mode reads x, y, z through the whole scope stack: exact only when nothing outside the call frame binds them *)
Theorem C09_wildcard_reads : forall args outer, (length args <= 3)%nat ->
  c_lookup outer 0 = None -> c_lookup outer 1 = None -> c_lookup outer 2 = None ->
  get_pos_wild (zip_frame xyz args :: outer) xyz = args.
Proof. exact wild_toplevel. Qed.
Print Assumptions C09_wildcard_reads.

(* With follow_wrapped=False a decorated one-parameter function is registered as a wildcard callable;
   called as f(1) inside a function whose frame holds x=1, y=2 it is handed (1, 2): a TypeError for
   def f(x), silently wrong arguments for a callee that tolerates a second one. *)
Theorem C09_import_refuted_without_follow_wrapped :
  let px := mkIparam PX false KPosOrKw false in
  let it := mkItem 9 [px] true in
  let it2 := mkItem 10 [px; mkIparam PY false KPosOrKw true] true in
  let caller := [(0, EData (VInt 1)); (1, EData (VInt 2))] in
  register false it = Some (ELam it 0 false true) /\
  (let st := mkState [caller; [(5, ELam it 0 false true)]] [] in
   apply_name (mkFlags true true true) st 5 [VInt 1] = (st, RErr)) /\
  (let st := mkState [caller; [(5, ELam it2 0 false true)]] [] in
   apply_name (mkFlags true true true) st 5 [VInt 1] = item_applied st it2 [VInt 1; VInt 2]).
Proof. vm_compute. repeat split; reflexivity. Qed.

(* Raising callables. A callable that raises for the arguments it receives is still called exactly once
   (one log entry), the error propagates as the result of the application, and the scope stack is
   restored — closed by the translator's reading that _eval_fn pops the frame in a `finally`. *)
Theorem C09_raise : forall st c l args,
  NoDup l -> forallb xyz_name l = true -> sig_of c l -> length args = length l ->
  stable (scx st) args -> praises c args = true ->
  call_lambda src_flags st c args = (mkState (scx st) (log st ++ [(pid c, args)]), RErr).
Proof.
  exact (fun st c l args Hnd Hall =>
    call_raises src_flags st c l args (eq_refl : kglambda_args_positional = true) (eq_refl : eval_fn_pops_in_finally = true)
      (all_sigs_complete l Hnd Hall)).
Qed.
Print Assumptions C09_raise.

(* Each stops at the first element the callable raises for: that call is logged, no later element is touched. *)
Theorem C09_raise_each : forall n c l pre b post st,
  In l one_sigs -> sig_of c l -> c_lookup (scx st) n = Some (EPy c) ->
  (forall v, In v pre -> praises c [v] = false) -> praises c [b] = true ->
  Forall (sval (scx st)) (pre ++ [b]) ->
  each_loop src_flags st n (pre ++ b :: post) =
    (mkState (scx st) (log st ++ map (fun v => (pid c, [v])) (pre ++ [b])), None).
Proof.
  exact (fun n c l pre b post st =>
    each_raises src_flags n c l pre b post st (eq_refl : kglambda_args_positional = true) (eq_refl : eval_fn_pops_in_finally = true)).
Qed.
Print Assumptions C09_raise_each.

(* Without the `finally` the frame of the failed call stays on the scope stack. *)
Theorem C09_raise_refuted_without_finally :
  let nf := mkFlags true true false in
  let c := mkPyc 7 [PX] (fun _ => true) in
  call_lambda nf (mkState [[]] []) c [VInt 1] = (mkState [[(0, EData (VInt 1))]; []] [(7, [VInt 1])], RErr).
Proof. vm_compute. reflexivity. Qed.

(* Wrong argument counts (outside the property's quantifier, which pairs a callable with a fitting
   argument tuple) never INVENT arguments for a callable stored with klong[name]=f: with fewer
   arguments than declared (none included) it is not called at all and the call object comes back;
   with more, the surplus is dropped and it is called once with the leading ones. *)
Theorem C09_wrong_count : forall st n c l args,
  NoDup l -> forallb xyz_name l = true -> sig_of c l -> c_lookup (scx st) n = Some (EPy c) ->
  ((length args < length l)%nat -> apply_name src_flags st n args = (st, RUnapplied)) /\
  ((length l <= length args <= 3)%nat -> stable (scx st) args ->
     call_lambda src_flags st c args = called st c (firstn (length l) args)).
Proof.
  exact (fun st n c l args Hnd Hall Hs Hn =>
    conj (fun Hlt => apply_under src_flags st n c args Hn
                       (eq_ind_r (fun a => (length args < a)%nat) Hlt
                          (lam_arity_sig src_flags c l (eq_refl : kglambda_args_positional = true) (all_sigs_complete l Hnd Hall) Hs)))
         (fun Hle Hst => call_surplus src_flags st c l args (eq_refl : kglambda_args_positional = true) (all_sigs_complete l Hnd Hall) Hs Hle Hst
                           (or_introl (eq_refl : eval_fn_pops_in_finally = true)))).
Qed.
Print Assumptions C09_wrong_count.

(* klong[n] = v from ANY scope stack — also from inside a running Klong or Python function: the
   name reads back as the wrapped value at once, every other name is untouched.  (A NEW name set
   while a function runs lives in that function's frame and is gone when it returns: `n::v` inside
   a Klong function behaves the same; recorded in notes/C09.md.) *)
Theorem C09_store_any_scope : forall c n v k,
  c_lookup (c_set src_flags c n v) k = if k =? n then Some (wrap v) else c_lookup c k.
Proof. exact (fun c n v => c_set_lookup src_flags c n v (eq_refl : setitem_wraps_existing = true)). Qed.
Print Assumptions C09_store_any_scope.

(* KNOWN FINDING C09-symbol-argument-reevaluated: _eval_fn evaluates every argument a second time when
   it builds the call frame, so an argument VALUE that is a symbol naming a bound variable reaches the
   callable as that variable's value: with a::5, f'[:a :b] calls f(5), f(:b).  All theorems above
   therefore assume `stable` arguments (everything except such symbols). *)
Theorem C09_symbol_argument_refuted :
  let c := mkPyc 1 [PX] (fun _ => false) in
  let st := mkState [[(5, EPy c); (40, EData (VInt 5))]] [] in
  run_form src_flags st 5 (FEach [VSym 40; VSym 41]) =
    (mkState (scx st) [(1, [VInt 5]); (1, [VSym 41])], RVal (VList [VPyRes 1 [VInt 5]; VPyRes 1 [VSym 41]])).
Proof. vm_compute. reflexivity. Qed.

(* Non-vacuity: a callable (klong, z, x) called as f(1;2) inside a function whose frame holds
   x=7, y=8, z=9 receives (1, 2); each and over through names. *)
Example C09_example :
  let c := mkPyc 3 [PKlong; PZ; PX] (fun _ => false) in
  let st := mkState [[(0, EData (VInt 7)); (1, EData (VInt 8)); (2, EData (VInt 9))]; [(5, EPy c); (6, EPy (mkPyc 4 [PY] (fun _ => false)))]] [] in
  run_form src_flags st 5 (FDirect [VInt 1; VInt 2]) = applied st c [VInt 1; VInt 2] /\
  snd (run_form src_flags st 6 (FEach [VInt 1; VInt 2])) = RVal (VList [VPyRes 4 [VInt 1]; VPyRes 4 [VInt 2]]) /\
  snd (run_form src_flags st 5 (FOver [VInt 1; VInt 2; VInt 3])) = RVal (VPyRes 3 [VPyRes 3 [VInt 1; VInt 2]; VInt 3]).
Proof. vm_compute. repeat split; reflexivity. Qed.
