(* C04/Model.v — two executable models.

   Part A (history independence): KlongInterpreter.__call__ with its parse cache keyed by
   text, the compiled cache keyed by text (cleared by __setitem__), the `_compiled` memo that
   eval() leaves on the inner operator nodes of cached syntax trees (never cleared), the
   admission rule of compile_expr (types of the variables at compile time) and the re-check
   of the operands at call time (_compiled_args, fix d5a263f) — over a small expression
   language: integer / string / integer-list values, the compilable verbs * and -, the
   non-compilable monad #, assignment.

   Part B (value semantics): arrays as heap buffers with views.  drop / take / index-range /
   reverse return views of their operand's buffer (numpy basic slicing), amend clones first.

   No proofs in this file. *)
From Coq Require Import ZArith List Bool.
Import ListNotations.
Open Scope Z_scope.

(* ================================================================== *)
(* Part A *)

Definition name := Z.
Definition text := Z.

Inductive val := VInt (z : Z) | VStr (s : list Z) | VList (l : list Z).
Inductive bop := Mul | Sub.

Inductive expr :=
| ELit (v : val)
| EVar (n : name)
| EBin (o : bop) (a b : expr)       (* compilable when the leaves are *)
| ESize (a : expr)                  (* #a : an operator node that is never compiled *)
| ERed (a : expr)                   (* +/a : an adverb chain; compilable (np.add.reduce) when its operand is *)
| EDef (n : name) (e : expr).       (* n::e *)

Inductive res := Ok (v : val) | Err.

Definition store := list (name * val).

Fixpoint slookup (k : name) (s : store) : option val :=
  match s with
  | [] => None
  | (k', v) :: r => if k =? k' then Some v else slookup k r
  end.

Fixpoint sset (k : name) (v : val) (s : store) : store :=
  match s with
  | [] => [(k, v)]
  | (k', v') :: r => if k =? k' then (k', v) :: r else (k', v') :: sset k v r
  end.

Definition zop (o : bop) : Z -> Z -> Z := match o with Mul => Z.mul | Sub => Z.sub end.

Fixpoint zip_with (f : Z -> Z -> Z) (a b : list Z) : list Z :=
  match a, b with
  | x :: a', y :: b' => f x y :: zip_with f a' b'
  | _, _ => []
  end.

(* numbers and integer arrays: what both numpy's ufuncs and Python's operators on ndarrays do *)
Definition arith (o : bop) (a b : val) : option val :=
  match a, b with
  | VInt x, VInt y => Some (VInt (zop o x y))
  | VInt x, VList l => Some (VList (map (zop o x) l))
  | VList l, VInt y => Some (VList (map (fun x => zop o x y) l))
  | VList la, VList lb => if (length la =? length lb)%nat then Some (VList (zip_with (zop o) la lb)) else None
  | _, _ => None
  end.

(* the interpreter's verbs (np.multiply / np.subtract): strings are an error *)
Definition kl_bin (o : bop) (a b : val) : res :=
  match arith o a b with Some v => Ok v | None => Err end.

Fixpoint repeat_str (n : nat) (s : list Z) : list Z :=
  match n with O => [] | S m => s ++ repeat_str m s end.

(* Python's operators, which is what compiled code runs: on numbers and arrays as above, but
   str * int is repetition *)
Definition py_bin (o : bop) (a b : val) : option val :=
  match o, a, b with
  | Mul, VStr s, VInt n => Some (VStr (repeat_str (Z.to_nat n) s))
  | Mul, VInt n, VStr s => Some (VStr (repeat_str (Z.to_nat n) s))
  | _, _, _ => arith o a b
  end.

Definition kl_size (a : val) : val :=
  match a with
  | VInt z => VInt (Z.abs z)
  | VStr s => VInt (Z.of_nat (length s))
  | VList l => VInt (Z.of_nat (length l))
  end.

(* +/ by the interpreter (Over): an atom is returned as it is, [] stays [], a string is the join of its characters *)
Definition kl_red (a : val) : val :=
  match a with
  | VInt z => VInt z
  | VStr s => VStr s
  | VList [] => VList []
  | VList l => VInt (fold_left Z.add l 0)
  end.

(* np.add.reduce: the identity 0 on an empty array *)
Definition py_red (a : val) : option val :=
  match a with
  | VInt z => Some (VInt z)
  | VList l => Some (VInt (fold_left Z.add l 0))
  | VStr _ => None
  end.

(* ---- the reference: evaluation by the interpreter alone, no cache of any kind ---- *)
Fixpoint eval_pure (e : expr) (s : store) : res * store :=
  match e with
  | ELit v => (Ok v, s)
  | EVar n => match slookup n s with Some v => (Ok v, s) | None => (Err, s) end
  | EBin o a b =>
      let (rb, s1) := eval_pure b s in              (* _y first *)
      match rb with
      | Err => (Err, s1)
      | Ok vb => let (ra, s2) := eval_pure a s1 in
                 match ra with
                 | Err => (Err, s2)
                 | Ok va => (kl_bin o va vb, s2)
                 end
      end
  | ESize a =>
      let (ra, s1) := eval_pure a s in
      match ra with Err => (Err, s1) | Ok va => (Ok (kl_size va), s1) end
  | ERed a =>
      let (ra, s1) := eval_pure a s in
      match ra with Err => (Err, s1) | Ok va => (Ok (kl_red va), s1) end
  | EDef n e1 =>
      let (r, s1) := eval_pure e1 s in
      match r with Err => (Err, s1) | Ok v => (Ok v, sset n v s1) end
  end.

(* ---- the compiler ---- *)
(* _ast_to_ir: int literals, variables currently bound to an int or an array, * and - *)
Fixpoint admissible (e : expr) (s : store) : bool :=
  match e with
  | ELit (VInt _) => true
  | ELit _ => false
  | EVar n => match slookup n s with Some (VInt _) | Some (VList _) => true | _ => false end
  | EBin _ a b => admissible a s && admissible b s
  | ERed a => admissible a s
  | ESize _ | EDef _ _ => false
  end.

Fixpoint has_var (e : expr) : bool :=
  match e with
  | EVar _ => true
  | EBin _ a b => has_var a || has_var b
  | ERed a => has_var a
  | _ => false
  end.

(* compile_expr: the code is the expression itself, to be run with Python's operators *)
Definition compile (e : expr) (s : store) : option expr :=
  if admissible e s && has_var e then Some e else None.

(* _compiled_args (fix d5a263f): every operand is an int or a non-empty array *)
Fixpoint operands_ok (e : expr) (s : store) : bool :=
  match e with
  | EVar n => match slookup n s with
              | Some (VInt _) => true
              | Some (VList (_ :: _)) => true
              | _ => false
              end
  | EBin _ a b => operands_ok a s && operands_ok b s
  | ERed a => operands_ok a s
  | _ => true
  end.

(* running the compiled function on the operands: None = it raised *)
Fixpoint py_run (e : expr) (s : store) : option val :=
  match e with
  | ELit v => Some v
  | EVar n => slookup n s
  | EBin o a b => match py_run a s, py_run b s with
                  | Some va, Some vb => py_bin o va vb
                  | _, _ => None
                  end
  | ERed a => match py_run a s with Some va => py_red va | None => None end
  | _ => None
  end.

(* try: return fn( * self._compiled_args(var_syms)) except Exception: pass *)
Definition try_compiled (recheck : bool) (code : expr) (s : store) : option val :=
  if recheck && negb (operands_ok code s) then None else py_run code s.

(* ---- the interpreter state ---- *)
Definition path := list nat.
Definition module := Z.                     (* 0 = no module active *)
Definition ckey := (text * module)%type.    (* cache_key = (x, self._module) *)
Definition memo_key := (ckey * path)%type.

Record istate := mk_istate {
  vars : store ;
  cur : module ;                                    (* self._module: the module the PARSER qualifies names with *)
  pcache : list (ckey * expr) ;                     (* _parse_cache: key -> syntax tree *)
  ccache : list (ckey * option expr) ;              (* _compiled_cache: code or False *)
  memo : list (memo_key * option expr)              (* node._compiled on inner nodes of cached trees *)
}.

Fixpoint path_eqb (a b : path) : bool :=
  match a, b with
  | [], [] => true
  | x :: a', y :: b' => Nat.eqb x y && path_eqb a' b'
  | _, _ => false
  end.

Definition ckey_eqb (a b : ckey) : bool := (fst a =? fst b) && (snd a =? snd b).
Definition key_eqb (a b : memo_key) : bool := ckey_eqb (fst a) (fst b) && path_eqb (snd a) (snd b).

Fixpoint mlookup (k : memo_key) (m : list (memo_key * option expr)) : option (option expr) :=
  match m with
  | [] => None
  | (k', c) :: r => if key_eqb k k' then Some c else mlookup k r
  end.

Fixpoint clookup (t : ckey) (m : list (ckey * option expr)) : option (option expr) :=
  match m with
  | [] => None
  | (t', c) :: r => if ckey_eqb t t' then Some c else clookup t r
  end.

Fixpoint plookup (t : ckey) (m : list (ckey * expr)) : option expr :=
  match m with
  | [] => None
  | (t', e) :: r => if ckey_eqb t t' then Some e else plookup t r
  end.

Section Eval.
  Variable recheck : bool.          (* Generated.compiled_args_rechecked *)
  Variable clear_on_set : bool.     (* Generated.setitem_clears_compiled_cache *)
  Variable t : ckey.                (* the cache key under which the tree being evaluated is stored *)

  (* eval() on the node at `p` of the cached tree stored under t.  `root` = the node is the
     re-wrapped top node (call() builds a new KGCall, so its memo is lost). *)
  Fixpoint ev (root : bool) (p : path) (e : expr) (st : istate) : res * istate :=
    match e with
    | ELit v => (Ok v, st)
    | EVar n => match slookup n (vars st) with Some v => (Ok v, st) | None => (Err, st) end
    | EBin o a b =>
        let interp (st : istate) :=
          let (rb, st1) := ev false (p ++ [1%nat]) b st in
          match rb with
          | Err => (Err, st1)
          | Ok vb => let (ra, st2) := ev false (p ++ [0%nat]) a st1 in
                     match ra with
                     | Err => (Err, st2)
                     | Ok va => (kl_bin o va vb, st2)
                     end
          end in
        let (code, st') :=
          if root then (compile e (vars st), st)
          else match mlookup (t, p) (memo st) with
               | Some c => (c, st)
               | None => let c := compile e (vars st) in
                         (c, mk_istate (vars st) (cur st) (pcache st) (ccache st) (((t, p), c) :: memo st))
               end in
        match code with
        | Some c => match try_compiled recheck c (vars st') with
                    | Some v => (Ok v, st')
                    | None => interp st'
                    end
        | None => interp st'
        end
    | ESize a =>
        let (ra, st1) := ev false (p ++ [0%nat]) a st in
        match ra with Err => (Err, st1) | Ok va => (Ok (kl_size va), st1) end
    | ERed a =>
        (* eval(): x.is_adverb_chain() — the same memo / compile / try / fall back to chain_adverbs *)
        let interp (st : istate) :=
          let (ra, st1) := ev false (p ++ [0%nat]) a st in
          match ra with Err => (Err, st1) | Ok va => (Ok (kl_red va), st1) end in
        let (code, st') :=
          if root then (compile e (vars st), st)
          else match mlookup (t, p) (memo st) with
               | Some c => (c, st)
               | None => let c := compile e (vars st) in
                         (c, mk_istate (vars st) (cur st) (pcache st) (ccache st) (((t, p), c) :: memo st))
               end in
        match code with
        | Some c => match try_compiled recheck c (vars st') with
                    | Some v => (Ok v, st')
                    | None => interp st'
                    end
        | None => interp st'
        end
    | EDef n e1 =>
        let (r, st1) := ev false (p ++ [1%nat]) e1 st in
        match r with
        | Err => (Err, st1)
        | Ok v => (Ok v, mk_istate (sset n v (vars st1)) (cur st1) (pcache st1)
                                   (if clear_on_set then [] else ccache st1) (memo st1))
        end
    end.
End Eval.

Section Call.
  Variable recheck : bool.
  Variable clear_on_set : bool.
  Variable keymod : bool.           (* the parse cache key contains the active module (Generated.parse_cache_key_has_module) *)
  (* the parser is a function of the text and of the active module (it qualifies names with it);
     it also returns the module that is active after parsing: `.module(:m)` switches it AT PARSE TIME *)
  Variable parse : text -> module -> expr * module.

  (* a text whose parse leaves another module active than it found is not stored in the parse cache
     (Generated.parse_cache_skips_switching_texts; fix 012f393).  Before the fix it was stored, and served
     from the cache it did not switch the module. *)
  Variable skip_sw : bool.

  Definition key_of (st : istate) (t : text) : ckey := (t, if keymod then cur st else 0).

  (* __call__ after the parse cache: compiled cache, compiled attempt, interpreter *)
  Definition run_tree (k : ckey) (e : expr) (st0 : istate) : res * istate :=
    let (code, st1) :=
      match clookup k (ccache st0) with
      | Some c => (c, st0)
      | None => let c := compile e (vars st0) in
                (c, mk_istate (vars st0) (cur st0) (pcache st0) ((k, c) :: ccache st0) (memo st0))
      end in
    match match code with Some c => try_compiled recheck c (vars st1) | None => None end with
    | Some v => (Ok v, st1)
    | None => ev recheck clear_on_set k true [] e st1
    end.

  (* evaluation does not write into the syntax tree it evaluates, except the `_compiled` memo
     (Generated.eval_does_not_write_nodes).  If it did — e.g. by storing evaluated operands back into a node, as a projection
     that freezes its arguments — the cached tree of the text would from then on carry the values of the first evaluation:
     `freeze` replaces the variables by the values they had. *)
  Variable stable : bool.

  Fixpoint freeze (s : store) (e : expr) : expr :=
    match e with
    | EVar n => match slookup n s with Some v => ELit v | None => e end
    | EBin o a b => EBin o (freeze s a) (freeze s b)
    | ESize a => ESize (freeze s a)
    | ERed a => ERed (freeze s a)
    | EDef n e1 => EDef n (freeze s e1)
    | ELit _ => e
    end.

  Fixpoint preplace (k : ckey) (e : expr) (m : list (ckey * expr)) : list (ckey * expr) :=
    match m with
    | [] => []
    | (k', e') :: r => if ckey_eqb k k' then (k', e) :: r else (k', e') :: preplace k e r
    end.

  (* KlongInterpreter.__call__ *)
  Definition run_cached (st : istate) (t : text) : res * istate :=
    let k := key_of st t in
    let (e, st0) :=
      match plookup k (pcache st) with
      | Some e => (e, st)
      | None => let (e, m') := parse t (cur st) in
                let pc := if skip_sw && negb (m' =? cur st) then pcache st else (k, e) :: pcache st in
                (e, mk_istate (vars st) m' pc (ccache st) (memo st))
      end in
    if stable then run_tree k e st0
    else let (r, st1) := run_tree k e st0 in
         (r, mk_istate (vars st1) (cur st1) (preplace k (freeze (vars st) e) (pcache st1)) (ccache st1) (memo st1)).

  Fixpoint state_after (st : istate) (h : list text) : istate :=
    match h with
    | [] => st
    | t :: r => state_after (snd (run_cached st t)) r
    end.

  Fixpoint run_history (st : istate) (h : list text) : list (res * store) :=
    match h with
    | [] => []
    | t :: r => let (rr, st1) := run_cached st t in (rr, vars st1) :: run_history st1 r
    end.

  (* the reference: parse under the active module, evaluate with the bare interpreter *)
  Definition eval_ref (ms : module * store) (t : text) : res * (module * store) :=
    let (e, m') := parse t (fst ms) in
    let (r, s') := eval_pure e (snd ms) in
    (r, (m', s')).

  Fixpoint ref_after (ms : module * store) (h : list text) : module * store :=
    match h with
    | [] => ms
    | t :: r => ref_after (snd (eval_ref ms t)) r
    end.
End Call.

Definition fresh (s : store) : istate := mk_istate s 0 [] [] [].

(* ================================================================== *)
(* Part B *)

Definition loc := nat.
Definition heap := list (list Z).           (* buffer of location l = nth l heap; allocation appends *)

(* an array value: a view (start, step, count) of a buffer *)
Record arr := mk_arr { a_loc : loc ; a_off : Z ; a_step : Z ; a_len : nat }.

Definition hget (h : heap) (l : loc) : list Z := nth l h [].

Fixpoint read_view (buf : list Z) (off step : Z) (n : nat) : list Z :=
  match n with
  | O => []
  | S m => nth (Z.to_nat off) buf 0 :: read_view buf (off + step) step m
  end.

(* the abstract value of an array = what reading it gives *)
Definition deref (h : heap) (a : arr) : list Z := read_view (hget h (a_loc a)) (a_off a) (a_step a) (a_len a).

Definition alloc (h : heap) (buf : list Z) : heap * loc := (h ++ [buf], length h).

Fixpoint list_set (l : list Z) (i : nat) (v : Z) : list Z :=
  match l, i with
  | [], _ => []
  | _ :: r, O => v :: r
  | x :: r, S j => x :: list_set r j v
  end.

Definition hset (h : heap) (l : loc) (buf : list Z) : heap :=
  firstn l h ++ match skipn l h with [] => [] | _ :: r => buf :: r end.

Inductive aop :=
| ODrop (n : nat)              (* n_a   : b[n:]   — a view *)
| OTake (n : nat)              (* n#a   : b[:n]   — a view (n <= #a) *)
| ORev                         (* |a    : a[::-1] — a view *)
| OAmend (i : nat) (v : Z)     (* a:=v,i : np.array(a) clone, then put *)
| OOther (f : list Z -> list Z). (* any other verb (reshape, rotate, split, grade, ...): a function of the operand's value *)

(* `clone` : eval_dyad_amend copies before writing (Generated.amend_clones_first)
   `pure`  : no verb implementation stores into its parameters (Generated.no_verb_stores_into_operands); a verb that
             does (like a reshape that substitutes the -1 of its shape operand in place) is modelled as writing
             its intermediate into the operand's buffer *)
Definition apply_aop (clone pure : bool) (o : aop) (h : heap) (a : arr) : heap * arr :=
  match o with
  | ODrop n => let k := Nat.min n (a_len a) in
               (h, mk_arr (a_loc a) (a_off a + Z.of_nat k * a_step a) (a_step a) (a_len a - k))
  | OTake n => (h, mk_arr (a_loc a) (a_off a) (a_step a) (Nat.min n (a_len a)))
  | ORev => (h, mk_arr (a_loc a) (a_off a + (Z.of_nat (a_len a) - 1) * a_step a) (- a_step a) (a_len a))
  | OAmend i v =>
      if clone then
        let (h1, l) := alloc h (deref h a) in
        (hset h1 l (list_set (deref h a) i v), mk_arr l 0 1 (a_len a))
      else
        (* writing through the view *)
        let pos := Z.to_nat (a_off a + Z.of_nat i * a_step a) in
        (if (i <? a_len a)%nat then hset h (a_loc a) (list_set (hget h (a_loc a)) pos v) else h, a)
  | OOther f =>
      if pure then
        let (h1, l) := alloc h (f (deref h a)) in (h1, mk_arr l 0 1 (length (f (deref h a))))
      else
        (hset h (a_loc a) (f (hget h (a_loc a))), a)
  end.

(* a statement: target variable := op applied to a source variable, or a fresh literal *)
Inductive stmt :=
| SLit (dst : name) (l : list Z)
| SOp (dst : name) (o : aop) (src : name)
| SCopy (dst src : name).                    (* b::a binds the same object *)

Record hstate := mk_hstate { hp : heap ; env : list (name * arr) }.

Fixpoint elookup (k : name) (s : list (name * arr)) : option arr :=
  match s with
  | [] => None
  | (k', v) :: r => if k =? k' then Some v else elookup k r
  end.

Fixpoint eset (k : name) (v : arr) (s : list (name * arr)) : list (name * arr) :=
  match s with
  | [] => [(k, v)]
  | (k', v') :: r => if k =? k' then (k', v) :: r else (k', v') :: eset k v r
  end.

Definition exec (clone pure : bool) (st : hstate) (s : stmt) : hstate :=
  match s with
  | SLit d l => let (h1, lc) := alloc (hp st) l in mk_hstate h1 (eset d (mk_arr lc 0 1 (length l)) (env st))
  | SOp d o src =>
      match elookup src (env st) with
      | Some a => let (h1, a1) := apply_aop clone pure o (hp st) a in mk_hstate h1 (eset d a1 (env st))
      | None => st
      end
  | SCopy d src =>
      match elookup src (env st) with
      | Some a => mk_hstate (hp st) (eset d a (env st))
      | None => st
      end
  end.

Definition exec_all (clone pure : bool) (st : hstate) (p : list stmt) : hstate := fold_left (exec clone pure) p st.

Definition value_of (st : hstate) (k : name) : option (list Z) :=
  match elookup k (env st) with Some a => Some (deref (hp st) a) | None => None end.

(* the same program over immutable values (the Spec) *)
Definition pure_aop (o : aop) (l : list Z) : list Z :=
  match o with
  | ODrop n => skipn n l
  | OTake n => firstn n l
  | ORev => rev l
  | OAmend i v => list_set l i v
  | OOther f => f l
  end.

(* ---- the Spec of Part B: the same statements over a store of immutable lists ---- *)
Definition pstore := list (name * list Z).

Fixpoint pget (k : name) (s : pstore) : option (list Z) :=
  match s with
  | [] => None
  | (k', v) :: r => if k =? k' then Some v else pget k r
  end.

Fixpoint pset (k : name) (v : list Z) (s : pstore) : pstore :=
  match s with
  | [] => [(k, v)]
  | (k', v') :: r => if k =? k' then (k', v) :: r else (k', v') :: pset k v r
  end.

Definition pure_exec (s : pstore) (st : stmt) : pstore :=
  match st with
  | SLit d l => pset d l s
  | SOp d o src => match pget src s with Some l => pset d (pure_aop o l) s | None => s end
  | SCopy d src => match pget src s with Some l => pset d l s | None => s end
  end.

Definition pure_exec_all (s : pstore) (p : list stmt) : pstore := fold_left pure_exec p s.
