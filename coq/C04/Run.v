(* C04/Run.v — S-expression front end, extracted to OCaml.
   values  (i n) (s c...) (a n...)
   expr    (l V) (v name) (b op A B) (z A) (r A) (d name E)    op 0 = *, 1 = -; (r A) = +/A
   requests
     (hist ((tid E)...) (tid...))  -> ((R STORE Rpure)...)   history through __call__ with caches; Rpure = bare interpreter on the pre-state
     (heap (STMT...))               -> (((name (n...))...)...) variable values after each statement
        STMT = (lit dst (n...)) | (op dst kind n v src) | (cp dst src)     kind 0 drop, 1 take, 2 reverse, 3 amend(i=n, v) *)
From Coq Require Import ZArith List String.
From KB Require Import Sx.
From C04 Require Import Generated Model.
Import ListNotations.
Open Scope Z_scope.

Definition val_of_sx (x : sx) : option val :=
  match x with
  | SL (SS t :: rest) =>
      if is_tag "i" t then match rest with [SZ z] => Some (VInt z) | _ => None end else
      if is_tag "s" t then option_map VStr (sx_get_zs rest) else
      if is_tag "a" t then option_map VList (sx_get_zs rest) else None
  | _ => None
  end.

Fixpoint expr_of_sx (fuel : nat) (x : sx) : option expr :=
  match fuel with O => None | S f =>
  match x with
  | SL [SS t; a] =>
      if is_tag "l" t then option_map ELit (val_of_sx a) else
      if is_tag "v" t then match a with SZ n => Some (EVar n) | _ => None end else
      if is_tag "z" t then option_map ESize (expr_of_sx f a) else
      if is_tag "r" t then option_map ERed (expr_of_sx f a) else None
  | SL [SS t; SZ n; a] =>
      if is_tag "d" t then option_map (EDef n) (expr_of_sx f a) else None
  | SL [SS t; SZ o; a; b] =>
      if is_tag "b" t then
        match expr_of_sx f a, expr_of_sx f b with
        | Some a', Some b' => Some (EBin (if o =? 0 then Mul else Sub) a' b')
        | _, _ => None
        end
      else None
  | _ => None
  end end.

Definition sx_of_val (v : val) : sx :=
  match v with
  | VInt z => SL [sx_w "i"; SZ z]
  | VStr s => SL (sx_w "s" :: map SZ s)
  | VList l => SL (sx_w "a" :: map SZ l)
  end.

Definition sx_of_res (r : res) : sx :=
  match r with Ok v => SL [sx_w "ok"; sx_of_val v] | Err => SL [sx_w "err"] end.

Definition sx_of_store (s : store) : sx := SL (map (fun kv => SL [SZ (fst kv); sx_of_val (snd kv)]) s).

Fixpoint table_of_sx (l : list sx) : option (list (text * expr)) :=
  match l with
  | [] => Some []
  | SL [SZ t; e] :: r =>
      match expr_of_sx 200 e, table_of_sx r with
      | Some e', Some tb => Some ((t, e') :: tb)
      | _, _ => None
      end
  | _ => None
  end.

Fixpoint tlookup (tb : list (text * expr)) (t : text) : expr :=
  match tb with
  | [] => ELit (VInt 0)
  | (t', e) :: r => if t =? t' then e else tlookup r t
  end.

Fixpoint run_hist (parse : text -> module -> expr * module) (st : istate) (h : list text) : list sx :=
  match h with
  | [] => []
  | t :: r =>
      let (rr, st1) := run_cached compiled_args_rechecked setitem_clears_compiled_cache parse_cache_key_has_module parse parse_cache_skips_switching_texts eval_does_not_write_nodes st t in
      SL [sx_of_res rr; sx_of_store (vars st1); sx_of_res (fst (eval_pure (fst (parse t (cur st))) (vars st)))]
        :: run_hist parse st1 r
  end.

Definition stmt_of_sx (x : sx) : option stmt :=
  match x with
  | SL [SS t; SZ d; SL l] => if is_tag "lit" t then option_map (SLit d) (sx_get_zs l) else None
  | SL [SS t; SZ d; SZ src] => if is_tag "cp" t then Some (SCopy d src) else None
  | SL [SS t; SZ d; SZ k; SZ n; SZ v; SZ src] =>
      if is_tag "op" t then
        let o := if k =? 0 then ODrop (Z.to_nat n) else if k =? 1 then OTake (Z.to_nat n)
                 else if k =? 2 then ORev else OAmend (Z.to_nat n) v in
        Some (SOp d o src)
      else None
  | _ => None
  end.

Fixpoint stmts_of_sx (l : list sx) : option (list stmt) :=
  match l with
  | [] => Some []
  | a :: r => match stmt_of_sx a, stmts_of_sx r with Some s, Some ss => Some (s :: ss) | _, _ => None end
  end.

Definition sx_of_hstate (st : hstate) : sx :=
  SL (map (fun kv => SL [SZ (fst kv); sx_zs (deref (hp st) (snd kv))]) (env st)).

Fixpoint run_heap (st : hstate) (p : list stmt) : list sx :=
  match p with
  | [] => []
  | s :: r => let st1 := exec amend_clones_first (no_verb_stores_into_operands && no_array_caches_in_backends) st s in sx_of_hstate st1 :: run_heap st1 r
  end.

Definition dispatch (x : sx) : sx :=
  match x with
  | SL [SS t; SL tb; SL h] =>
      if is_tag "hist" t then
        match table_of_sx tb, sx_get_zs h with
        | Some tb', Some h' => SL (run_hist (fun t m => (tlookup tb' t, m)) (fresh []) h')
        | _, _ => sx_err "hist"
        end
      else sx_err "op"
  | SL [SS t; SL p] =>
      if is_tag "heap" t then
        match stmts_of_sx p with
        | Some p' => SL (run_heap (mk_hstate [] []) p')
        | None => sx_err "heap"
        end
      else sx_err "op"
  | _ => sx_err "shape"
  end.

Require Import ExtrOcamlBasic.
Extraction Language OCaml.
Extraction "extracted.ml" dispatch drv_add drv_mul drv_opp drv_div_eucl drv_ltb drv_eqb.
