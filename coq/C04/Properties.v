(* C04/Properties.v — property theorems only. *)
From Coq Require Import ZArith List Bool.
From C04 Require Import Generated Model Proofs.
Import ListNotations.
Open Scope Z_scope.

(* T4.cache — for every parser (any function of the text AND the active module, which also says
   which module is active afterwards: `.module(:m)` switches at parse time), every initial variable
   state, every history h of texts of ANY length and every text t: running t through __call__ in
   the state the history left behind — parse cache keyed by (text, module), compiled cache,
   `_compiled` memos on inner nodes and all — gives the result, the variables and the active
   module that parsing t under the active module and running the bare interpreter gives; and the
   state after h is the one the reference produces for h.  Holds because (i) the operands of
   cached compiled code are re-checked at call time (fix d5a263f), (ii) the parse cache key contains
   the module and (iii) a text whose parse switches the module is never stored in the parse cache
   (fix 012f393), (iv) evaluation does not write into the syntax tree it evaluates other than the `_compiled`
   memo — four regenerated flags; it does not depend on whether assignments clear the
   compiled cache. *)
Theorem C04_cache_transparent : forall clear_on_set parse s0 h t,
  let st := state_after compiled_args_rechecked clear_on_set parse_cache_key_has_module parse parse_cache_skips_switching_texts eval_does_not_write_nodes (fresh s0) h in
  let r := run_cached compiled_args_rechecked clear_on_set parse_cache_key_has_module parse parse_cache_skips_switching_texts eval_does_not_write_nodes st t in
  (fst r, (cur (snd r), vars (snd r))) = eval_ref parse (cur st, vars st) t
  /\ (cur st, vars st) = ref_after parse (0, s0) h.
Proof.
  exact (eq_ind_r (fun f => forall clear_on_set parse s0 h t,
            let st := state_after f clear_on_set parse_cache_key_has_module parse parse_cache_skips_switching_texts eval_does_not_write_nodes (fresh s0) h in
            let r := run_cached f clear_on_set parse_cache_key_has_module parse parse_cache_skips_switching_texts eval_does_not_write_nodes st t in
            (fst r, (cur (snd r), vars (snd r))) = eval_ref parse (cur st, vars st) t
            /\ (cur st, vars st) = ref_after parse (0, s0) h)
          (eq_ind_r (fun g => forall clear_on_set parse s0 h t,
            let st := state_after true clear_on_set g parse parse_cache_skips_switching_texts eval_does_not_write_nodes (fresh s0) h in
            let r := run_cached true clear_on_set g parse parse_cache_skips_switching_texts eval_does_not_write_nodes st t in
            (fst r, (cur (snd r), vars (snd r))) = eval_ref parse (cur st, vars st) t
            /\ (cur st, vars st) = ref_after parse (0, s0) h)
           (eq_ind_r (fun k => forall clear_on_set parse s0 h t,
            let st := state_after true clear_on_set true parse k eval_does_not_write_nodes (fresh s0) h in
            let r := run_cached true clear_on_set true parse k eval_does_not_write_nodes st t in
            (fst r, (cur (snd r), vars (snd r))) = eval_ref parse (cur st, vars st) t
            /\ (cur st, vars st) = ref_after parse (0, s0) h)
            (eq_ind_r (fun w => forall clear_on_set parse s0 h t,
             let st := state_after true clear_on_set true parse true w (fresh s0) h in
             let r := run_cached true clear_on_set true parse true w st t in
             (fst r, (cur (snd r), vars (snd r))) = eval_ref parse (cur st, vars st) t
             /\ (cur st, vars st) = ref_after parse (0, s0) h)
             cache_transparent (eq_refl : eval_does_not_write_nodes = true))
            (eq_refl : parse_cache_skips_switching_texts = true))
           (eq_refl : parse_cache_key_has_module = true))
          (eq_refl : compiled_args_rechecked = true)).
Qed.
Print Assumptions C04_cache_transparent.

(* R15: without the re-check the statement is false.  a::2; b::3; #a*b; a::"ab"; then #a*b again:
   the inner node a*b still carries the code compiled for integers, Python's * repeats the string,
   the answer is 6; a fresh interpreter with the same variables raises. *)
Definition r15_parse (t : text) (m : module) : expr * module :=
  (if t =? 1 then EDef 10 (ELit (VInt 2)) else
   if t =? 2 then EDef 11 (ELit (VInt 3)) else
   if t =? 3 then ESize (EBin Mul (EVar 10) (EVar 11)) else
   EDef 10 (ELit (VStr [97; 98])), m).

Theorem C04_cache_refuted_without_recheck :
  exists parse h t,
    let st := state_after false true true parse true true (fresh []) h in
    fst (run_cached false true true parse true true st t) <> fst (eval_ref parse (cur st, vars st) t).
Proof. exists r15_parse, [1; 2; 3; 4], 3. vm_compute. discriminate. Qed.

Example C04_cache_example :
  let st := state_after true true true r15_parse true true (fresh []) [1; 2; 3; 4] in
  fst (run_cached true true true r15_parse true true st 3) = Err /\
  fst (run_cached true true true r15_parse true true (state_after true true true r15_parse true true (fresh []) [1; 2; 3]) 3) = Ok (VInt 6) /\
  memo st <> [].
Proof. vm_compute. repeat split; discriminate. Qed.

(* a reduce nested in an assignment (`c::+/a`: the assignment is never compiled, its operand node +/a is, and
   keeps its code), first run on a non-empty list and then on the empty list: with the re-check, which refuses empty
   arrays at call time, the answer is the interpreter's []; without it the memoised np.add.reduce returns its identity 0
   (the seeded change C04-3 moved that test to compile time) *)
Definition red_parse (t : text) (m : module) : expr * module :=
  (if t =? 1 then EDef 10 (ELit (VList [1; 2; 3])) else
   if t =? 2 then EDef 11 (ERed (EVar 10)) else
   EDef 10 (ELit (VList [])), m).

Example C04_reduce_example :
  fst (run_cached true true true red_parse true true (state_after true true true red_parse true true (fresh []) [1; 2; 3]) 2) = Ok (VList []) /\
  fst (run_cached false true true red_parse true true (state_after false true true red_parse true true (fresh []) [1; 2; 3]) 2) = Ok (VInt 0) /\
  fst (run_cached true true true red_parse true true (state_after true true true red_parse true true (fresh []) [1]) 2) = Ok (VInt 6).
Proof. vm_compute. repeat split; reflexivity. Qed.

(* seeded change C04-10: evaluation writes the evaluated operands back into the node (a projection that freezes its
   arguments): a::[1 2]; c::#a; a::[1 2 3]; c::#a — the cached tree of the text carries the first value of a *)
Definition frz_parse (t : text) (m : module) : expr * module :=
  (if t =? 1 then EDef 10 (ELit (VList [1; 2])) else
   if t =? 2 then EDef 12 (ESize (EVar 10)) else
   EDef 10 (ELit (VList [1; 2; 3])), m).

Theorem C04_cache_refuted_when_eval_writes_nodes :
  exists parse h t,
    let st := state_after true true true parse true false (fresh []) h in
    fst (run_cached true true true parse true false st t) <> fst (eval_ref parse (cur st, vars st) t).
Proof. exists frz_parse, [1; 2; 3], 2. vm_compute. discriminate. Qed.

(* module switches.  Text 1 = `.module(:m)` (switches to module 7 while being parsed), text 3 =
   `.module(0)`, text 2 = `t::1`, which the parser reads as t`m::1 (name 20) inside the module and as
   t::1 (name 10) outside. *)
Definition mod_parse (t : text) (m : module) : expr * module :=
  if t =? 1 then (ELit (VInt 0), 7) else
  if t =? 3 then (ELit (VInt 0), 0) else
  (EDef (if m =? 7 then 20 else 10) (ELit (VInt 1)), m).

(* with a parse cache keyed by the text alone the statement is false: .module(:m); t::1; .module(0);
   then t::1 at global level re-uses the tree parsed inside the module and assigns the module's t *)
Theorem C04_cache_refuted_with_text_only_key :
  exists parse h t,
    let st := state_after true true false parse true true (fresh []) h in
    let r := run_cached true true false parse true true st t in
    (fst r, (cur (snd r), vars (snd r))) <> eval_ref parse (cur st, vars st) t.
Proof. exists mod_parse, [1; 2; 3], 2. vm_compute. discriminate. Qed.

(* finding C04-cached-module-switch (repaired by 012f393): if switching texts are stored in the parse
   cache, a module-switching text served from it does not switch the parser's module:
   .module(:m); .module(0); .module(:m) *)
Theorem C04_cached_module_switch_refuted :
  exists parse h t,
    let st := state_after true true true parse false true (fresh []) h in
    let r := run_cached true true true parse false true st t in
    (fst r, (cur (snd r), vars (snd r))) <> eval_ref parse (cur st, vars st) t.
Proof. exists mod_parse, [1; 3], 1. vm_compute. discriminate. Qed.

Example C04_modules_example :
  vars (state_after true true true mod_parse true true (fresh []) [1; 2; 3; 2; 1; 2]) = [(20, VInt 1); (10, VInt 1)] /\
  cur (state_after true true true mod_parse true true (fresh []) [1; 2; 3; 2; 1]) = 7 /\
  pcache (state_after true true true mod_parse true true (fresh []) [1; 3; 1]) = [].
Proof. vm_compute. repeat split; reflexivity. Qed.

(* what the model's `pure` stands for: no verb implementation stores into its parameters, and no memo table / cache
   decorator in the value layer can hand the same mutable array to two evaluations (both regenerated by scans) *)
Definition verbs_pure : bool := no_verb_stores_into_operands && no_array_caches_in_backends.

(* the reader passes the active module on at every call that can meet a symbol, so the parser IS a function of
   (text, active module) as C04_cache_transparent assumes; stops type-checking otherwise *)
Theorem C04_reader_threads_module : module_threaded_through_reader = true.
Proof. exact eq_refl. Qed.
Print Assumptions C04_reader_threads_module.

(* T4.views — arrays are buffers, drop / take / reverse return views of the operand's buffer and
   amend clones first (regenerated flag): for every statement sequence, a variable that is not
   itself assigned keeps its value, and no buffer that existed is ever written. *)
Theorem C04_views_unobservable : forall p st k,
  env_ok st -> ~ In k (map target p) ->
  value_of (exec_all amend_clones_first verbs_pure st p) k = value_of st k.
Proof.
  exact (eq_ind_r (fun f => forall p st k, env_ok st -> ~ In k (map target p) -> value_of (exec_all f verbs_pure st p) k = value_of st k)
           (eq_ind_r (fun g => forall p st k, env_ok st -> ~ In k (map target p) -> value_of (exec_all true g st p) k = value_of st k) views_unobservable (eq_refl : verbs_pure = true))
           (eq_refl : amend_clones_first = true)).
Qed.
Print Assumptions C04_views_unobservable.

Theorem C04_buffers_immutable : forall p st l,
  env_ok st -> (l < length (hp st))%nat ->
  hget (hp (exec_all amend_clones_first verbs_pure st p)) l = hget (hp st) l.
Proof.
  exact (eq_ind_r (fun f => forall p st l, env_ok st -> (l < length (hp st))%nat -> hget (hp (exec_all f verbs_pure st p)) l = hget (hp st) l)
           (eq_ind_r (fun g => forall p st l, env_ok st -> (l < length (hp st))%nat -> hget (hp (exec_all true g st p)) l = hget (hp st) l) buffers_immutable (eq_refl : verbs_pure = true))
           (eq_refl : amend_clones_first = true)).
Qed.
Print Assumptions C04_buffers_immutable.

(* T4.views, full strength — values behave as immutable: after ANY statement sequence (literals,
   drop / take / reverse views, views of views, amends of views, aliases, and any other verb as a function of
   its operand's value — given the regenerated fact that no verb implementation stores into its parameters) EVERY variable holds
   exactly the value that the same program computes over a store of immutable lists. *)
Theorem C04_values_are_immutable : forall p k,
  value_of (exec_all amend_clones_first verbs_pure (mk_hstate [] []) p) k = pget k (pure_exec_all [] p).
Proof.
  exact (eq_ind_r (fun f => forall p k, value_of (exec_all f verbs_pure (mk_hstate [] []) p) k = pget k (pure_exec_all [] p))
           (eq_ind_r (fun g => forall p k, value_of (exec_all true g (mk_hstate [] []) p) k = pget k (pure_exec_all [] p)) heap_is_immutable_store (eq_refl : verbs_pure = true))
           (eq_refl : amend_clones_first = true)).
Qed.
Print Assumptions C04_values_are_immutable.

(* a verb that stores into its operand (seeded change C04-5: reshape substituting the -1 of its shape in place) is observable:
   s::[-1 2]; d::s:^src leaves s changed *)
Theorem C04_values_refuted_with_impure_verb :
  exists p k, value_of (exec_all true false (mk_hstate [] []) p) k <> pget k (pure_exec_all [] p).
Proof.
  exists [SLit 1 [-1; 2]; SOp 2 (OOther (map (fun z => if z <? 0 then 5 else z))) 1], 1. vm_compute. discriminate.
Qed.

(* an amend that writes through its operand is observable through every view *)
Theorem C04_views_refuted_without_clone :
  exists p k, ~ In k (map target p) /\
    let st := exec_all false true (mk_hstate [] []) [SLit 1 [1; 2; 3]] in
    value_of (exec_all false true st p) k <> value_of st k.
Proof.
  exists [SOp 2 (ODrop 1) 1; SOp 3 (OAmend 0 9) 2], 1.
  split; [cbv; intros [H|[H|H]]; try discriminate H; exact H|]. vm_compute. discriminate.
Qed.

Example C04_views_example :
  let st := exec_all true true (mk_hstate [] []) [SLit 1 [1; 2; 3; 4]] in
  let st' := exec_all true true st [SOp 2 (ODrop 1) 1; SOp 3 ORev 2; SOp 4 (OAmend 0 9) 3; SCopy 5 1; SOp 5 (OAmend 1 7) 5] in
  env_ok st /\ value_of st' 1 = Some [1; 2; 3; 4] /\ value_of st' 2 = Some [2; 3; 4] /\
  value_of st' 3 = Some [4; 3; 2] /\ value_of st' 4 = Some [9; 3; 2] /\ value_of st' 5 = Some [1; 7; 3; 4].
Proof.
  split; [|vm_compute; repeat split; reflexivity].
  intros k a H. cbn in H. destruct (k =? 1); [|discriminate H]. inversion H; subst. cbn. auto.
Qed.
