(* C04/Proofs.v *)
From Coq Require Import ZArith List Bool Lia.
From C04 Require Import Model.
Import ListNotations.
Open Scope Z_scope.

(* ================================================================== *)
(* Part A *)

(* the syntax the compiler can admit at all (independent of the store) *)
Fixpoint syn (e : expr) : bool :=
  match e with
  | ELit (VInt _) => true
  | ELit _ => false
  | EVar _ => true
  | EBin _ a b => syn a && syn b
  | ERed a => syn a
  | _ => false
  end.

Definition nostr (v : val) : bool := match v with VStr _ => false | VList [] => false | _ => true end.   (* what a re-checked operand can be *)

Lemma admissible_syn e s : admissible e s = true -> syn e = true.
Proof.
  induction e as [v|n|o a IHa b IHb|a IHa|a IHa|n e IHe]; cbn; intros H; try discriminate; auto.
  apply andb_true_iff in H. destruct H. rewrite IHa, IHb; auto.
Qed.

Lemma compile_some e s c : compile e s = Some c -> c = e /\ syn c = true.
Proof.
  unfold compile. destruct (admissible e s) eqn:A; cbn; [|discriminate].
  destruct (has_var e); [|discriminate]. intros H; inversion H; subst. split; [reflexivity|]. eapply admissible_syn; eauto.
Qed.

Lemma zip_with_nonempty f x xs y ys : zip_with f (x :: xs) (y :: ys) <> [].
Proof. cbn. discriminate. Qed.

Lemma arith_nostr o a b v : nostr a = true -> nostr b = true -> arith o a b = Some v -> nostr v = true.
Proof.
  destruct a as [x|sa|[|x la]], b as [y|sb|[|y lb]]; cbn; intros Ha Hb H; try discriminate; try (inversion H; reflexivity).
  destruct (length la =? length lb)%nat; inversion H; reflexivity.
Qed.

Lemma py_bin_nostr o a b : nostr a = true -> nostr b = true -> py_bin o a b = arith o a b.
Proof. destruct o, a as [x|sa|[|x la]], b as [y|sb|[|y lb]]; cbn; intros; try discriminate; reflexivity. Qed.

Lemma red_agree v : nostr v = true -> exists z, py_red v = Some (VInt z) /\ kl_red v = VInt z.
Proof. destruct v as [x|sa|[|x la]]; cbn; intros H; try discriminate; eexists; split; reflexivity. Qed.

(* D5 on this fragment: with re-checked operands, compiled code that returns returns what the
   interpreter returns, and changes nothing *)
Lemma compiled_sound c : forall s v,
  syn c = true -> operands_ok c s = true -> py_run c s = Some v ->
  nostr v = true /\ eval_pure c s = (Ok v, s).
Proof.
  induction c as [v0|n|o a IHa b IHb|a IHa|a IHa|n e IHe]; intros s v Hs Ho Hp; cbn in *; try discriminate.
  - destruct v0; try discriminate. inversion Hp; subst. split; reflexivity.
  - rewrite Hp. rewrite Hp in Ho. destruct v as [z|str|[|x l]]; try discriminate; split; reflexivity.
  - apply andb_true_iff in Hs. destruct Hs as [Hsa Hsb].
    apply andb_true_iff in Ho. destruct Ho as [Hoa Hob].
    destruct (py_run a s) as [va|] eqn:Ea; [|discriminate].
    destruct (py_run b s) as [vb|] eqn:Eb; [|discriminate].
    destruct (IHa _ _ Hsa Hoa Ea) as [Na Pa]. destruct (IHb _ _ Hsb Hob Eb) as [Nb Pb].
    rewrite Pb, Pa. rewrite py_bin_nostr in Hp by assumption.
    unfold kl_bin. rewrite Hp. split; [exact (arith_nostr o va vb v Na Nb Hp)|reflexivity].
  - destruct (py_run a s) as [va|] eqn:Ea; [|discriminate].
    destruct (IHa _ _ Hs Ho Ea) as [Na Pa]. rewrite Pa.
    destruct (red_agree va Na) as (z & Hpy & Hkl). rewrite Hpy in Hp. inversion Hp; subst.
    rewrite Hkl. split; reflexivity.
Qed.

Fixpoint subexpr (e : expr) (p : path) {struct p} : option expr :=
  match p with
  | [] => Some e
  | i :: p' =>
      match e, i with
      | EBin _ a _, O => subexpr a p'
      | EBin _ _ b, S O => subexpr b p'
      | ESize a, O => subexpr a p'
      | ERed a, O => subexpr a p'
      | EDef _ e1, S O => subexpr e1 p'
      | _, _ => None
      end
  end.

Lemma subexpr_app e0 : forall p e i, subexpr e0 p = Some e -> subexpr e0 (p ++ [i]) = subexpr e [i].
Proof.
  intros p. revert e0. induction p as [|j p IH]; intros e0 e i H; cbn [app].
  - cbn [subexpr] in H. assert (e0 = e) by congruence. subst. reflexivity.
  - cbn [subexpr] in *. destruct e0; try discriminate; destruct j as [|[|j]]; try discriminate; eauto.
Qed.

Lemma path_eqb_eq a : forall b, path_eqb a b = true -> a = b.
Proof.
  induction a as [|x a IH]; intros [|y b] H; cbn in H; try discriminate; [reflexivity|].
  apply andb_true_iff in H. destruct H as [H1 H2]. apply Nat.eqb_eq in H1. subst. f_equal. auto.
Qed.

Lemma ckey_eqb_eq a b : ckey_eqb a b = true -> a = b.
Proof.
  destruct a as [t m], b as [t' m']. unfold ckey_eqb; cbn. intros H.
  apply andb_true_iff in H. destruct H as [H1 H2]. apply Z.eqb_eq in H1. apply Z.eqb_eq in H2. subst. reflexivity.
Qed.

Lemma ckey_eqb_refl a : ckey_eqb a a = true.
Proof. destruct a. unfold ckey_eqb; cbn. rewrite !Z.eqb_refl. reflexivity. Qed.

Lemma key_eqb_eq a b : key_eqb a b = true -> a = b.
Proof.
  destruct a as [t p], b as [t' p']. unfold key_eqb; cbn. intros H.
  apply andb_true_iff in H. destruct H as [H1 H2]. apply ckey_eqb_eq in H1. apply path_eqb_eq in H2. subst. reflexivity.
Qed.

Section A.
  Variable clear_on_set : bool.
  Variable parse : text -> module -> expr * module.

  (* the tree a key stands for when the key records the module the text was parsed under *)
  Definition tree_of (k : ckey) : expr := fst (parse (fst k) (snd k)).

  Definition wf (st : istate) : Prop :=
    (forall k e, plookup k (pcache st) = Some e -> e = tree_of k /\ snd (parse (fst k) (snd k)) = snd k) /\
    (forall k c, clookup k (ccache st) = Some (Some c) -> c = tree_of k /\ syn c = true) /\
    (forall k p c, mlookup (k, p) (memo st) = Some (Some c) -> subexpr (tree_of k) p = Some c /\ syn c = true).

  Lemma wf_fresh s : wf (fresh s).
  Proof. split; [|split]; cbn; intros; discriminate. Qed.

  (* one node: the cached / memoised evaluation is the pure one; the parser state is not touched *)
  Lemma ev_correct k : forall e root p st,
    wf st -> subexpr (tree_of k) p = Some e ->
    let r := ev true clear_on_set k root p e st in
    wf (snd r) /\ cur (snd r) = cur st /\ pcache (snd r) = pcache st /\
    (fst r, vars (snd r)) = eval_pure e (vars st).
  Proof.
    induction e as [v|n|o a IHa b IHb|a IHa|a IHa|n e IHe]; intros root p st W Hp; cbn zeta.
    - cbn. split; [exact W|repeat split; reflexivity].
    - cbn. destruct (slookup n (vars st)); cbn; (split; [exact W|repeat split; reflexivity]).
    - (* EBin *)
      cbn [ev eval_pure].
      assert (Hint : forall st', wf st' -> vars st' = vars st -> cur st' = cur st -> pcache st' = pcache st ->
                 let r := (let (rb, st1) := ev true clear_on_set k false (p ++ [1%nat]) b st' in
                           match rb with
                           | Err => (Err, st1)
                           | Ok vb => let (ra, st2) := ev true clear_on_set k false (p ++ [0%nat]) a st1 in
                                      match ra with
                                      | Err => (Err, st2)
                                      | Ok va => (kl_bin o va vb, st2)
                                      end
                           end) in
                 wf (snd r) /\ cur (snd r) = cur st /\ pcache (snd r) = pcache st /\ (fst r, vars (snd r)) =
                   (let (rb, s1) := eval_pure b (vars st) in
                    match rb with
                    | Err => (Err, s1)
                    | Ok vb => let (ra, s2) := eval_pure a s1 in
                               match ra with
                               | Err => (Err, s2)
                               | Ok va => (kl_bin o va vb, s2)
                               end
                    end)).
      { intros st' W' Hv Hc Hpc. cbn zeta.
        assert (Hb : subexpr (tree_of k) (p ++ [1%nat]) = Some b) by (rewrite (subexpr_app _ _ _ _ Hp); reflexivity).
        assert (Ha : subexpr (tree_of k) (p ++ [0%nat]) = Some a) by (rewrite (subexpr_app _ _ _ _ Hp); reflexivity).
        destruct (IHb false _ st' W' Hb) as (Wb & Cb & Pb & Eb). cbn zeta in *. rewrite Hv in Eb.
        destruct (ev true clear_on_set k false (p ++ [1%nat]) b st') as [rb st1]. cbn [fst snd] in *.
        destruct (eval_pure b (vars st)) as [rb' s1]. inversion Eb; subst rb' s1.
        destruct rb as [vb|]; [|cbn; split; [exact Wb|repeat split; congruence]].
        destruct (IHa false _ st1 Wb Ha) as (Wa & Ca & Pa & Ea). cbn zeta in *.
        destruct (ev true clear_on_set k false (p ++ [0%nat]) a st1) as [ra st2]. cbn [fst snd] in *.
        destruct (eval_pure a (vars st1)) as [ra' s2]. inversion Ea; subst ra' s2.
        destruct ra; cbn; (split; [exact Wa|repeat split; congruence]). }
      set (cs := if root then (compile (EBin o a b) (vars st), st)
                 else match mlookup (k, p) (memo st) with
                      | Some c => (c, st)
                      | None => (compile (EBin o a b) (vars st),
                                 mk_istate (vars st) (cur st) (pcache st) (ccache st) (((k, p), compile (EBin o a b) (vars st)) :: memo st))
                      end).
      assert (Hcs : wf (snd cs) /\ vars (snd cs) = vars st /\ cur (snd cs) = cur st /\ pcache (snd cs) = pcache st /\
                    forall c, fst cs = Some c -> c = EBin o a b /\ syn c = true).
      { unfold cs. destruct root.
        - cbn. split; [exact W|]. split; [reflexivity|]. split; [reflexivity|]. split; [reflexivity|]. intros c Hc. apply compile_some in Hc. exact Hc.
        - destruct (mlookup (k, p) (memo st)) as [c0|] eqn:EM.
          + cbn. split; [exact W|]. split; [reflexivity|]. split; [reflexivity|]. split; [reflexivity|]. intros c Hc. subst c0.
            destruct W as (_ & _ & W2). destruct (W2 _ _ _ EM) as [Hs Hy]. rewrite Hp in Hs. inversion Hs; subst. split; [reflexivity|exact Hy].
          + cbn. split; [|split; [reflexivity|split; [reflexivity|split; [reflexivity|intros c Hc; apply compile_some in Hc; exact Hc]]]].
            destruct W as (W0 & W1 & W2). split; [exact W0|]. split; cbn; [exact W1|].
            intros k' p' c Hl. cbn [mlookup] in Hl.
            destruct (key_eqb (k', p') (k, p)) eqn:EK.
            * apply key_eqb_eq in EK. inversion EK; subst. assert (Hc : compile (EBin o a b) (vars st) = Some c) by congruence.
              apply compile_some in Hc. destruct Hc as [-> Hy]. split; [exact Hp|exact Hy].
            * apply W2. exact Hl. }
      destruct cs as [code st'] eqn:Ecs. cbn [fst snd] in Hcs. destruct Hcs as (W' & Hv & Hcu & Hpc & Hc).
      destruct code as [c|].
      + destruct (Hc c eq_refl) as [-> Hy].
        unfold try_compiled. cbn [andb].
        destruct (operands_ok (EBin o a b) (vars st')) eqn:EO; cbn [negb].
        * destruct (py_run (EBin o a b) (vars st')) as [v|] eqn:EP.
          -- cbn [fst snd]. split; [exact W'|]. split; [exact Hcu|]. split; [exact Hpc|].
             destruct (compiled_sound _ _ _ Hy EO EP) as [_ Hpure]. rewrite Hv in Hpure.
             cbn [eval_pure] in Hpure. rewrite Hpure, Hv. reflexivity.
          -- apply Hint; assumption.
        * apply Hint; assumption.
      + apply Hint; assumption.
    - (* ESize *)
      cbn [ev eval_pure].
      assert (Ha : subexpr (tree_of k) (p ++ [0%nat]) = Some a) by (rewrite (subexpr_app _ _ _ _ Hp); reflexivity).
      destruct (IHa false _ st W Ha) as (Wa & Ca & Pa & Ea). cbn zeta in *.
      destruct (ev true clear_on_set k false (p ++ [0%nat]) a st) as [ra st1]. cbn [fst snd] in *.
      destruct (eval_pure a (vars st)) as [ra' s1]. inversion Ea; subst ra' s1.
      destruct ra; cbn; (split; [exact Wa|repeat split; assumption]).
    - (* ERed *)
      cbn [ev eval_pure].
      assert (Hint : forall st', wf st' -> vars st' = vars st -> cur st' = cur st -> pcache st' = pcache st ->
                 let r := (let (ra, st1) := ev true clear_on_set k false (p ++ [0%nat]) a st' in
                           match ra with Err => (Err, st1) | Ok va => (Ok (kl_red va), st1) end) in
                 wf (snd r) /\ cur (snd r) = cur st /\ pcache (snd r) = pcache st /\ (fst r, vars (snd r)) =
                   (let (ra, s1) := eval_pure a (vars st) in
                    match ra with Err => (Err, s1) | Ok va => (Ok (kl_red va), s1) end)).
      { intros st' W' Hv Hc Hpc. cbn zeta.
        assert (Ha : subexpr (tree_of k) (p ++ [0%nat]) = Some a) by (rewrite (subexpr_app _ _ _ _ Hp); reflexivity).
        destruct (IHa false _ st' W' Ha) as (Wa & Ca & Pa & Ea). cbn zeta in *. rewrite Hv in Ea.
        destruct (ev true clear_on_set k false (p ++ [0%nat]) a st') as [ra st1]. cbn [fst snd] in *.
        destruct (eval_pure a (vars st)) as [ra' s1]. inversion Ea; subst ra' s1.
        destruct ra; cbn; (split; [exact Wa|repeat split; congruence]). }
      set (cs := if root then (compile (ERed a) (vars st), st)
                 else match mlookup (k, p) (memo st) with
                      | Some c => (c, st)
                      | None => (compile (ERed a) (vars st),
                                 mk_istate (vars st) (cur st) (pcache st) (ccache st) (((k, p), compile (ERed a) (vars st)) :: memo st))
                      end).
      assert (Hcs : wf (snd cs) /\ vars (snd cs) = vars st /\ cur (snd cs) = cur st /\ pcache (snd cs) = pcache st /\
                    forall c, fst cs = Some c -> c = ERed a /\ syn c = true).
      { unfold cs. destruct root.
        - cbn. split; [exact W|]. split; [reflexivity|]. split; [reflexivity|]. split; [reflexivity|]. intros c Hc. apply compile_some in Hc. exact Hc.
        - destruct (mlookup (k, p) (memo st)) as [c0|] eqn:EM.
          + cbn. split; [exact W|]. split; [reflexivity|]. split; [reflexivity|]. split; [reflexivity|]. intros c Hc. subst c0.
            destruct W as (_ & _ & W2). destruct (W2 _ _ _ EM) as [Hs Hy]. rewrite Hp in Hs. inversion Hs; subst. split; [reflexivity|exact Hy].
          + cbn. split; [|split; [reflexivity|split; [reflexivity|split; [reflexivity|intros c Hc; apply compile_some in Hc; exact Hc]]]].
            destruct W as (W0 & W1 & W2). split; [exact W0|]. split; cbn; [exact W1|].
            intros k' p' c Hl. cbn [mlookup] in Hl.
            destruct (key_eqb (k', p') (k, p)) eqn:EK.
            * apply key_eqb_eq in EK. inversion EK; subst. assert (Hc : compile (ERed a) (vars st) = Some c) by congruence.
              apply compile_some in Hc. destruct Hc as [-> Hy]. split; [exact Hp|exact Hy].
            * apply W2. exact Hl. }
      destruct cs as [code st'] eqn:Ecs. cbn [fst snd] in Hcs. destruct Hcs as (W' & Hv & Hcu & Hpc & Hc).
      destruct code as [c|].
      + destruct (Hc c eq_refl) as [-> Hy].
        unfold try_compiled. cbn [andb].
        destruct (operands_ok (ERed a) (vars st')) eqn:EO; cbn [negb].
        * destruct (py_run (ERed a) (vars st')) as [v|] eqn:EP.
          -- cbn [fst snd]. split; [exact W'|]. split; [exact Hcu|]. split; [exact Hpc|].
             destruct (compiled_sound _ _ _ Hy EO EP) as [_ Hpure]. rewrite Hv in Hpure.
             cbn [eval_pure] in Hpure. rewrite Hpure, Hv. reflexivity.
          -- apply Hint; assumption.
        * apply Hint; assumption.
      + apply Hint; assumption.
    - (* EDef *)
      cbn [ev eval_pure].
      assert (He : subexpr (tree_of k) (p ++ [1%nat]) = Some e) by (rewrite (subexpr_app _ _ _ _ Hp); reflexivity).
      destruct (IHe false _ st W He) as (We & Ce & Pe & Ee). cbn zeta in *.
      destruct (ev true clear_on_set k false (p ++ [1%nat]) e st) as [r st1]. cbn [fst snd] in *.
      destruct (eval_pure e (vars st)) as [r' s1]. inversion Ee; subst r' s1.
      destruct r; cbn; [|split; [exact We|repeat split; assumption]].
      split; [|repeat split; assumption].
      destruct We as (W0 & W1 & W2). split; [exact W0|]. split; cbn; [|exact W2].
      destruct clear_on_set; [cbn; intros; discriminate|exact W1].
  Qed.

  Lemma run_tree_correct k st0 :
    wf st0 ->
    let r := run_tree true clear_on_set k (tree_of k) st0 in
    wf (snd r) /\ cur (snd r) = cur st0 /\ (fst r, vars (snd r)) = eval_pure (tree_of k) (vars st0).
  Proof.
    intros W0. unfold run_tree.
    destruct (clookup k (ccache st0)) as [c0|] eqn:EC.
    - assert (Hroot : let r := ev true clear_on_set k true [] (tree_of k) st0 in
                      wf (snd r) /\ cur (snd r) = cur st0 /\ (fst r, vars (snd r)) = eval_pure (tree_of k) (vars st0)).
      { destruct (ev_correct k (tree_of k) true [] st0 W0 eq_refl) as (Wr & Cr & _ & Er). cbn zeta in *. auto. }
      destruct c0 as [c|]; [|exact Hroot].
      destruct (proj1 (proj2 W0) _ _ EC) as [-> Hy].
      unfold try_compiled. cbn [andb].
      destruct (operands_ok (tree_of k) (vars st0)) eqn:EO; cbn [negb]; [|exact Hroot].
      destruct (py_run (tree_of k) (vars st0)) as [v|] eqn:EP; [|exact Hroot].
      cbn [fst snd]. split; [exact W0|]. split; [reflexivity|].
      destruct (compiled_sound _ _ _ Hy EO EP) as [_ Hpure]. rewrite Hpure. reflexivity.
    - set (st1 := mk_istate (vars st0) (cur st0) (pcache st0) ((k, compile (tree_of k) (vars st0)) :: ccache st0) (memo st0)).
      assert (W1 : wf st1).
      { destruct W0 as (Wa & Wb & Wc). split; [exact Wa|]. split; cbn; [|exact Wc].
        intros k' c Hl. destruct (ckey_eqb k' k) eqn:EK.
        + apply ckey_eqb_eq in EK. subst k'. assert (Hc : compile (tree_of k) (vars st0) = Some c) by congruence.
          apply compile_some in Hc. exact Hc.
        + apply Wb. exact Hl. }
      assert (Hroot : let r := ev true clear_on_set k true [] (tree_of k) st1 in
                      wf (snd r) /\ cur (snd r) = cur st0 /\ (fst r, vars (snd r)) = eval_pure (tree_of k) (vars st0)).
      { destruct (ev_correct k (tree_of k) true [] st1 W1 eq_refl) as (Wr & Cr & _ & Er). cbn zeta in *. auto. }
      destruct (compile (tree_of k) (vars st0)) as [c|] eqn:ECo; [|exact Hroot].
      apply compile_some in ECo. destruct ECo as [-> Hy].
      unfold try_compiled. cbn [andb]. change (vars st1) with (vars st0).
      destruct (operands_ok (tree_of k) (vars st0)) eqn:EO; cbn [negb]; [|exact Hroot].
      destruct (py_run (tree_of k) (vars st0)) as [v|] eqn:EP; [|exact Hroot].
      cbn [fst snd]. split; [exact W1|]. split; [reflexivity|].
      destruct (compiled_sound _ _ _ Hy EO EP) as [_ Hpure]. rewrite Hpure. reflexivity.
  Qed.

  (* __call__ with the (text, module) key and switching texts kept out of the parse cache *)
  Lemma run_cached_correct st t :
    wf st ->
    let r := run_cached true clear_on_set true parse true true st t in
    wf (snd r) /\
    (fst r, (cur (snd r), vars (snd r))) = eval_ref parse (cur st, vars st) t.
  Proof.
    intros W. unfold run_cached, eval_ref, key_of in *. cbn [fst snd] in *.
    change (if true then cur st else 0) with (cur st) in *.
    set (k := (t, cur st)) in *.
    destruct (plookup k (pcache st)) as [e|] eqn:EP; cbv beta iota.
    - destruct (proj1 W _ _ EP) as [He Hn]. subst e.
      destruct (run_tree_correct k st W) as (Wr & Cr & Er). cbn zeta in *.
      split; [exact Wr|].
      unfold tree_of, k in *; cbn [fst snd] in *.
      destruct (parse t (cur st)) as [e m'] eqn:EQ. cbn [fst snd] in *. subst m'.
      destruct (eval_pure e (vars st)) as [rr ss].
      injection Er as E1 E2. exact (f_equal2 pair E1 (f_equal2 pair Cr E2)).
    - destruct (parse t (cur st)) as [e m'] eqn:EQ.
      assert (He : e = tree_of k) by (unfold tree_of, k; cbn; rewrite EQ; reflexivity).
      assert (Href : eval_pure e (vars st) = eval_pure (tree_of k) (vars st)) by (rewrite He; reflexivity).
      rewrite Href. clear Href. rewrite He.
      cbn [andb].
      set (pc := if negb (m' =? cur st) then pcache st else (k, tree_of k) :: pcache st).
      assert (W0 : wf (mk_istate (vars st) m' pc (ccache st) (memo st))).
      { destruct W as (Wa & Wb & Wc). split; [|split; cbn; assumption].
        cbn. unfold pc. destruct (Z.eqb_spec m' (cur st)) as [Em|Em]; cbn [negb]; [|exact Wa].
        intros k' e' Hl. cbn [plookup] in Hl. destruct (ckey_eqb k' k) eqn:EK.
        + apply ckey_eqb_eq in EK. subst k'. split; [congruence|]. unfold k; cbn. rewrite EQ. cbn. exact Em.
        + apply Wa. exact Hl. }
      pose proof (run_tree_correct k _ W0) as HR. cbv zeta in HR.
      destruct HR as (Wr & Cr & Er). cbn [cur vars] in Cr, Er.
      split; [exact Wr|].
      destruct (eval_pure (tree_of k) (vars st)) as [rr ss].
      injection Er as E1 E2. exact (f_equal2 pair E1 (f_equal2 pair Cr E2)).
  Qed.

  Lemma history_correct h : forall st,
    wf st ->
    wf (state_after true clear_on_set true parse true true st h) /\
    (cur (state_after true clear_on_set true parse true true st h), vars (state_after true clear_on_set true parse true true st h))
      = ref_after parse (cur st, vars st) h.
  Proof.
    induction h as [|t r IH]; intros st W; cbn [state_after ref_after] in *; [split; [exact W|reflexivity]|].
    destruct (run_cached_correct st t W) as [W' E]. cbn zeta in *.
    destruct (IH _ W') as [W2 E2]. split; [exact W2|]. rewrite E2. f_equal.
    destruct (eval_ref parse (cur st, vars st) t) as [rr ms]. inversion E. reflexivity.
  Qed.

  Lemma cache_transparent s0 h t :
    let st := state_after true clear_on_set true parse true true (fresh s0) h in
    let r := run_cached true clear_on_set true parse true true st t in
    (fst r, (cur (snd r), vars (snd r))) = eval_ref parse (cur st, vars st) t
    /\ (cur st, vars st) = ref_after parse (0, s0) h.
  Proof.
    cbn zeta. destruct (history_correct h (fresh s0) (wf_fresh s0)) as [W E].
    split; [|exact E]. apply run_cached_correct; assumption.
  Qed.
End A.

(* ================================================================== *)
(* Part B: no operation writes into a buffer that existed before it *)

Definition env_ok (st : hstate) : Prop :=
  forall k a, elookup k (env st) = Some a -> (a_loc a < length (hp st))%nat.

Definition extends (h h' : heap) : Prop := exists ext, h' = h ++ ext.

Lemma extends_refl h : extends h h.
Proof. exists []. rewrite app_nil_r. reflexivity. Qed.

Lemma extends_trans a b c : extends a b -> extends b c -> extends a c.
Proof. intros [x ->] [y ->]. exists (x ++ y). rewrite app_assoc. reflexivity. Qed.

Lemma extends_hget h h' l : extends h h' -> (l < length h)%nat -> hget h' l = hget h l.
Proof. intros [ext ->] H. unfold hget. apply app_nth1. exact H. Qed.

Lemma extends_length h h' : extends h h' -> (length h <= length h')%nat.
Proof. intros [ext ->]. rewrite app_length. lia. Qed.

Lemma hset_last h b b' : hset (h ++ [b]) (length h) b' = h ++ [b'].
Proof.
  unfold hset. rewrite firstn_app, Nat.sub_diag, firstn_all. cbn [firstn]. rewrite app_nil_r.
  rewrite skipn_app, Nat.sub_diag, skipn_all. reflexivity.
Qed.

Lemma apply_aop_extends o h a h' a' :
  apply_aop true true o h a = (h', a') -> (a_loc a < length h)%nat ->
  extends h h' /\ (a_loc a' < length h')%nat.
Proof.
  destruct o; cbn [apply_aop]; intros H Hl.
  - inversion H; subst. split; [apply extends_refl|exact Hl].
  - inversion H; subst. split; [apply extends_refl|exact Hl].
  - inversion H; subst. split; [apply extends_refl|exact Hl].
  - unfold alloc in H. rewrite hset_last in H. inversion H; subst. cbn [a_loc].
    split; [eexists; reflexivity|]. rewrite app_length. cbn. lia.
  - unfold alloc in H. inversion H; subst. cbn [a_loc].
    split; [eexists; reflexivity|]. rewrite app_length. cbn. lia.
Qed.

Lemma elookup_eset_same k v s : elookup k (eset k v s) = Some v.
Proof.
  induction s as [|[k' v'] r IH]; cbn [eset elookup].
  - rewrite Z.eqb_refl. reflexivity.
  - destruct (Z.eqb_spec k k') as [->|Hne]; cbn [elookup].
    + rewrite Z.eqb_refl. reflexivity.
    + destruct (Z.eqb_spec k k'); [contradiction|]. exact IH.
Qed.

Lemma elookup_eset_other k v s u : u <> k -> elookup u (eset k v s) = elookup u s.
Proof.
  intros Hne. induction s as [|[k' v'] r IH]; cbn [eset elookup].
  - destruct (Z.eqb_spec u k); [contradiction|reflexivity].
  - destruct (Z.eqb_spec k k') as [->|Hkk]; cbn [elookup].
    + destruct (Z.eqb_spec u k'); [contradiction|reflexivity].
    + destruct (Z.eqb_spec u k'); [reflexivity|exact IH].
Qed.

Definition target (s : stmt) : name :=
  match s with SLit d _ => d | SOp d _ _ => d | SCopy d _ => d end.

Lemma exec_step st s :
  env_ok st ->
  let st' := exec true true st s in
  env_ok st' /\ extends (hp st) (hp st') /\
  forall k, k <> target s -> elookup k (env st') = elookup k (env st).
Proof.
  intros OK. destruct s as [d l|d o src|d src]; cbn [exec target].
  - unfold alloc. cbn zeta. split; [|split].
    + intros k a H. cbn [env hp] in *. rewrite app_length. cbn [length].
      destruct (Z.eq_dec k d) as [->|Hne].
      * rewrite elookup_eset_same in H. inversion H; subst. cbn. lia.
      * rewrite elookup_eset_other in H by exact Hne. apply OK in H. lia.
    + cbn [hp]. eexists; reflexivity.
    + intros k Hk. cbn [env]. apply elookup_eset_other. exact Hk.
  - destruct (elookup src (env st)) as [a|] eqn:E.
    + destruct (apply_aop true true o (hp st) a) as [h1 a1] eqn:EA.
      destruct (apply_aop_extends _ _ _ _ _ EA (OK _ _ E)) as [Hx Hl]. cbn zeta.
      split; [|split].
      * intros k a0 H. cbn [env hp] in *.
        destruct (Z.eq_dec k d) as [->|Hne].
        -- rewrite elookup_eset_same in H. inversion H; subst. exact Hl.
        -- rewrite elookup_eset_other in H by exact Hne. apply OK in H.
           pose proof (extends_length _ _ Hx). lia.
      * exact Hx.
      * intros k Hk. cbn [env]. apply elookup_eset_other. exact Hk.
    + cbn zeta. split; [exact OK|]. split; [apply extends_refl|reflexivity].
  - destruct (elookup src (env st)) as [a|] eqn:E.
    + cbn zeta. split; [|split].
      * intros k a0 H. cbn [env hp] in *.
        destruct (Z.eq_dec k d) as [->|Hne].
        -- rewrite elookup_eset_same in H. inversion H; subst. eapply OK; eauto.
        -- rewrite elookup_eset_other in H by exact Hne. eapply OK; eauto.
      * apply extends_refl.
      * intros k Hk. cbn [env]. apply elookup_eset_other. exact Hk.
    + cbn zeta. split; [exact OK|]. split; [apply extends_refl|reflexivity].
Qed.

Lemma exec_all_inv p : forall st,
  env_ok st ->
  let st' := exec_all true true st p in
  env_ok st' /\ extends (hp st) (hp st') /\
  forall k, ~ In k (map target p) -> elookup k (env st') = elookup k (env st).
Proof.
  unfold exec_all. induction p as [|s p IH]; intros st OK; cbn [fold_left map].
  - split; [exact OK|]. split; [apply extends_refl|reflexivity].
  - destruct (exec_step st s OK) as (OK1 & X1 & E1).
    destruct (IH _ OK1) as (OK2 & X2 & E2). cbn zeta in *.
    split; [exact OK2|]. split; [eapply extends_trans; eauto|].
    intros k Hk. rewrite E2 by (intros Hi; apply Hk; right; exact Hi).
    apply E1. intros ->. apply Hk. left; reflexivity.
Qed.

(* T4.views: whatever statements run — views taken, views amended, amended views amended again —
   a variable that is not itself assigned keeps its value *)
Lemma views_unobservable p st k :
  env_ok st -> ~ In k (map target p) -> value_of (exec_all true true st p) k = value_of st k.
Proof.
  intros OK Hk. destruct (exec_all_inv p st OK) as (_ & X & E). cbn zeta in *.
  unfold value_of. rewrite (E k Hk). destruct (elookup k (env st)) as [a|] eqn:EL; [|reflexivity].
  unfold deref. rewrite (extends_hget _ _ _ X (OK _ _ EL)). reflexivity.
Qed.

(* and every buffer that existed keeps its content: nothing is ever written in place *)
Lemma buffers_immutable p st l :
  env_ok st -> (l < length (hp st))%nat -> hget (hp (exec_all true true st p)) l = hget (hp st) l.
Proof.
  intros OK Hl. destruct (exec_all_inv p st OK) as (_ & X & _). apply extends_hget; assumption.
Qed.

(* ================================================================== *)
(* Part B, simulation: the heap program computes what the program over immutable lists computes *)

Lemma rv_length b : forall n o s, length (read_view b o s n) = n.
Proof. induction n as [|n IH]; intros o s; cbn [read_view length]; [reflexivity|]. rewrite IH. reflexivity. Qed.

Lemma rv_drop b s : forall k n o, (k <= n)%nat ->
  read_view b (o + Z.of_nat k * s) s (n - k) = skipn k (read_view b o s n).
Proof.
  induction k as [|k IH]; intros n o H.
  - cbn [Z.of_nat skipn]. rewrite Nat.sub_0_r. f_equal. lia.
  - destruct n as [|n]; [lia|]. cbn [read_view skipn]. replace (S n - S k)%nat with (n - k)%nat by lia.
    rewrite <- IH by lia. f_equal. lia.
Qed.

Lemma rv_take b s : forall k n o, read_view b o s (Nat.min k n) = firstn k (read_view b o s n).
Proof.
  induction k as [|k IH]; intros n o; [reflexivity|].
  destruct n as [|n]; [reflexivity|]. cbn [Nat.min read_view firstn]. rewrite IH. reflexivity.
Qed.

Lemma rv_snoc b s : forall n o,
  read_view b o s (S n) = read_view b o s n ++ [nth (Z.to_nat (o + Z.of_nat n * s)) b 0].
Proof.
  induction n as [|n IH]; intros o.
  - cbn. do 2 f_equal. lia.
  - change (read_view b o s (S (S n))) with (nth (Z.to_nat o) b 0 :: read_view b (o + s) s (S n)).
    rewrite IH. cbn [read_view app]. do 4 f_equal. lia.
Qed.

Lemma rv_rev b s : forall n o,
  read_view b (o + (Z.of_nat n - 1) * s) (- s) n = rev (read_view b o s n).
Proof.
  induction n as [|n IH]; intros o; [reflexivity|].
  rewrite (rv_snoc b s n o), rev_app_distr. cbn [rev app].
  change (read_view b (o + (Z.of_nat (S n) - 1) * s) (- s) (S n))
    with (nth (Z.to_nat (o + (Z.of_nat (S n) - 1) * s)) b 0
          :: read_view b (o + (Z.of_nat (S n) - 1) * s + - s) (- s) n).
  replace (o + (Z.of_nat (S n) - 1) * s + - s) with (o + (Z.of_nat n - 1) * s) by lia.
  rewrite IH. do 3 f_equal. lia.
Qed.

Lemma rv_id : forall b, read_view b 0 1 (length b) = b.
Proof.
  intros b. assert (H : forall k, (k <= length b)%nat -> read_view b (Z.of_nat k) 1 (length b - k) = skipn k b).
  { intros k. remember (length b - k)%nat as m eqn:Em. revert k Em.
    induction m as [|m IH]; intros k Em Hk.
    - cbn. symmetry. apply skipn_all2. lia.
    - cbn [read_view]. rewrite Nat2Z.id.
      replace (Z.of_nat k + 1) with (Z.of_nat (S k)) by lia. rewrite IH by lia.
      assert (Hlt : (k < length b)%nat) by lia.
      clear - Hlt. revert k Hlt. induction b as [|x b IHb]; intros k Hlt; [cbn in Hlt; lia|].
      destruct k as [|k]; [reflexivity|]. cbn [nth skipn]. apply IHb. cbn in Hlt. lia. }
  specialize (H 0%nat ltac:(lia)). rewrite Nat.sub_0_r in H. exact H.
Qed.

Lemma list_set_length l : forall i v, length (list_set l i v) = length l.
Proof. induction l as [|x l IH]; intros [|i] v; cbn; auto. Qed.

Lemma pget_pset_same k v s : pget k (pset k v s) = Some v.
Proof.
  induction s as [|[k' v'] r IH]; cbn [pset pget].
  - rewrite Z.eqb_refl. reflexivity.
  - destruct (Z.eqb_spec k k') as [->|Hne]; cbn [pget].
    + rewrite Z.eqb_refl. reflexivity.
    + destruct (Z.eqb_spec k k'); [contradiction|]. exact IH.
Qed.

Lemma pget_pset_other k v s u : u <> k -> pget u (pset k v s) = pget u s.
Proof.
  intros Hne. induction s as [|[k' v'] r IH]; cbn [pset pget].
  - destruct (Z.eqb_spec u k); [contradiction|reflexivity].
  - destruct (Z.eqb_spec k k') as [->|Hkk]; cbn [pget].
    + destruct (Z.eqb_spec u k'); [contradiction|reflexivity].
    + destruct (Z.eqb_spec u k'); [reflexivity|exact IH].
Qed.

(* the value a view operation / a cloning amend produces is the pure operation on the operand's value *)
Lemma apply_aop_value o h a h' a' :
  apply_aop true true o h a = (h', a') -> (a_loc a < length h)%nat ->
  deref h' a' = pure_aop o (deref h a).
Proof.
  destruct o; cbn [apply_aop pure_aop]; intros H Hl.
  - inversion H; subst. unfold deref; cbn [a_loc a_off a_step a_len].
    rewrite rv_drop by apply Nat.le_min_r.
    rewrite <- (rv_length (hget h' (a_loc a)) (a_len a) (a_off a) (a_step a)) at 1.
    set (l := read_view (hget h' (a_loc a)) (a_off a) (a_step a) (a_len a)).
    destruct (Nat.le_gt_cases n (length l)).
    + rewrite Nat.min_l by assumption. reflexivity.
    + rewrite Nat.min_r by lia. rewrite !skipn_all2 by lia. reflexivity.
  - inversion H; subst. unfold deref; cbn [a_loc a_off a_step a_len]. apply rv_take.
  - inversion H; subst. unfold deref; cbn [a_loc a_off a_step a_len]. apply rv_rev.
  - unfold alloc in H. rewrite hset_last in H. inversion H; subst.
    unfold deref at 1; cbn [a_loc a_off a_step a_len]. unfold hget. rewrite app_nth2 by lia.
    rewrite Nat.sub_diag. cbn [nth].
    rewrite <- (rv_length (hget h (a_loc a)) (a_len a) (a_off a) (a_step a)).
    fold (deref h a). rewrite <- (list_set_length (deref h a) i v). apply rv_id.
  - unfold alloc in H. inversion H; subst.
    unfold deref at 1; cbn [a_loc a_off a_step a_len]. unfold hget. rewrite app_nth2 by lia.
    rewrite Nat.sub_diag. cbn [nth]. apply rv_id.
Qed.

Definition sim (st : hstate) (ps : pstore) : Prop :=
  env_ok st /\ forall k, value_of st k = pget k ps.

Lemma sim_step st ps s : sim st ps -> sim (exec true true st s) (pure_exec ps s).
Proof.
  intros [OK V]. destruct (exec_step st s OK) as (OK' & X & E). cbn zeta in *.
  split; [exact OK'|].
  assert (Hother : forall k, k <> target s -> value_of (exec true true st s) k = value_of st k).
  { intros k Hk. unfold value_of. rewrite (E k Hk). destruct (elookup k (env st)) as [a|] eqn:EL; [|reflexivity].
    unfold deref. rewrite (extends_hget _ _ _ X (OK _ _ EL)). reflexivity. }
  destruct s as [d l|d o src|d src]; cbn [exec pure_exec target] in *.
  - intros k. destruct (Z.eq_dec k d) as [->|Hne].
    + rewrite pget_pset_same. unfold alloc, value_of. cbn [env hp]. rewrite elookup_eset_same.
      unfold deref; cbn [a_loc a_off a_step a_len]. unfold hget. rewrite app_nth2 by lia. rewrite Nat.sub_diag. cbn [nth].
      f_equal. apply rv_id.
    + rewrite pget_pset_other by exact Hne. rewrite <- V. apply Hother. exact Hne.
  - pose proof (V src) as Vs. unfold value_of in Vs.
    destruct (elookup src (env st)) as [a|] eqn:EL.
    + rewrite <- Vs. destruct (apply_aop true true o (hp st) a) as [h1 a1] eqn:EA. intros k.
      destruct (Z.eq_dec k d) as [->|Hne].
      * rewrite pget_pset_same. unfold value_of. cbn [env hp]. rewrite elookup_eset_same. f_equal.
        eapply apply_aop_value; eauto.
      * rewrite pget_pset_other by exact Hne. rewrite <- V.
        exact (Hother k Hne).
    + rewrite <- Vs. exact V.
  - pose proof (V src) as Vs. unfold value_of in Vs.
    destruct (elookup src (env st)) as [a|] eqn:EL.
    + rewrite <- Vs. intros k. destruct (Z.eq_dec k d) as [->|Hne].
      * rewrite pget_pset_same. unfold value_of. cbn [env hp]. rewrite elookup_eset_same. reflexivity.
      * rewrite pget_pset_other by exact Hne. rewrite <- V. apply Hother. exact Hne.
    + rewrite <- Vs. exact V.
Qed.

Lemma sim_all p : forall st ps, sim st ps -> sim (exec_all true true st p) (pure_exec_all ps p).
Proof.
  unfold exec_all, pure_exec_all. induction p as [|s p IH]; intros st ps H; cbn [fold_left]; [exact H|].
  apply IH. apply sim_step. exact H.
Qed.

Lemma sim_empty : sim (mk_hstate [] []) [].
Proof. split; [intros k a H; discriminate|reflexivity]. Qed.

(* values behave as immutable: after ANY statement sequence every variable holds the value the
   same program computes over a store of immutable lists *)
Lemma heap_is_immutable_store p k :
  value_of (exec_all true true (mk_hstate [] []) p) k = pget k (pure_exec_all [] p).
Proof. exact (proj2 (sim_all p _ _ sim_empty) k). Qed.
