(* C04/Proofs.v *)
From Coq Require Import ZArith List Bool Lia.
From C04 Require Import Model.
Import ListNotations.
Open Scope Z_scope.

(* ================================================================== *)
(* Part A *)

(* the syntax the compiler can admit at all (independent of the store) *)
Fixpoint syn (e : expr) : bool :=
  match e with
  | ELit (VInt _) => true
  | ELit _ => false
  | EVar _ => true
  | EBin _ a b => syn a && syn b
  | _ => false
  end.

Definition nostr (v : val) : bool := match v with VStr _ => false | _ => true end.

Lemma admissible_syn e s : admissible e s = true -> syn e = true.
Proof.
  induction e as [v|n|o a IHa b IHb|a IHa|n e IHe]; cbn; intros H; try discriminate; auto.
  apply andb_true_iff in H. destruct H. rewrite IHa, IHb; auto.
Qed.

Lemma compile_some e s c : compile e s = Some c -> c = e /\ syn c = true.
Proof.
  unfold compile. destruct (admissible e s) eqn:A; cbn; [|discriminate].
  destruct (has_var e); [|discriminate]. intros H; inversion H; subst. split; [reflexivity|]. eapply admissible_syn; eauto.
Qed.

Lemma arith_nostr o a b v : arith o a b = Some v -> nostr v = true.
Proof.
  destruct a, b; cbn; intros H; try discriminate; try (inversion H; reflexivity).
  destruct (length l =? length l0)%nat; inversion H; reflexivity.
Qed.

Lemma py_bin_nostr o a b : nostr a = true -> nostr b = true -> py_bin o a b = arith o a b.
Proof. destruct o, a, b; cbn; intros; try discriminate; reflexivity. Qed.

(* D5 on this fragment: with re-checked operands, compiled code that returns returns what the
   interpreter returns, and changes nothing *)
Lemma compiled_sound c : forall s v,
  syn c = true -> operands_ok c s = true -> py_run c s = Some v ->
  nostr v = true /\ eval_pure c s = (Ok v, s).
Proof.
  induction c as [v0|n|o a IHa b IHb|a IHa|n e IHe]; intros s v Hs Ho Hp; cbn in *; try discriminate.
  - destruct v0; try discriminate. inversion Hp; subst. split; reflexivity.
  - rewrite Hp. destruct v as [z|str|l]; [split; reflexivity| |split; reflexivity].
    rewrite Hp in Ho. discriminate.
  - apply andb_true_iff in Hs. destruct Hs as [Hsa Hsb].
    apply andb_true_iff in Ho. destruct Ho as [Hoa Hob].
    destruct (py_run a s) as [va|] eqn:Ea; [|discriminate].
    destruct (py_run b s) as [vb|] eqn:Eb; [|discriminate].
    destruct (IHa _ _ Hsa Hoa Ea) as [Na Pa]. destruct (IHb _ _ Hsb Hob Eb) as [Nb Pb].
    rewrite Pb, Pa. rewrite py_bin_nostr in Hp by assumption.
    unfold kl_bin. rewrite Hp. split; [eapply arith_nostr; eauto|reflexivity].
Qed.

Fixpoint subexpr (e : expr) (p : path) {struct p} : option expr :=
  match p with
  | [] => Some e
  | i :: p' =>
      match e, i with
      | EBin _ a _, O => subexpr a p'
      | EBin _ _ b, S O => subexpr b p'
      | ESize a, O => subexpr a p'
      | EDef _ e1, S O => subexpr e1 p'
      | _, _ => None
      end
  end.

Lemma subexpr_app e0 : forall p e i, subexpr e0 p = Some e -> subexpr e0 (p ++ [i]) = subexpr e [i].
Proof.
  intros p. revert e0. induction p as [|j p IH]; intros e0 e i H; cbn [app].
  - cbn [subexpr] in H. assert (e0 = e) by congruence. subst. reflexivity.
  - cbn [subexpr] in *. destruct e0; try discriminate; destruct j as [|[|j]]; try discriminate; eauto.
Qed.

Lemma path_eqb_eq a : forall b, path_eqb a b = true -> a = b.
Proof.
  induction a as [|x a IH]; intros [|y b] H; cbn in H; try discriminate; [reflexivity|].
  apply andb_true_iff in H. destruct H as [H1 H2]. apply Nat.eqb_eq in H1. subst. f_equal. auto.
Qed.

Lemma key_eqb_eq a b : key_eqb a b = true -> a = b.
Proof.
  destruct a as [t p], b as [t' p']. unfold key_eqb; cbn. intros H.
  apply andb_true_iff in H. destruct H as [H1 H2]. apply Z.eqb_eq in H1. apply path_eqb_eq in H2. subst. reflexivity.
Qed.

Section A.
  Variable clear_on_set : bool.
  Variable parse : text -> expr.

  Definition wf (st : istate) : Prop :=
    (forall t c, clookup t (ccache st) = Some (Some c) -> c = parse t /\ syn c = true) /\
    (forall t p c, mlookup (t, p) (memo st) = Some (Some c) -> subexpr (parse t) p = Some c /\ syn c = true).

  Lemma wf_fresh s : wf (fresh s).
  Proof. split; cbn; intros; discriminate. Qed.

  Lemma wf_set_vars st s cc : wf st -> (cc = ccache st \/ cc = []) -> wf (mk_istate s (pcache st) cc (memo st)).
  Proof.
    intros [W1 W2] Hc. split; cbn; [|exact W2].
    destruct Hc as [->| ->]; [exact W1|]. cbn; intros; discriminate.
  Qed.

  (* one node: the cached / memoised evaluation is the pure one *)
  Lemma ev_correct t : forall e root p st,
    wf st -> subexpr (parse t) p = Some e ->
    wf (snd (ev true clear_on_set t root p e st)) /\
    (fst (ev true clear_on_set t root p e st), vars (snd (ev true clear_on_set t root p e st)))
      = eval_pure e (vars st).
  Proof.
    induction e as [v|n|o a IHa b IHb|a IHa|n e IHe]; intros root p st W Hp.
    - cbn. split; [exact W|reflexivity].
    - cbn. destruct (slookup n (vars st)); cbn; split; try exact W; reflexivity.
    - (* EBin *)
      cbn [ev eval_pure].
      (* the interpreter path is the pure one from any well-formed state with the same variables *)
      assert (Hint : forall st', wf st' -> vars st' = vars st ->
                 let r := (let (rb, st1) := ev true clear_on_set t false (p ++ [1%nat]) b st' in
                           match rb with
                           | Err => (Err, st1)
                           | Ok vb => let (ra, st2) := ev true clear_on_set t false (p ++ [0%nat]) a st1 in
                                      match ra with
                                      | Err => (Err, st2)
                                      | Ok va => (kl_bin o va vb, st2)
                                      end
                           end) in
                 wf (snd r) /\ (fst r, vars (snd r)) =
                   (let (rb, s1) := eval_pure b (vars st) in
                    match rb with
                    | Err => (Err, s1)
                    | Ok vb => let (ra, s2) := eval_pure a s1 in
                               match ra with
                               | Err => (Err, s2)
                               | Ok va => (kl_bin o va vb, s2)
                               end
                    end)).
      { intros st' W' Hv. cbn zeta.
        assert (Hb : subexpr (parse t) (p ++ [1%nat]) = Some b) by (rewrite (subexpr_app _ _ _ _ Hp); reflexivity).
        assert (Ha : subexpr (parse t) (p ++ [0%nat]) = Some a) by (rewrite (subexpr_app _ _ _ _ Hp); reflexivity).
        destruct (IHb false _ st' W' Hb) as [Wb Eb]. rewrite Hv in Eb.
        destruct (ev true clear_on_set t false (p ++ [1%nat]) b st') as [rb st1]. cbn [fst snd] in *.
        destruct (eval_pure b (vars st)) as [rb' s1]. inversion Eb; subst rb' s1.
        destruct rb as [vb|]; [|cbn; split; [exact Wb|reflexivity]].
        destruct (IHa false _ st1 Wb Ha) as [Wa Ea].
        destruct (ev true clear_on_set t false (p ++ [0%nat]) a st1) as [ra st2]. cbn [fst snd] in *.
        destruct (eval_pure a (vars st1)) as [ra' s2]. inversion Ea; subst ra' s2.
        destruct ra; cbn; split; try exact Wa; reflexivity. }
      (* where the code comes from *)
      set (cs := if root then (compile (EBin o a b) (vars st), st)
                 else match mlookup (t, p) (memo st) with
                      | Some c => (c, st)
                      | None => (compile (EBin o a b) (vars st),
                                 mk_istate (vars st) (pcache st) (ccache st) (((t, p), compile (EBin o a b) (vars st)) :: memo st))
                      end).
      assert (Hcs : wf (snd cs) /\ vars (snd cs) = vars st /\
                    forall c, fst cs = Some c -> c = EBin o a b /\ syn c = true).
      { unfold cs. destruct root.
        - cbn. split; [exact W|]. split; [reflexivity|]. intros c Hc. apply compile_some in Hc. exact Hc.
        - destruct (mlookup (t, p) (memo st)) as [c0|] eqn:EM.
          + cbn. split; [exact W|]. split; [reflexivity|]. intros c Hc. subst c0.
            destruct W as [_ W2]. destruct (W2 _ _ _ EM) as [Hs Hy]. rewrite Hp in Hs. inversion Hs; subst. split; [reflexivity|exact Hy].
          + cbn. split; [|split; [reflexivity|intros c Hc; apply compile_some in Hc; exact Hc]].
            destruct W as [W1 W2]. split; cbn; [exact W1|].
            intros t' p' c Hl. cbn [mlookup] in Hl.
            destruct (key_eqb (t', p') (t, p)) eqn:EK.
            * apply key_eqb_eq in EK. inversion EK; subst. assert (Hc : compile (EBin o a b) (vars st) = Some c) by congruence.
              apply compile_some in Hc. destruct Hc as [-> Hy]. split; [exact Hp|exact Hy].
            * apply W2. exact Hl. }
      destruct cs as [code st'] eqn:Ecs. cbn [fst snd] in Hcs. destruct Hcs as (W' & Hv & Hc).
      destruct code as [c|].
      + destruct (Hc c eq_refl) as [-> Hy].
        unfold try_compiled. cbn [andb].
        destruct (operands_ok (EBin o a b) (vars st')) eqn:EO; cbn [negb].
        * destruct (py_run (EBin o a b) (vars st')) as [v|] eqn:EP.
          -- cbn [fst snd]. split; [exact W'|].
             destruct (compiled_sound _ _ _ Hy EO EP) as [_ Hpure]. rewrite Hv in Hpure.
             cbn [eval_pure] in Hpure. rewrite Hpure, Hv. reflexivity.
          -- apply Hint; assumption.
        * apply Hint; assumption.
      + apply Hint; assumption.
    - (* ESize *)
      cbn [ev eval_pure].
      assert (Ha : subexpr (parse t) (p ++ [0%nat]) = Some a) by (rewrite (subexpr_app _ _ _ _ Hp); reflexivity).
      destruct (IHa false _ st W Ha) as [Wa Ea].
      destruct (ev true clear_on_set t false (p ++ [0%nat]) a st) as [ra st1]. cbn [fst snd] in *.
      destruct (eval_pure a (vars st)) as [ra' s1]. inversion Ea; subst ra' s1.
      destruct ra; cbn; split; try exact Wa; reflexivity.
    - (* EDef *)
      cbn [ev eval_pure].
      assert (He : subexpr (parse t) (p ++ [1%nat]) = Some e) by (rewrite (subexpr_app _ _ _ _ Hp); reflexivity).
      destruct (IHe false _ st W He) as [We Ee].
      destruct (ev true clear_on_set t false (p ++ [1%nat]) e st) as [r st1]. cbn [fst snd] in *.
      destruct (eval_pure e (vars st)) as [r' s1]. inversion Ee; subst r' s1.
      destruct r; cbn; [|split; [exact We|reflexivity]].
      split; [|reflexivity]. apply wf_set_vars; [exact We|]. destruct clear_on_set; auto.
  Qed.

  Lemma run_cached_correct st t :
    wf st ->
    wf (snd (run_cached true clear_on_set parse st t)) /\
    (fst (run_cached true clear_on_set parse st t), vars (snd (run_cached true clear_on_set parse st t)))
      = eval_pure (parse t) (vars st).
  Proof.
    intros W. unfold run_cached.
    set (st0 := mk_istate (vars st) (if existsb (Z.eqb t) (pcache st) then pcache st else t :: pcache st) (ccache st) (memo st)).
    assert (W0 : wf st0) by (destruct W as [W1 W2]; split; cbn; assumption).
    set (cs := match clookup t (ccache st0) with
               | Some c => (c, st0)
               | None => (compile (parse t) (vars st0),
                          mk_istate (vars st0) (pcache st0) ((t, compile (parse t) (vars st0)) :: ccache st0) (memo st0))
               end).
    assert (Hcs : wf (snd cs) /\ vars (snd cs) = vars st /\ forall c, fst cs = Some c -> c = parse t /\ syn c = true).
    { unfold cs. destruct (clookup t (ccache st0)) as [c0|] eqn:EC.
      - cbn. split; [exact W0|]. split; [reflexivity|]. intros c ->. destruct W0 as [W1 _]. apply W1. exact EC.
      - cbn. split; [|split; [reflexivity|intros c Hc; apply compile_some in Hc; exact Hc]].
        destruct W0 as [W1 W2]. split; cbn; [|exact W2].
        intros t' c Hl. destruct (Z.eqb_spec t' t) as [->|Hne].
        + inversion Hl as [Hc]. apply compile_some in Hc. exact Hc.
        + apply W1. exact Hl. }
    destruct cs as [code st1] eqn:Ecs. cbn [fst snd] in Hcs. destruct Hcs as (W1 & Hv & Hc).
    assert (Hroot : wf (snd (ev true clear_on_set t true [] (parse t) st1)) /\
                    (fst (ev true clear_on_set t true [] (parse t) st1), vars (snd (ev true clear_on_set t true [] (parse t) st1)))
                      = eval_pure (parse t) (vars st)).
    { rewrite <- Hv. apply ev_correct; [exact W1|reflexivity]. }
    destruct code as [c|]; [|exact Hroot].
    destruct (Hc c eq_refl) as [-> Hy].
    unfold try_compiled. cbn [andb].
    destruct (operands_ok (parse t) (vars st1)) eqn:EO; cbn [negb]; [|exact Hroot].
    destruct (py_run (parse t) (vars st1)) as [v|] eqn:EP; [|exact Hroot].
    cbn [fst snd]. split; [exact W1|].
    destruct (compiled_sound _ _ _ Hy EO EP) as [_ Hpure]. rewrite Hv in Hpure. rewrite Hpure, Hv. reflexivity.
  Qed.

  Lemma state_after_wf h : forall st, wf st -> wf (state_after true clear_on_set parse st h).
  Proof.
    induction h as [|t r IH]; intros st W; cbn [state_after]; [exact W|].
    apply IH. apply run_cached_correct. exact W.
  Qed.

  (* the variable state after a history is the one the pure interpreter produces *)
  Fixpoint pure_after (s : store) (h : list text) : store :=
    match h with
    | [] => s
    | t :: r => pure_after (snd (eval_pure (parse t) s)) r
    end.

  Lemma state_after_vars h : forall st, wf st ->
    vars (state_after true clear_on_set parse st h) = pure_after (vars st) h.
  Proof.
    induction h as [|t r IH]; intros st W; cbn [state_after pure_after]; [reflexivity|].
    destruct (run_cached_correct st t W) as [W' E].
    rewrite IH by exact W'. f_equal.
    destruct (eval_pure (parse t) (vars st)). inversion E. reflexivity.
  Qed.

  Lemma cache_transparent s0 h t :
    let st := state_after true clear_on_set parse (fresh s0) h in
    (fst (run_cached true clear_on_set parse st t), vars (snd (run_cached true clear_on_set parse st t)))
      = eval_pure (parse t) (vars st)
    /\ vars st = pure_after s0 h.
  Proof.
    cbn zeta. split.
    - apply run_cached_correct. apply state_after_wf. apply wf_fresh.
    - apply (state_after_vars h (fresh s0)). apply wf_fresh.
  Qed.
End A.

(* ================================================================== *)
(* Part B: no operation writes into a buffer that existed before it *)

Definition env_ok (st : hstate) : Prop :=
  forall k a, elookup k (env st) = Some a -> (a_loc a < length (hp st))%nat.

Definition extends (h h' : heap) : Prop := exists ext, h' = h ++ ext.

Lemma extends_refl h : extends h h.
Proof. exists []. rewrite app_nil_r. reflexivity. Qed.

Lemma extends_trans a b c : extends a b -> extends b c -> extends a c.
Proof. intros [x ->] [y ->]. exists (x ++ y). rewrite app_assoc. reflexivity. Qed.

Lemma extends_hget h h' l : extends h h' -> (l < length h)%nat -> hget h' l = hget h l.
Proof. intros [ext ->] H. unfold hget. apply app_nth1. exact H. Qed.

Lemma extends_length h h' : extends h h' -> (length h <= length h')%nat.
Proof. intros [ext ->]. rewrite app_length. lia. Qed.

Lemma hset_last h b b' : hset (h ++ [b]) (length h) b' = h ++ [b'].
Proof.
  unfold hset. rewrite firstn_app, Nat.sub_diag, firstn_all. cbn [firstn]. rewrite app_nil_r.
  rewrite skipn_app, Nat.sub_diag, skipn_all. reflexivity.
Qed.

Lemma apply_aop_extends o h a h' a' :
  apply_aop true o h a = (h', a') -> (a_loc a < length h)%nat ->
  extends h h' /\ (a_loc a' < length h')%nat.
Proof.
  destruct o; cbn [apply_aop]; intros H Hl.
  - inversion H; subst. split; [apply extends_refl|exact Hl].
  - inversion H; subst. split; [apply extends_refl|exact Hl].
  - inversion H; subst. split; [apply extends_refl|exact Hl].
  - unfold alloc in H. rewrite hset_last in H. inversion H; subst. cbn [a_loc].
    split; [eexists; reflexivity|]. rewrite app_length. cbn. lia.
Qed.

Lemma elookup_eset_same k v s : elookup k (eset k v s) = Some v.
Proof.
  induction s as [|[k' v'] r IH]; cbn [eset elookup].
  - rewrite Z.eqb_refl. reflexivity.
  - destruct (Z.eqb_spec k k') as [->|Hne]; cbn [elookup].
    + rewrite Z.eqb_refl. reflexivity.
    + destruct (Z.eqb_spec k k'); [contradiction|]. exact IH.
Qed.

Lemma elookup_eset_other k v s u : u <> k -> elookup u (eset k v s) = elookup u s.
Proof.
  intros Hne. induction s as [|[k' v'] r IH]; cbn [eset elookup].
  - destruct (Z.eqb_spec u k); [contradiction|reflexivity].
  - destruct (Z.eqb_spec k k') as [->|Hkk]; cbn [elookup].
    + destruct (Z.eqb_spec u k'); [contradiction|reflexivity].
    + destruct (Z.eqb_spec u k'); [reflexivity|exact IH].
Qed.

Definition target (s : stmt) : name :=
  match s with SLit d _ => d | SOp d _ _ => d | SCopy d _ => d end.

Lemma exec_step st s :
  env_ok st ->
  let st' := exec true st s in
  env_ok st' /\ extends (hp st) (hp st') /\
  forall k, k <> target s -> elookup k (env st') = elookup k (env st).
Proof.
  intros OK. destruct s as [d l|d o src|d src]; cbn [exec target].
  - unfold alloc. cbn zeta. split; [|split].
    + intros k a H. cbn [env hp] in *. rewrite app_length. cbn [length].
      destruct (Z.eq_dec k d) as [->|Hne].
      * rewrite elookup_eset_same in H. inversion H; subst. cbn. lia.
      * rewrite elookup_eset_other in H by exact Hne. apply OK in H. lia.
    + cbn [hp]. eexists; reflexivity.
    + intros k Hk. cbn [env]. apply elookup_eset_other. exact Hk.
  - destruct (elookup src (env st)) as [a|] eqn:E.
    + destruct (apply_aop true o (hp st) a) as [h1 a1] eqn:EA.
      destruct (apply_aop_extends _ _ _ _ _ EA (OK _ _ E)) as [Hx Hl]. cbn zeta.
      split; [|split].
      * intros k a0 H. cbn [env hp] in *.
        destruct (Z.eq_dec k d) as [->|Hne].
        -- rewrite elookup_eset_same in H. inversion H; subst. exact Hl.
        -- rewrite elookup_eset_other in H by exact Hne. apply OK in H.
           pose proof (extends_length _ _ Hx). lia.
      * exact Hx.
      * intros k Hk. cbn [env]. apply elookup_eset_other. exact Hk.
    + cbn zeta. split; [exact OK|]. split; [apply extends_refl|reflexivity].
  - destruct (elookup src (env st)) as [a|] eqn:E.
    + cbn zeta. split; [|split].
      * intros k a0 H. cbn [env hp] in *.
        destruct (Z.eq_dec k d) as [->|Hne].
        -- rewrite elookup_eset_same in H. inversion H; subst. eapply OK; eauto.
        -- rewrite elookup_eset_other in H by exact Hne. eapply OK; eauto.
      * apply extends_refl.
      * intros k Hk. cbn [env]. apply elookup_eset_other. exact Hk.
    + cbn zeta. split; [exact OK|]. split; [apply extends_refl|reflexivity].
Qed.

Lemma exec_all_inv p : forall st,
  env_ok st ->
  let st' := exec_all true st p in
  env_ok st' /\ extends (hp st) (hp st') /\
  forall k, ~ In k (map target p) -> elookup k (env st') = elookup k (env st).
Proof.
  unfold exec_all. induction p as [|s p IH]; intros st OK; cbn [fold_left map].
  - split; [exact OK|]. split; [apply extends_refl|reflexivity].
  - destruct (exec_step st s OK) as (OK1 & X1 & E1).
    destruct (IH _ OK1) as (OK2 & X2 & E2). cbn zeta in *.
    split; [exact OK2|]. split; [eapply extends_trans; eauto|].
    intros k Hk. rewrite E2 by (intros Hi; apply Hk; right; exact Hi).
    apply E1. intros ->. apply Hk. left; reflexivity.
Qed.

(* T4.views: whatever statements run — views taken, views amended, amended views amended again —
   a variable that is not itself assigned keeps its value *)
Lemma views_unobservable p st k :
  env_ok st -> ~ In k (map target p) -> value_of (exec_all true st p) k = value_of st k.
Proof.
  intros OK Hk. destruct (exec_all_inv p st OK) as (_ & X & E). cbn zeta in *.
  unfold value_of. rewrite (E k Hk). destruct (elookup k (env st)) as [a|] eqn:EL; [|reflexivity].
  unfold deref. rewrite (extends_hget _ _ _ X (OK _ _ EL)). reflexivity.
Qed.

(* and every buffer that existed keeps its content: nothing is ever written in place *)
Lemma buffers_immutable p st l :
  env_ok st -> (l < length (hp st))%nat -> hget (hp (exec_all true st p)) l = hget (hp st) l.
Proof.
  intros OK Hl. destruct (exec_all_inv p st OK) as (_ & X & _). apply extends_hget; assumption.
Qed.
