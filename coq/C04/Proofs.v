(* C04/Proofs.v *)
From Coq Require Import ZArith List Bool Lia.
From C04 Require Import Model.
Import ListNotations.
Open Scope Z_scope.

(* ================================================================== *)
(* Part A *)

(* the syntax the compiler can admit at all (independent of the store) *)
Fixpoint syn (e : expr) : bool :=
  match e with
  | ELit (VInt _) => true
  | ELit _ => false
  | EVar _ => true
  | EBin _ a b => syn a && syn b
  | _ => false
  end.

Definition nostr (v : val) : bool := match v with VStr _ => false | _ => true end.

Lemma admissible_syn e s : admissible e s = true -> syn e = true.
Proof.
  induction e as [v|n|o a IHa b IHb|a IHa|n e IHe]; cbn; intros H; try discriminate; auto.
  apply andb_true_iff in H. destruct H. rewrite IHa, IHb; auto.
Qed.

Lemma compile_some e s c : compile e s = Some c -> c = e /\ syn c = true.
Proof.
  unfold compile. destruct (admissible e s) eqn:A; cbn; [|discriminate].
  destruct (has_var e); [|discriminate]. intros H; inversion H; subst. split; [reflexivity|]. eapply admissible_syn; eauto.
Qed.

Lemma arith_nostr o a b v : arith o a b = Some v -> nostr v = true.
Proof.
  destruct a, b; cbn; intros H; try discriminate; try (inversion H; reflexivity).
  destruct (length l =? length l0)%nat; inversion H; reflexivity.
Qed.

Lemma py_bin_nostr o a b : nostr a = true -> nostr b = true -> py_bin o a b = arith o a b.
Proof. destruct o, a, b; cbn; intros; try discriminate; reflexivity. Qed.

(* D5 on this fragment: with re-checked operands, compiled code that returns returns what the
   interpreter returns, and changes nothing *)
Lemma compiled_sound c : forall s v,
  syn c = true -> operands_ok c s = true -> py_run c s = Some v ->
  nostr v = true /\ eval_pure c s = (Ok v, s).
Proof.
  induction c as [v0|n|o a IHa b IHb|a IHa|n e IHe]; intros s v Hs Ho Hp; cbn in *; try discriminate.
  - destruct v0; try discriminate. inversion Hp; subst. split; reflexivity.
  - rewrite Hp. destruct v as [z|str|l]; [split; reflexivity| |split; reflexivity].
    rewrite Hp in Ho. discriminate.
  - apply andb_true_iff in Hs. destruct Hs as [Hsa Hsb].
    apply andb_true_iff in Ho. destruct Ho as [Hoa Hob].
    destruct (py_run a s) as [va|] eqn:Ea; [|discriminate].
    destruct (py_run b s) as [vb|] eqn:Eb; [|discriminate].
    destruct (IHa _ _ Hsa Hoa Ea) as [Na Pa]. destruct (IHb _ _ Hsb Hob Eb) as [Nb Pb].
    rewrite Pb, Pa. rewrite py_bin_nostr in Hp by assumption.
    unfold kl_bin. rewrite Hp. split; [eapply arith_nostr; eauto|reflexivity].
Qed.

Fixpoint subexpr (e : expr) (p : path) {struct p} : option expr :=
  match p with
  | [] => Some e
  | i :: p' =>
      match e, i with
      | EBin _ a _, O => subexpr a p'
      | EBin _ _ b, S O => subexpr b p'
      | ESize a, O => subexpr a p'
      | EDef _ e1, S O => subexpr e1 p'
      | _, _ => None
      end
  end.

Lemma subexpr_app e0 : forall p e i, subexpr e0 p = Some e -> subexpr e0 (p ++ [i]) = subexpr e [i].
Proof.
  intros p. revert e0. induction p as [|j p IH]; intros e0 e i H; cbn [app].
  - cbn [subexpr] in H. assert (e0 = e) by congruence. subst. reflexivity.
  - cbn [subexpr] in *. destruct e0; try discriminate; destruct j as [|[|j]]; try discriminate; eauto.
Qed.

Lemma path_eqb_eq a : forall b, path_eqb a b = true -> a = b.
Proof.
  induction a as [|x a IH]; intros [|y b] H; cbn in H; try discriminate; [reflexivity|].
  apply andb_true_iff in H. destruct H as [H1 H2]. apply Nat.eqb_eq in H1. subst. f_equal. auto.
Qed.

Lemma ckey_eqb_eq a b : ckey_eqb a b = true -> a = b.
Proof.
  destruct a as [t m], b as [t' m']. unfold ckey_eqb; cbn. intros H.
  apply andb_true_iff in H. destruct H as [H1 H2]. apply Z.eqb_eq in H1. apply Z.eqb_eq in H2. subst. reflexivity.
Qed.

Lemma ckey_eqb_refl a : ckey_eqb a a = true.
Proof. destruct a. unfold ckey_eqb; cbn. rewrite !Z.eqb_refl. reflexivity. Qed.

Lemma key_eqb_eq a b : key_eqb a b = true -> a = b.
Proof.
  destruct a as [t p], b as [t' p']. unfold key_eqb; cbn. intros H.
  apply andb_true_iff in H. destruct H as [H1 H2]. apply ckey_eqb_eq in H1. apply path_eqb_eq in H2. subst. reflexivity.
Qed.

Section A.
  Variable clear_on_set : bool.
  Variable parse : text -> module -> expr * module.

  (* the tree a key stands for when the key records the module the text was parsed under *)
  Definition tree_of (k : ckey) : expr := fst (parse (fst k) (snd k)).

  Definition wf (st : istate) : Prop :=
    (forall k e, plookup k (pcache st) = Some e -> e = tree_of k /\ snd (parse (fst k) (snd k)) = snd k) /\
    (forall k c, clookup k (ccache st) = Some (Some c) -> c = tree_of k /\ syn c = true) /\
    (forall k p c, mlookup (k, p) (memo st) = Some (Some c) -> subexpr (tree_of k) p = Some c /\ syn c = true).

  Lemma wf_fresh s : wf (fresh s).
  Proof. split; [|split]; cbn; intros; discriminate. Qed.

  (* one node: the cached / memoised evaluation is the pure one; the parser state is not touched *)
  Lemma ev_correct k : forall e root p st,
    wf st -> subexpr (tree_of k) p = Some e ->
    let r := ev true clear_on_set k root p e st in
    wf (snd r) /\ cur (snd r) = cur st /\ pcache (snd r) = pcache st /\
    (fst r, vars (snd r)) = eval_pure e (vars st).
  Proof.
    induction e as [v|n|o a IHa b IHb|a IHa|n e IHe]; intros root p st W Hp; cbn zeta.
    - cbn. split; [exact W|repeat split; reflexivity].
    - cbn. destruct (slookup n (vars st)); cbn; (split; [exact W|repeat split; reflexivity]).
    - (* EBin *)
      cbn [ev eval_pure].
      assert (Hint : forall st', wf st' -> vars st' = vars st -> cur st' = cur st -> pcache st' = pcache st ->
                 let r := (let (rb, st1) := ev true clear_on_set k false (p ++ [1%nat]) b st' in
                           match rb with
                           | Err => (Err, st1)
                           | Ok vb => let (ra, st2) := ev true clear_on_set k false (p ++ [0%nat]) a st1 in
                                      match ra with
                                      | Err => (Err, st2)
                                      | Ok va => (kl_bin o va vb, st2)
                                      end
                           end) in
                 wf (snd r) /\ cur (snd r) = cur st /\ pcache (snd r) = pcache st /\ (fst r, vars (snd r)) =
                   (let (rb, s1) := eval_pure b (vars st) in
                    match rb with
                    | Err => (Err, s1)
                    | Ok vb => let (ra, s2) := eval_pure a s1 in
                               match ra with
                               | Err => (Err, s2)
                               | Ok va => (kl_bin o va vb, s2)
                               end
                    end)).
      { intros st' W' Hv Hc Hpc. cbn zeta.
        assert (Hb : subexpr (tree_of k) (p ++ [1%nat]) = Some b) by (rewrite (subexpr_app _ _ _ _ Hp); reflexivity).
        assert (Ha : subexpr (tree_of k) (p ++ [0%nat]) = Some a) by (rewrite (subexpr_app _ _ _ _ Hp); reflexivity).
        destruct (IHb false _ st' W' Hb) as (Wb & Cb & Pb & Eb). cbn zeta in *. rewrite Hv in Eb.
        destruct (ev true clear_on_set k false (p ++ [1%nat]) b st') as [rb st1]. cbn [fst snd] in *.
        destruct (eval_pure b (vars st)) as [rb' s1]. inversion Eb; subst rb' s1.
        destruct rb as [vb|]; [|cbn; split; [exact Wb|repeat split; congruence]].
        destruct (IHa false _ st1 Wb Ha) as (Wa & Ca & Pa & Ea). cbn zeta in *.
        destruct (ev true clear_on_set k false (p ++ [0%nat]) a st1) as [ra st2]. cbn [fst snd] in *.
        destruct (eval_pure a (vars st1)) as [ra' s2]. inversion Ea; subst ra' s2.
        destruct ra; cbn; (split; [exact Wa|repeat split; congruence]). }
      set (cs := if root then (compile (EBin o a b) (vars st), st)
                 else match mlookup (k, p) (memo st) with
                      | Some c => (c, st)
                      | None => (compile (EBin o a b) (vars st),
                                 mk_istate (vars st) (cur st) (pcache st) (ccache st) (((k, p), compile (EBin o a b) (vars st)) :: memo st))
                      end).
      assert (Hcs : wf (snd cs) /\ vars (snd cs) = vars st /\ cur (snd cs) = cur st /\ pcache (snd cs) = pcache st /\
                    forall c, fst cs = Some c -> c = EBin o a b /\ syn c = true).
      { unfold cs. destruct root.
        - cbn. split; [exact W|]. split; [reflexivity|]. split; [reflexivity|]. split; [reflexivity|]. intros c Hc. apply compile_some in Hc. exact Hc.
        - destruct (mlookup (k, p) (memo st)) as [c0|] eqn:EM.
          + cbn. split; [exact W|]. split; [reflexivity|]. split; [reflexivity|]. split; [reflexivity|]. intros c Hc. subst c0.
            destruct W as (_ & _ & W2). destruct (W2 _ _ _ EM) as [Hs Hy]. rewrite Hp in Hs. inversion Hs; subst. split; [reflexivity|exact Hy].
          + cbn. split; [|split; [reflexivity|split; [reflexivity|split; [reflexivity|intros c Hc; apply compile_some in Hc; exact Hc]]]].
            destruct W as (W0 & W1 & W2). split; [exact W0|]. split; cbn; [exact W1|].
            intros k' p' c Hl. cbn [mlookup] in Hl.
            destruct (key_eqb (k', p') (k, p)) eqn:EK.
            * apply key_eqb_eq in EK. inversion EK; subst. assert (Hc : compile (EBin o a b) (vars st) = Some c) by congruence.
              apply compile_some in Hc. destruct Hc as [-> Hy]. split; [exact Hp|exact Hy].
            * apply W2. exact Hl. }
      destruct cs as [code st'] eqn:Ecs. cbn [fst snd] in Hcs. destruct Hcs as (W' & Hv & Hcu & Hpc & Hc).
      destruct code as [c|].
      + destruct (Hc c eq_refl) as [-> Hy].
        unfold try_compiled. cbn [andb].
        destruct (operands_ok (EBin o a b) (vars st')) eqn:EO; cbn [negb].
        * destruct (py_run (EBin o a b) (vars st')) as [v|] eqn:EP.
          -- cbn [fst snd]. split; [exact W'|]. split; [exact Hcu|]. split; [exact Hpc|].
             destruct (compiled_sound _ _ _ Hy EO EP) as [_ Hpure]. rewrite Hv in Hpure.
             cbn [eval_pure] in Hpure. rewrite Hpure, Hv. reflexivity.
          -- apply Hint; assumption.
        * apply Hint; assumption.
      + apply Hint; assumption.
    - (* ESize *)
      cbn [ev eval_pure].
      assert (Ha : subexpr (tree_of k) (p ++ [0%nat]) = Some a) by (rewrite (subexpr_app _ _ _ _ Hp); reflexivity).
      destruct (IHa false _ st W Ha) as (Wa & Ca & Pa & Ea). cbn zeta in *.
      destruct (ev true clear_on_set k false (p ++ [0%nat]) a st) as [ra st1]. cbn [fst snd] in *.
      destruct (eval_pure a (vars st)) as [ra' s1]. inversion Ea; subst ra' s1.
      destruct ra; cbn; (split; [exact Wa|repeat split; assumption]).
    - (* EDef *)
      cbn [ev eval_pure].
      assert (He : subexpr (tree_of k) (p ++ [1%nat]) = Some e) by (rewrite (subexpr_app _ _ _ _ Hp); reflexivity).
      destruct (IHe false _ st W He) as (We & Ce & Pe & Ee). cbn zeta in *.
      destruct (ev true clear_on_set k false (p ++ [1%nat]) e st) as [r st1]. cbn [fst snd] in *.
      destruct (eval_pure e (vars st)) as [r' s1]. inversion Ee; subst r' s1.
      destruct r; cbn; [|split; [exact We|repeat split; assumption]].
      split; [|repeat split; assumption].
      destruct We as (W0 & W1 & W2). split; [exact W0|]. split; cbn; [|exact W2].
      destruct clear_on_set; [cbn; intros; discriminate|exact W1].
  Qed.

  Lemma run_tree_correct k st0 :
    wf st0 ->
    let r := run_tree true clear_on_set k (tree_of k) st0 in
    wf (snd r) /\ cur (snd r) = cur st0 /\ (fst r, vars (snd r)) = eval_pure (tree_of k) (vars st0).
  Proof.
    intros W0. unfold run_tree.
    destruct (clookup k (ccache st0)) as [c0|] eqn:EC.
    - assert (Hroot : let r := ev true clear_on_set k true [] (tree_of k) st0 in
                      wf (snd r) /\ cur (snd r) = cur st0 /\ (fst r, vars (snd r)) = eval_pure (tree_of k) (vars st0)).
      { destruct (ev_correct k (tree_of k) true [] st0 W0 eq_refl) as (Wr & Cr & _ & Er). cbn zeta in *. auto. }
      destruct c0 as [c|]; [|exact Hroot].
      destruct (proj1 (proj2 W0) _ _ EC) as [-> Hy].
      unfold try_compiled. cbn [andb].
      destruct (operands_ok (tree_of k) (vars st0)) eqn:EO; cbn [negb]; [|exact Hroot].
      destruct (py_run (tree_of k) (vars st0)) as [v|] eqn:EP; [|exact Hroot].
      cbn [fst snd]. split; [exact W0|]. split; [reflexivity|].
      destruct (compiled_sound _ _ _ Hy EO EP) as [_ Hpure]. rewrite Hpure. reflexivity.
    - set (st1 := mk_istate (vars st0) (cur st0) (pcache st0) ((k, compile (tree_of k) (vars st0)) :: ccache st0) (memo st0)).
      assert (W1 : wf st1).
      { destruct W0 as (Wa & Wb & Wc). split; [exact Wa|]. split; cbn; [|exact Wc].
        intros k' c Hl. destruct (ckey_eqb k' k) eqn:EK.
        + apply ckey_eqb_eq in EK. subst k'. assert (Hc : compile (tree_of k) (vars st0) = Some c) by congruence.
          apply compile_some in Hc. exact Hc.
        + apply Wb. exact Hl. }
      assert (Hroot : let r := ev true clear_on_set k true [] (tree_of k) st1 in
                      wf (snd r) /\ cur (snd r) = cur st0 /\ (fst r, vars (snd r)) = eval_pure (tree_of k) (vars st0)).
      { destruct (ev_correct k (tree_of k) true [] st1 W1 eq_refl) as (Wr & Cr & _ & Er). cbn zeta in *. auto. }
      destruct (compile (tree_of k) (vars st0)) as [c|] eqn:ECo; [|exact Hroot].
      apply compile_some in ECo. destruct ECo as [-> Hy].
      unfold try_compiled. cbn [andb]. change (vars st1) with (vars st0).
      destruct (operands_ok (tree_of k) (vars st0)) eqn:EO; cbn [negb]; [|exact Hroot].
      destruct (py_run (tree_of k) (vars st0)) as [v|] eqn:EP; [|exact Hroot].
      cbn [fst snd]. split; [exact W1|]. split; [reflexivity|].
      destruct (compiled_sound _ _ _ Hy EO EP) as [_ Hpure]. rewrite Hpure. reflexivity.
  Qed.

  (* __call__ with the (text, module) key and switching texts kept out of the parse cache *)
  Lemma run_cached_correct st t :
    wf st ->
    let r := run_cached true clear_on_set true parse true st t in
    wf (snd r) /\
    (fst r, (cur (snd r), vars (snd r))) = eval_ref parse (cur st, vars st) t.
  Proof.
    intros W. unfold run_cached, eval_ref, key_of in *. cbn [fst snd] in *.
    change (if true then cur st else 0) with (cur st) in *.
    set (k := (t, cur st)) in *.
    destruct (plookup k (pcache st)) as [e|] eqn:EP.
    - destruct (proj1 W _ _ EP) as [He Hn]. subst e.
      destruct (run_tree_correct k st W) as (Wr & Cr & Er). cbn zeta in *.
      split; [exact Wr|].
      unfold tree_of, k in *; cbn [fst snd] in *.
      destruct (parse t (cur st)) as [e m'] eqn:EQ. cbn [fst snd] in *. subst m'.
      destruct (eval_pure e (vars st)) as [rr ss].
      injection Er as E1 E2. exact (f_equal2 pair E1 (f_equal2 pair Cr E2)).
    - destruct (parse t (cur st)) as [e m'] eqn:EQ.
      assert (He : e = tree_of k) by (unfold tree_of, k; cbn; rewrite EQ; reflexivity).
      assert (Href : eval_pure e (vars st) = eval_pure (tree_of k) (vars st)) by (rewrite He; reflexivity).
      rewrite Href. clear Href. rewrite He.
      cbn [andb].
      set (pc := if negb (m' =? cur st) then pcache st else (k, tree_of k) :: pcache st).
      assert (W0 : wf (mk_istate (vars st) m' pc (ccache st) (memo st))).
      { destruct W as (Wa & Wb & Wc). split; [|split; cbn; assumption].
        cbn. unfold pc. destruct (Z.eqb_spec m' (cur st)) as [Em|Em]; cbn [negb]; [|exact Wa].
        intros k' e' Hl. cbn [plookup] in Hl. destruct (ckey_eqb k' k) eqn:EK.
        + apply ckey_eqb_eq in EK. subst k'. split; [congruence|]. unfold k; cbn. rewrite EQ. cbn. exact Em.
        + apply Wa. exact Hl. }
      pose proof (run_tree_correct k _ W0) as HR. cbv zeta in HR.
      destruct HR as (Wr & Cr & Er). cbn [cur vars] in Cr, Er.
      split; [exact Wr|].
      destruct (eval_pure (tree_of k) (vars st)) as [rr ss].
      injection Er as E1 E2. exact (f_equal2 pair E1 (f_equal2 pair Cr E2)).
  Qed.

  Lemma history_correct h : forall st,
    wf st ->
    wf (state_after true clear_on_set true parse true st h) /\
    (cur (state_after true clear_on_set true parse true st h), vars (state_after true clear_on_set true parse true st h))
      = ref_after parse (cur st, vars st) h.
  Proof.
    induction h as [|t r IH]; intros st W; cbn [state_after ref_after] in *; [split; [exact W|reflexivity]|].
    destruct (run_cached_correct st t W) as [W' E]. cbn zeta in *.
    destruct (IH _ W') as [W2 E2]. split; [exact W2|]. rewrite E2. f_equal.
    destruct (eval_ref parse (cur st, vars st) t) as [rr ms]. inversion E. reflexivity.
  Qed.

  Lemma cache_transparent s0 h t :
    let st := state_after true clear_on_set true parse true (fresh s0) h in
    let r := run_cached true clear_on_set true parse true st t in
    (fst r, (cur (snd r), vars (snd r))) = eval_ref parse (cur st, vars st) t
    /\ (cur st, vars st) = ref_after parse (0, s0) h.
  Proof.
    cbn zeta. destruct (history_correct h (fresh s0) (wf_fresh s0)) as [W E].
    split; [|exact E]. apply run_cached_correct; assumption.
  Qed.
End A.

(* ================================================================== *)
(* Part B: no operation writes into a buffer that existed before it *)

Definition env_ok (st : hstate) : Prop :=
  forall k a, elookup k (env st) = Some a -> (a_loc a < length (hp st))%nat.

Definition extends (h h' : heap) : Prop := exists ext, h' = h ++ ext.

Lemma extends_refl h : extends h h.
Proof. exists []. rewrite app_nil_r. reflexivity. Qed.

Lemma extends_trans a b c : extends a b -> extends b c -> extends a c.
Proof. intros [x ->] [y ->]. exists (x ++ y). rewrite app_assoc. reflexivity. Qed.

Lemma extends_hget h h' l : extends h h' -> (l < length h)%nat -> hget h' l = hget h l.
Proof. intros [ext ->] H. unfold hget. apply app_nth1. exact H. Qed.

Lemma extends_length h h' : extends h h' -> (length h <= length h')%nat.
Proof. intros [ext ->]. rewrite app_length. lia. Qed.

Lemma hset_last h b b' : hset (h ++ [b]) (length h) b' = h ++ [b'].
Proof.
  unfold hset. rewrite firstn_app, Nat.sub_diag, firstn_all. cbn [firstn]. rewrite app_nil_r.
  rewrite skipn_app, Nat.sub_diag, skipn_all. reflexivity.
Qed.

Lemma apply_aop_extends o h a h' a' :
  apply_aop true o h a = (h', a') -> (a_loc a < length h)%nat ->
  extends h h' /\ (a_loc a' < length h')%nat.
Proof.
  destruct o; cbn [apply_aop]; intros H Hl.
  - inversion H; subst. split; [apply extends_refl|exact Hl].
  - inversion H; subst. split; [apply extends_refl|exact Hl].
  - inversion H; subst. split; [apply extends_refl|exact Hl].
  - unfold alloc in H. rewrite hset_last in H. inversion H; subst. cbn [a_loc].
    split; [eexists; reflexivity|]. rewrite app_length. cbn. lia.
Qed.

Lemma elookup_eset_same k v s : elookup k (eset k v s) = Some v.
Proof.
  induction s as [|[k' v'] r IH]; cbn [eset elookup].
  - rewrite Z.eqb_refl. reflexivity.
  - destruct (Z.eqb_spec k k') as [->|Hne]; cbn [elookup].
    + rewrite Z.eqb_refl. reflexivity.
    + destruct (Z.eqb_spec k k'); [contradiction|]. exact IH.
Qed.

Lemma elookup_eset_other k v s u : u <> k -> elookup u (eset k v s) = elookup u s.
Proof.
  intros Hne. induction s as [|[k' v'] r IH]; cbn [eset elookup].
  - destruct (Z.eqb_spec u k); [contradiction|reflexivity].
  - destruct (Z.eqb_spec k k') as [->|Hkk]; cbn [elookup].
    + destruct (Z.eqb_spec u k'); [contradiction|reflexivity].
    + destruct (Z.eqb_spec u k'); [reflexivity|exact IH].
Qed.

Definition target (s : stmt) : name :=
  match s with SLit d _ => d | SOp d _ _ => d | SCopy d _ => d end.

Lemma exec_step st s :
  env_ok st ->
  let st' := exec true st s in
  env_ok st' /\ extends (hp st) (hp st') /\
  forall k, k <> target s -> elookup k (env st') = elookup k (env st).
Proof.
  intros OK. destruct s as [d l|d o src|d src]; cbn [exec target].
  - unfold alloc. cbn zeta. split; [|split].
    + intros k a H. cbn [env hp] in *. rewrite app_length. cbn [length].
      destruct (Z.eq_dec k d) as [->|Hne].
      * rewrite elookup_eset_same in H. inversion H; subst. cbn. lia.
      * rewrite elookup_eset_other in H by exact Hne. apply OK in H. lia.
    + cbn [hp]. eexists; reflexivity.
    + intros k Hk. cbn [env]. apply elookup_eset_other. exact Hk.
  - destruct (elookup src (env st)) as [a|] eqn:E.
    + destruct (apply_aop true o (hp st) a) as [h1 a1] eqn:EA.
      destruct (apply_aop_extends _ _ _ _ _ EA (OK _ _ E)) as [Hx Hl]. cbn zeta.
      split; [|split].
      * intros k a0 H. cbn [env hp] in *.
        destruct (Z.eq_dec k d) as [->|Hne].
        -- rewrite elookup_eset_same in H. inversion H; subst. exact Hl.
        -- rewrite elookup_eset_other in H by exact Hne. apply OK in H.
           pose proof (extends_length _ _ Hx). lia.
      * exact Hx.
      * intros k Hk. cbn [env]. apply elookup_eset_other. exact Hk.
    + cbn zeta. split; [exact OK|]. split; [apply extends_refl|reflexivity].
  - destruct (elookup src (env st)) as [a|] eqn:E.
    + cbn zeta. split; [|split].
      * intros k a0 H. cbn [env hp] in *.
        destruct (Z.eq_dec k d) as [->|Hne].
        -- rewrite elookup_eset_same in H. inversion H; subst. eapply OK; eauto.
        -- rewrite elookup_eset_other in H by exact Hne. eapply OK; eauto.
      * apply extends_refl.
      * intros k Hk. cbn [env]. apply elookup_eset_other. exact Hk.
    + cbn zeta. split; [exact OK|]. split; [apply extends_refl|reflexivity].
Qed.

Lemma exec_all_inv p : forall st,
  env_ok st ->
  let st' := exec_all true st p in
  env_ok st' /\ extends (hp st) (hp st') /\
  forall k, ~ In k (map target p) -> elookup k (env st') = elookup k (env st).
Proof.
  unfold exec_all. induction p as [|s p IH]; intros st OK; cbn [fold_left map].
  - split; [exact OK|]. split; [apply extends_refl|reflexivity].
  - destruct (exec_step st s OK) as (OK1 & X1 & E1).
    destruct (IH _ OK1) as (OK2 & X2 & E2). cbn zeta in *.
    split; [exact OK2|]. split; [eapply extends_trans; eauto|].
    intros k Hk. rewrite E2 by (intros Hi; apply Hk; right; exact Hi).
    apply E1. intros ->. apply Hk. left; reflexivity.
Qed.

(* T4.views: whatever statements run — views taken, views amended, amended views amended again —
   a variable that is not itself assigned keeps its value *)
Lemma views_unobservable p st k :
  env_ok st -> ~ In k (map target p) -> value_of (exec_all true st p) k = value_of st k.
Proof.
  intros OK Hk. destruct (exec_all_inv p st OK) as (_ & X & E). cbn zeta in *.
  unfold value_of. rewrite (E k Hk). destruct (elookup k (env st)) as [a|] eqn:EL; [|reflexivity].
  unfold deref. rewrite (extends_hget _ _ _ X (OK _ _ EL)). reflexivity.
Qed.

(* and every buffer that existed keeps its content: nothing is ever written in place *)
Lemma buffers_immutable p st l :
  env_ok st -> (l < length (hp st))%nat -> hget (hp (exec_all true st p)) l = hget (hp st) l.
Proof.
  intros OK Hl. destruct (exec_all_inv p st OK) as (_ & X & _). apply extends_hget; assumption.
Qed.
