(* C12/Run.v — S-expression front end of the parser model, extracted to OCaml.
   requests (text = list of code points):
     (prog FUEL (c c ...))        FUEL = 0: fuel_for (length text)
        -> (ok POS (ast ...)) | (err NAME) | (oof)           POS = index returned by KlongInterpreter.prog
     (progm FUEL (m m ...) (c c ...))   the same with KlongInterpreter._module = the symbol m
     (lex RN IGN FUEL (c c ...))  kg_read(t, 0, read_neg=RN, ignore_newline=IGN)
        -> (ok POS ast) | (err NAME) | (oof)
   ast encoding: (none) (s c..) (c n) (n c..) (y c..) (op AR c..) (l a..) (d (k v)..)
                 (fn AR a args) (call AR a args) (py a..) (cond a..) (ea a..) (adv AR a) *)
From Coq Require Import ZArith List String.
From KB Require Import Sx.
From C12 Require Import Generated Model Env.
Import ListNotations.
Open Scope Z_scope.

Fixpoint sx_ast (a : ast) : sx :=
  match a with
  | ANone => SL [sx_w "none"]
  | AStr s => SL (sx_w "s" :: map SZ s)
  | AChr c => SL [sx_w "c"; SZ c]
  | ANum s => SL (sx_w "n" :: map SZ s)
  | ASym s => SL (sx_w "y" :: map SZ s)
  | AOp s ar => SL (sx_w "op" :: sx_nat ar :: map SZ s)
  | AList l => SL (sx_w "l" :: map sx_ast l)
  | ADict kv => SL (sx_w "d" :: map (fun p => SL [sx_ast (fst p); sx_ast (snd p)]) kv)
  | AFn f args ar => SL [sx_w "fn"; sx_nat ar; sx_ast f; sx_ast args]
  | ACall f args ar => SL [sx_w "call"; sx_nat ar; sx_ast f; sx_ast args]
  | APy l => SL (sx_w "py" :: map sx_ast l)
  | ACond l => SL (sx_w "cond" :: map sx_ast l)
  | AExprArr l => SL (sx_w "ea" :: map sx_ast l)
  | AAdverb f ar => SL [sx_w "adv"; sx_nat ar; sx_ast f]
  end.

Definition sx_errname (e : err) : sx :=
  match e with
  | EChar => sx_w "UnexpectedChar"
  | EEof => sx_w "UnexpectedEOF"
  | EValue => sx_w "ValueError"
  | EType => sx_w "TypeError"
  | EIndex => sx_w "IndexError"
  | ERuntime => sx_w "RuntimeError"
  end.

Definition sx_res {A} (n : nat) (pr : A -> sx) (r : res (str * A)) : sx :=
  match r with
  | Ok (rest, a) => SL [sx_w "ok"; sx_nat (n - List.length rest); pr a]
  | Err e => SL [sx_w "err"; sx_errname e]
  | OOF => SL [sx_w "oof"]
  end.

Definition dispatch (x : sx) : sx :=
  match x with
  | SL [SS t; SZ fuel; SL cps] =>
      if is_tag "prog" t then
        match sx_get_zs cps with
        | Some txt =>
            let n := List.length txt in
            let fl := if fuel =? 0 then fuel_for n else Z.to_nat fuel in
            sx_res n (fun l => SL (map sx_ast l)) (prog genv fl txt)
        | None => sx_err "prog"
        end
      else sx_err "op"
  | SL [SS t; SZ fuel; SL m; SL cps] =>
      if is_tag "progm" t then
        match sx_get_zs m, sx_get_zs cps with
        | Some md, Some txt =>
            let n := List.length txt in
            let fl := if fuel =? 0 then fuel_for n else Z.to_nat fuel in
            sx_res n (fun l => SL (map sx_ast l)) (prog (env_with_module genv (Some md)) fl txt)
        | _, _ => sx_err "progm"
        end
      else sx_err "op"
  | SL [SS t; SZ rn; SZ ign; SZ fuel; SL cps] =>
      if is_tag "lex" t then
        match sx_get_zs cps with
        | Some txt =>
            let n := List.length txt in
            let fl := if fuel =? 0 then fuel_for n else Z.to_nat fuel in
            sx_res n sx_ast (kg_read genv fl (rn =? 1) (ign =? 1) txt)
        | None => sx_err "lex"
        end
      else sx_err "op"
  | _ => sx_err "shape"
  end.

Require Import ExtrOcamlBasic.
Extraction Language OCaml.
Extraction "extracted.ml" dispatch drv_add drv_mul drv_opp drv_div_eucl drv_ltb drv_eqb.
