(* C12/Model.v — executable model of the klongpy lexer (klongpy/parser.py) and
   parser (KlongInterpreter.prog/_expr/_factor/_read_fn_args/_apply_adverbs,
   read_cond, read_expr_array).  NO proofs here.

   Text = list of code points.  A position `i` in text `t` is represented by the
   remaining suffix `t[i:]` (every access in the Python code looks forward from
   `i`); the harness converts back with  i = len t - length suffix.
   Loops that advance one character per iteration (skip_space, read_string,
   read_sym, read_num, read_shifted_comment, peek_adverb loop) recurse
   structurally on the suffix.  Everything that nests or calls back (skip,
   kg_read/read_list, read_sys_comment's marker loop, the whole parser) recurses
   on `fuel`, with the distinguished result OOF excluded by the theorems.

   Python None, str, KGChar, KGSym, KGOp, list, numpy array, dict, KGFn, KGCall,
   KGCond, KGExprArray, KGAdverb are the constructors of `ast`; delimiters are
   plain Python strings in klongpy (`'{'`, `';'`, `':['` …) and therefore AStr
   here, bugs included (a string literal "{" opens a function). *)
From Coq Require Import ZArith List Bool.
From KB Require Import Sx.
Import ListNotations.
Open Scope Z_scope.

Definition str := list Z.

Inductive err := EChar | EEof | EValue | EType | EIndex | ERuntime.

Inductive res (A : Type) : Type := Ok (a : A) | Err (e : err) | OOF.
Arguments Ok {A} a.
Arguments Err {A} e.
Arguments OOF {A}.

Definition bind {A B} (r : res A) (k : A -> res B) : res B :=
  match r with Ok a => k a | Err e => Err e | OOF => OOF end.
Notation "'let*' x ':=' r 'in' k" := (bind r (fun x => k))
  (at level 200, x pattern, r at level 100, k at level 200).

Inductive ast :=
| ANone
| AStr (s : str)
| AChr (c : Z)
| ANum (s : str)
| ASym (s : str)
| AOp (s : str) (arity : nat)
| AList (l : list ast)
| ADict (l : list (ast * ast))
| AFn (a : ast) (args : ast) (arity : nat)
| ACall (a : ast) (args : ast) (arity : nat)
| APy (l : list ast)
| ACond (l : list ast)
| AExprArr (l : list ast)
| AAdverb (a : ast) (arity : nat).

Record env := {
  isspace : Z -> bool;
  isnumeric : Z -> bool;
  isalpha : Z -> bool;
  isdigit : Z -> bool;
  num_ok : str -> bool -> bool;        (* int(text) / float(text) succeeds *)
  delims : list Z;                     (* kg_read: a in [';','(',')','{','}',']'] *)
  monads : list str;                   (* keys of create_monad_functions *)
  dyads : list str;                    (* keys of create_dyad_functions *)
  adverbs : list str;                  (* is_adverb *)
  adverb_arity : str -> nat -> nat;    (* get_adverb_arity *)
  reserved : list str;                 (* reserved_fn_args *)
  arity_monad_operand : bool;          (* get_fn_arity also scans f.args when it is a single operand (not a list, not None) *)
  modname : option str;                (* KlongInterpreter._module while the text is parsed: read_sym qualifies names with it *)
  comment_guard : bool                 (* read_sys_comment's loop tests `a and …` *)
}.

Definition str_in (x : str) (l : list str) : bool := existsb (zlist_eqb x) l.
Definition z_in (x : Z) (l : list Z) : bool := existsb (Z.eqb x) l.

Definition is_none (a : ast) : bool := match a with ANone => true | _ => false end.
(* safe_eq(a, "<txt>"): a is a Python str (KGChar is a str subclass without __eq__) equal to txt *)
Definition str_is (a : ast) (txt : str) : bool :=
  match a with AStr s => zlist_eqb s txt | AChr c => zlist_eqb [c] txt | _ => false end.
Definition is_sym (a : ast) : bool := match a with ASym _ => true | _ => false end.
Definition is_op (a : ast) : bool := match a with AOp _ _ => true | _ => false end.
Definition sym_is (a : ast) (txt : str) : bool := match a with ASym s => zlist_eqb s txt | _ => false end.
Definition set_arity (a : ast) (n : nat) : ast := match a with AOp t _ => AOp t n | _ => a end.
Definition has_none (l : list ast) : bool := existsb is_none l.
Definition hashable (a : ast) : bool :=
  match a with AList _ | APy _ | ACond _ | AExprArr _ => false | _ => true end.
Definition mk_call (a : ast) (fa : list ast) (ar : nat) : ast :=
  if has_none fa then AFn a (APy fa) ar else ACall a (APy fa) ar.

Fixpoint starts_with (a s : str) : bool :=
  match a, s with
  | [], _ => true
  | x :: a', y :: s' => (x =? y) && starts_with a' s'
  | _ :: _, [] => false
  end.
Definition starts1 (s : str) (c : Z) : bool := match s with x :: _ => x =? c | [] => false end.
Definition starts2 (s : str) (c d : Z) : bool := match s with x :: y :: _ => (x =? c) && (y =? d) | _ => false end.
(* cmatch(t,i,'(') or cmatch2(t,i,':','(') *)
Definition starts_call (s : str) : bool := starts1 s 40 || starts2 s 58 40.
(* k == ii - 1 for two positions given as suffixes of the same text *)
Definition adjacent (k ii : str) : bool := Nat.eqb (length k) (S (length ii)).
Definition cexpect (s : str) (c : Z) : res str :=
  match s with x :: r => if x =? c then Ok r else Err EChar | [] => Err EChar end.

Fixpoint map_res {A B} (f : A -> res B) (l : list A) : res (list B) :=
  match l with
  | [] => Ok []
  | x :: r => let* y := f x in let* ys := map_res f r in Ok (y :: ys)
  end.

(* list_to_dict: {x[0]:x[1] for x in a}; duplicates are merged by the harness with Python's dict *)
Definition dict_entry (x : ast) : res (ast * ast) :=
  match x with
  | AStr s | ASym s => match s with c0 :: c1 :: _ => Ok (AStr [c0], AStr [c1]) | _ => Err EIndex end
  | AChr _ => Err EIndex
  | AList l => match l with k :: v :: _ => if hashable k then Ok (k, v) else Err EType | _ => Err EIndex end
  | _ => Err EType
  end.

Fixpoint nodup_str (l : list str) : list str :=
  match l with [] => [] | x :: r => if str_in x r then nodup_str r else x :: nodup_str r end.

Section WithEnv.
Variable E : env.

Definition is_symbolic (c : Z) : bool := isalpha E c || isdigit E c || (c =? 46).
Definition is_monad_op (a : ast) : bool := match a with AOp t _ => str_in t (monads E) | _ => false end.
Definition mark_dyad (a : ast) : ast :=
  match a with AOp t _ => if str_in t (dyads E) then AOp t 2 else a | _ => a end.

(* ---------------------------------------------------------------- lexer: simple loops *)
Fixpoint skip_space (ign : bool) (s : str) : str :=
  match s with
  | c :: r => if isspace E c && (ign || negb (c =? 10)) then skip_space ign r else s
  | [] => []
  end.

Fixpoint read_shifted_comment (s : str) : str :=
  match s with
  | [] => []
  | c :: r =>
      if c =? 34 then
        match r with
        | q :: r' => if q =? 34 then read_shifted_comment r' else r
        | [] => r
        end
      else read_shifted_comment r
  end.

Fixpoint skip (fuel : nat) (ign : bool) (s : str) : res str :=
  match fuel with
  | O => OOF
  | S f =>
      let s1 := skip_space ign s in
      if starts2 s1 58 34 then skip f false (read_shifted_comment (tl (tl s1))) else Ok s1
  end.

(* read_num's scan: rest, consumed text, use_float *)
Fixpoint num_scan (s : str) (acc : str) (uf : bool) : str * str * bool :=
  match s with
  | [] => ([], rev acc, uf)
  | c :: r =>
      if c =? 46 then num_scan r (c :: acc) true
      else if c =? 101 then
        match r with
        | d :: r' =>
            if (d =? 45) || (d =? 43) then
              match r' with
              | x :: r'' => num_scan r'' (x :: d :: c :: acc) true
              | [] => ([], rev (d :: c :: acc), true)
              end
            else num_scan r (c :: acc) true
        | [] => ([], rev (c :: acc), true)
        end
      else if isnumeric E c then num_scan r (c :: acc) uf
      else (s, rev acc, uf)
  end.

Definition read_num (s : str) : res (str * ast) :=
  let '(r, txt, uf) :=
    match s with
    | c :: s' => if c =? 45 then num_scan s' [c] false else num_scan s [] false
    | [] => num_scan s [] false
    end in
  if num_ok E txt uf then Ok (r, ANum txt) else Err EValue.

Definition read_char (s : str) : res (str * ast) :=   (* s starts with 0c *)
  match tl (tl s) with
  | c :: r => Ok (r, AChr c)
  | [] => Err EEof
  end.

Fixpoint sym_span (s : str) (acc : str) : str * str :=
  match s with
  | c :: r => if is_symbolic c then sym_span r (c :: acc) else (s, rev acc)
  | [] => ([], rev acc)
  end.
(* reserved_fn_symbol_map.get(x) or KGSym(x if x.startswith('.') or module is None else f"{x}`{module}") *)
Definition qualify (x : str) : str :=
  if str_in x (reserved E) then x
  else match modname E with
       | None => x
       | Some m => if starts1 x 46 then x else x ++ 96 :: m
       end.
Definition read_sym (s : str) : str * ast := let '(r, x) := sym_span s [] in (r, ASym (qualify x)).

Definition read_op (s : str) : str * ast :=
  if starts2 s 92 126 || starts2 s 92 42 then (tl (tl s), AOp (firstn 2 s) 0)
  else (tl s, AOp (firstn 1 s) 0).

Fixpoint read_string (s : str) (acc : str) : str * ast :=
  match s with
  | [] => ([], AStr (rev acc))
  | c :: r =>
      if c =? 34 then
        match r with
        | q :: r' => if q =? 34 then read_string r' (c :: acc) else (r, AStr (rev acc))
        | [] => (r, AStr (rev acc))
        end
      else read_string r (c :: acc)
  end.

(* ---------------------------------------------------------------- lexer: kg_read / read_list *)
(* kg_read, read_list and read_list's loop call each other; they are written as bodies over the
   record of their own previous-fuel versions (`R`), and `lex_iter` ties the knot by recursion on fuel:
   kg_read (S f) = kg_read_body f (the functions at fuel f). *)
Record lexfuns := {
  l_kg_read : bool -> bool -> str -> res (str * ast);
  l_read_list : Z -> str -> res (str * list ast);
  l_read_list_loop : Z -> str -> list ast -> res (str * list ast)
}.

Definition kg_read_body (f : nat) (R : lexfuns) (read_neg ign : bool) (s : str) : res (str * ast) :=
  let* s1 := skip f ign s in
  match s1 with
  | [] => Ok (s1, ANone)
  | a0 :: r =>
      let a := if a0 =? 10 then 59 else a0 in
      if z_in a (delims E) then Ok (r, AStr [a])
      else if starts2 s1 48 99 then read_char s1
      else if isnumeric E a || (read_neg && (a =? 45) && match r with d :: _ => isnumeric E d | [] => false end)
      then read_num s1
      else if a =? 34 then Ok (read_string r [])
      else
        match (if a =? 58 then r else []) with
        | aa :: r2 =>
            if isalpha E aa || (aa =? 46) then Ok (read_sym r)
            else if isnumeric E aa || (aa =? 34) then l_kg_read R false ign r
            else if aa =? 123 then
              let* (s2, d) := l_read_list R 125 r2 in
              let* kv := map_res dict_entry d in
              Ok (s2, ADict kv)
            else if aa =? 91 then Ok (r2, AStr [58; 91])
            else if aa =? 124 then Ok (r2, AStr [58; 124])
            else Ok (r2, AOp [58; aa] 0)
        | [] =>
            if a =? 91 then
              let* (s2, l) := l_read_list R 93 r in Ok (s2, AList l)
            else if is_symbolic a then Ok (read_sym s1)
            else Ok (read_op s1)
        end
  end.

Definition read_list_body (f : nat) (R : lexfuns) (delim : Z) (s : str) : res (str * list ast) :=
  let* s1 := skip f true s in
  l_read_list_loop R delim s1 [].

Definition read_list_loop_body (f : nat) (R : lexfuns) (delim : Z) (s : str) (acc : list ast) : res (str * list ast) :=
  if starts1 s delim || match s with [] => true | _ => false end
  then Ok (if starts1 s delim then tl s else s, rev acc)
  else
    let* (s1, q) := l_kg_read R true true s in
    if is_none q then Ok (if starts1 s1 delim then tl s1 else s1, rev acc)
    else
      let* s3 := skip f true s1 in
      l_read_list_loop R delim s3 (q :: acc).

(* tying the knot: kg_read (S f) = kg_read_body f (the three functions at fuel f) *)
Fixpoint kg_read (fuel : nat) (read_neg ign : bool) (s : str) {struct fuel} : res (str * ast) :=
  match fuel with
  | O => OOF
  | S f => kg_read_body f {| l_kg_read := kg_read f; l_read_list := read_list f; l_read_list_loop := read_list_loop f |}
             read_neg ign s
  end
with read_list (fuel : nat) (delim : Z) (s : str) {struct fuel} : res (str * list ast) :=
  match fuel with
  | O => OOF
  | S f => read_list_body f {| l_kg_read := kg_read f; l_read_list := read_list f; l_read_list_loop := read_list_loop f |}
             delim s
  end
with read_list_loop (fuel : nat) (delim : Z) (s : str) (acc : list ast) {struct fuel} : res (str * list ast) :=
  match fuel with
  | O => OOF
  | S f => read_list_loop_body f {| l_kg_read := kg_read f; l_read_list := read_list f; l_read_list_loop := read_list_loop f |}
             delim s acc
  end.

Definition lexrec (f : nat) : lexfuns :=
  {| l_kg_read := kg_read f; l_read_list := read_list f; l_read_list_loop := read_list_loop f |}.

(* ---------------------------------------------------------------- .comment *)
Fixpoint find_sub (a s : str) : option nat :=
  if starts_with a s then Some O
  else match s with [] => None | _ :: r => option_map S (find_sub a r) end.

(* while [a and] t[i+j+1:].startswith(a): j += 1        s = t[i+j+1:] *)
Fixpoint comment_run (fuel : nat) (a s : str) (j : nat) : res nat :=
  match fuel with
  | O => OOF
  | S f =>
      if (if comment_guard E then negb (match a with [] => true | _ => false end) else true) && starts_with a s
      then comment_run f a (tl s) (S j)
      else Ok j
  end.

Definition read_sys_comment (fuel : nat) (s a : str) : res str :=
  match find_sub a s with
  | None => Err ERuntime
  | Some j => let* j' := comment_run fuel a (skipn (S j) s) j in Ok (skipn (j' + length a) s)
  end.

(* a.args[0] used as the end marker: must be str-like *)
Definition comment_marker (fa : list ast) : res str :=
  match fa with
  | [] => Err EIndex
  | AStr m :: _ | ASym m :: _ => Ok m
  | AChr c :: _ => Ok [c]
  | _ :: _ => Err EType
  end.

(* ---------------------------------------------------------------- adverbs *)
Definition peek_adverb (s : str) : str * option str :=
  match s with
  | c0 :: c1 :: r =>
      if str_in [c0; c1] (adverbs E) then (r, Some [c0; c1])
      else if str_in [c0] (adverbs E) then (c1 :: r, Some [c0]) else (s, None)
  | [c0] => if str_in [c0] (adverbs E) then ([], Some [c0]) else (s, None)
  | [] => (s, None)
  end.

Fixpoint peek_more (s : str) : str * list str :=
  match s with
  | c0 :: r =>
      match r with
      | c1 :: r2 =>
          if str_in [c0; c1] (adverbs E) then let '(s', l) := peek_more r2 in (s', [c0; c1] :: l)
          else if str_in [c0] (adverbs E) then let '(s', l) := peek_more r in (s', [c0] :: l)
          else (s, [])
      | [] => if str_in [c0] (adverbs E) then ([], [[c0]]) else (s, [])
      end
  | [] => (s, [])
  end.

(* ---------------------------------------------------------------- get_fn_arity *)
Fixpoint rsyms (a : ast) : list str :=
  match a with
  | AFn f args _ | ACall f args _ =>
      rsyms f ++ match args with
                 | APy l | ACond l | AExprArr l => flat_map rsyms l
                 | ANone => []
                 | _ => if arity_monad_operand E then rsyms args else []
                 end
  | APy l | ACond l | AExprArr l => flat_map rsyms l
  | ASym s => if str_in s (reserved E) then [s] else []
  | _ => []
  end.

Definition arg_syms (l : list ast) : list str :=
  flat_map (fun x => match x with ASym s => if str_in s (reserved E) then [s] else [] | _ => [] end) l.

Definition get_fn_arity (f : ast) : res nat :=
  match f with
  | AFn (ASym nm) args _ | ACall (ASym nm) args _ =>
      if str_in nm (reserved E) then Ok (length (nodup_str (rsyms f)))
      else
        match args with
        | APy l =>
            if forallb hashable l
            then Ok (length (nodup_str (arg_syms l)) + (if has_none l then 1 else 0))%nat
            else Err EType
        | _ => Err EType
        end
  | _ => Ok (length (nodup_str (rsyms f)))
  end.

(* ---------------------------------------------------------------- parser *)
Definition dot_comment : str := [46; 99; 111; 109; 109; 101; 110; 116].
Definition dot_module : str := [46; 109; 111; 100; 117; 108; 101].

(* The parser functions call each other; same construction as for the lexer: bodies over the
   record `R` of the functions at the previous fuel; `f` is that fuel, handed to the lexer. *)
Record parsefuns := {
  p_prog_loop : bool -> str -> list ast -> res (str * list ast);
  p_expr : bool -> str -> res (str * ast);
  p_expr_loop : bool -> str -> ast -> str -> ast -> res (str * ast);
  p_fn_lit : str -> res (str * ast);
  p_factor : bool -> str -> res (str * ast);
  p_apply_adverbs : str -> ast -> str -> nat -> bool -> ast -> res (str * ast);
  p_read_fn_args : str -> res (str * list ast);
  p_fn_args_loop : str -> str -> list ast -> res (str * list ast);
  p_read_cond : str -> res (str * ast);
  p_expr_array_loop : str -> list ast -> res (str * list ast)
}.

(* KlongInterpreter.prog: the while loop *)
Definition prog_loop_body (f : nat) (L : lexfuns) (R : parsefuns) (ign : bool) (s : str) (acc : list ast) : res (str * list ast) :=
  match s with
  | [] => Ok (s, rev acc)
  | _ :: _ =>
      let* (s1, q) := p_expr R ign s in
      if is_none q || str_is q [59] then p_prog_loop R ign s1 acc
      else
        let* (ii, c) := l_kg_read L false ign s1 in
        if str_is c [59] then p_prog_loop R ign ii (q :: acc) else Ok (s1, rev (q :: acc))
  end.

(* KlongInterpreter._expr up to its while loop *)
Definition expr_body (f : nat) (L : lexfuns) (R : parsefuns) (ign : bool) (s : str) : res (str * ast) :=
  let* (s1, a) := p_factor R ign s in
  if is_none a || str_is a [59] then Ok (s1, a)
  else
    let* (ii, aa) := l_kg_read L false ign s1 in
    p_expr_loop R ign s1 a ii (mark_dyad aa).

(* the while loop of _expr: i, a = current position and left operand; (ii, aa) = the token peeked at i *)
Definition expr_loop_body (f : nat) (L : lexfuns) (R : parsefuns) (ign : bool) (i : str) (a : ast) (ii : str) (aa : ast) : res (str * ast) :=
  if is_op aa || is_sym aa || str_is aa [123] then
    let* (i1, aa1) :=
      if str_is aa [123] then p_fn_lit R ii
      else if is_sym aa && starts_call ii then
        let* (i2, fa) := p_read_fn_args R ii in Ok (i2, mk_call aa fa (length fa))
      else Ok (ii, aa) in
    let '(i3, adv) := peek_adverb i1 in
    let* (i4, a1) :=
      match adv with
      | Some av => p_apply_adverbs R i3 aa1 av 2%nat true a
      | None => let* (i5, aaa) := p_expr R ign i1 in Ok (i5, AFn aa1 (APy [a; aaa]) 2)
      end in
    let* (ii2, aa2) := l_kg_read L false ign i4 in
    p_expr_loop R ign i4 a1 ii2 aa2
  else if ign && str_is a [10] then let* i1 := skip f true i in Ok (i1, a)
  else Ok (i, a).

(* the text after '{' up to the KGFn/KGCall built from it (same code in _factor and _expr) *)
Definition fn_lit_body (f : nat) (L : lexfuns) (R : parsefuns) (s : str) : res (str * ast) :=
  let* (s2, p) := p_prog_loop R true s [] in
  let a1 := match p with [x] => x | _ => APy p end in
  let* s3 := skip f true s2 in
  let* s4 := cexpect s3 125 in
  let* ar := get_fn_arity a1 in
  if starts_call s4 then
    let* (s5, fa) := p_read_fn_args R s4 in Ok (s5, mk_call a1 fa ar)
  else Ok (s4, AFn a1 ANone ar).

(* `ii, aa = peek_adverb(t, i); if aa: i, a = self._apply_adverbs(t, ii, a, aa, arity=1)` *)
Definition adverb_tail (R : parsefuns) (s0 : str) (a0 : ast) : res (str * ast) :=
  let '(i3, adv) := peek_adverb s0 in
  match adv with
  | Some av => p_apply_adverbs R i3 a0 av 1%nat false ANone
  | None => Ok (s0, a0)
  end.

(* KlongInterpreter._factor *)
Definition factor_body (f : nat) (L : lexfuns) (R : parsefuns) (ign : bool) (s : str) : res (str * ast) :=
  let* ii := skip f ign s in
  if starts2 ii 91 59 then
    let* s0 := skip f true (tl (tl ii)) in
    let* (s1, ex) := p_expr_array_loop R s0 [] in Ok (s1, AExprArr ex)
  else
    let* (s1, a) := l_kg_read L false ign s in
    if is_none a then Ok (s1, a)
    else if str_is a [123] then
      let* (s2, a2) := p_fn_lit R s1 in adverb_tail R s2 a2
    else if is_sym a then
      if starts_call s1 then
        let* (s2, fa) := p_read_fn_args R s1 in
        let a2 := mk_call a fa (length fa) in
        if sym_is a dot_comment then
          let* m := comment_marker fa in
          let* s3 := read_sys_comment f s2 m in
          p_factor R ign s3
        else
          let* _ := (if sym_is a dot_module
                     then match fa with [] => Err EIndex | _ :: _ => Ok tt end else Ok tt) in
          adverb_tail R s2 a2
      else adverb_tail R s1 a
    else if is_monad_op a then
      let a1 := set_arity a 1 in
      let '(i3, adv) := peek_adverb s1 in
      match adv with
      | Some av => p_apply_adverbs R i3 a1 av 1%nat false ANone
      | None => let* (s2, aa) := p_expr R ign s1 in Ok (s2, AFn a1 aa 1)
      end
    else if str_is a [40] then
      let* (s2, a2) := p_expr R ign s1 in
      let* s3 := cexpect s2 41 in Ok (s3, a2)
    else if str_is a [58; 91] then p_read_cond R s1
    else Ok (s1, a).

(* KlongInterpreter._apply_adverbs *)
Definition apply_adverbs_body (f : nat) (L : lexfuns) (R : parsefuns) (s : str) (a : ast) (aa : str) (arity : nat) (dyad : bool) (dv : ast)
  : res (str * ast) :=
  let aa_ar := adverb_arity E aa arity in
  let '(s1, more) := peek_more s in
  let arr := AAdverb (set_arity a aa_ar) aa_ar :: AAdverb (AStr aa) arity
             :: map (fun x => AAdverb (AStr x) 1) more in
  let* (s2, e) := p_expr R false s1 in
  Ok (s2, ACall (APy (arr ++ [if dyad then APy [dv; e] else e])) ANone (if dyad then 2 else 1)%nat).

(* KlongInterpreter._read_fn_args up to its while loop *)
Definition read_fn_args_body (f : nat) (L : lexfuns) (R : parsefuns) (s : str) : res (str * list ast) :=
  let* s1 := (if starts1 s 40 then Ok (tl s) else if starts2 s 58 40 then Ok (tl (tl s)) else Err EChar) in
  if starts1 s1 41 then Ok (tl s1, [])
  else p_fn_args_loop R s1 s1 [].

(* the `while True` of _read_fn_args; k = position after '(' or after the last ';' *)
Definition fn_args_loop_body (f : nat) (L : lexfuns) (R : parsefuns) (s k : str) (acc : list ast) : res (str * list ast) :=
  let* (ii, c) := l_kg_read L false true s in
  if str_is c [59] then p_fn_args_loop R ii ii (if adjacent k ii then ANone :: acc else acc)
  else if str_is c [41] then
    let* s' := cexpect s 41 in Ok (s', rev (if adjacent k ii then ANone :: acc else acc))
  else
    let* (s1, a) := p_expr R true s in
    if is_none a then let* s' := cexpect s1 41 in Ok (s', rev acc)
    else p_fn_args_loop R s1 k (a :: acc).

(* parser.read_cond *)
Definition read_cond_body (f : nat) (L : lexfuns) (R : parsefuns) (s : str) : res (str * ast) :=
  let* (s1, n1) := p_expr R true s in
  let* s2 := cexpect s1 59 in
  let* (s3, n2) := p_expr R true s2 in
  let* s4 := skip f true s3 in
  if starts2 s4 58 124 then
    let* (s5, n3) := p_read_cond R (tl (tl s4)) in Ok (s5, ACond [n1; n2; n3])
  else
    let* s5 := cexpect s4 59 in
    let* (s6, n3) := p_expr R true s5 in
    let* s7 := skip f true s6 in
    let* s8 := cexpect s7 93 in
    Ok (s8, ACond [n1; n2; n3]).

(* the while loop of parser.read_expr_array *)
Definition expr_array_loop_body (f : nat) (L : lexfuns) (R : parsefuns) (s : str) (acc : list ast) : res (str * list ast) :=
  if starts1 s 93 || match s with [] => true | _ => false end
  then Ok (if starts1 s 93 then tl s else s, rev acc)
  else
    let* (s1, e) := p_expr R true s in
    let acc' := if is_none e then acc else e :: acc in
    let* s2 := skip f true s1 in
    if starts1 s2 59 then
      let* s3 := skip f true (tl s2) in p_expr_array_loop R s3 acc'
    else if starts1 s2 93 then Ok (tl s2, rev acc')
    else p_expr_array_loop R s2 acc'.

Section Knot.
Variable f : nat.
Variables (prog_loop_f : bool -> str -> list ast -> res (str * list ast))
          (expr_f : bool -> str -> res (str * ast))
          (expr_loop_f : bool -> str -> ast -> str -> ast -> res (str * ast))
          (fn_lit_f : str -> res (str * ast))
          (factor_f : bool -> str -> res (str * ast))
          (apply_adverbs_f : str -> ast -> str -> nat -> bool -> ast -> res (str * ast))
          (read_fn_args_f : str -> res (str * list ast))
          (fn_args_loop_f : str -> str -> list ast -> res (str * list ast))
          (read_cond_f : str -> res (str * ast))
          (expr_array_loop_f : str -> list ast -> res (str * list ast)).
Definition mkrec : parsefuns :=
  {| p_prog_loop := prog_loop_f; p_expr := expr_f; p_expr_loop := expr_loop_f; p_fn_lit := fn_lit_f;
     p_factor := factor_f; p_apply_adverbs := apply_adverbs_f; p_read_fn_args := read_fn_args_f;
     p_fn_args_loop := fn_args_loop_f; p_read_cond := read_cond_f; p_expr_array_loop := expr_array_loop_f |}.
End Knot.

(* tying the knot: X (S f) = X_body f (lexer at fuel f) (the ten parser functions at fuel f) *)
Fixpoint prog_loop (fuel : nat) (ign : bool) (s : str) (acc : list ast) {struct fuel} : res (str * list ast) :=
  match fuel with O => OOF | S f =>
    prog_loop_body f (lexrec f) (mkrec (prog_loop f) (expr f) (expr_loop f) (fn_lit f) (factor f) (apply_adverbs f)
                                       (read_fn_args f) (fn_args_loop f) (read_cond f) (expr_array_loop f)) ign s acc end
with expr (fuel : nat) (ign : bool) (s : str) {struct fuel} : res (str * ast) :=
  match fuel with O => OOF | S f =>
    expr_body f (lexrec f) (mkrec (prog_loop f) (expr f) (expr_loop f) (fn_lit f) (factor f) (apply_adverbs f)
                                  (read_fn_args f) (fn_args_loop f) (read_cond f) (expr_array_loop f)) ign s end
with expr_loop (fuel : nat) (ign : bool) (i : str) (a : ast) (ii : str) (aa : ast) {struct fuel} : res (str * ast) :=
  match fuel with O => OOF | S f =>
    expr_loop_body f (lexrec f) (mkrec (prog_loop f) (expr f) (expr_loop f) (fn_lit f) (factor f) (apply_adverbs f)
                                       (read_fn_args f) (fn_args_loop f) (read_cond f) (expr_array_loop f)) ign i a ii aa end
with fn_lit (fuel : nat) (s : str) {struct fuel} : res (str * ast) :=
  match fuel with O => OOF | S f =>
    fn_lit_body f (lexrec f) (mkrec (prog_loop f) (expr f) (expr_loop f) (fn_lit f) (factor f) (apply_adverbs f)
                                    (read_fn_args f) (fn_args_loop f) (read_cond f) (expr_array_loop f)) s end
with factor (fuel : nat) (ign : bool) (s : str) {struct fuel} : res (str * ast) :=
  match fuel with O => OOF | S f =>
    factor_body f (lexrec f) (mkrec (prog_loop f) (expr f) (expr_loop f) (fn_lit f) (factor f) (apply_adverbs f)
                                    (read_fn_args f) (fn_args_loop f) (read_cond f) (expr_array_loop f)) ign s end
with apply_adverbs (fuel : nat) (s : str) (a : ast) (aa : str) (arity : nat) (dyad : bool) (dv : ast) {struct fuel}
  : res (str * ast) :=
  match fuel with O => OOF | S f =>
    apply_adverbs_body f (lexrec f) (mkrec (prog_loop f) (expr f) (expr_loop f) (fn_lit f) (factor f) (apply_adverbs f)
                                           (read_fn_args f) (fn_args_loop f) (read_cond f) (expr_array_loop f))
                       s a aa arity dyad dv end
with read_fn_args (fuel : nat) (s : str) {struct fuel} : res (str * list ast) :=
  match fuel with O => OOF | S f =>
    read_fn_args_body f (lexrec f) (mkrec (prog_loop f) (expr f) (expr_loop f) (fn_lit f) (factor f) (apply_adverbs f)
                                          (read_fn_args f) (fn_args_loop f) (read_cond f) (expr_array_loop f)) s end
with fn_args_loop (fuel : nat) (s k : str) (acc : list ast) {struct fuel} : res (str * list ast) :=
  match fuel with O => OOF | S f =>
    fn_args_loop_body f (lexrec f) (mkrec (prog_loop f) (expr f) (expr_loop f) (fn_lit f) (factor f) (apply_adverbs f)
                                          (read_fn_args f) (fn_args_loop f) (read_cond f) (expr_array_loop f)) s k acc end
with read_cond (fuel : nat) (s : str) {struct fuel} : res (str * ast) :=
  match fuel with O => OOF | S f =>
    read_cond_body f (lexrec f) (mkrec (prog_loop f) (expr f) (expr_loop f) (fn_lit f) (factor f) (apply_adverbs f)
                                       (read_fn_args f) (fn_args_loop f) (read_cond f) (expr_array_loop f)) s end
with expr_array_loop (fuel : nat) (s : str) (acc : list ast) {struct fuel} : res (str * list ast) :=
  match fuel with O => OOF | S f =>
    expr_array_loop_body f (lexrec f) (mkrec (prog_loop f) (expr f) (expr_loop f) (fn_lit f) (factor f) (apply_adverbs f)
                                             (read_fn_args f) (fn_args_loop f) (read_cond f) (expr_array_loop f)) s acc end.

Definition parserec (f : nat) : parsefuns :=
  mkrec (prog_loop f) (expr f) (expr_loop f) (fn_lit f) (factor f) (apply_adverbs f)
        (read_fn_args f) (fn_args_loop f) (read_cond f) (expr_array_loop f).

(* KlongInterpreter.prog(t) *)
Definition prog (fuel : nat) (t : str) : res (str * list ast) := prog_loop fuel false t [].

End WithEnv.

(* fuel that the theorems show to be enough for a text of n characters *)
Definition fuel_for (n : nat) : nat := (6 * n + 6)%nat.

(* ---------------------------------------------------------------- ASCII instance of the character classes *)
Definition ascii_isspace (c : Z) : bool := ((9 <=? c) && (c <=? 13)) || ((28 <=? c) && (c <=? 32)).
Definition ascii_isdigit (c : Z) : bool := (48 <=? c) && (c <=? 57).
Definition ascii_isalpha (c : Z) : bool := ((65 <=? c) && (c <=? 90)) || ((97 <=? c) && (c <=? 122)).

(* Python float()/int() on the texts read_num can produce over ASCII:
   -?digits[.digits*][e[+-]digits] ; state machine over the text after the optional '-' *)
Fixpoint float_ok (st : nat) (s : str) : bool :=
  match s with
  | [] => match st with 1%nat | 2%nat | 3%nat | 6%nat => true | _ => false end
  | c :: r =>
      let dg := ascii_isdigit c in
      match st with
      | 0%nat => if dg then float_ok 1%nat r else false
      | 1%nat => if dg then float_ok 1%nat r else if c =? 46 then float_ok 2%nat r else if c =? 101 then float_ok 4%nat r else false
      | 2%nat => if dg then float_ok 3%nat r else if c =? 101 then float_ok 4%nat r else false
      | 3%nat => if dg then float_ok 3%nat r else if c =? 101 then float_ok 4%nat r else false
      | 4%nat => if dg then float_ok 6%nat r else if (c =? 43) || (c =? 45) then float_ok 5%nat r else false
      | 5%nat => if dg then float_ok 6%nat r else false
      | _ => if dg then float_ok 6%nat r else false
      end
  end.

Definition ascii_num_ok (txt : str) (uf : bool) : bool :=
  let body := match txt with c :: r => if c =? 45 then r else txt | [] => txt end in
  if uf then float_ok 0 body else (negb (match body with [] => true | _ => false end) && forallb ascii_isdigit body).
