(* C12/Cost.v — the parser model instrumented with a step counter (T12.cost).  No proofs here.

   Every function of Model.v has a twin `X_c` that returns the same result together with a cost:
     * 1 for every call of a fuel-indexed function (kg_read, read_list, its loop, skip, the ten parser
       functions, adverb_tail) and 1 for every cexpect;
     * the number of characters inspected by every one-character-per-iteration loop: a loop that went from
       suffix s to suffix s' costs |s| - |s'| + 1  (skip_space, read_shifted_comment, read_num, read_string,
       read_sym, read_op, the peek_adverb loop);
     * read_sys_comment: |s|+1 for `t[i:].index(a)` and |s'|+1 for every iteration of the marker loop
       (the slice `t[i+j+1:]` and the startswith test).
   Not counted: the walks over already built trees (get_fn_arity, list_to_dict, has_none) and the
   number-text conversion.
   The bodies below are the bodies of Model.v, transformed textually (harness/c12.py:regen_cost_model):
   Ok -> cret, Err -> cerr, let* -> let+, scanners wrapped in `scanned`, `tick 1` in front.
   CostProofs.v proves erase (X_c ...) = X ...   and the quadratic bound. *)
From Coq Require Import ZArith List Bool.
From KB Require Import Sx.
From C12 Require Import Model.
Import ListNotations.
Open Scope Z_scope.

Inductive cres (A : Type) : Type := COk (c : nat) (a : A) | CErr (c : nat) (e : err) | COOF.
Arguments COk {A} c a.
Arguments CErr {A} c e.
Arguments COOF {A}.

Definition tick {A} (n : nat) (r : cres A) : cres A :=
  match r with COk c a => COk (n + c) a | CErr c e => CErr (n + c) e | COOF => COOF end.
Definition cbind {A B} (r : cres A) (k : A -> cres B) : cres B :=
  match r with COk c a => tick c (k a) | CErr c e => CErr c e | COOF => COOF end.
Notation "'let+' x ':=' r 'in' k" := (cbind r (fun x => k))
  (at level 200, x pattern, r at level 100, k at level 200).
Definition cret {A} (a : A) : cres A := COk 0 a.
Definition cerr {A} (e : err) : cres A := CErr 0 e.
Definition lift {A} (r : res A) : cres A :=
  match r with Ok a => COk 0 a | Err e => CErr 0 e | OOF => COOF end.
Definition erase {A} (r : cres A) : res A :=
  match r with COk _ a => Ok a | CErr _ e => Err e | COOF => OOF end.
Definition cost_of {A} (r : cres A) : nat :=
  match r with COk c _ => c | CErr c _ => c | COOF => O end.

(* characters inspected by a loop that went from suffix s to suffix s' *)
Definition sc (s s' : str) : nat := S (length s - length s').
Definition scanned {A} (s : str) (p : str * A) : cres (str * A) := COk (sc s (fst p)) p.
Definition cexpect_c (s : str) (c : Z) : cres str := tick 1 (lift (cexpect s c)).

Section WithEnv.
Variable E : env.
Local Notation is_symbolic := (Model.is_symbolic E).
Local Notation read_sym := (Model.read_sym E).
Local Notation mark_dyad := (Model.mark_dyad E).
Local Notation is_monad_op := (Model.is_monad_op E).
Local Notation peek_adverb := (Model.peek_adverb E).
Local Notation peek_more := (Model.peek_more E).
Local Notation get_fn_arity := (Model.get_fn_arity E).

Fixpoint skip_c (fuel : nat) (ign : bool) (s : str) : cres str :=
  match fuel with
  | O => COOF
  | S f =>
      let s1 := skip_space E ign s in
      tick (S (sc s s1))
        (if starts2 s1 58 34
         then let s2 := read_shifted_comment (tl (tl s1)) in tick (sc (tl (tl s1)) s2) (skip_c f false s2)
         else cret s1)
  end.

Definition num_rest (s : str) : str :=
  match s with
  | c :: s' => if c =? 45 then fst (fst (num_scan E s' [c] false)) else fst (fst (num_scan E s [] false))
  | [] => fst (fst (num_scan E s [] false))
  end.
Definition read_num_c (s : str) : cres (str * ast) := tick (sc s (num_rest s)) (lift (read_num E s)).

Fixpoint comment_run_c (fuel : nat) (a s : str) (j : nat) : cres nat :=
  match fuel with
  | O => COOF
  | S f =>
      tick (S (length s))
        (if (if comment_guard E then negb (match a with [] => true | _ => false end) else true) && starts_with a s
         then comment_run_c f a (tl s) (S j)
         else cret j)
  end.

Definition read_sys_comment_c (fuel : nat) (s a : str) : cres str :=
  tick (S (length s))
    (match find_sub a s with
     | None => cerr ERuntime
     | Some j => let+ j' := comment_run_c fuel a (skipn (S j) s) j in cret (skipn (j' + length a) s)
     end).

Record clexfuns := {
  cl_kg_read : bool -> bool -> str -> cres (str * ast);
  cl_read_list : Z -> str -> cres (str * list ast);
  cl_read_list_loop : Z -> str -> list ast -> cres (str * list ast)
}.

Definition kg_read_body_c (f : nat) (R : clexfuns) (read_neg ign : bool) (s : str) : cres (str * ast) :=
  tick 1 (
  let+ s1 := skip_c f ign s in
  match s1 with
  | [] => cret (s1, ANone)
  | a0 :: r =>
      let a := if a0 =? 10 then 59 else a0 in
      if z_in a (delims E) then cret (r, AStr [a])
      else if starts2 s1 48 99 then lift (read_char s1)
      else if isnumeric E a || (read_neg && (a =? 45) && match r with d :: _ => isnumeric E d | [] => false end)
      then read_num_c s1
      else if a =? 34 then scanned r (read_string r [])
      else
        match (if a =? 58 then r else []) with
        | aa :: r2 =>
            if isalpha E aa || (aa =? 46) then scanned r (read_sym r)
            else if isnumeric E aa || (aa =? 34) then cl_kg_read R false ign r
            else if aa =? 123 then
              let+ (s2, d) := cl_read_list R 125 r2 in
              let+ kv := lift (map_res dict_entry d) in
              cret (s2, ADict kv)
            else if aa =? 91 then cret (r2, AStr [58; 91])
            else if aa =? 124 then cret (r2, AStr [58; 124])
            else cret (r2, AOp [58; aa] 0)
        | [] =>
            if a =? 91 then
              let+ (s2, l) := cl_read_list R 93 r in cret (s2, AList l)
            else if is_symbolic a then scanned s1 (read_sym s1)
            else scanned s1 (read_op s1)
        end
  end).

Definition read_list_body_c (f : nat) (R : clexfuns) (delim : Z) (s : str) : cres (str * list ast) :=
  tick 1 (
  let+ s1 := skip_c f true s in
  cl_read_list_loop R delim s1 []).

Definition read_list_loop_body_c (f : nat) (R : clexfuns) (delim : Z) (s : str) (acc : list ast) : cres (str * list ast) :=
  tick 1 (
  if starts1 s delim || match s with [] => true | _ => false end
  then cret (if starts1 s delim then tl s else s, rev acc)
  else
    let+ (s1, q) := cl_kg_read R true true s in
    if is_none q then cret (if starts1 s1 delim then tl s1 else s1, rev acc)
    else
      let+ s3 := skip_c f true s1 in
      cl_read_list_loop R delim s3 (q :: acc)).


Fixpoint kg_read_c (fuel : nat) (read_neg ign : bool) (s : str) {struct fuel} : cres (str * ast) :=
  match fuel with
  | O => COOF
  | S f => kg_read_body_c f {| cl_kg_read := kg_read_c f; cl_read_list := read_list_c f; cl_read_list_loop := read_list_loop_c f |}
             read_neg ign s
  end
with read_list_c (fuel : nat) (delim : Z) (s : str) {struct fuel} : cres (str * list ast) :=
  match fuel with
  | O => COOF
  | S f => read_list_body_c f {| cl_kg_read := kg_read_c f; cl_read_list := read_list_c f; cl_read_list_loop := read_list_loop_c f |}
             delim s
  end
with read_list_loop_c (fuel : nat) (delim : Z) (s : str) (acc : list ast) {struct fuel} : cres (str * list ast) :=
  match fuel with
  | O => COOF
  | S f => read_list_loop_body_c f {| cl_kg_read := kg_read_c f; cl_read_list := read_list_c f; cl_read_list_loop := read_list_loop_c f |}
             delim s acc
  end.

Definition clexrec (f : nat) : clexfuns :=
  {| cl_kg_read := kg_read_c f; cl_read_list := read_list_c f; cl_read_list_loop := read_list_loop_c f |}.


Record cparsefuns := {
  cp_prog_loop : bool -> str -> list ast -> cres (str * list ast);
  cp_expr : bool -> str -> cres (str * ast);
  cp_expr_loop : bool -> str -> ast -> str -> ast -> cres (str * ast);
  cp_fn_lit : str -> cres (str * ast);
  cp_factor : bool -> str -> cres (str * ast);
  cp_apply_adverbs : str -> ast -> str -> nat -> bool -> ast -> cres (str * ast);
  cp_read_fn_args : str -> cres (str * list ast);
  cp_fn_args_loop : str -> str -> list ast -> cres (str * list ast);
  cp_read_cond : str -> cres (str * ast);
  cp_expr_array_loop : str -> list ast -> cres (str * list ast)
}.

(* KlongInterpreter.prog: the while loop *)
Definition prog_loop_body_c (f : nat) (L : clexfuns) (R : cparsefuns) (ign : bool) (s : str) (acc : list ast) : cres (str * list ast) :=
  tick 1 (
  match s with
  | [] => cret (s, rev acc)
  | _ :: _ =>
      let+ (s1, q) := cp_expr R ign s in
      if is_none q || str_is q [59] then cp_prog_loop R ign s1 acc
      else
        let+ (ii, c) := cl_kg_read L false ign s1 in
        if str_is c [59] then cp_prog_loop R ign ii (q :: acc) else cret (s1, rev (q :: acc))
  end).

(* KlongInterpreter._expr up to its while loop *)
Definition expr_body_c (f : nat) (L : clexfuns) (R : cparsefuns) (ign : bool) (s : str) : cres (str * ast) :=
  tick 1 (
  let+ (s1, a) := cp_factor R ign s in
  if is_none a || str_is a [59] then cret (s1, a)
  else
    let+ (ii, aa) := cl_kg_read L false ign s1 in
    cp_expr_loop R ign s1 a ii (mark_dyad aa)).

(* the while loop of _expr: i, a = current position and left operand; (ii, aa) = the token peeked at i *)
Definition expr_loop_body_c (f : nat) (L : clexfuns) (R : cparsefuns) (ign : bool) (i : str) (a : ast) (ii : str) (aa : ast) : cres (str * ast) :=
  tick 1 (
  if is_op aa || is_sym aa || str_is aa [123] then
    let+ (i1, aa1) :=
      if str_is aa [123] then cp_fn_lit R ii
      else if is_sym aa && starts_call ii then
        let+ (i2, fa) := cp_read_fn_args R ii in cret (i2, mk_call aa fa (length fa))
      else cret (ii, aa) in
    let '(i3, adv) := peek_adverb i1 in
    let+ (i4, a1) :=
      match adv with
      | Some av => cp_apply_adverbs R i3 aa1 av 2%nat true a
      | None => let+ (i5, aaa) := cp_expr R ign i1 in cret (i5, AFn aa1 (APy [a; aaa]) 2)
      end in
    let+ (ii2, aa2) := cl_kg_read L false ign i4 in
    cp_expr_loop R ign i4 a1 ii2 aa2
  else if ign && str_is a [10] then let+ i1 := skip_c f true i in cret (i1, a)
  else cret (i, a)).

(* the text after '{' up to the KGFn/KGCall built from it (same code in _factor and _expr) *)
Definition fn_lit_body_c (f : nat) (L : clexfuns) (R : cparsefuns) (s : str) : cres (str * ast) :=
  tick 1 (
  let+ (s2, p) := cp_prog_loop R true s [] in
  let a1 := match p with [x] => x | _ => APy p end in
  let+ s3 := skip_c f true s2 in
  let+ s4 := cexpect_c s3 125 in
  let+ ar := lift (get_fn_arity a1) in
  if starts_call s4 then
    let+ (s5, fa) := cp_read_fn_args R s4 in cret (s5, mk_call a1 fa ar)
  else cret (s4, AFn a1 ANone ar)).

(* `ii, aa = peek_adverb(t, i); if aa: i, a = self._apply_adverbs(t, ii, a, aa, arity=1)` *)
Definition adverb_tail_c (R : cparsefuns) (s0 : str) (a0 : ast) : cres (str * ast) :=
  tick 1 (
  let '(i3, adv) := peek_adverb s0 in
  match adv with
  | Some av => cp_apply_adverbs R i3 a0 av 1%nat false ANone
  | None => cret (s0, a0)
  end).

(* KlongInterpreter._factor *)
Definition factor_body_c (f : nat) (L : clexfuns) (R : cparsefuns) (ign : bool) (s : str) : cres (str * ast) :=
  tick 1 (
  let+ ii := skip_c f ign s in
  if starts2 ii 91 59 then
    let+ s0 := skip_c f true (tl (tl ii)) in
    let+ (s1, ex) := cp_expr_array_loop R s0 [] in cret (s1, AExprArr ex)
  else
    let+ (s1, a) := cl_kg_read L false ign s in
    if is_none a then cret (s1, a)
    else if str_is a [123] then
      let+ (s2, a2) := cp_fn_lit R s1 in adverb_tail_c R s2 a2
    else if is_sym a then
      if starts_call s1 then
        let+ (s2, fa) := cp_read_fn_args R s1 in
        let a2 := mk_call a fa (length fa) in
        if sym_is a dot_comment then
          let+ m := lift (comment_marker fa) in
          let+ s3 := read_sys_comment_c f s2 m in
          cp_factor R ign s3
        else
          let+ _ := (if sym_is a dot_module
                     then match fa with [] => cerr EIndex | _ :: _ => cret tt end else cret tt) in
          adverb_tail_c R s2 a2
      else adverb_tail_c R s1 a
    else if is_monad_op a then
      let a1 := set_arity a 1 in
      let '(i3, adv) := peek_adverb s1 in
      match adv with
      | Some av => cp_apply_adverbs R i3 a1 av 1%nat false ANone
      | None => let+ (s2, aa) := cp_expr R ign s1 in cret (s2, AFn a1 aa 1)
      end
    else if str_is a [40] then
      let+ (s2, a2) := cp_expr R ign s1 in
      let+ s3 := cexpect_c s2 41 in cret (s3, a2)
    else if str_is a [58; 91] then cp_read_cond R s1
    else cret (s1, a)).

(* KlongInterpreter._apply_adverbs *)
Definition apply_adverbs_body_c (f : nat) (L : clexfuns) (R : cparsefuns) (s : str) (a : ast) (aa : str) (arity : nat) (dyad : bool) (dv : ast)
  : cres (str * ast) :=
  tick 1 (
  let aa_ar := adverb_arity E aa arity in
  let '(s1, more) := peek_more s in
  let arr := AAdverb (set_arity a aa_ar) aa_ar :: AAdverb (AStr aa) arity
             :: map (fun x => AAdverb (AStr x) 1) more in
  tick (sc s s1) (
  let+ (s2, e) := cp_expr R false s1 in
  cret (s2, ACall (APy (arr ++ [if dyad then APy [dv; e] else e])) ANone (if dyad then 2 else 1)%nat))).

(* KlongInterpreter._read_fn_args up to its while loop *)
Definition read_fn_args_body_c (f : nat) (L : clexfuns) (R : cparsefuns) (s : str) : cres (str * list ast) :=
  tick 1 (
  let+ s1 := (if starts1 s 40 then cret (tl s) else if starts2 s 58 40 then cret (tl (tl s)) else cerr EChar) in
  if starts1 s1 41 then cret (tl s1, [])
  else cp_fn_args_loop R s1 s1 []).

(* the `while True` of _read_fn_args; k = position after '(' or after the last ';' *)
Definition fn_args_loop_body_c (f : nat) (L : clexfuns) (R : cparsefuns) (s k : str) (acc : list ast) : cres (str * list ast) :=
  tick 1 (
  let+ (ii, c) := cl_kg_read L false true s in
  if str_is c [59] then cp_fn_args_loop R ii ii (if adjacent k ii then ANone :: acc else acc)
  else if str_is c [41] then
    let+ s' := cexpect_c s 41 in cret (s', rev (if adjacent k ii then ANone :: acc else acc))
  else
    let+ (s1, a) := cp_expr R true s in
    if is_none a then let+ s' := cexpect_c s1 41 in cret (s', rev acc)
    else cp_fn_args_loop R s1 k (a :: acc)).

(* parser.read_cond *)
Definition read_cond_body_c (f : nat) (L : clexfuns) (R : cparsefuns) (s : str) : cres (str * ast) :=
  tick 1 (
  let+ (s1, n1) := cp_expr R true s in
  let+ s2 := cexpect_c s1 59 in
  let+ (s3, n2) := cp_expr R true s2 in
  let+ s4 := skip_c f true s3 in
  if starts2 s4 58 124 then
    let+ (s5, n3) := cp_read_cond R (tl (tl s4)) in cret (s5, ACond [n1; n2; n3])
  else
    let+ s5 := cexpect_c s4 59 in
    let+ (s6, n3) := cp_expr R true s5 in
    let+ s7 := skip_c f true s6 in
    let+ s8 := cexpect_c s7 93 in
    cret (s8, ACond [n1; n2; n3])).

(* the while loop of parser.read_expr_array *)
Definition expr_array_loop_body_c (f : nat) (L : clexfuns) (R : cparsefuns) (s : str) (acc : list ast) : cres (str * list ast) :=
  tick 1 (
  if starts1 s 93 || match s with [] => true | _ => false end
  then cret (if starts1 s 93 then tl s else s, rev acc)
  else
    let+ (s1, e) := cp_expr R true s in
    let acc' := if is_none e then acc else e :: acc in
    let+ s2 := skip_c f true s1 in
    if starts1 s2 59 then
      let+ s3 := skip_c f true (tl s2) in cp_expr_array_loop R s3 acc'
    else if starts1 s2 93 then cret (tl s2, rev acc')
    else cp_expr_array_loop R s2 acc').


Section CKnot.
Variable f : nat.
Variables (prog_loop_f : bool -> str -> list ast -> cres (str * list ast))
          (expr_f : bool -> str -> cres (str * ast))
          (expr_loop_f : bool -> str -> ast -> str -> ast -> cres (str * ast))
          (fn_lit_f : str -> cres (str * ast))
          (factor_f : bool -> str -> cres (str * ast))
          (apply_adverbs_f : str -> ast -> str -> nat -> bool -> ast -> cres (str * ast))
          (read_fn_args_f : str -> cres (str * list ast))
          (fn_args_loop_f : str -> str -> list ast -> cres (str * list ast))
          (read_cond_f : str -> cres (str * ast))
          (expr_array_loop_f : str -> list ast -> cres (str * list ast)).
Definition cmkrec : cparsefuns :=
  {| cp_prog_loop := prog_loop_f; cp_expr := expr_f; cp_expr_loop := expr_loop_f; cp_fn_lit := fn_lit_f;
     cp_factor := factor_f; cp_apply_adverbs := apply_adverbs_f; cp_read_fn_args := read_fn_args_f;
     cp_fn_args_loop := fn_args_loop_f; cp_read_cond := read_cond_f; cp_expr_array_loop := expr_array_loop_f |}.
End CKnot.

(* tying the knot: X (S f) = X_body f (lexer at fuel f) (the ten parser functions at fuel f) *)
Fixpoint prog_loop_c (fuel : nat) (ign : bool) (s : str) (acc : list ast) {struct fuel} : cres (str * list ast) :=
  match fuel with O => COOF | S f =>
    prog_loop_body_c f (clexrec f) (cmkrec (prog_loop_c f) (expr_c f) (expr_loop_c f) (fn_lit_c f) (factor_c f) (apply_adverbs_c f)
                                       (read_fn_args_c f) (fn_args_loop_c f) (read_cond_c f) (expr_array_loop_c f)) ign s acc end
with expr_c (fuel : nat) (ign : bool) (s : str) {struct fuel} : cres (str * ast) :=
  match fuel with O => COOF | S f =>
    expr_body_c f (clexrec f) (cmkrec (prog_loop_c f) (expr_c f) (expr_loop_c f) (fn_lit_c f) (factor_c f) (apply_adverbs_c f)
                                  (read_fn_args_c f) (fn_args_loop_c f) (read_cond_c f) (expr_array_loop_c f)) ign s end
with expr_loop_c (fuel : nat) (ign : bool) (i : str) (a : ast) (ii : str) (aa : ast) {struct fuel} : cres (str * ast) :=
  match fuel with O => COOF | S f =>
    expr_loop_body_c f (clexrec f) (cmkrec (prog_loop_c f) (expr_c f) (expr_loop_c f) (fn_lit_c f) (factor_c f) (apply_adverbs_c f)
                                       (read_fn_args_c f) (fn_args_loop_c f) (read_cond_c f) (expr_array_loop_c f)) ign i a ii aa end
with fn_lit_c (fuel : nat) (s : str) {struct fuel} : cres (str * ast) :=
  match fuel with O => COOF | S f =>
    fn_lit_body_c f (clexrec f) (cmkrec (prog_loop_c f) (expr_c f) (expr_loop_c f) (fn_lit_c f) (factor_c f) (apply_adverbs_c f)
                                    (read_fn_args_c f) (fn_args_loop_c f) (read_cond_c f) (expr_array_loop_c f)) s end
with factor_c (fuel : nat) (ign : bool) (s : str) {struct fuel} : cres (str * ast) :=
  match fuel with O => COOF | S f =>
    factor_body_c f (clexrec f) (cmkrec (prog_loop_c f) (expr_c f) (expr_loop_c f) (fn_lit_c f) (factor_c f) (apply_adverbs_c f)
                                    (read_fn_args_c f) (fn_args_loop_c f) (read_cond_c f) (expr_array_loop_c f)) ign s end
with apply_adverbs_c (fuel : nat) (s : str) (a : ast) (aa : str) (arity : nat) (dyad : bool) (dv : ast) {struct fuel}
  : cres (str * ast) :=
  match fuel with O => COOF | S f =>
    apply_adverbs_body_c f (clexrec f) (cmkrec (prog_loop_c f) (expr_c f) (expr_loop_c f) (fn_lit_c f) (factor_c f) (apply_adverbs_c f)
                                           (read_fn_args_c f) (fn_args_loop_c f) (read_cond_c f) (expr_array_loop_c f))
                       s a aa arity dyad dv end
with read_fn_args_c (fuel : nat) (s : str) {struct fuel} : cres (str * list ast) :=
  match fuel with O => COOF | S f =>
    read_fn_args_body_c f (clexrec f) (cmkrec (prog_loop_c f) (expr_c f) (expr_loop_c f) (fn_lit_c f) (factor_c f) (apply_adverbs_c f)
                                          (read_fn_args_c f) (fn_args_loop_c f) (read_cond_c f) (expr_array_loop_c f)) s end
with fn_args_loop_c (fuel : nat) (s k : str) (acc : list ast) {struct fuel} : cres (str * list ast) :=
  match fuel with O => COOF | S f =>
    fn_args_loop_body_c f (clexrec f) (cmkrec (prog_loop_c f) (expr_c f) (expr_loop_c f) (fn_lit_c f) (factor_c f) (apply_adverbs_c f)
                                          (read_fn_args_c f) (fn_args_loop_c f) (read_cond_c f) (expr_array_loop_c f)) s k acc end
with read_cond_c (fuel : nat) (s : str) {struct fuel} : cres (str * ast) :=
  match fuel with O => COOF | S f =>
    read_cond_body_c f (clexrec f) (cmkrec (prog_loop_c f) (expr_c f) (expr_loop_c f) (fn_lit_c f) (factor_c f) (apply_adverbs_c f)
                                       (read_fn_args_c f) (fn_args_loop_c f) (read_cond_c f) (expr_array_loop_c f)) s end
with expr_array_loop_c (fuel : nat) (s : str) (acc : list ast) {struct fuel} : cres (str * list ast) :=
  match fuel with O => COOF | S f =>
    expr_array_loop_body_c f (clexrec f) (cmkrec (prog_loop_c f) (expr_c f) (expr_loop_c f) (fn_lit_c f) (factor_c f) (apply_adverbs_c f)
                                             (read_fn_args_c f) (fn_args_loop_c f) (read_cond_c f) (expr_array_loop_c f)) s acc end.

Definition cparserec (f : nat) : cparsefuns :=
  cmkrec (prog_loop_c f) (expr_c f) (expr_loop_c f) (fn_lit_c f) (factor_c f) (apply_adverbs_c f)
        (read_fn_args_c f) (fn_args_loop_c f) (read_cond_c f) (expr_array_loop_c f).


Definition prog_c (fuel : nat) (t : str) : cres (str * list ast) := prog_loop_c fuel false t [].

End WithEnv.
