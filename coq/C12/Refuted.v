(* C12/Refuted.v — the pre-fix parser (marker loop of read_sys_comment not guarded) never terminates on
   .comment("") : for EVERY fuel the result is OutOfFuel.  (R6; repaired in /repo by a fix: commit.) *)
From Coq Require Import ZArith List Bool Lia.
From KB Require Import Sx.
From C12 Require Import Generated Model Env Proofs.
Import ListNotations.
Open Scope Z_scope.

Section Gap.
Variable E : env.

Lemma skip_mono_le : forall f f' ign s, (f <= f')%nat -> le_res (skip E f ign s) (skip E f' ign s).
Proof.
  intros f f' ign s H. induction H as [|f' H IH]; [apply le_refl|].
  eapply le_trans; [exact IH|apply skip_mono].
Qed.

Lemma kg_read_mono_le : forall f f' rn ign s, (f <= f')%nat -> le_res (kg_read E f rn ign s) (kg_read E f' rn ign s).
Proof.
  intros f f' rn ign s H. induction H as [|f' H IH]; [apply le_refl|].
  eapply le_trans; [exact IH|]. exact (proj1 (lex_mono_step E f') rn ign s).
Qed.

Lemma read_fn_args_mono_le : forall f f' s, (f <= f')%nat -> le_res (read_fn_args E f s) (read_fn_args E f' s).
Proof.
  intros f f' s H. induction H as [|f' H IH]; [apply le_refl|].
  eapply le_trans; [exact IH|].
  pose proof (parse_mono_step E f') as (_ & _ & _ & _ & _ & _ & Hargs & _). exact (Hargs s).
Qed.
End Gap.

(* a fuel-indexed computation that is monotone and has the value v at some fuel is, at every fuel,
   either out of fuel or v *)
Lemma determined : forall A (X : nat -> res A) v N,
  (forall f f', (f <= f')%nat -> le_res (X f) (X f')) -> X N = Ok v -> forall f, le_res (X f) (Ok v).
Proof.
  intros A X v N Hm HN f. destruct (Nat.le_ge_cases f N) as [H|H].
  - rewrite <- HN. apply Hm. exact H.
  - right. specialize (Hm N f H). rewrite HN in Hm. destruct Hm as [Hm|Hm]; [discriminate|]. symmetry. exact Hm.
Qed.

Definition E0 : env := env_with_guard genv false.
(* .comment("") *)
Definition r6_text : str := [46; 99; 111; 109; 109; 101; 110; 116; 40; 34; 34; 41].
Definition r6_args : str := [40; 34; 34; 41].      (* ("") *)

Ltac ev t := let v := eval vm_compute in t in change t with v.

Lemma r6_skip : forall f, le_res (skip E0 f false r6_text) (Ok r6_text).
Proof. apply (determined _ (fun f => skip E0 f false r6_text) _ 5%nat); [intros; apply skip_mono_le; assumption|reflexivity]. Qed.

Lemma r6_kg_read : forall f, le_res (kg_read E0 f false false r6_text) (Ok (r6_args, ASym dot_comment)).
Proof.
  apply (determined _ (fun f => kg_read E0 f false false r6_text) _ 5%nat);
    [intros; apply kg_read_mono_le; assumption|vm_compute; reflexivity].
Qed.

Lemma r6_args_read : forall f, le_res (read_fn_args E0 f r6_args) (Ok ([], [AStr []])).
Proof.
  apply (determined _ (fun f => read_fn_args E0 f r6_args) _ 20%nat);
    [intros; apply read_fn_args_mono_le; assumption|vm_compute; reflexivity].
Qed.

Lemma r6_factor : forall f ign, factor E0 f ign r6_text = OOF.
Proof.
  intros [|f] ign; [reflexivity|]. rewrite factor_S. unfold factor_body.
  assert (Hs : le_res (skip E0 f ign r6_text) (Ok r6_text)).
  { destruct ign; [|apply r6_skip].
    apply (determined _ (fun f => skip E0 f true r6_text) _ 5%nat); [intros; apply skip_mono_le; assumption|reflexivity]. }
  destruct Hs as [Hs|Hs]; rewrite Hs; [reflexivity|]. cbn [bind].
  ev (starts2 r6_text 91 59). cbv iota.
  change (l_kg_read (lexrec E0 f) false ign r6_text) with (kg_read E0 f false ign r6_text).
  assert (Hk : le_res (kg_read E0 f false ign r6_text) (Ok (r6_args, ASym dot_comment))).
  { destruct ign; [|apply r6_kg_read].
    apply (determined _ (fun f => kg_read E0 f false true r6_text) _ 5%nat);
      [intros; apply kg_read_mono_le; assumption|vm_compute; reflexivity]. }
  destruct Hk as [Hk|Hk]; rewrite Hk; [reflexivity|]. cbn [bind].
  ev (is_none (ASym dot_comment)). ev (str_is (ASym dot_comment) [123]). ev (is_sym (ASym dot_comment)).
  ev (starts_call r6_args). cbv iota.
  change (p_read_fn_args (parserec E0 f) r6_args) with (read_fn_args E0 f r6_args).
  destruct (r6_args_read f) as [Ha|Ha]; rewrite Ha; [reflexivity|]. cbn [bind].
  ev (sym_is (ASym dot_comment) dot_comment). cbv iota.
  ev (comment_marker [AStr []]). cbn [bind].
  rewrite (read_sys_comment_unguarded_loops E0 eq_refl). reflexivity.
Qed.

Lemma r6_expr : forall f ign, expr E0 f ign r6_text = OOF.
Proof.
  intros [|f] ign; [reflexivity|]. rewrite expr_S. unfold expr_body.
  change (p_factor (parserec E0 f) ign r6_text) with (factor E0 f ign r6_text).
  rewrite r6_factor. reflexivity.
Qed.

Lemma r6_prog : forall fuel, prog E0 fuel r6_text = OOF.
Proof.
  intros [|f]; [reflexivity|]. unfold prog. rewrite prog_loop_S. unfold prog_loop_body, r6_text at 1.
  change (p_expr (parserec E0 f) false) with (expr E0 f false). fold r6_text.
  rewrite r6_expr. reflexivity.
Qed.

(* T12.pure over (text, module): the module in which a text is parsed is part of the environment *)
Lemma prog_fuel_irrelevant_module : forall E m, z_in 59 (delims E) = true -> comment_guard E = true ->
  forall t f1 f2, (f1 >= fuel_for (length t))%nat -> (f2 >= fuel_for (length t))%nat ->
  prog (env_with_module E m) f1 t = prog (env_with_module E m) f2 t /\ prog (env_with_module E m) f1 t <> OOF.
Proof.
  intros E m H1 H2 t f1 f2 Hf1 Hf2.
  assert (G1 : z_in 59 (delims (env_with_module E m)) = true) by exact H1.
  assert (G2 : comment_guard (env_with_module E m) = true) by exact H2.
  rewrite (prog_fuel_irrelevant _ G1 G2 t f1 Hf1), (prog_fuel_irrelevant _ G1 G2 t f2 Hf2).
  split; [reflexivity|apply prog_never_oof; assumption].
Qed.
