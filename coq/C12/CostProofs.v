(* C12/CostProofs.v — T12.cost: the instrumented parser (Cost.v) returns the results of the model (erasure),
   and its cost is bounded by a quadratic polynomial in the length of the text. *)
From Coq Require Import ZArith List Bool Lia.
From KB Require Import Sx.
From C12 Require Import Model Proofs Cost.
Import ListNotations.
Open Scope Z_scope.

(* ------------------------------------------------------------------ erasure: generic *)
Lemma erase_tick : forall A n (r : cres A), erase (tick n r) = erase r.
Proof. intros A n [c a|c e|]; reflexivity. Qed.
Lemma erase_bind : forall A B (r : cres A) (k : A -> cres B),
  erase (cbind r k) = bind (erase r) (fun a => erase (k a)).
Proof. intros A B [c a|c e|] k; cbn; [apply erase_tick|reflexivity|reflexivity]. Qed.
Lemma erase_lift : forall A (r : res A), erase (lift r) = r.
Proof. intros A [a|e|]; reflexivity. Qed.
Lemma erase_cexpect : forall s c, erase (cexpect_c s c) = cexpect s c.
Proof. intros. unfold cexpect_c. rewrite erase_tick. apply erase_lift. Qed.
Lemma bind_ext : forall A B (r r' : res A) (k k' : A -> res B),
  r = r' -> (forall a, k a = k' a) -> bind r k = bind r' k'.
Proof. intros A B r r' k k' -> H. destruct r'; cbn; auto. Qed.

Ltac er_step :=
  first
    [ reflexivity
    | rewrite erase_tick
    | rewrite erase_lift
    | rewrite erase_cexpect
    | solve [auto]
    | rewrite erase_bind; apply bind_ext; [ | intros ? ]
    | match goal with
      | |- erase (match ?x with _ => _ end) = _ => destruct x; cbv beta iota zeta
      end ].
Ltac er := cbv beta iota zeta; repeat er_step.

Section Erase.
Variable E : env.

Lemma erase_skip : forall f ign s, erase (skip_c E f ign s) = skip E f ign s.
Proof.
  induction f as [|f IH]; intros ign s; [reflexivity|].
  cbn [skip_c skip]. er.
Qed.

Lemma erase_read_num : forall s, erase (read_num_c E s) = read_num E s.
Proof. intros. unfold read_num_c. er. Qed.

Lemma erase_comment_run : forall f a s j, erase (comment_run_c E f a s j) = comment_run E f a s j.
Proof.
  induction f as [|f IH]; intros a s j; [reflexivity|].
  cbn [comment_run_c comment_run]. er.
Qed.

Lemma erase_read_sys_comment : forall f s a, erase (read_sys_comment_c E f s a) = read_sys_comment E f s a.
Proof. intros. unfold read_sys_comment_c, read_sys_comment. pose proof erase_comment_run. er. Qed.

Definition er_lex (C : clexfuns) (R : lexfuns) : Prop :=
  (forall rn ign s, erase (cl_kg_read C rn ign s) = l_kg_read R rn ign s) /\
  (forall d s, erase (cl_read_list C d s) = l_read_list R d s) /\
  (forall d s acc, erase (cl_read_list_loop C d s acc) = l_read_list_loop R d s acc).

Definition er_parse (C : cparsefuns) (R : parsefuns) : Prop :=
  (forall ign s acc, erase (cp_prog_loop C ign s acc) = p_prog_loop R ign s acc) /\
  (forall ign s, erase (cp_expr C ign s) = p_expr R ign s) /\
  (forall ign i a ii aa, erase (cp_expr_loop C ign i a ii aa) = p_expr_loop R ign i a ii aa) /\
  (forall s, erase (cp_fn_lit C s) = p_fn_lit R s) /\
  (forall ign s, erase (cp_factor C ign s) = p_factor R ign s) /\
  (forall s a aa ar dy dv, erase (cp_apply_adverbs C s a aa ar dy dv) = p_apply_adverbs R s a aa ar dy dv) /\
  (forall s, erase (cp_read_fn_args C s) = p_read_fn_args R s) /\
  (forall s k acc, erase (cp_fn_args_loop C s k acc) = p_fn_args_loop R s k acc) /\
  (forall s, erase (cp_read_cond C s) = p_read_cond R s) /\
  (forall s acc, erase (cp_expr_array_loop C s acc) = p_expr_array_loop R s acc).

Section Step.
Variables (f : nat) (LC : clexfuns) (L : lexfuns) (RC : cparsefuns) (R : parsefuns).
Hypothesis HL : er_lex LC L.
Hypothesis HR : er_parse RC R.

Ltac prepL := pose proof erase_skip as Hskip; pose proof erase_read_num as Hnum; destruct HL as (Hkg & Hrl & Hrll).
Ltac prep := pose proof erase_skip as Hskip; pose proof erase_read_sys_comment as Hcom;
  destruct HL as (Hkg & Hrl & Hrll);
  destruct HR as (Hprog & Hexpr & Hloop & Hfnlit & Hfactor & Hadv & Hargs & Hargsl & Hcond & Hearr).

Lemma er_kg_read_body : forall rn ign s, erase (kg_read_body_c E f LC rn ign s) = kg_read_body E f L rn ign s.
Proof. intros. prepL. unfold kg_read_body_c, kg_read_body. er. Qed.
Lemma er_read_list_body : forall d s, erase (read_list_body_c E f LC d s) = read_list_body E f L d s.
Proof. intros. prepL. unfold read_list_body_c, read_list_body. er. Qed.
Lemma er_read_list_loop_body : forall d s acc,
  erase (read_list_loop_body_c E f LC d s acc) = read_list_loop_body E f L d s acc.
Proof. intros. prepL. unfold read_list_loop_body_c, read_list_loop_body. er. Qed.

Lemma er_prog_loop_body : forall ign s acc, erase (prog_loop_body_c f LC RC ign s acc) = prog_loop_body f L R ign s acc.
Proof. intros. prep. unfold prog_loop_body_c, prog_loop_body. er. Qed.
Lemma er_expr_body : forall ign s, erase (expr_body_c E f LC RC ign s) = expr_body E f L R ign s.
Proof. intros. prep. unfold expr_body_c, expr_body. er. Qed.
Lemma er_expr_loop_body : forall ign i a ii aa,
  erase (expr_loop_body_c E f LC RC ign i a ii aa) = expr_loop_body E f L R ign i a ii aa.
Proof. intros. prep. unfold expr_loop_body_c, expr_loop_body. er. Qed.
Lemma er_fn_lit_body : forall s, erase (fn_lit_body_c E f LC RC s) = fn_lit_body E f L R s.
Proof. intros. prep. unfold fn_lit_body_c, fn_lit_body. er. Qed.
Lemma er_adverb_tail : forall s a, erase (adverb_tail_c E RC s a) = adverb_tail E R s a.
Proof. intros. prep. unfold adverb_tail_c, adverb_tail. er. Qed.
Lemma er_factor_body : forall ign s, erase (factor_body_c E f LC RC ign s) = factor_body E f L R ign s.
Proof. intros. prep. pose proof er_adverb_tail as Htail. unfold factor_body_c, factor_body. er. Qed.
Lemma er_apply_adverbs_body : forall s a aa ar dy dv,
  erase (apply_adverbs_body_c E f LC RC s a aa ar dy dv) = apply_adverbs_body E f L R s a aa ar dy dv.
Proof. intros. prep. unfold apply_adverbs_body_c, apply_adverbs_body. er. Qed.
Lemma er_read_fn_args_body : forall s, erase (read_fn_args_body_c f LC RC s) = read_fn_args_body f L R s.
Proof. intros. prep. unfold read_fn_args_body_c, read_fn_args_body. er. Qed.
Lemma er_fn_args_loop_body : forall s k acc, erase (fn_args_loop_body_c f LC RC s k acc) = fn_args_loop_body f L R s k acc.
Proof. intros. prep. unfold fn_args_loop_body_c, fn_args_loop_body. er. Qed.
Lemma er_read_cond_body : forall s, erase (read_cond_body_c E f LC RC s) = read_cond_body E f L R s.
Proof. intros. prep. unfold read_cond_body_c, read_cond_body. er. Qed.
Lemma er_expr_array_loop_body : forall s acc,
  erase (expr_array_loop_body_c E f LC RC s acc) = expr_array_loop_body E f L R s acc.
Proof. intros. prep. unfold expr_array_loop_body_c, expr_array_loop_body. er. Qed.
End Step.

Lemma kg_read_c_S : forall f rn ign s, kg_read_c E (S f) rn ign s = kg_read_body_c E f (clexrec E f) rn ign s.
Proof. reflexivity. Qed.
Lemma read_list_c_S : forall f d s, read_list_c E (S f) d s = read_list_body_c E f (clexrec E f) d s.
Proof. reflexivity. Qed.
Lemma read_list_loop_c_S : forall f d s acc, read_list_loop_c E (S f) d s acc = read_list_loop_body_c E f (clexrec E f) d s acc.
Proof. reflexivity. Qed.
Lemma prog_loop_c_S : forall f ign s acc, prog_loop_c E (S f) ign s acc = prog_loop_body_c f (clexrec E f) (cparserec E f) ign s acc.
Proof. reflexivity. Qed.
Lemma expr_c_S : forall f ign s, expr_c E (S f) ign s = expr_body_c E f (clexrec E f) (cparserec E f) ign s.
Proof. reflexivity. Qed.
Lemma expr_loop_c_S : forall f ign i a ii aa, expr_loop_c E (S f) ign i a ii aa = expr_loop_body_c E f (clexrec E f) (cparserec E f) ign i a ii aa.
Proof. reflexivity. Qed.
Lemma fn_lit_c_S : forall f s, fn_lit_c E (S f) s = fn_lit_body_c E f (clexrec E f) (cparserec E f) s.
Proof. reflexivity. Qed.
Lemma factor_c_S : forall f ign s, factor_c E (S f) ign s = factor_body_c E f (clexrec E f) (cparserec E f) ign s.
Proof. reflexivity. Qed.
Lemma apply_adverbs_c_S : forall f s a aa ar dy dv, apply_adverbs_c E (S f) s a aa ar dy dv = apply_adverbs_body_c E f (clexrec E f) (cparserec E f) s a aa ar dy dv.
Proof. reflexivity. Qed.
Lemma read_fn_args_c_S : forall f s, read_fn_args_c E (S f) s = read_fn_args_body_c f (clexrec E f) (cparserec E f) s.
Proof. reflexivity. Qed.
Lemma fn_args_loop_c_S : forall f s k acc, fn_args_loop_c E (S f) s k acc = fn_args_loop_body_c f (clexrec E f) (cparserec E f) s k acc.
Proof. reflexivity. Qed.
Lemma read_cond_c_S : forall f s, read_cond_c E (S f) s = read_cond_body_c E f (clexrec E f) (cparserec E f) s.
Proof. reflexivity. Qed.
Lemma expr_array_loop_c_S : forall f s acc, expr_array_loop_c E (S f) s acc = expr_array_loop_body_c E f (clexrec E f) (cparserec E f) s acc.
Proof. reflexivity. Qed.

Lemma erase_lex : forall f, er_lex (clexrec E f) (lexrec E f).
Proof.
  induction f as [|f IH].
  - repeat split; intros; reflexivity.
  - unfold clexrec, lexrec. repeat split; cbn [cl_kg_read cl_read_list cl_read_list_loop l_kg_read l_read_list l_read_list_loop]; intros.
    + rewrite kg_read_c_S, kg_read_S. apply er_kg_read_body; assumption.
    + rewrite read_list_c_S, read_list_S. apply er_read_list_body; assumption.
    + rewrite read_list_loop_c_S, read_list_loop_S. apply er_read_list_loop_body; assumption.
Qed.

Lemma erase_parse : forall f, er_parse (cparserec E f) (parserec E f).
Proof.
  induction f as [|f IH].
  - unfold er_parse. repeat split; intros; reflexivity.
  - pose proof (erase_lex f) as HL. unfold er_parse, cparserec, parserec, cmkrec, mkrec.
    repeat split; cbn [cp_prog_loop cp_expr cp_expr_loop cp_fn_lit cp_factor cp_apply_adverbs cp_read_fn_args
                        cp_fn_args_loop cp_read_cond cp_expr_array_loop
                        p_prog_loop p_expr p_expr_loop p_fn_lit p_factor p_apply_adverbs p_read_fn_args
                        p_fn_args_loop p_read_cond p_expr_array_loop]; intros.
    + rewrite prog_loop_c_S, prog_loop_S. apply er_prog_loop_body; assumption.
    + rewrite expr_c_S, expr_S. apply er_expr_body; assumption.
    + rewrite expr_loop_c_S, expr_loop_S. apply er_expr_loop_body; assumption.
    + rewrite fn_lit_c_S, fn_lit_S. apply er_fn_lit_body; assumption.
    + rewrite factor_c_S, factor_S. apply er_factor_body; assumption.
    + rewrite apply_adverbs_c_S, apply_adverbs_S. apply er_apply_adverbs_body; assumption.
    + rewrite read_fn_args_c_S, read_fn_args_S. apply er_read_fn_args_body; assumption.
    + rewrite fn_args_loop_c_S, fn_args_loop_S. apply er_fn_args_loop_body; assumption.
    + rewrite read_cond_c_S, read_cond_S. apply er_read_cond_body; assumption.
    + rewrite expr_array_loop_c_S, expr_array_loop_S. apply er_expr_array_loop_body; assumption.
Qed.

(* the instrumented parser computes exactly the results of the model *)
Lemma erase_prog : forall fuel t, erase (prog_c E fuel t) = prog E fuel t.
Proof. intros fuel t. unfold prog_c, prog. exact (proj1 (erase_parse fuel) false t []). Qed.

End Erase.

(* ------------------------------------------------------------------ cost: generic *)
Definition cpost {A} (P : nat -> A -> Prop) (Q : nat -> Prop) (r : cres A) : Prop :=
  match r with COk c a => P c a | CErr c _ => Q c | COOF => True end.

Lemma cpost_tick : forall A (P : nat -> A -> Prop) (Q : nat -> Prop) n r,
  cpost (fun c a => P (n + c)%nat a) (fun c => Q (n + c)%nat) r -> cpost P Q (tick n r).
Proof. intros A P Q n [c a|c e|] H; cbn in *; auto. Qed.

Lemma cpost_bind : forall A B (P1 : nat -> A -> Prop) (Q1 : nat -> Prop) (P : nat -> B -> Prop) (Q : nat -> Prop) r k,
  cpost P1 Q1 r -> (forall c, Q1 c -> Q c) ->
  (forall c a, P1 c a -> cpost (fun c' b => P (c + c')%nat b) (fun c' => Q (c + c')%nat) (k a)) ->
  cpost P Q (cbind r k).
Proof.
  intros A B P1 Q1 P Q [c a|c e|] k H1 HQ Hk; cbn in *; auto.
  apply cpost_tick. apply Hk. exact H1.
Qed.

Lemma cpost_weaken : forall A (P P' : nat -> A -> Prop) (Q Q' : nat -> Prop) r,
  cpost P Q r -> (forall c a, P c a -> P' c a) -> (forall c, Q c -> Q' c) -> cpost P' Q' r.
Proof. intros A P P' Q Q' [c a|c e|] H H1 H2; cbn in *; auto. Qed.

Lemma cpost_lift : forall A (P : nat -> A -> Prop) (Q : nat -> Prop) (r : res A),
  match r with Ok a => P O a | Err _ => Q O | OOF => True end -> cpost P Q (lift r).
Proof. intros A P Q [a|e|] H; cbn in *; auto. Qed.

Section LexCost.
Variable E : env.
Hypothesis Hdelim : z_in 59 (delims E) = true.

(* skip: 3 per character passed + 3 *)
Definition SKpost (s : str) (c : nat) (s' : str) : Prop :=
  (length s' <= length s)%nat /\ (c + 3 * length s' <= 3 * length s + 3)%nat.

Lemma skip_cost : forall f ign s, cpost (SKpost s) (fun _ => False) (skip_c E f ign s).
Proof.
  induction f as [|f IH]; intros ign s; [exact I|].
  cbn [skip_c]. pose proof (skip_space_le E ign s) as H1. apply cpost_tick.
  destruct (starts2 (skip_space E ign s) 58 34) eqn:Hc.
  - destruct (skip_space E ign s) as [|x [|y r]]; cbn [starts2] in Hc; try discriminate.
    cbn [tl]. pose proof (read_shifted_comment_le r) as H2. apply cpost_tick.
    eapply cpost_weaken; [apply IH| |auto].
    intros c a (G1 & G2). unfold SKpost, sc in *. cbn [length] in *. split; lia.
  - cbn. unfold SKpost, sc. split; lia.
Qed.

(* kg_read: 20 per character consumed, 4 less when a token is returned; read_list: +9; its loop: +5 *)
Definition KGpost (s : str) (c : nat) (p : str * ast) : Prop :=
  (length (fst p) <= length s)%nat /\
  (is_none (snd p) = false -> (c + 20 * length (fst p) + 4 <= 20 * length s)%nat) /\
  (is_none (snd p) = true -> fst p = [] /\ (c <= 20 * length s + 4)%nat).
Definition KGerr (s : str) (c : nat) : Prop := (c <= 20 * length s + 5)%nat.
Definition RLpost (k : nat) (s : str) (c : nat) (p : str * list ast) : Prop :=
  (length (fst p) <= length s)%nat /\ (c + 20 * length (fst p) <= 20 * length s + k)%nat.
Definition RLerr (k : nat) (s : str) (c : nat) : Prop := (c <= 20 * length s + k)%nat.

Definition lex_cost (C : clexfuns) : Prop :=
  (forall rn ign s, cpost (KGpost s) (KGerr s) (cl_kg_read C rn ign s)) /\
  (forall d s, cpost (RLpost 9 s) (RLerr 10 s) (cl_read_list C d s)) /\
  (forall d s acc, cpost (RLpost 5 s) (RLerr 6 s) (cl_read_list_loop C d s acc)).

Lemma read_num_rest : forall s p, read_num E s = Ok p -> fst p = num_rest E s.
Proof.
  intros s p. unfold read_num, num_rest. destruct s as [|c s'].
  - destruct (num_scan E [] [] false) as [[r txt] uf]. destruct (num_ok E txt uf); intros H; inversion H; reflexivity.
  - destruct (c =? 45).
    + destruct (num_scan E s' [c] false) as [[r txt] uf]. destruct (num_ok E txt uf); intros H; inversion H; reflexivity.
    + destruct (num_scan E (c :: s') [] false) as [[r txt] uf]. destruct (num_ok E txt uf); intros H; inversion H; reflexivity.
Qed.

Lemma num_rest_lt : forall a0 r, isnumeric E a0 = true \/ (a0 =? 45) = true ->
  (length (num_rest E (a0 :: r)) < length (a0 :: r))%nat.
Proof.
  intros a0 r H. unfold num_rest. destruct (a0 =? 45) eqn:H45.
  - pose proof (num_scan_le E r [a0] false). cbn [length]. lia.
  - destruct H as [H|H]; [|congruence]. apply num_scan_lt. exact H.
Qed.

Ltac cfin := unfold cret, cerr, scanned; cbn [cpost]; cbv beta; unfold KGpost, KGerr, RLpost, RLerr, SKpost, sc in *; cbn [fst snd is_none length tl] in *;
  repeat split; intros; try discriminate; try reflexivity; try lia; try congruence.

Lemma kg_read_body_cost : forall f C, lex_cost C ->
  forall rn ign s, cpost (KGpost s) (KGerr s) (kg_read_body_c E f C rn ign s).
Proof.
  intros f C (Hkg & Hrl & Hrll) rn ign s. unfold kg_read_body_c. apply cpost_tick.
  eapply cpost_bind; [apply skip_cost|intros c []|]. intros c0 s1 (Hs1 & Hc0).
  destruct s1 as [|a0 r]; [cfin|]. cbn [length] in Hs1, Hc0.
  destruct (a0 =? 10) eqn:H10.
  { rewrite Hdelim. cfin. }
  destruct (z_in a0 (delims E)); [cfin|].
  destruct (starts2 (a0 :: r) 48 99) eqn:H0c.
  { apply cpost_lift. pose proof (read_char_post _ H0c) as Hp. destruct (read_char (a0 :: r)) as [p|e|]; [|cfin|exact I].
    destruct Hp as [Hp1 Hp2]. cfin. }
  destruct (isnumeric E a0 || (rn && (a0 =? 45) && match r with d :: _ => isnumeric E d | [] => false end)) eqn:Hnum.
  { assert (Hn : isnumeric E a0 = true \/ (a0 =? 45) = true).
    { apply orb_true_iff in Hnum. destruct Hnum as [Hn|Hn]; [left; exact Hn|right].
      apply andb_true_iff in Hn. destruct Hn as [Hn _]. apply andb_true_iff in Hn. tauto. }
    unfold read_num_c. pose proof (num_rest_lt a0 r Hn) as Hlt. apply cpost_tick. apply cpost_lift.
    destruct (read_num E (a0 :: r)) as [p|e|] eqn:Hr; [|cfin|exact I].
    pose proof (read_num_rest _ _ Hr) as Hp. rewrite <- Hp in Hlt.
    assert (is_none (snd p) = false).
    { unfold read_num in Hr. destruct (match a0 :: r with c :: s' => if c =? 45 then num_scan E s' [c] false else num_scan E (a0 :: r) [] false | [] => num_scan E (a0 :: r) [] false end) as [[r0 txt] uf].
      destruct (num_ok E txt uf); inversion Hr; reflexivity. }
    rewrite <- Hp. cfin. }
  destruct (a0 =? 34).
  { pose proof (read_string_le r []) as Hl. pose proof (read_string_some r []) as Hv.
    unfold scanned. destruct (read_string r []) as [rest v]. cfin. }
  destruct (a0 =? 58).
  - destruct r as [|aa r2].
    + destruct (a0 =? 91).
      { eapply cpost_bind; [apply Hrl|intros c Hc; cfin|]. intros c1 [s2 l] (G1 & G2). cfin. }
      destruct (is_symbolic E a0) eqn:Hsym.
      { pose proof (read_sym_lt E a0 [] Hsym) as Hl. pose proof (read_sym_some E [a0]) as Hv.
        unfold scanned. destruct (read_sym E [a0]) as [rest v]. cfin. }
      pose proof (read_op_lt a0 []) as Hl. pose proof (read_op_some [a0]) as Hv.
      unfold scanned. destruct (read_op [a0]) as [rest v]. cfin.
    + cbn [length] in Hs1, Hc0.
      destruct (isalpha E aa || (aa =? 46)) eqn:Hal.
      { assert (Hsym : is_symbolic E aa = true).
        { unfold is_symbolic. apply orb_true_iff in Hal. destruct Hal as [H|H]; rewrite H; [reflexivity|]. apply orb_true_r. }
        pose proof (read_sym_lt E aa r2 Hsym) as Hl. pose proof (read_sym_some E (aa :: r2)) as Hv.
        unfold scanned. destruct (read_sym E (aa :: r2)) as [rest v]. cfin. }
      destruct (isnumeric E aa || (aa =? 34)).
      { eapply cpost_weaken; [apply Hkg| |].
        - intros c1 p (G1 & G2 & G3). cfin; [specialize (G2 H); lia | destruct (G3 H); assumption | destruct (G3 H); lia].
        - intros c1 G. cfin. }
      destruct (aa =? 123).
      { eapply cpost_bind; [apply Hrl|intros c Hc; cfin|]. intros c1 [s2 d] (G1 & G2).
        eapply cpost_bind with (P1 := fun c _ => c = O) (Q1 := fun c => c = O).
        - apply cpost_lift. destruct (map_res dict_entry d); auto.
        - intros c Hc. subst c. cfin.
        - intros c kv Hc. subst c. cfin. }
      destruct (aa =? 91); [cfin|]. destruct (aa =? 124); cfin.
  - destruct (a0 =? 91).
    { eapply cpost_bind; [apply Hrl|intros c Hc; cfin|]. intros c1 [s2 l] (G1 & G2). cfin. }
    destruct (is_symbolic E a0) eqn:Hsym.
    { pose proof (read_sym_lt E a0 r Hsym) as Hl. pose proof (read_sym_some E (a0 :: r)) as Hv.
      unfold scanned. destruct (read_sym E (a0 :: r)) as [rest v]. cfin. }
    pose proof (read_op_lt a0 r) as Hl. pose proof (read_op_some (a0 :: r)) as Hv.
    unfold scanned. destruct (read_op (a0 :: r)) as [rest v]. cfin.
Qed.

Lemma read_list_body_cost : forall f C, lex_cost C ->
  forall d s, cpost (RLpost 9 s) (RLerr 10 s) (read_list_body_c E f C d s).
Proof.
  intros f C (Hkg & Hrl & Hrll) d s. unfold read_list_body_c. apply cpost_tick.
  eapply cpost_bind; [apply skip_cost|intros c []|]. intros c0 s1 (Hs1 & Hc0).
  eapply cpost_weaken; [apply Hrll| |].
  - intros c p (G1 & G2). cfin.
  - intros c G. cfin.
Qed.

Lemma read_list_loop_body_cost : forall f C, lex_cost C ->
  forall d s acc, cpost (RLpost 5 s) (RLerr 6 s) (read_list_loop_body_c E f C d s acc).
Proof.
  intros f C (Hkg & Hrl & Hrll) d s acc. unfold read_list_loop_body_c. apply cpost_tick.
  destruct (starts1 s d || match s with [] => true | _ :: _ => false end) eqn:Hend.
  { pose proof (tl_le _ s). destruct (starts1 s d); cfin. }
  destruct s as [|c0 s0]; [rewrite orb_true_r in Hend; discriminate|].
  eapply cpost_bind; [apply Hkg|intros c Hc; cfin|]. intros c1 [s1 q] (H1 & H2 & H3). cbn [fst snd] in *.
  destruct (is_none q) eqn:Hq.
  { destruct (H3 eq_refl) as [-> H4]. cbn [starts1]. cfin. }
  specialize (H2 eq_refl).
  eapply cpost_bind; [apply skip_cost|intros c []|]. intros c2 s3 (Hs3 & Hc2).
  eapply cpost_weaken; [apply Hrll| |].
  - intros c p (G1 & G2). cfin.
  - intros c G. cfin.
Qed.

Lemma lex_cost_all : forall f, lex_cost (clexrec E f).
Proof.
  induction f as [|f IH].
  - repeat split; intros; exact I.
  - unfold clexrec. repeat split; cbn [cl_kg_read cl_read_list cl_read_list_loop]; intros.
    + rewrite kg_read_c_S. apply kg_read_body_cost; assumption.
    + rewrite read_list_c_S. apply read_list_body_cost; assumption.
    + rewrite read_list_loop_c_S. apply read_list_loop_body_cost; assumption.
Qed.

(* the lexer is linear: reading one token costs at most 20 per remaining character *)
Lemma kg_read_cost_linear : forall f rn ign s, (cost_of (kg_read_c E f rn ign s) <= 20 * (length s + 1))%nat.
Proof.
  intros f rn ign s. pose proof (proj1 (lex_cost_all f) rn ign s) as H. unfold clexrec in H. cbn [cl_kg_read] in H.
  destruct (kg_read_c E f rn ign s) as [c p|c e|]; cbn [cpost cost_of] in *; [|unfold KGerr in H; lia|lia].
  destruct H as (H1 & H2 & H3). destruct (is_none (snd p)); [destruct (H3 eq_refl)|specialize (H2 eq_refl)]; lia.
Qed.

End LexCost.

(* ------------------------------------------------------------------ cost of the parser: quadratic *)
Section ParseCost.
Variable E : env.
Hypothesis Hdelim : z_in 59 (delims E) = true.
(* M is any bound on (remaining length + 1): in the end |t| + 1 for the whole text t.  Costs are counted in
   units of M: a peek of the lexer costs at most 20 M, a skip 3 M, a tick 1 <= M.  The potential of a position s
   is A * |s| * M: every function pays its cost from the drop of the potential between the position it is
   called at and the position it returns, plus a constant number b of units when it consumes nothing;
   when it does consume it even leaves r units to its caller (that is what pays for loops whose own
   iteration consumes nothing, like prog's `continue`). *)
Variable M : nat.
Local Notation A := 300%nat.
Local Notation "'Φ' s" := (A * (length s * M))%nat (at level 9).

Definition OKP (b r : nat) (s : str) (c : nat) (s' : str) : Prop :=
  (length s' <= length s)%nat /\
  (c + Φ s' <= Φ s + b * M)%nat /\
  ((length s' < length s)%nat -> (c + Φ s' + r * M <= Φ s)%nat).
Definition ERP (B : nat) (s : str) (c : nat) : Prop := (c <= 2 * Φ s + B * M)%nat.

Definition TOKP (b r : nat) (s : str) (c : nat) (p : str * ast) : Prop :=
  OKP b r s c (fst p) /\
  (is_none (snd p) = false -> (length (fst p) < length s)%nat) /\
  (is_none (snd p) = true -> fst p = []).
Definition SOMEP (b : nat) (s : str) (c : nat) (p : str * ast) : Prop :=
  OKP b 0 s c (fst p) /\ is_none (snd p) = false.
Definition LISTP (b : nat) (s : str) (c : nat) (p : str * list ast) : Prop := OKP b 0 s c (fst p).

(* b: units allowed without consumption; r: units left over when something was consumed; B: error bound *)
Local Notation bF := 24%nat.  Local Notation rF := 60%nat.  Local Notation BF := 24%nat.
Local Notation bE := 25%nat.  Local Notation rE := 30%nat.  Local Notation BE := 26%nat.
Local Notation bP := 1%nat.   Local Notation BP := 30%nat.
Local Notation bL := 4%nat.   Local Notation BL := 60%nat.
Local Notation bFL := 0%nat.  Local Notation BFL := 35%nat.
Local Notation bADV := 27%nat. Local Notation BADV := 30%nat.
Local Notation bARGS := 0%nat. Local Notation BARGS := 60%nat.
Local Notation bAL := 0%nat.  Local Notation BAL := 50%nat.
Local Notation bC := 0%nat.   Local Notation BC := 30%nat.
Local Notation bEA := 1%nat.  Local Notation BEA := 30%nat.

Definition inside (s : str) : Prop := (S (length s) <= M)%nat.

Definition parse_cost (C : cparsefuns) : Prop :=
  (forall ign s acc, inside s -> cpost (LISTP bP s) (ERP BP s) (cp_prog_loop C ign s acc)) /\
  (forall ign s, inside s -> cpost (TOKP bE rE s) (ERP BE s) (cp_expr C ign s)) /\
  (forall ign i a ii aa, inside i -> is_none a = false ->
      (length ii <= length i)%nat -> (is_none aa = false -> (length ii < length i)%nat) ->
      cpost (SOMEP bL i) (ERP BL i) (cp_expr_loop C ign i a ii aa)) /\
  (forall s, inside s -> cpost (SOMEP bFL s) (ERP BFL s) (cp_fn_lit C s)) /\
  (forall ign s, inside s -> cpost (TOKP bF rF s) (ERP BF s) (cp_factor C ign s)) /\
  (forall s a aa ar dy dv, inside s -> cpost (SOMEP bADV s) (ERP BADV s) (cp_apply_adverbs C s a aa ar dy dv)) /\
  (forall s, inside s -> cpost (LISTP bARGS s) (ERP BARGS s) (cp_read_fn_args C s)) /\
  (forall s k acc, inside s -> cpost (LISTP bAL s) (ERP BAL s) (cp_fn_args_loop C s k acc)) /\
  (forall s, inside s -> cpost (SOMEP bC s) (ERP BC s) (cp_read_cond C s)) /\
  (forall s acc, inside s -> cpost (LISTP bEA s) (ERP BEA s) (cp_expr_array_loop C s acc)).

Lemma mm_le : forall a b, (a <= b)%nat -> (a * M <= b * M)%nat.
Proof. intros. apply Nat.mul_le_mono_r. assumption. Qed.
Lemma mm_lt : forall a b, (a < b)%nat -> (a * M + M <= b * M)%nat.
Proof. intros a b H. replace (a * M + M)%nat with (S a * M)%nat by (cbn; lia). apply Nat.mul_le_mono_r. lia. Qed.

(* multiply every length comparison in the context by M (lia does not know that multiplication is monotone) *)
Ltac mm :=
  repeat match goal with
  | H : (?a <= ?b)%nat |- _ =>
      lazymatch a with context [M] => fail | _ =>
      lazymatch b with context [M] => fail | _ =>
      lazymatch goal with
      | _ : (a * M <= b * M)%nat |- _ => fail
      | _ => pose proof (mm_le _ _ H)
      end end end
  | H : (?a < ?b)%nat |- _ =>
      lazymatch a with context [M] => fail | _ =>
      lazymatch b with context [M] => fail | _ =>
      lazymatch goal with
      | _ : (a * M + M <= b * M)%nat |- _ => fail
      | _ => pose proof (mm_lt _ _ H)
      end end end
  end.

Ltac unf := unfold cret, cerr, scanned, cexpect_c; cbn [cpost]; cbv beta;
  unfold TOKP, SOMEP, LISTP, OKP, ERP, KGpost, KGerr, SKpost, inside, sc in *;
  cbn [fst snd is_none length tl] in *.
Ltac slim := repeat match goal with
  | H := _ |- _ => clear H
  | H : parse_cost _ |- _ => clear H
  end.
Ltac pfin := unf; repeat split; intros; try discriminate; try reflexivity; try congruence; try solve [auto]; try (slim; mm; lia).

(* what the parser needs from the lexer, in units of M *)
Definition LEXP (s : str) (c : nat) (p : str * ast) : Prop :=
  (c <= 20 * M)%nat /\ (length (fst p) <= length s)%nat /\
  (is_none (snd p) = false -> (length (fst p) < length s)%nat) /\
  (is_none (snd p) = true -> fst p = []).

Lemma lex_unit : forall f rn ign s, inside s ->
  cpost (LEXP s) (fun c => (c <= 20 * M)%nat) (cl_kg_read (clexrec E f) rn ign s).
Proof.
  intros f rn ign s Hin. eapply cpost_weaken; [apply (proj1 (lex_cost_all E Hdelim f))| |].
  - intros c p (H1 & H2 & H3). unfold LEXP, inside in *. repeat split; auto.
    + destruct (is_none (snd p)); [destruct (H3 eq_refl)|specialize (H2 eq_refl)]; lia.
    + intros H. specialize (H2 H). lia.
    + intros H. apply H3. exact H.
  - intros c H. unfold KGerr, inside in *. lia.
Qed.

Lemma skip_unit : forall f ign s, inside s ->
  cpost (fun c s' => (c <= 3 * M)%nat /\ (length s' <= length s)%nat) (fun _ => False) (skip_c E f ign s).
Proof.
  intros f ign s Hin. eapply cpost_weaken; [apply skip_cost| |auto].
  intros c s' (H1 & H2). unfold inside in *. split; lia.
Qed.

(* .comment: the marker loop advances one character per iteration and each iteration costs at most M *)
Lemma starts_with_len : forall a s, starts_with a s = true -> (length a <= length s)%nat.
Proof.
  induction a as [|x a IH]; intros [|y s] H; cbn in *; try lia; try discriminate.
  apply andb_true_iff in H. destruct H as [_ H]. specialize (IH _ H). lia.
Qed.

Lemma find_sub_len : forall a s j, find_sub a s = Some j -> (j + length a <= length s)%nat.
Proof.
  intros a s. induction s as [|y s IH]; intros j H; cbn [find_sub] in H.
  - destruct (starts_with a []) eqn:Hs; [|discriminate]. inversion H. apply starts_with_len in Hs. cbn in *. lia.
  - destruct (starts_with a (y :: s)) eqn:Hs.
    + inversion H. apply starts_with_len in Hs. lia.
    + destruct (find_sub a s) as [j0|] eqn:Hf; [|discriminate]. inversion H. specialize (IH _ eq_refl). cbn [length]. lia.
Qed.

Lemma tl_skipn : forall (s : str) n, tl (skipn n s) = skipn (S n) s.
Proof. intros s n. revert s. induction n as [|n IH]; intros [|y s]; try reflexivity. cbn [skipn]. apply IH. Qed.

Lemma comment_run_cost : forall f a s0 j, inside s0 -> (j + length a <= length s0)%nat ->
  cpost (fun c j' => (j <= j')%nat /\ (j' + length a <= length s0)%nat /\ (c + j * M <= j' * M + M)%nat)
        (fun _ => False) (comment_run_c E f a (skipn (S j) s0) j).
Proof.
  induction f as [|f IH]; intros a s0 j Hin Hj; [exact I|].
  cbn [comment_run_c]. apply cpost_tick.
  assert (Hl : (S (length (skipn (S j) s0)) <= M)%nat).
  { pose proof (skipn_le _ (S j) s0). unfold inside in Hin. lia. }
  destruct ((if comment_guard E then negb match a with [] => true | _ :: _ => false end else true)
            && starts_with a (skipn (S j) s0)) eqn:Hc.
  - apply andb_true_iff in Hc. destruct Hc as [Hg Hs]. apply starts_with_len in Hs.
    rewrite skipn_length in Hs. rewrite tl_skipn.
    destruct a as [|x a'].
    { (* empty marker: only reachable without the guard, and then the loop never returns *)
      destruct (comment_guard E) eqn:Hgd; [discriminate|].
      assert (Hoof : forall f' s' j', comment_run_c E f' [] s' j' = COOF).
      { induction f' as [|f' IH']; intros; [reflexivity|]. cbn [comment_run_c]. rewrite Hgd. cbn [starts_with andb]. rewrite IH'. reflexivity. }
      rewrite Hoof. exact I. }
    cbn [length] in *.
    eapply cpost_weaken; [apply IH; [exact Hin|cbn [length]; lia]| |auto].
    intros c j' (G1 & G2 & G3). cbn [length] in *. cbv beta.
    replace (S j * M)%nat with (j * M + M)%nat in G3 by (cbn; lia). repeat split; lia.
  - unfold cret. cbn [cpost]. cbv beta. repeat split; lia.
Qed.

Lemma read_sys_comment_cost : forall f s a, inside s ->
  cpost (fun c s' => (length s' <= length s)%nat /\ (c + Φ s' <= Φ s + 2 * M)%nat) (fun c => (c <= M)%nat)
        (read_sys_comment_c E f s a).
Proof.
  intros f s a Hin. unfold read_sys_comment_c. apply cpost_tick.
  destruct (find_sub a s) as [j|] eqn:Hf; [|unfold cerr; cbn; unfold inside in Hin; lia].
  apply find_sub_len in Hf.
  eapply cpost_bind; [apply comment_run_cost; assumption|intros c []|].
  intros c j' (G1 & G2 & G3). unfold cret. cbn [cpost]. cbv beta.
  pose proof (skipn_length (j' + length a) s) as Hsk.
  split; [rewrite Hsk; lia|]. rewrite Hsk.
  assert (Hd : (length s - (j' + length a) + j' <= length s)%nat) by lia.
  pose proof (mm_le _ _ Hd) as Hm. rewrite Nat.mul_add_distr_r in Hm.
  unfold inside in Hin. assert (j * M >= 0)%nat by lia. lia.
Qed.

Section Bodies.
Variables (f : nat) (R : cparsefuns).
Hypothesis HR : parse_cost R.
Let L := clexrec E f.

Let Hprog := proj1 HR.
Let Hexpr := proj1 (proj2 HR).
Let Hloop := proj1 (proj2 (proj2 HR)).
Let Hfnlit := proj1 (proj2 (proj2 (proj2 HR))).
Let Hfactor := proj1 (proj2 (proj2 (proj2 (proj2 HR)))).
Let Hadv := proj1 (proj2 (proj2 (proj2 (proj2 (proj2 HR))))).
Let Hargs := proj1 (proj2 (proj2 (proj2 (proj2 (proj2 (proj2 HR)))))).
Let Hargsl := proj1 (proj2 (proj2 (proj2 (proj2 (proj2 (proj2 (proj2 HR))))))).
Let Hcond := proj1 (proj2 (proj2 (proj2 (proj2 (proj2 (proj2 (proj2 (proj2 HR)))))))).
Let Hearr := proj2 (proj2 (proj2 (proj2 (proj2 (proj2 (proj2 (proj2 (proj2 HR)))))))).

Lemma prog_loop_body_cost : forall ign s acc, inside s ->
  cpost (LISTP bP s) (ERP BP s) (prog_loop_body_c f L R ign s acc).
Proof.
  intros ign s acc Hin. unfold prog_loop_body_c. apply cpost_tick.
  destruct s as [|c0 s0]; [pfin|].
  eapply cpost_bind; [apply Hexpr; exact Hin|intros c Hc; pfin|].
  intros c1 [s1 q] ((H1 & H2 & H3) & H4 & H5). cbn [fst snd] in *.
  assert (Hlt : (length s1 < length (c0 :: s0))%nat).
  { destruct (is_none q); [rewrite (H5 eq_refl); cbn; lia|apply H4; reflexivity]. }
  specialize (H3 Hlt).
  assert (Hin1 : inside s1) by (unfold inside in *; lia).
  destruct (is_none q || str_is q [59]).
  { eapply cpost_weaken; [apply Hprog; exact Hin1| |].
    - intros c p (G1 & G2 & G3). pfin.
    - intros c G. pfin. }
  eapply cpost_bind; [apply lex_unit; exact Hin1|intros c Hc; pfin|].
  intros c2 [ii cc] (K1 & K2 & K3 & K4). cbn [fst snd] in *.
  destruct (str_is cc [59]) eqn:Hsemi; [|pfin].
  assert (is_none cc = false) by (destruct cc; try discriminate; reflexivity). specialize (K3 H).
  eapply cpost_weaken; [apply Hprog; unfold inside in *; lia| |].
  - intros c p (G1 & G2 & G3). pfin.
  - intros c G. pfin.
Qed.

Lemma expr_body_cost : forall ign s, inside s -> cpost (TOKP bE rE s) (ERP BE s) (expr_body_c E f L R ign s).
Proof.
  intros ign s Hin. unfold expr_body_c. apply cpost_tick.
  eapply cpost_bind; [apply Hfactor; exact Hin|intros c Hc; pfin|].
  intros c1 [s1 a] ((H1 & H2 & H3) & H4 & H5). cbn [fst snd] in *.
  destruct (is_none a) eqn:Ha; cbn [orb].
  { specialize (H5 eq_refl). subst s1. pfin. }
  specialize (H4 eq_refl). specialize (H3 H4).
  destruct (str_is a [59]); [pfin|].
  assert (Hin1 : inside s1) by (unfold inside in *; lia).
  eapply cpost_bind; [apply lex_unit; exact Hin1|intros c Hc; pfin|].
  intros c2 [ii aa] (K1 & K2 & K3 & K4). cbn [fst snd] in *.
  eapply cpost_weaken; [apply Hloop; try rewrite mark_dyad_none; auto| |].
  - intros c p ((G1 & G2 & G3) & G4). pfin.
  - intros c G. pfin.
Qed.

Lemma peek_adverb_lt : forall s i3 av, peek_adverb E s = (i3, Some av) -> (length i3 < length s)%nat.
Proof.
  intros s i3 av. unfold peek_adverb. destruct s as [|c0 [|c1 r]]; [discriminate| |].
  - destruct (str_in [c0] (adverbs E)); intros H; inversion H. cbn. lia.
  - destruct (str_in [c0; c1] (adverbs E)); [intros H; inversion H; cbn; lia|].
    destruct (str_in [c0] (adverbs E)); intros H; inversion H. cbn. lia.
Qed.

Lemma adverb_tail_cost : forall s0 a0, inside s0 -> is_none a0 = false ->
  cpost (SOMEP 28 s0) (ERP 32 s0) (adverb_tail_c E R s0 a0).
Proof.
  intros s0 a0 Hin Ha. unfold adverb_tail_c. apply cpost_tick.
  destruct (peek_adverb E s0) as [i3 adv] eqn:Hpk.
  destruct adv as [av|]; [|pfin]. pose proof (peek_adverb_lt _ _ _ Hpk) as Hp.
  eapply cpost_weaken; [apply Hadv; unfold inside in *; lia| |].
  - intros c p ((G1 & G2 & G3) & G4). pfin.
  - intros c G. pfin.
Qed.

Lemma cexpect_unit : forall s c,
  cpost (fun n s' => n = 1%nat /\ length s = S (length s')) (fun n => n = 1%nat) (cexpect_c s c).
Proof.
  intros [|x r] c; unfold cexpect_c; cbn; auto. destruct (x =? c); cbn; auto.
Qed.

Lemma fn_lit_body_cost : forall s, inside s -> cpost (SOMEP bFL s) (ERP BFL s) (fn_lit_body_c E f L R s).
Proof.
  intros s Hin. unfold fn_lit_body_c. apply cpost_tick.
  eapply cpost_bind; [apply Hprog; exact Hin|intros c Hc; pfin|].
  intros c1 [s2 p] (H1 & H2 & H3). cbn [fst] in *.
  eapply cpost_bind; [apply skip_unit; unfold inside in *; lia|intros c []|]. intros c2 s3 (K1 & K2).
  eapply cpost_bind; [apply cexpect_unit|intros c Hc; cbv beta in Hc; subst c; pfin|]. intros c3 s4 (-> & K3).
  eapply cpost_bind with (P1 := fun c _ => c = O) (Q1 := fun c => c = O).
  { apply cpost_lift. destruct (get_fn_arity E match p with [x] => x | _ => APy p end); auto. }
  { intros c Hc; cbv beta in Hc; subst c. pfin. }
  intros c4 ar ->.
  destruct (starts_call s4); [|pfin].
  eapply cpost_bind; [apply Hargs; unfold inside in *; lia| |].
  - intros c G. pfin.
  - intros c5 [s5 fa] (G1 & G2 & G3). unf. cbn [fst snd]. rewrite mk_call_some. repeat split; intros; try (mm; lia).
Qed.

Lemma apply_adverbs_body_cost : forall s a aa ar dy dv, inside s ->
  cpost (SOMEP bADV s) (ERP BADV s) (apply_adverbs_body_c E f L R s a aa ar dy dv).
Proof.
  intros s a aa ar dy dv Hin. unfold apply_adverbs_body_c. apply cpost_tick. pose proof (peek_more_le E s) as Hp.
  destruct (peek_more E s) as [s1 more]. cbn [fst] in Hp. apply cpost_tick.
  eapply cpost_bind; [apply Hexpr; unfold inside in *; lia| |].
  - intros c G. pfin.
  - intros c1 [s2 e] ((G1 & G2 & G3) & _). cbn [fst snd] in *.
    assert (Hc : length s1 = length s \/ (length s1 < length s)%nat) by lia.
    destruct Hc as [Heq|Hlt]; [rewrite Heq in *|]; pfin.
Qed.

Lemma read_fn_args_body_cost : forall s, inside s -> cpost (LISTP bARGS s) (ERP BARGS s) (read_fn_args_body_c f L R s).
Proof.
  intros s Hin. unfold read_fn_args_body_c. apply cpost_tick.
  eapply cpost_bind with (P1 := fun c s1 => c = O /\ (length s1 < length s)%nat) (Q1 := fun c => c = O).
  { destruct s as [|x [|y r]]; cbn [starts1 starts2]; unfold cret, cerr; cbn [cpost]; auto.
    - destruct (x =? 40); cbn; auto.
    - destruct (x =? 40); cbn [cpost tl length]; [split; [reflexivity|lia]|].
      destruct ((x =? 58) && (y =? 40)); cbn; auto; try (split; [reflexivity|lia]). }
  { intros c Hc; cbv beta in Hc; subst c. pfin. }
  intros c0 s1 (-> & Hs1). pose proof (tl_le _ s1).
  destruct (starts1 s1 41); [pfin|].
  eapply cpost_weaken; [apply Hargsl; unfold inside in *; lia| |].
  - intros c p (G1 & G2 & G3). pfin.
  - intros c G. pfin.
Qed.

Lemma fn_args_loop_body_cost : forall s k acc, inside s ->
  cpost (LISTP bAL s) (ERP BAL s) (fn_args_loop_body_c f L R s k acc).
Proof.
  intros s k acc Hin. unfold fn_args_loop_body_c. apply cpost_tick.
  eapply cpost_bind; [apply lex_unit; exact Hin|intros c Hc; pfin|].
  intros c1 [ii cc] (K1 & K2 & K3 & K4). cbn [fst snd] in *.
  destruct (str_is cc [59]) eqn:Hc59.
  { assert (Hn : is_none cc = false) by (destruct cc; try discriminate; reflexivity). specialize (K3 Hn).
    eapply cpost_weaken; [apply Hargsl; unfold inside in *; lia| |].
    - intros c p (G1 & G2 & G3). pfin.
    - intros c G. pfin. }
  destruct (str_is cc [41]).
  { eapply cpost_bind; [apply cexpect_unit|intros c Hc; cbv beta in Hc; subst c; pfin|]. intros c2 s' (-> & Hs'). pfin. }
  eapply cpost_bind; [apply Hexpr; exact Hin|intros c Hc; pfin|].
  intros c2 [s1 a] ((H1 & H2 & H3) & H4 & H5). cbn [fst snd] in *.
  destruct (is_none a) eqn:Ha.
  { eapply cpost_bind; [apply cexpect_unit|intros c Hc; cbv beta in Hc; subst c; pfin|]. intros c3 s' (-> & Hs').
    specialize (H5 eq_refl). subst s1. cbn in Hs'. discriminate. }
  specialize (H4 eq_refl). specialize (H3 H4).
  eapply cpost_weaken; [apply Hargsl; unfold inside in *; lia| |].
  - intros c p (G1 & G2 & G3). pfin.
  - intros c G. pfin.
Qed.

Lemma read_cond_body_cost : forall s, inside s -> cpost (SOMEP bC s) (ERP BC s) (read_cond_body_c E f L R s).
Proof.
  intros s Hin. unfold read_cond_body_c. apply cpost_tick.
  eapply cpost_bind; [apply Hexpr; exact Hin|intros c Hc; pfin|].
  intros c1 [s1 n1] ((H1 & H2 & _) & _). cbn [fst snd] in *.
  eapply cpost_bind; [apply cexpect_unit|intros c Hc; cbv beta in Hc; subst c; pfin|]. intros c2 s2 (-> & Hs2).
  eapply cpost_bind; [apply Hexpr; unfold inside in *; lia|intros c Hc; pfin|].
  intros c3 [s3 n2] ((H3 & H4 & _) & _). cbn [fst snd] in *.
  eapply cpost_bind; [apply skip_unit; unfold inside in *; lia|intros c []|]. intros c4 s4 (K1 & K2).
  destruct (starts2 s4 58 124) eqn:Hst.
  { destruct s4 as [|x [|y r]]; cbn [starts2] in Hst; try discriminate. cbn [tl length] in *.
    eapply cpost_bind; [apply Hcond; unfold inside in *; lia|intros c G; pfin|].
    intros c5 [s5 n3] ((G1 & G2 & _) & _). pfin. }
  eapply cpost_bind; [apply cexpect_unit|intros c Hc; cbv beta in Hc; subst c; pfin|]. intros c5 s5 (-> & Hs5).
  eapply cpost_bind; [apply Hexpr; unfold inside in *; lia|intros c Hc; pfin|].
  intros c6 [s6 n3] ((H6 & H7 & _) & _). cbn [fst snd] in *.
  eapply cpost_bind; [apply skip_unit; unfold inside in *; lia|intros c []|]. intros c7 s7 (K3 & K4).
  eapply cpost_bind; [apply cexpect_unit|intros c Hc; cbv beta in Hc; subst c; pfin|]. intros c8 s8 (-> & Hs8). pfin.
Qed.

Lemma expr_array_loop_body_cost : forall s acc, inside s ->
  cpost (LISTP bEA s) (ERP BEA s) (expr_array_loop_body_c E f L R s acc).
Proof.
  intros s acc Hin. unfold expr_array_loop_body_c. apply cpost_tick.
  destruct (starts1 s 93 || match s with [] => true | _ :: _ => false end) eqn:Hend.
  { pose proof (tl_le _ s). destruct (starts1 s 93); pfin. }
  destruct s as [|c0 s0]; [rewrite orb_true_r in Hend; discriminate|].
  eapply cpost_bind; [apply Hexpr; exact Hin|intros c Hc; pfin|].
  intros c1 [s1 e] ((H1 & H2 & H3) & H4 & H5). cbn [fst snd] in *.
  assert (Hlt : (length s1 < length (c0 :: s0))%nat).
  { destruct (is_none e); [rewrite (H5 eq_refl); cbn; lia | apply H4; reflexivity]. }
  specialize (H3 Hlt).
  eapply cpost_bind; [apply skip_unit; unfold inside in *; lia|intros c []|]. intros c2 s2 (K1 & K2).
  pose proof (tl_le _ s2).
  destruct (starts1 s2 59).
  { eapply cpost_bind; [apply skip_unit; unfold inside in *; lia|intros c []|]. intros c3 s3 (K3 & K4).
    eapply cpost_weaken; [apply Hearr; unfold inside in *; lia| |].
    - intros c p (G1 & G2 & G3). pfin.
    - intros c G. pfin. }
  destruct (starts1 s2 93); [pfin|].
  eapply cpost_weaken; [apply Hearr; unfold inside in *; lia| |].
  - intros c p (G1 & G2 & G3). pfin.
  - intros c G. pfin.
Qed.

Lemma expr_loop_body_cost : forall ign i a ii aa, inside i -> is_none a = false ->
  (length ii <= length i)%nat -> (is_none aa = false -> (length ii < length i)%nat) ->
  cpost (SOMEP bL i) (ERP BL i) (expr_loop_body_c E f L R ign i a ii aa).
Proof.
  intros ign i a ii aa Hin Ha Hii Hlt. unfold expr_loop_body_c. apply cpost_tick.
  destruct (is_op aa || is_sym aa || str_is aa [123]) eqn:Hc.
  - assert (Hn : is_none aa = false) by (destruct aa; try reflexivity; discriminate).
    specialize (Hlt Hn).
    eapply cpost_bind with (P1 := SOMEP 0 ii) (Q1 := ERP 60 ii).
    { destruct (str_is aa [123]).
      - eapply cpost_weaken; [apply Hfnlit; unfold inside in *; lia| |]; [intros c p G; exact G|intros c G; pfin].
      - destruct (is_sym aa && starts_call ii).
        + eapply cpost_bind; [apply Hargs; unfold inside in *; lia|intros c G; pfin|].
          intros c1 [i2 fa] (G1 & G2 & G3). unf. cbn [fst snd]. rewrite mk_call_some.
          repeat split; intros; try (mm; lia).
        + pfin. }
    { intros c G. pfin. }
    intros c1 [i1 aa1] ((H1 & H2 & _) & H1n). cbn [fst snd] in *.
    destruct (peek_adverb E i1) as [i3 adv] eqn:Hpk.
    eapply cpost_bind with (P1 := SOMEP 28 i1) (Q1 := ERP 32 i1).
    { destruct adv as [av|].
      - pose proof (peek_adverb_lt _ _ _ Hpk) as Hp.
        eapply cpost_weaken; [apply Hadv; unfold inside in *; lia| |].
        + intros c p ((G1 & G2 & G3) & G4). pfin.
        + intros c G. pfin.
      - eapply cpost_bind; [apply Hexpr; unfold inside in *; lia|intros c G; pfin|].
        intros c2 [i5 aaa] ((G1 & G2 & G3) & _). pfin. }
    { intros c G. pfin. }
    intros c2 [i4 a1] ((H4 & H5 & _) & H4n). cbn [fst snd] in *.
    eapply cpost_bind; [apply lex_unit; unfold inside in *; lia|intros c G; pfin|].
    intros c3 [ii2 aa2] (K1 & K2 & K3 & K4). cbn [fst snd] in *.
    eapply cpost_weaken; [apply Hloop; auto; unfold inside in *; lia| |].
    + intros c p ((G1 & G2 & G3) & G4). pfin.
    + intros c G. pfin.
  - destruct (ign && str_is a [10]); [|pfin].
    eapply cpost_bind; [apply skip_unit; exact Hin|intros c []|]. intros c1 i1 (K1 & K2). pfin.
Qed.

Lemma factor_body_cost : forall ign s, inside s -> cpost (TOKP bF rF s) (ERP BF s) (factor_body_c E f L R ign s).
Proof.
  intros ign s Hin. unfold factor_body_c. apply cpost_tick.
  eapply cpost_bind; [apply skip_unit; exact Hin|intros c []|]. intros c0 ii (K0 & Hii).
  destruct (starts2 ii 91 59) eqn:Hea.
  { destruct ii as [|x [|y r]]; cbn [starts2] in Hea; try discriminate. cbn [tl length] in *.
    eapply cpost_bind; [apply skip_unit; unfold inside in *; lia|intros c []|]. intros c1 s0 (K1 & Hs0).
    eapply cpost_bind; [apply Hearr; unfold inside in *; lia|intros c G; pfin|].
    intros c2 [s1 ex] (G1 & G2 & G3). pfin. }
  eapply cpost_bind; [apply lex_unit; exact Hin|intros c G; pfin|].
  intros c1 [s1 a] (K1 & H1 & H2 & H3). cbn [fst snd] in *.
  destruct (is_none a) eqn:Ha.
  { specialize (H3 eq_refl). subst s1. pfin. }
  specialize (H2 eq_refl).
  assert (Hin1 : inside s1) by (unfold inside in *; lia).
  assert (Htail : forall c s2 a2, (length s2 <= length s1)%nat -> is_none a2 = false ->
                  (c <= 100 * M)%nat ->
                  cpost (fun c' b => TOKP bF rF s (1 + (c0 + (c1 + (c + c')))) b)
                        (fun c' => ERP BF s (1 + (c0 + (c1 + (c + c'))))) (adverb_tail_c E R s2 a2)).
  { intros c s2 a2 Hs2 Ha2 Hc. eapply cpost_weaken; [apply adverb_tail_cost; [unfold inside in *; lia|exact Ha2]| |].
    - intros c' p ((G1 & G2 & G3) & G4). pfin.
    - intros c' G. pfin. }
  destruct (str_is a [123]).
  { eapply cpost_bind; [apply Hfnlit; exact Hin1|intros c G; pfin|].
    intros c2 [s2 a2] ((G1 & G2 & G3) & G4). cbn [fst snd] in *.
    eapply cpost_weaken; [apply adverb_tail_cost; [unfold inside in *; lia|exact G4]| |].
    - intros c' p ((J1 & J2 & J3) & J4). pfin.
    - intros c' G. pfin. }
  destruct (is_sym a).
  { destruct (starts_call s1).
    2:{ eapply cpost_weaken; [apply adverb_tail_cost; [exact Hin1|exact Ha]| |].
        - intros c' p ((J1 & J2 & J3) & J4). pfin.
        - intros c' G. pfin. }
    eapply cpost_bind; [apply Hargs; exact Hin1|intros c G; pfin|].
    intros c2 [s2 fa] (G1 & G2 & G3). cbn [fst snd] in *.
    destruct (sym_is a dot_comment).
    - eapply cpost_bind with (P1 := fun c _ => c = O) (Q1 := fun c => c = O).
      { apply cpost_lift. unfold comment_marker. destruct fa as [|x ?]; [reflexivity|]. destruct x; reflexivity. }
      { intros c Hc; cbv beta in Hc; subst c. pfin. }
      intros c3 m Hc3. cbv beta in Hc3. subst c3.
      eapply cpost_bind; [apply read_sys_comment_cost; unfold inside in *; lia|intros c G; pfin|].
      intros c4 s3 (J1 & J2).
      eapply cpost_weaken; [apply Hfactor; unfold inside in *; lia| |].
      + intros c p ((Q1 & Q2 & Q3) & Q4 & Q5). pfin.
      + intros c G. pfin.
    - eapply cpost_bind with (P1 := fun c _ => c = O) (Q1 := fun c => c = O).
      { destruct (sym_is a dot_module); [|reflexivity]. destruct fa; reflexivity. }
      { intros c Hc; cbv beta in Hc; subst c. pfin. }
      intros c3 u Hc3. cbv beta in Hc3. subst c3.
      eapply cpost_weaken; [apply adverb_tail_cost; [unfold inside in *; lia|apply mk_call_some]| |].
      + intros c' p ((J1 & J2 & J3) & J4). pfin.
      + intros c' G. pfin. }
  destruct (is_monad_op E a).
  { destruct (peek_adverb E s1) as [i3 adv] eqn:Hpk.
    destruct adv as [av|].
    - pose proof (peek_adverb_lt _ _ _ Hpk) as Hp.
      eapply cpost_weaken; [apply Hadv; unfold inside in *; lia| |].
      + intros c p ((G1 & G2 & G3) & G4). pfin.
      + intros c G. pfin.
    - eapply cpost_bind; [apply Hexpr; exact Hin1|intros c G; pfin|].
      intros c2 [s2 aa] ((G1 & G2 & G3) & _). pfin. }
  destruct (str_is a [40]).
  { eapply cpost_bind; [apply Hexpr; exact Hin1|intros c G; pfin|].
    intros c2 [s2 a2] ((G1 & G2 & G3) & G4 & G5). cbn [fst snd] in *.
    eapply cpost_bind; [apply cexpect_unit|intros c Hc; cbv beta in Hc; subst c; pfin|]. intros c3 s3 (-> & Hs3).
    unf. repeat split; intros; try (mm; lia).
    specialize (G5 H). subst s2. cbn in Hs3. discriminate. }
  destruct (str_is a [58; 91]).
  { eapply cpost_weaken; [apply Hcond; exact Hin1| |].
    - intros c p ((G1 & G2 & G3) & G4). pfin.
    - intros c G. pfin. }
  pfin.
Qed.

End Bodies.
Lemma parse_cost_all : forall f, parse_cost (cparserec E f).
Proof.
  induction f as [|f IH].
  - unfold parse_cost. repeat split; intros; exact I.
  - unfold parse_cost, cparserec, cmkrec.
    repeat split; cbn [cp_prog_loop cp_expr cp_expr_loop cp_fn_lit cp_factor cp_apply_adverbs cp_read_fn_args
                        cp_fn_args_loop cp_read_cond cp_expr_array_loop]; intros.
    + rewrite prog_loop_c_S. apply prog_loop_body_cost; assumption.
    + rewrite expr_c_S. apply expr_body_cost; assumption.
    + rewrite expr_loop_c_S. apply expr_loop_body_cost; assumption.
    + rewrite fn_lit_c_S. apply fn_lit_body_cost; assumption.
    + rewrite factor_c_S. apply factor_body_cost; assumption.
    + rewrite apply_adverbs_c_S. apply apply_adverbs_body_cost; assumption.
    + rewrite read_fn_args_c_S. apply read_fn_args_body_cost; assumption.
    + rewrite fn_args_loop_c_S. apply fn_args_loop_body_cost; assumption.
    + rewrite read_cond_c_S. apply read_cond_body_cost; assumption.
    + rewrite expr_array_loop_c_S. apply expr_array_loop_body_cost; assumption.
Qed.

End ParseCost.

(* ------------------------------------------------------------------ T12.cost *)
(* every run of the instrumented parser that is not out of fuel costs at most 630 (|t|+1)^2 *)
Lemma prog_cost_quadratic : forall E, z_in 59 (delims E) = true ->
  forall fuel t, (cost_of (prog_c E fuel t) <= 630 * ((length t + 1) * (length t + 1)))%nat.
Proof.
  intros E Hd fuel t. remember (length t + 1)%nat as M eqn:HM.
  assert (Hin : inside M t) by (unfold inside; lia).
  pose proof (proj1 (parse_cost_all E Hd M fuel) false t [] Hin) as H.
  unfold prog_c. unfold cparserec, cmkrec in H. cbn [cp_prog_loop] in H.
  assert (G1 : (length t * M <= M * M)%nat) by (apply Nat.mul_le_mono_r; lia).
  assert (G2 : (M <= M * M)%nat) by (destruct M; [lia|cbn; lia]).
  destruct (prog_loop_c E fuel false t []) as [c p|c e|]; cbn [cpost cost_of] in *; [| |lia].
  - destruct H as (H1 & H2 & _). lia.
  - unfold ERP in H. lia.
Qed.

(* with the fuel of T12.total the instrumented parser terminates, returns the result of the model, and the cost
   bound applies to it: parsing t costs at most 630 (|t|+1)^2 calls and character inspections *)
Lemma prog_cost_total : forall E, z_in 59 (delims E) = true -> comment_guard E = true ->
  forall t fuel, (fuel >= fuel_for (length t))%nat ->
  erase (prog_c E fuel t) = prog E fuel t /\ prog_c E fuel t <> COOF /\
  (cost_of (prog_c E fuel t) <= 630 * ((length t + 1) * (length t + 1)))%nat.
Proof.
  intros E Hd Hg t fuel Hf. split; [apply erase_prog|]. split; [|apply prog_cost_quadratic; exact Hd].
  intros Hc. pose proof (erase_prog E fuel t) as He. rewrite Hc in He. cbn in He.
  pose proof (prog_total E Hd Hg t fuel Hf) as Ht. rewrite <- He in Ht. exact Ht.
Qed.
