(* C12/Env.v — the parser environment built from the tables regenerated from /repo (Generated.v)
   and the ASCII character classes.  No proofs. *)
From Coq Require Import ZArith List.
From KB Require Import Sx.
From C12 Require Import Generated Model.
Import ListNotations.
Open Scope Z_scope.

Fixpoint lookup_arity (tbl : list (list Z * option nat)) (a : list Z) (ctx : nat) : nat :=
  match tbl with
  | [] => 0%nat
  | (k, v) :: r => if zlist_eqb k a then match v with Some n => n | None => ctx end else lookup_arity r a ctx
  end.

Definition genv : env := {|
  isspace := ascii_isspace;
  isnumeric := ascii_isdigit;
  isalpha := ascii_isalpha;
  isdigit := ascii_isdigit;
  num_ok := ascii_num_ok;
  delims := delims_tbl;
  monads := monads_tbl;
  dyads := dyads_tbl;
  adverbs := adverbs_tbl;
  adverb_arity := lookup_arity adverb_arity_tbl;
  reserved := reserved_tbl;
  arity_monad_operand := arity_scans_monad_operand;
  modname := None;
  comment_guard := comment_guard_present
|}.

(* the same environment with the guard of read_sys_comment's marker loop set by hand (pre-fix behaviour: false) *)
Definition env_with_guard (E : env) (g : bool) : env := {|
  isspace := isspace E; isnumeric := isnumeric E; isalpha := isalpha E; isdigit := isdigit E;
  num_ok := num_ok E; delims := delims E; monads := monads E; dyads := dyads E; adverbs := adverbs E;
  adverb_arity := adverb_arity E; reserved := reserved E; arity_monad_operand := arity_monad_operand E; modname := modname E; comment_guard := g |}.

(* the same environment with the module in which the text is parsed *)
Definition env_with_module (E : env) (m : option str) : env := {|
  isspace := isspace E; isnumeric := isnumeric E; isalpha := isalpha E; isdigit := isdigit E;
  num_ok := num_ok E; delims := delims E; monads := monads E; dyads := dyads E; adverbs := adverbs E;
  adverb_arity := adverb_arity E; reserved := reserved E; arity_monad_operand := arity_monad_operand E; modname := m; comment_guard := comment_guard E |}.
