(* C12/Properties.v — property theorems only: statement, `exact`, Print Assumptions. *)
From Coq Require Import ZArith List Bool.
From C12 Require Import Generated Model Env Proofs Refuted Cost CostProofs.
Import ListNotations.
Open Scope Z_scope.

(* T12.lex — progress of the lexer.  For EVERY character classification, number syntax and operator
   table (env), every text suffix s and flags: with fuel linear in the remaining length kg_read is never
   out of fuel, the index never moves back, a token means at least one character was consumed and
   "no token" means the end of the text was reached.  (';' must be in kg_read's delimiter list: a newline
   is read as ';'.) *)
Theorem C12_lexer_progress : forall E, z_in 59 (delims E) = true ->
  forall fuel rn ign s, (fuel >= 6 * length s + 2)%nat ->
  match kg_read E fuel rn ign s with
  | Ok p => (length (fst p) <= length s)%nat /\
            (is_none (snd p) = false -> (length (fst p) < length s)%nat) /\
            (is_none (snd p) = true -> fst p = [])
  | Err _ => True
  | OOF => False
  end.
Proof. exact kg_read_total_explicit. Qed.
Print Assumptions C12_lexer_progress.

(* progress of the parser: an expression reader (and with it _factor, _read_fn_args, _apply_adverbs,
   read_cond, read_expr_array, which the proof treats simultaneously) never moves the index back; an
   expression means at least one character was consumed; "no expression" means end of text.  This is the
   invariant that makes every while-loop of the parser advance. *)
Theorem C12_expr_progress : forall E, z_in 59 (delims E) = true -> comment_guard E = true ->
  forall fuel ign s, (fuel >= 6 * length s + 4)%nat ->
  match expr E fuel ign s with
  | Ok p => (length (fst p) <= length s)%nat /\
            (is_none (snd p) = false -> (length (fst p) < length s)%nat) /\
            (is_none (snd p) = true -> fst p = [])
  | Err _ => True
  | OOF => False
  end.
Proof. exact expr_total_explicit. Qed.
Print Assumptions C12_expr_progress.

(* T12.total — parsing terminates on every text: with fuel 6*(|t|+1) (fuel = depth of calls and loop
   iterations) prog returns a program or an error, never OutOfFuel, and the returned index is inside
   the text.  Holds for every env whose marker loop in read_sys_comment is guarded. *)
Theorem C12_prog_total : forall E, z_in 59 (delims E) = true -> comment_guard E = true ->
  forall t fuel, (fuel >= fuel_for (length t))%nat ->
  match prog E fuel t with
  | Ok p => (length (fst p) <= length t)%nat
  | Err _ => True
  | OOF => False
  end.
Proof. exact prog_total_explicit. Qed.
Print Assumptions C12_prog_total.

(* the same for the environment regenerated from /repo on this run: type-checks only while the
   translator finds the guard `while a and …` and ';' among kg_read's delimiters *)
Theorem C12_prog_total_generated : forall t, prog genv (fuel_for (length t)) t <> OOF.
Proof.
  exact (prog_never_oof genv (eq_refl : z_in 59 (delims genv) = true) (eq_refl : comment_guard genv = true)).
Qed.
Print Assumptions C12_prog_total_generated.

(* T12.mono — more fuel never changes a result that is not OutOfFuel (every env, guarded or not) *)
Theorem C12_fuel_monotone : forall E f f' t r, (f <= f')%nat -> prog E f t = r -> r <> OOF -> prog E f' t = r.
Proof. exact prog_mono. Qed.
Print Assumptions C12_fuel_monotone.

(* T12.pure — the result of parsing is a function of the text (and the env) alone: beyond the linear
   bound the fuel is irrelevant, so "the parse of t" is well defined and parsing again gives it again *)
Theorem C12_parse_well_defined : forall E, z_in 59 (delims E) = true -> comment_guard E = true ->
  forall t fuel, (fuel >= fuel_for (length t))%nat -> prog E fuel t = prog E (fuel_for (length t)) t.
Proof. exact prog_fuel_irrelevant. Qed.
Print Assumptions C12_parse_well_defined.

(* repeatability over (text, module): for every module m in which a text is parsed, any two parses with
   enough fuel give the same result (a program or an error), never OutOfFuel.  The module is the only parser
   state klongpy keeps between parses; it enters read_sym only. *)
Theorem C12_parse_repeatable : forall E m, z_in 59 (delims E) = true -> comment_guard E = true ->
  forall t f1 f2, (f1 >= fuel_for (length t))%nat -> (f2 >= fuel_for (length t))%nat ->
  prog (env_with_module E m) f1 t = prog (env_with_module E m) f2 t /\ prog (env_with_module E m) f1 t <> OOF.
Proof. exact prog_fuel_irrelevant_module. Qed.
Print Assumptions C12_parse_repeatable.

(* T12.cost — the amount of work is bounded by a fixed quadratic polynomial in the length of the text.
   `prog_c` (Cost.v) is the parser instrumented with a step counter: 1 per call of a lexer/parser function, the
   number of characters every scanning loop inspects, |rest|+1 per `index`/iteration of .comment's marker loop.
   With the fuel of T12.total it returns exactly the result of `prog`, is never out of fuel, and its cost is at most
   630 (|t|+1)^2 — for every text, program or error alike, every env with a guarded marker loop.
   (The lexer alone is linear; the square comes from peeking: _expr, prog and _read_fn_args read the next token and
   throw it away, and a token — a list literal, a string, a long comment — can be as long as the rest of the text.) *)
Theorem C12_cost_quadratic : forall E, z_in 59 (delims E) = true -> comment_guard E = true ->
  forall t fuel, (fuel >= fuel_for (length t))%nat ->
  erase (prog_c E fuel t) = prog E fuel t /\ prog_c E fuel t <> COOF /\
  (cost_of (prog_c E fuel t) <= 630 * ((length t + 1) * (length t + 1)))%nat.
Proof. exact prog_cost_total. Qed.
Print Assumptions C12_cost_quadratic.

(* the cost bound alone needs neither enough fuel nor the guard: whatever the instrumented parser returns, it
   returned it within the bound (an unguarded .comment("") only ever ends out of fuel) *)
Theorem C12_cost_any_fuel : forall E, z_in 59 (delims E) = true ->
  forall fuel t, (cost_of (prog_c E fuel t) <= 630 * ((length t + 1) * (length t + 1)))%nat.
Proof. exact prog_cost_quadratic. Qed.
Print Assumptions C12_cost_any_fuel.

(* reading one token is linear in the remaining text *)
Theorem C12_lexer_cost_linear : forall E, z_in 59 (delims E) = true ->
  forall fuel rn ign s, (cost_of (kg_read_c E fuel rn ign s) <= 20 * (length s + 1))%nat.
Proof. exact kg_read_cost_linear. Qed.
Print Assumptions C12_lexer_cost_linear.

(* for the environment regenerated from /repo; type-checks only while the translator finds, in /repo, exactly the
   call sites and loops of the model (e.g. the `(`-branch of _factor parses its body once) and scanners that are plain
   character loops (klongpy/parser.py uses no regular expressions: the model's scanners are linear by construction) *)
Theorem C12_cost_quadratic_generated :
  parser_call_sites_as_modelled = true /\ scanners_are_character_loops = true /\
  forall t, (cost_of (prog_c genv (fuel_for (length t)) t) <= 630 * ((length t + 1) * (length t + 1)))%nat.
Proof.
  exact (conj (eq_refl : parser_call_sites_as_modelled = true)
        (conj (eq_refl : scanners_are_character_loops = true)
              (fun t => prog_cost_quadratic genv (eq_refl : z_in 59 (delims genv) = true) (fuel_for (length t)) t))).
Qed.
Print Assumptions C12_cost_quadratic_generated.

(* the same for the environment regenerated from /repo; type-checks only while the translator finds no access to the
   variable context (self._context, self[...]) in prog/_expr/_factor/_read_fn_args/_apply_adverbs, in any method they call,
   and in read_cond/read_expr_array (the model's parser has no variable context at all), and while the parse cache of
   KlongInterpreter.__call__ is keyed by the submitted text itself, unmodified, which is also the text that is parsed
   (a program is a function of (text, module): a cache keyed by anything coarser than the text is not sound) *)
Theorem C12_parse_repeatable_generated :
  parser_does_not_read_variables = true /\ parse_cache_key_is_exact_text = true /\
  forall m t f1 f2, (f1 >= fuel_for (length t))%nat -> (f2 >= fuel_for (length t))%nat ->
  prog (env_with_module genv m) f1 t = prog (env_with_module genv m) f2 t /\ prog (env_with_module genv m) f1 t <> OOF.
Proof.
  exact (conj (eq_refl : parser_does_not_read_variables = true)
        (conj (eq_refl : parse_cache_key_is_exact_text = true)
              (fun m => prog_fuel_irrelevant_module genv m (eq_refl : z_in 59 (delims genv) = true) (eq_refl : comment_guard genv = true)))).
Qed.
Print Assumptions C12_parse_repeatable_generated.

(* T12.comment_refuted (R6, repaired in /repo by `fix: .comment("") no longer hangs the parser`):
   without the guard the marker loop of read_sys_comment never ends for the empty marker, whatever the fuel *)
Theorem C12_unguarded_comment_refuted : forall E, comment_guard E = false ->
  forall fuel s, read_sys_comment E fuel s [] = OOF.
Proof. exact read_sys_comment_unguarded_loops. Qed.
Print Assumptions C12_unguarded_comment_refuted.

(* T12.comment_refuted on the whole parser: with the pre-fix loop (guard flag false, everything else as
   regenerated from /repo) prog is OutOfFuel on the 12-character text  .comment("")  for EVERY fuel *)
Theorem C12_unguarded_prog_refuted :
  exists t, length t = 12%nat /\ forall fuel, prog (env_with_guard genv false) fuel t = OOF.
Proof. exists r6_text. split; [reflexivity|exact r6_prog]. Qed.
Print Assumptions C12_unguarded_prog_refuted.

(* Non-vacuity: the regenerated env meets the hypotheses, and concrete texts parse / are rejected *)
Example C12_env_example : z_in 59 (delims genv) = true /\ comment_guard genv = true.
Proof. split; reflexivity. Qed.

(* the translator recognised the shape of every construct it reads flags from *)
Example C12_shapes_recognised : comment_shape_ok && arity_shape_ok = true.
Proof. reflexivity. Qed.

(* f(1;2)  *)
Example C12_parse_example :
  prog genv (fuel_for 6) [102; 40; 49; 59; 50; 41]
  = Ok ([], [ACall (ASym [102]) (APy [ANum [49]; ANum [50]]) 2]).
Proof. vm_compute. reflexivity. Qed.

(* .comment("") 1   parses to [1] under the guard *)
Example C12_comment_example :
  prog genv (fuel_for 14) (r6_text ++ [32; 49]) = Ok ([], [ANum [49]]).
Proof. vm_compute. reflexivity. Qed.

(* {      is rejected, not a hang *)
Example C12_reject_example : prog genv (fuel_for 1) [123] = Err EChar.
Proof. vm_compute. reflexivity. Qed.

(* a   parsed in module m  is the symbol a`m ; x and .f are not qualified *)
Example C12_module_example :
  prog (env_with_module genv (Some [109])) (fuel_for 8) [97; 59; 120; 59; 46; 102]
  = Ok ([], [ASym [97; 96; 109]; ASym [120]; ASym [46; 102]]).
Proof. vm_compute. reflexivity. Qed.

(* f(1;2) costs 66 steps (bound: 630 * 49) *)
Example C12_cost_example : cost_of (prog_c genv (fuel_for 6) [102; 40; 49; 59; 50; 41]) = 66%nat.
Proof. vm_compute. reflexivity. Qed.
