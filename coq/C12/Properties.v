(* C12/Properties.v — property theorems only. *)
From Coq Require Import ZArith List Bool.
From C12 Require Import Generated Model Proofs.
Import ListNotations.
Open Scope Z_scope.

Theorem C12_skip_space_progress : forall E ign s, (length (skip_space E ign s) <= length s)%nat.
Proof. exact skip_space_le. Qed.
Print Assumptions C12_skip_space_progress.
