(* C12/Proofs.v — progress, totality and fuel monotonicity of the parser model. *)
From Coq Require Import ZArith List Bool Lia.
From KB Require Import Sx.
From C12 Require Import Generated Model.
Import ListNotations.
Open Scope Z_scope.

(* ------------------------------------------------------------------ generic: results *)
Definition post {A} (P : A -> Prop) (r : res A) : Prop :=
  match r with Ok a => P a | Err _ => True | OOF => False end.

Lemma post_bind : forall A B (P : A -> Prop) (Q : B -> Prop) r k,
  post P r -> (forall a, P a -> post Q (k a)) -> post Q (bind r k).
Proof. intros A B P Q [a|e|] k H1 H2; cbn in *; auto. Qed.

Lemma post_weaken : forall A (P Q : A -> Prop) r, post P r -> (forall a, P a -> Q a) -> post Q r.
Proof. intros A P Q [a|e|] H1 H2; cbn in *; auto. Qed.

Lemma post_not_oof : forall A (P : A -> Prop) r, post P r -> r <> OOF.
Proof. intros A P [a|e|] H; cbn in *; congruence. Qed.

(* r ⊑ r' : r is out of fuel, or the two agree *)
Definition le_res {A} (r r' : res A) : Prop := r = OOF \/ r = r'.

Lemma le_refl : forall A (r : res A), le_res r r.
Proof. right; reflexivity. Qed.
Lemma le_oof : forall A (r : res A), le_res OOF r.
Proof. left; reflexivity. Qed.
Lemma le_trans : forall A (a b c : res A), le_res a b -> le_res b c -> le_res a c.
Proof. intros A a b c [H|H] [H'|H']; subst; unfold le_res; auto. Qed.
Lemma le_bind : forall A B (r r' : res A) (k k' : A -> res B),
  le_res r r' -> (forall a, le_res (k a) (k' a)) -> le_res (bind r k) (bind r' k').
Proof.
  intros A B r r' k k' [H|H] Hk; subst; [left; reflexivity|].
  destruct r' as [a|e|]; cbn; [apply Hk | right; reflexivity | left; reflexivity].
Qed.
Lemma le_eq : forall A (r r' : res A), le_res r r' -> r <> OOF -> r' = r.
Proof. intros A r r' [H|H] N; congruence. Qed.

(* the automation used by every monotonicity proof: both sides have the same shape *)
Ltac mono_step IH :=
  first
    [ apply le_refl
    | apply le_oof
    | solve [apply IH]
    | apply le_bind; [ | intros ? ]
    | match goal with
      | |- le_res (match ?x with _ => _ end) _ => destruct x
      end ].
Ltac mono IH := repeat (mono_step IH).

(* ------------------------------------------------------------------ generic: lists *)
Lemma tl_le : forall A (s : list A), (length (tl s) <= length s)%nat.
Proof. destruct s; cbn; lia. Qed.
Lemma skipn_le : forall A n (s : list A), (length (skipn n s) <= length s)%nat.
Proof. intros; rewrite skipn_length; lia. Qed.

Section P.
Variable E : env.

(* ------------------------------------------------------------------ lexer loops: never longer, i.e. the index never moves back *)
Lemma skip_space_le : forall ign s, (length (skip_space E ign s) <= length s)%nat.
Proof.
  induction s as [|c r IH]; cbn [skip_space]; [lia|].
  destruct (isspace E c && (ign || negb (c =? 10))); cbn [length] in *; lia.
Qed.

Lemma read_shifted_comment_le : forall s, (length (read_shifted_comment s) <= length s)%nat.
Proof.
  assert (G : forall n s, (length s <= n)%nat -> (length (read_shifted_comment s) <= length s)%nat).
  { induction n as [|n IH]; intros s Hn; (destruct s as [|c r]; cbn [read_shifted_comment]; [lia|]); cbn [length] in Hn; [lia|].
    destruct (c =? 34).
    - destruct r as [|q r']; [cbn; lia|].
      destruct (q =? 34); [|cbn [length] in *; lia].
      specialize (IH r'). cbn [length] in *. lia.
    - specialize (IH r). cbn [length] in *. lia. }
  intros s. apply (G (length s)). lia.
Qed.

Lemma num_scan_le : forall s acc uf, (length (fst (fst (num_scan E s acc uf))) <= length s)%nat.
Proof.
  assert (G : forall n s, (length s <= n)%nat -> forall acc uf, (length (fst (fst (num_scan E s acc uf))) <= length s)%nat).
  { induction n as [|n IH]; intros s Hn acc uf; (destruct s as [|c r]; cbn [num_scan]; [cbn; lia|]); cbn [length] in Hn; [lia|].
    destruct (c =? 46); [specialize (IH r); specialize (IH ltac:(lia) (c :: acc) true); cbn [length] in *; lia|].
    destruct (c =? 101).
    - destruct r as [|d r']; [cbn; lia|].
      destruct ((d =? 45) || (d =? 43)).
      + destruct r' as [|x r'']; [cbn; lia|].
        specialize (IH r''). cbn [length] in *. specialize (IH ltac:(lia) (x :: d :: c :: acc) true). lia.
      + specialize (IH (d :: r')). cbn [length] in *. specialize (IH ltac:(lia) (c :: acc) true). lia.
    - destruct (isnumeric E c).
      + specialize (IH r). specialize (IH ltac:(lia) (c :: acc) uf). cbn [length] in *; lia.
      + cbn [fst length]; lia. }
  intros s. apply (G (length s)). lia.
Qed.

(* the first character is consumed when it is a digit, a '.' or an 'e' *)
Lemma num_scan_lt : forall c r acc uf,
  isnumeric E c = true ->
  (length (fst (fst (num_scan E (c :: r) acc uf))) < length (c :: r))%nat.
Proof.
  intros c r acc uf Hc. cbn [num_scan].
  pose proof (num_scan_le r) as Hr.
  destruct (c =? 46); [specialize (Hr (c :: acc) true); cbn [length]; lia|].
  destruct (c =? 101).
  - destruct r as [|d r']; [cbn; lia|].
    destruct ((d =? 45) || (d =? 43)).
    + destruct r' as [|x r'']; [cbn; lia|].
      pose proof (num_scan_le r'' (x :: d :: c :: acc) true). cbn [length] in *; lia.
    + specialize (Hr (c :: acc) true); cbn [length] in *; lia.
  - rewrite Hc. specialize (Hr (c :: acc) uf); cbn [length] in *; lia.
Qed.

Lemma sym_span_le : forall s acc, (length (fst (sym_span E s acc)) <= length s)%nat.
Proof.
  induction s as [|c r IH]; intros acc; cbn [sym_span]; [cbn; lia|].
  destruct (is_symbolic E c); [specialize (IH (c :: acc)); cbn [length]; lia | cbn; lia].
Qed.

Lemma read_sym_le : forall s, (length (fst (read_sym E s)) <= length s)%nat.
Proof.
  intros s. unfold read_sym. pose proof (sym_span_le s []) as H.
  destruct (sym_span E s []); cbn [fst] in *; lia.
Qed.

Lemma read_sym_lt : forall c r, is_symbolic E c = true ->
  (length (fst (read_sym E (c :: r))) < length (c :: r))%nat.
Proof.
  intros c r Hc. unfold read_sym. cbn [sym_span]. rewrite Hc.
  pose proof (sym_span_le r [c]) as H. destruct (sym_span E r [c]); cbn [fst length] in *; lia.
Qed.

Lemma read_string_le : forall s acc, (length (fst (read_string s acc)) <= length s)%nat.
Proof.
  assert (G : forall n s, (length s <= n)%nat -> forall acc, (length (fst (read_string s acc)) <= length s)%nat).
  { induction n as [|n IH]; intros s Hn acc; (destruct s as [|c r]; cbn [read_string]; [cbn; lia|]); cbn [length] in Hn; [lia|].
    destruct (c =? 34).
    - destruct r as [|q r']; [cbn; lia|].
      destruct (q =? 34); [|cbn [fst length] in *; lia].
      specialize (IH r'). cbn [length] in *. specialize (IH ltac:(lia) (c :: acc)). lia.
    - specialize (IH r). specialize (IH ltac:(lia) (c :: acc)). cbn [length] in *. lia. }
  intros s. apply (G (length s)). lia.
Qed.

Lemma read_op_lt : forall c r, (length (fst (read_op (c :: r))) < length (c :: r))%nat.
Proof.
  intros c r. unfold read_op.
  destruct (starts2 (c :: r) 92 126 || starts2 (c :: r) 92 42); cbn [fst tl length].
  - pose proof (tl_le _ r). lia.
  - lia.
Qed.

Lemma peek_adverb_le : forall s, (length (fst (peek_adverb E s)) <= length s)%nat.
Proof.
  intros s. unfold peek_adverb.
  destruct s as [|c0 [|c1 r]]; cbn [fst length]; [lia| |].
  - destruct (str_in [c0] (adverbs E)); cbn; lia.
  - destruct (str_in [c0; c1] (adverbs E)); [cbn; lia|].
    destruct (str_in [c0] (adverbs E)); cbn; lia.
Qed.

Lemma peek_more_le : forall s, (length (fst (peek_more E s)) <= length s)%nat.
Proof.
  assert (G : forall n s, (length s <= n)%nat -> (length (fst (peek_more E s)) <= length s)%nat).
  { induction n as [|n IH]; intros s Hn; (destruct s as [|c0 r]; cbn [peek_more]; [cbn; lia|]); cbn [length] in Hn; [lia|].
    destruct r as [|c1 r2].
    - destruct (str_in [c0] (adverbs E)); cbn; lia.
    - destruct (str_in [c0; c1] (adverbs E)).
      + specialize (IH r2). cbn [length] in *. specialize (IH ltac:(lia)).
        destruct (peek_more E r2); cbn [fst length] in *; lia.
      + destruct (str_in [c0] (adverbs E)); [|cbn; lia].
        specialize (IH (c1 :: r2)). cbn [length] in *. specialize (IH ltac:(lia)).
        destruct (peek_more E (c1 :: r2)); cbn [fst length] in *; lia. }
  intros s. apply (G (length s)). lia.
Qed.

(* ------------------------------------------------------------------ postconditions *)
(* a token/expression reader at suffix s: the index never moves back; a value means at least one
   character was consumed; no value means the end of the text was reached *)
Definition tokpost (s : str) (p : str * ast) : Prop :=
  (length (fst p) <= length s)%nat /\
  (is_none (snd p) = false -> (length (fst p) < length s)%nat) /\
  (is_none (snd p) = true -> fst p = []).
Definition lenpost {A} (s : str) (p : str * A) : Prop := (length (fst p) <= length s)%nat.
Definition strpost (s : str) (s' : str) : Prop := (length s' <= length s)%nat.

(* ------------------------------------------------------------------ skip *)
Lemma skip_total : forall fuel ign s, (fuel >= length s + 1)%nat -> post (strpost s) (skip E fuel ign s).
Proof.
  induction fuel as [|f IH]; intros ign s Hf; [lia|].
  cbn [skip]. pose proof (skip_space_le ign s) as H1.
  destruct (starts2 (skip_space E ign s) 58 34) eqn:Hc; [|cbn; unfold strpost; lia].
  destruct (skip_space E ign s) as [|x [|y r]]; cbn [starts2] in Hc; try discriminate.
  cbn [tl]. pose proof (read_shifted_comment_le r) as H2.
  eapply post_weaken; [apply IH; cbn [length] in *; lia|].
  intros a Ha. unfold strpost in *. cbn [length] in *; lia.
Qed.

Lemma skip_mono : forall f ign s, le_res (skip E f ign s) (skip E (S f) ign s).
Proof.
  induction f as [|f IH]; intros ign s; [apply le_oof|].
  cbn [skip]. mono IH.
Qed.

(* ------------------------------------------------------------------ leaf readers *)
Definition ltpost (s : str) (p : str * ast) : Prop :=
  (length (fst p) < length s)%nat /\ is_none (snd p) = false.

Lemma ltpost_tok : forall s1 s p, (length s1 <= length s)%nat -> ltpost s1 p -> tokpost s p.
Proof. intros s1 s p H [H1 H2]. unfold tokpost. rewrite H2. repeat split; intros; try lia; discriminate. Qed.

Lemma tokpost_le : forall s1 s p, (length s1 <= length s)%nat -> tokpost s1 p -> tokpost s p.
Proof. intros s1 s p H (H1 & H2 & H3). unfold tokpost. repeat split; intros; auto; try lia. specialize (H2 H0). lia. Qed.

Lemma read_num_post : forall a0 r, isnumeric E a0 = true \/ (a0 =? 45) = true ->
  post (ltpost (a0 :: r)) (read_num E (a0 :: r)).
Proof.
  intros a0 r H. unfold read_num. destruct (a0 =? 45) eqn:H45.
  - pose proof (num_scan_le r [a0] false) as Hl.
    destruct (num_scan E r [a0] false) as [[rest txt] uf]. cbn [fst] in Hl.
    destruct (num_ok E txt uf); cbn; [|exact I]. split; cbn; [lia|reflexivity].
  - destruct H as [H|H]; [|congruence].
    pose proof (num_scan_lt a0 r [] false H) as Hl.
    destruct (num_scan E (a0 :: r) [] false) as [[rest txt] uf]. cbn [fst] in Hl.
    destruct (num_ok E txt uf); cbn; [|exact I]. split; cbn [fst snd length] in *; [lia|reflexivity].
Qed.

Lemma read_char_post : forall s, starts2 s 48 99 = true -> post (ltpost s) (read_char s).
Proof.
  intros s H. destruct s as [|x [|y r]]; cbn [starts2] in H; try discriminate.
  unfold read_char. cbn [tl]. destruct r as [|c r']; cbn; [exact I|]. split; cbn; [lia|reflexivity].
Qed.

Lemma map_res_dict_post : forall l, post (fun _ => True) (map_res dict_entry l).
Proof.
  induction l as [|x r IH]; cbn [map_res]; [exact I|].
  eapply post_bind with (P := fun _ => True).
  - destruct x; cbn; auto; try (destruct s as [|? [|? ?]]; cbn; auto).
    destruct l as [|k [|v ?]]; cbn; auto. destruct (hashable k); cbn; auto.
  - intros a _. eapply post_bind; [exact IH|]. intros; exact I.
Qed.

Lemma read_string_some : forall s acc, is_none (snd (read_string s acc)) = false.
Proof.
  assert (G : forall n s, (length s <= n)%nat -> forall acc, is_none (snd (read_string s acc)) = false).
  { induction n as [|n IH]; intros s Hn acc; (destruct s as [|c r']; cbn [read_string]; [reflexivity|]);
      cbn [length] in Hn; [lia|].
    destruct (c =? 34).
    - destruct r' as [|q r'']; [reflexivity|].
      destruct (q =? 34); [|reflexivity].
      apply IH. cbn [length] in Hn. lia.
    - apply IH. lia. }
  intros s. apply (G (length s)). lia.
Qed.

Lemma read_sym_some : forall s, is_none (snd (read_sym E s)) = false.
Proof. intros s. unfold read_sym. destruct (sym_span E s []); reflexivity. Qed.

Lemma read_op_some : forall s, is_none (snd (read_op s)) = false.
Proof. intros s. unfold read_op. destruct (starts2 s 92 126 || starts2 s 92 42); reflexivity. Qed.

(* ------------------------------------------------------------------ kg_read / read_list: progress and totality *)
Hypothesis Hdelim : z_in 59 (delims E) = true.

Definition lex_ok (f : nat) (R : lexfuns) : Prop :=
  (forall rn ign s, (f >= 16 * length s + 2)%nat -> post (tokpost s) (l_kg_read R rn ign s)) /\
  (forall d s, (f >= 16 * length s + 4)%nat -> post (lenpost s) (l_read_list R d s)) /\
  (forall d s acc, (f >= 16 * length s + 3)%nat -> post (lenpost s) (l_read_list_loop R d s acc)).

Ltac okpost := cbn [post]; unfold tokpost, lenpost, ltpost, strpost; cbn [fst snd is_none length tl];
  repeat split; intros; try discriminate; try reflexivity; try lia; try congruence.

Lemma kg_read_body_ok : forall f R, lex_ok f R ->
  forall rn ign s, (S f >= 16 * length s + 2)%nat -> post (tokpost s) (kg_read_body E f R rn ign s).
Proof.
  intros f R (Hkg & Hrl & Hrll) rn ign s Hf. unfold kg_read_body.
  eapply post_bind; [apply skip_total; lia|]. intros s1 Hs1. unfold strpost in Hs1.
  destruct s1 as [|a0 r]; [okpost|]. cbn [length] in Hs1.
  destruct (a0 =? 10) eqn:H10.
  { rewrite Hdelim. okpost. }
  destruct (z_in a0 (delims E)); [okpost|].
  destruct (starts2 (a0 :: r) 48 99) eqn:H0c.
  { eapply post_weaken; [apply read_char_post; exact H0c|]. intros p Hp. eapply ltpost_tok; [|exact Hp]. cbn [length]; lia. }
  destruct (isnumeric E a0 || (rn && (a0 =? 45) && match r with d :: _ => isnumeric E d | [] => false end)) eqn:Hnum.
  { eapply post_weaken; [apply read_num_post|].
    - apply orb_true_iff in Hnum. destruct Hnum as [Hn|Hn]; [left; exact Hn|right].
      apply andb_true_iff in Hn. destruct Hn as [Hn _]. apply andb_true_iff in Hn. tauto.
    - intros p Hp. eapply ltpost_tok; [|exact Hp]. cbn [length]; lia. }
  destruct (a0 =? 34).
  { pose proof (read_string_le r []) as Hl. destruct (read_string r []) as [rest v] eqn:Hrs.
    pose proof (read_string_some r []) as Hv. rewrite Hrs in Hv. cbn [snd] in Hv.
    cbn [fst] in Hl. okpost. }
  destruct (a0 =? 58).
  - destruct r as [|aa r2].
    + (* ':' at the end of the text: falls through to the operator reader *)
      destruct (a0 =? 91).
      { eapply post_bind; [apply Hrl; cbn [length] in *; lia|]. intros [s2 l] Hl. unfold lenpost in Hl. cbn [fst] in Hl. okpost. }
      destruct (is_symbolic E a0) eqn:Hsym.
      { pose proof (read_sym_lt a0 [] Hsym) as Hl. destruct (read_sym E [a0]) as [rest v] eqn:Hrs.
        pose proof (read_sym_some [a0]) as Hv; rewrite Hrs in Hv; cbn [snd] in Hv.
        cbn [fst length] in *. okpost. }
      pose proof (read_op_lt a0 []) as Hl. destruct (read_op [a0]) as [rest v] eqn:Hrs.
      pose proof (read_op_some [a0]) as Hv; rewrite Hrs in Hv; cbn [snd] in Hv.
      cbn [fst length] in *. okpost.
    + cbn [length] in Hs1.
      destruct (isalpha E aa || (aa =? 46)) eqn:Hal.
      { assert (Hsym : is_symbolic E aa = true).
        { unfold is_symbolic. apply orb_true_iff in Hal. destruct Hal as [H|H]; rewrite H; [reflexivity|]. apply orb_true_r. }
        pose proof (read_sym_lt aa r2 Hsym) as Hl. destruct (read_sym E (aa :: r2)) as [rest v] eqn:Hrs.
        pose proof (read_sym_some (aa :: r2)) as Hv; rewrite Hrs in Hv; cbn [snd] in Hv.
        cbn [fst length] in *. okpost. }
      destruct (isnumeric E aa || (aa =? 34)).
      { eapply post_weaken; [apply Hkg; cbn [length]; lia|]. intros p Hp. eapply tokpost_le; [|exact Hp]. cbn [length]; lia. }
      destruct (aa =? 123).
      { eapply post_bind; [apply Hrl; lia|]. intros [s2 d] Hl. unfold lenpost in Hl. cbn [fst] in Hl.
        eapply post_bind; [apply map_res_dict_post|]. intros kv _. okpost. }
      destruct (aa =? 91); [okpost|]. destruct (aa =? 124); okpost.
  - destruct (a0 =? 91).
    { eapply post_bind; [apply Hrl; lia|]. intros [s2 l] Hl. unfold lenpost in Hl. cbn [fst] in Hl. okpost. }
    destruct (is_symbolic E a0) eqn:Hsym.
    { pose proof (read_sym_lt a0 r Hsym) as Hl. destruct (read_sym E (a0 :: r)) as [rest v] eqn:Hrs.
      pose proof (read_sym_some (a0 :: r)) as Hv; rewrite Hrs in Hv; cbn [snd] in Hv.
      cbn [fst length] in *. okpost. }
    pose proof (read_op_lt a0 r) as Hl. destruct (read_op (a0 :: r)) as [rest v] eqn:Hrs.
    pose proof (read_op_some (a0 :: r)) as Hv; rewrite Hrs in Hv; cbn [snd] in Hv.
    cbn [fst length] in *. okpost.
Qed.

Lemma read_list_body_ok : forall f R, lex_ok f R ->
  forall d s, (S f >= 16 * length s + 4)%nat -> post (lenpost s) (read_list_body E f R d s).
Proof.
  intros f R (Hkg & Hrl & Hrll) d s Hf. unfold read_list_body.
  eapply post_bind; [apply skip_total; lia|]. intros s1 Hs1. unfold strpost in Hs1.
  eapply post_weaken; [apply Hrll; lia|]. intros p Hp. unfold lenpost in *. lia.
Qed.

Lemma read_list_loop_body_ok : forall f R, lex_ok f R ->
  forall d s acc, (S f >= 16 * length s + 3)%nat -> post (lenpost s) (read_list_loop_body E f R d s acc).
Proof.
  intros f R (Hkg & Hrl & Hrll) d s acc Hf. unfold read_list_loop_body.
  destruct (starts1 s d || match s with [] => true | _ :: _ => false end) eqn:Hend.
  { pose proof (tl_le _ s). destruct (starts1 s d); okpost. }
  destruct s as [|c0 s0]; [rewrite orb_true_r in Hend; discriminate|].
  eapply post_bind; [apply Hkg; lia|]. intros [s1 q] (H1 & H2 & H3). cbn [fst snd] in *.
  destruct (is_none q) eqn:Hq.
  { pose proof (tl_le _ s1). destruct (starts1 s1 d); okpost. }
  specialize (H2 eq_refl).
  eapply post_bind; [apply skip_total; lia|]. intros s3 Hs3. unfold strpost in Hs3.
  eapply post_weaken; [apply Hrll; cbn [length] in *; lia|]. intros p Hp. unfold lenpost in *. lia.
Qed.

Lemma lex_total : forall f, lex_ok f (lex_iter E f).
Proof.
  induction f as [|f IH].
  - repeat split; intros; lia.
  - cbn [lex_iter]. repeat split; cbn [l_kg_read l_read_list l_read_list_loop]; intros.
    + apply kg_read_body_ok; assumption.
    + apply read_list_body_ok; assumption.
    + apply read_list_loop_body_ok; assumption.
Qed.

Lemma kg_read_total : forall f rn ign s, (f >= 16 * length s + 2)%nat -> post (tokpost s) (kg_read E f rn ign s).
Proof. intros. apply lex_total. assumption. Qed.

End P.
