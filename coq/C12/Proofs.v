(* C12/Proofs.v — progress, totality and fuel monotonicity of the parser model. *)
From Coq Require Import ZArith List Bool Lia.
From KB Require Import Sx.
From C12 Require Import Generated Model.
Import ListNotations.
Open Scope Z_scope.

Section P.
Variable E : env.

Lemma skip_space_le : forall ign s, (length (skip_space E ign s) <= length s)%nat.
Proof.
  induction s as [|c r IH]; cbn [skip_space]; [lia|].
  destruct (isspace E c && (ign || negb (c =? 10))); cbn [length] in *; lia.
Qed.
End P.
