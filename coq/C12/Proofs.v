(* C12/Proofs.v — progress, totality and fuel monotonicity of the parser model. *)
From Coq Require Import ZArith List Bool Lia.
From KB Require Import Sx.
From C12 Require Import Model.
Import ListNotations.
Open Scope Z_scope.

(* ------------------------------------------------------------------ generic: results *)
Definition post {A} (P : A -> Prop) (r : res A) : Prop :=
  match r with Ok a => P a | Err _ => True | OOF => False end.

Lemma post_bind : forall A B (P : A -> Prop) (Q : B -> Prop) r k,
  post P r -> (forall a, P a -> post Q (k a)) -> post Q (bind r k).
Proof. intros A B P Q [a|e|] k H1 H2; cbn in *; auto. Qed.

Lemma post_weaken : forall A (P Q : A -> Prop) r, post P r -> (forall a, P a -> Q a) -> post Q r.
Proof. intros A P Q [a|e|] H1 H2; cbn in *; auto. Qed.

Lemma post_not_oof : forall A (P : A -> Prop) r, post P r -> r <> OOF.
Proof. intros A P [a|e|] H; cbn in *; congruence. Qed.

(* r ⊑ r' : r is out of fuel, or the two agree *)
Definition le_res {A} (r r' : res A) : Prop := r = OOF \/ r = r'.

Lemma le_refl : forall A (r : res A), le_res r r.
Proof. right; reflexivity. Qed.
Lemma le_oof : forall A (r : res A), le_res OOF r.
Proof. left; reflexivity. Qed.
Lemma le_trans : forall A (a b c : res A), le_res a b -> le_res b c -> le_res a c.
Proof. intros A a b c [H|H] [H'|H']; subst; unfold le_res; auto. Qed.
Lemma le_bind : forall A B (r r' : res A) (k k' : A -> res B),
  le_res r r' -> (forall a, le_res (k a) (k' a)) -> le_res (bind r k) (bind r' k').
Proof.
  intros A B r r' k k' [H|H] Hk; subst; [left; reflexivity|].
  destruct r' as [a|e|]; cbn; [apply Hk | right; reflexivity | left; reflexivity].
Qed.
Lemma le_eq : forall A (r r' : res A), le_res r r' -> r <> OOF -> r' = r.
Proof. intros A r r' [H|H] N; congruence. Qed.

(* ------------------------------------------------------------------ generic: lists *)
Lemma tl_le : forall A (s : list A), (length (tl s) <= length s)%nat.
Proof. destruct s; cbn; lia. Qed.
Lemma skipn_le : forall A n (s : list A), (length (skipn n s) <= length s)%nat.
Proof. intros; rewrite skipn_length; lia. Qed.

Section P.
Variable E : env.

(* ------------------------------------------------------------------ lexer loops: never longer, i.e. the index never moves back *)
Lemma skip_space_le : forall ign s, (length (skip_space E ign s) <= length s)%nat.
Proof.
  induction s as [|c r IH]; cbn [skip_space]; [lia|].
  destruct (isspace E c && (ign || negb (c =? 10))); cbn [length] in *; lia.
Qed.

Lemma read_shifted_comment_le : forall s, (length (read_shifted_comment s) <= length s)%nat.
Proof.
  assert (G : forall n s, (length s <= n)%nat -> (length (read_shifted_comment s) <= length s)%nat).
  { induction n as [|n IH]; intros s Hn; (destruct s as [|c r]; cbn [read_shifted_comment]; [lia|]); cbn [length] in Hn; [lia|].
    destruct (c =? 34).
    - destruct r as [|q r']; [cbn; lia|].
      destruct (q =? 34); [|cbn [length] in *; lia].
      specialize (IH r'). cbn [length] in *. lia.
    - specialize (IH r). cbn [length] in *. lia. }
  intros s. apply (G (length s)). lia.
Qed.

Lemma num_scan_le : forall s acc uf, (length (fst (fst (num_scan E s acc uf))) <= length s)%nat.
Proof.
  assert (G : forall n s, (length s <= n)%nat -> forall acc uf, (length (fst (fst (num_scan E s acc uf))) <= length s)%nat).
  { induction n as [|n IH]; intros s Hn acc uf; (destruct s as [|c r]; cbn [num_scan]; [cbn; lia|]); cbn [length] in Hn; [lia|].
    destruct (c =? 46); [specialize (IH r); specialize (IH ltac:(lia) (c :: acc) true); cbn [length] in *; lia|].
    destruct (c =? 101).
    - destruct r as [|d r']; [cbn; lia|].
      destruct ((d =? 45) || (d =? 43)).
      + destruct r' as [|x r'']; [cbn; lia|].
        specialize (IH r''). cbn [length] in *. specialize (IH ltac:(lia) (x :: d :: c :: acc) true). lia.
      + specialize (IH (d :: r')). cbn [length] in *. specialize (IH ltac:(lia) (c :: acc) true). lia.
    - destruct (isnumeric E c).
      + specialize (IH r). specialize (IH ltac:(lia) (c :: acc) uf). cbn [length] in *; lia.
      + cbn [fst length]; lia. }
  intros s. apply (G (length s)). lia.
Qed.

(* the first character is consumed when it is a digit, a '.' or an 'e' *)
Lemma num_scan_lt : forall c r acc uf,
  isnumeric E c = true ->
  (length (fst (fst (num_scan E (c :: r) acc uf))) < length (c :: r))%nat.
Proof.
  intros c r acc uf Hc. cbn [num_scan].
  pose proof (num_scan_le r) as Hr.
  destruct (c =? 46); [specialize (Hr (c :: acc) true); cbn [length]; lia|].
  destruct (c =? 101).
  - destruct r as [|d r']; [cbn; lia|].
    destruct ((d =? 45) || (d =? 43)).
    + destruct r' as [|x r'']; [cbn; lia|].
      pose proof (num_scan_le r'' (x :: d :: c :: acc) true). cbn [length] in *; lia.
    + specialize (Hr (c :: acc) true); cbn [length] in *; lia.
  - rewrite Hc. specialize (Hr (c :: acc) uf); cbn [length] in *; lia.
Qed.

Lemma sym_span_le : forall s acc, (length (fst (sym_span E s acc)) <= length s)%nat.
Proof.
  induction s as [|c r IH]; intros acc; cbn [sym_span]; [cbn; lia|].
  destruct (is_symbolic E c); [specialize (IH (c :: acc)); cbn [length]; lia | cbn; lia].
Qed.

Lemma read_sym_le : forall s, (length (fst (read_sym E s)) <= length s)%nat.
Proof.
  intros s. unfold read_sym. pose proof (sym_span_le s []) as H.
  destruct (sym_span E s []); cbn [fst] in *; lia.
Qed.

Lemma read_sym_lt : forall c r, is_symbolic E c = true ->
  (length (fst (read_sym E (c :: r))) < length (c :: r))%nat.
Proof.
  intros c r Hc. unfold read_sym. cbn [sym_span]. rewrite Hc.
  pose proof (sym_span_le r [c]) as H. destruct (sym_span E r [c]); cbn [fst length] in *; lia.
Qed.

Lemma read_string_le : forall s acc, (length (fst (read_string s acc)) <= length s)%nat.
Proof.
  assert (G : forall n s, (length s <= n)%nat -> forall acc, (length (fst (read_string s acc)) <= length s)%nat).
  { induction n as [|n IH]; intros s Hn acc; (destruct s as [|c r]; cbn [read_string]; [cbn; lia|]); cbn [length] in Hn; [lia|].
    destruct (c =? 34).
    - destruct r as [|q r']; [cbn; lia|].
      destruct (q =? 34); [|cbn [fst length] in *; lia].
      specialize (IH r'). cbn [length] in *. specialize (IH ltac:(lia) (c :: acc)). lia.
    - specialize (IH r). specialize (IH ltac:(lia) (c :: acc)). cbn [length] in *. lia. }
  intros s. apply (G (length s)). lia.
Qed.

Lemma read_op_lt : forall c r, (length (fst (read_op (c :: r))) < length (c :: r))%nat.
Proof.
  intros c r. unfold read_op.
  destruct (starts2 (c :: r) 92 126 || starts2 (c :: r) 92 42); cbn [fst tl length].
  - pose proof (tl_le _ r). lia.
  - lia.
Qed.

Lemma peek_adverb_le : forall s, (length (fst (peek_adverb E s)) <= length s)%nat.
Proof.
  intros s. unfold peek_adverb.
  destruct s as [|c0 [|c1 r]]; cbn [fst length]; [lia| |].
  - destruct (str_in [c0] (adverbs E)); cbn; lia.
  - destruct (str_in [c0; c1] (adverbs E)); [cbn; lia|].
    destruct (str_in [c0] (adverbs E)); cbn; lia.
Qed.

Lemma peek_more_le : forall s, (length (fst (peek_more E s)) <= length s)%nat.
Proof.
  assert (G : forall n s, (length s <= n)%nat -> (length (fst (peek_more E s)) <= length s)%nat).
  { induction n as [|n IH]; intros s Hn; (destruct s as [|c0 r]; cbn [peek_more]; [cbn; lia|]); cbn [length] in Hn; [lia|].
    destruct r as [|c1 r2].
    - destruct (str_in [c0] (adverbs E)); cbn; lia.
    - destruct (str_in [c0; c1] (adverbs E)).
      + specialize (IH r2). cbn [length] in *. specialize (IH ltac:(lia)).
        destruct (peek_more E r2); cbn [fst length] in *; lia.
      + destruct (str_in [c0] (adverbs E)); [|cbn; lia].
        specialize (IH (c1 :: r2)). cbn [length] in *. specialize (IH ltac:(lia)).
        destruct (peek_more E (c1 :: r2)); cbn [fst length] in *; lia. }
  intros s. apply (G (length s)). lia.
Qed.

(* ------------------------------------------------------------------ postconditions *)
(* a token/expression reader at suffix s: the index never moves back; a value means at least one
   character was consumed; no value means the end of the text was reached *)
Definition tokpost (s : str) (p : str * ast) : Prop :=
  (length (fst p) <= length s)%nat /\
  (is_none (snd p) = false -> (length (fst p) < length s)%nat) /\
  (is_none (snd p) = true -> fst p = []).
Definition lenpost {A} (s : str) (p : str * A) : Prop := (length (fst p) <= length s)%nat.
Definition strpost (s : str) (s' : str) : Prop := (length s' <= length s)%nat.
Definition somepost (s : str) (p : str * ast) : Prop :=
  (length (fst p) <= length s)%nat /\ is_none (snd p) = false.

(* ------------------------------------------------------------------ skip *)
Lemma skip_total : forall fuel ign s, (fuel >= length s + 1)%nat -> post (strpost s) (skip E fuel ign s).
Proof.
  induction fuel as [|f IH]; intros ign s Hf; [lia|].
  cbn [skip]. pose proof (skip_space_le ign s) as H1.
  destruct (starts2 (skip_space E ign s) 58 34) eqn:Hc; [|cbn; unfold strpost; lia].
  destruct (skip_space E ign s) as [|x [|y r]]; cbn [starts2] in Hc; try discriminate.
  cbn [tl]. pose proof (read_shifted_comment_le r) as H2.
  eapply post_weaken; [apply IH; cbn [length] in *; lia|].
  intros a Ha. unfold strpost in *. cbn [length] in *; lia.
Qed.

(* ------------------------------------------------------------------ leaf readers *)
Definition ltpost (s : str) (p : str * ast) : Prop :=
  (length (fst p) < length s)%nat /\ is_none (snd p) = false.

Lemma ltpost_tok : forall s1 s p, (length s1 <= length s)%nat -> ltpost s1 p -> tokpost s p.
Proof. intros s1 s p H [H1 H2]. unfold tokpost. rewrite H2. repeat split; intros; try lia; discriminate. Qed.

Lemma tokpost_le : forall s1 s p, (length s1 <= length s)%nat -> tokpost s1 p -> tokpost s p.
Proof. intros s1 s p H (H1 & H2 & H3). unfold tokpost. repeat split; intros; auto; try lia. specialize (H2 H0). lia. Qed.

Lemma read_num_post : forall a0 r, isnumeric E a0 = true \/ (a0 =? 45) = true ->
  post (ltpost (a0 :: r)) (read_num E (a0 :: r)).
Proof.
  intros a0 r H. unfold read_num. destruct (a0 =? 45) eqn:H45.
  - pose proof (num_scan_le r [a0] false) as Hl.
    destruct (num_scan E r [a0] false) as [[rest txt] uf]. cbn [fst] in Hl.
    destruct (num_ok E txt uf); cbn; [|exact I]. split; cbn; [lia|reflexivity].
  - destruct H as [H|H]; [|congruence].
    pose proof (num_scan_lt a0 r [] false H) as Hl.
    destruct (num_scan E (a0 :: r) [] false) as [[rest txt] uf]. cbn [fst] in Hl.
    destruct (num_ok E txt uf); cbn; [|exact I]. split; cbn [fst snd length] in *; [lia|reflexivity].
Qed.

Lemma read_char_post : forall s, starts2 s 48 99 = true -> post (ltpost s) (read_char s).
Proof.
  intros s H. destruct s as [|x [|y r]]; cbn [starts2] in H; try discriminate.
  unfold read_char. cbn [tl]. destruct r as [|c r']; cbn; [exact I|]. split; cbn; [lia|reflexivity].
Qed.

Lemma map_res_dict_post : forall l, post (fun _ => True) (map_res dict_entry l).
Proof.
  induction l as [|x r IH]; cbn [map_res]; [exact I|].
  eapply post_bind with (P := fun _ => True).
  - destruct x; cbn; auto; try (destruct s as [|? [|? ?]]; cbn; auto).
    destruct l as [|k [|v ?]]; cbn; auto. destruct (hashable k); cbn; auto.
  - intros a _. eapply post_bind; [exact IH|]. intros; exact I.
Qed.

Lemma read_string_some : forall s acc, is_none (snd (read_string s acc)) = false.
Proof.
  assert (G : forall n s, (length s <= n)%nat -> forall acc, is_none (snd (read_string s acc)) = false).
  { induction n as [|n IH]; intros s Hn acc; (destruct s as [|c r']; cbn [read_string]; [reflexivity|]);
      cbn [length] in Hn; [lia|].
    destruct (c =? 34).
    - destruct r' as [|q r'']; [reflexivity|].
      destruct (q =? 34); [|reflexivity].
      apply IH. cbn [length] in Hn. lia.
    - apply IH. lia. }
  intros s. apply (G (length s)). lia.
Qed.

Lemma read_sym_some : forall s, is_none (snd (read_sym E s)) = false.
Proof. intros s. unfold read_sym. destruct (sym_span E s []); reflexivity. Qed.

Lemma read_op_some : forall s, is_none (snd (read_op s)) = false.
Proof. intros s. unfold read_op. destruct (starts2 s 92 126 || starts2 s 92 42); reflexivity. Qed.

(* ------------------------------------------------------------------ kg_read / read_list: progress and totality *)
Hypothesis Hdelim : z_in 59 (delims E) = true.

Definition lex_ok (f : nat) (R : lexfuns) : Prop :=
  (forall rn ign s, (f >= 6 * length s + 2)%nat -> post (tokpost s) (l_kg_read R rn ign s)) /\
  (forall d s, (f >= 6 * length s + 4)%nat -> post (lenpost s) (l_read_list R d s)) /\
  (forall d s acc, (f >= 6 * length s + 3)%nat -> post (lenpost s) (l_read_list_loop R d s acc)).

Ltac okpost := cbn [post]; unfold tokpost, lenpost, ltpost, strpost, somepost in *; cbn [fst snd is_none length tl] in *;
  repeat split; intros; try discriminate; try reflexivity; try lia; try congruence.

Lemma kg_read_body_ok : forall f R, lex_ok f R ->
  forall rn ign s, (S f >= 6 * length s + 2)%nat -> post (tokpost s) (kg_read_body E f R rn ign s).
Proof.
  intros f R (Hkg & Hrl & Hrll) rn ign s Hf. unfold kg_read_body.
  eapply post_bind; [apply skip_total; lia|]. intros s1 Hs1. unfold strpost in Hs1.
  destruct s1 as [|a0 r]; [okpost|]. cbn [length] in Hs1.
  destruct (a0 =? 10) eqn:H10.
  { rewrite Hdelim. okpost. }
  destruct (z_in a0 (delims E)); [okpost|].
  destruct (starts2 (a0 :: r) 48 99) eqn:H0c.
  { eapply post_weaken; [apply read_char_post; exact H0c|]. intros p Hp. eapply ltpost_tok; [|exact Hp]. cbn [length]; lia. }
  destruct (isnumeric E a0 || (rn && (a0 =? 45) && match r with d :: _ => isnumeric E d | [] => false end)) eqn:Hnum.
  { eapply post_weaken; [apply read_num_post|].
    - apply orb_true_iff in Hnum. destruct Hnum as [Hn|Hn]; [left; exact Hn|right].
      apply andb_true_iff in Hn. destruct Hn as [Hn _]. apply andb_true_iff in Hn. tauto.
    - intros p Hp. eapply ltpost_tok; [|exact Hp]. cbn [length]; lia. }
  destruct (a0 =? 34).
  { pose proof (read_string_le r []) as Hl. destruct (read_string r []) as [rest v] eqn:Hrs.
    pose proof (read_string_some r []) as Hv. rewrite Hrs in Hv. cbn [snd] in Hv.
    cbn [fst] in Hl. okpost. }
  destruct (a0 =? 58).
  - destruct r as [|aa r2].
    + (* ':' at the end of the text: falls through to the operator reader *)
      destruct (a0 =? 91).
      { eapply post_bind; [apply Hrl; cbn [length] in *; lia|]. intros [s2 l] Hl. unfold lenpost in Hl. cbn [fst] in Hl. okpost. }
      destruct (is_symbolic E a0) eqn:Hsym.
      { pose proof (read_sym_lt a0 [] Hsym) as Hl. destruct (read_sym E [a0]) as [rest v] eqn:Hrs.
        pose proof (read_sym_some [a0]) as Hv; rewrite Hrs in Hv; cbn [snd] in Hv.
        cbn [fst length] in *. okpost. }
      pose proof (read_op_lt a0 []) as Hl. destruct (read_op [a0]) as [rest v] eqn:Hrs.
      pose proof (read_op_some [a0]) as Hv; rewrite Hrs in Hv; cbn [snd] in Hv.
      cbn [fst length] in *. okpost.
    + cbn [length] in Hs1.
      destruct (isalpha E aa || (aa =? 46)) eqn:Hal.
      { assert (Hsym : is_symbolic E aa = true).
        { unfold is_symbolic. apply orb_true_iff in Hal. destruct Hal as [H|H]; rewrite H; [reflexivity|]. apply orb_true_r. }
        pose proof (read_sym_lt aa r2 Hsym) as Hl. destruct (read_sym E (aa :: r2)) as [rest v] eqn:Hrs.
        pose proof (read_sym_some (aa :: r2)) as Hv; rewrite Hrs in Hv; cbn [snd] in Hv.
        cbn [fst length] in *. okpost. }
      destruct (isnumeric E aa || (aa =? 34)).
      { eapply post_weaken; [apply Hkg; cbn [length]; lia|]. intros p Hp. eapply tokpost_le; [|exact Hp]. cbn [length]; lia. }
      destruct (aa =? 123).
      { eapply post_bind; [apply Hrl; lia|]. intros [s2 d] Hl. unfold lenpost in Hl. cbn [fst] in Hl.
        eapply post_bind; [apply map_res_dict_post|]. intros kv _. okpost. }
      destruct (aa =? 91); [okpost|]. destruct (aa =? 124); okpost.
  - destruct (a0 =? 91).
    { eapply post_bind; [apply Hrl; lia|]. intros [s2 l] Hl. unfold lenpost in Hl. cbn [fst] in Hl. okpost. }
    destruct (is_symbolic E a0) eqn:Hsym.
    { pose proof (read_sym_lt a0 r Hsym) as Hl. destruct (read_sym E (a0 :: r)) as [rest v] eqn:Hrs.
      pose proof (read_sym_some (a0 :: r)) as Hv; rewrite Hrs in Hv; cbn [snd] in Hv.
      cbn [fst length] in *. okpost. }
    pose proof (read_op_lt a0 r) as Hl. destruct (read_op (a0 :: r)) as [rest v] eqn:Hrs.
    pose proof (read_op_some (a0 :: r)) as Hv; rewrite Hrs in Hv; cbn [snd] in Hv.
    cbn [fst length] in *. okpost.
Qed.

Lemma read_list_body_ok : forall f R, lex_ok f R ->
  forall d s, (S f >= 6 * length s + 4)%nat -> post (lenpost s) (read_list_body E f R d s).
Proof.
  intros f R (Hkg & Hrl & Hrll) d s Hf. unfold read_list_body.
  eapply post_bind; [apply skip_total; lia|]. intros s1 Hs1. unfold strpost in Hs1.
  eapply post_weaken; [apply Hrll; lia|]. intros p Hp. unfold lenpost in *. lia.
Qed.

Lemma read_list_loop_body_ok : forall f R, lex_ok f R ->
  forall d s acc, (S f >= 6 * length s + 3)%nat -> post (lenpost s) (read_list_loop_body E f R d s acc).
Proof.
  intros f R (Hkg & Hrl & Hrll) d s acc Hf. unfold read_list_loop_body.
  destruct (starts1 s d || match s with [] => true | _ :: _ => false end) eqn:Hend.
  { pose proof (tl_le _ s). destruct (starts1 s d); okpost. }
  destruct s as [|c0 s0]; [rewrite orb_true_r in Hend; discriminate|].
  eapply post_bind; [apply Hkg; lia|]. intros [s1 q] (H1 & H2 & H3). cbn [fst snd] in *.
  destruct (is_none q) eqn:Hq.
  { pose proof (tl_le _ s1). destruct (starts1 s1 d); okpost. }
  specialize (H2 eq_refl).
  eapply post_bind; [apply skip_total; lia|]. intros s3 Hs3. unfold strpost in Hs3.
  eapply post_weaken; [apply Hrll; cbn [length] in *; lia|]. intros p Hp. unfold lenpost in *. lia.
Qed.

Lemma kg_read_S : forall f rn ign s, kg_read E (S f) rn ign s = kg_read_body E f (lexrec E f) rn ign s.
Proof. reflexivity. Qed.
Lemma read_list_S : forall f d s, read_list E (S f) d s = read_list_body E f (lexrec E f) d s.
Proof. reflexivity. Qed.
Lemma read_list_loop_S : forall f d s acc, read_list_loop E (S f) d s acc = read_list_loop_body E f (lexrec E f) d s acc.
Proof. reflexivity. Qed.

Lemma lex_total : forall f, lex_ok f (lexrec E f).
Proof.
  induction f as [|f IH].
  - repeat split; intros; lia.
  - unfold lexrec. repeat split; cbn [l_kg_read l_read_list l_read_list_loop]; intros.
    + rewrite kg_read_S. apply kg_read_body_ok; assumption.
    + rewrite read_list_S. apply read_list_body_ok; assumption.
    + rewrite read_list_loop_S. apply read_list_loop_body_ok; assumption.
Qed.

Lemma kg_read_total : forall f rn ign s, (f >= 6 * length s + 2)%nat -> post (tokpost s) (kg_read E f rn ign s).
Proof. intros f rn ign s H. exact (proj1 (lex_total f) rn ign s H). Qed.

(* ------------------------------------------------------------------ .comment *)
Hypothesis Hguard : comment_guard E = true.

Lemma starts_with_cons_nonempty : forall x a s, starts_with (x :: a) s = true -> s <> [].
Proof. intros x a [|y s] H; cbn in H; congruence. Qed.

Lemma comment_run_total : forall fuel a s j, (fuel >= length s + 1)%nat -> post (fun _ => True) (comment_run E fuel a s j).
Proof.
  induction fuel as [|f IH]; intros a s j Hf; [lia|].
  cbn [comment_run]. rewrite Hguard.
  destruct a as [|x a']; [cbn; exact I|]. cbn [negb andb].
  destruct (starts_with (x :: a') s) eqn:Hs; [|cbn; exact I].
  apply starts_with_cons_nonempty in Hs. destruct s as [|y s']; [congruence|].
  apply IH. cbn [tl length] in *. lia.
Qed.

Lemma read_sys_comment_total : forall fuel s a, (fuel >= length s + 1)%nat -> post (strpost s) (read_sys_comment E fuel s a).
Proof.
  intros fuel s a Hf. unfold read_sys_comment. destruct (find_sub a s) as [j|]; [|exact I].
  eapply post_bind; [apply comment_run_total; pose proof (skipn_le _ (S j) s); lia|].
  intros j' _. cbn. unfold strpost. apply skipn_le.
Qed.

(* ------------------------------------------------------------------ parser: progress and totality *)
Definition parse_ok (f : nat) (R : parsefuns) : Prop :=
  (forall ign s acc, (f >= 6 * length s + 5)%nat -> post (lenpost s) (p_prog_loop R ign s acc)) /\
  (forall ign s, (f >= 6 * length s + 4)%nat -> post (tokpost s) (p_expr R ign s)) /\
  (forall ign i a ii aa, (f >= 6 * length i + 5)%nat -> is_none a = false ->
      (length ii <= length i)%nat -> (is_none aa = false -> (length ii < length i)%nat) ->
      post (somepost i) (p_expr_loop R ign i a ii aa)) /\
  (forall s, (f >= 6 * length s + 6)%nat -> post (somepost s) (p_fn_lit R s)) /\
  (forall ign s, (f >= 6 * length s + 3)%nat -> post (tokpost s) (p_factor R ign s)) /\
  (forall s a aa ar dy dv, (f >= 6 * length s + 5)%nat -> post (somepost s) (p_apply_adverbs R s a aa ar dy dv)) /\
  (forall s, (f >= 6 * length s + 5)%nat -> post (lenpost s) (p_read_fn_args R s)) /\
  (forall s k acc, (f >= 6 * length s + 5)%nat -> post (lenpost s) (p_fn_args_loop R s k acc)) /\
  (forall s, (f >= 6 * length s + 5)%nat -> post (somepost s) (p_read_cond R s)) /\
  (forall s acc, (f >= 6 * length s + 5)%nat -> post (lenpost s) (p_expr_array_loop R s acc)).

Lemma cexpect_post : forall s c, post (fun s' => length s = S (length s')) (cexpect s c).
Proof. intros [|x r] c; cbn; [exact I|]. destruct (x =? c); cbn; auto. Qed.

Lemma mk_call_some : forall a fa n, is_none (mk_call a fa n) = false.
Proof. intros. unfold mk_call. destruct (has_none fa); reflexivity. Qed.

Lemma get_fn_arity_post : forall a, post (fun _ => True) (get_fn_arity E a).
Proof.
  intros a. unfold get_fn_arity.
  destruct a; try exact I; destruct a1; try exact I; destruct (str_in s (reserved E)); try exact I;
    destruct a2; try exact I; destruct (forallb hashable l); exact I.
Qed.

Ltac la := cbn [length fst snd tl] in *; lia.

Section Bodies.
Variables (f : nat) (L : lexfuns) (R : parsefuns).
Hypothesis HL : lex_ok f L.
Hypothesis HR : parse_ok f R.

Let Hkg := proj1 HL.
Let Hprog := proj1 HR.
Let Hexpr := proj1 (proj2 HR).
Let Hloop := proj1 (proj2 (proj2 HR)).
Let Hfnlit := proj1 (proj2 (proj2 (proj2 HR))).
Let Hfactor := proj1 (proj2 (proj2 (proj2 (proj2 HR)))).
Let Hadv := proj1 (proj2 (proj2 (proj2 (proj2 (proj2 HR))))).
Let Hargs := proj1 (proj2 (proj2 (proj2 (proj2 (proj2 (proj2 HR)))))).
Let Hargsl := proj1 (proj2 (proj2 (proj2 (proj2 (proj2 (proj2 (proj2 HR))))))).
Let Hcond := proj1 (proj2 (proj2 (proj2 (proj2 (proj2 (proj2 (proj2 (proj2 HR)))))))).
Let Hearr := proj2 (proj2 (proj2 (proj2 (proj2 (proj2 (proj2 (proj2 (proj2 HR)))))))).

Lemma prog_loop_body_ok : forall ign s acc, (S f >= 6 * length s + 5)%nat ->
  post (lenpost s) (prog_loop_body f L R ign s acc).
Proof.
  intros ign s acc Hf. unfold prog_loop_body. destruct s as [|c0 s0]; [okpost|].
  eapply post_bind; [apply Hexpr; la|]. intros [s1 q] (H1 & H2 & H3). cbn [fst snd] in *.
  destruct (is_none q) eqn:Hq; cbn [orb].
  { specialize (H3 eq_refl). subst s1. eapply post_weaken; [apply Hprog; la|]. intros p Hp. okpost. }
  specialize (H2 eq_refl).
  destruct (str_is q [59]).
  { eapply post_weaken; [apply Hprog; la|]. intros p Hp. okpost. }
  eapply post_bind; [apply Hkg; la|]. intros [ii c] (G1 & G2 & G3). cbn [fst snd] in *.
  destruct (str_is c [59]); [|okpost].
  eapply post_weaken; [apply Hprog; la|]. intros p Hp. okpost.
Qed.

Lemma mark_dyad_none : forall a, is_none (mark_dyad E a) = is_none a.
Proof. intros a. destruct a; try reflexivity. cbn. destruct (str_in s (dyads E)); reflexivity. Qed.

Lemma expr_body_ok : forall ign s, (S f >= 6 * length s + 4)%nat -> post (tokpost s) (expr_body E f L R ign s).
Proof.
  intros ign s Hf. unfold expr_body.
  eapply post_bind; [apply Hfactor; la|]. intros [s1 a] (H1 & H2 & H3). cbn [fst snd] in *.
  destruct (is_none a) eqn:Ha; cbn [orb].
  { okpost. auto. }
  specialize (H2 eq_refl).
  destruct (str_is a [59]); [okpost|].
  eapply post_bind; [apply Hkg; la|]. intros [ii aa] (G1 & G2 & G3). cbn [fst snd] in *.
  eapply post_weaken; [apply Hloop; try rewrite mark_dyad_none; auto; la|].
  intros p (P1 & P2). unfold tokpost. rewrite P2. repeat split; intros; try discriminate; la.
Qed.

Lemma adverb_tail_ok : forall s0 a0, (f >= 6 * length s0 + 5)%nat -> is_none a0 = false ->
  post (somepost s0) (adverb_tail E R s0 a0).
Proof.
  intros s0 a0 Hf Ha. unfold adverb_tail. pose proof (peek_adverb_le s0) as Hp.
  destruct (peek_adverb E s0) as [i3 adv]. cbn [fst] in Hp.
  destruct adv as [av|]; [|okpost].
  eapply post_weaken; [apply Hadv; la|]. intros p (P1 & P2). okpost.
Qed.

Lemma fn_lit_body_ok : forall s, (S f >= 6 * length s + 6)%nat -> post (somepost s) (fn_lit_body E f L R s).
Proof.
  intros s Hf. unfold fn_lit_body.
  eapply post_bind; [apply Hprog; la|]. intros [s2 p] Hp. unfold lenpost in Hp. cbn [fst] in Hp.
  eapply post_bind; [apply skip_total; la|]. intros s3 Hs3. unfold strpost in Hs3.
  eapply post_bind; [apply cexpect_post|]. intros s4 Hs4.
  eapply post_bind; [apply get_fn_arity_post|]. intros ar _.
  destruct (starts_call s4); [|okpost].
  eapply post_bind; [apply Hargs; la|]. intros [s5 fa] Hfa. unfold lenpost in Hfa. cbn [fst] in Hfa.
  cbn [post]. split; cbn [fst snd]; [la|apply mk_call_some].
Qed.

Lemma apply_adverbs_body_ok : forall s a aa ar dy dv, (S f >= 6 * length s + 5)%nat ->
  post (somepost s) (apply_adverbs_body E f L R s a aa ar dy dv).
Proof.
  intros s a aa ar dy dv Hf. unfold apply_adverbs_body. pose proof (peek_more_le s) as Hp.
  destruct (peek_more E s) as [s1 more]. cbn [fst] in Hp.
  eapply post_bind; [apply Hexpr; la|]. intros [s2 e] (H1 & _). cbn [fst snd] in *. okpost.
Qed.

Lemma read_fn_args_body_ok : forall s, (S f >= 6 * length s + 5)%nat -> post (lenpost s) (read_fn_args_body f L R s).
Proof.
  intros s Hf. unfold read_fn_args_body.
  eapply post_bind with (P := fun s1 => (length s1 < length s)%nat).
  { destruct s as [|x [|y r]]; cbn [starts1 starts2]; try exact I.
    - destruct (x =? 40); cbn; [lia|exact I].
    - destruct (x =? 40); cbn [post tl length]; [lia|]. destruct ((x =? 58) && (y =? 40)); cbn; [lia|exact I]. }
  intros s1 Hs1. pose proof (tl_le _ s1).
  destruct (starts1 s1 41); [okpost|].
  eapply post_weaken; [apply Hargsl; la|]. intros p Hp. okpost.
Qed.

Lemma fn_args_loop_body_ok : forall s k acc, (S f >= 6 * length s + 5)%nat ->
  post (lenpost s) (fn_args_loop_body f L R s k acc).
Proof.
  intros s k acc Hf. unfold fn_args_loop_body.
  eapply post_bind; [apply Hkg; la|]. intros [ii c] (G1 & G2 & G3). cbn [fst snd] in *.
  destruct (str_is c [59]) eqn:Hc59.
  { assert (is_none c = false) by (destruct c; try discriminate; reflexivity). specialize (G2 H).
    eapply post_weaken; [apply Hargsl; la|]. intros p Hp. okpost. }
  destruct (str_is c [41]).
  { eapply post_bind; [apply cexpect_post|]. intros s' Hs'. okpost. }
  eapply post_bind; [apply Hexpr; la|]. intros [s1 a] (H1 & H2 & H3). cbn [fst snd] in *.
  destruct (is_none a) eqn:Ha.
  { eapply post_bind; [apply cexpect_post|]. intros s' Hs'. okpost. }
  specialize (H2 eq_refl).
  eapply post_weaken; [apply Hargsl; la|]. intros p Hp. okpost.
Qed.

Lemma read_cond_body_ok : forall s, (S f >= 6 * length s + 5)%nat -> post (somepost s) (read_cond_body E f L R s).
Proof.
  intros s Hf. unfold read_cond_body.
  eapply post_bind; [apply Hexpr; la|]. intros [s1 n1] (H1 & _). cbn [fst snd] in *.
  eapply post_bind; [apply cexpect_post|]. intros s2 Hs2.
  eapply post_bind; [apply Hexpr; la|]. intros [s3 n2] (H3 & _). cbn [fst snd] in *.
  eapply post_bind; [apply skip_total; la|]. intros s4 Hs4. unfold strpost in Hs4.
  destruct (starts2 s4 58 124) eqn:Hc.
  { destruct s4 as [|x [|y r]]; cbn [starts2] in Hc; try discriminate.
    eapply post_bind; [apply Hcond; la|]. intros [s5 n3] (H5 & _). okpost. }
  eapply post_bind; [apply cexpect_post|]. intros s5 Hs5.
  eapply post_bind; [apply Hexpr; la|]. intros [s6 n3] (H6 & _). cbn [fst snd] in *.
  eapply post_bind; [apply skip_total; la|]. intros s7 Hs7. unfold strpost in Hs7.
  eapply post_bind; [apply cexpect_post|]. intros s8 Hs8. okpost.
Qed.

Lemma expr_array_loop_body_ok : forall s acc, (S f >= 6 * length s + 5)%nat ->
  post (lenpost s) (expr_array_loop_body E f L R s acc).
Proof.
  intros s acc Hf. unfold expr_array_loop_body.
  destruct (starts1 s 93 || match s with [] => true | _ :: _ => false end) eqn:Hend.
  { pose proof (tl_le _ s). destruct (starts1 s 93); okpost. }
  destruct s as [|c0 s0]; [rewrite orb_true_r in Hend; discriminate|].
  eapply post_bind; [apply Hexpr; la|]. intros [s1 e] (H1 & H2 & H3). cbn [fst snd] in *.
  assert (Hlt : (length s1 < length (c0 :: s0))%nat).
  { destruct (is_none e); [rewrite (H3 eq_refl); cbn; lia | apply H2; reflexivity]. }
  eapply post_bind; [apply skip_total; la|]. intros s2 Hs2. unfold strpost in Hs2.
  pose proof (tl_le _ s2).
  destruct (starts1 s2 59).
  { eapply post_bind; [apply skip_total; la|]. intros s3 Hs3. unfold strpost in Hs3.
    eapply post_weaken; [apply Hearr; la|]. intros p Hp. okpost. }
  destruct (starts1 s2 93); [okpost|].
  eapply post_weaken; [apply Hearr; la|]. intros p Hp. okpost.
Qed.

Lemma expr_loop_body_ok : forall ign i a ii aa, (S f >= 6 * length i + 5)%nat -> is_none a = false ->
  (length ii <= length i)%nat -> (is_none aa = false -> (length ii < length i)%nat) ->
  post (somepost i) (expr_loop_body E f L R ign i a ii aa).
Proof.
  intros ign i a ii aa Hf Ha Hii Hlt. unfold expr_loop_body.
  destruct (is_op aa || is_sym aa || str_is aa [123]) eqn:Hc.
  - assert (Hn : is_none aa = false) by (destruct aa; try reflexivity; discriminate).
    specialize (Hlt Hn).
    eapply post_bind with (P := somepost ii).
    { destruct (str_is aa [123]).
      - apply Hfnlit. la.
      - destruct (is_sym aa && starts_call ii).
        + eapply post_bind; [apply Hargs; la|]. intros [i2 fa] Hfa. unfold lenpost in Hfa.
          cbn [post]. split; cbn [fst snd] in *; [la|apply mk_call_some].
        + okpost. }
    intros [i1 aa1] (H1 & H1n). cbn [fst snd] in *.
    pose proof (peek_adverb_le i1) as Hp. destruct (peek_adverb E i1) as [i3 adv]. cbn [fst] in Hp.
    eapply post_bind with (P := somepost i1).
    { destruct adv as [av|].
      - eapply post_weaken; [apply Hadv; la|]. intros p (P1 & P2). okpost.
      - eapply post_bind; [apply Hexpr; la|]. intros [i5 aaa] (Q1 & _). okpost. }
    intros [i4 a1] (H4 & H4n). cbn [fst snd] in *.
    eapply post_bind; [apply Hkg; la|]. intros [ii2 aa2] (G1 & G2 & G3). cbn [fst snd] in *.
    eapply post_weaken; [apply Hloop; auto; la|]. intros p (P1 & P2). okpost.
  - destruct (ign && str_is a [10]); [|okpost].
    eapply post_bind; [apply skip_total; la|]. intros i1 Hi1. okpost.
Qed.

Lemma factor_body_ok : forall ign s, (S f >= 6 * length s + 3)%nat -> post (tokpost s) (factor_body E f L R ign s).
Proof.
  intros ign s Hf. unfold factor_body.
  eapply post_bind; [apply skip_total; la|]. intros ii Hii. unfold strpost in Hii.
  destruct (starts2 ii 91 59) eqn:Hea.
  { destruct ii as [|x [|y r]]; cbn [starts2] in Hea; try discriminate. cbn [tl length] in *.
    eapply post_bind; [apply skip_total; la|]. intros s0 Hs0. unfold strpost in Hs0.
    eapply post_bind; [apply Hearr; la|]. intros [s1 ex] Hex. okpost. }
  eapply post_bind; [apply Hkg; la|]. intros [s1 a] (H1 & H2 & H3). cbn [fst snd] in *.
  destruct (is_none a) eqn:Ha; [okpost; auto|]. specialize (H2 eq_refl).
  assert (Htail : forall s2 a2, (length s2 <= length s1)%nat -> is_none a2 = false ->
                  post (tokpost s) (adverb_tail E R s2 a2)).
  { intros s2 a2 Hs2 Ha2. eapply post_weaken; [apply adverb_tail_ok; [la|exact Ha2]|].
    intros p (P1 & P2). unfold tokpost. rewrite P2. repeat split; intros; try discriminate; la. }
  destruct (str_is a [123]).
  { eapply post_bind; [apply Hfnlit; la|]. intros [s2 a2] (P1 & P2). apply Htail; assumption. }
  destruct (is_sym a).
  { destruct (starts_call s1); [|apply Htail; [lia|exact Ha]].
    eapply post_bind; [apply Hargs; la|]. intros [s2 fa] Hfa. unfold lenpost in Hfa. cbn [fst] in Hfa.
    destruct (sym_is a dot_comment).
    - eapply post_bind with (P := fun _ => True).
      { unfold comment_marker. destruct fa as [|x ?]; [exact I|]. destruct x; exact I. }
      intros m _.
      eapply post_bind; [apply read_sys_comment_total; la|]. intros s3 Hs3. unfold strpost in Hs3.
      eapply post_weaken; [apply Hfactor; la|]. intros p Hp. eapply tokpost_le; [|exact Hp]. lia.
    - eapply post_bind with (P := fun _ => True).
      { destruct (sym_is a dot_module); [|exact I]. destruct fa; exact I. }
      intros _ _. apply Htail; [lia|apply mk_call_some]. }
  destruct (is_monad_op E a).
  { pose proof (peek_adverb_le s1) as Hp. destruct (peek_adverb E s1) as [i3 adv]. cbn [fst] in Hp.
    destruct adv as [av|].
    - eapply post_weaken; [apply Hadv; la|]. intros p (P1 & P2).
      unfold tokpost. rewrite P2. repeat split; intros; try discriminate; la.
    - eapply post_bind; [apply Hexpr; la|]. intros [s2 aa] (Q1 & _). okpost. }
  destruct (str_is a [40]).
  { eapply post_bind; [apply Hexpr; la|]. intros [s2 a2] (Q1 & Q2 & Q3). cbn [fst snd] in *.
    eapply post_bind; [apply cexpect_post|]. intros s3 Hs3.
    cbn [post]. unfold tokpost. cbn [fst snd]. repeat split; intros; try la.
    specialize (Q3 H). subst s2. cbn in Hs3. discriminate. }
  destruct (str_is a [58; 91]).
  { eapply post_weaken; [apply Hcond; la|]. intros p (P1 & P2).
    unfold tokpost. rewrite P2. repeat split; intros; try discriminate; la. }
  okpost.
Qed.

End Bodies.

Lemma prog_loop_S : forall f ign s acc, prog_loop E (S f) ign s acc = prog_loop_body f (lexrec E f) (parserec E f) ign s acc.
Proof. reflexivity. Qed.
Lemma expr_S : forall f ign s, expr E (S f) ign s = expr_body E f (lexrec E f) (parserec E f) ign s.
Proof. reflexivity. Qed.
Lemma expr_loop_S : forall f ign i a ii aa,
  expr_loop E (S f) ign i a ii aa = expr_loop_body E f (lexrec E f) (parserec E f) ign i a ii aa.
Proof. reflexivity. Qed.
Lemma fn_lit_S : forall f s, fn_lit E (S f) s = fn_lit_body E f (lexrec E f) (parserec E f) s.
Proof. reflexivity. Qed.
Lemma factor_S : forall f ign s, factor E (S f) ign s = factor_body E f (lexrec E f) (parserec E f) ign s.
Proof. reflexivity. Qed.
Lemma apply_adverbs_S : forall f s a aa ar dy dv,
  apply_adverbs E (S f) s a aa ar dy dv = apply_adverbs_body E f (lexrec E f) (parserec E f) s a aa ar dy dv.
Proof. reflexivity. Qed.
Lemma read_fn_args_S : forall f s, read_fn_args E (S f) s = read_fn_args_body f (lexrec E f) (parserec E f) s.
Proof. reflexivity. Qed.
Lemma fn_args_loop_S : forall f s k acc,
  fn_args_loop E (S f) s k acc = fn_args_loop_body f (lexrec E f) (parserec E f) s k acc.
Proof. reflexivity. Qed.
Lemma read_cond_S : forall f s, read_cond E (S f) s = read_cond_body E f (lexrec E f) (parserec E f) s.
Proof. reflexivity. Qed.
Lemma expr_array_loop_S : forall f s acc,
  expr_array_loop E (S f) s acc = expr_array_loop_body E f (lexrec E f) (parserec E f) s acc.
Proof. reflexivity. Qed.

Lemma parse_total : forall f, parse_ok f (parserec E f).
Proof.
  induction f as [|f IH].
  - unfold parse_ok. repeat split; intros; lia.
  - pose proof (lex_total f) as HL. unfold parse_ok, parserec, mkrec.
    repeat split; cbn [p_prog_loop p_expr p_expr_loop p_fn_lit p_factor p_apply_adverbs p_read_fn_args
                        p_fn_args_loop p_read_cond p_expr_array_loop]; intros.
    + rewrite prog_loop_S. apply prog_loop_body_ok; assumption.
    + rewrite expr_S. apply expr_body_ok; assumption.
    + rewrite expr_loop_S. apply expr_loop_body_ok; assumption.
    + rewrite fn_lit_S. apply fn_lit_body_ok; assumption.
    + rewrite factor_S. apply factor_body_ok; assumption.
    + rewrite apply_adverbs_S. apply apply_adverbs_body_ok; assumption.
    + rewrite read_fn_args_S. apply read_fn_args_body_ok; assumption.
    + rewrite fn_args_loop_S. apply fn_args_loop_body_ok; assumption.
    + rewrite read_cond_S. apply read_cond_body_ok; assumption.
    + rewrite expr_array_loop_S. apply expr_array_loop_body_ok; assumption.
Qed.

(* prog never runs out of fuel with fuel_for (length t), and the index it returns is inside the text *)
Lemma prog_total : forall t fuel, (fuel >= fuel_for (length t))%nat ->
  post (lenpost t) (prog E fuel t).
Proof.
  intros t fuel Hf. unfold prog. apply (proj1 (parse_total fuel)). unfold fuel_for in Hf. lia.
Qed.

End P.

(* ------------------------------------------------------------------ fuel monotonicity (no hypothesis on the environment) *)
Section Mono.
Variable E : env.

(* both sides always have the same shape: descend through binds and case distinctions in parallel *)
Ltac mono_step :=
  first
    [ apply le_refl
    | apply le_oof
    | solve [auto]
    | apply le_bind; [ | intros ? ]
    | match goal with
      | |- le_res (match ?x with _ => _ end) _ => destruct x; cbv beta iota zeta
      end ].
Ltac mono := cbv beta iota zeta; repeat mono_step.

Lemma skip_S : forall f ign s, skip E (S f) ign s =
  (let s1 := skip_space E ign s in
   if starts2 s1 58 34 then skip E f false (read_shifted_comment (tl (tl s1))) else Ok s1).
Proof. reflexivity. Qed.

Lemma skip_mono : forall f ign s, le_res (skip E f ign s) (skip E (S f) ign s).
Proof.
  induction f as [|f IH]; intros ign s; [apply le_oof|].
  rewrite (skip_S f), (skip_S (S f)). mono.
Qed.

Lemma comment_run_S : forall f a s j, comment_run E (S f) a s j =
  (if (if comment_guard E then negb (match a with [] => true | _ => false end) else true) && starts_with a s
   then comment_run E f a (tl s) (S j) else Ok j).
Proof. reflexivity. Qed.

Lemma comment_run_mono : forall f a s j, le_res (comment_run E f a s j) (comment_run E (S f) a s j).
Proof.
  induction f as [|f IH]; intros a s j; [apply le_oof|].
  rewrite (comment_run_S f), (comment_run_S (S f)). mono.
Qed.

Lemma read_sys_comment_mono : forall f s a, le_res (read_sys_comment E f s a) (read_sys_comment E (S f) s a).
Proof. intros. unfold read_sys_comment. pose proof comment_run_mono. mono. Qed.

Definition le_lex (R R' : lexfuns) : Prop :=
  (forall rn ign s, le_res (l_kg_read R rn ign s) (l_kg_read R' rn ign s)) /\
  (forall d s, le_res (l_read_list R d s) (l_read_list R' d s)) /\
  (forall d s acc, le_res (l_read_list_loop R d s acc) (l_read_list_loop R' d s acc)).

Definition le_parse (R R' : parsefuns) : Prop :=
  (forall ign s acc, le_res (p_prog_loop R ign s acc) (p_prog_loop R' ign s acc)) /\
  (forall ign s, le_res (p_expr R ign s) (p_expr R' ign s)) /\
  (forall ign i a ii aa, le_res (p_expr_loop R ign i a ii aa) (p_expr_loop R' ign i a ii aa)) /\
  (forall s, le_res (p_fn_lit R s) (p_fn_lit R' s)) /\
  (forall ign s, le_res (p_factor R ign s) (p_factor R' ign s)) /\
  (forall s a aa ar dy dv, le_res (p_apply_adverbs R s a aa ar dy dv) (p_apply_adverbs R' s a aa ar dy dv)) /\
  (forall s, le_res (p_read_fn_args R s) (p_read_fn_args R' s)) /\
  (forall s k acc, le_res (p_fn_args_loop R s k acc) (p_fn_args_loop R' s k acc)) /\
  (forall s, le_res (p_read_cond R s) (p_read_cond R' s)) /\
  (forall s acc, le_res (p_expr_array_loop R s acc) (p_expr_array_loop R' s acc)).

Section Step.
Variables (f : nat) (L L' : lexfuns) (R R' : parsefuns).
Hypothesis HL : le_lex L L'.
Hypothesis HR : le_parse R R'.

Ltac prep := pose proof skip_mono as Hskip; pose proof read_sys_comment_mono as Hcom;
  destruct HL as (Hkg & Hrl & Hrll);
  destruct HR as (Hprog & Hexpr & Hloop & Hfnlit & Hfactor & Hadv & Hargs & Hargsl & Hcond & Hearr).

Ltac prepL := pose proof skip_mono as Hskip; destruct HL as (Hkg & Hrl & Hrll).

Lemma kg_read_body_mono : forall rn ign s, le_res (kg_read_body E f L rn ign s) (kg_read_body E (S f) L' rn ign s).
Proof. intros. prepL. unfold kg_read_body. mono. Qed.
Lemma read_list_body_mono : forall d s, le_res (read_list_body E f L d s) (read_list_body E (S f) L' d s).
Proof. intros. prepL. unfold read_list_body. mono. Qed.
Lemma read_list_loop_body_mono : forall d s acc,
  le_res (read_list_loop_body E f L d s acc) (read_list_loop_body E (S f) L' d s acc).
Proof. intros. prepL. unfold read_list_loop_body. mono. Qed.

Lemma prog_loop_body_mono : forall ign s acc, le_res (prog_loop_body f L R ign s acc) (prog_loop_body (S f) L' R' ign s acc).
Proof. intros. prep. unfold prog_loop_body. mono. Qed.
Lemma expr_body_mono : forall ign s, le_res (expr_body E f L R ign s) (expr_body E (S f) L' R' ign s).
Proof. intros. prep. unfold expr_body. mono. Qed.
Lemma expr_loop_body_mono : forall ign i a ii aa,
  le_res (expr_loop_body E f L R ign i a ii aa) (expr_loop_body E (S f) L' R' ign i a ii aa).
Proof. intros. prep. unfold expr_loop_body. mono. Qed.
Lemma fn_lit_body_mono : forall s, le_res (fn_lit_body E f L R s) (fn_lit_body E (S f) L' R' s).
Proof. intros. prep. unfold fn_lit_body. mono. Qed.
Lemma adverb_tail_mono : forall s a, le_res (adverb_tail E R s a) (adverb_tail E R' s a).
Proof. intros. prep. unfold adverb_tail. mono. Qed.
Lemma factor_body_mono : forall ign s, le_res (factor_body E f L R ign s) (factor_body E (S f) L' R' ign s).
Proof. intros. prep. pose proof adverb_tail_mono as Htail. unfold factor_body. mono. Qed.
Lemma apply_adverbs_body_mono : forall s a aa ar dy dv,
  le_res (apply_adverbs_body E f L R s a aa ar dy dv) (apply_adverbs_body E (S f) L' R' s a aa ar dy dv).
Proof. intros. prep. unfold apply_adverbs_body. mono. Qed.
Lemma read_fn_args_body_mono : forall s, le_res (read_fn_args_body f L R s) (read_fn_args_body (S f) L' R' s).
Proof. intros. prep. unfold read_fn_args_body. mono. Qed.
Lemma fn_args_loop_body_mono : forall s k acc, le_res (fn_args_loop_body f L R s k acc) (fn_args_loop_body (S f) L' R' s k acc).
Proof. intros. prep. unfold fn_args_loop_body. mono. Qed.
Lemma read_cond_body_mono : forall s, le_res (read_cond_body E f L R s) (read_cond_body E (S f) L' R' s).
Proof. intros. prep. unfold read_cond_body. mono. Qed.
Lemma expr_array_loop_body_mono : forall s acc,
  le_res (expr_array_loop_body E f L R s acc) (expr_array_loop_body E (S f) L' R' s acc).
Proof. intros. prep. unfold expr_array_loop_body. mono. Qed.
End Step.

Lemma lex_mono_step : forall f, le_lex (lexrec E f) (lexrec E (S f)).
Proof.
  induction f as [|f IH].
  - repeat split; intros; apply le_oof.
  - unfold lexrec. repeat split; cbn [l_kg_read l_read_list l_read_list_loop]; intros.
    + rewrite (kg_read_S E f), (kg_read_S E (S f)). apply kg_read_body_mono; assumption.
    + rewrite (read_list_S E f), (read_list_S E (S f)). apply read_list_body_mono; assumption.
    + rewrite (read_list_loop_S E f), (read_list_loop_S E (S f)). apply read_list_loop_body_mono; assumption.
Qed.

Lemma parse_mono_step : forall f, le_parse (parserec E f) (parserec E (S f)).
Proof.
  induction f as [|f IH].
  - unfold le_parse. repeat split; intros; apply le_oof.
  - pose proof (lex_mono_step f) as HL. unfold le_parse, parserec, mkrec.
    repeat split; cbn [p_prog_loop p_expr p_expr_loop p_fn_lit p_factor p_apply_adverbs p_read_fn_args
                        p_fn_args_loop p_read_cond p_expr_array_loop]; intros.
    + rewrite (prog_loop_S E f), (prog_loop_S E (S f)). apply prog_loop_body_mono; assumption.
    + rewrite (expr_S E f), (expr_S E (S f)). apply expr_body_mono; assumption.
    + rewrite (expr_loop_S E f), (expr_loop_S E (S f)). apply expr_loop_body_mono; assumption.
    + rewrite (fn_lit_S E f), (fn_lit_S E (S f)). apply fn_lit_body_mono; assumption.
    + rewrite (factor_S E f), (factor_S E (S f)). apply factor_body_mono; assumption.
    + rewrite (apply_adverbs_S E f), (apply_adverbs_S E (S f)). apply apply_adverbs_body_mono; assumption.
    + rewrite (read_fn_args_S E f), (read_fn_args_S E (S f)). apply read_fn_args_body_mono; assumption.
    + rewrite (fn_args_loop_S E f), (fn_args_loop_S E (S f)). apply fn_args_loop_body_mono; assumption.
    + rewrite (read_cond_S E f), (read_cond_S E (S f)). apply read_cond_body_mono; assumption.
    + rewrite (expr_array_loop_S E f), (expr_array_loop_S E (S f)). apply expr_array_loop_body_mono; assumption.
Qed.

Lemma prog_mono_step : forall f t, le_res (prog E f t) (prog E (S f) t).
Proof. intros f t. unfold prog. exact (proj1 (parse_mono_step f) false t []). Qed.

Lemma prog_mono_le : forall f f' t, (f <= f')%nat -> le_res (prog E f t) (prog E f' t).
Proof.
  intros f f' t H. induction H as [|f' H IH]; [apply le_refl|].
  eapply le_trans; [exact IH|apply prog_mono_step].
Qed.

(* more fuel never changes a result that is not OutOfFuel *)
Lemma prog_mono : forall f f' t r, (f <= f')%nat -> prog E f t = r -> r <> OOF -> prog E f' t = r.
Proof.
  intros f f' t r H Hr Hn. subst r. apply le_eq; [apply prog_mono_le; exact H|exact Hn].
Qed.

End Mono.

(* ------------------------------------------------------------------ the unguarded marker loop (pre-fix read_sys_comment) *)
Lemma comment_run_unguarded_loops : forall E, comment_guard E = false ->
  forall fuel s j, comment_run E fuel [] s j = OOF.
Proof.
  intros E Hg. induction fuel as [|f IH]; intros s j; [reflexivity|].
  cbn [comment_run]. rewrite Hg. cbn [starts_with andb]. apply IH.
Qed.

Lemma read_sys_comment_unguarded_loops : forall E, comment_guard E = false ->
  forall fuel s, read_sys_comment E fuel s [] = OOF.
Proof.
  intros E Hg fuel s. unfold read_sys_comment.
  assert (H : find_sub [] s = Some O) by (destruct s; reflexivity). rewrite H.
  rewrite comment_run_unguarded_loops by exact Hg. reflexivity.
Qed.

(* explicit forms of the statements used in Properties.v *)
Lemma prog_total_explicit : forall E, z_in 59 (delims E) = true -> comment_guard E = true ->
  forall t fuel, (fuel >= fuel_for (length t))%nat ->
  match prog E fuel t with
  | Ok p => (length (fst p) <= length t)%nat
  | Err _ => True
  | OOF => False
  end.
Proof. intros E H1 H2 t fuel Hf. exact (prog_total E H1 H2 t fuel Hf). Qed.

Lemma prog_never_oof : forall E, z_in 59 (delims E) = true -> comment_guard E = true ->
  forall t, prog E (fuel_for (length t)) t <> OOF.
Proof. intros E H1 H2 t. eapply post_not_oof. apply (prog_total E H1 H2). lia. Qed.

Lemma prog_fuel_irrelevant : forall E, z_in 59 (delims E) = true -> comment_guard E = true ->
  forall t fuel, (fuel >= fuel_for (length t))%nat -> prog E fuel t = prog E (fuel_for (length t)) t.
Proof.
  intros E H1 H2 t fuel Hf. eapply prog_mono; [exact Hf|reflexivity|apply prog_never_oof; assumption].
Qed.

Lemma kg_read_total_explicit : forall E, z_in 59 (delims E) = true ->
  forall fuel rn ign s, (fuel >= 6 * length s + 2)%nat ->
  match kg_read E fuel rn ign s with
  | Ok p => (length (fst p) <= length s)%nat /\
            (is_none (snd p) = false -> (length (fst p) < length s)%nat) /\
            (is_none (snd p) = true -> fst p = [])
  | Err _ => True
  | OOF => False
  end.
Proof. intros E H fuel rn ign s Hf. exact (kg_read_total E H fuel rn ign s Hf). Qed.

Lemma expr_total_explicit : forall E, z_in 59 (delims E) = true -> comment_guard E = true ->
  forall fuel ign s, (fuel >= 6 * length s + 4)%nat ->
  match expr E fuel ign s with
  | Ok p => (length (fst p) <= length s)%nat /\
            (is_none (snd p) = false -> (length (fst p) < length s)%nat) /\
            (is_none (snd p) = true -> fst p = [])
  | Err _ => True
  | OOF => False
  end.
Proof.
  intros E H1 H2 fuel ign s Hf.
  exact (proj1 (proj2 (parse_total E H1 H2 fuel)) ign s Hf).
Qed.
