(* C14/Run.v — S-expression front end of the model, extracted to OCaml.
   requests:
     (wplay c0 (b ...) (((idbyte ...) step) ...) (item ...))   byte-level: item = (l step) (chunk (b ...)) (eof) (collect) (cleanall)
     (play c0 (b ...) (step ...))    is_open before connect, closers flags, script            -> (ok (taken ...) (hist ...) (calls ...) (pending ...) ...)
     (kloop (b ...))              callers pending at a connection loss, 1 = on the klong loop -> (ok (deadlock b))
     (srv (o ...))                o = val unpicklable fn klong keyerror ordinary stopiter base   -> (ok (served ...) (indomain ...))
         step = (connect ok) (invoke k) (reg k) (sched k) (send k) (complete k) (resp k ok) (push ok) (closereq) (cut) (reset)
                (clean) (cleanall) (collect)
         a step that is not enabled is dropped (taken = 0)
     (check n (event ...))        the verified checker on an observed history -> (ok (check b) (prefix b))
   The model follows the flags regenerated from /repo (Generated.v). *)
From Coq Require Import ZArith List String Bool PeanoNat.
From KB Require Import Sx.
From C13 Require Model.
From C14 Require Import Generated Model ServerModel Wire KlongLoop Spec.
Import ListNotations.

Definition gen_flags : flags := mkFlags cleanup_iterates_snapshot finally_clears_writer writer_cleared_after_on_close.

Inductive sstep := SLab (a : label) | SCleanAll | SSettle | SCollect.

Definition z2n (z : Z) : nat := Z.to_nat z.
Definition z2b (z : Z) : bool := negb (Z.eqb z 0).

Definition parse_step (x : sx) : option sstep :=
  match x with
  | SL [SS t] =>
      if is_tag "closereq" t then Some (SLab ACloseReq) else
      if is_tag "cut" t then Some (SLab ACut) else
      if is_tag "reset" t then Some (SLab AReset) else
      if is_tag "clean" t then Some (SLab AClean) else
      if is_tag "cleanall" t then Some SCleanAll else
      if is_tag "settle" t then Some SSettle else
      if is_tag "errdone" t then Some (SLab AErrDone) else
      if is_tag "closedone" t then Some (SLab ACloseDone) else
      if is_tag "collect" t then Some SCollect else None
  | SL [SS t; SZ k] =>
      if is_tag "invoke" t then Some (SLab (AInvoke (z2n k))) else
      if is_tag "reg" t then Some (SLab (ARegister (z2n k))) else
      if is_tag "sched" t then Some (SLab (ASchedule (z2n k))) else
      if is_tag "send" t then Some (SLab (ASend (z2n k))) else
      if is_tag "complete" t then Some (SLab (AComplete (z2n k))) else
      if is_tag "push" t then Some (SLab (APush (z2b k))) else
      if is_tag "connect" t then Some (SLab (AConnect (z2b k))) else None
  | SL [SS t; SZ k; SZ ok] =>
      if is_tag "resp" t then Some (SLab (AResp (z2n k) (z2b ok))) else None
  | _ => None
  end.

Fixpoint parse_steps (l : list sx) : option (list sstep) :=
  match l with
  | [] => Some []
  | x :: r => match parse_step x, parse_steps r with Some s, Some ss => Some (s :: ss) | _, _ => None end
  end.

(* take label a if enabled *)
Definition try_step (s : state) (a : label) : state * list event * bool :=
  match step gen_flags s a with
  | Some (s', ev) => (s', ev, true)
  | None => (s, [], false)
  end.

Fixpoint clean_all (fuel : nat) (s : state) : state * list event :=
  match fuel with
  | O => (s, [])
  | S f => match step gen_flags s AClean with
           | Some (s', ev) => let '(s2, ev2) := clean_all f s' in (s2, ev ++ ev2)
           | None => (s, [])
           end
  end.

(* callbacks that do not yield: the awaited on_error returns at once, the finally runs, the awaited on_close returns at once *)
Definition settle (s : state) : state * list event :=
  let '(s1, e1) := clean_all (S (S (List.length (pending s)))) s in
  let '(s2, e2, _) := try_step s1 AErrDone in
  let '(s3, e3) := clean_all (S (S (List.length (pending s2)))) s2 in
  let '(s4, e4, _) := try_step s3 ACloseDone in
  (s4, e1 ++ e2 ++ e3 ++ e4).

(* every caller whose coroutine has finished returns, in index order; not while the io thread is inside the cleanup loop *)
Definition collect (s : state) : state * list event :=
  match lst s with
  | LClean _ _ _ => (s, [])
  | _ => fold_left (fun '(s, ev) k => let '(s', e, _) := try_step s (AComplete k) in (s', ev ++ e))
                   (seq 0 (List.length (calls s))) (s, [])
  end.

Fixpoint play (s : state) (ss : list sstep) : state * list event * list bool :=
  match ss with
  | [] => (s, [], [])
  | x :: r =>
      let '(s1, e1, t) :=
        match x with
        | SLab a => try_step s a
        | SCleanAll => let '(s', e) := clean_all (S (S (List.length (pending s)))) s in (s', e, true)
        | SSettle => let '(s', e) := settle s in (s', e, true)
        | SCollect => let '(s', e) := collect s in (s', e, true)
        end in
      let '(s2, e2, ts) := play s1 r in (s2, e1 ++ e2, t :: ts)
  end.

Definition sx_exn (e : exn) : sx :=
  match e with XNotEst => sx_w "notest" | XAttr => sx_w "attr" | XConnFail => sx_w "connfail" | XCloseConn => sx_w "closeconn"
             | XCreateConn => sx_w "createconn" | XOther => sx_w "other" end.
Definition sx_body (b : body) : sx := match b with BVal z => SL [sx_w "v"; SZ z] | BClose => sx_w "close" end.
Definition sx_event (e : event) : sx :=
  match e with
  | EConnected => SL [sx_w "connected"]
  | ECall k => SL [sx_w "call"; sx_nat k]
  | ESent k => SL [sx_w "sent"; sx_nat k]
  | EResp k b => SL [sx_w "resp"; sx_nat k; sx_body b]
  | ELoss => SL [sx_w "loss"]
  | ERet k b => SL [sx_w "ret"; sx_nat k; sx_body b]
  | ERaise k e => SL [sx_w "raise"; sx_nat k; sx_exn e]
  | ENoop k => SL [sx_w "noop"; sx_nat k]
  end.
Definition sx_result (r : result) : sx :=
  match r with RVal b => SL [sx_w "val"; sx_body b] | RExc e => SL [sx_w "exc"; sx_exn e] | RNoop => SL [sx_w "noop"] end.
Definition sx_pc (p : pc) : sx :=
  match p with
  | PIdle => sx_w "idle" | PChecked => sx_w "checked" | PRegd => sx_w "regd" | PSched => sx_w "sched"
  | PAwait => sx_w "await" | PDone r => SL [sx_w "done"; sx_result r]
  end.
Definition sx_lst (l : lstate) : sx :=
  match l with LInit => sx_w "init" | LErrWait _ => sx_w "errwait" | LCloseWait => sx_w "closewait" | LRun => sx_w "run" | LClean _ i d => SL [sx_w "clean"; sx_nat i; sx_bool d] | LExit => sx_w "exit" | LCrash => sx_w "crash" end.

Definition parse_exn (t : list Z) : option exn :=
  if is_tag "notest" t then Some XNotEst else if is_tag "attr" t then Some XAttr else
  if is_tag "connfail" t then Some XConnFail else if is_tag "closeconn" t then Some XCloseConn else
  if is_tag "createconn" t then Some XCreateConn else if is_tag "other" t then Some XOther else None.
Definition parse_body (x : sx) : option body :=
  match x with
  | SL [SS t; SZ z] => if is_tag "v" t then Some (BVal z) else None
  | SS t => if is_tag "close" t then Some BClose else None
  | _ => None
  end.
Definition parse_event (x : sx) : option event :=
  match x with
  | SL [SS t] => if is_tag "loss" t then Some ELoss else if is_tag "connected" t then Some EConnected else None
  | SL [SS t; SZ k] =>
      if is_tag "call" t then Some (ECall (z2n k)) else
      if is_tag "sent" t then Some (ESent (z2n k)) else
      if is_tag "noop" t then Some (ENoop (z2n k)) else None
  | SL [SS t; SZ k; y] =>
      if is_tag "resp" t then option_map (EResp (z2n k)) (parse_body y) else
      if is_tag "ret" t then option_map (ERet (z2n k)) (parse_body y) else
      if is_tag "raise" t then match y with SS w => option_map (ERaise (z2n k)) (parse_exn w) | _ => None end else None
  | _ => None
  end.
Fixpoint parse_events (l : list sx) : option (list event) :=
  match l with
  | [] => Some []
  | x :: r => match parse_event x, parse_events r with Some e, Some es => Some (e :: es) | _, _ => None end
  end.

Definition report (s : state) (h : list event) (taken : list bool) : sx :=
  let n := List.length (calls s) in
  SL [sx_w "ok";
      SL (sx_w "taken" :: map sx_bool taken);
      SL (sx_w "hist" :: map sx_event h);
      SL (sx_w "calls" :: map (fun c => sx_pc (c_pc c)) (calls s));
      SL (sx_w "pending" :: map sx_nat (pending s));
      SL [sx_w "lst"; sx_lst (lst s)];
      SL [sx_w "writer"; sx_bool (writer s)];
      SL [sx_w "copen"; sx_bool (copen s)];
      SL [sx_w "running"; sx_bool (running s)];
      SL [sx_w "check"; sx_bool (check_history n h)];
      SL [sx_w "prefix"; sx_bool (check_prefix n h)];
      SL [sx_w "quiescent"; sx_bool (quiescent gen_flags s)]].

(* ---- byte-level play: the chunks actually fed to the real StreamReader, decoded by C13's reader model *)
Inductive wsstep := WI (i : witem) | WCollect | WCleanAll | WSettle.

Definition parse_wstep (x : sx) : option wsstep :=
  match x with
  | SL [SS t] =>
      if is_tag "eof" t then Some (WI WEof) else
      if is_tag "collect" t then Some WCollect else
      if is_tag "cleanall" t then Some WCleanAll else
      if is_tag "settle" t then Some WSettle else None
  | SL [SS t; y] =>
      if is_tag "l" t then match parse_step y with Some (SLab a) => Some (WI (WLab a)) | _ => None end else
      if is_tag "chunk" t then option_map (fun c => WI (WChunk c)) (sx_as_zs y) else None
  | _ => None
  end.
Fixpoint parse_wsteps (l : list sx) : option (list wsstep) :=
  match l with
  | [] => Some []
  | x :: r => match parse_wstep x, parse_wsteps r with Some s, Some ss => Some (s :: ss) | _, _ => None end
  end.

(* id bytes -> which _listen iteration a frame with that id is; an id nobody registered is a server push *)
Fixpoint parse_table (l : list sx) : option (list (list Z * label)) :=
  match l with
  | [] => Some []
  | SL [ids; st] :: r =>
      match sx_as_zs ids, parse_step st, parse_table r with
      | Some i, Some (SLab a), Some t => Some ((i, a) :: t)
      | _, _, _ => None
      end
  | _ => None
  end.
Fixpoint lookup_lab (t : list (list Z * label)) (i : list Z) : label :=
  match t with
  | [] => APush true
  | (j, a) :: r => if zlist_eqb i j then a else lookup_lab r i
  end.

Fixpoint wplay (lab : wmsg -> label) (w : wstate) (ss : list wsstep) : wstate * list event :=
  match ss with
  | [] => (w, [])
  | x :: r =>
      let '(w1, e1) :=
        match x with
        | WI i => wstep gen_flags lab w i
        | WCollect => let '(s', e) := collect (w_s w) in (mkW s' (w_d w) (w_eof w), e)
        | WCleanAll => let '(s', e) := clean_all (S (S (List.length (pending (w_s w))))) (w_s w) in (mkW s' (w_d w) (w_eof w), e)
        | WSettle => let '(s', e) := settle (w_s w) in (mkW s' (w_d w) (w_eof w), e)
        end in
      let '(w2, e2) := wplay lab w1 r in (w2, e1 ++ e2)
  end.

Definition gen_sflags : sflags := mkSFlags server_wraps_generic_errors server_wraps_keyerror.

Definition parse_outcome (x : sx) : option outcome :=
  match x with
  | SS t =>
      if is_tag "val" t then Some (OValue true) else
      if is_tag "unpicklable" t then Some (OValue false) else
      if is_tag "fn" t then Some OFunction else
      if is_tag "klong" t then Some (ORaise CKlong) else
      if is_tag "keyerror" t then Some (ORaise CKeyError) else
      if is_tag "ordinary" t then Some (ORaise COrdinary) else
      if is_tag "stopiter" t then Some (ORaise CStopIter) else
      if is_tag "base" t then Some (ORaise CBase) else None
  | _ => None
  end.
Fixpoint parse_outcomes (l : list sx) : option (list outcome) :=
  match l with
  | [] => Some []
  | x :: r => match parse_outcome x, parse_outcomes r with Some o, Some os => Some (o :: os) | _, _ => None end
  end.
Definition sx_served (s : served) : sx :=
  match s with
  | SvResponse false => sx_w "resp" | SvResponse true => sx_w "fnref" | SvTeardown => sx_w "teardown"
  | SvClosed => sx_w "closed" | SvNothing => sx_w "nothing" | SvStuck => sx_w "stuck"
  end.

Definition gen_kflags : kflags := mkKF (negb srv_callbacks_inline) run_fails_pending_before_callbacks.

(* callers pending when the connection is lost (1 = on the klong loop, 0 = another thread): does everybody return? *)
Definition kloop_after_loss (l : list Z) : sx :=
  let s0 := mkKS (map (fun z => mkK (z2b z) CWait) l) RListening in
  match kstep gen_kflags s0 KLoss with
  | Some s1 => let s2 := krun gen_kflags (4 * List.length l + 8) s1 in
               SL [sx_w "ok"; SL [sx_w "deadlock"; sx_bool (negb (kfinal s2))]]
  | None => sx_err "kloop"
  end.

Definition dispatch (x : sx) : sx :=
  match x with
  | SL [SS t; SL os] =>
      if is_tag "kloop" t then
        match sx_get_zs os with Some l => kloop_after_loss l | None => sx_err "kloop" end
      else if is_tag "srv" t then
        match parse_outcomes os with
        | Some l => SL [sx_w "ok"; SL (sx_w "served" :: map sx_served (serve gen_sflags l));
                        SL (sx_w "indomain" :: map (fun o => sx_bool (in_domain o)) l)]
        | None => sx_err "srv"
        end
      else sx_err "op"
  | SL [SS t; SZ c0; SL a; SL b] =>
      if is_tag "play" t then
        match sx_get_zs a, parse_steps b with
        | Some cl, Some ss =>
            let '(s, h, taken) := play (init (z2b c0) (map z2b cl)) ss in report s h taken
        | _, _ => sx_err "play"
        end
      else sx_err "op"
  | SL [SS t; SZ c0; SL a; SL tb; SL b] =>
      if is_tag "wplay" t then
        match sx_get_zs a, parse_table tb, parse_wsteps b with
        | Some cl, Some tab, Some ss =>
            let '(w, h) := wplay (fun m => lookup_lab tab (fst m)) (w_init (init (z2b c0) (map z2b cl))) ss in
            report (w_s w) h []
        | _, _, _ => sx_err "wplay"
        end
      else sx_err "op"
  | SL [SS t; SZ n; SL evs] =>
      if is_tag "check" t then
        match parse_events evs with
        | Some h => SL [sx_w "ok"; SL [sx_w "check"; sx_bool (check_history (z2n n) h)];
                        SL [sx_w "prefix"; sx_bool (check_prefix (z2n n) h)]]
        | None => sx_err "check"
        end
      else sx_err "op"
  | _ => sx_err "shape"
  end.

Require Import ExtrOcamlBasic.
Extraction Language OCaml.
Extraction "extracted.ml" dispatch drv_add drv_mul drv_opp drv_div_eucl drv_ltb drv_eqb.
