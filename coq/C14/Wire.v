(* C14/Wire.v — the byte-level wire inside the C14 model.  The listener's input is a sequence of CHUNKS (network reads:
   an arbitrary fragmentation of whatever the server wrote) possibly ended by EOF at any byte; C13's reader model
   (`feed`: StreamReader.feed_data + readexactly(16)/(4)/(len)) turns chunks into frames, every completed frame is one
   iteration of _listen (the label `lab m` of Model.v), EOF makes stream_recv_msg raise IncompleteReadError (ACut).
   Chunks interleave freely with the client's own steps.  No proofs in this file. *)
From Coq Require Import ZArith List Bool.
From C13 Require Model.
From C14 Require Import Model.
Import ListNotations.

Definition wmsg : Type := C13.Model.msg.          (* (16 id bytes, pickled body bytes) *)

Inductive witem :=
| WLab (a : label)            (* a step of the client itself (caller threads, send coroutine, ...) *)
| WChunk (c : list Z)         (* one network read *)
| WEof.                       (* the stream ends here, wherever that is *)

Record wstate := mkW { w_s : state; w_d : C13.Model.dstate; w_eof : bool }.

Section Wire.
  Variable fl : flags.
  Variable lab : wmsg -> label.     (* which _listen iteration a frame is: by its id (response to call k / unknown id) and body *)

  (* a label that is not enabled leaves the client alone (e.g. frames still buffered when the listener has exited are never read) *)
  Definition apply_lab (s : state) (a : label) : state * list event :=
    match step fl s a with Some r => r | None => (s, []) end.

  Fixpoint apply_labs (s : state) (l : list label) : state * list event :=
    match l with
    | [] => (s, [])
    | a :: r => let '(s1, e1) := apply_lab s a in let '(s2, e2) := apply_labs s1 r in (s2, e1 ++ e2)
    end.

  Definition wstep (w : wstate) (i : witem) : wstate * list event :=
    match i with
    | WLab a => let '(s', ev) := apply_lab (w_s w) a in (mkW s' (w_d w) (w_eof w), ev)
    | WChunk c =>
        if w_eof w then (w, [])
        else let '(d', ms) := C13.Model.feed (w_d w) c in
             let '(s', ev) := apply_labs (w_s w) (map lab ms) in (mkW s' d' false, ev)
    | WEof =>
        if w_eof w then (w, [])
        else let '(s', ev) := apply_lab (w_s w) ACut in (mkW s' (w_d w) true, ev)
    end.

  Fixpoint wexec (w : wstate) (items : list witem) : wstate * list event :=
    match items with
    | [] => (w, [])
    | i :: r => let '(w1, e1) := wstep w i in let '(w2, e2) := wexec w1 r in (w2, e1 ++ e2)
    end.

  (* the labels a wire schedule amounts to; the flag says whether the label came off the wire *)
  Fixpoint translate (d : C13.Model.dstate) (eof : bool) (items : list witem) : list (bool * label) :=
    match items with
    | [] => []
    | WLab a :: r => (false, a) :: translate d eof r
    | WChunk c :: r =>
        if eof then translate d eof r
        else let '(d', ms) := C13.Model.feed d c in map (fun m => (true, lab m)) ms ++ translate d' false r
    | WEof :: r => if eof then translate d eof r else (true, ACut) :: translate d true r
    end.
End Wire.

Definition chunks_of (items : list witem) : list (list Z) :=
  flat_map (fun i => match i with WChunk c => [c] | _ => [] end) items.
Definition no_eof (items : list witem) : bool :=
  forallb (fun i => match i with WEof => false | _ => true end) items.
Definition wire_labels (t : list (bool * label)) : list label := map snd (filter fst t).

Definition w_init (s : state) : wstate := mkW s C13.Model.dinit false.
