(* C14/KlongLoopProofs.v — after a connection loss nobody is left waiting, provided the callbacks do not wait for the klong
   loop or the pending futures are failed first; refuted otherwise; the re-entrancy deadlock of the pinned tree. *)
From Coq Require Import List Bool PeanoNat Lia.
From C14 Require Import KlongLoop.
Import ListNotations.

Definition no_wait (l : list kcaller) : Prop := forall c, In c l -> kst c <> CWait.

Definition J (fl : kflags) (s : kstate) : Prop :=
  after_loss s = true /\
  (kph s = RErrCb -> fail_before_cb fl = true -> no_wait (kcallers s)) /\
  (kph s = RCloseCb \/ kph s = RExited -> no_wait (kcallers s)).

Lemma resolve_no_wait : forall l, no_wait (map resolve l).
Proof.
  intros l c Hc. apply in_map_iff in Hc. destruct Hc as [x [Hx _]]. subst c.
  unfold resolve. destruct (kst x) eqn:E; cbn; try rewrite E; discriminate.
Qed.

Lemma nth_updk : forall f l k j, nth_error (updk k f l) j = if Nat.eqb k j then option_map f (nth_error l j) else nth_error l j.
Proof.
  intros f. induction l as [|x r IH]; intros k j.
  - destruct k, j; cbn; try reflexivity. destruct (Nat.eqb k j); reflexivity.
  - destruct k as [|k], j as [|j]; cbn [updk nth_error Nat.eqb option_map]; try reflexivity. apply IH.
Qed.

Lemma updk_in : forall f l k c, In c (updk k f l) -> In c l \/ exists x, In x l /\ c = f x.
Proof.
  intros f. induction l as [|x r IH]; intros k c H; [destruct k; contradiction|].
  destruct k as [|k]; cbn in H.
  - destruct H as [H|H]; [right; exists x; split; [left; reflexivity|auto]|left; right; exact H].
  - destruct H as [H|H]; [left; left; exact H|].
    destruct (IH k c H) as [H1|[y [Hy E]]]; [left; right; exact H1|right; exists y; split; [right; exact Hy|exact E]].
Qed.

Lemma kloss_J : forall fl s s', kstep fl s KLoss = Some s' -> J fl s'.
Proof.
  intros fl s s' H. cbn in H. destruct (kph s); try discriminate. inversion H; subst. clear H.
  split; [reflexivity|]. split; cbn [kph kcallers].
  - intros _ Hf. rewrite Hf. apply resolve_no_wait.
  - intros [E|E]; discriminate.
Qed.

Lemma not_stuck : forall fl s a, In a (internal_labels s) -> kstep fl s a <> None -> stuck fl s = false.
Proof.
  intros fl s a Hin Hs. destruct (stuck fl s) eqn:E; [|reflexivity]. unfold stuck in E.
  rewrite forallb_forall in E. specialize (E a Hin). destruct (kstep fl s a); [discriminate|contradiction].
Qed.

Lemma wake_in : forall s k c, nth_error (kcallers s) k = Some c -> In (KWake k) (internal_labels s).
Proof.
  intros s k c H. unfold internal_labels. apply in_or_app. right. apply in_map. apply in_seq.
  assert (k < length (kcallers s)) by (apply nth_error_Some; rewrite H; discriminate). lia.
Qed.

Lemma ready_not_stuck : forall fl s k c, nth_error (kcallers s) k = Some c -> kst c = CReady -> stuck fl s = false.
Proof.
  intros fl s k c Hn Hc. apply (not_stuck fl s (KWake k)); [exact (wake_in s k c Hn)|].
  unfold kstep. rewrite Hn, Hc. destruct (kph s); discriminate.
Qed.

Lemma busy_ready : forall l, no_wait l -> existsb busy l = true -> exists k c, nth_error l k = Some c /\ kst c = CReady.
Proof.
  intros l Hn H. apply existsb_exists in H. destruct H as [c [Hin Hb]].
  destruct (In_nth_error _ _ Hin) as [k Hk]. exists k, c. split; [exact Hk|].
  unfold busy in Hb. apply andb_true_iff in Hb. destruct Hb as [_ Hb].
  destruct (kst c) eqn:E; [exfalso; exact (Hn c Hin E)|reflexivity|discriminate].
Qed.

Lemma undone_ready : forall l, no_wait l -> forallb (fun c => match kst c with CDone => true | _ => false end) l = false ->
  exists k c, nth_error l k = Some c /\ kst c = CReady.
Proof.
  induction l as [|x r IH]; intros Hn H; [discriminate|]. cbn in H.
  destruct (kst x) eqn:E.
  - exfalso. exact (Hn x (or_introl eq_refl) E).
  - exists 0, x. split; [reflexivity|exact E].
  - cbn in H. destruct (IH (fun c Hc => Hn c (or_intror Hc)) H) as [k [c [Hk Hc]]]. exists (S k), c. auto.
Qed.

(* progress: after the loss, as long as somebody has not returned or _run has not exited, the client can take a step *)
Theorem loss_progress : forall fl s, kflags_ok fl = true -> J fl s -> kfinal s = false -> stuck fl s = false.
Proof.
  intros fl s Hfl [Ha [He Hc]] Hnf. unfold after_loss in Ha.
  destruct (kph s) eqn:Ep; try discriminate.
  - (* RErrCb *)
    destruct (cb_can_run fl s) eqn:Ecb.
    + apply (not_stuck fl s KErrCb); [left; reflexivity|]. unfold kstep. rewrite Ep, Ecb. discriminate.
    + unfold cb_can_run in Ecb. apply orb_false_iff in Ecb. destruct Ecb as [E1 E2].
      apply negb_false_iff in E1. unfold kflags_ok in Hfl. rewrite E1 in Hfl. cbn in Hfl.
      unfold klong_free in E2. apply negb_false_iff in E2.
      destruct (busy_ready _ (He eq_refl Hfl) E2) as [k [c [Hk Hr]]]. exact (ready_not_stuck fl s k c Hk Hr).
  - (* RCloseCb *)
    pose proof (Hc (or_introl eq_refl)) as Hn.
    destruct (all_done s) eqn:Ed.
    + apply (not_stuck fl s KCloseCb); [right; left; reflexivity|]. unfold kstep. rewrite Ep.
      assert (Hfree : klong_free s = true).
      { unfold klong_free. apply negb_true_iff. destruct (existsb busy (kcallers s)) eqn:Eb; [|reflexivity].
        destruct (busy_ready _ Hn Eb) as [k [c [Hk Hr]]]. unfold all_done in Ed. rewrite forallb_forall in Ed.
        specialize (Ed c (nth_error_In _ _ Hk)). rewrite Hr in Ed. discriminate. }
      unfold cb_can_run. rewrite Hfree, orb_true_r. discriminate.
    + destruct (undone_ready _ Hn Ed) as [k [c [Hk Hr]]]. exact (ready_not_stuck fl s k c Hk Hr).
  - (* RExited *)
    pose proof (Hc (or_intror eq_refl)) as Hn. unfold kfinal in Hnf. rewrite Ep, andb_true_r in Hnf.
    destruct (undone_ready _ Hn Hnf) as [k [c [Hk Hr]]]. exact (ready_not_stuck fl s k c Hk Hr).
Qed.

(* the invariant is kept by the client's own steps *)
Theorem loss_invariant : forall fl s a s', J fl s -> In a (internal_labels s) -> kstep fl s a = Some s' -> J fl s'.
Proof.
  intros fl s a s' [Ha [He Hc]] Hin Hs. unfold after_loss in Ha.
  unfold internal_labels in Hin. cbn [app] in Hin. destruct Hin as [E|[E|Hin]]; subst.
  - unfold kstep in Hs. destruct (kph s) eqn:Ep; try discriminate. destruct (cb_can_run fl s); [|discriminate].
    inversion Hs; subst. split; [reflexivity|]. split; cbn [kph kcallers]; [discriminate|]. intros _. apply resolve_no_wait.
  - unfold kstep in Hs. destruct (kph s) eqn:Ep; try discriminate. destruct (cb_can_run fl s); [|discriminate].
    inversion Hs; subst. split; [reflexivity|]. split; cbn [kph kcallers]; [discriminate|]. intros _. apply Hc. left. reflexivity.
  - apply in_map_iff in Hin. destruct Hin as [k [E _]]. subst a.
    assert (Hw : exists c, nth_error (kcallers s) k = Some c /\ kst c = CReady /\
                 s' = mkKS (updk k (fun c => mkK (on_klong c) CDone) (kcallers s)) (kph s)).
    { unfold kstep in Hs. destruct (nth_error (kcallers s) k) as [c|] eqn:Hn.
      - destruct (kst c) eqn:Ec; destruct (kph s); try discriminate; inversion Hs; subst; exists c; auto.
      - destruct (kph s); discriminate. }
    destruct Hw as [c [Hn [Hr ->]]].
    assert (Hnw : forall l, no_wait l -> no_wait (updk k (fun c => mkK (on_klong c) CDone) l)).
    { intros l H x Hx. destruct (updk_in _ _ _ _ Hx) as [H1|[y [_ E]]]; [exact (H x H1)|subst x; cbn; discriminate]. }
    split; [unfold after_loss; cbn [kph]; exact Ha|]. split; cbn [kph kcallers].
    + intros E Hf. apply Hnw. exact (He E Hf).
    + intros E. apply Hnw. exact (Hc E).
Qed.

(* and every such step does part of the remaining work: runs are finite *)
Lemma fold_updk_done : forall l k c, nth_error l k = Some c -> kst c = CReady ->
  fold_right (fun c n => cweight c + n) 0 (updk k (fun c => mkK (on_klong c) CDone) l) + 1 = fold_right (fun c n => cweight c + n) 0 l.
Proof.
  induction l as [|x r IH]; intros k c Hn Hr; [destruct k; discriminate|].
  destruct k as [|k]; cbn in Hn.
  - inversion Hn; subst. cbn. unfold cweight at 2. rewrite Hr. cbn. lia.
  - cbn. rewrite <- (IH k c Hn Hr). lia.
Qed.

Lemma fold_resolve_le : forall l, fold_right (fun c n => cweight c + n) 0 (map resolve l) <= fold_right (fun c n => cweight c + n) 0 l.
Proof.
  induction l as [|x r IH]; cbn; [lia|]. unfold resolve at 1, cweight at 1 3. destruct (kst x) eqn:E; cbn; try rewrite E; lia.
Qed.

Theorem loss_measure : forall fl s a s', after_loss s = true -> In a (internal_labels s) -> kstep fl s a = Some s' ->
  kmeasure s' < kmeasure s.
Proof.
  intros fl s a s' Ha Hin Hs. unfold after_loss in Ha.
  unfold internal_labels in Hin. cbn [app] in Hin. destruct Hin as [E|[E|Hin]]; subst.
  - unfold kstep in Hs. destruct (kph s) eqn:Ep; try discriminate. destruct (cb_can_run fl s); [|discriminate].
    inversion Hs; subst. unfold kmeasure. cbn [kph kcallers]. rewrite Ep. pose proof (fold_resolve_le (kcallers s)). lia.
  - unfold kstep in Hs. destruct (kph s) eqn:Ep; try discriminate. destruct (cb_can_run fl s); [|discriminate].
    inversion Hs; subst. unfold kmeasure. cbn [kph kcallers]. rewrite Ep. lia.
  - apply in_map_iff in Hin. destruct Hin as [k [E _]]. subst a. unfold kstep in Hs.
    destruct (nth_error (kcallers s) k) as [c|] eqn:Hn; [|destruct (kph s); discriminate].
    destruct (kst c) eqn:Ec; destruct (kph s) eqn:Ep; try discriminate; inversion Hs; subst;
      unfold kmeasure; cbn [kph kcallers]; rewrite Ep; pose proof (fold_updk_done _ _ _ Hn Ec); lia.
Qed.

(* ---- refutations (by computation) *)
(* the seeded order: callbacks wait for the klong loop, pending futures are failed only afterwards; one call pending from
   the klong loop when the connection is lost: nothing can move, the caller waits forever *)
Lemma callbacks_on_klong_loop_refuted :
  exists s, kstep (mkKF true false) (mkKS [mkK true CWait] RListening) KLoss = Some s /\
            stuck (mkKF true false) s = true /\ kfinal s = false /\ kcallers s = [mkK true CWait].
Proof. eexists. split; [reflexivity|]. repeat split. Qed.

(* the same loss with the pinned tree's flags (inline callbacks), and with "fail first": everybody returns *)
Lemma callbacks_inline_example :
  kfinal (krun (mkKF false false) 10 (mkKS [mkK true CReady; mkK false CDone] RErrCb)) = true /\
  forall s, kstep (mkKF false false) (mkKS [mkK true CWait; mkK false CWait] RListening) KLoss = Some s ->
            kfinal (krun (mkKF false false) 10 s) = true.
Proof. split; [reflexivity|]. intros s H. inversion H; subst. reflexivity. Qed.

(* re-entrancy on the pinned tree: a call is pending from the klong loop and a request of the peer is read before the
   response: the listener waits for the klong loop, the klong loop waits for the listener; not even a loss is noticed *)
Lemma reentrancy_refuted : forall fl,
  exists s, kstep fl (mkKS [mkK true CWait] RListening) KReq = Some s /\
            (forall a, kstep fl s a = None) /\ kcallers s = [mkK true CWait].
Proof.
  intros fl. eexists. split; [reflexivity|]. split; [|reflexivity].
  intros a. destruct a as [k| | | | | |k]; try reflexivity.
  destruct k as [|[|k]]; reflexivity.
Qed.

(* it needs a caller ON the klong loop: with callers on other threads only, the evaluation always gets the loop *)
Lemma dispatch_progress : forall fl s, kph s = RDispatch -> forallb (fun c => negb (on_klong c)) (kcallers s) = true ->
  kstep fl s KDispatchDone = Some (mkKS (kcallers s) RListening).
Proof.
  intros fl s Hp Hn. unfold kstep. rewrite Hp.
  assert (klong_free s = true) as ->; [|reflexivity].
  unfold klong_free. apply negb_true_iff. destruct (existsb busy (kcallers s)) eqn:E; [|reflexivity].
  apply existsb_exists in E. destruct E as [c [Hin Hb]]. rewrite forallb_forall in Hn. specialize (Hn c Hin).
  unfold busy in Hb. destruct (on_klong c); [discriminate|discriminate].
Qed.
