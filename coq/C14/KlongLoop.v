(* C14/KlongLoop.v — the klong loop as a resource.  A connection whose NetworkClient is used as a CALLER from the klong-loop
   thread (a server pushing to a connected client from a timer / .async callback / REPL input; a client calling from the
   REPL): NetworkClient.call blocks that thread in .result() until its future is resolved, and the klong loop is also where
     - execute_server_command evaluates a request of the peer (the dispatch branch of _listen awaits it), and
     - application callbacks run IF they are dispatched there and awaited (flag; on the pinned tree the .srv.o/.srv.c/.srv.e
       handlers are called inline on the io loop).
   _run's exception path in the order of the code:  handler: `await on_error(self, e)`  THEN  finally: fail the pending
   futures, `await on_close(self)`.  No proofs in this file. *)
From Coq Require Import List Bool PeanoNat.
Import ListNotations.

Inductive cst := CWait (* awaiting an unresolved future *) | CReady (* future resolved or failed: the caller can wake up *) | CDone.
Record kcaller := mkK { on_klong : bool; kst : cst }.

Inductive kphase := RListening | RDispatch | RErrCb | RCloseCb | RExited.

Record kflags := mkKF {
  cb_on_klong : bool;        (* callbacks are dispatched to the klong loop and awaited by _run *)
  fail_before_cb : bool      (* the pending futures are failed before on_error is awaited *)
}.

Record kstate := mkKS { kcallers : list kcaller; kph : kphase }.

Inductive klabel :=
| KResp (k : nat)        (* the response to call k is read by the listener *)
| KReq                   (* a request of the peer is read: _listen awaits its evaluation on the klong loop *)
| KDispatchDone          (* the evaluation ran on the klong loop and was answered *)
| KLoss                  (* stream_recv_msg raises: _run's handler starts *)
| KErrCb                 (* on_error has run; the finally fails the pending futures *)
| KCloseCb               (* on_close has run; _run exits *)
| KWake (k : nat).       (* caller k returns / raises: if it was on the klong loop, the loop is free again *)

Definition busy (c : kcaller) : bool := on_klong c && match kst c with CDone => false | _ => true end.
Definition klong_free (s : kstate) : bool := negb (existsb busy (kcallers s)).

Definition resolve (c : kcaller) : kcaller := match kst c with CWait => mkK (on_klong c) CReady | _ => c end.

Fixpoint updk (k : nat) (f : kcaller -> kcaller) (l : list kcaller) : list kcaller :=
  match l, k with
  | [], _ => []
  | x :: r, O => f x :: r
  | x :: r, S k' => x :: updk k' f r
  end.

Definition cb_can_run (fl : kflags) (s : kstate) : bool := negb (cb_on_klong fl) || klong_free s.

Definition kstep (fl : kflags) (s : kstate) (a : klabel) : option kstate :=
  match a, kph s with
  | KResp k, RListening =>
      match nth_error (kcallers s) k with
      | Some c => match kst c with CWait => Some (mkKS (updk k resolve (kcallers s)) RListening) | _ => None end
      | None => None
      end
  | KReq, RListening => Some (mkKS (kcallers s) RDispatch)
  | KDispatchDone, RDispatch => if klong_free s then Some (mkKS (kcallers s) RListening) else None
  | KLoss, RListening =>
      Some (mkKS (if fail_before_cb fl then map resolve (kcallers s) else kcallers s) RErrCb)
  | KErrCb, RErrCb => if cb_can_run fl s then Some (mkKS (map resolve (kcallers s)) RCloseCb) else None
  | KCloseCb, RCloseCb => if cb_can_run fl s then Some (mkKS (kcallers s) RExited) else None
  | KWake k, _ =>
      match nth_error (kcallers s) k with
      | Some c => match kst c with CReady => Some (mkKS (updk k (fun c => mkK (on_klong c) CDone) (kcallers s)) (kph s)) | _ => None end
      | None => None
      end
  | _, _ => None
  end.

Definition all_done (s : kstate) : bool := forallb (fun c => match kst c with CDone => true | _ => false end) (kcallers s).
Definition kfinal (s : kstate) : bool := all_done s && match kph s with RExited => true | _ => false end.

(* the steps the client can take by itself once the connection is lost *)
Definition after_loss (s : kstate) : bool := match kph s with RErrCb | RCloseCb | RExited => true | _ => false end.
Definition internal_labels (s : kstate) : list klabel := [KErrCb; KCloseCb] ++ map KWake (seq 0 (length (kcallers s))).
Definition stuck (fl : kflags) (s : kstate) : bool :=
  forallb (fun a => match kstep fl s a with None => true | Some _ => false end) (internal_labels s).

(* what is left to do *)
Definition cweight (c : kcaller) : nat := match kst c with CWait => 2 | CReady => 1 | CDone => 0 end.
Definition kmeasure (s : kstate) : nat :=
  fold_right (fun c n => cweight c + n) 0 (kcallers s) +
  match kph s with RListening | RDispatch => 3 | RErrCb => 2 | RCloseCb => 1 | RExited => 0 end.

Definition kflags_ok (fl : kflags) : bool := negb (cb_on_klong fl) || fail_before_cb fl.

(* greedy run of the internal steps (ErrCb, CloseCb, wake-ups in index order) for the harness: the state it ends in *)
Fixpoint krun (fl : kflags) (fuel : nat) (s : kstate) : kstate :=
  match fuel with
  | O => s
  | S f =>
      match find (fun a => match kstep fl s a with Some _ => true | None => false end) (internal_labels s) with
      | Some a => match kstep fl s a with Some s' => krun fl f s' | None => s end
      | None => s
      end
  end.
