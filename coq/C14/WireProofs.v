(* C14/WireProofs.v — byte-level runs are frame-level runs: for every fragmentation and every cut position. *)
From Coq Require Import ZArith List Bool Lia.
From C13 Require Model Proofs.
From C14 Require Import Model Spec Wire Reflect.
Import ListNotations.

Section W.
  Variable fl : flags.
  Variable lab : wmsg -> label.

  (* ---- lenient application of labels is a strict run of the enabled ones *)
  Lemma apply_labs_exec : forall l s s' h, apply_labs fl s l = (s', h) -> exists tr, exec fl s tr = Some (s', h).
  Proof.
    induction l as [|a r IH]; intros s s' h H; cbn [apply_labs] in H.
    - inversion H; subst. exists []. reflexivity.
    - unfold apply_lab in H. destruct (step fl s a) as [[s1 e1]|] eqn:Hs.
      + destruct (apply_labs fl s1 r) as [s2 e2] eqn:Hr. inversion H; subst.
        destruct (IH _ _ _ Hr) as [tr Htr]. exists (a :: tr). cbn [exec]. rewrite Hs, Htr. reflexivity.
      + destruct (apply_labs fl s r) as [s2 e2] eqn:Hr. inversion H; subst.
        destruct (IH _ _ _ Hr) as [tr Htr]. exists tr. exact Htr.
  Qed.

  Lemma apply_labs_app : forall l1 l2 s, apply_labs fl s (l1 ++ l2) =
    let '(s1, e1) := apply_labs fl s l1 in let '(s2, e2) := apply_labs fl s1 l2 in (s2, e1 ++ e2).
  Proof.
    induction l1 as [|a r IH]; intros l2 s; cbn [apply_labs app].
    - destruct (apply_labs fl s l2). reflexivity.
    - destruct (apply_lab fl s a) as [s1 e1]. rewrite IH.
      destruct (apply_labs fl s1 r) as [s2 e2]. destruct (apply_labs fl s2 l2) as [s3 e3].
      rewrite app_assoc. reflexivity.
  Qed.

  (* ---- a wire schedule does what its translation does *)
  Lemma wexec_translate : forall items s d eof,
    let '(w', h) := wexec fl lab (mkW s d eof) items in
    apply_labs fl s (map snd (translate lab d eof items)) = (w_s w', h).
  Proof.
    induction items as [|i r IH]; intros s d eof; cbn [wexec translate map apply_labs].
    - reflexivity.
    - destruct i as [a|c|]; cbn [wstep w_s w_d w_eof].
      + cbn [map apply_labs snd]. destruct (apply_lab fl s a) as [s1 e1].
        specialize (IH s1 d eof). destruct (wexec fl lab (mkW s1 d eof) r) as [w2 e2]. rewrite IH. reflexivity.
      + destruct eof.
        * specialize (IH s d true). destruct (wexec fl lab (mkW s d true) r) as [w2 e2]. rewrite IH. reflexivity.
        * destruct (C13.Model.feed d c) as [d' ms]. rewrite map_app, map_map. cbn [snd].
          rewrite apply_labs_app. destruct (apply_labs fl s (map lab ms)) as [s1 e1].
          specialize (IH s1 d' false). destruct (wexec fl lab (mkW s1 d' false) r) as [w2 e2]. rewrite IH. reflexivity.
      + destruct eof.
        * specialize (IH s d true). destruct (wexec fl lab (mkW s d true) r) as [w2 e2]. rewrite IH. reflexivity.
        * cbn [map apply_labs snd]. destruct (apply_lab fl s ACut) as [s1 e1].
          specialize (IH s1 d true). destruct (wexec fl lab (mkW s1 d true) r) as [w2 e2]. rewrite IH. reflexivity.
  Qed.

  Theorem wexec_is_exec : forall items w w' h, wexec fl lab w items = (w', h) ->
    exists tr, exec fl (w_s w) tr = Some (w_s w', h).
  Proof.
    intros items [s d eof] w' h H. pose proof (wexec_translate items s d eof) as T. rewrite H in T.
    exact (apply_labs_exec _ _ _ _ T).
  Qed.

  (* ---- what comes off the wire is exactly what C13's reader delivers from the chunks, in order, each frame once *)
  Lemma wire_labels_app : forall a b, wire_labels (a ++ b) = wire_labels a ++ wire_labels b.
  Proof. intros. unfold wire_labels. rewrite filter_app, map_app. reflexivity. Qed.

  Lemma wire_labels_frames : forall ms, wire_labels (map (fun m => (true, lab m)) ms) = map lab ms.
  Proof. induction ms as [|m r IH]; [reflexivity|]. unfold wire_labels in *. cbn. rewrite IH. reflexivity. Qed.

  Lemma translate_no_eof : forall items d, no_eof items = true ->
    wire_labels (translate lab d false items) = map lab (snd (C13.Model.feed_all d (chunks_of items))).
  Proof.
    induction items as [|i r IH]; intros d Hn; [reflexivity|].
    cbn [no_eof forallb] in Hn. apply andb_true_iff in Hn. destruct Hn as [Hi Hr]. fold (no_eof r) in Hr.
    destruct i as [a|c|]; [| |discriminate]; cbn [translate chunks_of flat_map app].
    - fold (chunks_of r). unfold wire_labels at 1. cbn [filter fst map]. fold (wire_labels (translate lab d false r)). apply IH. exact Hr.
    - fold (chunks_of r). cbn [C13.Model.feed_all]. destruct (C13.Model.feed d c) as [d' ms].
      rewrite wire_labels_app, wire_labels_frames, (IH d' Hr).
      destruct (C13.Model.feed_all d' (chunks_of r)) as [d2 m2]. cbn [snd]. rewrite map_app. reflexivity.
  Qed.

  Lemma translate_eof_ignores : forall items d, wire_labels (translate lab d true items) = [].
  Proof.
    induction items as [|i r IH]; intros d; [reflexivity|].
    destruct i as [a|c|]; cbn [translate]; apply IH.
  Qed.

  Lemma translate_until_eof : forall pre post d, no_eof pre = true ->
    wire_labels (translate lab d false (pre ++ WEof :: post)) =
    map lab (snd (C13.Model.feed_all d (chunks_of pre))) ++ [ACut].
  Proof.
    induction pre as [|i r IH]; intros post d Hn.
    - cbn [app translate chunks_of flat_map C13.Model.feed_all snd map].
      unfold wire_labels. cbn [filter fst map snd]. fold (wire_labels (translate lab d true post)).
      rewrite translate_eof_ignores. reflexivity.
    - cbn [no_eof forallb] in Hn. apply andb_true_iff in Hn. destruct Hn as [Hi Hr]. fold (no_eof r) in Hr.
      destruct i as [a|c|]; [| |discriminate]; cbn [app translate chunks_of flat_map].
      + fold (chunks_of r). unfold wire_labels at 1. cbn [filter fst map].
        fold (wire_labels (translate lab d false (r ++ WEof :: post))). apply IH. exact Hr.
      + fold (chunks_of r). cbn [C13.Model.feed_all app]. destruct (C13.Model.feed d c) as [d' ms].
        rewrite wire_labels_app, wire_labels_frames, (IH post d' Hr).
        destruct (C13.Model.feed_all d' (chunks_of r)) as [d2 m2]. cbn [snd]. rewrite map_app, app_assoc. reflexivity.
  Qed.

  (* the server wrote the frames msgs; the network delivered them in ANY fragmentation, interleaved in ANY way with the
     client's own steps: the listener handles exactly the frames msgs, in order, each once *)
  Theorem wire_delivers_frames : forall items msgs, no_eof items = true ->
    forallb C13.Model.encodable msgs = true ->
    concat (chunks_of items) = flat_map C13.Model.encode_message msgs ->
    wire_labels (translate lab C13.Model.dinit false items) = map lab msgs.
  Proof.
    intros items msgs Hn He Hc. rewrite (translate_no_eof items _ Hn).
    rewrite (C13.Proofs.frame_delivery msgs (chunks_of items) He Hc). reflexivity.
  Qed.

  (* ... and when the stream is cut at ANY byte inside a further frame m (inside its id, its length or its body), or between
     frames, the listener handles exactly the complete frames before the cut and then the loss *)
  Theorem wire_cut_inside_frame : forall pre post msgs m q r, no_eof pre = true ->
    forallb C13.Model.encodable msgs = true -> C13.Model.encodable m = true ->
    C13.Model.encode_message m = q ++ r -> q <> [] -> r <> [] ->
    concat (chunks_of pre) = flat_map C13.Model.encode_message msgs ++ q ->
    wire_labels (translate lab C13.Model.dinit false (pre ++ WEof :: post)) = map lab msgs ++ [ACut].
  Proof.
    intros pre post msgs m q r Hn He Hm Hq Hq0 Hr0 Hc. rewrite (translate_until_eof pre post _ Hn).
    destruct (C13.Proofs.cut_delivery msgs m q r (chunks_of pre) He Hm Hq Hq0 Hr0 Hc) as [s' [Hf _]].
    rewrite Hf. reflexivity.
  Qed.

  Theorem wire_cut_between_frames : forall pre post msgs, no_eof pre = true ->
    forallb C13.Model.encodable msgs = true ->
    concat (chunks_of pre) = flat_map C13.Model.encode_message msgs ->
    wire_labels (translate lab C13.Model.dinit false (pre ++ WEof :: post)) = map lab msgs ++ [ACut].
  Proof.
    intros pre post msgs Hn He Hc. rewrite (translate_until_eof pre post _ Hn).
    rewrite (C13.Proofs.frame_delivery msgs (chunks_of pre) He Hc). reflexivity.
  Qed.
End W.

(* C14_all at byte level: whatever bytes arrive, in whatever fragmentation, cut anywhere, however interleaved *)
Theorem all_wire_runs_pass : forall (lab : wmsg -> label) c0 nn nc, nn + nc <= 3 ->
  forall items w h, wexec fl_fixed lab (w_init (init_cfg c0 nn nc)) items = (w, h) ->
    check_prefix (nn + nc) h = true /\
    (quiescent fl_fixed (w_s w) = true -> check_history (nn + nc) h = true).
Proof.
  intros lab c0 nn nc Hn items w h H.
  destruct (wexec_is_exec fl_fixed lab items _ _ _ H) as [tr Htr]. cbn [w_init w_s] in Htr.
  exact (all_runs_pass c0 nn nc Hn tr (w_s w) h Htr).
Qed.

Lemma all_wire_runs_pass_flags : forall fl (cleans : bool),
  f_snapshot fl = true -> f_clear_writer fl = true -> f_clear_writer_late fl = false -> cleans = true ->
  forall (lab : wmsg -> label) c0 nn nc, nn + nc <= 3 ->
  forall items w h, wexec fl lab (w_init (init_cfg c0 nn nc)) items = (w, h) ->
    check_prefix (nn + nc) h = true /\
    (quiescent fl (w_s w) = true -> check_history (nn + nc) h = true).
Proof.
  intros [a b c] cleans Ha Hb Hc _. cbn in Ha, Hb, Hc. subst a b c. exact all_wire_runs_pass.
Qed.
