(* C14/Properties.v — property theorems only: statement, `exact`, Print Assumptions. *)
From Coq Require Import ZArith List Bool.
From C13 Require Model.
From C14 Require Import Generated Model ServerModel Wire KlongLoop Spec Proofs Reflect ServerProofs WireProofs KlongLoopProofs.
Import ListNotations.

(* the facts the model follows, as regenerated from klongpy/sys_fn_ipc.py on this run *)
Definition gen_flags : flags := mkFlags cleanup_iterates_snapshot finally_clears_writer writer_cleared_after_on_close.
Definition gen_flags_ok : fl_ok gen_flags := conj eq_refl eq_refl.

(* T14.sound — a history accepted by the checker satisfies the property's statement: every call made completes
   exactly once; a value is the body of a response frame carrying the call's own id; an exception (or a no-op
   close) only after the connection was lost, closed, or the server failed. *)
Theorem C14_check_history_sound : forall n h, check_history n h = true -> hist_ok h.
Proof. exact check_history_sound. Qed.
Print Assumptions C14_check_history_sound.

(* T14.match — ANY number of calls, any schedule: the keys of pending_responses are unique and their futures unresolved *)
Theorem C14_match : forall c0 closers s, reach gen_flags (init c0 closers) s ->
  NoDup (pending s) /\
  forall k, In k (pending s) -> exists c, nth_error (calls s) k = Some c /\ c_fut c = FUnres.
Proof. exact (fun c0 closers s => match_invariant gen_flags c0 closers s gen_flags_ok). Qed.
Print Assumptions C14_match.

(* ... and the only step that gives a future a value is the response frame with that call's id, while it is registered *)
Theorem C14_response_resolves_own : forall s a s' ev k c c' b,
  step gen_flags s a = Some (s', ev) ->
  nth_error (calls s) k = Some c -> nth_error (calls s') k = Some c' ->
  c_fut c' = FVal b -> c_fut c <> FVal b ->
  exists ok, a = AResp k ok /\ In k (pending s) /\ b = resp_body k c.
Proof. exact (response_resolves_own gen_flags). Qed.
Print Assumptions C14_response_resolves_own.

(* T14.drain — ANY number of calls: once the connection is torn down -- INCLUDING the window in which _run's finally has
   reset the writer and failed the futures and is still awaiting on_close(self), with callers running -- writer is None, every future still registered belongs to a
   caller whose send has not run yet (it will raise AttributeError) or has just raised, and no caller awaits an unresolved future *)
Theorem C14_drain : forall c0 closers s, reach gen_flags (init c0 closers) s -> lst s = LExit \/ lst s = LCloseWait ->
  writer s = false /\
  (forall k, In k (pending s) -> exists c, nth_error (calls s) k = Some c /\ c_fut c = FUnres /\
     (c_pc c = PRegd \/ c_pc c = PSched \/ c_pc c = PDone (RExc XAttr))) /\
  (forall k c, nth_error (calls s) k = Some c -> c_pc c = PAwait -> c_fut c <> FUnres).
Proof. exact (fun c0 closers s => drain_invariant gen_flags c0 closers s gen_flags_ok). Qed.
Print Assumptions C14_drain.

(* ... so nobody waits forever: each caller under way has an enabled step of its own that moves it strictly forward *)
Theorem C14_drain_progress : forall c0 closers s k c, reach gen_flags (init c0 closers) s -> lst s = LExit \/ lst s = LCloseWait ->
  nth_error (calls s) k = Some c -> c_pc c <> PIdle -> (forall r, c_pc c <> PDone r) ->
  exists a s' ev c', In a [ARegister k; ASchedule k; ASend k; AComplete k] /\ step gen_flags s a = Some (s', ev) /\
                     nth_error (calls s') k = Some c' /\ rank (c_pc c) < rank (c_pc c') /\ lst s' = lst s.
Proof. exact (fun c0 closers s k c => drain_progress gen_flags c0 closers s k c gen_flags_ok). Qed.
Print Assumptions C14_drain_progress.

(* T14.all — for every configuration of nn ordinary calls and nc close() calls with nn + nc <= 3 and EVERY schedule tr
   (any length: all interleavings of the callers' steps, all arrival orders, duplicates, pushes, loss / reset / close at
   every point): the history never violates the checker, and whenever the run is maximal (no step of the client
   enabled and the server owes no answer) the finished history passes check_history: nobody is left blocked.
   Closed-finite-set reflection; the bound 3 is the property's own. *)
Theorem C14_all : forall c0 nn nc, nn + nc <= 3 ->
  forall tr s h, exec gen_flags (init_cfg c0 nn nc) tr = Some (s, h) ->
    check_prefix (nn + nc) h = true /\
    (quiescent gen_flags s = true -> check_history (nn + nc) h = true).
Proof. exact (all_runs_pass_flags gen_flags finally_cleans_pending eq_refl eq_refl eq_refl eq_refl). Qed.
Print Assumptions C14_all.

(* `self.writer = None` moved from the top of the finally to after `await on_close(self)` is refuted: a call made while the
   on_close handler is parked is written into the dead stream after the cleanup has run and waits forever *)
Theorem C14_late_writer_reset_refuted : exists s h,
  exec (mkFlags true false true) (init_cfg true 1 0) late_reset_trace = Some (s, h) /\ quiescent (mkFlags true false true) s = true /\
  check_history 1 h = false /\ lst s = LExit /\ writer s = false /\
  exists c, nth_error (calls s) 0 = Some c /\ c_pc c = PAwait /\ c_fut c = FUnres /\ c_sent c = true.
Proof. exact late_writer_reset_refuted. Qed.

(* Calls racing run_client(), before the connection is established (any number of calls): self.writer is still None, so a
   send raises AttributeError at once, and nobody awaits an unresolved future; with a provider that is not open yet
   (HostPortConnectionProvider) call() itself raises "connection not established".  C14_all covers every interleaving of
   such calls with connect() succeeding or raising KlongIPCCreateConnectionException. *)
Theorem C14_before_connect_prompt : forall c0 closers s, reach gen_flags (init c0 closers) s -> lst s = LInit ->
  writer s = false /\
  (forall k c, nth_error (calls s) k = Some c -> c_pc c = PSched ->
     exists s', step gen_flags s (ASend k) = Some (s', [ERaise k XAttr])) /\
  (forall k c, nth_error (calls s) k = Some c -> c_pc c = PIdle -> copen s = false -> c_close c = false ->
     exists s', step gen_flags s (AInvoke k) = Some (s', [ECall k; ERaise k XNotEst])) /\
  (forall k c, nth_error (calls s) k = Some c -> c_pc c = PAwait -> c_fut c <> FUnres).
Proof. exact (fun c0 closers s => before_connect_prompt gen_flags c0 closers s gen_flags_ok). Qed.
Print Assumptions C14_before_connect_prompt.

(* ---- the byte-level wire (C13's reader model inside the C14 model) *)
(* a wire schedule -- chunks of ANY content and fragmentation, EOF anywhere, interleaved in any way with the client's own
   steps -- produces a history that some frame-level schedule produces *)
Theorem C14_wire_is_frames : forall lab items w w' h, wexec gen_flags lab w items = (w', h) ->
  exists tr, exec gen_flags (w_s w) tr = Some (w_s w', h).
Proof. exact (wexec_is_exec gen_flags). Qed.
Print Assumptions C14_wire_is_frames.

(* hence C14_all holds at byte level, for every fragmentation and every cut position *)
Theorem C14_all_bytes : forall (lab : wmsg -> label) c0 nn nc, nn + nc <= 3 ->
  forall items w h, wexec gen_flags lab (w_init (init_cfg c0 nn nc)) items = (w, h) ->
    check_prefix (nn + nc) h = true /\
    (quiescent gen_flags (w_s w) = true -> check_history (nn + nc) h = true).
Proof. exact (all_wire_runs_pass_flags gen_flags finally_cleans_pending eq_refl eq_refl eq_refl eq_refl). Qed.
Print Assumptions C14_all_bytes.

(* and what the listener handles is exactly what the server wrote: the frames msgs in order, each once, under ANY
   fragmentation and interleaving (C13_frame_delivery) ... *)
Theorem C14_wire_delivers_frames : forall lab items msgs, no_eof items = true ->
  forallb C13.Model.encodable msgs = true ->
  concat (chunks_of items) = flat_map C13.Model.encode_message msgs ->
  wire_labels (translate lab C13.Model.dinit false items) = map lab msgs.
Proof. exact wire_delivers_frames. Qed.
Print Assumptions C14_wire_delivers_frames.

(* ... and, cut at ANY byte of a frame (inside id, length or body) or between frames, exactly the complete frames before
   the cut and then the loss (C13_cut_delivery) *)
Theorem C14_wire_cut_inside_frame : forall lab pre post msgs m q r, no_eof pre = true ->
  forallb C13.Model.encodable msgs = true -> C13.Model.encodable m = true ->
  C13.Model.encode_message m = q ++ r -> q <> [] -> r <> [] ->
  concat (chunks_of pre) = flat_map C13.Model.encode_message msgs ++ q ->
  wire_labels (translate lab C13.Model.dinit false (pre ++ WEof :: post)) = map lab msgs ++ [ACut].
Proof. exact wire_cut_inside_frame. Qed.
Print Assumptions C14_wire_cut_inside_frame.

Theorem C14_wire_cut_between_frames : forall lab pre post msgs, no_eof pre = true ->
  forallb C13.Model.encodable msgs = true ->
  concat (chunks_of pre) = flat_map C13.Model.encode_message msgs ->
  wire_labels (translate lab C13.Model.dinit false (pre ++ WEof :: post)) = map lab msgs ++ [ACut].
Proof. exact wire_cut_between_frames. Qed.
Print Assumptions C14_wire_cut_between_frames.

(* The loop `for future in self.pending_responses.values()` (the tree before fix: commit 65bab7f) is refuted: a maximal run of
   three calls whose history fails the checker -- call 1 waits forever -- because call 2 registers during the loop. *)
Theorem C14_live_dict_cleanup_refuted : exists s h,
  exec (mkFlags false true false) (init_cfg true 3 0) race_trace = Some (s, h) /\ quiescent (mkFlags false true false) s = true /\
  check_history 3 h = false /\ lst s = LCrash /\
  exists c, nth_error (calls s) 1 = Some c /\ c_pc c = PAwait /\ c_fut c = FUnres.
Proof. exact race_refuted. Qed.

(* ---- the server half of a request (execute_server_command / run_command_on_klongloop / _listen's dispatch branch) *)
Definition gen_sflags : sflags := mkSFlags server_wraps_generic_errors server_wraps_keyerror.
Definition gen_sflags_ok : sfl_ok gen_sflags := conj eq_refl eq_refl.

(* whatever the evaluation does -- value (picklable or not), function, KeyError, KlongException, any other Exception class
   including the ones Future.set_exception refuses (StopIteration) -- exactly one callback is scheduled on the future loop,
   it completes result_future exactly once, and the request is followed by a response frame or by a teardown, never by nothing *)
Theorem C14_server_one_completion : forall o, in_domain o = true ->
  length (exec_cmd gen_sflags o) = 1 /\ snd (run_command gen_sflags o) = 1 /\ listen_dispatch gen_sflags o <> RxNothing.
Proof. exact (fun o => server_one_completion gen_sflags o gen_sflags_ok). Qed.
Print Assumptions C14_server_one_completion.

(* ANY sequence of requests on one connection: every request is answered, or tears the connection down, or arrives after
   the teardown (then the caller's call fails: C14_drain); none is met with silence *)
Theorem C14_server_answers_or_closes : forall os, forallb in_domain os = true ->
  existsb silent (serve gen_sflags os) = false /\ length (serve gen_sflags os) = length os.
Proof. exact (fun os H => conj (serve_answers_or_closes gen_sflags os gen_sflags_ok H) (serve_length gen_sflags os)). Qed.
Print Assumptions C14_server_answers_or_closes.

(* the server's reaction is one of the environment steps C14_all quantifies over *)
Theorem C14_server_reaction_is_env_step : forall o k, in_domain o = true ->
  reaction_label k (listen_dispatch gen_sflags o) = Some (AResp k true) \/ reaction_label k (listen_dispatch gen_sflags o) = Some ACut.
Proof. exact (fun o k => server_reaction_is_env_step gen_sflags o k gen_sflags_ok). Qed.
Print Assumptions C14_server_reaction_is_env_step.

(* handing the caught exception object itself to set_exception is refuted: StopIteration is never stored, the request and
   every later one on the connection are met with silence *)
Theorem C14_server_raw_exception_refuted :
  exists o, in_domain o = true /\ listen_dispatch (mkSFlags false true) o = RxNothing /\
            serve (mkSFlags false true) [o; OValue true] = [SvNothing; SvStuck].
Proof. exact raw_generic_handler_refuted. Qed.

(* the boundary of the domain, stated: a BaseException that is not an Exception is caught by neither handler *)
Theorem C14_server_baseexception_outside_domain : forall fl, listen_dispatch fl (ORaise CBase) = RxNothing.
Proof. exact base_exception_unanswered. Qed.
Print Assumptions C14_server_baseexception_outside_domain.

Example C14_server_example :
  serve gen_sflags [OValue true; OFunction; ORaise CStopIter; OValue true] = [SvResponse false; SvResponse true; SvTeardown; SvClosed].
Proof. reflexivity. Qed.

(* ---- the connection used as a CALLER from the klong-loop thread (server pushing to a client; KlongLoop.v) *)
Definition gen_kflags : kflags := mkKF (negb srv_callbacks_inline) run_fails_pending_before_callbacks.
(* the ordering assumption, pinned by the translator: the .srv.o/.srv.c/.srv.e callbacks do not wait for the klong loop,
   or the pending futures are failed before on_error is awaited *)
Definition gen_kflags_ok : kflags_ok gen_kflags = true := eq_refl.

(* ANY number of pending callers, on the klong loop or on other threads: once the connection is lost (_run's handler
   awaits on_error, THEN the finally fails the pending futures, THEN on_close) the client can always take a step until
   every caller has returned and _run has exited; the invariant is established by the loss and kept; every step does part
   of the remaining work (runs are finite): nobody is left waiting *)
Theorem C14_klong_loss_no_caller_left_waiting :
  (forall s s', kstep gen_kflags s KLoss = Some s' -> J gen_kflags s') /\
  (forall s a s', J gen_kflags s -> In a (internal_labels s) -> kstep gen_kflags s a = Some s' -> J gen_kflags s') /\
  (forall s, J gen_kflags s -> kfinal s = false -> stuck gen_kflags s = false) /\
  (forall s a s', after_loss s = true -> In a (internal_labels s) -> kstep gen_kflags s a = Some s' -> kmeasure s' < kmeasure s).
Proof.
  exact (conj (kloss_J gen_kflags) (conj (loss_invariant gen_kflags) (conj (fun s => loss_progress gen_kflags s gen_kflags_ok) (loss_measure gen_kflags)))).
Qed.
Print Assumptions C14_klong_loss_no_caller_left_waiting.

(* the seeded ordering -- callbacks dispatched to the klong loop and awaited while the pending futures are failed only
   afterwards -- deadlocks with one call pending from the klong loop *)
Theorem C14_callbacks_on_klong_loop_refuted :
  exists s, kstep (mkKF true false) (mkKS [mkK true CWait] RListening) KLoss = Some s /\
            stuck (mkKF true false) s = true /\ kfinal s = false /\ kcallers s = [mkK true CWait].
Proof. exact callbacks_on_klong_loop_refuted. Qed.

(* KNOWN FINDING (pinned tree, whatever the flags): a call pending from the klong loop and a request of the peer read
   before its response: the listener awaits the evaluation on the klong loop, the klong loop is blocked in call() *)
Theorem C14_klong_reentrancy_refuted : forall fl,
  exists s, kstep fl (mkKS [mkK true CWait] RListening) KReq = Some s /\
            (forall a, kstep fl s a = None) /\ kcallers s = [mkK true CWait].
Proof. exact reentrancy_refuted. Qed.

(* outside that class: with callers on other threads only, a request of the peer is always evaluated and answered *)
Theorem C14_klong_dispatch_progress : forall s, kph s = RDispatch -> forallb (fun c => negb (on_klong c)) (kcallers s) = true ->
  kstep gen_kflags s KDispatchDone = Some (mkKS (kcallers s) RListening).
Proof. exact (dispatch_progress gen_kflags). Qed.
Print Assumptions C14_klong_dispatch_progress.

(* Non-vacuity. A maximal run of two calls and a close() with responses out of order; R8's leak is reachable. *)
Example C14_all_example :
  exists s h, exec gen_flags (init_cfg true 2 1)
    [AConnect true; AInvoke 0; ARegister 0; AInvoke 1; ARegister 1; ASchedule 1; ASend 1; ASchedule 0; ASend 0; AResp 1 true; AInvoke 2;
     AComplete 1; ARegister 2; ASchedule 2; ASend 2; AResp 2 true; AComplete 2; AComplete 0; ACloseDone] = Some (s, h) /\
  quiescent gen_flags s = true /\ check_history 3 h = true /\
  h = [EConnected; ECall 0; ECall 1; ESent 1; ESent 0; EResp 1 (BVal 1); ECall 2; ERet 1 (BVal 1); ESent 2; EResp 2 BClose; ELoss;
       ERet 2 BClose; ERaise 0 XCloseConn].
Proof. eexists. eexists. split; [vm_compute; reflexivity|]. split; [vm_compute; reflexivity|]. split; vm_compute; reflexivity. Qed.

Example C14_drain_example :
  exists s, reach gen_flags (init true [false; false]) s /\ lst s = LExit /\ pending s = [1].
Proof.
  eexists. split.
  - eapply reach_step. eapply reach_step. eapply reach_step. eapply reach_step. eapply reach_step. eapply reach_step. eapply reach_step. eapply reach_step. eapply reach_step. eapply reach_init.
    + instantiate (3 := AConnect true). vm_compute. reflexivity.
    + instantiate (3 := AInvoke 0). vm_compute. reflexivity.
    + instantiate (3 := ARegister 0). vm_compute. reflexivity.
    + instantiate (3 := AInvoke 1). vm_compute. reflexivity.
    + instantiate (3 := APush false). vm_compute. reflexivity.
    + instantiate (3 := AErrDone). vm_compute. reflexivity.
    + instantiate (3 := ACloseDone). vm_compute. reflexivity.
    + instantiate (3 := ARegister 1). vm_compute. reflexivity.
    + instantiate (3 := ASchedule 1). vm_compute. reflexivity.
  - split; reflexivity.
Qed.
