From C14 Require Import Generated Model Spec Proofs Reflect.
