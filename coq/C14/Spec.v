(* C14/Spec.v — what the property prescribes, as a predicate on an observed history,
   and the executable checker (a monitor folded over the history).  No proofs here. *)
From Coq Require Import ZArith List Bool PeanoNat.
From C14 Require Import Model.
Import ListNotations.

Definition body_eqb (a b : body) : bool :=
  match a, b with
  | BClose, BClose => true
  | BVal x, BVal y => Z.eqb x y
  | _, _ => false
  end.

Definition completion_of (k : nat) (e : event) : bool :=
  match e with
  | ERet j _ | ERaise j _ | ENoop j => Nat.eqb j k
  | _ => false
  end.

(* The property's statement about a finished history h of a client that made calls 0..n-1 *)
Definition hist_ok (h : list event) : Prop :=
  (* every call completes: exactly one completion, after the call was made -- never twice, nobody left blocked *)
  (forall k, In (ECall k) h ->
     exists h1 h2 e, h = h1 ++ e :: h2 /\ completion_of k e = true /\ In (ECall k) h1 /\
                     forall e', In e' (h1 ++ h2) -> completion_of k e' = false) /\
  (* a returned value is the body of a response frame that carried this call's own id and arrived before *)
  (forall h1 h2 k b, h = h1 ++ ERet k b :: h2 -> In (EResp k b) h1) /\
  (* a call raises (or close() is a no-op) only after the connection was lost / closed / the server failed -- or while
     no connection has been established yet *)
  (forall h1 h2 k e, h = h1 ++ ERaise k e :: h2 -> In ELoss h1 \/ ~ In EConnected h1) /\
  (forall h1 h2 k, h = h1 ++ ENoop k :: h2 -> In ELoss h1 \/ ~ In EConnected h1).

Inductive mstat := MIdle | MCalled | MAnswered (b : body) | MDone.
Record mon := mkMon { m_st : list mstat; m_lost : bool; m_conn : bool; m_bad : bool }.

Definition mupd (k : nat) (v : mstat) (m : mon) : mon := mkMon (upd k (fun _ => v) (m_st m)) (m_lost m) (m_conn m) (m_bad m).
Definition mbad (m : mon) : mon := mkMon (m_st m) (m_lost m) (m_conn m) true.

Definition mon_step (m : mon) (e : event) : mon :=
  match e with
  | ECall k => match nth_error (m_st m) k with Some MIdle => mupd k MCalled m | _ => mbad m end
  | ESent _ => m
  | EResp k b => match nth_error (m_st m) k with Some MCalled => mupd k (MAnswered b) m | _ => m end
  | ELoss => mkMon (m_st m) true (m_conn m) (m_bad m)
  | EConnected => mkMon (m_st m) (m_lost m) true (m_bad m)
  | ERet k b =>
      match nth_error (m_st m) k with
      | Some (MAnswered b') => if body_eqb b b' then mupd k MDone m else mbad m
      | _ => mbad m
      end
  | ERaise k _ | ENoop k =>
      match nth_error (m_st m) k with
      | Some MCalled => if m_lost m || negb (m_conn m) then mupd k MDone m else mbad m
      | _ => mbad m
      end
  end.

Definition mon_init (n : nat) : mon := mkMon (repeat MIdle n) false false false.
Definition mon_run (m : mon) (h : list event) : mon := fold_left mon_step h m.
Definition settled (st : mstat) : bool := match st with MIdle | MDone => true | _ => false end.
Definition mon_accept (m : mon) : bool := negb (m_bad m) && forallb settled (m_st m).

(* no violation so far (callers may still be waiting) *)
Definition check_prefix (n : nat) (h : list event) : bool := negb (m_bad (mon_run (mon_init n) h)).
(* the finished history of n calls is fine *)
Definition check_history (n : nat) (h : list event) : bool := mon_accept (mon_run (mon_init n) h).
