(* C14/ServerProofs.v — the server half never stays silent. *)
From Coq Require Import List Bool.
From C14 Require Import Model ServerModel.
Import ListNotations.

Definition sfl_ok (fl : sflags) : Prop := sf_wrap_generic fl = true /\ sf_wrap_keyerror fl = true.

Lemma server_one_completion : forall fl o, sfl_ok fl -> in_domain o = true ->
  length (exec_cmd fl o) = 1 /\ snd (run_command fl o) = 1 /\ listen_dispatch fl o <> RxNothing.
Proof.
  intros [g k] o [Hg Hk] Hd. cbn in Hg, Hk. subst g k.
  destruct o as [p| |[]]; try discriminate Hd; unfold listen_dispatch, run_command; cbn;
    try (destruct p); repeat split; try reflexivity; discriminate.
Qed.

Lemma map_closed_not_silent : forall (r : list outcome), existsb silent (map (fun _ => SvClosed) r) = false.
Proof. induction r; cbn; auto. Qed.

Theorem serve_answers_or_closes : forall fl os, sfl_ok fl -> forallb in_domain os = true ->
  existsb silent (serve fl os) = false.
Proof.
  intros fl os Hfl. induction os as [|o r IH]; intros Hd; cbn [serve]; [reflexivity|].
  cbn [forallb] in Hd. apply andb_true_iff in Hd. destruct Hd as [Ho Hr].
  destruct (server_one_completion fl o Hfl Ho) as [_ [_ Hn]].
  destruct (listen_dispatch fl o); cbn [existsb silent orb].
  - apply IH. exact Hr.
  - apply map_closed_not_silent.
  - contradiction.
Qed.

(* every request gets exactly one entry *)
Lemma serve_length : forall fl os, length (serve fl os) = length os.
Proof.
  intros fl. induction os as [|o r IH]; cbn [serve]; [reflexivity|].
  destruct (listen_dispatch fl o); cbn; rewrite ?map_length, ?IH; reflexivity.
Qed.

(* the raw-exception variant of the generic handler is refuted *)
Lemma raw_generic_handler_refuted :
  exists o, in_domain o = true /\ listen_dispatch (mkSFlags false true) o = RxNothing /\
            serve (mkSFlags false true) [o; OValue true] = [SvNothing; SvStuck].
Proof. exists (ORaise CStopIter). repeat split. Qed.

(* the boundary of the domain: an evaluation raising a BaseException that is not an Exception is never answered *)
Lemma base_exception_unanswered : forall fl, listen_dispatch fl (ORaise CBase) = RxNothing.
Proof. intros fl. reflexivity. Qed.

(* so the environment assumed by C14_all ("the server answers or cuts") is what the server half does *)
Theorem server_reaction_is_env_step : forall fl o k, sfl_ok fl -> in_domain o = true ->
  reaction_label k (listen_dispatch fl o) = Some (AResp k true) \/ reaction_label k (listen_dispatch fl o) = Some ACut.
Proof.
  intros fl o k Hfl Hd. destruct (server_one_completion fl o Hfl Hd) as [_ [_ Hn]].
  destruct (listen_dispatch fl o); cbn; auto. contradiction.
Qed.
