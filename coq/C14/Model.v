(* C14/Model.v — executable model of NetworkClient (klongpy/sys_fn_ipc.py) as a
   transition system with one step per ATOMIC action of the code, split by the
   thread it runs on.

   caller thread (NetworkClient.call / close):
     AInvoke k     close(): `if not self.running: return`;  call(): `if not self.is_open(): raise`
     ARegister k   msg_id = uuid4(); future = ioloop.create_future(); pending_responses[msg_id] = future
     ASchedule k   asyncio.run_coroutine_threadsafe(send_message_and_get_result(), ioloop)
     AComplete k   .result() returns / raises once the coroutine is finished
   io loop thread:
     ASend k       the coroutine: stream_send_msg(self.writer, ...) (AttributeError when writer is None), then `await future`
     AResp/APush/ACloseReq   one iteration of _listen on a complete frame (C13: frames arrive intact under any fragmentation)
     ACut/AReset   stream_recv_msg raises IncompleteReadError / ConnectionResetError -> KlongIPCConnectionFailureException
                   -> _run's handler and `finally` (writer := None, _cleanup_pending_responses, exit)
     AClean        one iteration of the `for future in self.pending_responses.values()` loop — only when the loop
                   iterates the live dict (flag from Generated.v); a registration from a caller thread in between
                   makes the next iteration raise RuntimeError, which escapes _run

   msg ids are call indices: uuid4() is assumed collision free.  No proofs in this file. *)
From Coq Require Import ZArith List Bool PeanoNat.
Import ListNotations.

Inductive exn := XNotEst | XAttr | XConnFail | XCloseConn | XCreateConn | XOther.   (* XOther: never produced by the model; lets observed histories with an unexpected exception class be checked *)
Inductive body := BVal (z : Z) | BClose.
Inductive fut := FUnres | FVal (b : body) | FExc (e : exn).
Inductive result := RVal (b : body) | RExc (e : exn) | RNoop.
Inductive pc := PIdle | PChecked | PRegd | PSched | PAwait | PDone (r : result).

Record call := mkCall { c_close : bool; c_pc : pc; c_fut : fut; c_sent : bool }.

Inductive lstate :=
| LInit                                   (* run_client() has scheduled _run; conn_provider.connect() has not returned yet *)
| LRun
| LErrWait (e : exn)                       (* _run's handler is awaiting on_error(self, e); nothing has been torn down yet *)
| LClean (e : exn) (i : nat) (dirty : bool)
| LCloseWait                               (* the finally has reset the writer and failed the pending futures and is awaiting on_close(self) *)
| LExit | LCrash.

Record state := mkState {
  calls : list call;        (* one entry per call the application makes *)
  pending : list nat;       (* keys of self.pending_responses in insertion order *)
  lst : lstate;             (* the _run task *)
  writer : bool;            (* self.writer is not None *)
  copen : bool;             (* conn_provider.is_open() *)
  running : bool            (* self.running *)
}.

Inductive event :=
| EConnected | ECall (k : nat) | ESent (k : nat) | EResp (k : nat) (b : body) | ELoss
| ERet (k : nat) (b : body) | ERaise (k : nat) (e : exn) | ENoop (k : nat).

Inductive label :=
| AInvoke (k : nat) | ARegister (k : nat) | ASchedule (k : nat) | ASend (k : nat) | AComplete (k : nat)
| AConnect (ok : bool)
| AResp (k : nat) (ok : bool) | APush (ok : bool) | ACloseReq | ACut | AReset | AClean
| AErrDone                 (* the awaited on_error callback returns: the finally starts *)
| ACloseDone.              (* the awaited on_close callback returns: _run exits *)

(* facts about the source that the model follows (regenerated from /repo) *)
Record flags := mkFlags {
  f_snapshot : bool;        (* _cleanup_pending_responses iterates a copy of the futures *)
  f_clear_writer : bool;    (* _run's finally sets self.writer = None BEFORE it fails the futures and awaits on_close *)
  f_clear_writer_late : bool (* self.writer = None (also) after `await on_close(self)` *)
}.

Fixpoint upd {A} (k : nat) (f : A -> A) (l : list A) : list A :=
  match l, k with
  | [], _ => []
  | x :: r, O => f x :: r
  | x :: r, S k' => x :: upd k' f r
  end.

Definition set_pc (p : pc) (c : call) : call := mkCall (c_close c) p (c_fut c) (c_sent c).
Definition set_fut (f : fut) (c : call) : call := mkCall (c_close c) (c_pc c) f (c_sent c).
Definition set_sent (c : call) : call := mkCall (c_close c) (c_pc c) (c_fut c) true.

Definition with_calls (s : state) (cs : list call) : state :=
  mkState cs (pending s) (lst s) (writer s) (copen s) (running s).
Definition with_pending (s : state) (p : list nat) : state :=
  mkState (calls s) p (lst s) (writer s) (copen s) (running s).
Definition with_lst (s : state) (l : lstate) : state :=
  mkState (calls s) (pending s) l (writer s) (copen s) (running s).
Definition with_running (s : state) (r : bool) : state :=
  mkState (calls s) (pending s) (lst s) (writer s) (copen s) r.
Definition with_copen (s : state) (o : bool) : state :=
  mkState (calls s) (pending s) (lst s) (writer s) o (running s).

Definition updc (s : state) (k : nat) (f : call -> call) : state := with_calls s (upd k f (calls s)).

Definition mem_nat (k : nat) (l : list nat) : bool := existsb (Nat.eqb k) l.
Definition remove_nat (k : nat) (l : list nat) : list nat := filter (fun j => negb (Nat.eqb j k)) l.

(* for future in pending.values(): future.set_exception(e) *)
Definition fail_all (e : exn) (pend : list nat) (cs : list call) : list call :=
  fold_left (fun cs k => upd k (set_fut (FExc e)) cs) pend cs.

Definition is_run (l : lstate) : bool := match l with LRun => true | _ => false end.

(* _run's finally up to `await on_close(self)`: self.writer = None; self.reader = None; _cleanup_pending_responses(e).
   The callbacks are awaited: while one is parked the io loop and the caller threads go on (a callback that does not yield
   is the case where AErrDone / ACloseDone follow at once). *)
Definition finally_top (fl : flags) (e : exn) (s : state) : state :=
  let w := if f_clear_writer fl then false else writer s in
  if f_snapshot fl
  then mkState (fail_all e (pending s) (calls s)) [] LCloseWait w (copen s) (running s)
  else mkState (calls s) (pending s) (LClean e 0 false) w (copen s) (running s).

(* _run's exception handlers: KlongIPCConnectionFailureException / KlongIPCCreateConnectionException and the generic
   handler await on_error first; KGRemoteCloseConnectionException goes straight to the finally *)
Definition teardown (fl : flags) (e : exn) (s : state) : state :=
  match e with
  | XCloseConn => finally_top fl e s
  | _ => with_lst s (LErrWait e)
  end.

Definition resp_body (k : nat) (c : call) : body := if c_close c then BClose else BVal (Z.of_nat k).

(* the `else` branch of _listen: run the message on the klong loop and send the result back;
   a raising evaluation escapes _listen and reaches _run's generic handler ("unknown error") *)
Definition dispatch_msg (fl : flags) (ok : bool) (s : state) : state * list event :=
  if ok then (s, []) else (teardown fl XConnFail s, [ELoss]).

Definition step (fl : flags) (s : state) (a : label) : option (state * list event) :=
  match a with
  | AInvoke k =>
      match nth_error (calls s) k with
      | Some c =>
          match c_pc c with
          | PIdle =>
              if c_close c && negb (running s)
              then Some (updc s k (set_pc (PDone RNoop)), [ECall k; ENoop k])
              else if copen s
              then Some (updc s k (set_pc PChecked), [ECall k])
              else Some (updc s k (set_pc (PDone (RExc XNotEst))), [ECall k; ERaise k XNotEst])
          | _ => None
          end
      | None => None
      end
  | ARegister k =>
      match nth_error (calls s) k with
      | Some c =>
          match c_pc c with
          | PChecked =>
              let s1 := updc s k (fun c => set_fut FUnres (set_pc PRegd c)) in
              let s2 := with_pending s1 (pending s ++ [k]) in
              let l := match lst s with LClean e i _ => LClean e i true | l => l end in
              Some (with_lst s2 l, [])
          | _ => None
          end
      | None => None
      end
  | ASchedule k =>
      match nth_error (calls s) k with
      | Some c => match c_pc c with PRegd => Some (updc s k (set_pc PSched), []) | _ => None end
      | None => None
      end
  | ASend k =>
      match nth_error (calls s) k with
      | Some c =>
          match c_pc c with
          | PSched =>
              if writer s
              then Some (updc s k (fun c => set_sent (set_pc PAwait c)), [ESent k])
              else Some (updc s k (set_pc (PDone (RExc XAttr))), [ERaise k XAttr])
          | _ => None
          end
      | None => None
      end
  | AComplete k =>
      match nth_error (calls s) k with
      | Some c =>
          match c_pc c, c_fut c with
          | PAwait, FVal b => Some (updc s k (set_pc (PDone (RVal b))), [ERet k b])
          | PAwait, FExc e => Some (updc s k (set_pc (PDone (RExc e))), [ERaise k e])
          | _, _ => None
          end
      | None => None
      end
  | AResp k ok =>
      match nth_error (calls s) k with
      | Some c =>
          if c_sent c && is_run (lst s) then
            let b := resp_body k c in
            if mem_nat k (pending s) then
              let s1 := with_pending (updc s k (set_fut (FVal b))) (remove_nat k (pending s)) in
              match b with
              | BClose => Some (teardown fl XCloseConn (with_running s1 false), [EResp k b; ELoss])
              | BVal _ => Some (s1, [EResp k b])
              end
            else
              match b with
              | BClose => Some (teardown fl XCloseConn (with_running s false), [EResp k b; ELoss])
              | BVal _ => let '(s', ev) := dispatch_msg fl ok s in Some (s', EResp k b :: ev)
              end
          else None
      | None => None
      end
  | AConnect ok =>
      (* _run: self.reader, self.writer = await self.conn_provider.connect()  -- or KlongIPCCreateConnectionException
         (HostPortConnectionProvider after max_retries; ReaderWriterConnectionProvider when the transport is already closing)
         -> handler (close_exception = e, on_error, break) + finally *)
      match lst s with
      | LInit =>
          if ok then Some (mkState (calls s) (pending s) LRun true true (running s), [EConnected])
          else Some (teardown fl XCreateConn (with_copen s false), [ELoss])
      | _ => None
      end
  | APush ok => if is_run (lst s) then Some (dispatch_msg fl ok s) else None
  | ACloseReq => if is_run (lst s) then Some (teardown fl XCloseConn (with_running s false), [ELoss]) else None
  | ACut => if is_run (lst s) then Some (teardown fl XConnFail s, [ELoss]) else None
  | AReset => if is_run (lst s) then Some (teardown fl XConnFail (with_copen s false), [ELoss]) else None
  | AErrDone => match lst s with LErrWait e => Some (finally_top fl e s, []) | _ => None end
  | ACloseDone =>
      match lst s with
      | LCloseWait => Some (mkState (calls s) (pending s) LExit (if f_clear_writer_late fl then false else writer s) (copen s) (running s), [])
      | _ => None
      end
  | AClean =>
      match lst s with
      | LClean e i dirty =>
          if dirty then Some (with_lst s LCrash, [])
          else match nth_error (pending s) i with
               | Some k => Some (with_lst (updc s k (set_fut (FExc e))) (LClean e (S i) false), [])
               | None => Some (with_lst (with_pending s []) LCloseWait, [])
               end
      | _ => None
      end
  end.

Fixpoint exec (fl : flags) (s : state) (tr : list label) : option (state * list event) :=
  match tr with
  | [] => Some (s, [])
  | a :: r =>
      match step fl s a with
      | None => None
      | Some (s1, e1) =>
          match exec fl s1 r with
          | None => None
          | Some (s2, e2) => Some (s2, e1 ++ e2)
          end
      end
  end.

Definition new_call (cl : bool) : call := mkCall cl PIdle FUnres false.

(* run_client() has been called (running = True, _run scheduled) but the connection is not established yet; the calls the
   application is going to make may start at any time, also before AConnect.  copen0 = conn_provider.is_open() before
   connect() returns: True for ReaderWriterConnectionProvider (it is handed an open writer), False for HostPortConnectionProvider *)
Definition init (copen0 : bool) (closers : list bool) : state :=
  mkState (map new_call closers) [] LInit false copen0 true.

(* nn ordinary calls followed by nc close() calls *)
Definition init_cfg (copen0 : bool) (nn nc : nat) : state := init copen0 (repeat false nn ++ repeat true nc).

(* internal (non-environment) actions of call k *)
Definition internal_enabled_call (fl : flags) (s : state) (k : nat) : bool :=
  match step fl s (AInvoke k), step fl s (ARegister k), step fl s (ASchedule k), step fl s (ASend k), step fl s (AComplete k) with
  | None, None, None, None, None => false
  | _, _, _, _, _ => true
  end.

Definition owed (s : state) : bool :=
  is_run (lst s) &&
  existsb (fun k => match nth_error (calls s) k with Some c => c_sent c | None => false end) (pending s).

(* nothing left to do for the client, and the server has answered (or cut) everything it was sent *)
Definition quiescent (fl : flags) (s : state) : bool :=
  match lst s with LInit | LErrWait _ | LCloseWait => false | _ => true end &&      (* connect() / an awaited callback returns *)
  negb (existsb (internal_enabled_call fl s) (seq 0 (length (calls s)))) &&
  match step fl s AClean with None => true | Some _ => false end &&
  negb (owed s).
