(* C14/Proofs.v — (1) soundness of the history checker; (2) invariants of the client for ANY number of calls
   (match / drain); (3) the live-dict cleanup loop refuted by a computed run. *)
From Coq Require Import ZArith List Bool PeanoNat Lia.
From C14 Require Import Model Spec.
Import ListNotations.

(* =========================================================================== (1) check_history is sound *)
Lemma nth_error_upd : forall A (f : A -> A) l k j,
  nth_error (upd k f l) j = if Nat.eqb k j then option_map f (nth_error l j) else nth_error l j.
Proof.
  intros A f. induction l as [|x r IH]; intros k j.
  - destruct k, j; cbn; try reflexivity. destruct (Nat.eqb k j); reflexivity.
  - destruct k as [|k], j as [|j]; cbn [upd nth_error Nat.eqb option_map]; try reflexivity. apply IH.
Qed.

Lemma upd_length : forall A (f : A -> A) l k, length (upd k f l) = length l.
Proof. intros A f. induction l as [|x r IH]; intros [|k]; cbn; try reflexivity. rewrite IH. reflexivity. Qed.

Lemma body_eqb_eq : forall a b, body_eqb a b = true -> a = b.
Proof. intros [x|] [y|] H; cbn in H; try discriminate; [apply Z.eqb_eq in H; subst|]; reflexivity. Qed.

Lemma mon_run_snoc : forall m p e, mon_run m (p ++ [e]) = mon_step (mon_run m p) e.
Proof. intros. unfold mon_run. rewrite fold_left_app. reflexivity. Qed.

Lemma mon_step_bad : forall m e, m_bad m = true -> m_bad (mon_step m e) = true.
Proof.
  intros m e H. destruct e as [|k|k|k b| |k b|k x|k]; cbn [mon_step]; try exact H;
    destruct (nth_error (m_st m) k) as [[| |b'|]|]; cbn; try exact H;
    try (destruct (body_eqb b b'); cbn; auto); try (destruct (m_lost m || negb (m_conn m)); cbn; auto).
Qed.

Definition nocomp (k : nat) (p : list event) : Prop := forall e, In e p -> completion_of k e = false.
Definition done_once (k : nat) (p : list event) : Prop :=
  exists p1 p2 e, p = p1 ++ e :: p2 /\ completion_of k e = true /\ In (ECall k) p1 /\
                  forall e', In e' (p1 ++ p2) -> completion_of k e' = false.

Definition kinv (p : list event) (st : option mstat) (k : nat) : Prop :=
  match st with
  | None | Some MIdle => ~ In (ECall k) p /\ nocomp k p
  | Some MCalled => In (ECall k) p /\ nocomp k p
  | Some (MAnswered b) => In (ECall k) p /\ nocomp k p /\ In (EResp k b) p
  | Some MDone => done_once k p
  end.

Record minv (p : list event) (m : mon) : Prop := {
  mi_lost : m_lost m = true -> In ELoss p;
  mi_conn : m_conn m = false -> ~ In EConnected p;
  mi_k : forall k, kinv p (nth_error (m_st m) k) k;
  mi_ret : forall h1 h2 k b, p = h1 ++ ERet k b :: h2 -> In (EResp k b) h1;
  mi_raise : forall h1 h2 k e, p = h1 ++ ERaise k e :: h2 -> In ELoss h1 \/ ~ In EConnected h1;
  mi_noop : forall h1 h2 k, p = h1 ++ ENoop k :: h2 -> In ELoss h1 \/ ~ In EConnected h1
}.

Lemma snoc_split : forall A (p : list A) e h1 x h2, p ++ [e] = h1 ++ x :: h2 ->
  (h2 = [] /\ h1 = p /\ x = e) \/ (exists h2', h2 = h2' ++ [e] /\ p = h1 ++ x :: h2').
Proof.
  intros A p e h1 x h2 H.
  destruct h2 as [|y h2] using rev_ind.
  - left. apply app_inj_tail in H. destruct H as [Hp He]. auto.
  - clear IHh2. right.
    replace (h1 ++ x :: h2 ++ [y]) with ((h1 ++ x :: h2) ++ [y]) in H by (rewrite <- app_assoc; reflexivity).
    apply app_inj_tail in H. destruct H as [Hp He]. subst y. exists h2. split; [reflexivity|exact Hp].
Qed.

Lemma nocomp_snoc : forall k p e, nocomp k p -> completion_of k e = false -> nocomp k (p ++ [e]).
Proof.
  intros k p e Hn He x Hx. apply in_app_or in Hx. destruct Hx as [Hx|[Hx|[]]]; [apply Hn; exact Hx|subst; exact He].
Qed.

Lemma done_once_snoc : forall k p e, done_once k p -> completion_of k e = false -> done_once k (p ++ [e]).
Proof.
  intros k p e [p1 [p2 [x [Hp [Hx [Hc Hn]]]]]] He.
  exists p1, (p2 ++ [e]), x. split; [subst p; rewrite <- app_assoc; reflexivity|].
  split; [exact Hx|]. split; [exact Hc|].
  intros e' Hin. rewrite app_assoc in Hin. apply in_app_or in Hin. destruct Hin as [Hin|[Hin|[]]]; [apply Hn; exact Hin|subst; exact He].
Qed.

(* an event that neither is ECall k / EResp k nor completes k leaves k's clause alone *)
Lemma kinv_snoc_other : forall p st k e, kinv p st k -> completion_of k e = false -> e <> ECall k ->
  kinv (p ++ [e]) st k.
Proof.
  intros p st k e H Hc Hne.
  assert (Hcall : ~ In (ECall k) p -> ~ In (ECall k) (p ++ [e])).
  { intros Hn Hin. apply in_app_or in Hin. destruct Hin as [Hin|[Hin|[]]]; [exact (Hn Hin)|exact (Hne Hin)]. }
  destruct st as [[| |b|]|]; cbn [kinv] in *.
  - destruct H as [H1 H2]. split; [apply Hcall; exact H1|apply nocomp_snoc; assumption].
  - destruct H as [H1 H2]. split; [apply in_or_app; left; exact H1|apply nocomp_snoc; assumption].
  - destruct H as [H1 [H2 H3]]. split; [apply in_or_app; left; exact H1|].
    split; [apply nocomp_snoc; assumption|apply in_or_app; left; exact H3].
  - apply done_once_snoc; assumption.
  - destruct H as [H1 H2]. split; [apply Hcall; exact H1|apply nocomp_snoc; assumption].
Qed.

Lemma completion_of_other : forall k j e, completion_of j e = true -> k <> j -> completion_of k e = false.
Proof.
  intros k j e H Hne. destruct e; cbn in *; try reflexivity;
    apply Nat.eqb_eq in H; subst; apply Nat.eqb_neq; auto.
Qed.

(* clauses about the whole history survive an event that is not itself a completion of the clause's kind *)
Lemma minv_globals_snoc : forall p m e,
  minv p m ->
  (forall k b, e = ERet k b -> In (EResp k b) p) ->
  (forall k x, e = ERaise k x -> In ELoss p \/ ~ In EConnected p) ->
  (forall k, e = ENoop k -> In ELoss p \/ ~ In EConnected p) ->
  (forall h1 h2 k b, p ++ [e] = h1 ++ ERet k b :: h2 -> In (EResp k b) h1) /\
  (forall h1 h2 k x, p ++ [e] = h1 ++ ERaise k x :: h2 -> In ELoss h1 \/ ~ In EConnected h1) /\
  (forall h1 h2 k, p ++ [e] = h1 ++ ENoop k :: h2 -> In ELoss h1 \/ ~ In EConnected h1).
Proof.
  intros p m e Hm H1 H2 H3. repeat split.
  - intros h1 h2 k b Heq. apply snoc_split in Heq. destruct Heq as [[_ [-> He]]|[h2' [_ Hp]]].
    + apply (H1 k b). symmetry. exact He.
    + exact (mi_ret p m Hm _ _ _ _ Hp).
  - intros h1 h2 k x Heq. apply snoc_split in Heq. destruct Heq as [[_ [-> He]]|[h2' [_ Hp]]].
    + apply (H2 k x). symmetry. exact He.
    + exact (mi_raise p m Hm _ _ _ _ Hp).
  - intros h1 h2 k Heq. apply snoc_split in Heq. destruct Heq as [[_ [-> He]]|[h2' [_ Hp]]].
    + apply (H3 k). symmetry. exact He.
    + exact (mi_noop p m Hm _ _ _ Hp).
Qed.

Lemma kinv_complete : forall p k e, In (ECall k) p -> nocomp k p -> completion_of k e = true ->
  done_once k (p ++ [e]).
Proof.
  intros p k e Hc Hn He. exists p, [], e. split; [reflexivity|]. split; [exact He|]. split; [exact Hc|].
  intros e' Hin. rewrite app_nil_r in Hin. apply Hn. exact Hin.
Qed.

Lemma minv_step : forall p m e, minv p m -> m_bad (mon_step m e) = false -> minv (p ++ [e]) (mon_step m e).
Proof.
  intros p m e Hm Hb.
  assert (Hlost_keep : forall m', m_lost m' = m_lost m -> m_lost m' = true -> In ELoss (p ++ [e])).
  { intros m' E H. rewrite E in H. apply in_or_app. left. exact (mi_lost p m Hm H). }
  assert (Hconn_keep : e <> EConnected -> forall m', m_conn m' = m_conn m -> m_conn m' = false -> ~ In EConnected (p ++ [e])).
  { intros Hne m' E H Hin. rewrite E in H. apply in_app_or in Hin. destruct Hin as [Hin|[Hin|[]]].
    - exact (mi_conn p m Hm H Hin).
    - exact (Hne Hin). }
  assert (Hjust : m_lost m || negb (m_conn m) = true -> In ELoss p \/ ~ In EConnected p).
  { intros H. apply orb_true_iff in H. destruct H as [H|H].
    - left. exact (mi_lost p m Hm H).
    - right. apply negb_true_iff in H. exact (mi_conn p m Hm H). }
  destruct e as [|j|j|j b| |j b|j x|j]; cbn [mon_step] in *.
  - (* EConnected *)
    destruct (minv_globals_snoc p m EConnected Hm) as [G1 [G2 G3]]; try (intros; discriminate).
    constructor; [apply Hlost_keep; reflexivity|cbn; discriminate| |exact G1|exact G2|exact G3].
    intros k. cbn [m_st]. apply kinv_snoc_other; [exact (mi_k p m Hm k)|reflexivity|discriminate].
  - (* ECall j *)
    destruct (nth_error (m_st m) j) as [[| |b'|]|] eqn:Hj; try (cbn in Hb; discriminate).
    destruct (minv_globals_snoc p m (ECall j) Hm) as [G1 [G2 G3]]; try (intros; discriminate).
    constructor; [apply Hlost_keep; reflexivity|apply Hconn_keep; [discriminate|reflexivity]| |exact G1|exact G2|exact G3].
    intros k. unfold mupd. cbn [m_st]. rewrite nth_error_upd.
    destruct (Nat.eqb j k) eqn:Ejk.
    + apply Nat.eqb_eq in Ejk. subst k. rewrite Hj. cbn [option_map kinv].
      pose proof (mi_k p m Hm j) as Hk. rewrite Hj in Hk. cbn [kinv] in Hk. destruct Hk as [_ Hn].
      split; [apply in_or_app; right; left; reflexivity|apply nocomp_snoc; [exact Hn|reflexivity]].
    + apply kinv_snoc_other; [exact (mi_k p m Hm k)|reflexivity|].
      intros E. inversion E. subst. rewrite Nat.eqb_refl in Ejk. discriminate.
  - (* ESent *)
    destruct (minv_globals_snoc p m (ESent j) Hm) as [G1 [G2 G3]]; try (intros; discriminate).
    constructor; [apply Hlost_keep; reflexivity|apply Hconn_keep; [discriminate|reflexivity]| |exact G1|exact G2|exact G3].
    intros k. apply kinv_snoc_other; [exact (mi_k p m Hm k)|reflexivity|discriminate].
  - (* EResp j b *)
    destruct (minv_globals_snoc p m (EResp j b) Hm) as [G1 [G2 G3]]; try (intros; discriminate).
    assert (Hother : forall k, kinv (p ++ [EResp j b]) (nth_error (m_st m) k) k).
    { intros k. apply kinv_snoc_other; [exact (mi_k p m Hm k)|reflexivity|discriminate]. }
    destruct (nth_error (m_st m) j) as [[| |b'|]|] eqn:Hj;
      try (constructor; [apply Hlost_keep; reflexivity|apply Hconn_keep; [discriminate|reflexivity]|exact Hother|exact G1|exact G2|exact G3]).
    constructor; [apply Hlost_keep; reflexivity|apply Hconn_keep; [discriminate|reflexivity]| |exact G1|exact G2|exact G3].
    intros k. unfold mupd. cbn [m_st]. rewrite nth_error_upd.
    destruct (Nat.eqb j k) eqn:Ejk; [|exact (Hother k)].
    apply Nat.eqb_eq in Ejk. subst k. rewrite Hj. cbn [option_map kinv].
    pose proof (Hother j) as Hk. rewrite Hj in Hk. cbn [kinv] in Hk. destruct Hk as [Hc Hn].
    split; [exact Hc|]. split; [exact Hn|]. apply in_or_app. right. left. reflexivity.
  - (* ELoss *)
    destruct (minv_globals_snoc p m ELoss Hm) as [G1 [G2 G3]]; try (intros; discriminate).
    constructor; [intros _; apply in_or_app; right; left; reflexivity|apply Hconn_keep; [discriminate|reflexivity]| |exact G1|exact G2|exact G3].
    intros k. cbn [m_st]. apply kinv_snoc_other; [exact (mi_k p m Hm k)|reflexivity|discriminate].
  - (* ERet j b *)
    destruct (nth_error (m_st m) j) as [[| |b'|]|] eqn:Hj; try (cbn in Hb; discriminate).
    destruct (body_eqb b b') eqn:Eb; [|cbn in Hb; discriminate].
    apply body_eqb_eq in Eb. subst b'.
    pose proof (mi_k p m Hm j) as Hk. rewrite Hj in Hk. cbn [kinv] in Hk. destruct Hk as [Hc [Hn Hr]].
    destruct (minv_globals_snoc p m (ERet j b) Hm) as [G1 [G2 G3]]; try (intros; discriminate).
    { intros k0 b0 E. inversion E; subst. exact Hr. }
    constructor; [apply Hlost_keep; reflexivity|apply Hconn_keep; [discriminate|reflexivity]| |exact G1|exact G2|exact G3].
    intros k. unfold mupd. cbn [m_st]. rewrite nth_error_upd.
    destruct (Nat.eqb j k) eqn:Ejk.
    + apply Nat.eqb_eq in Ejk. subst k. rewrite Hj. cbn [option_map kinv].
      apply kinv_complete; [exact Hc|exact Hn|cbn; apply Nat.eqb_refl].
    + apply kinv_snoc_other; [exact (mi_k p m Hm k)| |discriminate].
      cbn. apply Nat.eqb_neq. intros E. subst. rewrite Nat.eqb_refl in Ejk. discriminate.
  - (* ERaise j x *)
    destruct (nth_error (m_st m) j) as [[| |b'|]|] eqn:Hj; try (cbn in Hb; discriminate).
    destruct (m_lost m || negb (m_conn m)) eqn:El; [|cbn in Hb; discriminate].
    pose proof (Hjust eq_refl) as HL.
    pose proof (mi_k p m Hm j) as Hk. rewrite Hj in Hk. cbn [kinv] in Hk. destruct Hk as [Hc Hn].
    destruct (minv_globals_snoc p m (ERaise j x) Hm) as [G1 [G2 G3]]; try (intros; discriminate).
    { intros; exact HL. }
    constructor; [apply Hlost_keep; reflexivity|apply Hconn_keep; [discriminate|reflexivity]| |exact G1|exact G2|exact G3].
    intros k. unfold mupd. cbn [m_st]. rewrite nth_error_upd.
    destruct (Nat.eqb j k) eqn:Ejk.
    + apply Nat.eqb_eq in Ejk. subst k. rewrite Hj. cbn [option_map kinv].
      apply kinv_complete; [exact Hc|exact Hn|cbn; apply Nat.eqb_refl].
    + apply kinv_snoc_other; [exact (mi_k p m Hm k)| |discriminate].
      cbn. apply Nat.eqb_neq. intros E. subst. rewrite Nat.eqb_refl in Ejk. discriminate.
  - (* ENoop j *)
    destruct (nth_error (m_st m) j) as [[| |b'|]|] eqn:Hj; try (cbn in Hb; discriminate).
    destruct (m_lost m || negb (m_conn m)) eqn:El; [|cbn in Hb; discriminate].
    pose proof (Hjust eq_refl) as HL.
    pose proof (mi_k p m Hm j) as Hk. rewrite Hj in Hk. cbn [kinv] in Hk. destruct Hk as [Hc Hn].
    destruct (minv_globals_snoc p m (ENoop j) Hm) as [G1 [G2 G3]]; try (intros; discriminate).
    { intros; exact HL. }
    constructor; [apply Hlost_keep; reflexivity|apply Hconn_keep; [discriminate|reflexivity]| |exact G1|exact G2|exact G3].
    intros k. unfold mupd. cbn [m_st]. rewrite nth_error_upd.
    destruct (Nat.eqb j k) eqn:Ejk.
    + apply Nat.eqb_eq in Ejk. subst k. rewrite Hj. cbn [option_map kinv].
      apply kinv_complete; [exact Hc|exact Hn|cbn; apply Nat.eqb_refl].
    + apply kinv_snoc_other; [exact (mi_k p m Hm k)| |discriminate].
      cbn. apply Nat.eqb_neq. intros E. subst. rewrite Nat.eqb_refl in Ejk. discriminate.
Qed.

Lemma minv_init : forall n, minv [] (mon_init n).
Proof.
  intros n. constructor.
  - cbn. discriminate.
  - intros _ [].
  - intros k. unfold mon_init. cbn [m_st].
    destruct (nth_error (repeat MIdle n) k) as [x|] eqn:E.
    + apply nth_error_In in E. apply repeat_spec in E. subst x. cbn. split; [tauto|intros e []].
    + cbn. split; [tauto|intros e []].
  - intros h1 h2 k b H. destruct h1; discriminate.
  - intros h1 h2 k e H. destruct h1; discriminate.
  - intros h1 h2 k H. destruct h1; discriminate.
Qed.

Lemma minv_run : forall n h, m_bad (mon_run (mon_init n) h) = false -> minv h (mon_run (mon_init n) h).
Proof.
  intros n h. induction h as [|e p IH] using rev_ind; intros Hb.
  - apply minv_init.
  - rewrite mon_run_snoc in *. apply minv_step; [|exact Hb].
    apply IH. destruct (m_bad (mon_run (mon_init n) p)) eqn:E; [|reflexivity].
    rewrite (mon_step_bad _ e E) in Hb. discriminate.
Qed.

Theorem check_history_sound : forall n h, check_history n h = true -> hist_ok h.
Proof.
  intros n h H. unfold check_history, mon_accept in H. apply andb_true_iff in H. destruct H as [Hb Hs].
  apply negb_true_iff in Hb. pose proof (minv_run n h Hb) as Hm.
  unfold hist_ok. split; [|split; [exact (mi_ret _ _ Hm)|split; [exact (mi_raise _ _ Hm)|exact (mi_noop _ _ Hm)]]].
  intros k Hc. pose proof (mi_k _ _ Hm k) as Hk.
  rewrite forallb_forall in Hs.
  destruct (nth_error (m_st (mon_run (mon_init n) h)) k) as [st|] eqn:E.
  - pose proof (Hs _ (nth_error_In _ _ E)) as Hst.
    destruct st; cbn in Hst; try discriminate; cbn [kinv] in Hk.
    + destruct Hk as [Hk _]. contradiction.
    + exact Hk.
  - cbn [kinv] in Hk. destruct Hk as [Hk _]. contradiction.
Qed.

(* =========================================================================== (2) invariants, any number of calls *)
Definition fl_ok (fl : flags) : Prop := f_snapshot fl = true /\ f_clear_writer fl = true.

Inductive reach (fl : flags) (s0 : state) : state -> Prop :=
| reach_init : reach fl s0 s0
| reach_step : forall s a s' ev, reach fl s0 s -> step fl s a = Some (s', ev) -> reach fl s0 s'.

Definition pend_ok (c : call) : Prop :=
  c_fut c = FUnres /\ (c_pc c = PRegd \/ c_pc c = PSched \/ c_pc c = PAwait \/ c_pc c = PDone (RExc XAttr)).

Definition ph_ok (l : lstate) : bool := match l with LClean _ _ _ | LCrash => false | _ => true end.
(* the listener task has not torn anything down yet: registrations stay in pending_responses *)
Definition ph_live (l : lstate) : bool := match l with LRun | LInit | LErrWait _ => true | _ => false end.
(* self.writer may still be set *)
Definition ph_up (l : lstate) : bool := match l with LRun | LErrWait _ => true | _ => false end.

Record inv (s : state) : Prop := {
  i_nodup : NoDup (pending s);
  i_pend : forall k, In k (pending s) -> exists c, nth_error (calls s) k = Some c /\ pend_ok c;
  i_lst : ph_ok (lst s) = true;
  i_writer : (lst s = LRun -> writer s = true) /\ (ph_up (lst s) = false -> writer s = false);
  i_reg : forall k c, nth_error (calls s) k = Some c -> (c_pc c = PRegd \/ c_pc c = PSched \/ c_pc c = PAwait) ->
                      c_fut c = FUnres -> ph_live (lst s) = true -> In k (pending s);
  i_await : forall k c, nth_error (calls s) k = Some c -> c_pc c = PAwait -> c_fut c = FUnres -> ph_up (lst s) = true
}.

Lemma set_fut_idem : forall f c, set_fut f (set_fut f c) = set_fut f c.
Proof. intros f [a b c d]. reflexivity. Qed.

Lemma mem_nat_In : forall k l, mem_nat k l = true <-> In k l.
Proof.
  intros k l. unfold mem_nat. rewrite existsb_exists. split.
  - intros [x [Hx E]]. apply Nat.eqb_eq in E. subst. exact Hx.
  - intros H. exists k. split; [exact H|apply Nat.eqb_refl].
Qed.

Lemma fail_all_nth : forall e pend cs j,
  nth_error (fail_all e pend cs) j =
  match nth_error cs j with
  | Some c => Some (if mem_nat j pend then set_fut (FExc e) c else c)
  | None => None
  end.
Proof.
  intros e. induction pend as [|k r IH]; intros cs j.
  - cbn. destruct (nth_error cs j); reflexivity.
  - unfold fail_all. cbn [fold_left]. fold (fail_all e r (upd k (set_fut (FExc e)) cs)).
    rewrite IH. rewrite nth_error_upd. unfold mem_nat. cbn [existsb].
    fold (mem_nat j r). rewrite (Nat.eqb_sym j k).
    destruct (Nat.eqb k j); destruct (nth_error cs j) as [c|]; cbn [option_map orb]; try reflexivity.
    destruct (mem_nat j r); [rewrite set_fut_idem|]; reflexivity.
Qed.

Lemma remove_nat_In : forall j k l, In j (remove_nat k l) <-> In j l /\ j <> k.
Proof.
  intros j k l. unfold remove_nat. rewrite filter_In. split; intros [H1 H2]; split; try exact H1.
  - apply negb_true_iff in H2. apply Nat.eqb_neq in H2. exact H2.
  - apply negb_true_iff. apply Nat.eqb_neq. exact H2.
Qed.

Lemma NoDup_snoc : forall (l : list nat) k, NoDup l -> ~ In k l -> NoDup (l ++ [k]).
Proof.
  induction l as [|x r IH]; intros k Hnd Hni; cbn.
  - constructor; [intros []|constructor].
  - inversion Hnd; subst. constructor.
    + intros Hin. apply in_app_or in Hin. destruct Hin as [Hin|[Hin|[]]]; [contradiction|].
      subst. apply Hni. left. reflexivity.
    + apply IH; [assumption|]. intros Hin. apply Hni. right. exact Hin.
Qed.

Lemma inv_init : forall c0 closers, inv (init c0 closers).
Proof.
  intros c0 closers. constructor; cbn.
  - constructor.
  - intros k [].
  - reflexivity.
  - split; [discriminate|reflexivity].
  - intros k c Hn Hp. rewrite nth_error_map in Hn. destruct (nth_error closers k); [|discriminate].
    inversion Hn; subst. cbn in Hp. destruct Hp as [Hp|[Hp|Hp]]; discriminate.
  - intros k c Hn Hp. rewrite nth_error_map in Hn. destruct (nth_error closers k); [|discriminate].
    inversion Hn; subst. discriminate.
Qed.

(* a step that only rewrites call k *)
Lemma inv_updc : forall s k c f, inv s -> nth_error (calls s) k = Some c ->
  (In k (pending s) -> pend_ok (f c)) ->
  ((c_pc (f c) = PRegd \/ c_pc (f c) = PSched \/ c_pc (f c) = PAwait) -> c_fut (f c) = FUnres -> ph_live (lst s) = true -> In k (pending s)) ->
  (c_pc (f c) = PAwait -> c_fut (f c) = FUnres -> ph_up (lst s) = true) ->
  inv (updc s k f).
Proof.
  intros s k c f Hi Hn Ha Hb Hc. constructor; unfold updc, with_calls; cbn [calls pending lst writer].
  - exact (i_nodup s Hi).
  - intros j Hj. rewrite nth_error_upd. destruct (Nat.eqb k j) eqn:E.
    + apply Nat.eqb_eq in E. subst j. rewrite Hn. cbn. eexists. split; [reflexivity|]. exact (Ha Hj).
    + exact (i_pend s Hi j Hj).
  - exact (i_lst s Hi).
  - exact (i_writer s Hi).
  - intros j c' Hj. rewrite nth_error_upd in Hj. destruct (Nat.eqb k j) eqn:E.
    + apply Nat.eqb_eq in E. subst j. rewrite Hn in Hj. cbn in Hj. inversion Hj; subst. exact Hb.
    + exact (i_reg s Hi j c' Hj).
  - intros j c' Hj. rewrite nth_error_upd in Hj. destruct (Nat.eqb k j) eqn:E.
    + apply Nat.eqb_eq in E. subst j. rewrite Hn in Hj. cbn in Hj. inversion Hj; subst. exact Hc.
    + exact (i_await s Hi j c' Hj).
Qed.

(* the finally up to `await on_close` *)
Lemma inv_finally_top : forall fl e s, fl_ok fl ->
  (forall j c, nth_error (calls s) j = Some c -> c_pc c = PAwait -> c_fut c = FUnres -> In j (pending s)) ->
  inv (finally_top fl e s).
Proof.
  intros fl e s [Hs Hw] Hp. unfold finally_top. rewrite Hs, Hw. constructor; cbn [calls pending lst writer].
  - constructor.
  - intros k [].
  - reflexivity.
  - split; [discriminate|reflexivity].
  - intros k c _ _ _ H. discriminate.
  - intros k c Hn Hpc Hf. exfalso. rewrite fail_all_nth in Hn.
    destruct (nth_error (calls s) k) as [c0|] eqn:E; [|discriminate]. inversion Hn; subst c. clear Hn.
    destruct (mem_nat k (pending s)) eqn:Em.
    + cbn in Hf. discriminate.
    + assert (In k (pending s)) as Hin by (apply (Hp k c0 E Hpc Hf)).
      apply mem_nat_In in Hin. rewrite Hin in Em. discriminate.
Qed.

Lemma inv_await_pending : forall s, inv s -> ph_live (lst s) = true ->
  forall j c, nth_error (calls s) j = Some c -> c_pc c = PAwait -> c_fut c = FUnres -> In j (pending s).
Proof. intros s Hi Hl j c Hn Hp Hf. apply (i_reg s Hi j c Hn); auto. Qed.

(* changes of running / is_open only *)
Lemma inv_same : forall s s', inv s -> calls s' = calls s -> pending s' = pending s -> lst s' = lst s -> writer s' = writer s -> inv s'.
Proof.
  intros s s' Hi Ec Ep El Ew. constructor; rewrite ?Ec, ?Ep, ?El, ?Ew.
  - exact (i_nodup s Hi). - exact (i_pend s Hi). - exact (i_lst s Hi). - exact (i_writer s Hi).
  - exact (i_reg s Hi). - exact (i_await s Hi).
Qed.

(* the handler starts awaiting on_error: nothing is torn down yet *)
Lemma inv_errwait : forall s e, inv s -> ph_live (lst s) = true -> inv (with_lst s (LErrWait e)).
Proof.
  intros s e Hi Hl. constructor; unfold with_lst; cbn [calls pending lst writer].
  - exact (i_nodup s Hi).
  - exact (i_pend s Hi).
  - reflexivity.
  - split; [discriminate|cbn; discriminate].
  - intros k c Hn Hp Hf _. exact (i_reg s Hi k c Hn Hp Hf Hl).
  - intros; reflexivity.
Qed.

Lemma inv_teardown : forall fl e s, fl_ok fl -> inv s -> ph_live (lst s) = true -> inv (teardown fl e s).
Proof.
  intros fl e s Hfl Hi Hl. unfold teardown.
  destruct e; try (apply inv_errwait; assumption).
  apply inv_finally_top; [exact Hfl|exact (inv_await_pending s Hi Hl)].
Qed.

Lemma is_run_true : forall l, is_run l = true -> l = LRun.
Proof. intros []; cbn; intros; try discriminate; reflexivity. Qed.

Lemma pend_not : forall s k c, inv s -> nth_error (calls s) k = Some c ->
  ~ (c_pc c = PRegd \/ c_pc c = PSched \/ c_pc c = PAwait \/ c_pc c = PDone (RExc XAttr)) -> ~ In k (pending s).
Proof.
  intros s k c Hi Hn Hnot Hin. destruct (i_pend s Hi k Hin) as [c' [Hn' [_ Hpc]]].
  rewrite Hn in Hn'. inversion Hn'; subst. exact (Hnot Hpc).
Qed.

Lemma pend_fut : forall s k c, inv s -> nth_error (calls s) k = Some c -> In k (pending s) -> c_fut c = FUnres.
Proof.
  intros s k c Hi Hn Hin. destruct (i_pend s Hi k Hin) as [c' [Hn' [Hf _]]].
  rewrite Hn in Hn'. inversion Hn'; subst. exact Hf.
Qed.

Ltac pcs := repeat match goal with
  | H : _ \/ _ |- _ => destruct H
  | H : PIdle = _ |- _ => discriminate H | H : PChecked = _ |- _ => discriminate H | H : PRegd = _ |- _ => discriminate H
  | H : PSched = _ |- _ => discriminate H | H : PAwait = _ |- _ => discriminate H | H : PDone _ = _ |- _ => discriminate H
  end.

Lemma ph_up_live : forall l, ph_up l = true -> ph_live l = true.
Proof. intros []; cbn; intros; try discriminate; reflexivity. Qed.

Lemma inv_step : forall fl s a s' ev, fl_ok fl -> inv s -> step fl s a = Some (s', ev) -> inv s'.
Proof.
  intros fl s a s' ev Hfl Hi Hs.
  destruct a as [k|k|k|k|k|ok|k ok|ok| | | | | |]; cbn [step] in Hs.
  - (* AInvoke *)
    destruct (nth_error (calls s) k) as [c|] eqn:Hn; [|discriminate].
    destruct (c_pc c) eqn:Hpc; try discriminate.
    assert (Hnp : ~ In k (pending s)).
    { apply (pend_not s k c Hi Hn). rewrite Hpc. intros H. pcs. }
    destruct (c_close c && negb (running s)); [|destruct (copen s)]; inversion Hs; subst;
      (apply (inv_updc s k c _ Hi Hn); [intros H; contradiction|cbn; intros H; pcs|cbn; intros H; pcs]).
  - (* ARegister *)
    destruct (nth_error (calls s) k) as [c|] eqn:Hn; [|discriminate].
    destruct (c_pc c) eqn:Hpc; try discriminate.
    assert (Hnp : ~ In k (pending s)).
    { apply (pend_not s k c Hi Hn). rewrite Hpc. intros H. pcs. }
    assert (Hl : match lst s with LClean e i _ => LClean e i true | l => l end = lst s).
    { pose proof (i_lst s Hi) as E. destruct (lst s); cbn in E; try discriminate; reflexivity. }
    rewrite Hl in Hs. inversion Hs; subst. clear Hs.
    constructor; unfold with_lst, with_pending, updc, with_calls; cbn [calls pending lst writer].
    + apply NoDup_snoc; [exact (i_nodup s Hi)|exact Hnp].
    + intros j Hj. rewrite nth_error_upd. apply in_app_or in Hj. destruct (Nat.eqb k j) eqn:E.
      * apply Nat.eqb_eq in E. subst j. rewrite Hn. cbn. eexists. split; [reflexivity|].
        split; [reflexivity|left; reflexivity].
      * destruct Hj as [Hj|[Hj|[]]]; [exact (i_pend s Hi j Hj)|]. subst. rewrite Nat.eqb_refl in E. discriminate.
    + exact (i_lst s Hi).
    + exact (i_writer s Hi).
    + intros j c' Hj Hp Hf Hr. rewrite nth_error_upd in Hj. apply in_or_app. destruct (Nat.eqb k j) eqn:E.
      * apply Nat.eqb_eq in E. subst j. right. left. reflexivity.
      * left. exact (i_reg s Hi j c' Hj Hp Hf Hr).
    + intros j c' Hj Hp Hf. rewrite nth_error_upd in Hj. destruct (Nat.eqb k j) eqn:E.
      * apply Nat.eqb_eq in E. subst j. rewrite Hn in Hj. cbn in Hj. inversion Hj; subst. cbn in Hp. discriminate.
      * exact (i_await s Hi j c' Hj Hp Hf).
  - (* ASchedule *)
    destruct (nth_error (calls s) k) as [c|] eqn:Hn; [|discriminate].
    destruct (c_pc c) eqn:Hpc; try discriminate. inversion Hs; subst. clear Hs.
    apply (inv_updc s k c _ Hi Hn).
    + intros Hin. split; [exact (pend_fut s k c Hi Hn Hin)|right; left; reflexivity].
    + cbn. intros _ Hf Hr. apply (i_reg s Hi k c Hn); [left; exact Hpc|exact Hf|exact Hr].
    + cbn. intros H; discriminate.
  - (* ASend *)
    destruct (nth_error (calls s) k) as [c|] eqn:Hn; [|discriminate].
    destruct (c_pc c) eqn:Hpc; try discriminate.
    destruct (writer s) eqn:Hw; inversion Hs; subst; clear Hs.
    + assert (Hr : ph_up (lst s) = true).
      { destruct (ph_up (lst s)) eqn:E; [reflexivity|]. rewrite (proj2 (i_writer s Hi) E) in Hw. discriminate. }
      apply (inv_updc s k c _ Hi Hn).
      * intros Hin. split; [exact (pend_fut s k c Hi Hn Hin)|right; right; left; reflexivity].
      * cbn. intros _ Hf _. apply (i_reg s Hi k c Hn); [right; left; exact Hpc|exact Hf|exact (ph_up_live _ Hr)].
      * intros _ _. exact Hr.
    + apply (inv_updc s k c _ Hi Hn).
      * intros Hin. split; [exact (pend_fut s k c Hi Hn Hin)|right; right; right; reflexivity].
      * cbn. intros H; pcs.
      * cbn. intros H; discriminate.
  - (* AComplete *)
    destruct (nth_error (calls s) k) as [c|] eqn:Hn; [|discriminate].
    destruct (c_pc c) eqn:Hpc; try discriminate.
    destruct (c_fut c) eqn:Hf; try discriminate; inversion Hs; subst; clear Hs;
      (apply (inv_updc s k c _ Hi Hn);
       [intros Hin; pose proof (pend_fut s k c Hi Hn Hin) as E; rewrite Hf in E; discriminate
       |cbn; intros H; pcs|cbn; intros H; discriminate]).
  - (* AConnect *)
    destruct (lst s) eqn:Hl; try discriminate. destruct ok; inversion Hs; subst; clear Hs.
    + constructor; cbn [calls pending lst writer].
      * exact (i_nodup s Hi).
      * exact (i_pend s Hi).
      * reflexivity.
      * split; [reflexivity|cbn; discriminate].
      * intros k c Hn Hp Hf _. apply (i_reg s Hi k c Hn Hp Hf). rewrite Hl. reflexivity.
      * intros; reflexivity.
    + assert (Hi' : inv (with_copen s false)) by (apply (inv_same s); [exact Hi|reflexivity|reflexivity|reflexivity|reflexivity]).
      first [apply inv_errwait; [exact Hi'|cbn [lst with_copen]; rewrite Hl; reflexivity]
            |apply inv_teardown; [exact Hfl|exact Hi'|cbn [lst with_copen]; rewrite Hl; reflexivity]].
  - (* AResp *)
    destruct (nth_error (calls s) k) as [c|] eqn:Hn; [|discriminate].
    destruct (c_sent c && is_run (lst s)) eqn:Hg; [|discriminate].
    apply andb_true_iff in Hg. destruct Hg as [_ Hr]. apply is_run_true in Hr.
    assert (Hlive : ph_live (lst s) = true) by (rewrite Hr; reflexivity).
    pose proof (inv_await_pending s Hi Hlive) as Hap.
    destruct (mem_nat k (pending s)) eqn:Em.
    + (* matched: pop + set_result *)
      set (s1 := with_pending (updc s k (set_fut (FVal (resp_body k c)))) (remove_nat k (pending s))) in *.
      assert (Hap1 : forall j c', nth_error (calls s1) j = Some c' -> c_pc c' = PAwait -> c_fut c' = FUnres -> In j (pending s1)).
      { intros j c' Hj Hp Hf. unfold s1, with_pending, updc, with_calls in *. cbn [calls pending] in *.
        rewrite nth_error_upd in Hj. destruct (Nat.eqb k j) eqn:E.
        - apply Nat.eqb_eq in E. subst j. rewrite Hn in Hj. cbn in Hj. inversion Hj; subst. cbn in Hf. discriminate.
        - apply remove_nat_In. split; [exact (Hap j c' Hj Hp Hf)|].
          intros E'. subst. rewrite Nat.eqb_refl in E. discriminate. }
      destruct (resp_body k c) eqn:Eb.
      * inversion Hs; subst; clear Hs.
        constructor; unfold s1, with_pending, updc, with_calls; cbn [calls pending lst writer].
        -- apply NoDup_filter. exact (i_nodup s Hi).
        -- intros j Hj. apply remove_nat_In in Hj. destruct Hj as [Hj Hne]. rewrite nth_error_upd.
           destruct (Nat.eqb k j) eqn:E; [apply Nat.eqb_eq in E; subst; contradiction|]. exact (i_pend s Hi j Hj).
        -- exact (i_lst s Hi).
        -- exact (i_writer s Hi).
        -- intros j c' Hj Hp Hf Hr'. rewrite nth_error_upd in Hj. destruct (Nat.eqb k j) eqn:E.
           ++ apply Nat.eqb_eq in E. subst j. rewrite Hn in Hj. cbn in Hj. inversion Hj; subst. cbn in Hf. discriminate.
           ++ apply remove_nat_In. split; [exact (i_reg s Hi j c' Hj Hp Hf Hr')|].
              intros E'. subst. rewrite Nat.eqb_refl in E. discriminate.
        -- intros j c' Hj Hp Hf. rewrite nth_error_upd in Hj. destruct (Nat.eqb k j) eqn:E.
           ++ apply Nat.eqb_eq in E. subst j. rewrite Hn in Hj. cbn in Hj. inversion Hj; subst. cbn in Hf. discriminate.
           ++ exact (i_await s Hi j c' Hj Hp Hf).
      * inversion Hs; subst; clear Hs. cbn [teardown]. apply inv_finally_top; [exact Hfl|]. exact Hap1.
    + destruct (resp_body k c) eqn:Eb.
      * unfold dispatch_msg in Hs. destruct ok; inversion Hs; subst; clear Hs; [exact Hi|].
        first [apply inv_errwait; [exact Hi|exact Hlive]|apply inv_teardown; [exact Hfl|exact Hi|exact Hlive]].
      * inversion Hs; subst; clear Hs. cbn [teardown]. apply inv_finally_top; [exact Hfl|exact Hap].
  - (* APush *)
    destruct (is_run (lst s)) eqn:Hr; [|discriminate]. apply is_run_true in Hr.
    unfold dispatch_msg in Hs. destruct ok; inversion Hs; subst; clear Hs; [exact Hi|].
    first [apply inv_errwait; [exact Hi|rewrite Hr; reflexivity]|apply inv_teardown; [exact Hfl|exact Hi|rewrite Hr; reflexivity]].
  - (* ACloseReq *)
    destruct (is_run (lst s)) eqn:Hr; [|discriminate]. apply is_run_true in Hr.
    inversion Hs; subst; clear Hs. cbn [teardown]. apply inv_finally_top; [exact Hfl|].
    apply (inv_await_pending s Hi). rewrite Hr. reflexivity.
  - (* ACut *)
    destruct (is_run (lst s)) eqn:Hr; [|discriminate]. apply is_run_true in Hr.
    inversion Hs; subst; clear Hs.
    first [apply inv_errwait; [exact Hi|rewrite Hr; reflexivity]|apply inv_teardown; [exact Hfl|exact Hi|rewrite Hr; reflexivity]].
  - (* AReset *)
    destruct (is_run (lst s)) eqn:Hr; [|discriminate]. apply is_run_true in Hr.
    inversion Hs; subst; clear Hs.
    assert (Hi' : inv (with_copen s false)) by (apply (inv_same s); [exact Hi|reflexivity|reflexivity|reflexivity|reflexivity]).
    first [apply inv_errwait; [exact Hi'|cbn [lst with_copen]; rewrite Hr; reflexivity]
          |apply inv_teardown; [exact Hfl|exact Hi'|cbn [lst with_copen]; rewrite Hr; reflexivity]].
  - (* AClean: the loop does not exist when a copy is iterated *)
    pose proof (i_lst s Hi) as E. destruct (lst s); cbn in E; discriminate.
  - (* AErrDone *)
    destruct (lst s) eqn:Hl; try discriminate. inversion Hs; subst; clear Hs.
    apply inv_finally_top; [exact Hfl|]. apply (inv_await_pending s Hi). rewrite Hl. reflexivity.
  - (* ACloseDone *)
    destruct (lst s) eqn:Hl; try discriminate. inversion Hs; subst; clear Hs.
    assert (Hw : writer s = false) by (apply (proj2 (i_writer s Hi)); rewrite Hl; reflexivity).
    constructor; cbn [calls pending lst writer].
    + exact (i_nodup s Hi).
    + exact (i_pend s Hi).
    + reflexivity.
    + split; [discriminate|]. intros _. rewrite Hw. destruct (f_clear_writer_late fl); reflexivity.
    + intros k c _ _ _ H. discriminate.
    + intros k c Hn Hp Hf. pose proof (i_await s Hi k c Hn Hp Hf) as E. rewrite Hl in E. discriminate.
Qed.

Lemma inv_reach : forall fl c0 closers s, fl_ok fl -> reach fl (init c0 closers) s -> inv s.
Proof.
  intros fl c0 closers s Hfl Hr. induction Hr as [|s a s' ev Hr IH Hs].
  - apply inv_init.
  - exact (inv_step fl s a s' ev Hfl IH Hs).
Qed.

(* T14.match: every key of pending_responses is unique and its future unresolved *)
Theorem match_invariant : forall fl c0 closers s, fl_ok fl -> reach fl (init c0 closers) s ->
  NoDup (pending s) /\
  forall k, In k (pending s) -> exists c, nth_error (calls s) k = Some c /\ c_fut c = FUnres.
Proof.
  intros fl c0 closers s Hfl Hr. pose proof (inv_reach fl c0 closers s Hfl Hr) as Hi.
  split; [exact (i_nodup s Hi)|].
  intros k Hk. destruct (i_pend s Hi k Hk) as [c [Hn [Hf _]]]. exists c. auto.
Qed.

(* ... and a future only ever receives a value from the response frame carrying its own id, while registered *)
Lemma fail_all_fut : forall e pend cs k c c' b, nth_error cs k = Some c -> nth_error (fail_all e pend cs) k = Some c' ->
  c_fut c' = FVal b -> c_fut c = FVal b.
Proof.
  intros e pend cs k c c' b Hn Hn' Hf. rewrite fail_all_nth, Hn in Hn'. inversion Hn'; subst. clear Hn'.
  destruct (mem_nat k pend); [cbn in Hf; discriminate|exact Hf].
Qed.

Lemma finally_top_fut : forall fl e s k c c' b, nth_error (calls s) k = Some c ->
  nth_error (calls (finally_top fl e s)) k = Some c' -> c_fut c' = FVal b -> c_fut c = FVal b.
Proof.
  intros fl e s k c c' b Hn Hn' Hf. unfold finally_top in Hn'. destruct (f_snapshot fl); cbn [calls] in Hn'.
  - exact (fail_all_fut e (pending s) (calls s) k c c' b Hn Hn' Hf).
  - rewrite Hn in Hn'. inversion Hn'; subst. exact Hf.
Qed.

Lemma teardown_fut : forall fl e s k c c' b, nth_error (calls s) k = Some c ->
  nth_error (calls (teardown fl e s)) k = Some c' -> c_fut c' = FVal b -> c_fut c = FVal b.
Proof.
  intros fl e s k c c' b Hn Hn' Hf. unfold teardown in Hn'.
  destruct e; try (cbn [calls with_lst] in Hn'; rewrite Hn in Hn'; inversion Hn'; subst; exact Hf).
  exact (finally_top_fut fl _ s k c c' b Hn Hn' Hf).
Qed.

Lemma updc_fut_same : forall s j f k c c', (forall x, c_fut (f x) = c_fut x) ->
  nth_error (calls s) k = Some c -> nth_error (calls (updc s j f)) k = Some c' -> c_fut c' = c_fut c.
Proof.
  intros s j f k c c' Hf Hn Hn'. unfold updc, with_calls in Hn'. cbn [calls] in Hn'. rewrite nth_error_upd, Hn in Hn'.
  destruct (Nat.eqb j k); cbn in Hn'; inversion Hn'; subst; [apply Hf|reflexivity].
Qed.

Lemma upd_nth_some : forall A (f : A -> A) cs j k c c', nth_error cs k = Some c -> nth_error (upd j f cs) k = Some c' ->
  c' = if Nat.eqb j k then f c else c.
Proof. intros A f cs j k c c' Hn Hn'. rewrite nth_error_upd, Hn in Hn'. destruct (Nat.eqb j k); cbn in Hn'; inversion Hn'; reflexivity. Qed.

Theorem response_resolves_own : forall fl s a s' ev k c c' b,
  step fl s a = Some (s', ev) ->
  nth_error (calls s) k = Some c -> nth_error (calls s') k = Some c' ->
  c_fut c' = FVal b -> c_fut c <> FVal b ->
  exists ok, a = AResp k ok /\ In k (pending s) /\ b = resp_body k c.
Proof.
  intros fl s a s' ev k c c' b Hs Hn Hn' Hf Hne.
  assert (Hsame : forall j f, (forall x, c_fut (f x) = c_fut x \/ c_fut (f x) = FUnres \/ exists e, c_fut (f x) = FExc e) ->
                   nth_error (upd j f (calls s)) k = Some c' -> False).
  { intros j f Hfx Hu. pose proof (upd_nth_some _ f (calls s) j k c c' Hn Hu) as E.
    destruct (Nat.eqb j k); subst c'; [|exact (Hne Hf)].
    destruct (Hfx c) as [E|[E|[e E]]]; rewrite E in Hf; [exact (Hne Hf)|discriminate|discriminate]. }
  assert (Htd : forall e s0, calls s0 = calls s -> nth_error (calls (teardown fl e s0)) k = Some c' -> False).
  { intros e s0 Hc Ht. apply Hne. apply (teardown_fut fl e s0 k c c' b); [rewrite Hc; exact Hn|exact Ht|exact Hf]. }
  destruct a as [j|j|j|j|j|ok|j ok|ok| | | | | |]; cbn [step] in Hs.
  - destruct (nth_error (calls s) j) as [cj|]; [|discriminate]. destruct (c_pc cj); try discriminate.
    exfalso. destruct (c_close cj && negb (running s)); [|destruct (copen s)]; inversion Hs; subst;
      (eapply Hsame; [|exact Hn']; intros x; left; reflexivity).
  - destruct (nth_error (calls s) j) as [cj|]; [|discriminate]. destruct (c_pc cj); try discriminate.
    exfalso. inversion Hs; subst. eapply Hsame; [|exact Hn']. intros x; right; left; reflexivity.
  - destruct (nth_error (calls s) j) as [cj|]; [|discriminate]. destruct (c_pc cj); try discriminate.
    exfalso. inversion Hs; subst. eapply Hsame; [|exact Hn']. intros x; left; reflexivity.
  - destruct (nth_error (calls s) j) as [cj|]; [|discriminate]. destruct (c_pc cj); try discriminate.
    exfalso. destruct (writer s); inversion Hs; subst; (eapply Hsame; [|exact Hn']; intros x; left; reflexivity).
  - destruct (nth_error (calls s) j) as [cj|]; [|discriminate]. destruct (c_pc cj); try discriminate.
    exfalso. destruct (c_fut cj); try discriminate; inversion Hs; subst; (eapply Hsame; [|exact Hn']; intros x; left; reflexivity).
  - exfalso. destruct (lst s); try discriminate. destruct ok; inversion Hs; subst.
    + cbn [calls] in Hn'. rewrite Hn in Hn'. inversion Hn'; subst. exact (Hne Hf).
    + first [exact (Htd _ (with_copen s false) eq_refl Hn')|(cbn [calls with_lst with_copen with_running] in Hn'; rewrite Hn in Hn'; inversion Hn'; subst; exact (Hne Hf))|(apply Hne; eapply finally_top_fut; [|exact Hn'|exact Hf]; exact Hn)].
  - destruct (nth_error (calls s) j) as [cj|] eqn:Hj; [|discriminate].
    destruct (c_sent cj && is_run (lst s)); [|discriminate].
    destruct (mem_nat j (pending s)) eqn:Em.
    + set (s1 := with_pending (updc s j (set_fut (FVal (resp_body j cj)))) (remove_nat j (pending s))) in *.
      assert (H1 : forall c1, nth_error (calls s1) k = Some c1 -> c_fut c1 = FVal b ->
                              exists ok0, AResp j ok = AResp k ok0 /\ In k (pending s) /\ b = resp_body k c).
      { intros c1 Hc1 Hf1. unfold s1, with_pending, updc, with_calls in Hc1. cbn [calls] in Hc1.
        pose proof (upd_nth_some _ _ (calls s) j k c c1 Hn Hc1) as E.
        destruct (Nat.eqb j k) eqn:Ejk.
        - apply Nat.eqb_eq in Ejk. subst j. rewrite Hn in Hj. inversion Hj; subst cj. subst c1. cbn in Hf1.
          inversion Hf1; subst. exists ok. split; [reflexivity|]. split; [apply mem_nat_In; exact Em|reflexivity].
        - subst c1. exfalso. exact (Hne Hf1). }
      destruct (resp_body j cj) eqn:Eb.
      * inversion Hs; subst. exact (H1 c' Hn' Hf).
      * inversion Hs; subst. clear Hs.
        cbn [teardown] in Hn'. unfold finally_top in Hn'. destruct (f_snapshot fl); cbn [calls with_running] in Hn'.
        -- rewrite fail_all_nth in Hn'.
           destruct (nth_error (calls s1) k) as [c1|] eqn:Hc1; [|discriminate]. inversion Hn'; subst c'. clear Hn'.
           match type of Hf with context [if ?x then _ else _] => destruct x end; [cbn in Hf; discriminate|]. exact (H1 c1 eq_refl Hf).
        -- exact (H1 c' Hn' Hf).
    + exfalso. destruct (resp_body j cj).
      * unfold dispatch_msg in Hs. destruct ok; inversion Hs; subst.
        -- rewrite Hn in Hn'. inversion Hn'; subst. exact (Hne Hf).
        -- first [exact (Htd _ s eq_refl Hn')|(cbn [calls with_lst with_copen with_running] in Hn'; rewrite Hn in Hn'; inversion Hn'; subst; exact (Hne Hf))|(apply Hne; eapply finally_top_fut; [|exact Hn'|exact Hf]; exact Hn)].
      * inversion Hs; subst. first [exact (Htd _ (with_running s false) eq_refl Hn')|(cbn [calls with_lst with_copen with_running] in Hn'; rewrite Hn in Hn'; inversion Hn'; subst; exact (Hne Hf))|(apply Hne; eapply finally_top_fut; [|exact Hn'|exact Hf]; exact Hn)].
  - exfalso. destruct (is_run (lst s)); [|discriminate]. unfold dispatch_msg in Hs. destruct ok; inversion Hs; subst.
    + rewrite Hn in Hn'. inversion Hn'; subst. exact (Hne Hf).
    + first [exact (Htd _ s eq_refl Hn')|(cbn [calls with_lst with_copen with_running] in Hn'; rewrite Hn in Hn'; inversion Hn'; subst; exact (Hne Hf))|(apply Hne; eapply finally_top_fut; [|exact Hn'|exact Hf]; exact Hn)].
  - exfalso. destruct (is_run (lst s)); [|discriminate]. inversion Hs; subst. first [exact (Htd _ (with_running s false) eq_refl Hn')|(cbn [calls with_lst with_copen with_running] in Hn'; rewrite Hn in Hn'; inversion Hn'; subst; exact (Hne Hf))|(apply Hne; eapply finally_top_fut; [|exact Hn'|exact Hf]; exact Hn)].
  - exfalso. destruct (is_run (lst s)); [|discriminate]. inversion Hs; subst. first [exact (Htd _ s eq_refl Hn')|(cbn [calls with_lst with_copen with_running] in Hn'; rewrite Hn in Hn'; inversion Hn'; subst; exact (Hne Hf))|(apply Hne; eapply finally_top_fut; [|exact Hn'|exact Hf]; exact Hn)].
  - exfalso. destruct (is_run (lst s)); [|discriminate]. inversion Hs; subst. first [exact (Htd _ (with_copen s false) eq_refl Hn')|(cbn [calls with_lst with_copen with_running] in Hn'; rewrite Hn in Hn'; inversion Hn'; subst; exact (Hne Hf))|(apply Hne; eapply finally_top_fut; [|exact Hn'|exact Hf]; exact Hn)].
  - exfalso. destruct (lst s) as [| | |e i d| | |]; try discriminate. destruct d.
    + inversion Hs; subst. cbn [calls with_lst] in Hn'. rewrite Hn in Hn'. inversion Hn'; subst. exact (Hne Hf).
    + destruct (nth_error (pending s) i) as [j|]; inversion Hs; subst.
      * eapply Hsame; [|exact Hn']. intros x; right; right; eexists; reflexivity.
      * cbn [calls with_lst with_pending] in Hn'. rewrite Hn in Hn'. inversion Hn'; subst. exact (Hne Hf).
  - exfalso. destruct (lst s) as [| |e| | | |]; try discriminate. inversion Hs; subst.
    apply Hne. exact (finally_top_fut fl e s k c c' b Hn Hn' Hf).
  - exfalso. destruct (lst s); try discriminate. inversion Hs; subst. cbn [calls] in Hn'.
    rewrite Hn in Hn'. inversion Hn'; subst. exact (Hne Hf).
Qed.

(* T14.drain: once the listener has torn the connection down -- also while its finally is still awaiting on_close --
   nobody waits for a future that nobody will resolve *)
Definition torn_down (l : lstate) : Prop := l = LExit \/ l = LCloseWait.

Theorem drain_invariant : forall fl c0 closers s, fl_ok fl -> reach fl (init c0 closers) s -> torn_down (lst s) ->
  writer s = false /\
  (forall k, In k (pending s) -> exists c, nth_error (calls s) k = Some c /\ c_fut c = FUnres /\
     (c_pc c = PRegd \/ c_pc c = PSched \/ c_pc c = PDone (RExc XAttr))) /\
  (forall k c, nth_error (calls s) k = Some c -> c_pc c = PAwait -> c_fut c <> FUnres).
Proof.
  intros fl c0 closers s Hfl Hr Hl. pose proof (inv_reach fl c0 closers s Hfl Hr) as Hi.
  assert (Hup : ph_up (lst s) = false) by (destruct Hl as [E|E]; rewrite E; reflexivity).
  assert (Haw : forall k c, nth_error (calls s) k = Some c -> c_pc c = PAwait -> c_fut c <> FUnres).
  { intros k c Hn Hp Hf. pose proof (i_await s Hi k c Hn Hp Hf) as E. rewrite Hup in E. discriminate. }
  split; [exact (proj2 (i_writer s Hi) Hup)|]. split; [|exact Haw].
  intros k Hk. destruct (i_pend s Hi k Hk) as [c [Hn [Hf Hp]]]. exists c. split; [exact Hn|]. split; [exact Hf|].
  destruct Hp as [Hp|[Hp|[Hp|Hp]]]; auto. exfalso. exact (Haw k c Hn Hp Hf).
Qed.

(* calls racing run_client(): before connect() has returned *)
Theorem before_connect_prompt : forall fl c0 closers s, fl_ok fl -> reach fl (init c0 closers) s -> lst s = LInit ->
  writer s = false /\
  (forall k c, nth_error (calls s) k = Some c -> c_pc c = PSched ->
     exists s', step fl s (ASend k) = Some (s', [ERaise k XAttr])) /\
  (forall k c, nth_error (calls s) k = Some c -> c_pc c = PIdle -> copen s = false -> c_close c = false ->
     exists s', step fl s (AInvoke k) = Some (s', [ECall k; ERaise k XNotEst])) /\
  (forall k c, nth_error (calls s) k = Some c -> c_pc c = PAwait -> c_fut c <> FUnres).
Proof.
  intros fl c0 closers s Hfl Hr Hl. pose proof (inv_reach fl c0 closers s Hfl Hr) as Hi.
  assert (Hw : writer s = false) by (apply (proj2 (i_writer s Hi)); rewrite Hl; reflexivity).
  split; [exact Hw|]. split; [|split].
  - intros k c Hn Hp. cbn [step]. rewrite Hn, Hp, Hw. eexists. reflexivity.
  - intros k c Hn Hp Ho Hc. cbn [step]. rewrite Hn, Hp, Hc, Ho. cbn. eexists. reflexivity.
  - intros k c Hn Hp Hf. pose proof (i_await s Hi k c Hn Hp Hf) as E. rewrite Hl in E. discriminate.
Qed.

Definition rank (p : pc) : nat :=
  match p with PIdle => 0 | PChecked => 1 | PRegd => 2 | PSched => 3 | PAwait => 4 | PDone _ => 5 end.

(* ... and every caller that is under way has an enabled step of its own that moves it strictly forward:
   within four such steps it has returned or raised (ASend raises AttributeError because writer is None) *)
Theorem drain_progress : forall fl c0 closers s k c, fl_ok fl -> reach fl (init c0 closers) s -> torn_down (lst s) ->
  nth_error (calls s) k = Some c -> c_pc c <> PIdle -> (forall r, c_pc c <> PDone r) ->
  exists a s' ev c', In a [ARegister k; ASchedule k; ASend k; AComplete k] /\ step fl s a = Some (s', ev) /\
                     nth_error (calls s') k = Some c' /\ rank (c_pc c) < rank (c_pc c') /\ lst s' = lst s.
Proof.
  intros fl c0 closers s k c Hfl Hr Hl Hn Hni Hnd.
  destruct (drain_invariant fl c0 closers s Hfl Hr Hl) as [Hw [_ Haw]].
  assert (Hupd : forall f, nth_error (calls (updc s k f)) k = Some (f c)).
  { intros f. unfold updc, with_calls. cbn [calls]. rewrite nth_error_upd, Nat.eqb_refl, Hn. reflexivity. }
  assert (Hlm : match lst s with LClean e i _ => LClean e i true | l => l end = lst s).
  { destruct Hl as [E|E]; rewrite E; reflexivity. }
  destruct (c_pc c) eqn:Hp.
  - contradiction.
  - exists (ARegister k). eexists. eexists. eexists. split; [cbn; tauto|]. cbn [step]. rewrite Hn, Hp, Hlm.
    split; [reflexivity|]. cbn [calls with_lst with_pending lst]. rewrite Hupd. split; [reflexivity|]. cbn. split; [lia|reflexivity].
  - exists (ASchedule k). eexists. eexists. eexists. split; [cbn; tauto|]. cbn [step]. rewrite Hn, Hp.
    split; [reflexivity|]. rewrite Hupd. split; [reflexivity|]. cbn. split; [lia|reflexivity].
  - exists (ASend k). eexists. eexists. eexists. split; [cbn; tauto|]. cbn [step]. rewrite Hn, Hp, Hw.
    split; [reflexivity|]. rewrite Hupd. split; [reflexivity|]. cbn. split; [lia|reflexivity].
  - exists (AComplete k). pose proof (Haw k c Hn Hp) as Hf.
    destruct (c_fut c) eqn:Ef; [contradiction| |]; eexists; eexists; eexists; (split; [cbn; tauto|]); cbn [step]; rewrite Hn, Hp, Ef;
      (split; [reflexivity|]); rewrite Hupd; (split; [reflexivity|]); cbn; (split; [lia|reflexivity]).
  - exfalso. exact (Hnd r eq_refl).
Qed.

(* =========================================================================== (3) the live-dict loop is refuted *)
Definition fl_live : flags := mkFlags false true false.

(* calls 0 and 1 are waiting for their answers, call 2 has passed is_open(); the connection is lost; the cleanup
   loop fails future 0; call 2 registers its future; the next iteration raises RuntimeError out of _run *)
Definition race_trace : list label :=
  [AConnect true; AInvoke 0; ARegister 0; ASchedule 0; ASend 0; AInvoke 1; ARegister 1; ASchedule 1; ASend 1; AInvoke 2;
   ACut; AErrDone; AClean; ARegister 2; AClean; ASchedule 2; ASend 2; AComplete 0].

Lemma race_refuted : exists s h,
  exec fl_live (init_cfg true 3 0) race_trace = Some (s, h) /\ quiescent fl_live s = true /\
  check_history 3 h = false /\ lst s = LCrash /\
  exists c, nth_error (calls s) 1 = Some c /\ c_pc c = PAwait /\ c_fut c = FUnres.
Proof.
  eexists. eexists. split; [vm_compute; reflexivity|].
  split; [vm_compute; reflexivity|]. split; [vm_compute; reflexivity|]. split; [reflexivity|].
  eexists. split; [reflexivity|]. split; reflexivity.
Qed.

(* the same schedule is harmless when a copy is iterated *)
Lemma race_harmless_with_snapshot : exists s h,
  exec (mkFlags true true false) (init_cfg true 3 0)
       [AConnect true; AInvoke 0; ARegister 0; ASchedule 0; ASend 0; AInvoke 1; ARegister 1; ASchedule 1; ASend 1; AInvoke 2;
        ACut; AErrDone; ARegister 2; ACloseDone; ASchedule 2; ASend 2; AComplete 0; AComplete 1] = Some (s, h) /\
  quiescent (mkFlags true true false) s = true /\ check_history 3 h = true.
Proof. eexists. eexists. split; [vm_compute; reflexivity|]. split; vm_compute; reflexivity. Qed.

(* self.writer = None moved to after `await on_close(self)`: a call made while the on_close handler is parked passes
   is_open() (a connection the peer closed is only half-closed), is written into the dead stream AFTER the cleanup has run,
   and waits forever *)
Definition fl_late_reset : flags := mkFlags true false true.
Definition late_reset_trace : list label :=
  [AConnect true; ACut; AErrDone; AInvoke 0; ARegister 0; ASchedule 0; ASend 0; ACloseDone].

Lemma late_writer_reset_refuted : exists s h,
  exec fl_late_reset (init_cfg true 1 0) late_reset_trace = Some (s, h) /\ quiescent fl_late_reset s = true /\
  check_history 1 h = false /\ lst s = LExit /\ writer s = false /\
  exists c, nth_error (calls s) 0 = Some c /\ c_pc c = PAwait /\ c_fut c = FUnres /\ c_sent c = true.
Proof.
  eexists. eexists. split; [vm_compute; reflexivity|].
  split; [vm_compute; reflexivity|]. split; [vm_compute; reflexivity|]. split; [reflexivity|]. split; [reflexivity|].
  eexists. split; [reflexivity|]. repeat split.
Qed.
