(* C14/ServerModel.v — the SERVER half of one remote request (klongpy/sys_fn_ipc.py):
     NetworkClient._listen, dispatch branch   response = await run_command_on_klongloop(...); await stream_send_msg(writer, msg_id, response)
     run_command_on_klongloop                 result_future = Future(); klongloop.call_soon_threadsafe(create_task, execute_server_command(...)); await result_future
     execute_server_command                   try: evaluate; call_soon_threadsafe(result_future.set_result, response)
                                              except KeyError:  call_soon_threadsafe(result_future.set_exception, KlongException("symbol not found"))
                                              except Exception: call_soon_threadsafe(result_future.set_exception, KlongException("internal error"))
   with the evaluation itself abstract: only its OUTCOME CLASS matters.  A failed result future escapes _listen, reaches
   _run's generic handler ("unknown error"), the finally, handle_client's finally: the socket is closed (teardown).
   No proofs in this file. *)
From Coq Require Import List Bool.
From C14 Require Import Model.
Import ListNotations.

Inductive exc_class :=
| CKlong        (* KlongException *)
| CKeyError     (* KeyError: unknown symbol *)
| COrdinary     (* any other Exception subclass that asyncio.Future.set_exception accepts (ValueError, user classes, ...) *)
| CStopIter     (* StopIteration and subclasses: Future.set_exception raises TypeError instead of storing it *)
| CBase.        (* BaseException that is not an Exception (KeyboardInterrupt, SystemExit, CancelledError, GeneratorExit, user classes) *)

Inductive outcome :=
| OValue (picklable : bool)     (* a value; pickle.dumps may refuse it (e.g. a Python lambda fetched through a remote dictionary) *)
| OFunction                     (* KGFn / KGLambda: replaced by KGRemoteFnRef(arity) *)
| ORaise (c : exc_class).

(* facts about execute_server_command regenerated from /repo *)
Record sflags := mkSFlags {
  sf_wrap_generic : bool;     (* `except Exception` hands a fresh KlongException to set_exception, not the caught object *)
  sf_wrap_keyerror : bool     (* `except KeyError` does the same *)
}.

Inductive sched := SetResult (fnref picklable : bool) | SetExc (c : exc_class).

(* what execute_server_command schedules on the future loop *)
Definition exec_cmd (fl : sflags) (o : outcome) : list sched :=
  match o with
  | OValue p => [SetResult false p]
  | OFunction => [SetResult true true]
  | ORaise CKeyError => [SetExc (if sf_wrap_keyerror fl then CKlong else CKeyError)]
  | ORaise CBase => []          (* neither handler matches: the task on the klong loop dies, nothing is scheduled *)
  | ORaise c => [SetExc (if sf_wrap_generic fl then CKlong else c)]
  end.

(* asyncio.Future.set_exception *)
Definition future_accepts (c : exc_class) : bool := match c with CStopIter => false | _ => true end.

Inductive rfut := RPending | RResult (fnref picklable : bool) | RFailed (c : exc_class).

(* one scheduled callback runs on the io loop; returns the future and whether this callback completed it *)
Definition apply_sched (f : rfut) (a : sched) : rfut * bool :=
  match f with
  | RPending =>
      match a with
      | SetResult r p => (RResult r p, true)
      | SetExc c => if future_accepts c then (RFailed c, true) else (RPending, false)   (* TypeError, logged by the loop *)
      end
  | _ => (f, false)                                                                       (* InvalidStateError *)
  end.

(* run_command_on_klongloop: final state of result_future and the number of times it was completed *)
Definition run_command (fl : sflags) (o : outcome) : rfut * nat :=
  fold_left (fun acc a => let '(f, b) := apply_sched (fst acc) a in (f, if b then S (snd acc) else snd acc))
            (exec_cmd fl o) (RPending, 0).

Inductive reaction := RxResponse (fnref : bool) | RxTeardown | RxNothing.

(* _listen's dispatch branch once `await result_future` is over (or never is) *)
Definition listen_dispatch (fl : sflags) (o : outcome) : reaction :=
  match fst (run_command fl o) with
  | RResult r true => RxResponse r
  | RResult _ false => RxTeardown       (* pickle.dumps raises inside stream_send_msg *)
  | RFailed _ => RxTeardown
  | RPending => RxNothing               (* _listen waits forever: neither an answer nor a close *)
  end.

(* one connection serving a sequence of requests *)
Inductive served :=
| SvResponse (fnref : bool)
| SvTeardown
| SvClosed        (* the request arrives after the teardown: the connection is closed, the caller's call fails (C14_drain) *)
| SvNothing
| SvStuck.        (* behind a request that never completed: _listen is still awaiting it *)

Fixpoint serve (fl : sflags) (os : list outcome) : list served :=
  match os with
  | [] => []
  | o :: r =>
      match listen_dispatch fl o with
      | RxResponse f => SvResponse f :: serve fl r
      | RxTeardown => SvTeardown :: map (fun _ => SvClosed) r
      | RxNothing => SvNothing :: map (fun _ => SvStuck) r
      end
  end.

(* evaluation failures the property speaks about: the evaluation raises an Exception *)
Definition in_domain (o : outcome) : bool := match o with ORaise CBase => false | _ => true end.
Definition silent (s : served) : bool := match s with SvNothing | SvStuck => true | _ => false end.

(* what the client at the other end sees (labels of Model.v): the response frame to its request k, or EOF *)
Definition reaction_label (k : nat) (rx : reaction) : option label :=
  match rx with RxResponse _ => Some (AResp k true) | RxTeardown => Some ACut | RxNothing => None end.
