(* C14/Reflect.v — closed-finite-set reflection for the property's own finite configuration space
   (<= 3 concurrent calls): a set of (client state x monitor state) pairs is computed by vm_compute,
   checked to contain the initial state, to be closed under EVERY label, and to satisfy the invariant
   pointwise; `closed_invariant` lifts this to all schedules of any length. *)
From Coq Require Import ZArith NArith List Bool PeanoNat Lia FMapPositive.
From C14 Require Import Model Spec.
Import ListNotations.

(* ------------------------------------------------------------------ generic part *)
Section Closed.
  Context {St L : Type}.
  Variable stepf : St -> L -> option St.
  Variable enc : St -> positive.
  Variable eqb : St -> St -> bool.
  Hypothesis eqb_sound : forall a b, eqb a b = true -> a = b.
  Variable labels : list L.
  Variable P : St -> bool.

  Definition memS (s : St) (M : PositiveMap.t St) : bool :=
    match PositiveMap.find (enc s) M with Some t => eqb t s | None => false end.

  Definition closedS (M : PositiveMap.t St) : bool :=
    forallb (fun cs => P (snd cs) &&
                       forallb (fun l => match stepf (snd cs) l with Some s' => memS s' M | None => true end) labels)
            (PositiveMap.elements M).

  Lemma closed_at : forall M s, closedS M = true -> memS s M = true ->
    P s = true /\ forall l s', In l labels -> stepf s l = Some s' -> memS s' M = true.
  Proof.
    intros M s Hc Hm. unfold memS in Hm.
    destruct (PositiveMap.find (enc s) M) as [t|] eqn:Hf; [|discriminate].
    apply eqb_sound in Hm. subst t.
    apply PositiveMap.elements_correct in Hf.
    unfold closedS in Hc. rewrite forallb_forall in Hc. specialize (Hc _ Hf). cbn [snd] in Hc.
    apply andb_true_iff in Hc. destruct Hc as [HP Hl]. split; [exact HP|].
    intros l s' Hin Hs. rewrite forallb_forall in Hl. specialize (Hl _ Hin). rewrite Hs in Hl. exact Hl.
  Qed.

  Fixpoint execf (s : St) (tr : list L) : option St :=
    match tr with
    | [] => Some s
    | a :: r => match stepf s a with Some s1 => execf s1 r | None => None end
    end.

  (* labels outside the list are never enabled in states satisfying P *)
  Hypothesis labels_complete : forall s l s', P s = true -> stepf s l = Some s' -> In l labels.

  Lemma closed_invariant : forall M s0, closedS M = true -> memS s0 M = true ->
    forall tr s, execf s0 tr = Some s -> memS s M = true /\ P s = true.
  Proof.
    intros M s0 Hc Hm tr. revert s0 Hm. induction tr as [|a r IH]; intros s0 Hm s He; cbn [execf] in He.
    - inversion He; subst. split; [exact Hm|]. exact (proj1 (closed_at M s Hc Hm)).
    - destruct (stepf s0 a) as [s1|] eqn:Hs; [|discriminate].
      destruct (closed_at M s0 Hc Hm) as [HP Hstep].
      apply (IH s1); [|exact He].
      apply (Hstep a s1); [|exact Hs]. exact (labels_complete s0 a s1 HP Hs).
  Qed.

  (* worklist exploration; None = out of fuel *)
  Fixpoint explore (fuel : nat) (todo : list St) (seen : PositiveMap.t St) : option (PositiveMap.t St) :=
    match todo with
    | [] => Some seen
    | s :: rest =>
        match fuel with
        | O => None
        | S f =>
            let '(todo', seen') :=
              fold_left (fun acc l =>
                           match stepf s l with
                           | Some s' => if memS s' (snd acc) then acc
                                        else (s' :: fst acc, PositiveMap.add (enc s') s' (snd acc))
                           | None => acc
                           end) labels (rest, seen) in
            explore f todo' seen'
        end
    end.

  Definition check_from (fuel : nat) (s0 : St) : bool :=
    match explore fuel [s0] (PositiveMap.add (enc s0) s0 (PositiveMap.empty St)) with
    | Some M => memS s0 M && closedS M
    | None => false
    end.

  Definition count_from (fuel : nat) (s0 : St) : nat :=
    match explore fuel [s0] (PositiveMap.add (enc s0) s0 (PositiveMap.empty St)) with
    | Some M => PositiveMap.cardinal M
    | None => 0
    end.

  Lemma check_from_invariant : forall fuel s0, check_from fuel s0 = true ->
    forall tr s, execf s0 tr = Some s -> P s = true.
  Proof.
    intros fuel s0 H tr s He. unfold check_from in H.
    destruct (explore fuel [s0] _) as [M|]; [|discriminate].
    apply andb_true_iff in H. destruct H as [Hm Hc].
    exact (proj2 (closed_invariant M s0 Hc Hm tr s He)).
  Qed.
End Closed.

(* ------------------------------------------------------------------ the product client x monitor *)
Definition pstate := (state * mon)%type.

Definition pstep (fl : flags) (p : pstate) (a : label) : option pstate :=
  match step fl (fst p) a with
  | Some (s', ev) => Some (s', mon_run (snd p) ev)
  | None => None
  end.

Definition pinv (fl : flags) (p : pstate) : bool :=
  Nat.leb (length (calls (fst p))) 3 &&
  negb (m_bad (snd p)) &&
  (if quiescent fl (fst p) then mon_accept (snd p) else true).

Definition labels3 : list label :=
  flat_map (fun k => [AInvoke k; ARegister k; ASchedule k; ASend k; AComplete k; AResp k true; AResp k false]) [0; 1; 2]
  ++ [AConnect true; AConnect false; APush true; APush false; ACloseReq; ACut; AReset; AClean; AErrDone; ACloseDone].

(* ---- structural equality *)
Definition exn_code (e : exn) : N :=
  match e with XNotEst => 0 | XAttr => 1 | XConnFail => 2 | XCloseConn => 3 | XOther => 4 | XCreateConn => 5 end.
Definition exn_eqb (a b : exn) : bool := N.eqb (exn_code a) (exn_code b).
Definition fut_eqb (a b : fut) : bool :=
  match a, b with
  | FUnres, FUnres => true
  | FVal x, FVal y => body_eqb x y
  | FExc x, FExc y => exn_eqb x y
  | _, _ => false
  end.
Definition result_eqb (a b : result) : bool :=
  match a, b with
  | RVal x, RVal y => body_eqb x y
  | RExc x, RExc y => exn_eqb x y
  | RNoop, RNoop => true
  | _, _ => false
  end.
Definition pc_eqb (a b : pc) : bool :=
  match a, b with
  | PIdle, PIdle | PChecked, PChecked | PRegd, PRegd | PSched, PSched | PAwait, PAwait => true
  | PDone x, PDone y => result_eqb x y
  | _, _ => false
  end.
Definition call_eqb (a b : call) : bool :=
  Bool.eqb (c_close a) (c_close b) && pc_eqb (c_pc a) (c_pc b) && fut_eqb (c_fut a) (c_fut b) && Bool.eqb (c_sent a) (c_sent b).
Definition lstate_eqb (a b : lstate) : bool :=
  match a, b with
  | LInit, LInit | LRun, LRun | LExit, LExit | LCrash, LCrash | LCloseWait, LCloseWait => true
  | LErrWait e, LErrWait e' => exn_eqb e e'
  | LClean e i d, LClean e' i' d' => exn_eqb e e' && Nat.eqb i i' && Bool.eqb d d'
  | _, _ => false
  end.
Fixpoint list_eqb {A} (eq : A -> A -> bool) (l1 l2 : list A) : bool :=
  match l1, l2 with
  | [], [] => true
  | x :: r, y :: r' => eq x y && list_eqb eq r r'
  | _, _ => false
  end.
Definition state_eqb (a b : state) : bool :=
  list_eqb call_eqb (calls a) (calls b) && list_eqb Nat.eqb (pending a) (pending b) && lstate_eqb (lst a) (lst b) &&
  Bool.eqb (writer a) (writer b) && Bool.eqb (copen a) (copen b) && Bool.eqb (running a) (running b).
Definition mstat_eqb (a b : mstat) : bool :=
  match a, b with
  | MIdle, MIdle | MCalled, MCalled | MDone, MDone => true
  | MAnswered x, MAnswered y => body_eqb x y
  | _, _ => false
  end.
Definition mon_eqb (a b : mon) : bool :=
  list_eqb mstat_eqb (m_st a) (m_st b) && Bool.eqb (m_lost a) (m_lost b) && Bool.eqb (m_conn a) (m_conn b) && Bool.eqb (m_bad a) (m_bad b).
Definition pstate_eqb (a b : pstate) : bool := state_eqb (fst a) (fst b) && mon_eqb (snd a) (snd b).

(* ---- hash into positive (soundness does not depend on it; a collision only makes the check fail) *)
Definition b2n (b : bool) : N := if b then 1%N else 0%N.
Definition body_code (b : body) : N := match b with BClose => 0 | BVal z => 1 + Z.to_N z end.
Definition fut_code (f : fut) : N :=
  match f with FUnres => 0 | FExc e => 1 + exn_code e | FVal b => 8 + body_code b end.
Definition result_code (r : result) : N :=
  match r with RNoop => 0 | RExc e => 1 + exn_code e | RVal b => 8 + body_code b end.
Definition pc_code (p : pc) : N :=
  match p with PIdle => 0 | PChecked => 1 | PRegd => 2 | PSched => 3 | PAwait => 4 | PDone r => 5 + result_code r end.
Definition call_code (c : call) : N :=
  ((pc_code (c_pc c) * 32 + fut_code (c_fut c)) * 2 + b2n (c_close c)) * 2 + b2n (c_sent c).
Definition lstate_code (l : lstate) : N :=
  match l with LRun => 0 | LExit => 1 | LCrash => 2 | LInit => 3 | LCloseWait => 4 | LErrWait e => 5 + exn_code e
  | LClean e i d => 12 + ((exn_code e * 8 + N.of_nat i) * 2 + b2n d) end.
Definition mstat_code (m : mstat) : N :=
  match m with MIdle => 0 | MCalled => 1 | MDone => 2 | MAnswered b => 3 + body_code b end.
Definition enc_pstate (p : pstate) : positive :=
  let s := fst p in let m := snd p in
  let a := fold_left (fun acc c => acc * 4096 + call_code c)%N (calls s) (N.of_nat (length (calls s))) in
  let a := fold_left (fun acc k => acc * 8 + (1 + N.of_nat k))%N (pending s) (a * 8)%N in
  let a := (a * 256 + lstate_code (lst s))%N in
  let a := (((a * 2 + b2n (writer s)) * 2 + b2n (copen s)) * 2 + b2n (running s))%N in
  let a := fold_left (fun acc x => acc * 16 + mstat_code x)%N (m_st m) a in
  N.succ_pos (((a * 2 + b2n (m_lost m)) * 2 + b2n (m_conn m)) * 2 + b2n (m_bad m)).

Definition fl_fixed : flags := mkFlags true true false.

Definition p_init (c0 : bool) (nn nc : nat) : pstate := (init_cfg c0 nn nc, mon_init (nn + nc)).

Definition check_cfg (fuel : nat) (c0 : bool) (nn nc : nat) : bool :=
  check_from (pstep fl_fixed) enc_pstate pstate_eqb labels3 (pinv fl_fixed) fuel (p_init c0 nn nc).
Definition count_cfg (fuel : nat) (c0 : bool) (nn nc : nat) : nat :=
  count_from (pstep fl_fixed) enc_pstate pstate_eqb labels3 fuel (p_init c0 nn nc).

(* ------------------------------------------------------------------ soundness of the equality test *)
Lemma body_eqb_sound : forall a b, body_eqb a b = true -> a = b.
Proof. intros [x|] [y|] H; cbn in H; try discriminate; [apply Z.eqb_eq in H; subst|]; reflexivity. Qed.
Lemma exn_eqb_sound : forall a b, exn_eqb a b = true -> a = b.
Proof. intros [] [] H; cbn in H; try discriminate; reflexivity. Qed.
Lemma fut_eqb_sound : forall a b, fut_eqb a b = true -> a = b.
Proof.
  intros [|x|x] [|y|y] H; cbn in H; try discriminate; try reflexivity.
  - apply body_eqb_sound in H; subst; reflexivity.
  - apply exn_eqb_sound in H; subst; reflexivity.
Qed.
Lemma result_eqb_sound : forall a b, result_eqb a b = true -> a = b.
Proof.
  intros [x|x|] [y|y|] H; cbn in H; try discriminate; try reflexivity.
  - apply body_eqb_sound in H; subst; reflexivity.
  - apply exn_eqb_sound in H; subst; reflexivity.
Qed.
Lemma pc_eqb_sound : forall a b, pc_eqb a b = true -> a = b.
Proof.
  intros [| | | | |x] [| | | | |y] H; cbn in H; try discriminate; try reflexivity.
  apply result_eqb_sound in H; subst; reflexivity.
Qed.
Lemma bool_eqb_sound : forall a b, Bool.eqb a b = true -> a = b.
Proof. intros a b H. apply Bool.eqb_prop. exact H. Qed.
Lemma call_eqb_sound : forall a b, call_eqb a b = true -> a = b.
Proof.
  intros [a1 a2 a3 a4] [b1 b2 b3 b4] H. unfold call_eqb in H. cbn in H.
  repeat (apply andb_true_iff in H; destruct H as [H ?]).
  apply bool_eqb_sound in H. apply pc_eqb_sound in H2. apply fut_eqb_sound in H1. apply bool_eqb_sound in H0.
  subst. reflexivity.
Qed.
Lemma list_eqb_sound : forall A (eq : A -> A -> bool), (forall a b, eq a b = true -> a = b) ->
  forall l1 l2, list_eqb eq l1 l2 = true -> l1 = l2.
Proof.
  intros A eq Heq. induction l1 as [|x r IH]; intros [|y r'] H; cbn in H; try discriminate; [reflexivity|].
  apply andb_true_iff in H. destruct H as [H1 H2]. apply Heq in H1. apply IH in H2. subst. reflexivity.
Qed.
Lemma lstate_eqb_sound : forall a b, lstate_eqb a b = true -> a = b.
Proof.
  intros [| |x|e i d| | |] [| |x'|e' i' d'| | |] H; cbn in H; try discriminate; try reflexivity.
  - apply exn_eqb_sound in H. subst. reflexivity.
  - repeat (apply andb_true_iff in H; destruct H as [H ?]).
    apply exn_eqb_sound in H. apply Nat.eqb_eq in H1. apply bool_eqb_sound in H0. subst. reflexivity.
Qed.
Lemma nat_eqb_sound : forall a b, Nat.eqb a b = true -> a = b.
Proof. intros a b H. apply Nat.eqb_eq. exact H. Qed.
Lemma state_eqb_sound : forall a b, state_eqb a b = true -> a = b.
Proof.
  intros [a1 a2 a3 a4 a5 a6] [b1 b2 b3 b4 b5 b6] H. unfold state_eqb in H. cbn in H.
  repeat (apply andb_true_iff in H; destruct H as [H ?]).
  apply (list_eqb_sound _ _ call_eqb_sound) in H. apply (list_eqb_sound _ _ nat_eqb_sound) in H4.
  apply lstate_eqb_sound in H3. apply bool_eqb_sound in H2. apply bool_eqb_sound in H1. apply bool_eqb_sound in H0.
  subst. reflexivity.
Qed.
Lemma mstat_eqb_sound : forall a b, mstat_eqb a b = true -> a = b.
Proof.
  intros [| |x|] [| |y|] H; cbn in H; try discriminate; try reflexivity.
  apply body_eqb_sound in H; subst; reflexivity.
Qed.
Lemma mon_eqb_sound : forall a b, mon_eqb a b = true -> a = b.
Proof.
  intros [a1 a2 a3 a4] [b1 b2 b3 b4] H. unfold mon_eqb in H. cbn in H.
  repeat (apply andb_true_iff in H; destruct H as [H ?]).
  apply (list_eqb_sound _ _ mstat_eqb_sound) in H. apply bool_eqb_sound in H2. apply bool_eqb_sound in H1. apply bool_eqb_sound in H0.
  subst. reflexivity.
Qed.
Lemma pstate_eqb_sound : forall a b, pstate_eqb a b = true -> a = b.
Proof.
  intros [a1 a2] [b1 b2] H. unfold pstate_eqb in H. cbn in H.
  apply andb_true_iff in H. destruct H as [H1 H2].
  apply state_eqb_sound in H1. apply mon_eqb_sound in H2. subst. reflexivity.
Qed.

(* ------------------------------------------------------------------ only the listed labels can be enabled *)
Lemma lt3_cases : forall k, k < 3 -> k = 0 \/ k = 1 \/ k = 2.
Proof. intros k H. lia. Qed.

Lemma nth_error_lt3 : forall (s : state) k c, length (calls s) <= 3 -> nth_error (calls s) k = Some c -> k = 0 \/ k = 1 \/ k = 2.
Proof.
  intros s k c Hl Hn. apply lt3_cases.
  assert (k < length (calls s)) by (apply nth_error_Some; rewrite Hn; discriminate). lia.
Qed.

Lemma labels3_complete : forall fl p l p', pinv fl p = true -> pstep fl p l = Some p' -> In l labels3.
Proof.
  intros fl [s m] l p' Hp Hs. unfold pinv in Hp. cbn [fst snd] in Hp.
  apply andb_true_iff in Hp. destruct Hp as [Hp _]. apply andb_true_iff in Hp. destruct Hp as [Hlen _].
  apply Nat.leb_le in Hlen.
  unfold pstep in Hs. cbn [fst snd] in Hs.
  destruct (step fl s l) as [[s' ev]|] eqn:Hst; [|discriminate]. clear Hs.
  destruct l as [k|k|k|k|k|ok|k ok|ok| | | | | |]; cbn [step] in Hst;
    try (destruct (nth_error (calls s) k) as [c|] eqn:Hn; [|discriminate];
         destruct (nth_error_lt3 s k c Hlen Hn) as [->|[->| ->]]);
    try (destruct ok); cbn; tauto.
Qed.

(* ------------------------------------------------------------------ exec and the product run agree *)
Lemma mon_run_app : forall m h1 h2, mon_run m (h1 ++ h2) = mon_run (mon_run m h1) h2.
Proof. intros. unfold mon_run. apply fold_left_app. Qed.

Lemma exec_pexec : forall fl tr s m s' h, exec fl s tr = Some (s', h) ->
  execf (pstep fl) (s, m) tr = Some (s', mon_run m h).
Proof.
  intros fl tr. induction tr as [|a r IH]; intros s m s' h H; cbn [exec] in H; cbn [execf].
  - inversion H; subst. reflexivity.
  - unfold pstep at 1. cbn [fst snd].
    destruct (step fl s a) as [[s1 e1]|]; [|discriminate].
    destruct (exec fl s1 r) as [[s2 e2]|] eqn:He; [|discriminate].
    inversion H; subst. rewrite mon_run_app. apply IH. exact He.
Qed.

(* ------------------------------------------------------------------ the finite configuration space *)
Definition cfgs0 : list (nat * nat) :=
  [(0,0); (1,0); (0,1); (2,0); (1,1); (0,2); (3,0); (2,1); (1,2); (0,3)].
Definition cfgs : list (bool * (nat * nat)) := map (pair true) cfgs0 ++ map (pair false) cfgs0.

Lemma cfgs_complete : forall c0 nn nc, nn + nc <= 3 -> In (c0, (nn, nc)) cfgs.
Proof.
  intros c0 nn nc H. unfold cfgs, cfgs0. apply in_or_app.
  destruct c0; [left|right];
    (destruct nn as [|[|[|[|nn]]]]; destruct nc as [|[|[|[|nc]]]]; cbn; try lia; tauto).
Qed.

Definition fuel0 : nat := N.to_nat 400000.

Lemma cfgs_checked : forallb (fun c => check_cfg fuel0 (fst c) (fst (snd c)) (snd (snd c))) cfgs = true.
Proof. vm_compute. reflexivity. Qed.

(* the sizes of the closed sets, for the record *)
Definition cfg_sizes : list nat := map (fun c => count_cfg fuel0 (fst c) (fst (snd c)) (snd (snd c))) cfgs.

Lemma cfg_checked_at : forall c0 nn nc, In (c0, (nn, nc)) cfgs -> check_cfg fuel0 c0 nn nc = true.
Proof.
  intros c0 nn nc H.
  exact (proj1 (forallb_forall (fun c => check_cfg fuel0 (fst c) (fst (snd c)) (snd (snd c))) cfgs) cfgs_checked (c0, (nn, nc)) H).
Qed.

Lemma cfg_invariant : forall fuel c0 nn nc, check_cfg fuel c0 nn nc = true ->
  forall tr s h, exec fl_fixed (init_cfg c0 nn nc) tr = Some (s, h) ->
  pinv fl_fixed (s, mon_run (mon_init (nn + nc)) h) = true.
Proof.
  intros fuel c0 nn nc Hc tr s h He.
  exact (check_from_invariant (pstep fl_fixed) enc_pstate pstate_eqb pstate_eqb_sound labels3 (pinv fl_fixed)
           (labels3_complete fl_fixed) fuel (p_init c0 nn nc) Hc tr (s, mon_run (mon_init (nn + nc)) h)
           (exec_pexec fl_fixed tr (init_cfg c0 nn nc) (mon_init (nn + nc)) s h He)).
Qed.

Theorem all_runs_pass : forall c0 nn nc, nn + nc <= 3 ->
  forall tr s h, exec fl_fixed (init_cfg c0 nn nc) tr = Some (s, h) ->
    check_prefix (nn + nc) h = true /\
    (quiescent fl_fixed s = true -> check_history (nn + nc) h = true).
Proof.
  intros c0 nn nc Hn tr s h He.
  pose proof (cfg_invariant fuel0 c0 nn nc (cfg_checked_at c0 nn nc (cfgs_complete c0 nn nc Hn)) tr s h He) as Hinv.
  unfold pinv in Hinv. cbn [fst snd] in Hinv.
  apply andb_true_iff in Hinv. destruct Hinv as [Hinv Hq]. apply andb_true_iff in Hinv. destruct Hinv as [_ Hb].
  split.
  - unfold check_prefix. exact Hb.
  - intros Hqs. rewrite Hqs in Hq. unfold check_history. exact Hq.
Qed.

(* the same for any flag record that says what fl_fixed says (the form used by Properties.v with the generated flags) *)
Lemma all_runs_pass_flags : forall fl (cleans : bool),
  f_snapshot fl = true -> f_clear_writer fl = true -> f_clear_writer_late fl = false -> cleans = true ->
  forall c0 nn nc, nn + nc <= 3 ->
  forall tr s h, exec fl (init_cfg c0 nn nc) tr = Some (s, h) ->
    check_prefix (nn + nc) h = true /\
    (quiescent fl s = true -> check_history (nn + nc) h = true).
Proof.
  intros [a b c] cleans Ha Hb Hc _. cbn in Ha, Hb, Hc. subst a b c. exact all_runs_pass.
Qed.
