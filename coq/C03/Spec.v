(* C03/Spec.v — what the property text prescribes, independent of the frame machinery.
   No proofs in this file. *)
From Coq Require Import ZArith List Bool.
From C03 Require Import Model.
Import ListNotations.
Open Scope Z_scope.

(* ---- positional hole filling ------------------------------------------------
   The m-th open hole of `base` (counted from the left, from `m0`) takes the m-th
   entry of `fill`; an entry that is itself a hole, or a missing entry, leaves the
   hole open; surplus entries are ignored. *)
Fixpoint fill_from (m : nat) (base fill : list term) : list term :=
  match base with
  | [] => []
  | s :: r => if is_none s then nth m fill TNone :: fill_from (S m) r fill
              else s :: fill_from m r fill
  end.

Definition fill_all (base : list term) (fills : list (list term)) : list term :=
  fold_left (fill_from 0) fills base.

Definition open_holes (l : list term) : nat := length (filter is_none l).

(* ---- substitution of evaluated arguments ---------------------------------- *)
(* array literals are data: they are not descended into *)
Fixpoint subst (c : frame) (e : term) : term :=
  match e with
  | TSym s => match lookup s c with Some v => v | None => e end
  | TOp1 o a => TOp1 o (subst c a)
  | TOp2 o a b => TOp2 o (subst c a) (subst c b)
  | TCond q a b => TCond (subst c q) (subst c a) (subst c b)
  | _ => e
  end.

(* values that evaluate to themselves under eval and under call *)
Definition self_eval (v : term) : bool :=
  match v with TInt _ | TReal _ | TStr _ | TChar _ | TArr _ | TNone => true | _ => false end.

(* the closed expression grammar of T3.subst: x y z, globals, literals, the pure verbs, conditionals *)
Inductive pure : term -> Prop :=
| pure_int z : pure (TInt z)
| pure_real r : pure (TReal r)
| pure_str s : pure (TStr s)
| pure_chr c : pure (TChar c)
| pure_arr l : pure (TArr l)
| pure_sym s : pure (TSym s)
| pure_op1 o a : pure a -> pure (TOp1 o a)
| pure_op2 o a b : o <> Define -> o <> At -> pure a -> pure b -> pure (TOp2 o a b)
| pure_cond q a b : pure q -> pure a -> pure b -> pure (TCond q a b).

(* every free name of e other than the ones bound by c is bound in the caller's stack (or is an unbound
   x y z, which evaluates to itself without being bound); .f is not mentioned *)
Inductive names_bound (c : frame) (fr : list frame) : term -> Prop :=
| nb_int z : names_bound c fr (TInt z)
| nb_real r : names_bound c fr (TReal r)
| nb_str s : names_bound c fr (TStr s)
| nb_chr ch : names_bound c fr (TChar ch)
| nb_arr l : names_bound c fr (TArr l)
| nb_sym s : s <> nDotF -> (lookup s c <> None \/ ctx_lookup s fr <> None \/ is_reserved s = true) -> names_bound c fr (TSym s)
| nb_op1 o a : names_bound c fr a -> names_bound c fr (TOp1 o a)
| nb_op2 o a b : names_bound c fr a -> names_bound c fr b -> names_bound c fr (TOp2 o a b)
| nb_cond q a b : names_bound c fr q -> names_bound c fr a -> names_bound c fr b -> names_bound c fr (TCond q a b).

(* Klong truth: 0, [] and "" are false *)
Definition klong_false (q : term) : Prop := q = TInt 0 \/ q = TArr [] \/ q = TStr [].
