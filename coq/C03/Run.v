(* C03/Run.v — S-expression front end of the model, extracted to OCaml.
   term encoding:
     (i n) (s c...) (c n) (a t...) (n) (y name) (o1 k t) (o2 k a b)
     (f iscall a ARGS arity)   ARGS = (0) | (1 t...)
     (q c a b) (p t...)
   requests:
     (run fuel (t...))                 -> ((R depth (FRAME...))...)   R = (ok t) | (err k), FRAME = ((name t)...)
     (runs fuel (t...) GLOBALFRAME SYSFRAME)  the same from an initial global frame above a system frame (not reported)
     also (r bits) a float, (py id (names)) a Python callable
     (merge (ARGS...))                 -> (list ARGS) | (arr t...) | (err)
     (fill ARGS (ARGS...))             -> (arr t...)                   the Spec's fill_all
     (op1 k (t)) (op2 k a b)           -> R *)
From Coq Require Import ZArith List String.
From KB Require Import Sx.
From C03 Require Import Generated Model Spec.
Import ListNotations.
Open Scope Z_scope.

Definition op1_of (z : Z) : option op1 :=
  if z =? 0 then Some Neg else if z =? 1 then Some Size else if z =? 2 then Some Enlist else None.
Definition op2_of (z : Z) : option op2 :=
  if z =? 0 then Some Add else if z =? 1 then Some Sub else if z =? 2 then Some Mul else
  if z =? 3 then Some Join else if z =? 4 then Some At else if z =? 5 then Some Eq else
  if z =? 6 then Some Lt else if z =? 7 then Some Define else None.
Definition z_of_op1 (o : op1) : Z := match o with Neg => 0 | Size => 1 | Enlist => 2 end.
Definition z_of_op2 (o : op2) : Z :=
  match o with Add => 0 | Sub => 1 | Mul => 2 | Join => 3 | At => 4 | Eq => 5 | Lt => 6 | Define => 7 end.

Fixpoint term_of_sx (fuel : nat) (x : sx) : option term :=
  match fuel with O => None | S f =>
  let many := (fix go (l : list sx) : option (list term) :=
                 match l with
                 | [] => Some []
                 | a :: r => match term_of_sx f a, go r with Some v, Some vs => Some (v :: vs) | _, _ => None end
                 end) in
  let args := fun (a : sx) =>
                match a with
                | SL (SZ z :: rest) => if z =? 0 then Some None else option_map Some (many rest)
                | _ => None
                end in
  match x with
  | SL (SS t :: rest) =>
      if is_tag "i" t then match rest with [SZ z] => Some (TInt z) | _ => None end else
      if is_tag "c" t then match rest with [SZ z] => Some (TChar z) | _ => None end else
      if is_tag "r" t then match rest with [SZ z] => Some (TReal z) | _ => None end else
      if is_tag "py" t then match rest with [SZ z; SL ps] => option_map (TPy z) (sx_get_zs ps) | _ => None end else
      if is_tag "s" t then option_map TStr (sx_get_zs rest) else
      if is_tag "y" t then match rest with [SZ z] => Some (TSym z) | _ => None end else
      if is_tag "n" t then Some TNone else
      if is_tag "a" t then option_map TArr (many rest) else
      if is_tag "p" t then option_map TSeq (many rest) else
      if is_tag "o1" t then
        match rest with
        | [SZ k; a] => match op1_of k, term_of_sx f a with Some o, Some a' => Some (TOp1 o a') | _, _ => None end
        | _ => None end else
      if is_tag "o2" t then
        match rest with
        | [SZ k; a; b] => match op2_of k, term_of_sx f a, term_of_sx f b with
                          | Some o, Some a', Some b' => Some (TOp2 o a' b') | _, _, _ => None end
        | _ => None end else
      if is_tag "q" t then
        match rest with
        | [c; a; b] => match term_of_sx f c, term_of_sx f a, term_of_sx f b with
                       | Some c', Some a', Some b' => Some (TCond c' a' b') | _, _, _ => None end
        | _ => None end else
      if is_tag "f" t then
        match rest with
        | [SZ c; a; ar; SZ n] =>
            match term_of_sx f a, args ar with
            | Some a', Some ar' => Some (TFn (negb (c =? 0)) a' ar' (Z.to_nat n))
            | _, _ => None end
        | _ => None end else None
  | _ => None
  end end.

Definition args_of_sx (fuel : nat) (a : sx) : option (option (list term)) :=
  match a with
  | SL (SZ z :: rest) =>
      if z =? 0 then Some None
      else option_map Some
        ((fix go (l : list sx) : option (list term) :=
            match l with
            | [] => Some []
            | a :: r => match term_of_sx fuel a, go r with Some v, Some vs => Some (v :: vs) | _, _ => None end
            end) rest)
  | _ => None
  end.

Fixpoint sx_of_term (t : term) : sx :=
  let args := fun (a : option (list term)) =>
                match a with None => SL [SZ 0] | Some l => SL (SZ 1 :: map sx_of_term l) end in
  match t with
  | TInt z => SL [sx_w "i"; SZ z]
  | TReal z => SL [sx_w "r"; SZ z]
  | TPy z ps => SL [sx_w "py"; SZ z; SL (map SZ ps)]
  | TStr s => SL (sx_w "s" :: map SZ s)
  | TChar c => SL [sx_w "c"; SZ c]
  | TArr l => SL (sx_w "a" :: map sx_of_term l)
  | TNone => SL [sx_w "n"]
  | TSym s => SL [sx_w "y"; SZ s]
  | TOp1 o a => SL [sx_w "o1"; SZ (z_of_op1 o); sx_of_term a]
  | TOp2 o a b => SL [sx_w "o2"; SZ (z_of_op2 o); sx_of_term a; sx_of_term b]
  | TFn c a ar n => SL [sx_w "f"; sx_bool c; sx_of_term a; args ar; sx_nat n]
  | TCond c a b => SL [sx_w "q"; sx_of_term c; sx_of_term a; sx_of_term b]
  | TSeq l => SL (sx_w "p" :: map sx_of_term l)
  end.

Definition sx_of_args (a : option (list term)) : sx :=
  match a with None => SL [SZ 0] | Some l => SL (SZ 1 :: map sx_of_term l) end.

Definition sx_of_errk (k : errk) : sx :=
  match k with
  | EType => sx_w "type" | EIndex => sx_w "index" | EUndef => sx_w "undef"
  | EUnmodelled => sx_w "unmodelled" | EFuel => sx_w "fuel"
  end.

Definition sx_of_res (r : res) : sx :=
  match r with Ok t => SL [sx_w "ok"; sx_of_term t] | Err k => SL [sx_w "err"; sx_of_errk k] end.

Definition sx_of_frame (f : frame) : sx :=
  SL (map (fun kv => SL [SZ (fst kv); sx_of_term (snd kv)]) f).

Definition sx_of_step (rs : res * state) : sx :=
  SL [sx_of_res (fst rs); sx_nat (List.length (frames (snd rs))); SL (map sx_of_frame (frames (snd rs)))].

Fixpoint many_terms (l : list sx) : option (list term) :=
  match l with
  | [] => Some []
  | a :: r => match term_of_sx 400 a, many_terms r with Some v, Some vs => Some (v :: vs) | _, _ => None end
  end.

Fixpoint many_args (l : list sx) : option (list (option (list term))) :=
  match l with
  | [] => Some []
  | a :: r => match args_of_sx 400 a, many_args r with Some v, Some vs => Some (v :: vs) | _, _ => None end
  end.

Fixpoint all_some {A} (l : list (option A)) : option (list A) :=
  match l with
  | [] => Some []
  | Some a :: r => option_map (cons a) (all_some r)
  | None :: _ => None
  end.

(* the Python callables the harness registers (by id): 0 = boom (always raises), 1 = pyid (returns x),
   2 = pyadd (x + y on integers), 10 = the system function .fc given something that is not a channel (raises) *)
Definition pyfun (id : Z) (vals : list term) : res :=
  if id =? 1 then match vals with v :: _ => Ok v | [] => Err EType end
  else if id =? 2 then match vals with [TInt a; TInt b] => Ok (TInt (a + b)) | _ => Err EUnmodelled end
  else Err EType.

Fixpoint frame_of_sx (l : list sx) : option frame :=
  match l with
  | [] => Some []
  | SL [SZ k; v] :: r =>
      match term_of_sx 400 v, frame_of_sx r with
      | Some v', Some f => Some ((k, v') :: f)
      | _, _ => None
      end
  | _ => None
  end.

(* the outermost frame stands for the system scope: it is not reported *)
Definition sx_of_step_sys (rs : res * state) : sx :=
  let fr := removelast (frames (snd rs)) in
  SL [sx_of_res (fst rs); sx_nat (List.length fr); SL (map sx_of_frame fr)].

Definition dispatch (x : sx) : sx :=
  match x with
  | SL [SS t; SZ fuel; SL progs] =>
      if is_tag "run" t then
        match many_terms progs with
        | Some ps => SL (map sx_of_step (run eval_fn_pop_in_finally merge_restarts_per_fill cond_zero_test_is_exact pyfun (Z.to_nat fuel) init_state ps))
        | None => sx_err "run"
        end
      else if is_tag "op1" t then
        match progs with
        | [a] => match op1_of fuel, term_of_sx 400 a with
                 | Some o, Some a' => sx_of_res (apply1 o a')
                 | _, _ => sx_err "op1" end
        | _ => sx_err "op1"
        end
      else sx_err "op"
  | SL [SS t; SZ fuel; SL progs; SL glob; SL sys] =>
      if is_tag "runs" t then
        match many_terms progs, frame_of_sx glob, frame_of_sx sys with
        | Some ps, Some g, Some sy =>
            SL (map sx_of_step_sys (run eval_fn_pop_in_finally merge_restarts_per_fill cond_zero_test_is_exact pyfun
                                        (Z.to_nat fuel) (mk_state [g; sy] []) ps))
        | _, _, _ => sx_err "runs"
        end
      else sx_err "op"
  | SL [SS t; SL arr] =>
      if is_tag "merge" t then
        match many_args arr with
        | Some a => match merge_projections merge_restarts_per_fill a with
                    | MList o => SL [sx_w "list"; sx_of_args o]
                    | MArr l => SL (sx_w "arr" :: map sx_of_term l)
                    | MErr => SL [sx_w "err"]
                    end
        | None => sx_err "merge"
        end
      else sx_err "op"
  | SL [SS t; base; SL fills] =>
      if is_tag "fill" t then
        match args_of_sx 400 base, many_args fills with
        | Some (Some b), Some fs =>
            match all_some fs with
            | Some fs' => SL (sx_w "arr" :: map sx_of_term (fill_all b fs'))
            | None => SL [sx_w "err"]
            end
        | _, _ => sx_err "fill"
        end
      else sx_err "op"
  | SL [SS t; SZ k; a; b] =>
      if is_tag "op2" t then
        match op2_of k, term_of_sx 400 a, term_of_sx 400 b with
        | Some o, Some a', Some b' => sx_of_res (apply2 o a' b')
        | _, _, _ => sx_err "op2"
        end
      else sx_err "op"
  | _ => sx_err "shape"
  end.

Require Import ExtrOcamlBasic.
Extraction Language OCaml.
Extraction "extracted.ml" dispatch drv_add drv_mul drv_opp drv_div_eucl drv_ltb drv_eqb.
