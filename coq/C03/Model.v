(* C03/Model.v — executable model of the klongpy evaluator core
   (klongpy/interpreter.py: KlongContext, KlongInterpreter.eval / call /
   _eval_fn / _resolve_fn;  klongpy/types.py: merge_projections, has_none).

   One universe of terms, as in the Python code ("Python lists contain programs
   and NumPy arrays contain data", a function value IS its syntax node):

     TInt/TReal/TStr/TChar/TArr   data (int, float, str, KGChar, numpy array)
     TNone                  Python None (an open hole of a projection; also a value once it leaks)
     TSym                   KGSym
     TOp1/TOp2              KGFn(KGOp, args, 1|2)   — operator application nodes
     TFn c a args n         KGFn (c=false) / KGCall (c=true) with .a, .args (None | list), .arity
     TCond / TSeq           KGCond / Python list (program)

   Names are integers; 0,1,2 = x,y,z and 3 = .f (the harness keeps the table).
   No proofs in this file. *)
From Coq Require Import ZArith List Bool.
Import ListNotations.
Open Scope Z_scope.

Definition name := Z.
Definition nX : name := 0.
Definition nY : name := 1.
Definition nZ : name := 2.
Definition nDotF : name := 3.
Definition is_reserved (s : name) : bool := (s =? 0) || (s =? 1) || (s =? 2).   (* reserved_fn_symbols *)

Inductive op1 := Neg | Size | Enlist.
Inductive op2 := Add | Sub | Mul | Join | At | Eq | Lt | Define.

Inductive term :=
| TInt (z : Z)
| TReal (bits : Z)                       (* a Python float, by its IEEE-754 binary64 bit pattern *)
| TStr (s : list Z)
| TChar (c : Z)
| TArr (l : list term)
| TNone
| TSym (s : name)
| TOp1 (o : op1) (a : term)
| TOp2 (o : op2) (a b : term)
| TFn (iscall : bool) (a : term) (args : option (list term)) (arity : nat)
| TCond (c a b : term)
| TSeq (l : list term)
| TPy (id : Z) (params : list name).     (* KGLambda: a Python callable (system function or registered from Python)
                                            with the x y z it takes; its behaviour is the oracle `pyfun id` *)

Inductive errk := EType | EIndex | EUndef | EUnmodelled | EFuel.
Inductive res := Ok (t : term) | Err (k : errk).

(* ------------------------------------------------------------------ *)
(* KlongContext: a stack of frames, head = innermost (deque.appendleft) *)

Definition frame := list (name * term).

Fixpoint lookup (k : name) (f : frame) : option term :=
  match f with
  | [] => None
  | (k', v) :: r => if k =? k' then Some v else lookup k r
  end.

(* dict assignment d[k] = v *)
Fixpoint frame_set (k : name) (v : term) (f : frame) : frame :=
  match f with
  | [] => [(k, v)]
  | (k', v') :: r => if k =? k' then (k', v) :: r else (k', v') :: frame_set k v r
  end.

(* the log is a ghost field: which (name, frame level) was written by __setitem__;
   level 0 = the outermost (global) frame.  No model function reads it. *)
Record state := mk_state { frames : list frame ; log : list (name * nat) }.

(* KlongContext.__getitem__ : search inner to outer *)
Fixpoint ctx_lookup (k : name) (fr : list frame) : option term :=
  match fr with
  | [] => None
  | f :: r => match lookup k f with Some v => Some v | None => ctx_lookup k r end
  end.

(* first scope that has k: returns the updated stack and the level written *)
Fixpoint set_existing (k : name) (v : term) (fr : list frame) : option (list frame * nat) :=
  match fr with
  | [] => None
  | f :: r =>
      match lookup k f with
      | Some _ => Some (frame_set k v f :: r, length r)
      | None => match set_existing k v r with
                | Some (r', lv) => Some (f :: r', lv)
                | None => None
                end
      end
  end.

(* KlongContext.__setitem__ (strict_mode 0): reserved names always go to the innermost
   frame; other names to the first scope that has them, else to the innermost frame *)
Definition ctx_set (k : name) (v : term) (st : state) : state :=
  let innermost :=
    match frames st with
    | [] => st
    | f :: r => mk_state (frame_set k v f :: r) ((k, length r) :: log st)
    end in
  if is_reserved k then innermost
  else match set_existing k v (frames st) with
       | Some (fr', lv) => mk_state fr' ((k, lv) :: log st)
       | None => innermost
       end.

Definition push (c : frame) (st : state) : state := mk_state (c :: frames st) (log st).
(* pop (the system scopes are not modelled, so the guard len > min_ctx_count is len > 0) *)
Definition pop (st : state) : state := mk_state (tl (frames st)) (log st).

(* ------------------------------------------------------------------ *)
(* types.py helpers *)

Definition is_none (t : term) : bool := match t with TNone => true | _ => false end.

(* has_none(a): only a Python *list* is inspected *)
Definition has_none (a : option (list term)) : bool :=
  match a with Some l => existsb is_none l | None => false end.

Fixpoint drop_nones (l : list term) : list term :=
  match l with
  | TNone :: r => drop_nones r
  | _ => l
  end.

(* merge_projections, klongpy/types.py (after the C03 fix): for every further argument
   list, restart at the first position and put its entries, one by one, into the holes
   still open (an entry that is itself None leaves its hole open):
       for fa in arr[1:]:
           i = 0
           for a in fa:
               while i < n and sparse[i] is not None: i += 1
               if i >= n: break
               sparse[i] = a ; i += 1                                      *)
Fixpoint fill_once (sp : list term) (fa : list term) : list term :=
  match sp with
  | [] => []
  | s :: sp' =>
      if is_none s then
        match fa with
        | [] => sp
        | a :: fa' => a :: fill_once sp' fa'
        end
      else s :: fill_once sp' fa
  end.

(* the loops of the pinned tree (before the fix): the position i is carried over from
   one argument list to the next and holes inside an argument list are skipped after a
   store.  Kept for the refutation witness and the replay of the old behaviour.
   returns (processed prefix, rest of sparse) *)
Fixpoint old_inner (sp : list term) (fa : list term) : list term * list term :=
  match sp with
  | [] => ([], [])
  | s :: sp' =>
      match fa with
      | [] => ([], sp)
      | a :: fa' =>
          if is_none s then
            let (p, r) := old_inner sp' (drop_nones fa') in (a :: p, r)
          else
            let (p, r) := old_inner sp' fa in (s :: p, r)
      end
  end.

Inductive mres :=
| MList (a : option (list term))     (* arr[0] itself: a Python list or None *)
| MArr (l : list term)               (* a numpy object array: has_none() does not look inside *)
| MErr.                              (* len(None) *)

Fixpoint old_outer (sp : list term) (fills : list (option (list term))) : option (list term) :=
  match sp with
  | [] => Some []
  | _ =>
    match fills with
    | [] => Some sp
    | None :: _ => None
    | Some fa :: more =>
        let (p, r) := old_inner sp fa in
        match old_outer r more with
        | Some r' => Some (p ++ r')
        | None => None
        end
    end
  end.

Fixpoint new_outer (sp : list term) (fills : list (option (list term))) : option (list term) :=
  match fills with
  | [] => Some sp
  | None :: _ => None
  | Some fa :: more => new_outer (fill_once sp fa) more
  end.

Definition merge_projections (fixed : bool) (arr : list (option (list term))) : mres :=
  match arr with
  | [] => MList (Some [])
  | a0 :: rest =>
      match rest with
      | [] => MList a0
      | _ =>
        if negb (has_none a0) then MList a0
        else match a0 with
             | None => MList a0
             | Some l0 =>
                 match (if fixed then new_outer l0 rest else old_outer l0 rest) with
                 | Some l => MArr l
                 | None => MErr
                 end
             end
      end
  end.

(* ------------------------------------------------------------------ *)
(* the handful of verbs of the closed grammar; anything outside the modelled
   domain is EUnmodelled (the correspondence skips and counts such cases) *)

Fixpoint all_int (l : list term) : option (list Z) :=
  match l with
  | [] => Some []
  | TInt z :: r => match all_int r with Some zs => Some (z :: zs) | None => None end
  | _ => None
  end.

Definition ints (l : list Z) : term := TArr (map TInt l).

Fixpoint zip_with (f : Z -> Z -> Z) (a b : list Z) : list Z :=
  match a, b with
  | x :: a', y :: b' => f x y :: zip_with f a' b'
  | _, _ => []
  end.

(* what numpy raises on for a numeric ufunc with one numeric operand *)
Definition non_numeric_scalar (t : term) : bool :=
  match t with TStr _ | TChar _ | TSym _ | TNone | TFn _ _ _ _ => true | _ => false end.

Definition numeric (f : Z -> Z -> Z) (a b : term) : res :=
  match a, b with
  | TInt x, TInt y => Ok (TInt (f x y))
  | TInt x, TArr l => match all_int l with Some zs => Ok (ints (map (f x) zs)) | None => Err EUnmodelled end
  | TArr l, TInt y => match all_int l with Some zs => Ok (ints (map (fun x => f x y) zs)) | None => Err EUnmodelled end
  | TArr la, TArr lb =>
      match all_int la, all_int lb with
      | Some xs, Some ys =>
          if (length xs =? length ys)%nat then Ok (ints (zip_with f xs ys))
          else if (length xs =? 1)%nat || (length ys =? 1)%nat then Err EUnmodelled    (* numpy broadcasting *)
          else Err EType
      | _, _ => Err EUnmodelled
      end
  | TInt _, _ => if non_numeric_scalar b then Err EType else Err EUnmodelled
  | _, TInt _ => if non_numeric_scalar a then Err EType else Err EUnmodelled
  | TArr la, _ =>
      match all_int la with
      | Some (_ :: _) => if non_numeric_scalar b then Err EType else Err EUnmodelled
      | _ => Err EUnmodelled
      end
  | _, TArr lb =>
      match all_int lb with
      | Some (_ :: _) => if non_numeric_scalar a then Err EType else Err EUnmodelled
      | _ => Err EUnmodelled
      end
  | _, _ => Err EUnmodelled
  end.

Definition b2z (b : bool) : Z := if b then 1 else 0.

Definition compare2 (f : Z -> Z -> bool) (a b : term) : res :=
  match a, b with
  | TInt x, TInt y => Ok (TInt (b2z (f x y)))
  | TInt x, TArr l => match all_int l with Some (z :: zs) => Ok (ints (map (fun y => b2z (f x y)) (z :: zs))) | _ => Err EUnmodelled end
  | TArr l, TInt y => match all_int l with Some (z :: zs) => Ok (ints (map (fun x => b2z (f x y)) (z :: zs))) | _ => Err EUnmodelled end
  | TArr la, TArr lb =>
      match all_int la, all_int lb with
      | Some (x :: xs), Some (y :: ys) =>
          if (length xs =? length ys)%nat then Ok (ints (zip_with (fun p q => b2z (f p q)) (x :: xs) (y :: ys)))
          else Err EUnmodelled
      | _, _ => Err EUnmodelled
      end
  | _, _ => Err EUnmodelled
  end.

Definition str_like (t : term) : option (list Z) :=
  match t with TStr s => Some s | TChar c => Some [c] | _ => None end.

Definition as_list (t : term) : list term := match t with TArr l => l | _ => [t] end.

Definition has_arr (l : list term) : bool := existsb (fun t => match t with TArr _ => true | _ => false end) l.
(* an array of rank >= 3 (or ragged with that depth): kg_asarray of the joined list is outside the model *)
Definition deep (t : term) : bool :=
  match t with
  | TArr l => existsb (fun e => match e with TArr l2 => has_arr l2 | _ => false end) l
  | _ => false
  end.

(* eval_dyad_join *)
Definition join (a b : term) : res :=
  match str_like a, str_like b with
  | Some x, Some y => Ok (TStr (x ++ y))
  | _, _ =>
      match a, b with
      | TSeq _, _ | _, TSeq _ | TReal _, _ | _, TReal _ => Err EUnmodelled      (* kg_asarray makes [1 0.5] all-real *)
      | _, _ => if deep a || deep b then Err EUnmodelled else Ok (TArr (as_list a ++ as_list b))
      end
  end.

(* Python indexing a[i] with negative wrap-around *)
Definition py_nth {A} (l : list A) (i : Z) : option A :=
  let n := Z.of_nat (length l) in
  if (0 <=? i) && (i <? n) then nth_error l (Z.to_nat i)
  else if (i <? 0) && (0 <=? i + n) then nth_error l (Z.to_nat (i + n))
  else None.

Fixpoint index_many {A} (l : list A) (is : list term) : option (option (list A)) :=
  (* None = unmodelled (nested index); Some None = error; Some (Some r) *)
  match is with
  | [] => Some (Some [])
  | TInt i :: r =>
      match py_nth l i with
      | None => Some None
      | Some v => match index_many l r with
                  | Some (Some vs) => Some (Some (v :: vs))
                  | o => o
                  end
      end
  | TArr _ :: _ | TSeq _ :: _ => None
  | _ :: _ => Some None
  end.

(* eval_dyad_at_index for a non-function left operand *)
Definition index_at (a b : term) : res :=
  match str_like a with
  | Some s =>
      match b with
      | TArr [] => Ok (TStr [])
      | TArr is => match index_many s is with
                   | Some (Some cs) => Ok (TStr cs)
                   | Some None => Err EIndex
                   | None => Err EUnmodelled
                   end
      | TInt i => match py_nth s i with Some c => Ok (TChar c) | None => Err EIndex end
      | TSeq _ => Err EUnmodelled
      | _ => Ok (TStr s)
      end
  | None =>
      match a with
      | TArr l =>
          match b with
          | TArr [] => Ok (TArr [])
          | TArr is => match index_many l is with
                       | Some (Some vs) => Ok (TArr vs)
                       | Some None => Err EIndex
                       | None => Err EUnmodelled
                       end
          | TInt i => match py_nth l i with Some v => Ok v | None => Err EIndex end
          | TSeq _ => Err EUnmodelled
          | _ => Ok a
          end
      | TInt _ | TNone =>
          match b with
          | TArr [] => Ok (TArr [])
          | TArr _ => Err EType
          | TInt _ => Err EType
          | TSeq _ => Err EUnmodelled
          | _ => Ok a
          end
      | _ => Err EUnmodelled
      end
  end.

Definition apply2 (o : op2) (a b : term) : res :=
  match o with
  | Add => match str_like a, str_like b with
           | Some _, Some _ => Err EUnmodelled       (* numpy 2 adds strings *)
           | _, _ => numeric Z.add a b
           end
  | Sub => numeric Z.sub a b
  | Mul => numeric Z.mul a b
  | Join => join a b
  | Eq => compare2 Z.eqb a b
  | Lt => compare2 Z.ltb a b
  | At => index_at a b
  | Define => Err EUnmodelled
  end.

Definition apply1 (o : op1) (a : term) : res :=
  match o with
  | Neg => match a with
           | TInt z => Ok (TInt (- z))
           | TStr [] => Err EUnmodelled
           | TReal _ | TPy _ _ => Err EUnmodelled
           | TArr l => match all_int l with Some zs => Ok (ints (map Z.opp zs)) | None => Err EUnmodelled end
           | TSeq _ => Err EUnmodelled
           | _ => Err EType
           end
  | Size => match a with
            | TInt z => Ok (TInt (Z.abs z))
            | TChar c => Ok (TInt c)
            | TStr s => Ok (TInt (Z.of_nat (length s)))
            | TArr l => Ok (TInt (Z.of_nat (length l)))
            | TNone | TFn _ _ _ _ => Err EType
            | _ => Err EUnmodelled
            end
  | Enlist => match a with
              | TChar c => Ok (TStr [c])
              | TSeq _ => Err EUnmodelled
              | _ => Ok (TArr [a])
              end
  end.

(* zero test of a float: +0.0 and -0.0 *)
Definition real_is_zero (b : Z) : bool := (b =? 0) || (b =? 9223372036854775808).
(* |x| <= 1e-8, what a tolerance comparison (numpy.isclose) with 0 accepts; NaN is not *)
Definition real_near_zero (b : Z) : bool :=
  let mag := if b <? 9223372036854775808 then b else b - 9223372036854775808 in
  mag <=? 4487126258331716666.

(* Klong truth as written in eval(): not ((is_number(q) and q == 0) or is_empty(q)).
   `exact` = the regenerated fact that the zero test is `q == 0` (Generated.cond_zero_test_is_exact);
   otherwise the model takes the tolerance reading of "equal to 0". *)
Definition truthy (exact : bool) (q : term) : bool :=
  match q with
  | TInt z => negb (z =? 0)
  | TReal b => negb (if exact then real_is_zero b else real_near_zero b)
  | TStr [] => false
  | TArr [] => false
  | TSeq [] => false
  | _ => true
  end.

(* ------------------------------------------------------------------ *)
(* call / eval / _eval_fn / _resolve_fn *)

(* call(x) = eval(KGCall(x.a, x.args, x.arity) if isinstance(x, KGFn) else x) *)
Definition as_call (t : term) : term :=
  match t with
  | TFn _ a args n => TFn true a args n
  | _ => t
  end.

Definition is_kgfn (t : term) : bool :=
  match t with TFn _ _ _ _ | TOp1 _ _ | TOp2 _ _ _ | TPy _ _ => true | _ => false end.   (* isinstance(_f, (KGFn, KGLambda)) *)

Definition rargs := list (option (list term)).

(* _resolve_fn; None = KlongException("undefined") *)
Definition resolve_fn (fr : list frame) (f : term) (f_args : rargs) (f_arity : nat)
  : option (term * rargs * nat) :=
  let step2 (f : term) :=
    match f with
    | TFn _ fa fargs farity =>
        if (0 <? f_arity)%nat then
          match fargs with
          | None => Some (fa, f_args, farity)
          | Some l => if has_none fargs then Some (fa, f_args ++ [Some l], farity)
                      else Some (f, f_args, f_arity)
          end
        else Some (f, f_args, f_arity)
    | _ => Some (f, f_args, f_arity)
    end in
  match f with
  | TSym s =>
      match ctx_lookup s fr with
      | Some _f => if is_kgfn _f || negb (is_reserved s) then step2 _f
                   else Some (f, f_args, f_arity)
      | None => if is_reserved s then step2 f else None
      end
  | _ => step2 f
  end.

Definition resolve3 (fr : list frame) (f : term) (f_args : rargs) (f_arity : nat) :=
  match resolve_fn fr f f_args f_arity with
  | None => None
  | Some (f1, a1, n1) =>
      match resolve_fn fr f1 a1 n1 with
      | None => None
      | Some (f2, a2, n2) => resolve_fn fr f2 a2 n2
      end
  end.

(* the local-declaration rule of _eval_fn: body is a program whose first element is a
   non-empty array consisting of symbols only *)
Fixpoint all_syms (l : list term) : option (list name) :=
  match l with
  | [] => Some []
  | TSym s :: r => match all_syms r with Some ss => Some (s :: ss) | None => None end
  | _ => None
  end.

(* the declaration must be an array literal (data) in first position of a program — a plain
   Python list of at least two expressions; KGCond / expression arrays are single expressions *)
Definition local_decl (f : term) : option (list name * term) :=
  match f with
  | TSeq (TArr (d :: ds) :: b :: bs) =>
      match all_syms (d :: ds) with
      | Some ss => Some (ss, TSeq (b :: bs))
      | None => None
      end
  | _ => None
  end.

Fixpoint add_locals (ss : list name) (c : frame) : frame :=
  match ss with
  | [] => c
  | s :: r => add_locals r (match lookup s c with Some _ => c | None => frame_set s (TSym s) c end)
  end.

(* what _eval_fn reads off the merged argument list: its length, whether has_none() sees a
   hole (only in a Python list, not in the numpy array of the merge), the entries *)
Definition merged_info (m : mres) : nat * bool * list term :=
  match m with
  | MList None => (0%nat, false, [])
  | MList (Some l) => (length l, existsb is_none l, l)
  | MArr l => (length l, false, l)
  | MErr => (0%nat, false, [])
  end.

Fixpoint lookup_all (ks : list name) (fr : list frame) : option (list term) :=
  match ks with
  | [] => Some []
  | k :: r => match ctx_lookup k fr, lookup_all r fr with
              | Some v, Some vs => Some (v :: vs)
              | _, _ => None
              end
  end.

(* the new frame and the program to run in it: x y z, then .f = the function including its
   declaration, then the declared locals bound to themselves unless they are parameters *)
Definition bind_frame (f : term) (vs : list term) : frame * term :=
  let c0 := frame_set nDotF f (combine [nX; nY; nZ] vs) in
  match local_decl f with
  | Some (ss, body) => (add_locals ss c0, body)
  | None => (c0, f)
  end.

Section Step.
  (* `fin` : the pop of _eval_fn sits in a `finally:` (Generated.eval_fn_pop_in_finally) *)
  Variable fin : bool.
  Variable fixed_merge : bool.
  (* the zero test of a conditional is `q == 0` (Generated.cond_zero_test_is_exact) *)
  Variable exact_truth : bool.
  (* Python callables are opaque, possibly failing oracles on their argument values; they are
     assumed not to call back into the interpreter *)
  Variable pyfun : Z -> list term -> res.
  (* the evaluator one fuel level below *)
  Variable ev : state -> term -> res * state.

  Definition callv (st : state) (t : term) : res * state := ev st (as_call t).

  (* {p: self.call(q) for p,q in zip(reserved_fn_args, f_args)} — left to right, in the caller's context *)
  Fixpoint eval_args (st : state) (l : list term) : option (list term) * errk * state :=
    match l with
    | [] => (Some [], EType, st)
    | q :: r =>
        let (rq, st1) := callv st q in
        match rq with
        | Err k => (None, k, st1)
        | Ok v =>
            let '(o, k, st2) := eval_args st1 r in
            match o with
            | Some vs => (Some (v :: vs), k, st2)
            | None => (None, k, st2)
            end
        end
    end.

  (* [self.call(y) for y in x][-1] *)
  Fixpoint eval_seq (st : state) (l : list term) (last : term) : res * state :=
    match l with
    | [] => (Ok last, st)
    | y :: r =>
        let (ry, st1) := callv st y in
        match ry with
        | Err k => (Err k, st1)
        | Ok v => eval_seq st1 r v
        end
    end.

  Definition eval_fn (st : state) (x : term) (xa : term) (xargs : option (list term)) (xarity : nat)
    : res * state :=
    match resolve3 (frames st) xa [xargs] xarity with
    | None => (Err EUndef, st)
    | Some (f, f_args, f_arity) =>
        match merge_projections fixed_merge (rev f_args) with
        | MErr => (Err EType, st)
        | m =>
            let '(n, holes, args) := merged_info m in
            (* (0 if f_args is None else len(f_args)) < f_arity or has_none(f_args) *)
            if (n <? f_arity)%nat || holes then (Ok x, st)
            else
              let '(o, k, st1) := eval_args st (firstn 3 args) in
              match o with
              | None => (Err k, st1)
              | Some vs =>
                  let (c2, f1) := bind_frame f vs in
                  let (r, st2) :=
                    match f1 with
                    | TPy id params =>
                        (* f(self, self._context): the positional arguments are read through the whole stack *)
                        let st2 := push c2 st1 in
                        (match lookup_all params (frames st2) with
                         | Some vals => pyfun id vals
                         | None => Err EUndef
                         end, st2)
                    | _ => callv (push c2 st1) f1
                    end in
                  match r with
                  | Ok _ => (r, pop st2)
                  | Err _ => if fin then (r, pop st2) else (r, st2)
                  end
              end
        end
    end.

  (* the argument list handed to KGCall by eval_dyad_at_index *)
  Definition at_args (b : term) : list term :=
    match b with TArr l => l | TSeq l => l | _ => [b] end.

  Definition eval_step (st : state) (t : term) : res * state :=
    match t with
    | TSym s =>
        match ctx_lookup s (frames st) with
        | Some v => (Ok v, st)
        | None => if is_reserved s then (Ok t, st) else (Ok t, ctx_set s t st)
        end
    | TOp1 o a =>
        let (ra, st1) := ev st a in
        match ra with
        | Err k => (Err k, st1)
        | Ok va => (apply1 o va, st1)
        end
    | TOp2 Define a b =>
        let (rb, st1) := ev st b in
        match rb with
        | Err k => (Err k, st1)
        | Ok vb => match a with
                   | TSym s => (Ok vb, ctx_set s vb st1)
                   | _ => (Err EUnmodelled, st1)
                   end
        end
    | TOp2 o a b =>
        (* _y = self.eval(fa[1]) comes first *)
        let (rb, st1) := ev st b in
        match rb with
        | Err k => (Err k, st1)
        | Ok vb =>
            let (ra, st2) := ev st1 a in
            match ra with
            | Err k => (Err k, st2)
            | Ok va =>
                match o with
                | At =>
                    match va with
                    | TSym _ | TFn _ _ _ _ | TPy _ _ => ev st2 (TFn true va (Some (at_args vb)) 1)
                    | _ => (apply2 o va vb, st2)
                    end
                | _ => (apply2 o va vb, st2)
                end
            end
        end
    | TFn true a args n => eval_fn st t a args n
    | TCond c a b =>
        let (rc, st1) := callv st c in
        match rc with
        | Err k => (Err k, st1)
        | Ok q => if truthy exact_truth q then callv st1 a else callv st1 b
        end
    | TSeq (y :: r) =>
        let (ry, st1) := callv st y in
        match ry with
        | Err k => (Err k, st1)
        | Ok v => eval_seq st1 r v
        end
    | _ => (Ok t, st)
    end.
End Step.

Fixpoint eval (fin fixed_merge exact_truth : bool) (pyfun : Z -> list term -> res)
              (fuel : nat) (st : state) (t : term) : res * state :=
  match fuel with
  | O => (Err EFuel, st)
  | S f => eval_step fin fixed_merge exact_truth pyfun (eval fin fixed_merge exact_truth pyfun f) st t
  end.

Definition call (fin fixed_merge exact_truth : bool) (pyfun : Z -> list term -> res)
                (fuel : nat) (st : state) (t : term) : res * state :=
  eval fin fixed_merge exact_truth pyfun fuel st (as_call t).

Definition init_state : state := mk_state [[]] [].

(* run a list of top-level statements, each like KlongInterpreter.__call__ on its own
   text (an exception ends that statement only) *)
Fixpoint run (fin fixed_merge exact_truth : bool) (pyfun : Z -> list term -> res)
             (fuel : nat) (st : state) (progs : list term) : list (res * state) :=
  match progs with
  | [] => []
  | p :: r =>
      let (rp, st1) := call fin fixed_merge exact_truth pyfun fuel st p in
      (rp, st1) :: run fin fixed_merge exact_truth pyfun fuel st1 r
  end.
