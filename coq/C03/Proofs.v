(* C03/Proofs.v — lemmas about the evaluator model. *)
From Coq Require Import ZArith List Bool Lia.
From C03 Require Import Model Spec.
Import ListNotations.

(* ------------------------------------------------------------------ *)
(* frames: levels, the relation `rel`, `good` *)

(* value of v in the frame at level j (0 = outermost) *)
Fixpoint lvl (fr : list frame) (j : nat) (v : name) : option term :=
  match fr with
  | [] => None
  | f :: r => if Nat.eqb j (length r) then lookup v f else lvl r j v
  end.

Definition rel (w : list (name * nat)) (fr fr' : list frame) : Prop :=
  length fr = length fr' /\
  forall v j, ~ In (v, j) w -> lvl fr' j v = lvl fr j v.

Definition good (st st' : state) : Prop :=
  exists w, log st' = w ++ log st /\ rel w (frames st) (frames st').

Lemma lvl_out fr j v : (length fr <= j)%nat -> lvl fr j v = None.
Proof.
  induction fr as [|f r IH]; intros H; [reflexivity|].
  cbn [lvl length] in *. destruct (Nat.eqb_spec j (length r)); [lia|]. apply IH. lia.
Qed.

Lemma good_refl st : good st st.
Proof. exists []. split; [reflexivity|]. split; auto. Qed.

Lemma good_trans a b c : good a b -> good b c -> good a c.
Proof.
  intros (w1 & L1 & N1 & R1) (w2 & L2 & N2 & R2).
  exists (w2 ++ w1). split; [rewrite L2, L1, app_assoc; reflexivity|].
  split; [congruence|].
  intros v j Hn. rewrite R2, R1; auto; intros Hi; apply Hn, in_or_app; auto.
Qed.

Lemma lookup_frame_set_same k v f : lookup k (frame_set k v f) = Some v.
Proof.
  induction f as [|[k' v'] r IH]; cbn [frame_set lookup].
  - rewrite Z.eqb_refl. reflexivity.
  - destruct (Z.eqb_spec k k') as [->|Hne]; cbn [lookup].
    + rewrite Z.eqb_refl. reflexivity.
    + destruct (Z.eqb_spec k k'); [contradiction|]. exact IH.
Qed.

Lemma lookup_frame_set_other k v f u : u <> k -> lookup u (frame_set k v f) = lookup u f.
Proof.
  intros Hne. induction f as [|[k' v'] r IH]; cbn [frame_set lookup].
  - destruct (Z.eqb_spec u k); [contradiction|reflexivity].
  - destruct (Z.eqb_spec k k') as [->|Hkk]; cbn [lookup].
    + destruct (Z.eqb_spec u k'); [contradiction|reflexivity].
    + destruct (Z.eqb_spec u k'); [reflexivity|exact IH].
Qed.

(* writing key k in the frame at level (length r) *)
Lemma rel_set_head k v f r :
  rel [(k, length r)] (f :: r) (frame_set k v f :: r).
Proof.
  split; [reflexivity|].
  intros u j Hn. cbn [lvl]. destruct (Nat.eqb_spec j (length r)) as [->|Hj]; [|reflexivity].
  apply lookup_frame_set_other. intros ->. apply Hn. left; reflexivity.
Qed.

Lemma set_existing_rel k v fr fr' lv :
  set_existing k v fr = Some (fr', lv) -> rel [(k, lv)] fr fr'.
Proof.
  revert fr' lv. induction fr as [|f r IH]; intros fr' lv H; cbn [set_existing] in H; [discriminate|].
  destruct (lookup k f) eqn:E.
  - inversion H; subst. apply rel_set_head.
  - destruct (set_existing k v r) as [[r' lv']|] eqn:E2; [|discriminate].
    inversion H; subst. destruct (IH _ _ eq_refl) as [Hl Hr].
    split; [cbn [length]; congruence|].
    intros u j Hn. cbn [lvl]. rewrite <- Hl.
    destruct (Nat.eqb j (length r)); [reflexivity|]. apply Hr, Hn.
Qed.

Lemma good_ctx_set k v st : good st (ctx_set k v st).
Proof.
  unfold ctx_set.
  assert (Hin : good st match frames st with
                        | [] => st
                        | f :: r => mk_state (frame_set k v f :: r) ((k, length r) :: log st)
                        end).
  { destruct st as [fr lg]; cbn [frames log]. destruct fr as [|f r]; [apply good_refl|].
    exists [(k, length r)]. split; [reflexivity|]. apply rel_set_head. }
  destruct (is_reserved k); [exact Hin|].
  destruct (set_existing k v (frames st)) as [[fr' lv]|] eqn:E; [|exact Hin].
  exists [(k, lv)]. split; [reflexivity|]. cbn [frames]. eapply set_existing_rel; eauto.
Qed.

Lemma good_push_pop c st1 st2 : good (push c st1) st2 -> good st1 (pop st2).
Proof.
  intros (w & L & N & R). exists w. split; [exact L|].
  unfold push, pop in *. cbn [frames log] in *.
  destruct (frames st2) as [|c' r2]; [discriminate|]. cbn [tl].
  cbn [length] in N. injection N as N.
  split; [exact N|].
  intros v j Hn. specialize (R v j Hn). cbn [lvl] in R. rewrite <- N in R.
  destruct (Nat.eqb_spec j (length (frames st1))) as [Hj|Hj]; [|exact R].
  rewrite (lvl_out r2) by lia. rewrite (lvl_out (frames st1)) by lia. reflexivity.
Qed.

(* ------------------------------------------------------------------ *)
(* T3.frames: one fuel level *)

Definition ev_good (ev : state -> term -> res * state) : Prop :=
  forall st t r st', ev st t = (r, st') -> good st st'.

Section StepGood.
  Variable fm : bool.
  Variable tx : bool.
  Variable pf : Z -> list term -> res.
  Variable ev : state -> term -> res * state.
  Hypothesis Hev : ev_good ev.

  Lemma callv_good st t r st' : callv ev st t = (r, st') -> good st st'.
  Proof. unfold callv. apply Hev. Qed.

  Lemma eval_args_good l : forall st o k st', eval_args ev st l = (o, k, st') -> good st st'.
  Proof.
    induction l as [|q r IH]; intros st o k st' H; cbn [eval_args] in H.
    - inversion H; subst. apply good_refl.
    - destruct (callv ev st q) as [rq st1] eqn:E1. apply callv_good in E1.
      destruct rq as [v|k1].
      + destruct (eval_args ev st1 r) as [[o2 k2] st2] eqn:E2. apply IH in E2.
        destruct o2; inversion H; subst; eapply good_trans; eauto.
      + inversion H; subst. exact E1.
  Qed.

  Lemma eval_seq_good l : forall st last r st', eval_seq ev st l last = (r, st') -> good st st'.
  Proof.
    induction l as [|y l IH]; intros st last r st' H; cbn [eval_seq] in H.
    - inversion H; subst. apply good_refl.
    - destruct (callv ev st y) as [ry st1] eqn:E1. apply callv_good in E1.
      destruct ry as [v|k].
      + apply IH in H. eapply good_trans; eauto.
      + inversion H; subst. exact E1.
  Qed.

  Lemma body_good c2 st1 f1 rr st2 :
    match f1 with
    | TPy id params =>
        (match lookup_all params (frames (push c2 st1)) with
         | Some vals => pf id vals
         | None => Err EUndef
         end, push c2 st1)
    | _ => callv ev (push c2 st1) f1
    end = (rr, st2) -> good (push c2 st1) st2.
  Proof.
    destruct f1; intros H; try (apply callv_good in H; exact H).
    inversion H; subst. apply good_refl.
  Qed.

  Lemma eval_fn_good st x xa xargs xarity r st' :
    eval_fn true fm pf ev st x xa xargs xarity = (r, st') -> good st st'.
  Proof.
    unfold eval_fn. intros H.
    destruct (resolve3 (frames st) xa [xargs] xarity) as [[[f f_args] f_arity]|];
      [|inversion H; subst; apply good_refl].
    destruct (merge_projections fm (rev f_args)) as [a|l|] eqn:EM;
      [| |inversion H; subst; apply good_refl].
    - (* MList *)
      destruct (merged_info (MList a)) as [[n holes] args].
      destruct ((n <? f_arity)%nat || holes); [inversion H; subst; apply good_refl|].
      destruct (eval_args ev st (firstn 3 args)) as [[o k] st1] eqn:EA. apply eval_args_good in EA.
      destruct o as [vs|]; [|inversion H; subst; exact EA].
      destruct (bind_frame f vs) as [c2 f1].
      match type of H with (let (r0, st2) := ?X in _) = _ => destruct X as [rr st2] eqn:EB end.
      apply body_good in EB.
      apply good_push_pop in EB.
      destruct rr; inversion H; subst; eapply good_trans; eauto.
    - (* MArr *)
      destruct (merged_info (MArr l)) as [[n holes] args].
      destruct ((n <? f_arity)%nat || holes); [inversion H; subst; apply good_refl|].
      destruct (eval_args ev st (firstn 3 args)) as [[o k] st1] eqn:EA. apply eval_args_good in EA.
      destruct o as [vs|]; [|inversion H; subst; exact EA].
      destruct (bind_frame f vs) as [c2 f1].
      match type of H with (let (r0, st2) := ?X in _) = _ => destruct X as [rr st2] eqn:EB end.
      apply body_good in EB.
      apply good_push_pop in EB.
      destruct rr; inversion H; subst; eapply good_trans; eauto.
  Qed.

  Lemma step_good : ev_good (eval_step true fm tx pf ev).
  Proof.
    intros st t r st' H. destruct t; cbn [eval_step] in H;
      try (inversion H; subst; apply good_refl).
    - (* TSym *)
      destruct (ctx_lookup s (frames st)); [inversion H; subst; apply good_refl|].
      destruct (is_reserved s); inversion H; subst; [apply good_refl|apply good_ctx_set].
    - (* TOp1 *)
      destruct (ev st t) as [ra st1] eqn:E1. apply Hev in E1.
      destruct ra; inversion H; subst; exact E1.
    - (* TOp2 *)
      assert (Hgen : forall st0 rb st1 (E1 : good st0 st1) rr st2,
                 (match rb with
                  | Err k => (Err k, st1)
                  | Ok vb =>
                      let (ra, st2) := ev st1 t1 in
                      match ra with
                      | Err k => (Err k, st2)
                      | Ok va =>
                          match o with
                          | At => match va with
                                  | TSym _ | TFn _ _ _ _ | TPy _ _ => ev st2 (TFn true va (Some (at_args vb)) 1)
                                  | _ => (apply2 o va vb, st2)
                                  end
                          | _ => (apply2 o va vb, st2)
                          end
                      end
                  end) = (rr, st2) -> good st0 st2).
      { intros st0 rb st1 E1 rr st2 HH. destruct rb as [vb|k]; [|inversion HH; subst; exact E1].
        destruct (ev st1 t1) as [ra st2'] eqn:E2. apply Hev in E2.
        destruct ra as [va|k]; [|inversion HH; subst; eapply good_trans; eauto].
        assert (G : good st0 st2') by (eapply good_trans; eauto).
        destruct o; try (inversion HH; subst; exact G).
        destruct va; try (inversion HH; subst; exact G);
          apply Hev in HH; eapply good_trans; eauto. }
      destruct o.
      1-7: destruct (ev st t2) as [rb st1] eqn:E1; apply Hev in E1; eapply Hgen; eauto.
      (* Define *)
      destruct (ev st t2) as [rb st1] eqn:E1. apply Hev in E1.
      destruct rb as [vb|k]; [|inversion H; subst; exact E1].
      destruct t1; inversion H; subst; try exact E1.
      eapply good_trans; [exact E1|apply good_ctx_set].
    - (* TFn *)
      destruct iscall; [|inversion H; subst; apply good_refl].
      eapply eval_fn_good; eauto.
    - (* TCond *)
      destruct (callv ev st t1) as [rc st1] eqn:E1. apply callv_good in E1.
      destruct rc as [q|k]; [|inversion H; subst; exact E1].
      destruct (truthy tx q); apply callv_good in H; eapply good_trans; eauto.
    - (* TSeq *)
      destruct l as [|y l]; [inversion H; subst; apply good_refl|].
      destruct (callv ev st y) as [ry st1] eqn:E1. apply callv_good in E1.
      destruct ry as [v|k]; [|inversion H; subst; exact E1].
      apply eval_seq_good in H. eapply good_trans; eauto.
  Qed.
End StepGood.

Lemma eval_good fm tx pf fuel : ev_good (eval true fm tx pf fuel).
Proof.
  induction fuel as [|f IH]; intros st t r st' H; cbn [eval] in H.
  - inversion H; subst. apply good_refl.
  - eapply step_good; eauto.
Qed.

(* ------------------------------------------------------------------ *)
(* T3.frames: statement over all fuel, programs and outcomes *)

Lemma ctx_lookup_lvl v : forall fr fr',
  length fr = length fr' -> (forall j, lvl fr' j v = lvl fr j v) -> ctx_lookup v fr' = ctx_lookup v fr.
Proof.
  induction fr as [|f r IH]; intros [|f' r'] HL H; try discriminate; [reflexivity|].
  cbn [length] in HL. injection HL as HL. cbn [ctx_lookup].
  pose proof (H (length r)) as H0. cbn [lvl] in H0. rewrite <- HL, Nat.eqb_refl in H0. rewrite H0.
  destruct (lookup v f); [reflexivity|]. apply IH; [exact HL|].
  intros j. destruct (Nat.eqb_spec j (length r)) as [E|E].
  - rewrite (lvl_out r) by lia. rewrite (lvl_out r') by lia. reflexivity.
  - specialize (H j). cbn [lvl] in H. rewrite <- HL in H.
    destruct (Nat.eqb_spec j (length r)); [contradiction|]. exact H.
Qed.

Lemma frames_restored fm tx pf fuel st e r st' :
  eval true fm tx pf fuel st e = (r, st') ->
  length (frames st') = length (frames st) /\
  exists w, log st' = w ++ log st /\
    (forall v j, ~ In (v, j) w -> lvl (frames st') j v = lvl (frames st) j v) /\
    (forall v, (forall j, ~ In (v, j) w) -> ctx_lookup v (frames st') = ctx_lookup v (frames st)).
Proof.
  intros H. apply eval_good in H. destruct H as (w & L & N & R).
  split; [symmetry; exact N|]. exists w. split; [exact L|]. split; [exact R|].
  intros v Hv. apply ctx_lookup_lvl; [exact N|]. intros j. apply R, Hv.
Qed.

(* nothing was written at all: the stack is observably the one before *)
Lemma frames_untouched fm tx pf fuel st e r st' :
  eval true fm tx pf fuel st e = (r, st') -> log st' = log st ->
  forall v, ctx_lookup v (frames st') = ctx_lookup v (frames st).
Proof.
  intros H HL v. destruct (frames_restored _ _ _ _ _ _ _ _ H) as (_ & w & L & _ & U).
  rewrite HL in L. assert (w = []).
  { destruct w; [reflexivity|]. apply (f_equal (@length _)) in L. rewrite app_length in L. cbn in L. lia. }
  subst w. apply U. intros j [].
Qed.

(* ------------------------------------------------------------------ *)
(* T3.merge *)

Lemma is_none_eq s : is_none s = true -> s = TNone.
Proof. destruct s; try discriminate; reflexivity. Qed.

Lemma fill_from_exhausted fill : forall base m, (length fill <= m)%nat -> fill_from m base fill = base.
Proof.
  induction base as [|s r IH]; intros m H; cbn [fill_from]; [reflexivity|].
  destruct (is_none s) eqn:E.
  - rewrite nth_overflow by lia. rewrite IH by lia. apply is_none_eq in E. subst. reflexivity.
  - rewrite IH by lia. reflexivity.
Qed.

Lemma skipn_S_tl {A} (l : list A) : forall m, skipn (S m) l = tl (skipn m l).
Proof.
  induction l as [|a l IH]; intros m; [destruct m; reflexivity|].
  destruct m; [reflexivity|]. change (skipn (S (S m)) (a :: l)) with (skipn (S m) l).
  change (skipn (S m) (a :: l)) with (skipn m l). apply IH.
Qed.

Lemma fill_once_from fill : forall base m, fill_once base (skipn m fill) = fill_from m base fill.
Proof.
  induction base as [|s r IH]; intros m; cbn [fill_once fill_from]; [reflexivity|].
  destruct (is_none s) eqn:E.
  - destruct (skipn m fill) as [|a fa'] eqn:ES.
    + assert (length fill <= m)%nat.
      { destruct (Nat.le_gt_cases (length fill) m); [assumption|].
        apply (f_equal (@length _)) in ES. rewrite skipn_length in ES. cbn in ES. lia. }
      rewrite nth_overflow by lia. rewrite fill_from_exhausted by lia.
      apply is_none_eq in E. subst. reflexivity.
    + assert (Hn : nth m fill TNone = a).
      { rewrite <- (firstn_skipn m fill) at 1. rewrite ES.
        assert (length (firstn m fill) = m).
        { apply firstn_length_le. destruct (Nat.le_gt_cases m (length fill)); [assumption|].
          rewrite skipn_all2 in ES by lia. discriminate. }
        rewrite app_nth2 by lia. rewrite H, Nat.sub_diag. reflexivity. }
      assert (Hs : skipn (S m) fill = fa').
      { rewrite skipn_S_tl, ES. reflexivity. }
      rewrite Hn, <- Hs, IH. reflexivity.
  - rewrite IH. reflexivity.
Qed.

Lemma new_outer_fill fills : forall base, new_outer base (map Some fills) = Some (fill_all base fills).
Proof.
  unfold fill_all. induction fills as [|fa more IH]; intros base; cbn [new_outer map fold_left]; [reflexivity|].
  rewrite IH. change fa with (skipn 0 fa) at 1. rewrite fill_once_from. reflexivity.
Qed.

Lemma merge_fill_all base fills :
  existsb is_none base = true -> fills <> [] ->
  merge_projections true (Some base :: map Some fills) = MArr (fill_all base fills).
Proof.
  intros Hh Hf. unfold merge_projections. destruct fills as [|fa more]; [contradiction|].
  cbn [map]. cbn [has_none]. rewrite Hh. cbn [negb].
  change (Some fa :: map Some more) with (map Some (fa :: more)).
  rewrite new_outer_fill. reflexivity.
Qed.

Lemma merge_no_holes fm base rest :
  existsb is_none base = false -> merge_projections fm (Some base :: rest) = MList (Some base).
Proof.
  intros Hh. unfold merge_projections. destruct rest; [reflexivity|]. cbn [has_none]. rewrite Hh. reflexivity.
Qed.

(* the characterisation of positional filling, entry by entry *)
Lemma fill_from_nth fill : forall base m i,
  nth i (fill_from m base fill) TNone =
    if is_none (nth i base TNone) && (i <? length base)%nat
    then nth (m + length (filter is_none (firstn i base))) fill TNone
    else nth i base TNone.
Proof.
  induction base as [|s r IH]; intros m i; cbn [fill_from].
  - destruct i; cbn; rewrite ?andb_false_r; reflexivity.
  - destruct i as [|i].
    + cbn [nth firstn filter length]. destruct (is_none s) eqn:E; cbn [nth andb].
      * cbn. rewrite Nat.add_0_r. reflexivity.
      * reflexivity.
    + destruct (is_none s) eqn:E; cbn [nth firstn filter length]; rewrite IH, E.
      * replace (S i <? S (length r))%nat with (i <? length r)%nat by reflexivity.
        cbn [length]. replace (S m + length (filter is_none (firstn i r)))%nat
          with (m + S (length (filter is_none (firstn i r))))%nat by lia. reflexivity.
      * reflexivity.
Qed.

(* ------------------------------------------------------------------ *)
(* T3.cond *)

Lemma cond_unfold fin fm tx pf fuel st c a b :
  eval fin fm tx pf (S fuel) st (TCond c a b) =
  let (rc, st1) := call fin fm tx pf fuel st c in
  match rc with
  | Err k => (Err k, st1)
  | Ok q => if truthy tx q then call fin fm tx pf fuel st1 a else call fin fm tx pf fuel st1 b
  end.
Proof. reflexivity. Qed.

Lemma cond_selects fin fm tx pf fuel st c a b q st1 :
  call fin fm tx pf fuel st c = (Ok q, st1) ->
  (truthy tx q = true -> forall b', eval fin fm tx pf (S fuel) st (TCond c a b') = call fin fm tx pf fuel st1 a) /\
  (truthy tx q = false -> forall a', eval fin fm tx pf (S fuel) st (TCond c a' b) = call fin fm tx pf fuel st1 b).
Proof.
  intros H. split; intros T x; rewrite cond_unfold, H, T; reflexivity.
Qed.

Lemma cond_error fin fm tx pf fuel st c a b k st1 :
  call fin fm tx pf fuel st c = (Err k, st1) -> eval fin fm tx pf (S fuel) st (TCond c a b) = (Err k, st1).
Proof. intros H. rewrite cond_unfold, H. reflexivity. Qed.

Lemma truthy_false_iff q :
  truthy true q = false <->
  (q = TInt 0 \/ (exists b, q = TReal b /\ real_is_zero b = true) \/ q = TArr [] \/ q = TStr [] \/ q = TSeq []).
Proof.
  split.
  - destruct q as [z|b|s|c|l| |s|o a|o a b|ic a ar n|c a b|l|id ps]; cbn [truthy]; try discriminate.
    + intros H. apply negb_false_iff, Z.eqb_eq in H. subst. auto.
    + intros H. apply negb_false_iff in H. right; left. exists b. auto.
    + destruct s; [auto 6|discriminate].
    + destruct l; [auto 6|discriminate].
    + destruct l; [auto 8|discriminate].
  - intros [->|[(b & -> & Hb)|[->|[->| ->]]]]; try reflexivity. cbn [truthy]. rewrite Hb. reflexivity.
Qed.

(* ------------------------------------------------------------------ *)
(* T3.subst, part 1: every call form enters the body in the same frame *)

Definition op_rooted (b : term) : bool :=
  match b with TOp1 _ _ | TOp2 _ _ _ | TCond _ _ _ => true | _ => false end.

(* what a call of the body b with evaluated arguments comes to *)
Definition enter (fin fm tx : bool) (pf : Z -> list term -> res) (fuel : nat) (st : state) (b : term) (args : list term) : res * state :=
  let '(o, k, st1) := eval_args (eval fin fm tx pf fuel) st (firstn 3 args) in
  match o with
  | None => (Err k, st1)
  | Some vs =>
      let (r, st2) := eval fin fm tx pf fuel (push (frame_set nDotF b (combine [nX; nY; nZ] vs)) st1) b in
      match r with
      | Ok _ => (r, pop st2)
      | Err _ => if fin then (r, pop st2) else (r, st2)
      end
  end.

Lemma resolve_fn_op_rooted fr b fa n : op_rooted b = true -> resolve_fn fr b fa n = Some (b, fa, n).
Proof. destruct b; try discriminate; reflexivity. Qed.

Lemma as_call_op_rooted b : op_rooted b = true -> as_call b = b.
Proof. destruct b; try discriminate; reflexivity. Qed.

Lemma local_decl_op_rooted b : op_rooted b = true -> local_decl b = None.
Proof. destruct b; try discriminate; reflexivity. Qed.

Lemma enter_body fin fm tx pf fuel st x b fargs n args :
  op_rooted b = true -> existsb is_none args = false -> (n <= length args)%nat ->
  resolve3 (frames st) (match x with TFn _ a _ _ => a | _ => x end) [Some args] fargs = Some (b, [Some args], n) ->
  forall c ar, x = TFn c (match x with TFn _ a _ _ => a | _ => x end) ar fargs ->
  eval_fn fin fm pf (eval fin fm tx pf fuel) st x (match x with TFn _ a _ _ => a | _ => x end) (Some args) fargs
  = enter fin fm tx pf fuel st b args.
Proof.
  intros Hb Hh Hn Hr c ar _. unfold eval_fn, enter. rewrite Hr. cbn [rev app].
  unfold merge_projections. cbn [merged_info]. rewrite Hh.
  assert ((length args <? n)%nat = false) as -> by (apply Nat.ltb_ge; exact Hn). cbn [orb].
  destruct (eval_args (eval fin fm tx pf fuel) st (firstn 3 args)) as [[o k] st1].
  destruct o as [vs|]; [|reflexivity].
  unfold bind_frame, callv. destruct b; try discriminate Hb; reflexivity.
Qed.

(* direct call {b}(args) *)
Lemma direct_call fin fm tx pf fuel st b args n :
  op_rooted b = true -> existsb is_none args = false -> (n <= length args)%nat ->
  eval fin fm tx pf (S fuel) st (TFn true b (Some args) n) = enter fin fm tx pf fuel st b args.
Proof.
  intros Hb Hh Hn. cbn [eval eval_step].
  apply (enter_body fin fm tx pf fuel st (TFn true b (Some args) n) b n n args Hb Hh Hn) with (c := true) (ar := Some args);
    [|reflexivity].
  cbn beta iota. unfold resolve3. rewrite !(resolve_fn_op_rooted _ _ _ _ Hb). reflexivity.
Qed.

(* call through a variable g(args), g bound to the function {b} of arity n *)
Lemma var_call fin fm tx pf fuel st g c0 b args n n' :
  op_rooted b = true -> existsb is_none args = false -> (n <= length args)%nat -> (0 < n')%nat ->
  is_reserved g = false -> ctx_lookup g (frames st) = Some (TFn c0 b None n) ->
  eval fin fm tx pf (S fuel) st (TFn true (TSym g) (Some args) n') = enter fin fm tx pf fuel st b args.
Proof.
  intros Hb Hh Hn Hp Hg Hl. cbn [eval eval_step].
  apply (enter_body fin fm tx pf fuel st (TFn true (TSym g) (Some args) n') b n' n args Hb Hh Hn) with (c := true) (ar := Some args);
    [|reflexivity].
  cbn beta iota. unfold resolve3. unfold resolve_fn at 1. rewrite Hl. cbn [is_kgfn orb].
  assert ((0 <? n')%nat = true) as -> by (apply Nat.ltb_lt; exact Hp).
  rewrite !(resolve_fn_op_rooted _ _ _ _ Hb). reflexivity.
Qed.

(* recursive call .f(args) from inside the body b (whose frame binds .f to b) *)
Lemma dotf_call fin fm tx pf fuel st b args n' :
  op_rooted b = true -> existsb is_none args = false -> (n' <= length args)%nat ->
  ctx_lookup nDotF (frames st) = Some b ->
  eval fin fm tx pf (S fuel) st (TFn true (TSym nDotF) (Some args) n') = enter fin fm tx pf fuel st b args.
Proof.
  intros Hb Hh Hn Hl. cbn [eval eval_step].
  apply (enter_body fin fm tx pf fuel st (TFn true (TSym nDotF) (Some args) n') b n' n' args Hb Hh Hn) with (c := true) (ar := Some args);
    [|reflexivity].
  cbn beta iota. unfold resolve3. unfold resolve_fn at 1. rewrite Hl.
  replace (is_kgfn b || negb (is_reserved nDotF)) with true by (rewrite orb_true_r; reflexivity).
  assert (Hs : forall fa m, match b with
                 | TFn _ fa0 fargs farity =>
                     if (0 <? m)%nat then
                       match fargs with
                       | None => Some (fa0, fa, farity)
                       | Some l => if has_none fargs then Some (fa0, fa ++ [Some l], farity) else Some (b, fa, m)
                       end
                     else Some (b, fa, m)
                 | _ => Some (b, fa, m)
                 end = Some (b, fa, m)) by (intros; destruct b; try discriminate; reflexivity).
  rewrite Hs. rewrite !(resolve_fn_op_rooted _ _ _ _ Hb). reflexivity.
Qed.

(* ------------------------------------------------------------------ *)
(* T3.subst, part 2: evaluating a pure body in the call frame = evaluating the
   textually substituted body in the caller's context *)

Lemma lookup_combine_in (ns : list name) : forall (vs : list term) s v,
  lookup s (combine ns vs) = Some v -> In v vs.
Proof.
  induction ns as [|n ns IH]; intros [|v0 vs] s v H; cbn [combine lookup] in H; try discriminate.
  destruct (s =? n)%Z; [inversion H; left; reflexivity|right; eapply IH; eauto].
Qed.

Lemma self_eval_eval fin fm tx pf fuel st v : self_eval v = true -> eval fin fm tx pf (S fuel) st v = (Ok v, st).
Proof. destruct v; try discriminate; reflexivity. Qed.

Lemma self_eval_as_call v : self_eval v = true -> as_call v = v.
Proof. destruct v; try discriminate; reflexivity. Qed.

Section PureSubst.
  Variables (fin fm tx : bool) (pf : Z -> list term -> res) (vs : list term) (b : term) (fr : list frame) (lg : list (name * nat)).
  Hypothesis Hvs : forall v, In v vs -> self_eval v = true.

  Let cx := combine [nX; nY; nZ] vs.
  Let cfull := frame_set nDotF b cx.
  Let S1 := mk_state (cfull :: fr) lg.
  Let S0 := mk_state fr lg.

  Lemma as_call_subst e : pure e -> as_call (subst cx e) = subst cx e.
  Proof.
    intros P. destruct P; try reflexivity. cbn [subst].
    destruct (lookup s cx) eqn:E; [|reflexivity].
    apply self_eval_as_call, Hvs. eapply lookup_combine_in; eauto.
  Qed.

  Lemma as_call_pure e : pure e -> as_call e = e.
  Proof. intros P; destruct P; reflexivity. Qed.

  Lemma pure_subst : forall fuel e, pure e -> names_bound cx fr e ->
    forall r st', eval fin fm tx pf fuel S1 e = (r, st') ->
    st' = S1 /\ eval fin fm tx pf fuel S0 (subst cx e) = (r, S0).
  Proof.
    induction fuel as [|f IH]; intros e P NB r st' H.
    - cbn [eval] in *. inversion H; subst. split; reflexivity.
    - destruct P as [z|rl|s|c|l|s|o a Pa|o a b' Hd Ha Pa Pb|q a b' Pq Pa Pb].
      + cbn in H. inversion H; subst. split; reflexivity.
      + cbn in H. inversion H; subst. split; reflexivity.
      + cbn in H. inversion H; subst. split; reflexivity.
      + cbn in H. inversion H; subst. split; reflexivity.
      + cbn in H. inversion H; subst. split; reflexivity.
      + (* TSym *)
        inversion NB as [| | | | |s' Hnf Hb| | |]; subst.
        cbn [eval eval_step frames ctx_lookup] in H. unfold S1 in H. cbn [frames ctx_lookup] in H.
        unfold cfull in H. rewrite lookup_frame_set_other in H by exact Hnf.
        cbn [subst]. fold cx in H.
        destruct (lookup s cx) as [v|] eqn:E.
        * inversion H; subst. split; [reflexivity|].
          apply self_eval_eval, Hvs. eapply lookup_combine_in; eauto.
        * cbn [eval eval_step]. unfold S0 at 1. cbn [frames].
          destruct (ctx_lookup s fr) as [v|] eqn:E2.
          -- inversion H; subst. split; reflexivity.
          -- destruct Hb as [Hb|[Hb|Hb]]; try congruence.
             rewrite Hb in *. inversion H; subst. split; reflexivity.
      + (* TOp1 *)
        inversion NB; subst. cbn [eval eval_step] in H. cbn [subst eval eval_step].
        destruct (eval fin fm tx pf f S1 a) as [ra s1] eqn:E. apply IH in E; [|assumption|assumption].
        destruct E as [-> E]. rewrite E.
        destruct ra; inversion H; subst; split; reflexivity.
      + (* TOp2 *)
        inversion NB; subst. cbn [subst].
        assert (Hgen : (let (rb, st1) := eval fin fm tx pf f S1 b' in
                        match rb with
                        | Err k => (Err k, st1)
                        | Ok vb => let (ra, st2) := eval fin fm tx pf f st1 a in
                                   match ra with
                                   | Err k => (Err k, st2)
                                   | Ok va => (apply2 o va vb, st2)
                                   end
                        end) = (r, st') ->
                       st' = S1 /\
                       (let (rb, st1) := eval fin fm tx pf f S0 (subst cx b') in
                        match rb with
                        | Err k => (Err k, st1)
                        | Ok vb => let (ra, st2) := eval fin fm tx pf f st1 (subst cx a) in
                                   match ra with
                                   | Err k => (Err k, st2)
                                   | Ok va => (apply2 o va vb, st2)
                                   end
                        end) = (r, S0)).
        { intros HH.
          destruct (eval fin fm tx pf f S1 b') as [rb s1] eqn:E1. apply IH in E1; [|assumption|assumption].
          destruct E1 as [-> E1]. rewrite E1.
          destruct rb as [vb|k]; [|inversion HH; subst; split; reflexivity].
          destruct (eval fin fm tx pf f S1 a) as [ra s2] eqn:E2. apply IH in E2; [|assumption|assumption].
          destruct E2 as [-> E2]. rewrite E2.
          destruct ra; inversion HH; subst; split; reflexivity. }
        destruct o; try contradiction; cbn [eval eval_step] in H |- *; exact (Hgen H).
      + (* TCond *)
        inversion NB; subst. cbn [eval eval_step] in H. cbn [subst eval eval_step].
        unfold callv in *. rewrite (as_call_pure _ Pq) in H. rewrite (as_call_subst _ Pq).
        destruct (eval fin fm tx pf f S1 q) as [rq s1] eqn:E. apply IH in E; [|assumption|assumption].
        destruct E as [-> E]. rewrite E.
        destruct rq as [vq|k]; [|inversion H; subst; split; reflexivity].
        destruct (truthy tx vq).
        * rewrite (as_call_pure _ Pa) in H. rewrite (as_call_subst _ Pa). apply IH in H; assumption.
        * rewrite (as_call_pure _ Pb) in H. rewrite (as_call_subst _ Pb). apply IH in H; assumption.
  Qed.
End PureSubst.

(* T3.subst: a call that enters the pure body b with data arguments vs gives the value of the
   substituted body evaluated in the caller's context, and leaves the caller's context as the
   evaluation of the arguments left it *)
Lemma enter_is_subst fm tx pf fuel st b args vs st1 k :
  pure b -> eval_args (eval true fm tx pf fuel) st (firstn 3 args) = (Some vs, k, st1) ->
  (forall v, In v vs -> self_eval v = true) ->
  names_bound (combine [nX; nY; nZ] vs) (frames st1) b ->
  enter true fm tx pf fuel st b args = (fst (eval true fm tx pf fuel st1 (subst (combine [nX; nY; nZ] vs) b)), st1).
Proof.
  intros P EA Hvs NB. unfold enter. rewrite EA.
  destruct st1 as [fr1 lg1]. unfold push. cbn [frames log] in *.
  destruct (eval true fm tx pf fuel (mk_state (frame_set nDotF b (combine [nX; nY; nZ] vs) :: fr1) lg1) b) as [r st2] eqn:E.
  eapply pure_subst in E; eauto. destruct E as [-> E]. rewrite E. unfold pop. cbn [frames log tl fst].
  destruct r; reflexivity.
Qed.

(* call through @ : g@[v1 v2 ...] with g bound to the function {b} *)
Lemma at_call fin fm tx pf fuel st g c0 b vals n :
  op_rooted b = true -> existsb is_none vals = false -> (n <= length vals)%nat ->
  ctx_lookup g (frames st) = Some (TFn c0 b None n) ->
  eval fin fm tx pf (S (S fuel)) st (TOp2 At (TSym g) (TArr vals)) = enter fin fm tx pf fuel st b vals.
Proof.
  intros Hb Hh Hn Hl.
  change (eval fin fm tx pf (S (S fuel)) st (TOp2 At (TSym g) (TArr vals)))
    with (eval_step fin fm tx pf (eval fin fm tx pf (S fuel)) st (TOp2 At (TSym g) (TArr vals))).
  cbn [eval_step].
  change (eval fin fm tx pf (S fuel) st (TArr vals)) with (Ok (TArr vals), st).
  cbn beta iota.
  assert (Hs : eval fin fm tx pf (S fuel) st (TSym g) = (Ok (TFn c0 b None n), st))
    by (cbn [eval eval_step]; rewrite Hl; reflexivity).
  rewrite Hs. cbn [at_args].
  change (eval fin fm tx pf (S fuel) st (TFn true (TFn c0 b None n) (Some vals) 1))
    with (eval_fn fin fm pf (eval fin fm tx pf fuel) st (TFn true (TFn c0 b None n) (Some vals) 1) (TFn c0 b None n) (Some vals) 1).
  apply (enter_body fin fm tx pf fuel st (TFn true (TFn c0 b None n) (Some vals) 1) b 1 n vals Hb Hh Hn) with (c := true) (ar := Some vals);
    [|reflexivity].
  cbn beta iota. unfold resolve3. unfold resolve_fn at 1. cbn [Nat.ltb Nat.leb].
  rewrite !(resolve_fn_op_rooted _ _ _ _ Hb). reflexivity.
Qed.

(* ------------------------------------------------------------------ *)
(* T3.proj: applying a filled projection = the direct call with the positionally filled arguments *)

Lemma enter_tail fin fm tx pf fuel st (x b : term) full n :
  op_rooted b = true -> (n <= length full)%nat ->
  (let '(n0, holes, args) := merged_info (MArr full) in
   if (n0 <? n)%nat || holes then (Ok x, st)
   else
     let '(o, k, st1) := eval_args (eval fin fm tx pf fuel) st (firstn 3 args) in
     match o with
     | None => (Err k, st1)
     | Some vs =>
         let (c2, f1) := bind_frame b vs in
         let (r, st2) :=
           match f1 with
           | TPy id params =>
               (match lookup_all params (frames (push c2 st1)) with
                | Some vals => pf id vals
                | None => Err EUndef
                end, push c2 st1)
           | _ => callv (eval fin fm tx pf fuel) (push c2 st1) f1
           end in
         match r with
         | Ok _ => (r, pop st2)
         | Err _ => if fin then (r, pop st2) else (r, st2)
         end
     end) = enter fin fm tx pf fuel st b full.
Proof.
  intros Hb Hn. cbn [merged_info]. unfold enter.
  assert ((length full <? n)%nat = false) as -> by (apply Nat.ltb_ge; exact Hn). cbn [orb].
  destruct (eval_args (eval fin fm tx pf fuel) st (firstn 3 full)) as [[o k] st1].
  destruct o as [vs|]; [|reflexivity].
  unfold bind_frame, callv. destruct b; try discriminate Hb; reflexivity.
Qed.

(* one step: g::f(P1) ; g(a2) *)
Lemma proj_call1 fin tx pf fuel st g cg f cf b P1 n1 n a2 n2 :
  op_rooted b = true -> is_reserved g = false -> is_reserved f = false ->
  ctx_lookup g (frames st) = Some (TFn cg (TSym f) (Some P1) n1) ->
  ctx_lookup f (frames st) = Some (TFn cf b None n) ->
  existsb is_none P1 = true -> (0 < n1)%nat -> (0 < n2)%nat ->
  (n <= length (fill_all P1 [a2]))%nat ->
  eval fin true tx pf (S fuel) st (TFn true (TSym g) (Some a2) n2)
  = enter fin true tx pf fuel st b (fill_all P1 [a2]).
Proof.
  intros Hb Hg Hf Lg Lf Hh H1 H2 Hn. cbn [eval eval_step]. unfold eval_fn.
  assert (Hr : resolve3 (frames st) (TSym g) [Some a2] n2 = Some (b, [Some a2; Some P1], n)).
  { unfold resolve3. unfold resolve_fn at 1. rewrite Lg. cbn [is_kgfn orb].
    assert ((0 <? n2)%nat = true) as -> by (apply Nat.ltb_lt; exact H2).
    cbn [has_none]. rewrite Hh. cbn [app].
    unfold resolve_fn at 1. rewrite Lf. cbn [is_kgfn orb].
    assert ((0 <? n1)%nat = true) as -> by (apply Nat.ltb_lt; exact H1).
    apply resolve_fn_op_rooted. exact Hb. }
  rewrite Hr. cbn [rev app].
  change [Some P1; Some a2] with (Some P1 :: map Some [a2]).
  rewrite merge_fill_all by (assumption || discriminate).
  apply enter_tail; assumption.
Qed.

(* two steps: g::f(P1) ; h::g(P2) ; h(a3) — the three resolution passes are exactly enough *)
Lemma proj_call2 fin tx pf fuel st h ch g cg f cf b P1 n1 P2 n2 n a3 n3 :
  op_rooted b = true -> is_reserved h = false -> is_reserved g = false -> is_reserved f = false ->
  ctx_lookup h (frames st) = Some (TFn ch (TSym g) (Some P2) n2) ->
  ctx_lookup g (frames st) = Some (TFn cg (TSym f) (Some P1) n1) ->
  ctx_lookup f (frames st) = Some (TFn cf b None n) ->
  existsb is_none P1 = true -> existsb is_none P2 = true ->
  (0 < n1)%nat -> (0 < n2)%nat -> (0 < n3)%nat ->
  (n <= length (fill_all P1 [P2; a3]))%nat ->
  eval fin true tx pf (S fuel) st (TFn true (TSym h) (Some a3) n3)
  = enter fin true tx pf fuel st b (fill_all P1 [P2; a3]).
Proof.
  intros Hb Hh Hg Hf Lh Lg Lf Hh1 Hh2 H1 H2 H3 Hn. cbn [eval eval_step]. unfold eval_fn.
  assert (Hr : resolve3 (frames st) (TSym h) [Some a3] n3 = Some (b, [Some a3; Some P2; Some P1], n)).
  { unfold resolve3. unfold resolve_fn at 1. rewrite Lh. cbn [is_kgfn orb].
    assert ((0 <? n3)%nat = true) as -> by (apply Nat.ltb_lt; exact H3).
    cbn [has_none]. rewrite Hh2. cbn [app].
    unfold resolve_fn at 1. rewrite Lg. cbn [is_kgfn orb].
    assert ((0 <? n2)%nat = true) as -> by (apply Nat.ltb_lt; exact H2).
    cbn [has_none]. rewrite Hh1. cbn [app].
    unfold resolve_fn. rewrite Lf. cbn [is_kgfn orb].
    assert ((0 <? n1)%nat = true) as -> by (apply Nat.ltb_lt; exact H1). reflexivity. }
  rewrite Hr. cbn [rev app].
  change [Some P1; Some P2; Some a3] with (Some P1 :: map Some [P2; a3]).
  rewrite merge_fill_all by (assumption || discriminate).
  apply enter_tail; assumption.
Qed.

Lemma proj_is_direct fin tx pf fuel st g cg f cf b P1 n1 n a2 n2 h ch P2 n2' a3 n3 :
  op_rooted b = true -> is_reserved g = false -> is_reserved f = false -> is_reserved h = false ->
  ctx_lookup g (frames st) = Some (TFn cg (TSym f) (Some P1) n1) ->
  ctx_lookup f (frames st) = Some (TFn cf b None n) ->
  ctx_lookup h (frames st) = Some (TFn ch (TSym g) (Some P2) n2') ->
  existsb is_none P1 = true -> existsb is_none P2 = true ->
  (0 < n1)%nat -> (0 < n2)%nat -> (0 < n2')%nat -> (0 < n3)%nat ->
  (* one fill *)
  (existsb is_none (fill_all P1 [a2]) = false -> (n <= length (fill_all P1 [a2]))%nat -> (0 < length (fill_all P1 [a2]))%nat ->
   eval fin true tx pf (S fuel) st (TFn true (TSym g) (Some a2) n2)
   = eval fin true tx pf (S fuel) st (TFn true (TSym f) (Some (fill_all P1 [a2])) (length (fill_all P1 [a2])))) /\
  (* two fills, in any hole order *)
  (existsb is_none (fill_all P1 [P2; a3]) = false -> (n <= length (fill_all P1 [P2; a3]))%nat -> (0 < length (fill_all P1 [P2; a3]))%nat ->
   eval fin true tx pf (S fuel) st (TFn true (TSym h) (Some a3) n3)
   = eval fin true tx pf (S fuel) st (TFn true (TSym f) (Some (fill_all P1 [P2; a3])) (length (fill_all P1 [P2; a3])))).
Proof.
  intros Hb Hg Hf Hh Lg Lf Lh H1 H2 P1n P2n P2n' P3n. split; intros Hfull Hn Hpos.
  - rewrite (proj_call1 fin tx pf fuel st g cg f cf b P1 n1 n a2 n2) by assumption.
    symmetry. apply (var_call fin true tx pf fuel st f cf b (fill_all P1 [a2]) n (length (fill_all P1 [a2]))); assumption.
  - rewrite (proj_call2 fin tx pf fuel st h ch g cg f cf b P1 n1 P2 n2' n a3 n3) by assumption.
    symmetry. apply (var_call fin true tx pf fuel st f cf b (fill_all P1 [P2; a3]) n (length (fill_all P1 [P2; a3]))); assumption.
Qed.

(* ------------------------------------------------------------------ *)
(* T3.resume: evaluation only observes the value of each variable at each frame level.
   Two states whose stacks agree level by level, variable by variable (however the frames are
   laid out, whatever the ghost log says) evaluate every program to the same result and to
   states that agree again. *)

Definition feq (f f' : frame) : Prop := forall v, lookup v f = lookup v f'.
Definition sequiv (a b : state) : Prop := Forall2 feq (frames a) (frames b).

Lemma feq_refl f : feq f f.
Proof. intros v; reflexivity. Qed.

Lemma sequiv_refl s : sequiv s s.
Proof. unfold sequiv. induction (frames s); constructor; auto using feq_refl. Qed.

Lemma ctx_lookup_feq k fr fr' : Forall2 feq fr fr' -> ctx_lookup k fr = ctx_lookup k fr'.
Proof. induction 1 as [|f f' r r' Hf Hr IH]; cbn [ctx_lookup]; [reflexivity|]. rewrite (Hf k), IH. reflexivity. Qed.

Lemma frame_set_feq k v f f' : feq f f' -> feq (frame_set k v f) (frame_set k v f').
Proof.
  intros H u. destruct (Z.eq_dec u k) as [->|Hne].
  - rewrite !lookup_frame_set_same. reflexivity.
  - rewrite !lookup_frame_set_other by exact Hne. apply H.
Qed.

Lemma set_existing_feq k v fr fr' : Forall2 feq fr fr' ->
  match set_existing k v fr, set_existing k v fr' with
  | Some (a, _), Some (b, _) => Forall2 feq a b
  | None, None => True
  | _, _ => False
  end.
Proof.
  induction 1 as [|f f' r r' Hf Hr IH]; cbn [set_existing]; [exact I|].
  rewrite <- (Hf k). destruct (lookup k f).
  - constructor; [apply frame_set_feq; exact Hf|exact Hr].
  - destruct (set_existing k v r) as [[a la]|], (set_existing k v r') as [[b lb]|]; try contradiction; [|exact I].
    constructor; assumption.
Qed.

Lemma ctx_set_equiv k v s1 s2 : sequiv s1 s2 -> sequiv (ctx_set k v s1) (ctx_set k v s2).
Proof.
  unfold sequiv, ctx_set. intros H.
  assert (Hin : Forall2 feq
            (frames match frames s1 with [] => s1 | f :: r => mk_state (frame_set k v f :: r) ((k, length r) :: log s1) end)
            (frames match frames s2 with [] => s2 | f :: r => mk_state (frame_set k v f :: r) ((k, length r) :: log s2) end)).
  { inversion H as [E1 E2|f f' r r' Hf Hr E1 E2].
    - rewrite <- E1, <- E2. constructor.
    - cbn [frames]. constructor; [apply frame_set_feq; exact Hf|exact Hr]. }
  destruct (is_reserved k); [exact Hin|].
  pose proof (set_existing_feq k v _ _ H) as HS.
  destruct (set_existing k v (frames s1)) as [[a la]|], (set_existing k v (frames s2)) as [[b lb]|]; try contradiction;
    [exact HS|exact Hin].
Qed.

Lemma push_equiv c s1 s2 : sequiv s1 s2 -> sequiv (push c s1) (push c s2).
Proof. unfold sequiv, push; cbn [frames]. intros H. constructor; [apply feq_refl|exact H]. Qed.

Lemma pop_equiv s1 s2 : sequiv s1 s2 -> sequiv (pop s1) (pop s2).
Proof. unfold sequiv, pop; cbn [frames]. intros H. inversion H; cbn [tl]; [constructor|assumption]. Qed.

Lemma resolve_fn_equiv fr fr' f fa n : Forall2 feq fr fr' -> resolve_fn fr f fa n = resolve_fn fr' f fa n.
Proof. intros H. unfold resolve_fn. destruct f; try reflexivity. rewrite (ctx_lookup_feq s _ _ H). reflexivity. Qed.

Lemma resolve3_equiv fr fr' f fa n : Forall2 feq fr fr' -> resolve3 fr f fa n = resolve3 fr' f fa n.
Proof.
  intros H. unfold resolve3. rewrite (resolve_fn_equiv _ _ _ _ _ H).
  destruct (resolve_fn fr' f fa n) as [[[f1 a1] n1]|]; [|reflexivity].
  rewrite (resolve_fn_equiv _ _ _ _ _ H).
  destruct (resolve_fn fr' f1 a1 n1) as [[[f2 a2] n2]|]; [|reflexivity].
  apply resolve_fn_equiv. exact H.
Qed.

Lemma lookup_all_equiv ks fr fr' : Forall2 feq fr fr' -> lookup_all ks fr = lookup_all ks fr'.
Proof. intros H. induction ks as [|k r IH]; cbn [lookup_all]; [reflexivity|]. rewrite (ctx_lookup_feq k _ _ H), IH. reflexivity. Qed.

Definition ev_resp (ev : state -> term -> res * state) : Prop :=
  forall s1 s2 t, sequiv s1 s2 -> fst (ev s1 t) = fst (ev s2 t) /\ sequiv (snd (ev s1 t)) (snd (ev s2 t)).

Section StepResp.
  Variables (fin fm tx : bool) (pf : Z -> list term -> res).
  Variable ev : state -> term -> res * state.
  Hypothesis Hev : ev_resp ev.

  Ltac two E1 E2 s1 s2 t H :=
    let Hr := fresh "Hr" in let Hs := fresh "Hs" in
    destruct (Hev s1 s2 t H) as [Hr Hs];
    destruct (ev s1 t) as [?r ?s] eqn:E1; destruct (ev s2 t) as [?r ?s] eqn:E2;
    cbn [fst snd] in Hr, Hs; subst.

  Lemma callv_resp s1 s2 t : sequiv s1 s2 ->
    fst (callv ev s1 t) = fst (callv ev s2 t) /\ sequiv (snd (callv ev s1 t)) (snd (callv ev s2 t)).
  Proof. unfold callv. apply Hev. Qed.

  Lemma eval_args_resp l : forall s1 s2, sequiv s1 s2 ->
    fst (eval_args ev s1 l) = fst (eval_args ev s2 l) /\ sequiv (snd (eval_args ev s1 l)) (snd (eval_args ev s2 l)).
  Proof.
    induction l as [|q r IH]; intros s1 s2 H; cbn [eval_args].
    - split; [reflexivity|exact H].
    - destruct (callv_resp s1 s2 q H) as [Hr Hs].
      destruct (callv ev s1 q) as [r1 s1'], (callv ev s2 q) as [r2 s2']. cbn [fst snd] in *. subst r2.
      destruct r1 as [v|k]; [|split; [reflexivity|exact Hs]].
      destruct (IH _ _ Hs) as [Hr2 Hs2].
      destruct (eval_args ev s1' r) as [[o1 k1] t1], (eval_args ev s2' r) as [[o2 k2] t2]. cbn [fst snd] in *.
      inversion Hr2; subst. destruct o2; split; try reflexivity; exact Hs2.
  Qed.

  Lemma eval_seq_resp l : forall s1 s2 last, sequiv s1 s2 ->
    fst (eval_seq ev s1 l last) = fst (eval_seq ev s2 l last) /\
    sequiv (snd (eval_seq ev s1 l last)) (snd (eval_seq ev s2 l last)).
  Proof.
    induction l as [|y l IH]; intros s1 s2 last H; cbn [eval_seq].
    - split; [reflexivity|exact H].
    - destruct (callv_resp s1 s2 y H) as [Hr Hs].
      destruct (callv ev s1 y) as [r1 s1'], (callv ev s2 y) as [r2 s2']. cbn [fst snd] in *. subst r2.
      destruct r1 as [v|k]; [apply IH; exact Hs|split; [reflexivity|exact Hs]].
  Qed.

  Lemma eval_fn_resp s1 s2 x xa xargs xarity : sequiv s1 s2 ->
    fst (eval_fn fin fm pf ev s1 x xa xargs xarity) = fst (eval_fn fin fm pf ev s2 x xa xargs xarity) /\
    sequiv (snd (eval_fn fin fm pf ev s1 x xa xargs xarity)) (snd (eval_fn fin fm pf ev s2 x xa xargs xarity)).
  Proof.
    intros H. unfold eval_fn. rewrite (resolve3_equiv _ _ _ _ _ H).
    destruct (resolve3 (frames s2) xa [xargs] xarity) as [[[f f_args] f_arity]|]; [|split; [reflexivity|exact H]].
    destruct (merge_projections fm (rev f_args)) as [a|l|] eqn:EM; [| |split; [reflexivity|exact H]].
    all: match goal with |- context [merged_info ?m] => destruct (merged_info m) as [[n holes] args] end.
    all: destruct ((n <? f_arity)%nat || holes); [split; [reflexivity|exact H]|].
    all: destruct (eval_args_resp (firstn 3 args) s1 s2 H) as [Hr Hs].
    all: destruct (eval_args ev s1 (firstn 3 args)) as [[o1 k1] t1], (eval_args ev s2 (firstn 3 args)) as [[o2 k2] t2].
    all: cbn [fst snd] in Hr, Hs; inversion Hr; subst.
    all: destruct o2 as [vs|]; [|split; [reflexivity|exact Hs]].
    all: destruct (bind_frame f vs) as [c2 f1].
    all: pose proof (push_equiv c2 _ _ Hs) as Hp.
    all: assert (Hbody : fst (match f1 with
                               | TPy id params => (match lookup_all params (frames (push c2 t1)) with Some vals => pf id vals | None => Err EUndef end, push c2 t1)
                               | _ => callv ev (push c2 t1) f1 end)
                         = fst (match f1 with
                               | TPy id params => (match lookup_all params (frames (push c2 t2)) with Some vals => pf id vals | None => Err EUndef end, push c2 t2)
                               | _ => callv ev (push c2 t2) f1 end) /\
                         sequiv (snd (match f1 with
                               | TPy id params => (match lookup_all params (frames (push c2 t1)) with Some vals => pf id vals | None => Err EUndef end, push c2 t1)
                               | _ => callv ev (push c2 t1) f1 end))
                                (snd (match f1 with
                               | TPy id params => (match lookup_all params (frames (push c2 t2)) with Some vals => pf id vals | None => Err EUndef end, push c2 t2)
                               | _ => callv ev (push c2 t2) f1 end)))
        by (destruct f1; try (apply callv_resp; exact Hp);
            cbn [fst snd]; rewrite (lookup_all_equiv _ _ _ Hp); split; [reflexivity|exact Hp]).
    all: destruct Hbody as [Hb1 Hb2].
    all: match goal with |- context [let (r, st2) := ?X in _] =>
           destruct X as [ra sa] end.
    all: match goal with |- context [let (r, st2) := ?X in _] =>
           destruct X as [rb sb] end.
    all: cbn [fst snd] in Hb1, Hb2; subst rb.
    all: destruct ra; cbn [fst snd]; [split; [reflexivity|apply pop_equiv; exact Hb2]|].
    all: destruct fin; cbn [fst snd]; split; try reflexivity; [apply pop_equiv; exact Hb2|exact Hb2].
  Qed.

  Lemma step_resp : ev_resp (eval_step fin fm tx pf ev).
  Proof.
    intros s1 s2 t H. destruct t; cbn [eval_step]; try (split; [reflexivity|exact H]).
    - (* TSym *)
      rewrite (ctx_lookup_feq s _ _ H). destruct (ctx_lookup s (frames s2)); [split; [reflexivity|exact H]|].
      destruct (is_reserved s); cbn [fst snd]; split; try reflexivity; [exact H|apply ctx_set_equiv; exact H].
    - (* TOp1 *)
      destruct (Hev s1 s2 t H) as [Hr Hs].
      destruct (ev s1 t) as [r1 a1], (ev s2 t) as [r2 a2]. cbn [fst snd] in *. subst r2.
      destruct r1; split; try reflexivity; exact Hs.
    - (* TOp2 *)
      assert (Hgen : forall (rb : res) (a1 a2 : state), sequiv a1 a2 ->
                 let body := fun (st1 : state) =>
                   match rb with
                   | Err k => (Err k, st1)
                   | Ok vb =>
                       let (ra, st2) := ev st1 t1 in
                       match ra with
                       | Err k => (Err k, st2)
                       | Ok va =>
                           match o with
                           | At => match va with
                                   | TSym _ | TFn _ _ _ _ | TPy _ _ => ev st2 (TFn true va (Some (at_args vb)) 1)
                                   | _ => (apply2 o va vb, st2)
                                   end
                           | _ => (apply2 o va vb, st2)
                           end
                       end
                   end in
                 fst (body a1) = fst (body a2) /\ sequiv (snd (body a1)) (snd (body a2))).
      { intros rb a1 a2 Ha. cbn zeta. destruct rb as [vb|k]; [|split; [reflexivity|exact Ha]].
        destruct (Hev a1 a2 t1 Ha) as [Hr Hs].
        destruct (ev a1 t1) as [ra b1], (ev a2 t1) as [ra' b2]. cbn [fst snd] in *. subst ra'.
        destruct ra as [va|k]; [|split; [reflexivity|exact Hs]].
        destruct o; try (split; [reflexivity|exact Hs]).
        destruct va; try (split; [reflexivity|exact Hs]); apply Hev; exact Hs. }
      destruct (Hev s1 s2 t2 H) as [Hr Hs].
      destruct (ev s1 t2) as [rb a1], (ev s2 t2) as [rb' a2]. cbn [fst snd] in *. subst rb'.
      destruct o; try exact (Hgen rb a1 a2 Hs).
      (* Define *)
      destruct rb as [vb|k]; [|split; [reflexivity|exact Hs]].
      destruct t1; cbn [fst snd]; split; try reflexivity; try exact Hs. apply ctx_set_equiv. exact Hs.
    - (* TFn *)
      destruct iscall; [|split; [reflexivity|exact H]]. apply eval_fn_resp. exact H.
    - (* TCond *)
      destruct (callv_resp s1 s2 t1 H) as [Hr Hs].
      destruct (callv ev s1 t1) as [rc a1], (callv ev s2 t1) as [rc' a2]. cbn [fst snd] in *. subst rc'.
      destruct rc as [q|k]; [|split; [reflexivity|exact Hs]].
      destruct (truthy tx q); apply callv_resp; exact Hs.
    - (* TSeq *)
      destruct l as [|y l]; [split; [reflexivity|exact H]|].
      destruct (callv_resp s1 s2 y H) as [Hr Hs].
      destruct (callv ev s1 y) as [ry a1], (callv ev s2 y) as [ry' a2]. cbn [fst snd] in *. subst ry'.
      destruct ry as [v|k]; [apply eval_seq_resp; exact Hs|split; [reflexivity|exact Hs]].
  Qed.
End StepResp.

Lemma eval_resp fin fm tx pf fuel : ev_resp (eval fin fm tx pf fuel).
Proof.
  induction fuel as [|f IH]; intros s1 s2 t H; cbn [eval].
  - split; [reflexivity|exact H].
  - apply step_resp; assumption.
Qed.

(* agreement level by level (what C03_frames speaks about) gives sequiv *)
Lemma lvl_sequiv : forall fr fr', length fr = length fr' -> (forall v j, lvl fr' j v = lvl fr j v) -> Forall2 feq fr fr'.
Proof.
  induction fr as [|f r IH]; intros [|f' r'] HL H; try discriminate; constructor.
  - intros v. specialize (H v (length r)). cbn [lvl] in H. cbn [length] in HL. injection HL as HL.
    rewrite <- HL, Nat.eqb_refl in H. symmetry. exact H.
  - cbn [length] in HL. injection HL as HL. apply IH; [exact HL|].
    intros v j. destruct (Nat.eqb_spec j (length r)) as [E|E].
    + rewrite (lvl_out r) by lia. rewrite (lvl_out r') by lia. reflexivity.
    + specialize (H v j). cbn [lvl] in H. rewrite <- HL in H. destruct (Nat.eqb_spec j (length r)); [contradiction|]. exact H.
Qed.

(* a failed (or any) evaluation that wrote nothing: every follow-up program evaluates as if it had not happened *)
Lemma resume_after_silent fm tx pf fuel st e r st' fuel2 e2 :
  eval true fm tx pf fuel st e = (r, st') -> log st' = log st ->
  fst (eval true fm tx pf fuel2 st' e2) = fst (eval true fm tx pf fuel2 st e2) /\
  sequiv (snd (eval true fm tx pf fuel2 st' e2)) (snd (eval true fm tx pf fuel2 st e2)).
Proof.
  intros H HL. apply eval_resp. unfold sequiv.
  destruct (frames_restored _ _ _ _ _ _ _ _ H) as (N & w & L & R & _).
  rewrite HL in L. assert (w = []).
  { destruct w; [reflexivity|]. apply (f_equal (@length _)) in L. rewrite app_length in L. cbn in L. lia. }
  subst w. apply lvl_sequiv; [exact N|]. intros v j. symmetry. apply R. intros [].
Qed.
