(* C03/Proofs.v — lemmas about the evaluator model. *)
From Coq Require Import ZArith List Bool Lia.
From C03 Require Import Model Spec.
Import ListNotations.
