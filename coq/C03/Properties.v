(* C03/Properties.v — property theorems only: statement, `exact`, Print Assumptions,
   Examples (hypotheses are satisfiable) and _refuted witnesses. *)
From Coq Require Import ZArith List Bool.
From C03 Require Import Generated Model Spec Proofs.
Import ListNotations.
Open Scope Z_scope.

(* The model hard-wires what the translator reads off _eval_fn: three _resolve_fn passes and
   argument evaluation (self.call(q)) before the push.  Stops type-checking when that changes. *)
Theorem C03_model_shape_matches_source :
  resolve_passes = 3%nat /\ args_evaluated_before_push = true.
Proof. exact (conj eq_refl eq_refl). Qed.
Print Assumptions C03_model_shape_matches_source.

(* T3.frames — for EVERY program e of the modelled language, every fuel and EVERY outcome r
   (a value or an error raised at any position, at any nesting depth): the context stack has
   its old depth, and the frame at every level j holds for every variable v the value it held
   before, unless (v, j) is in the list w of writes that KlongContext.__setitem__ performed at
   that level during the evaluation (`::` on a variable that exists there, a new variable or
   the self-binding of an undefined symbol in the innermost frame of the moment).  Consequently a
   variable that was never written reads as before.  Parameters, .f and declared locals live in
   a frame above the caller's levels, so they are gone.  Holds because the pop sits in `finally`
   (regenerated flag). *)
Theorem C03_frames : forall fm tx pf fuel st e r st',
  eval eval_fn_pop_in_finally fm tx pf fuel st e = (r, st') ->
  length (frames st') = length (frames st) /\
  exists w, log st' = w ++ log st /\
    (forall v j, ~ In (v, j) w -> lvl (frames st') j v = lvl (frames st) j v) /\
    (forall v, (forall j, ~ In (v, j) w) -> ctx_lookup v (frames st') = ctx_lookup v (frames st)).
Proof.
  exact (eq_ind_r (fun f => forall fm tx pf fuel st e r st', eval f fm tx pf fuel st e = (r, st') ->
            length (frames st') = length (frames st) /\
            exists w, log st' = w ++ log st /\
              (forall v j, ~ In (v, j) w -> lvl (frames st') j v = lvl (frames st) j v) /\
              (forall v, (forall j, ~ In (v, j) w) -> ctx_lookup v (frames st') = ctx_lookup v (frames st)))
           frames_restored (eq_refl : eval_fn_pop_in_finally = true)).
Qed.
Print Assumptions C03_frames.

(* T3.resume (observable part): an evaluation that wrote nothing — e.g. a call that failed before
   any assignment — leaves every variable reading as if it had not happened. *)
Theorem C03_failed_call_invisible : forall fm tx pf fuel st e r st',
  eval eval_fn_pop_in_finally fm tx pf fuel st e = (r, st') -> log st' = log st ->
  length (frames st') = length (frames st) /\ forall v, ctx_lookup v (frames st') = ctx_lookup v (frames st).
Proof.
  exact (eq_ind_r (fun f => forall fm tx pf fuel st e r st', eval f fm tx pf fuel st e = (r, st') -> log st' = log st ->
            length (frames st') = length (frames st) /\ forall v, ctx_lookup v (frames st') = ctx_lookup v (frames st))
           (fun fm tx pf fuel st e r st' H HL =>
              conj (proj1 (frames_restored fm tx pf fuel st e r st' H)) (frames_untouched fm tx pf fuel st e r st' H HL))
           (eq_refl : eval_fn_pop_in_finally = true)).
Qed.
Print Assumptions C03_failed_call_invisible.

(* T3.resume — evaluation observes nothing but the value of each variable at each frame level:
   from two states whose stacks agree level by level and variable by variable (`sequiv`; the layout
   of the frames and the ghost log are irrelevant) EVERY program evaluates to the same result and
   to states that agree again.  With C03_frames: the state after any evaluation, failed ones
   included, is interchangeable for every follow-up program with the state before in which only the
   logged writes have been applied. *)
Theorem C03_resume : forall fin fm tx pf fuel s1 s2 e2,
  sequiv s1 s2 ->
  fst (eval fin fm tx pf fuel s1 e2) = fst (eval fin fm tx pf fuel s2 e2) /\
  sequiv (snd (eval fin fm tx pf fuel s1 e2)) (snd (eval fin fm tx pf fuel s2 e2)).
Proof. exact (fun fin fm tx pf fuel s1 s2 e2 H => eval_resp fin fm tx pf fuel s1 s2 e2 H). Qed.
Print Assumptions C03_resume.

(* in particular, after an evaluation that wrote nothing (e.g. a call that failed before any
   assignment) every follow-up program behaves as if it had not happened *)
Theorem C03_resume_after_failed_call : forall fm tx pf fuel st e r st' fuel2 e2,
  eval eval_fn_pop_in_finally fm tx pf fuel st e = (r, st') -> log st' = log st ->
  fst (eval eval_fn_pop_in_finally fm tx pf fuel2 st' e2) = fst (eval eval_fn_pop_in_finally fm tx pf fuel2 st e2) /\
  sequiv (snd (eval eval_fn_pop_in_finally fm tx pf fuel2 st' e2)) (snd (eval eval_fn_pop_in_finally fm tx pf fuel2 st e2)).
Proof.
  exact (eq_ind_r (fun f => forall fm tx pf fuel st e r st' fuel2 e2,
            eval f fm tx pf fuel st e = (r, st') -> log st' = log st ->
            fst (eval f fm tx pf fuel2 st' e2) = fst (eval f fm tx pf fuel2 st e2) /\
            sequiv (snd (eval f fm tx pf fuel2 st' e2)) (snd (eval f fm tx pf fuel2 st e2)))
           resume_after_silent (eq_refl : eval_fn_pop_in_finally = true)).
Qed.
Print Assumptions C03_resume_after_failed_call.

(* without the `finally` the statement is false: a call whose body raises leaves its frame behind *)
Theorem C03_frames_refuted_without_finally :
  exists e r st', eval false true true (fun _ _ => Err EType) 5 init_state e = (r, st') /\
                  length (frames st') <> length (frames init_state).
Proof.
  exists (TFn true (TOp2 Add (TInt 1) (TStr [97])) (Some []) 0).
  eexists. eexists. split; [vm_compute; reflexivity|]. cbn. discriminate.
Qed.

(* Non-vacuity of T3.frames: three nested calls with locals; the innermost raises after a
   deliberate assignment to the existing global c.  Depth is restored, a (shadowed by a local) and
   b keep their values, c has changed and (c, 0) is logged. *)
Example C03_frames_example :
  let nA := 10 in let nB := 11 in let nC := 12 in let nP := 13 in let nQ := 14 in
  let q := TFn false (TSeq [TArr [TSym nA]; TOp2 Define (TSym nA) (TSym nX);
                            TOp2 Define (TSym nC) (TOp2 Add (TSym nC) (TInt 1));
                            TOp2 Add (TInt 1) (TStr [97])]) None 1 in
  let p := TFn false (TSeq [TArr [TSym nB]; TOp2 Define (TSym nB) (TInt 0);
                            TFn true (TSym nQ) (Some [TSym nX]) 1]) None 1 in
  let st := mk_state [[(nA, TInt 1); (nB, TArr [TInt 1; TInt 2]); (nC, TInt 0); (nP, p); (nQ, q)]] [] in
  let '(r, st') := eval true true true (fun _ _ => Err EType) 30 st (TFn true (TSym nP) (Some [TInt 5]) 1) in
  r = Err EType /\ length (frames st') = 1%nat /\ log st' = [(nC, 0%nat); (nA, 2%nat); (nB, 1%nat)] /\
  ctx_lookup nA (frames st') = Some (TInt 1) /\ ctx_lookup nC (frames st') = Some (TInt 1).
Proof. vm_compute. repeat split; reflexivity. Qed.

(* Non-vacuity for the Python-callable path: g::{[a];a::x*2;boom(a)} with boom a Python callable
   that raises; g(7) fails, depth and the global a = 100 are as before *)
Example C03_frames_python_callable_example :
  let nA := 10 in let nG := 11 in let nBoom := 12 in
  let g := TFn false (TSeq [TArr [TSym nA]; TOp2 Define (TSym nA) (TOp2 Mul (TSym nX) (TInt 2));
                            TFn true (TSym nBoom) (Some [TSym nA]) 1]) None 1 in
  let st := mk_state [[(nA, TInt 100); (nG, g); (nBoom, TFn true (TPy 0 [nX]) None 1)]] [] in
  let '(r, st') := eval true true true (fun _ _ => Err EType) 30 st (TFn true (TSym nG) (Some [TInt 7]) 1) in
  r = Err EType /\ length (frames st') = 1%nat /\ ctx_lookup nA (frames st') = Some (TInt 100) /\ log st' = [(nA, 1%nat)].
Proof. vm_compute. repeat split; reflexivity. Qed.

(* T3.merge — merge_projections, as the regenerated loop skeleton has it, IS positional hole
   filling: any arity, any number of further argument lists, any hole pattern. *)
Theorem C03_merge : forall base fills,
  existsb is_none base = true -> fills <> [] ->
  merge_projections merge_restarts_per_fill (Some base :: map Some fills) = MArr (fill_all base fills).
Proof.
  exact (eq_ind_r (fun f => forall base fills, existsb is_none base = true -> fills <> [] ->
            merge_projections f (Some base :: map Some fills) = MArr (fill_all base fills))
           merge_fill_all (eq_refl : merge_restarts_per_fill = true)).
Qed.
Print Assumptions C03_merge.

(* what positional filling means, entry by entry: the i-th entry of the result is the old entry,
   or, for a hole, the entry of `fill` whose index is the number of holes before position i *)
Theorem C03_fill_positional : forall fill base i,
  nth i (fill_from 0 base fill) TNone =
    if is_none (nth i base TNone) && (i <? length base)%nat
    then nth (length (filter is_none (firstn i base))) fill TNone
    else nth i base TNone.
Proof. exact (fun fill base i => fill_from_nth fill base 0 i). Qed.
Print Assumptions C03_fill_positional.

(* the loops of the pinned tree (position carried over to the next argument list, holes of an
   argument list skipped after a store) do NOT satisfy it: f(1;;) then (;2) then (3) *)
Theorem C03_merge_pinned_refuted :
  exists base fills, existsb is_none base = true /\ fills <> [] /\
    merge_projections false (Some base :: map Some fills) <> MArr (fill_all base fills).
Proof.
  exists [TInt 1; TNone; TNone], [[TNone; TInt 2]; [TInt 3]].
  split; [reflexivity|]. split; [discriminate|]. vm_compute. discriminate.
Qed.

Example C03_merge_example :
  merge_projections true [Some [TInt 1; TNone; TNone]; Some [TNone; TInt 2]; Some [TInt 3]]
  = MArr [TInt 1; TInt 3; TInt 2].
Proof. reflexivity. Qed.

(* T3.proj — calling a projection that completes the argument list equals the direct call of the
   function with the positionally filled argument list: through one projection (g::f(P1); g(a2)) and
   through two (g::f(P1); h::g(P2); h(a3)), for every hole pattern P1, P2 and hence every fill order
   (the filled list is `fill_all`, characterised by C03_fill_positional), any arity. *)
Theorem C03_proj : forall fin tx pf fuel st g cg f cf b P1 n1 n a2 n2 h ch P2 n2' a3 n3,
  op_rooted b = true -> is_reserved g = false -> is_reserved f = false -> is_reserved h = false ->
  ctx_lookup g (frames st) = Some (TFn cg (TSym f) (Some P1) n1) ->
  ctx_lookup f (frames st) = Some (TFn cf b None n) ->
  ctx_lookup h (frames st) = Some (TFn ch (TSym g) (Some P2) n2') ->
  existsb is_none P1 = true -> existsb is_none P2 = true ->
  (0 < n1)%nat -> (0 < n2)%nat -> (0 < n2')%nat -> (0 < n3)%nat ->
  (existsb is_none (fill_all P1 [a2]) = false -> (n <= length (fill_all P1 [a2]))%nat -> (0 < length (fill_all P1 [a2]))%nat ->
   eval fin merge_restarts_per_fill tx pf (S fuel) st (TFn true (TSym g) (Some a2) n2)
   = eval fin merge_restarts_per_fill tx pf (S fuel) st (TFn true (TSym f) (Some (fill_all P1 [a2])) (length (fill_all P1 [a2])))) /\
  (existsb is_none (fill_all P1 [P2; a3]) = false -> (n <= length (fill_all P1 [P2; a3]))%nat -> (0 < length (fill_all P1 [P2; a3]))%nat ->
   eval fin merge_restarts_per_fill tx pf (S fuel) st (TFn true (TSym h) (Some a3) n3)
   = eval fin merge_restarts_per_fill tx pf (S fuel) st (TFn true (TSym f) (Some (fill_all P1 [P2; a3])) (length (fill_all P1 [P2; a3])))).
Proof.
  exact (eq_ind_r (fun m => forall fin tx pf fuel st g cg f cf b P1 n1 n a2 n2 h ch P2 n2' a3 n3,
    op_rooted b = true -> is_reserved g = false -> is_reserved f = false -> is_reserved h = false ->
    ctx_lookup g (frames st) = Some (TFn cg (TSym f) (Some P1) n1) ->
    ctx_lookup f (frames st) = Some (TFn cf b None n) ->
    ctx_lookup h (frames st) = Some (TFn ch (TSym g) (Some P2) n2') ->
    existsb is_none P1 = true -> existsb is_none P2 = true ->
    (0 < n1)%nat -> (0 < n2)%nat -> (0 < n2')%nat -> (0 < n3)%nat ->
    (existsb is_none (fill_all P1 [a2]) = false -> (n <= length (fill_all P1 [a2]))%nat -> (0 < length (fill_all P1 [a2]))%nat ->
     eval fin m tx pf (S fuel) st (TFn true (TSym g) (Some a2) n2)
     = eval fin m tx pf (S fuel) st (TFn true (TSym f) (Some (fill_all P1 [a2])) (length (fill_all P1 [a2])))) /\
    (existsb is_none (fill_all P1 [P2; a3]) = false -> (n <= length (fill_all P1 [P2; a3]))%nat -> (0 < length (fill_all P1 [P2; a3]))%nat ->
     eval fin m tx pf (S fuel) st (TFn true (TSym h) (Some a3) n3)
     = eval fin m tx pf (S fuel) st (TFn true (TSym f) (Some (fill_all P1 [P2; a3])) (length (fill_all P1 [P2; a3])))))
    proj_is_direct (eq_refl : merge_restarts_per_fill = true)).
Qed.
Print Assumptions C03_proj.

(* Non-vacuity: f::{x-y*z}... g::f(1;;); h::g(;2); h(3) = f(1;3;2) (the program the pinned tree got wrong) *)
Example C03_proj_example :
  let nF := 10 in let nG := 11 in let nH := 12 in
  let b := TOp2 Join (TSym nX) (TOp2 Join (TSym nY) (TSym nZ)) in
  let st := mk_state [[(nF, TFn false b None 3); (nG, TFn false (TSym nF) (Some [TInt 1; TNone; TNone]) 3);
                       (nH, TFn false (TSym nG) (Some [TNone; TInt 2]) 2)]] [] in
  fill_all [TInt 1; TNone; TNone] [[TNone; TInt 2]; [TInt 3]] = [TInt 1; TInt 3; TInt 2] /\
  fst (eval true true true (fun _ _ => Err EType) 20 st (TFn true (TSym nH) (Some [TInt 3]) 1)) = Ok (TArr [TInt 1; TInt 3; TInt 2]).
Proof. vm_compute. split; reflexivity. Qed.

(* T3.cond — a conditional evaluates its condition, then exactly the branch selected by Klong
   truth; the other branch is not evaluated at all (it can be replaced by anything, including a
   diverging or raising program, without changing result or state). *)
Theorem C03_cond_selects : forall fin fm tx pf fuel st c a b q st1,
  call fin fm tx pf fuel st c = (Ok q, st1) ->
  (truthy tx q = true -> forall b', eval fin fm tx pf (S fuel) st (TCond c a b') = call fin fm tx pf fuel st1 a) /\
  (truthy tx q = false -> forall a', eval fin fm tx pf (S fuel) st (TCond c a' b) = call fin fm tx pf fuel st1 b).
Proof. exact cond_selects. Qed.
Print Assumptions C03_cond_selects.

(* Klong truth: exactly 0 (the integer 0, the reals +0.0 and -0.0), [] and "" are false (TSeq [] is
   Python's empty list, the empty program); every other value — tiny reals such as 1.0e-300
   included — is true.  Closed over the regenerated fact that the zero test is `q == 0`. *)
Theorem C03_cond_truth : forall q,
  truthy cond_zero_test_is_exact q = false <->
  (q = TInt 0 \/ (exists b, q = TReal b /\ real_is_zero b = true) \/ q = TArr [] \/ q = TStr [] \/ q = TSeq []).
Proof.
  exact (eq_ind_r (fun f => forall q, truthy f q = false <->
            (q = TInt 0 \/ (exists b, q = TReal b /\ real_is_zero b = true) \/ q = TArr [] \/ q = TStr [] \/ q = TSeq []))
           truthy_false_iff (eq_refl : cond_zero_test_is_exact = true)).
Qed.
Print Assumptions C03_cond_truth.

(* with a tolerance comparison instead of `== 0` the statement is false: 1.0e-9 selects the else branch *)
Theorem C03_cond_truth_refuted_with_tolerance :
  exists q, truthy false q = false /\
    ~ (q = TInt 0 \/ (exists b, q = TReal b /\ real_is_zero b = true) \/ q = TArr [] \/ q = TStr [] \/ q = TSeq []).
Proof.
  exists (TReal 4472406533629990549).
  split; [vm_compute; reflexivity|].
  intros [H|[(b & H & Hb)|[H|[H|H]]]]; try discriminate H.
  inversion H; subst. vm_compute in Hb. discriminate Hb.
Qed.

Example C03_cond_example :
  fst (eval true true true (fun _ _ => Err EType) 9 init_state (TCond (TStr []) (TOp2 Add (TInt 1) (TStr [97])) (TInt 2))) = Ok (TInt 2) /\
  fst (eval true true true (fun _ _ => Err EType) 9 init_state (TCond (TArr [TInt 0]) (TInt 1) (TOp2 Add (TInt 1) (TStr [97])))) = Ok (TInt 1).
Proof. vm_compute. split; reflexivity. Qed.

(* T3.subst, part 1 — all call forms enter the body b in the same way (`enter`: evaluate the
   arguments left to right in the caller's context, push x y z .f, run b, pop):
   the direct call {b}(args), the call g(args) through a variable, g@[vals], and .f(args). *)
Theorem C03_call_forms : forall fin fm tx pf fuel st b args n,
  op_rooted b = true -> existsb is_none args = false -> (n <= length args)%nat ->
  eval fin fm tx pf (S fuel) st (TFn true b (Some args) n) = enter fin fm tx pf fuel st b args /\
  (forall g c0 n', (0 < n')%nat -> is_reserved g = false -> ctx_lookup g (frames st) = Some (TFn c0 b None n) ->
     eval fin fm tx pf (S fuel) st (TFn true (TSym g) (Some args) n') = enter fin fm tx pf fuel st b args) /\
  (forall g c0, ctx_lookup g (frames st) = Some (TFn c0 b None n) ->
     eval fin fm tx pf (S (S fuel)) st (TOp2 At (TSym g) (TArr args)) = enter fin fm tx pf fuel st b args) /\
  (ctx_lookup nDotF (frames st) = Some b ->
     eval fin fm tx pf (S fuel) st (TFn true (TSym nDotF) (Some args) n) = enter fin fm tx pf fuel st b args).
Proof.
  exact (fun fin fm tx pf fuel st b args n Hb Hh Hn =>
    conj (direct_call fin fm tx pf fuel st b args n Hb Hh Hn)
   (conj (fun g c0 n' Hp Hg Hl => var_call fin fm tx pf fuel st g c0 b args n n' Hb Hh Hn Hp Hg Hl)
   (conj (fun g c0 Hl => at_call fin fm tx pf fuel st g c0 b args n Hb Hh Hn Hl)
         (fun Hl => dotf_call fin fm tx pf fuel st b args n Hb Hh Hn Hl)))).
Qed.
Print Assumptions C03_call_forms.

(* T3.subst, part 2 — entering a body of the closed pure grammar (x y z, globals, literals,
   + - * , # = <, conditionals) with arguments that evaluated to data values vs gives the value of
   the body with x y z textually replaced by vs, evaluated in the caller's context; the caller's
   context is as the argument evaluation left it. *)
Theorem C03_subst : forall fm tx pf fuel st b args vs st1 k,
  pure b -> eval_args (eval eval_fn_pop_in_finally fm tx pf fuel) st (firstn 3 args) = (Some vs, k, st1) ->
  (forall v, In v vs -> self_eval v = true) ->
  names_bound (combine [nX; nY; nZ] vs) (frames st1) b ->
  enter eval_fn_pop_in_finally fm tx pf fuel st b args =
    (fst (eval eval_fn_pop_in_finally fm tx pf fuel st1 (subst (combine [nX; nY; nZ] vs) b)), st1).
Proof.
  exact (eq_ind_r (fun f => forall fm tx pf fuel st b args vs st1 k,
            pure b -> eval_args (eval f fm tx pf fuel) st (firstn 3 args) = (Some vs, k, st1) ->
            (forall v, In v vs -> self_eval v = true) ->
            names_bound (combine [nX; nY; nZ] vs) (frames st1) b ->
            enter f fm tx pf fuel st b args = (fst (eval f fm tx pf fuel st1 (subst (combine [nX; nY; nZ] vs) b)), st1))
           enter_is_subst (eq_refl : eval_fn_pop_in_finally = true)).
Qed.
Print Assumptions C03_subst.

(* Non-vacuity of T3.subst: {:[x<y;x+a;y*2]}(3;1+4) with the global a = 10 *)
Example C03_subst_example :
  let nA := 10 in
  let b := TCond (TOp2 Lt (TSym nX) (TSym nY)) (TOp2 Add (TSym nX) (TSym nA)) (TOp2 Mul (TSym nY) (TInt 2)) in
  let st := mk_state [[(nA, TInt 10)]] [] in
  let args := [TInt 3; TOp2 Add (TInt 1) (TInt 4)] in
  eval true true true (fun _ _ => Err EType) 21 st (TFn true b (Some args) 2) = (Ok (TInt 13), st) /\
  eval_args (eval true true true (fun _ _ => Err EType) 20) st (firstn 3 args) = (Some [TInt 3; TInt 5], EType, st) /\
  eval true true true (fun _ _ => Err EType) 20 st (subst (combine [nX; nY; nZ] [TInt 3; TInt 5]) b) = (Ok (TInt 13), st).
Proof. vm_compute. repeat split; reflexivity. Qed.
