(* C03/Properties.v *)
From Coq Require Import ZArith List Bool.
From C03 Require Import Generated Model Spec Proofs.
