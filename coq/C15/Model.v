(* C15/Model.v — executable model of klongpy/sys_fn_timer.py under a virtual-time
   event loop (harness/c15.py: class VLoop, the part of asyncio.BaseEventLoop
   that _call_periodic uses: time, call_soon, call_at, call_later, _run_once).

   Time is Z, in units of 2^-20 s (every clock value the harness uses is such a
   dyadic rational, so binary64 arithmetic on it is exact and equals this).

   One Gallina definition per Python function:
     KGTimerHandler.cancel        handler_cancel
     eval_sys_fn_cancel_timer     sys_timerc
     _call_periodic               create_timer
     _call_periodic.run           run_timer        (parameterised by the flags of Generated.v)
     eval_sys_fn_timer            timer_validate + create_timer
     KGFnWrapper.__call__         the version reported by run_timer (f_resolve)
     VLoop.call_soon/call_at      call_soon / call_at
     VLoop.run_once               loop_once        (= BaseEventLoop._run_once)
   No proofs in this file. *)
From Coq Require Import ZArith List Bool Arith.
From C15 Require Import Generated.
Import ListNotations.
Open Scope Z_scope.

(* facts about the source read by the translator (Generated.v) *)
Record flags := mk_flags {
  f_guard : bool;    (* run: `if handle.delegate is None: return` after the callback *)
  f_clear : bool;    (* run: a callback leaving through an Exception clears handle.delegate before the exception propagates *)
  f_clear_base : bool; (* ... and so does one leaving through a BaseException that is no Exception (SystemExit, KeyboardInterrupt, CancelledError) *)
  f_mono : bool;     (* run: re-arm at start + n*interval, n strictly increasing; false: call_later(interval - (now-start) % interval) *)
  f_truth : bool;    (* run: the result is tested by _is_true (Klong truth) inside the try; false: Python `if r` after it *)
  f_resolve : bool   (* KGFnWrapper.__call__ looks its symbol up in the context at every call *)
}.

Record config := mk_config {
  c_res : Z;         (* loop._clock_resolution *)
  c_lifo : bool      (* order of handles with equal deadlines: false = first armed first *)
}.

Inductive target := TRun (i : nat) | TCancel (j : nat) | TRedef (k : nat) | TUndef (k : nat).
Record handle := mk_handle { hid : nat; hwhen : Z; htgt : target }.

(* what one invocation of a callback does: advance the clock by s_dur, perform
   s_act, then raise (ARaise) or return s_ret *)
(* how a callback may leave without returning: an Exception; asyncio.CancelledError (a BaseException that
   Handle._run reports to the exception handler like any other); SystemExit / KeyboardInterrupt, which
   Handle._run re-raises: they leave _run_once, the handles of the batch not yet run stay in the ready queue *)
Inductive rkind := RExc | RCancelled | RFatal.
Inductive action := ANone | ACancel (j : nat) | ARedef (k : nat) | ARaise (k : rkind) | ASpawn | AUndef (k : nat).

(* what a callback returns, as far as a truth test can tell values apart *)
Inductive retv :=
| RNum (z : Z)                          (* integer or real; z = 0 iff the number is 0 *)
| RStr (len : nat)
| RList (len : nat) (first_true : bool) (* numpy array; first_true: its first element is non-zero *)
| ROther.                               (* symbol, character, function, ... *)

(* Klong truth, as the interpreter's conditional has it: 0, [] and "" are false *)
Definition klong_truth (r : retv) : bool :=
  match r with
  | RNum z => negb (z =? 0)
  | RStr n => negb (Nat.eqb n 0)
  | RList n _ => negb (Nat.eqb n 0)
  | ROther => true
  end.

(* Python `if r:` on the same values; None = raises ValueError (numpy arrays with 0 or >= 2 elements) *)
Definition py_truth (r : retv) : option bool :=
  match r with
  | RNum z => Some (negb (z =? 0))
  | RStr n => Some (negb (Nat.eqb n 0))
  | RList n b => if Nat.eqb n 1 then Some b else None
  | ROther => Some true
  end.

Record step := mk_step { s_dur : Z; s_ret : retv; s_act : action }.
Definition default_step := mk_step 0 (RNum 0) ANone.

(* KGTimerHandler + the closure variables of _call_periodic *)
Record timer := mk_timer {
  t_interval : Z; t_start : Z;
  t_delegate : option nat;      (* handle.delegate: id of a loop handle *)
  t_n : Z;                      (* closure variable n of the re-arm (f_mono) *)
  t_fn0 : nat                   (* the function object captured by KGFnWrapper.__init__ *)
}.
Definition timer0 := mk_timer 0 0 None 0 O.

Inductive outcome := RetTrue | RetFalse | Raised.
Inductive event :=
| EvCreate (i : nat) (t iv : Z)            (* .timer returned handler i at clock t, interval iv *)
| EvTick (i : nat) (t due : Z) (v : nat)  (* callback of timer i entered at clock t, from a loop handle armed for `due`; version v of its named function ran *)
| EvEnd (i : nat) (t : Z) (o : outcome)   (* ... left at clock t *)
| EvCancel (j : nat) (t : Z) (r : bool)   (* .timerc(handler j) returned r *)
| EvRedef (k v : nat)                     (* from now on a call through the wrapper of timer k must run version v (name rebound; or unbound: v = the captured one) *)
| EvIdle.                                 (* the loop has nothing left to run *)

Definition upd {A} (f : nat -> A) (i : nat) (v : A) : nat -> A :=
  fun j => if Nat.eqb j i then v else f j.

Record world := mk_world {
  w_now : Z;                   (* loop.time() *)
  w_next : nat;                (* next handle id *)
  w_sched : list handle;       (* loop._scheduled in dispatch order *)
  w_ready : list handle;       (* loop._ready *)
  w_canc : nat -> bool;        (* Handle._cancelled *)
  w_nt : nat;                  (* timers created so far *)
  w_tm : nat -> timer;
  w_scr : nat -> list step;    (* what the callback of timer i will do at its next invocations *)
  w_bind : nat -> option nat;  (* klong context: version of the function currently bound to callback name k; None: deleted / not a function *)
  w_nver : nat;
  w_pool : list (Z * list step) (* interval and script of the timers that callbacks will create (ASpawn), in order *)
}.

Definition set_now (w : world) (t : Z) :=
  mk_world t (w_next w) (w_sched w) (w_ready w) (w_canc w) (w_nt w) (w_tm w) (w_scr w) (w_bind w) (w_nver w) (w_pool w).
Definition set_sched (w : world) (l : list handle) :=
  mk_world (w_now w) (w_next w) l (w_ready w) (w_canc w) (w_nt w) (w_tm w) (w_scr w) (w_bind w) (w_nver w) (w_pool w).
Definition set_ready (w : world) (l : list handle) :=
  mk_world (w_now w) (w_next w) (w_sched w) l (w_canc w) (w_nt w) (w_tm w) (w_scr w) (w_bind w) (w_nver w) (w_pool w).
Definition set_scr (w : world) (s : nat -> list step) :=
  mk_world (w_now w) (w_next w) (w_sched w) (w_ready w) (w_canc w) (w_nt w) (w_tm w) s (w_bind w) (w_nver w) (w_pool w).
Definition set_tm (w : world) (i : nat) (t : timer) :=
  mk_world (w_now w) (w_next w) (w_sched w) (w_ready w) (w_canc w) (w_nt w) (upd (w_tm w) i t) (w_scr w) (w_bind w) (w_nver w) (w_pool w).
Definition set_delegate (w : world) (i : nat) (d : option nat) :=
  let t := w_tm w i in
  set_tm w i (mk_timer (t_interval t) (t_start t) d (t_n t) (t_fn0 t)).
(* TimerHandle.cancel() *)
Definition cancel_handle (w : world) (id : nat) :=
  mk_world (w_now w) (w_next w) (w_sched w) (w_ready w) (upd (w_canc w) id true) (w_nt w) (w_tm w) (w_scr w) (w_bind w) (w_nver w) (w_pool w).
(* klong('cbK::{...}') : a fresh version is bound to name k *)
Definition redefine (w : world) (k : nat) :=
  mk_world (w_now w) (w_next w) (w_sched w) (w_ready w) (w_canc w) (w_nt w) (w_tm w) (w_scr w)
           (upd (w_bind w) k (Some (w_nver w))) (S (w_nver w)) (w_pool w).
(* del klong['cbK'] / cbK::5 : no function under that name any more *)
Definition undefine (w : world) (k : nat) :=
  mk_world (w_now w) (w_next w) (w_sched w) (w_ready w) (w_canc w) (w_nt w) (w_tm w) (w_scr w)
           (upd (w_bind w) k None) (w_nver w) (w_pool w).
(* KGFnWrapper.__call__ of the wrapper made for timer k: the function now bound to the name if there is one,
   else the function object captured when the wrapper was made *)
Definition fallback (w : world) (k : nat) : nat := if (k <? w_nt w)%nat then t_fn0 (w_tm w k) else O.
Definition eff (w : world) (k : nat) : nat := match w_bind w k with Some v => v | None => fallback w k end.
Definition set_pool (w : world) (p : list (Z * list step)) :=
  mk_world (w_now w) (w_next w) (w_sched w) (w_ready w) (w_canc w) (w_nt w) (w_tm w) (w_scr w) (w_bind w) (w_nver w) p.
Definition add_timer (w : world) (t : timer) :=
  mk_world (w_now w) (w_next w) (w_sched w) (w_ready w) (w_canc w) (S (w_nt w)) (upd (w_tm w) (w_nt w) t) (w_scr w) (w_bind w) (w_nver w) (w_pool w).

(* heapq order of the harness loop: by deadline, ties by arming order (or reverse) *)
Fixpoint insert_h (lifo : bool) (h : handle) (l : list handle) : list handle :=
  match l with
  | [] => [h]
  | x :: r => if (if lifo then hwhen h <=? hwhen x else hwhen h <? hwhen x) then h :: l else x :: insert_h lifo h r
  end.

Definition call_soon (tg : target) (w : world) : world * nat :=
  let id := w_next w in
  (mk_world (w_now w) (S id) (w_sched w) (w_ready w ++ [mk_handle id (w_now w) tg]) (w_canc w) (w_nt w) (w_tm w) (w_scr w) (w_bind w) (w_nver w) (w_pool w), id).

Definition call_at (cfg : config) (when : Z) (tg : target) (w : world) : world * nat :=
  let id := w_next w in
  (mk_world (w_now w) (S id) (insert_h (c_lifo cfg) (mk_handle id when tg) (w_sched w)) (w_ready w) (w_canc w) (w_nt w) (w_tm w) (w_scr w) (w_bind w) (w_nver w) (w_pool w), id).

(* KGTimerHandler.cancel *)
Definition handler_cancel (i : nat) (w : world) : world * bool :=
  match t_delegate (w_tm w i) with
  | None => (w, false)
  | Some id => (set_delegate (cancel_handle w id) i None, true)
  end.

(* eval_sys_fn_cancel_timer: anything that is not a KGTimerHandler gives 0 *)
Definition sys_timerc (j : nat) (w : world) : world * bool :=
  if (j <? w_nt w)%nat then handler_cancel j w else (w, false).

(* _call_periodic (interval already validated, in clock units) *)
Definition create_timer (cfg : config) (iv : Z) (w : world) : world * list event :=
  let i := w_nt w in
  let start := w_now w in
  let '(w1, id) := if iv =? 0 then call_soon (TRun i) w else call_at cfg (start + iv) (TRun i) w in
  (add_timer w1 (mk_timer iv start (Some id) 1 (match w_bind w i with Some v => v | None => O end)), [EvCreate i start iv]).

(* eval_sys_fn_timer: argument checks, in the order of the source *)
Inductive zkind := ZCall | ZFn | ZCallable | ZOther.
Inductive tresult := TRNeg | TRCall | TRNoFn | TROk.
Definition timer_validate (y : Z) (z : zkind) : tresult :=
  if y <? 0 then TRNeg else
  match z with ZCall => TRCall | ZFn => TROk | ZCallable => TROk | ZOther => TRNoFn end.

Definition is_none {A} (o : option A) : bool := match o with None => true | Some _ => false end.

(* the re-arm branch of run *)
Definition rearm (fl : flags) (cfg : config) (i : nat) (w : world) : world :=
  let t := w_tm w i in
  let iv := t_interval t in
  let start := t_start t in
  if iv =? 0 then
    let '(w1, id) := call_soon (TRun i) w in
    set_tm w1 i (mk_timer iv start (Some id) (t_n t) (t_fn0 t))
  else if f_mono fl then
    let n' := Z.max (t_n t + 1) ((w_now w - start) / iv + 1) in
    let '(w1, id) := call_at cfg (start + n' * iv) (TRun i) w in
    set_tm w1 i (mk_timer iv start (Some id) n' (t_fn0 t))
  else
    (* call_later(delay) = call_at(time() + delay) *)
    let '(w1, id) := call_at cfg (w_now w + (iv - ((w_now w - start) mod iv))) (TRun i) w in
    set_tm w1 i (mk_timer iv start (Some id) (t_n t) (t_fn0 t)).

(* the callback body (harness script) : clock advance + action.  ASpawn: the callback calls .timer for the
   next timer of the pool (a negative interval is refused by eval_sys_fn_timer) *)
Definition do_action (cfg : config) (st : step) (w : world) : world * list event * bool :=
  let w1 := set_now w (w_now w + Z.max 0 (s_dur st)) in
  match s_act st with
  | ANone => (w1, [], false)
  | ACancel j => let '(w2, r) := sys_timerc j w1 in (w2, [EvCancel j (w_now w1) r], false)
  | ARedef k => (redefine w1 k, [EvRedef k (w_nver w1)], false)
  | AUndef k => (undefine w1 k, [EvRedef k (fallback w1 k)], false)
  | ARaise _ => (w1, [], true)
  | ASpawn =>
      match w_pool w1 with
      | [] => (w1, [], false)
      | (iv, scr) :: rest =>
          let w2 := set_pool w1 rest in
          if iv <? 0 then (w2, [], false) else
          let '(w3, e) := create_timer cfg iv (set_scr w2 (upd (w_scr w2) (w_nt w2) scr)) in
          (w3, e, false)
      end
  end.

(* the branch of run taken on a result the truth test calls b *)
Definition continue_or_stop (fl : flags) (cfg : config) (i : nat) (b : bool) (w : world) : world :=
  if f_guard fl && is_none (t_delegate (w_tm w i)) then w
  else if b then rearm fl cfg i w
  else fst (handler_cancel i w).

(* what follows the callback in run.  The event records what the callback returned, as a Klong truth value. *)
Definition epilogue (fl : flags) (cfg : config) (i : nat) (st : step) (raised : bool) (w : world) : world * list event :=
  if raised then
    let clears := match s_act st with ARaise RExc => f_clear fl | _ => f_clear_base fl end in
    ((if clears then set_delegate w i None else w), [EvEnd i (w_now w) Raised])
  else
    let ev := [EvEnd i (w_now w) (if klong_truth (s_ret st) then RetTrue else RetFalse)] in
    if f_truth fl then (continue_or_stop fl cfg i (klong_truth (s_ret st)) w, ev)
    else
      match py_truth (s_ret st) with
      | Some b => (continue_or_stop fl cfg i b w, ev)
      | None => (w, ev)       (* `if r` raises after the try block: nothing is cleared, nothing re-armed *)
      end.

(* _call_periodic.run(handle), entered from a loop handle armed for `due` *)
Definition is_fatal (st : step) : bool := match s_act st with ARaise RFatal => true | _ => false end.

Definition run_timer (fl : flags) (cfg : config) (i : nat) (due : Z) (w : world) : world * list event * bool :=
  let st := match w_scr w i with s :: _ => s | [] => default_step end in
  let v := if f_resolve fl then eff w i else t_fn0 (w_tm w i) in
  let ev1 := EvTick i (w_now w) due v in
  let w0 := set_scr w (upd (w_scr w) i (tl (w_scr w i))) in
  let '(w1, evs, raised) := do_action cfg st w0 in
  let '(w2, eve) := epilogue fl cfg i st raised w1 in
  (w2, ev1 :: evs ++ eve, is_fatal st).

(* Handle._run, after the loop found the handle not cancelled *)
Definition run_handle (fl : flags) (cfg : config) (h : handle) (w : world) : world * list event * bool :=
  if w_canc w (hid h) then (w, [], false) else
  match htgt h with
  | TRun i => run_timer fl cfg i (hwhen h) w
  | TCancel j => let '(w1, r) := sys_timerc j w in (w1, [EvCancel j (w_now w) r], false)
  | TRedef k => (redefine w k, [EvRedef k (w_nver w)], false)
  | TUndef k => (undefine w k, [EvRedef k (fallback w k)], false)
  end.

(* for i in range(ntodo): handle = ready.popleft(); ... ; a SystemExit / KeyboardInterrupt ends the batch *)
Fixpoint run_ready (fl : flags) (cfg : config) (n : nat) (w : world) : world * list event :=
  match n with
  | O => (w, [])
  | S n' =>
      match w_ready w with
      | [] => (w, [])
      | h :: r =>
          let '(w1, e1, fatal) := run_handle fl cfg h (set_ready w r) in
          if fatal then (w1, e1) else
          let '(w2, e2) := run_ready fl cfg n' w1 in
          (w2, e1 ++ e2)
      end
  end.

Fixpoint drop_cancelled (canc : nat -> bool) (l : list handle) : list handle :=
  match l with
  | h :: r => if canc (hid h) then drop_cancelled canc r else l
  | [] => []
  end.

Fixpoint span_due (endt : Z) (l : list handle) : list handle * list handle :=
  match l with
  | h :: r => if hwhen h <? endt then let '(a, b) := span_due endt r in (h :: a, b) else ([], l)
  | [] => ([], [])
  end.

(* _run_once; `lat` = how far from the earliest deadline the select() returns
   (negative: early).  None = nothing scheduled and nothing ready. *)
Definition dispatch_due (fl : flags) (cfg : config) (w1 : world) : world * list event :=
  let '(due, rest) := span_due (w_now w1 + c_res cfg) (w_sched w1) in
  let w2 := set_ready (set_sched w1 rest) (w_ready w1 ++ due) in
  run_ready fl cfg (length (w_ready w2)) w2.

Definition loop_once (fl : flags) (cfg : config) (lat : Z) (w : world) : option (world * list event) :=
  let sched := drop_cancelled (w_canc w) (w_sched w) in
  let w0 := set_sched w sched in
  match w_ready w0, sched with
  | [], [] => None
  | [], h :: _ => Some (dispatch_due fl cfg (set_now w0 (Z.max (w_now w0) (hwhen h + lat))))
  | _ :: _, _ => Some (dispatch_due fl cfg w0)
  end.

(* run the loop until idle; a latency is consumed by every iteration that has to wait *)
Fixpoint run_loop (fl : flags) (cfg : config) (fuel : nat) (lats : list Z) (w : world) : world * list event :=
  match fuel with
  | O => (w, [])
  | S f =>
      let waiting := match w_ready w with [] => true | _ => false end in
      let lat := if waiting then hd 0 lats else 0 in
      let lats' := if waiting then tl lats else lats in
      match loop_once fl cfg lat w with
      | None => (w, [EvIdle])
      | Some (w1, e1) => let '(w2, e2) := run_loop fl cfg f lats' w1 in (w2, e1 ++ e2)
      end
  end.

(* ---- a whole experiment ---------------------------------------------------- *)
Inductive ext := XCancel (j : nat) | XRedef (k : nat) | XUndef (k : nat).
Definition ext_target (x : ext) : target :=
  match x with XCancel j => TCancel j | XRedef k => TRedef k | XUndef k => TUndef k end.

Record tspec := mk_tspec { ts_gap : Z; ts_interval : Z; ts_script : list step }.

Definition world0 (t0 : Z) (pool : list (Z * list step)) : world :=
  mk_world t0 O [] [] (fun _ => false) O (fun _ => timer0) (fun _ => []) (fun _ => Some O) 1%nat pool.

Fixpoint arm_exts (cfg : config) (xs : list (Z * ext)) (w : world) : world :=
  match xs with
  | [] => w
  | (t, x) :: r => arm_exts cfg r (fst (call_at cfg t (ext_target x) w))
  end.

(* .timer(...) calls issued one after the other, the clock moving by ts_gap before each;
   a negative interval is refused by eval_sys_fn_timer and creates nothing *)
Fixpoint create_all (cfg : config) (ts : list tspec) (w : world) : world * list event :=
  match ts with
  | [] => (w, [])
  | s :: r =>
      let w1 := set_now w (w_now w + Z.max 0 (ts_gap s)) in
      if ts_interval s <? 0 then create_all cfg r w1 else
      let w2 := set_scr w1 (upd (w_scr w1) (w_nt w1) (ts_script s)) in
      let '(w3, e1) := create_timer cfg (ts_interval s) w2 in
      let '(w4, e2) := create_all cfg r w3 in
      (w4, e1 ++ e2)
  end.

Definition simulate (fl : flags) (cfg : config) (t0 : Z) (xs : list (Z * ext)) (ts : list tspec)
           (pool : list (Z * list step)) (lats : list Z) (fuel : nat) : world * list event :=
  let '(w1, e1) := create_all cfg ts (arm_exts cfg xs (world0 t0 pool)) in
  let '(w2, e2) := run_loop fl cfg fuel lats w1 in
  (w2, e1 ++ e2).

(* the flags of the checked-out source *)
Definition src_flags : flags := mk_flags gen_guard gen_clear dead_timer_cleared_on_base_exception gen_mono gen_truth gen_resolve.
