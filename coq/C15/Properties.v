From Coq Require Import ZArith List Bool.
From C15 Require Import Generated Model Spec Proofs.
