(* C15/Properties.v — property theorems only: statement, `exact`, Print Assumptions.
   Vocabulary: a history is the list of Model.event of a timer system in the order
   they happen; Spec.accepted strict res t0 h = the checker of Spec.v accepts h. *)
From Coq Require Import ZArith List Bool.
From C15 Require Import Generated Model Spec Proofs OnTime.
Import ListNotations.
Open Scope Z_scope.

(* The translator recognised _call_periodic / KGTimerHandler / eval_sys_fn_timer /
   eval_sys_fn_cancel_timer / KGFnWrapper; holds by computation on Generated.v only. *)
Theorem C15_source_shape : timer_shape_ok = true.
Proof. exact eq_refl. Qed.
Print Assumptions C15_source_shape.

(* The model identifies a timer by its handler and by nothing else (its name string does not occur in Model.v).
   That is faithful only while sys_fn_timer.py has no place where handlers are kept between calls: no module- or
   class-level state, no globals, no mutable default arguments (read by the translator). *)
Theorem C15_timers_are_identified_by_handle_only : timer_has_no_name_registry = true.
Proof. exact eq_refl. Qed.
Print Assumptions C15_timers_are_identified_by_handle_only.

(* T15.arith: the delay formula of the pinned source and the boundary index of the
   repaired one name the same instant: the first boundary strictly after `now`. *)
Theorem C15_rearm_arith : forall start iv now, 0 < iv ->
  now + (iv - (now - start) mod iv) = start + ((now - start) / iv + 1) * iv /\
  now < start + ((now - start) / iv + 1) * iv <= now + iv.
Proof. exact (fun start iv now H => conj (rearm_arith start iv now H) (rearm_after_now start iv now H)). Qed.
Print Assumptions C15_rearm_arith.

(* The deadline the checker demands after a true return is a boundary, later than the
   boundary just served (never twice the same), later than the completion time (never
   before a boundary that has not come), and the first such (missed ones are skipped, none added). *)
Theorem C15_next_due_is_first_later_boundary : forall start iv n t, 0 < iv ->
  let m := Z.max (n + 1) ((t - start) / iv + 1) in
  next_due start iv (start + n * iv) t = start + m * iv /\ n < m /\ t < start + m * iv /\
  forall k, n < k -> t < start + k * iv -> m <= k.
Proof.
  exact (fun start iv n t H =>
    let '(conj a (conj b c)) := next_due_later start iv n t H in
    conj a (conj b (conj c (fun k => next_due_first start iv n t k H)))).
Qed.
Print Assumptions C15_next_due_is_first_later_boundary.

(* T15.ticks (main): EVERY history of the model of the checked-out source is accepted by the
   checker: any number of timers with intervals >= 0 created at any times, any callback scripts of
   any length (durations, return values, .timerc of itself / another timer / a non-timer,
   redefinition, raise, creation of further timers from inside callbacks; results of any kind, judged as
   Klong truth values: numbers, strings, lists, other), any external .timerc / redefinitions, any dispatch latencies (early,
   on time, late by any amount), either order of equal deadlines, any number of loop iterations.
   The flags are those regenerated from the source; the term only type-checks while all four
   compute to true. *)
Definition flags_of_source_fixed : flags_fixed src_flags :=
  (conj (eq_refl : f_guard src_flags = true) (conj (eq_refl : f_clear src_flags = true)
        (conj (eq_refl : f_clear_base src_flags = true) (conj (eq_refl : f_mono src_flags = true)
          (conj (eq_refl : f_truth src_flags = true) (eq_refl : f_resolve src_flags = true)))))).

Theorem C15_ticks : forall cfg t0 xs ts pool lats fuel, 0 < c_res cfg ->
  accepted false (c_res cfg) t0 (snd (simulate src_flags cfg t0 xs ts pool lats fuel)).
Proof.
  exact (fun cfg t0 xs ts pool lats fuel =>
    simulate_accepted src_flags cfg t0 xs ts pool lats fuel
      flags_of_source_fixed).
Qed.
Print Assumptions C15_ticks.

(* What acceptance means (for histories of the model and of the real code alike). *)

(* never again once the callback returned false / raised or .timerc reported success: no later tick,
   and no second successful .timerc *)
Theorem C15_never_again : forall strict res t0 a e b i,
  accepted strict res t0 (a ++ e :: b) -> stops i e ->
  (forall t d v, ~ In (EvTick i t d v) b) /\ (forall t, ~ In (EvCancel i t true) b).
Proof. exact no_tick_after_stop. Qed.
Print Assumptions C15_never_again.

(* never overlapping: between the start of a callback and the start of any other one lies its end *)
Theorem C15_no_overlap : forall strict res t0 a i t d v mid j t' d' v' b,
  accepted strict res t0 (a ++ EvTick i t d v :: mid ++ EvTick j t' d' v' :: b) ->
  exists te o, In (EvEnd i te o) mid.
Proof. exact no_overlap. Qed.
Print Assumptions C15_no_overlap.

(* once per elapsed interval while the callback returns true: consecutive ticks of a timer are
   separated by a true return, and the later one serves exactly next_due of the earlier *)
Theorem C15_consecutive_ticks : forall strict res t0 a i t1 d1 v1 mid t2 d2 v2 b,
  accepted strict res t0 (a ++ EvTick i t1 d1 v1 :: mid ++ EvTick i t2 d2 v2 :: b) ->
  (forall t d v, ~ In (EvTick i t d v) mid) ->
  exists s iv te, In (EvCreate i s iv) a /\ In (EvEnd i te RetTrue) mid /\ t1 <= te /\ d2 = next_due s iv d1 te.
Proof. exact consecutive_ticks. Qed.
Print Assumptions C15_consecutive_ticks.

(* T15.timerc: .timerc returns 1 exactly for a timer that was created and not stopped before *)
Theorem C15_timerc_exact : forall strict res t0 a j t r b,
  accepted strict res t0 (a ++ EvCancel j t r :: b) -> (r = true <-> live_history j a).
Proof. exact timerc_exact. Qed.
Print Assumptions C15_timerc_exact.

(* ... in particular for every history of the model of the checked-out source, callbacks that die through an
   Exception, asyncio.CancelledError, SystemExit (.x) or KeyboardInterrupt included: the term needs the flag
   dead_timer_cleared_on_base_exception (class named by the except clause of run) to compute to true *)
Theorem C15_timerc_exact_on_source : forall cfg t0 xs ts pool lats fuel a j t r b, 0 < c_res cfg ->
  snd (simulate src_flags cfg t0 xs ts pool lats fuel) = a ++ EvCancel j t r :: b ->
  (r = true <-> live_history j a).
Proof.
  exact (fun cfg t0 xs ts pool lats fuel a j t r b Hres E =>
    timerc_exact false (c_res cfg) t0 a j t r b
      (eq_ind _ (accepted false (c_res cfg) t0)
         (simulate_accepted src_flags cfg t0 xs ts pool lats fuel
            (conj (eq_refl : f_guard src_flags = true) (conj (eq_refl : f_clear src_flags = true)
              (conj (eq_refl : dead_timer_cleared_on_base_exception = true) (conj (eq_refl : f_mono src_flags = true)
                (conj (eq_refl : f_truth src_flags = true) (eq_refl : f_resolve src_flags = true)))))) Hres) _ E)).
Qed.
Print Assumptions C15_timerc_exact_on_source.

(* "never before an interval boundary", literally: holds for every history whose ticks were
   dispatched at or after their deadline ... *)
Theorem C15_strict_holds_outside_early_dispatch : forall cfg t0 xs ts pool lats fuel, 0 < c_res cfg ->
  Forall tick_on_time (snd (simulate src_flags cfg t0 xs ts pool lats fuel)) ->
  accepted true (c_res cfg) t0 (snd (simulate src_flags cfg t0 xs ts pool lats fuel)).
Proof.
  exact (fun cfg t0 xs ts pool lats fuel Hres Hon =>
    strict_accepts_on_time (c_res cfg) _ (mstate0 t0) Hon
      (simulate_accepted src_flags cfg t0 xs ts pool lats fuel
        flags_of_source_fixed Hres)).
Qed.
Print Assumptions C15_strict_holds_outside_early_dispatch.

(* ... which is guaranteed by a hypothesis on the LATENCIES when there is one timer and no external handle:
   every wake-up at or after the earliest deadline ==> every tick at or after the deadline of its handle
   (any interval, any script incl. self-cancel / raise / redefinition but no callback leaving through SystemExit / KeyboardInterrupt,
   which end the loop's batch; any fuel) *)
Theorem C15_single_timer_on_time : forall cfg t0 gap iv scr lats fuel, 0 < c_res cfg ->
  Forall (fun l => 0 <= l) lats -> Forall nofatal scr ->
  Forall tick_on_time (snd (simulate src_flags cfg t0 [] [mk_tspec gap iv scr] [] lats fuel)) /\
  accepted true (c_res cfg) t0 (snd (simulate src_flags cfg t0 [] [mk_tspec gap iv scr] [] lats fuel)).
Proof.
  exact (fun cfg t0 gap iv scr lats fuel Hres Hl Hnf =>
    let F := flags_of_source_fixed in
    let Hon := single_timer_on_time src_flags cfg t0 gap iv scr lats fuel F Hres Hl Hnf in
    conj Hon (strict_accepts_on_time (c_res cfg) _ (mstate0 t0) Hon
                (simulate_accepted src_flags cfg t0 [] [mk_tspec gap iv scr] [] lats fuel F Hres))).
Qed.
Print Assumptions C15_single_timer_on_time.

(* ---- witnesses ---------------------------------------------------------------------- *)
Definition cfgw := mk_config 1024 false.
Definition sec := 1048576.
Definition yes := RNum 1.
Definition rejected (fl : flags) strict xs ts lats : Prop :=
  mon_run strict 1024 (mstate0 0) (snd (simulate fl cfgw 0 xs ts [] lats 8)) = None.

(* ... and fails under an event loop that dispatches within its clock resolution before the
   deadline (asyncio's rule): known finding C15-early-within-resolution *)
Theorem C15_strict_early_refuted :
  rejected (mk_flags true true true true true true) true [] [mk_tspec 0 sec [mk_step 0 yes ANone; default_step]] [-512].
Proof. vm_compute. reflexivity. Qed.

(* The single-timer hypothesis cannot be dropped: two timers whose boundaries lie within one clock resolution
   (created 2^-11 s apart, resolution 2^-10 s), every latency 0: the loop wakes exactly on the first deadline and,
   by asyncio's rule, runs the second handle too, 2^-11 s before its boundary. *)
Theorem C15_on_time_refuted_for_two_timers :
  let lats := [0; 0; 0] in
  let tr := snd (simulate (mk_flags true true true true true true) cfgw 0 []
                   [mk_tspec 0 sec [mk_step 0 (RNum 0) ANone]; mk_tspec 512 sec [mk_step 0 (RNum 0) ANone]] [] lats 8) in
  Forall (fun l => 0 <= l) lats /\ In (EvTick 1 1048576 1049088 0) tr /\ 1048576 < 1049088.
Proof.
  split; [repeat constructor; apply Z.le_refl|]. split; [vm_compute; auto 10 | reflexivity].
Qed.

(* R9, first class (repaired by the guard): cancel-self inside the callback, then return true *)
Theorem C15_self_cancel_refuted_without_guard :
  rejected (mk_flags false true true true true true) false [] [mk_tspec 0 sec [mk_step 0 yes (ACancel 0); default_step]] [].
Proof. vm_compute. reflexivity. Qed.

(* R9, second class (repaired by clearing the delegate): .timerc after a raising callback returned 1 *)
Theorem C15_raise_refuted_without_clear :
  rejected (mk_flags true false true true true true) false [(3 * sec, XCancel 0)] [mk_tspec 0 sec [mk_step 0 yes (ARaise RExc)]] [].
Proof. vm_compute. reflexivity. Qed.

(* `except Exception` instead of `except BaseException`: a callback that leaves through SystemExit (.x(0)),
   KeyboardInterrupt or asyncio.CancelledError kills the timer but .timerc still returns 1 for it *)
Theorem C15_base_exception_refuted_without_base_clear :
  rejected (mk_flags true true false true true true) false [(3 * sec, XCancel 0)] [mk_tspec 0 sec [mk_step 0 yes (ARaise RFatal)]] [] /\
  rejected (mk_flags true true false true true true) false [(3 * sec, XCancel 0)] [mk_tspec 0 sec [mk_step 0 yes (ARaise RCancelled)]] [].
Proof. split; vm_compute; reflexivity. Qed.

(* R9, third class (repaired by the monotone re-arm): early dispatch armed the same boundary twice *)
Theorem C15_early_rearm_refuted_without_mono :
  rejected (mk_flags true true true false true true) false [] [mk_tspec 0 sec [mk_step 0 yes ANone; default_step]] [-512].
Proof. vm_compute. reflexivity. Qed.

(* Python truth instead of Klong truth (repaired by _is_true): a two-element list is true in Klong, `if r`
   raises after the try block: the timer is dead, no tick follows (the loop goes idle with an alive timer) ... *)
Theorem C15_list_result_refuted_without_klong_truth :
  rejected (mk_flags true true true true false true) false [] [mk_tspec 0 sec [mk_step 0 (RList 2 true) ANone; default_step]] [].
Proof. vm_compute. reflexivity. Qed.

(* ... [] is false in Klong, `if r` raises all the same and leaves the spent handle: .timerc returns 1 for the stopped timer ... *)
Theorem C15_empty_result_refuted_without_klong_truth :
  rejected (mk_flags true true true true false true) false [(3 * sec, XCancel 0)] [mk_tspec 0 sec [mk_step 0 (RList 0 false) ANone]] [].
Proof. vm_compute. reflexivity. Qed.

(* ... and [0] is true in Klong but stops the timer *)
Theorem C15_zero_list_result_refuted_without_klong_truth :
  rejected (mk_flags true true true true false true) false [] [mk_tspec 0 sec [mk_step 0 (RList 1 false) ANone; default_step]] [].
Proof. vm_compute. reflexivity. Qed.

(* T15.resolve: without the lookup at every call a redefinition would not take effect *)
Theorem C15_resolve_refuted_without_lookup :
  rejected (mk_flags true true true true true false) false [] [mk_tspec 0 sec [mk_step 0 yes (ARedef 0); default_step]] [].
Proof. vm_compute. reflexivity. Qed.

(* Non-vacuity: a concrete system (two timers, a slow callback that misses two boundaries, a
   cancel of the other timer, a callback that creates a third timer, a list result, an external
   .timerc, early and late dispatch) whose history is accepted and ends idle. *)
Example C15_ticks_example :
  let tr := snd (simulate src_flags cfgw 7 [(6 * sec, XCancel 0)]
                  [mk_tspec 0 sec [mk_step (2 * sec + 5) yes ANone; mk_step 0 (RList 2 false) (ACancel 1); mk_step 0 yes ASpawn];
                   mk_tspec 3 (2 * sec) [mk_step 0 yes (ARedef 1); mk_step 0 yes ANone]]
                  [(sec, [mk_step 0 (RStr 1) ANone; mk_step 0 (RStr 0) ANone])]
                  [-512; 100; 0; 3 * sec] 40) in
  length tr = 21%nat /\ last tr EvIdle = EvIdle /\ mon_run false 1024 (mstate0 7) tr <> None.
Proof. vm_compute. repeat split; discriminate. Qed.
