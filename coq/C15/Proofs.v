(* C15/Proofs.v — every history of the timer model is accepted by the checker of Spec.v,
   and what acceptance by the checker means. *)
From Coq Require Import ZArith List Bool Arith Lia Permutation.
From C15 Require Import Model Spec.
Import ListNotations.
Open Scope Z_scope.

(* ---- arithmetic of the re-arm ------------------------------------------------ *)
Lemma rearm_arith start iv now : 0 < iv ->
  now + (iv - (now - start) mod iv) = start + ((now - start) / iv + 1) * iv.
Proof.
  intros H. pose proof (Z.div_mod (now - start) iv ltac:(lia)) as D.
  rewrite Z.mul_add_distr_r, Z.mul_1_l. lia.
Qed.

Lemma rearm_after_now start iv now : 0 < iv ->
  now < start + ((now - start) / iv + 1) * iv <= now + iv.
Proof.
  intros H. rewrite <- rearm_arith by lia.
  pose proof (Z.mod_pos_bound (now - start) iv H). lia.
Qed.

Lemma next_due_boundary start iv n t : 0 < iv ->
  next_due start iv (start + n * iv) t = start + Z.max (n + 1) ((t - start) / iv + 1) * iv.
Proof.
  intros H. unfold next_due. destruct (iv =? 0) eqn:E; [apply Z.eqb_eq in E; lia|].
  replace (start + n * iv - start) with (n * iv) by lia. rewrite Z.div_mul by lia. reflexivity.
Qed.

(* the next deadline is a boundary, later than the one served and later than the completion time ... *)
Lemma next_due_later start iv n t : 0 < iv ->
  let m := Z.max (n + 1) ((t - start) / iv + 1) in
  next_due start iv (start + n * iv) t = start + m * iv /\ n < m /\ t < start + m * iv.
Proof.
  intros H m. rewrite next_due_boundary by lia. fold m. split; [reflexivity|]. split; [lia|].
  pose proof (rearm_after_now start iv t H) as [A _].
  assert ((t - start) / iv + 1 <= m) by lia. nia.
Qed.

(* ... and it is the first such boundary: nothing in between is served (missed boundaries are skipped, none is added) *)
Lemma next_due_first start iv n t k : 0 < iv ->
  n < k -> t < start + k * iv -> Z.max (n + 1) ((t - start) / iv + 1) <= k.
Proof.
  intros H Hn Ht.
  assert ((t - start) / iv < k).
  { apply Z.div_lt_upper_bound; lia. }
  lia.
Qed.

(* ---- small helpers ------------------------------------------------------------- *)
Lemma upd_same {A} (f : nat -> A) i v : upd f i v i = v.
Proof. unfold upd. rewrite Nat.eqb_refl. reflexivity. Qed.

Lemma upd_other {A} (f : nat -> A) i j v : j <> i -> upd f i v j = f j.
Proof. intros H. unfold upd. destruct (Nat.eqb j i) eqn:E; [apply Nat.eqb_eq in E; contradiction | reflexivity]. Qed.

Lemma nodup_map_inj {A B} (f : A -> B) (l : list A) a b :
  NoDup (map f l) -> In a l -> In b l -> f a = f b -> a = b.
Proof.
  induction l as [|x l IH]; intros N Ia Ib E; [destruct Ia|].
  simpl in N. inversion N as [|? ? Hx Hn]; subst.
  destruct Ia as [->|Ia], Ib as [->|Ib]; auto.
  - exfalso. apply Hx. rewrite E. apply in_map. exact Ib.
  - exfalso. apply Hx. rewrite <- E. apply in_map. exact Ia.
Qed.

Lemma mon_run_app strict res m a b :
  mon_run strict res m (a ++ b) =
  match mon_run strict res m a with Some m' => mon_run strict res m' b | None => None end.
Proof.
  revert m. induction a as [|e a IH]; intros m; simpl; [reflexivity|].
  destruct (mon_step strict res m e); [apply IH | reflexivity].
Qed.

(* ---- the invariant coupling a world with the checker state ------------------------
   run = Some (i, rid): the callback of timer i is executing, entered from the loop
   handle rid (already taken off the ready queue). *)
Definition handles (w : world) : list handle := w_sched w ++ w_ready w.

Record GInv (res : Z) (run : option (nat * nat)) (w : world) (m : mstate) : Prop := mk_GInv {
  g_cur : m_cur m = option_map fst run;
  g_clock : m_clock m <= w_now w;
  g_count : m_count m = w_nt w;
  g_ids : forall h, In h (handles w) -> (hid h < w_next w)%nat;
  g_nodup : NoDup (map hid (handles w));
  g_ver : forall k, m_ver m k = w_bind w k;
  g_ready : forall h, In h (w_ready w) -> hwhen h - res < w_now w;
  g_tgt : forall h i, In h (handles w) -> htgt h = TRun i -> (i < w_nt w)%nat;
  g_owner : forall h i, In h (handles w) -> htgt h = TRun i -> w_canc w (hid h) = false ->
            t_delegate (w_tm w i) = Some (hid h);
  g_rid : forall i rid, run = Some (i, rid) ->
          (rid < w_next w)%nat /\ (i < w_nt w)%nat /\
          (forall h, In h (handles w) -> hid h <> rid) /\
          (forall h, In h (handles w) -> htgt h = TRun i -> w_canc w (hid h) = true);
  g_alive : forall i s iv d, m_st m i = TAlive s iv d ->
            t_start (w_tm w i) = s /\ t_interval (w_tm w i) = iv /\ 0 <= iv /\
            (0 < iv -> d = s + t_n (w_tm w i) * iv) /\
            ((exists h, In h (handles w) /\ htgt h = TRun i /\ w_canc w (hid h) = false /\ hwhen h = d)
             \/ (exists rid, run = Some (i, rid) /\ t_delegate (w_tm w i) = Some rid));
  g_dead : forall i, is_alive (m_st m i) = false -> t_delegate (w_tm w i) = None;
  g_none : forall i, (w_nt w <= i)%nat -> m_st m i = TNone;
  g_fresh : forall id, (w_next w <= id)%nat -> w_canc w id = false
}.

Ltac ginv H :=
  destruct H as [Hcur Hclock Hcount Hids Hnd Hver Hrdy Htgt Hown Hrid Halive Hdead Hnone Hfresh].

(* the checker state may be replaced by a pointwise equal one with an admissible clock *)
Lemma ginv_ext res run w m m' :
  GInv res run w m ->
  m_cur m' = m_cur m -> m_clock m' <= w_now w -> m_count m' = m_count m ->
  (forall i, m_st m' i = m_st m i) -> (forall k, m_ver m' k = m_ver m k) ->
  GInv res run w m'.
Proof.
  intros H E1 E2 E3 E4 E5. ginv H.
  constructor; try assumption; try congruence.
  - intros i s iv d Hs. rewrite E4 in Hs. eauto.
  - intros i Hs. rewrite E4 in Hs. eauto.
  - intros i Hi. rewrite E4. eauto.
Qed.

(* a live delegate is a known handle id *)
Lemma delegate_known res run w m j id :
  GInv res run w m -> t_delegate (w_tm w j) = Some id ->
  exists s iv d, m_st m j = TAlive s iv d /\ (id < w_next w)%nat /\
    ((exists h, In h (handles w) /\ htgt h = TRun j /\ w_canc w (hid h) = false /\ hwhen h = d /\ hid h = id)
     \/ (run = Some (j, id))).
Proof.
  intros H Hd. ginv H.
  destruct (m_st m j) as [|s iv d|] eqn:Es.
  - specialize (Hdead j). rewrite Es in Hdead. specialize (Hdead eq_refl). congruence.
  - exists s, iv, d. split; [reflexivity|].
    destruct (Halive j s iv d Es) as (_ & _ & _ & _ & [(h & Hin & Ht & Hc & Hw) | (rid & Hr & Hd')]).
    + pose proof (Hown h j Hin Ht Hc) as Ho. assert (Ei : hid h = id) by congruence.
      split; [rewrite <- Ei; apply Hids; assumption|]. left. exists h. auto.
    + assert (Ei : rid = id) by congruence. subst rid.
      destruct (Hrid j id Hr) as (Hlt & _). split; [assumption|]. right. assumption.
  - specialize (Hdead j). rewrite Es in Hdead. specialize (Hdead eq_refl). congruence.
Qed.

Lemma alive_has_delegate res run w m j s iv d :
  GInv res run w m -> m_st m j = TAlive s iv d -> exists id, t_delegate (w_tm w j) = Some id.
Proof.
  intros H Es. ginv H.
  destruct (Halive j s iv d Es) as (_ & _ & _ & _ & [(h & Hin & Ht & Hc & Hw) | (rid & Hr & Hd')]).
  - exists (hid h). eauto.
  - exists rid. assumption.
Qed.

Ltac wsimpl := unfold handles, set_delegate, set_n, set_tm, cancel_handle, set_now, set_ready, set_sched, set_scr, redefine, add_timer in *; cbn [w_now w_next w_sched w_ready w_canc w_nt w_tm w_scr w_bind w_nver m_clock m_cur m_st m_ver m_count t_interval t_start t_delegate t_n t_fn0 hid hwhen htgt] in *.

Lemma upd_true_false (f : nat -> bool) id x : upd f id true x = false -> x <> id /\ f x = false.
Proof.
  unfold upd. destruct (Nat.eqb x id) eqn:E; [discriminate|]. apply Nat.eqb_neq in E. auto.
Qed.

(* KGTimerHandler.cancel on a live handler: the loop handle is cancelled, the delegate dropped *)
Lemma ginv_kill res run w m j id :
  GInv res run w m -> t_delegate (w_tm w j) = Some id ->
  GInv res run (set_delegate (cancel_handle w id) j None)
       (mk_mstate (m_clock m) (m_cur m) (upd (m_st m) j TDead) (m_ver m) (m_count m)).
Proof.
  intros H Hd.
  destruct (delegate_known _ _ _ _ _ _ H Hd) as (s & iv & d & Es & Hlt & Hwho).
  ginv H.
  assert (Hj : (j < w_nt w)%nat).
  { destruct (Nat.lt_ge_cases j (w_nt w)) as [L|G]; [assumption|]. rewrite (Hnone j G) in Es. discriminate. }
  assert (Huniq : forall h i, In h (w_sched w ++ w_ready w) -> htgt h = TRun i -> hid h = id -> i = j).
  { intros h i Hin Ht Hi. destruct Hwho as [(h' & Hin' & Ht' & _ & _ & Hi') | Hr].
    - assert (h = h') by (eapply nodup_map_inj; eauto; congruence). subst h'. congruence.
    - destruct (Hrid j id Hr) as (_ & _ & Hno & _). exfalso. eapply Hno; eauto. }
  constructor; wsimpl; try assumption.
  - intros h i Hin Ht Hc. apply upd_true_false in Hc. destruct Hc as [Hne Hc].
    destruct (Nat.eq_dec i j) as [->|Hij].
    + pose proof (Hown h j Hin Ht Hc) as Ho. congruence.
    + rewrite upd_other by assumption. eauto.
  - intros i rid Hr. destruct (Hrid i rid Hr) as (A & B & C & D). repeat split; try assumption.
    intros h Hin Ht. unfold upd. destruct (Nat.eqb (hid h) id); [reflexivity|]. eauto.
  - intros i s0 iv0 d0 Hs. destruct (Nat.eq_dec i j) as [->|Hij]; [rewrite upd_same in Hs; discriminate|].
    rewrite upd_other in Hs by assumption. rewrite upd_other by assumption.
    destruct (Halive i s0 iv0 d0 Hs) as (A & B & C & D & [(h & Hin & Ht & Hc & Hw) | E]).
    + repeat split; try assumption. left. exists h. repeat split; try assumption.
      unfold upd. destruct (Nat.eqb (hid h) id) eqn:Eq; [|assumption].
      apply Nat.eqb_eq in Eq. exfalso. apply Hij. eapply Huniq; eauto.
    + repeat split; try assumption. right. assumption.
  - intros i Hs. destruct (Nat.eq_dec i j) as [->|Hij]; [rewrite upd_same; reflexivity|].
    rewrite upd_other in Hs by assumption. rewrite upd_other by assumption. eauto.
  - intros i Hi. rewrite upd_other by lia. eauto.
  - intros id' Hi. unfold upd. destruct (Nat.eqb id' id) eqn:Eq; [apply Nat.eqb_eq in Eq; lia|]. eauto.
Qed.
