(* C15/Proofs.v — every history of the timer model is accepted by the checker of Spec.v,
   and what acceptance by the checker means. *)
From Coq Require Import ZArith List Bool Arith Lia Permutation.
From C15 Require Import Model Spec.
Import ListNotations.
Open Scope Z_scope.

(* ---- arithmetic of the re-arm ------------------------------------------------ *)
Lemma rearm_arith start iv now : 0 < iv ->
  now + (iv - (now - start) mod iv) = start + ((now - start) / iv + 1) * iv.
Proof.
  intros H. pose proof (Z.div_mod (now - start) iv ltac:(lia)) as D.
  rewrite Z.mul_add_distr_r, Z.mul_1_l. lia.
Qed.

Lemma rearm_after_now start iv now : 0 < iv ->
  now < start + ((now - start) / iv + 1) * iv <= now + iv.
Proof.
  intros H. rewrite <- rearm_arith by lia.
  pose proof (Z.mod_pos_bound (now - start) iv H). lia.
Qed.

Lemma next_due_boundary start iv n t : 0 < iv ->
  next_due start iv (start + n * iv) t = start + Z.max (n + 1) ((t - start) / iv + 1) * iv.
Proof.
  intros H. unfold next_due. destruct (iv =? 0) eqn:E; [apply Z.eqb_eq in E; lia|].
  replace (start + n * iv - start) with (n * iv) by lia. rewrite Z.div_mul by lia. reflexivity.
Qed.

(* the next deadline is a boundary, later than the one served and later than the completion time ... *)
Lemma next_due_later start iv n t : 0 < iv ->
  let m := Z.max (n + 1) ((t - start) / iv + 1) in
  next_due start iv (start + n * iv) t = start + m * iv /\ n < m /\ t < start + m * iv.
Proof.
  intros H m. rewrite next_due_boundary by lia. fold m. split; [reflexivity|]. split; [lia|].
  pose proof (rearm_after_now start iv t H) as [A _].
  assert ((t - start) / iv + 1 <= m) by lia. nia.
Qed.

(* ... and it is the first such boundary: nothing in between is served (missed boundaries are skipped, none is added) *)
Lemma next_due_first start iv n t k : 0 < iv ->
  n < k -> t < start + k * iv -> Z.max (n + 1) ((t - start) / iv + 1) <= k.
Proof.
  intros H Hn Ht.
  assert ((t - start) / iv < k).
  { apply Z.div_lt_upper_bound; lia. }
  lia.
Qed.

(* ---- small helpers ------------------------------------------------------------- *)
Lemma upd_same {A} (f : nat -> A) i v : upd f i v i = v.
Proof. unfold upd. rewrite Nat.eqb_refl. reflexivity. Qed.

Lemma upd_other {A} (f : nat -> A) i j v : j <> i -> upd f i v j = f j.
Proof. intros H. unfold upd. destruct (Nat.eqb j i) eqn:E; [apply Nat.eqb_eq in E; contradiction | reflexivity]. Qed.

Lemma nodup_map_inj {A B} (f : A -> B) (l : list A) a b :
  NoDup (map f l) -> In a l -> In b l -> f a = f b -> a = b.
Proof.
  induction l as [|x l IH]; intros N Ia Ib E; [destruct Ia|].
  simpl in N. inversion N as [|? ? Hx Hn]; subst.
  destruct Ia as [->|Ia], Ib as [->|Ib]; auto.
  - exfalso. apply Hx. rewrite E. apply in_map. exact Ib.
  - exfalso. apply Hx. rewrite <- E. apply in_map. exact Ia.
Qed.

Lemma mon_run_app strict res m a b :
  mon_run strict res m (a ++ b) =
  match mon_run strict res m a with Some m' => mon_run strict res m' b | None => None end.
Proof.
  revert m. induction a as [|e a IH]; intros m; simpl; [reflexivity|].
  destruct (mon_step strict res m e); [apply IH | reflexivity].
Qed.

(* ---- the invariant coupling a world with the checker state ------------------------
   run = Some (i, rid): the callback of timer i is executing, entered from the loop
   handle rid (already taken off the ready queue). *)
Definition handles (w : world) : list handle := w_sched w ++ w_ready w.

Record GInv (res : Z) (run : option (nat * nat)) (w : world) (m : mstate) : Prop := mk_GInv {
  g_cur : m_cur m = option_map fst run;
  g_clock : m_clock m <= w_now w;
  g_count : m_count m = w_nt w;
  g_ids : forall h, In h (handles w) -> (hid h < w_next w)%nat;
  g_nodup : NoDup (map hid (handles w));
  g_ver : forall k, m_ver m k = eff w k;
  g_ready : forall h, In h (w_ready w) -> hwhen h - res < w_now w;
  g_tgt : forall h i, In h (handles w) -> htgt h = TRun i -> (i < w_nt w)%nat;
  g_owner : forall h i, In h (handles w) -> htgt h = TRun i -> w_canc w (hid h) = false ->
            t_delegate (w_tm w i) = Some (hid h);
  g_rid : forall i rid, run = Some (i, rid) ->
          (rid < w_next w)%nat /\ (i < w_nt w)%nat /\
          (forall h, In h (handles w) -> hid h <> rid) /\
          (forall h, In h (handles w) -> htgt h = TRun i -> w_canc w (hid h) = true);
  g_alive : forall i s iv d, m_st m i = TAlive s iv d ->
            t_start (w_tm w i) = s /\ t_interval (w_tm w i) = iv /\ 0 <= iv /\
            (0 < iv -> d = s + t_n (w_tm w i) * iv) /\
            ((exists h, In h (handles w) /\ htgt h = TRun i /\ w_canc w (hid h) = false /\ hwhen h = d)
             \/ (exists rid, run = Some (i, rid) /\ t_delegate (w_tm w i) = Some rid));
  g_dead : forall i, is_alive (m_st m i) = false -> t_delegate (w_tm w i) = None;
  g_none : forall i, (w_nt w <= i)%nat -> m_st m i = TNone;
  g_fresh : forall id, (w_next w <= id)%nat -> w_canc w id = false
}.

Ltac ginv H :=
  destruct H as [Hcur Hclock Hcount Hids Hnd Hver Hrdy Htgt Hown Hrid Halive Hdead Hnone Hfresh].

(* the checker state may be replaced by a pointwise equal one with an admissible clock *)
Lemma ginv_ext res run w m m' :
  GInv res run w m ->
  m_cur m' = m_cur m -> m_clock m' <= w_now w -> m_count m' = m_count m ->
  (forall i, m_st m' i = m_st m i) -> (forall k, m_ver m' k = m_ver m k) ->
  GInv res run w m'.
Proof.
  intros H E1 E2 E3 E4 E5. ginv H.
  constructor; try assumption; try congruence.
  - intros i s iv d Hs. rewrite E4 in Hs. eauto.
  - intros i Hs. rewrite E4 in Hs. eauto.
  - intros i Hi. rewrite E4. eauto.
Qed.

(* a live delegate is a known handle id *)
Lemma delegate_known res run w m j id :
  GInv res run w m -> t_delegate (w_tm w j) = Some id ->
  exists s iv d, m_st m j = TAlive s iv d /\ (id < w_next w)%nat /\
    ((exists h, In h (handles w) /\ htgt h = TRun j /\ w_canc w (hid h) = false /\ hwhen h = d /\ hid h = id)
     \/ (run = Some (j, id))).
Proof.
  intros H Hd. ginv H.
  destruct (m_st m j) as [|s iv d|] eqn:Es.
  - specialize (Hdead j). rewrite Es in Hdead. specialize (Hdead eq_refl). congruence.
  - exists s, iv, d. split; [reflexivity|].
    destruct (Halive j s iv d Es) as (_ & _ & _ & _ & [(h & Hin & Ht & Hc & Hw) | (rid & Hr & Hd')]).
    + pose proof (Hown h j Hin Ht Hc) as Ho. assert (Ei : hid h = id) by congruence.
      split; [rewrite <- Ei; apply Hids; assumption|]. left. exists h. auto.
    + assert (Ei : rid = id) by congruence. subst rid.
      destruct (Hrid j id Hr) as (Hlt & _). split; [assumption|]. right. assumption.
  - specialize (Hdead j). rewrite Es in Hdead. specialize (Hdead eq_refl). congruence.
Qed.

Lemma alive_has_delegate res run w m j s iv d :
  GInv res run w m -> m_st m j = TAlive s iv d -> exists id, t_delegate (w_tm w j) = Some id.
Proof.
  intros H Es. ginv H.
  destruct (Halive j s iv d Es) as (_ & _ & _ & _ & [(h & Hin & Ht & Hc & Hw) | (rid & Hr & Hd')]).
  - exists (hid h). eauto.
  - exists rid. assumption.
Qed.

Ltac wsimpl := unfold handles, set_delegate, set_tm, cancel_handle, set_now, set_ready, set_sched, set_scr, set_pool, redefine, undefine, add_timer in *; cbn [w_now w_next w_sched w_ready w_canc w_nt w_tm w_scr w_bind w_nver w_pool m_clock m_cur m_st m_ver m_count t_interval t_start t_delegate t_n t_fn0 hid hwhen htgt] in *.

(* the version a wrapper call runs is not affected by changes that keep bindings, timer count and captured functions *)
Ltac ver_tac Hver :=
  let k := fresh "k" in
  intros k; rewrite Hver; unfold eff, fallback; cbn [w_bind w_nt w_tm];
  destruct (w_bind _ k); [reflexivity|]; destruct (k <? _)%nat; [|reflexivity];
  unfold upd; match goal with
  | |- context [Nat.eqb k ?j] => let E := fresh "E" in destruct (Nat.eqb k j) eqn:E; [apply Nat.eqb_eq in E; subst; reflexivity | reflexivity]
  | _ => reflexivity
  end.

Lemma upd_true_false (f : nat -> bool) id x : upd f id true x = false -> x <> id /\ f x = false.
Proof.
  unfold upd. destruct (Nat.eqb x id) eqn:E; [discriminate|]. apply Nat.eqb_neq in E. auto.
Qed.

(* KGTimerHandler.cancel on a live handler: the loop handle is cancelled, the delegate dropped *)
Lemma ginv_kill res run w m j id :
  GInv res run w m -> t_delegate (w_tm w j) = Some id ->
  GInv res run (set_delegate (cancel_handle w id) j None)
       (mk_mstate (m_clock m) (m_cur m) (upd (m_st m) j TDead) (m_ver m) (m_count m)).
Proof.
  intros H Hd.
  destruct (delegate_known _ _ _ _ _ _ H Hd) as (s & iv & d & Es & Hlt & Hwho).
  ginv H.
  assert (Hj : (j < w_nt w)%nat).
  { destruct (Nat.lt_ge_cases j (w_nt w)) as [L|G]; [assumption|]. rewrite (Hnone j G) in Es. discriminate. }
  assert (Huniq : forall h i, In h (w_sched w ++ w_ready w) -> htgt h = TRun i -> hid h = id -> i = j).
  { intros h i Hin Ht Hi. destruct Hwho as [(h' & Hin' & Ht' & _ & _ & Hi') | Hr].
    - assert (h = h') by (eapply nodup_map_inj; eauto; congruence). subst h'. congruence.
    - destruct (Hrid j id Hr) as (_ & _ & Hno & _). exfalso. eapply Hno; eauto. }
  constructor; wsimpl; try assumption.
  - ver_tac Hver.
  - intros h i Hin Ht Hc. apply upd_true_false in Hc. destruct Hc as [Hne Hc].
    destruct (Nat.eq_dec i j) as [->|Hij].
    + pose proof (Hown h j Hin Ht Hc) as Ho. congruence.
    + rewrite upd_other by assumption. eauto.
  - intros i rid Hr. destruct (Hrid i rid Hr) as (A & B & C & D). repeat split; try assumption.
    intros h Hin Ht. unfold upd. destruct (Nat.eqb (hid h) id); [reflexivity|]. eauto.
  - intros i s0 iv0 d0 Hs. destruct (Nat.eq_dec i j) as [->|Hij]; [rewrite upd_same in Hs; discriminate|].
    rewrite upd_other in Hs by assumption. rewrite upd_other by assumption.
    destruct (Halive i s0 iv0 d0 Hs) as (A & B & C & D & [(h & Hin & Ht & Hc & Hw) | E]).
    + repeat split; try assumption. left. exists h. repeat split; try assumption.
      unfold upd. destruct (Nat.eqb (hid h) id) eqn:Eq; [|assumption].
      apply Nat.eqb_eq in Eq. exfalso. apply Hij. eapply Huniq; eauto.
    + repeat split; try assumption. right. assumption.
  - intros i Hs. destruct (Nat.eq_dec i j) as [->|Hij]; [rewrite upd_same; reflexivity|].
    rewrite upd_other in Hs by assumption. rewrite upd_other by assumption. eauto.
  - intros i Hi. rewrite upd_other by lia. eauto.
  - intros id' Hi. unfold upd. destruct (Nat.eqb id' id) eqn:Eq; [apply Nat.eqb_eq in Eq; lia|]. eauto.
Qed.

Lemma dead_no_delegate res run w m j :
  GInv res run w m -> t_delegate (w_tm w j) = None -> is_alive (m_st m j) = false.
Proof.
  intros H Hd. destruct (m_st m j) as [|s iv d|] eqn:Es; try reflexivity.
  destruct (alive_has_delegate _ _ _ _ _ _ _ _ H Es) as (id & Hid). congruence.
Qed.

(* eval_sys_fn_cancel_timer: its result is what the checker demands, and the invariant survives *)
Lemma timerc_inv res run w m j w' r :
  GInv res run w m -> sys_timerc j w = (w', r) ->
  exists m', mon_step false res m (EvCancel j (w_now w) r) = Some m' /\ GInv res run w' m' /\ w_now w' = w_now w.
Proof.
  intros H E. pose proof (g_clock _ _ _ _ H) as Hclk. apply Z.leb_le in Hclk.
  unfold sys_timerc in E. destruct (j <? w_nt w)%nat eqn:Ej.
  - unfold handler_cancel in E. destruct (t_delegate (w_tm w j)) as [id|] eqn:Ed.
    + inversion E; subst w' r; clear E.
      destruct (delegate_known _ _ _ _ _ _ H Ed) as (s & iv & d & Es & _).
      cbn [mon_step]. rewrite Hclk, Es. cbn [is_alive Bool.eqb andb].
      eexists. split; [reflexivity|]. split; [|reflexivity].
      eapply ginv_ext; [apply (ginv_kill _ _ _ _ _ _ H Ed) | reflexivity | wsimpl; lia | reflexivity | reflexivity | reflexivity].
    + inversion E; subst w' r; clear E.
      pose proof (dead_no_delegate _ _ _ _ _ H Ed) as Ha.
      cbn [mon_step]. rewrite Hclk, Ha. cbn [Bool.eqb andb].
      eexists. split; [reflexivity|]. split; [|reflexivity].
      eapply ginv_ext; [apply H | reflexivity | wsimpl; lia | reflexivity | reflexivity | reflexivity].
  - inversion E; subst w' r; clear E.
    apply Nat.ltb_ge in Ej. pose proof (g_none _ _ _ _ H j Ej) as Hn.
    cbn [mon_step]. rewrite Hclk, Hn. cbn [is_alive Bool.eqb andb].
    eexists. split; [reflexivity|]. split; [|reflexivity].
    eapply ginv_ext; [apply H | reflexivity | wsimpl; lia | reflexivity | reflexivity | reflexivity].
Qed.

(* the clock only moves forward *)
Lemma ginv_advance res run w m t :
  GInv res run w m -> w_now w <= t -> GInv res run (set_now w t) m.
Proof.
  intros H Ht. ginv H. constructor; wsimpl; try assumption; try lia.
  intros h Hin. specialize (Hrdy h Hin). lia.
Qed.

Lemma ginv_redefine res run w m k :
  GInv res run w m ->
  GInv res run (redefine w k) (mk_mstate (m_clock m) (m_cur m) (m_st m) (upd (m_ver m) k (w_nver w)) (m_count m)).
Proof.
  intros H. ginv H. constructor; wsimpl; try assumption.
  intros k'. specialize (Hver k'). unfold eff, fallback in *. cbn [w_bind w_nt w_tm] in *.
  unfold upd. destruct (Nat.eqb k' k); auto.
Qed.

Lemma ginv_undefine res run w m k :
  GInv res run w m ->
  GInv res run (undefine w k) (mk_mstate (m_clock m) (m_cur m) (m_st m) (upd (m_ver m) k (fallback w k)) (m_count m)).
Proof.
  intros H. ginv H. constructor; wsimpl; try assumption.
  intros k'. specialize (Hver k'). unfold eff, fallback in *. cbn [w_bind w_nt w_tm] in *.
  unfold upd. destruct (Nat.eqb k' k) eqn:E; auto. apply Nat.eqb_eq in E. subst k'. reflexivity.
Qed.

Lemma ginv_scr res run w m s : GInv res run w m -> GInv res run (set_scr w s) m.
Proof. intros H. ginv H. constructor; wsimpl; assumption. Qed.

Lemma ginv_pool res run w m p : GInv res run w m -> GInv res run (set_pool w p) m.
Proof. intros H. ginv H. constructor; wsimpl; assumption. Qed.

Lemma insert_h_perm b h l : Permutation (insert_h b h l) (h :: l).
Proof.
  induction l as [|x l IH]; cbn [insert_h]; [apply Permutation_refl|].
  destruct (if b then hwhen h <=? hwhen x else hwhen h <? hwhen x); [apply Permutation_refl|].
  eapply perm_trans; [apply perm_skip; exact IH | apply perm_swap].
Qed.

(* the callback finished and its timer is not alive any more *)
Lemma ginv_finish res i rid w m :
  GInv res (Some (i, rid)) w m -> is_alive (m_st m i) = false ->
  GInv res None w (mk_mstate (m_clock m) None (m_st m) (m_ver m) (m_count m)).
Proof.
  intros H Hd. ginv H. constructor; wsimpl; try assumption; try reflexivity.
  - intros i0 rid0 E. discriminate.
  - intros i0 s iv d Hs.
    destruct (Halive i0 s iv d Hs) as (A & B & C & D & [E | (rid0 & E & _)]).
    + repeat split; try assumption. left. assumption.
    + exfalso. assert (i0 = i) by congruence. subst i0. rewrite Hs in Hd. discriminate.
Qed.

(* a raising callback: the delegate is dropped *)
Lemma ginv_raise res i rid w m :
  GInv res (Some (i, rid)) w m ->
  GInv res (Some (i, rid)) (set_delegate w i None)
       (mk_mstate (m_clock m) (m_cur m) (upd (m_st m) i (if is_alive (m_st m i) then TDead else m_st m i)) (m_ver m) (m_count m)).
Proof.
  intros H. ginv H.
  destruct (Hrid i rid eq_refl) as (R1 & R2 & R3 & R4).
  constructor; wsimpl; try assumption.
  - ver_tac Hver.
  - intros h i0 Hin Ht Hc. destruct (Nat.eq_dec i0 i) as [->|Hne].
    + rewrite (R4 h Hin Ht) in Hc. discriminate.
    + rewrite upd_other by assumption. eauto.
  - intros i0 s iv d Hs. destruct (Nat.eq_dec i0 i) as [->|Hne].
    + rewrite upd_same in Hs. destruct (m_st m i); discriminate.
    + rewrite upd_other in Hs by assumption. rewrite upd_other by assumption. eauto.
  - intros i0 Hs. destruct (Nat.eq_dec i0 i) as [->|Hne]; [rewrite upd_same; reflexivity|].
    rewrite upd_other in Hs by assumption. rewrite upd_other by assumption. eauto.
  - intros i0 Hi. rewrite upd_other by lia. eauto.
Qed.

(* a new loop handle hn for timer i becomes its delegate (first arming in _call_periodic, re-arm in run).
   run' = None when this ends the callback of timer i itself (or none was running); run' = run0 when it
   happens inside the callback of another timer (a callback that calls .timer) *)
Lemma ginv_arm res run0 run' w m sched' ready' i t nt' hn s iv d :
  0 < res ->
  GInv res run0 w m ->
  Permutation (sched' ++ ready') (hn :: handles w) ->
  (forall h, In h ready' -> h = hn \/ In h (w_ready w)) ->
  (In hn ready' -> hwhen hn - res < w_now w) ->
  hid hn = w_next w -> htgt hn = TRun i -> hwhen hn = d ->
  t_delegate t = Some (w_next w) -> t_start t = s -> t_interval t = iv -> 0 <= iv ->
  (0 < iv -> d = s + t_n t * iv) ->
  (i < nt')%nat -> (w_nt w <= nt')%nat ->
  (forall h, In h (handles w) -> htgt h = TRun i -> w_canc w (hid h) = true) ->
  ((run' = None /\ (run0 = None \/ exists rid, run0 = Some (i, rid))) \/
   (run' = run0 /\ forall rid, run0 <> Some (i, rid))) ->
  (forall k, eff (mk_world (w_now w) (S (w_next w)) sched' ready' (w_canc w) nt' (upd (w_tm w) i t) (w_scr w) (w_bind w) (w_nver w) (w_pool w)) k
             = eff w k) ->
  GInv res run'
    (mk_world (w_now w) (S (w_next w)) sched' ready' (w_canc w) nt' (upd (w_tm w) i t) (w_scr w) (w_bind w) (w_nver w) (w_pool w))
    (mk_mstate (m_clock m) (option_map fst run') (upd (m_st m) i (TAlive s iv d)) (m_ver m) nt').
Proof.
  intros Hres H HP Hr1 Hr2 Hid Htg Hwh Hdel Hst Hiv Hiv0 Hd Hint Hnt Hno Hrun Hfn. ginv H.
  assert (HIn : forall h, In h (sched' ++ ready') -> h = hn \/ In h (handles w)).
  { intros h Hh. pose proof (Permutation_in _ HP Hh) as [E|E]; auto. }
  assert (HIn' : forall h, In h (handles w) -> In h (sched' ++ ready')).
  { intros h Hh. apply (Permutation_in _ (Permutation_sym HP)). right. assumption. }
  assert (HInn : In hn (sched' ++ ready')).
  { apply (Permutation_in _ (Permutation_sym HP)). left. reflexivity. }
  constructor; wsimpl; try assumption; try reflexivity.
  - intros h Hh. destruct (HIn h Hh) as [->|Ho]; [lia|]. specialize (Hids h Ho). lia.
  - apply (Permutation_NoDup (Permutation_sym (Permutation_map hid HP))). cbn [map]. constructor; [|assumption].
    intros Hc. apply in_map_iff in Hc. destruct Hc as (h & E & Hh). specialize (Hids h Hh). lia.
  - intros k. rewrite Hver. symmetry. apply Hfn.
  - intros h Hh. destruct (Hr1 h Hh) as [->|Ho]; [apply Hr2; assumption|]. eauto.
  - intros h i0 Hh Ht. destruct (HIn h Hh) as [->|Ho]; [congruence|]. specialize (Htgt h i0 Ho Ht). lia.
  - intros h i0 Hh Ht Hc. destruct (HIn h Hh) as [->|Ho].
    + assert (i0 = i) by congruence. subst i0. rewrite upd_same. congruence.
    + destruct (Nat.eq_dec i0 i) as [->|Hne].
      * rewrite (Hno h Ho Ht) in Hc. discriminate.
      * rewrite upd_other by assumption. eauto.
  - intros i0 rid0 E. destruct Hrun as [[Hn _] | [Hsame Hne]]; [congruence|].
    rewrite Hsame in E. destruct (Hrid i0 rid0 E) as (R1 & R2 & R3 & R4).
    assert (Hi0 : i0 <> i) by (intros ->; eapply Hne; eauto).
    repeat split; try lia.
    + intros h Hh. destruct (HIn h Hh) as [->|Ho]; [lia | auto].
    + intros h Hh Ht. destruct (HIn h Hh) as [->|Ho]; [congruence | auto].
  - intros i0 s0 iv0 d0 Hs. destruct (Nat.eq_dec i0 i) as [->|Hne].
    + rewrite upd_same in Hs. inversion Hs; subst s0 iv0 d0. rewrite upd_same.
      repeat split; try assumption. left. exists hn. repeat split; try assumption.
      rewrite Hid. apply Hfresh. lia.
    + rewrite upd_other in Hs by assumption. rewrite upd_other by assumption.
      destruct (Halive i0 s0 iv0 d0 Hs) as (A & B & C & D & [(h & Hh & E) | (rid0 & E & Ed)]).
      * repeat split; try assumption. left. exists h. split; [apply HIn'; assumption | assumption].
      * destruct Hrun as [[_ [Hn | (rid & Hn)]] | [Hsame _]]; [congruence | exfalso; apply Hne; congruence |].
        repeat split; try assumption. right. exists rid0. rewrite Hsame. auto.
  - intros i0 Hs. destruct (Nat.eq_dec i0 i) as [->|Hne]; [rewrite upd_same in Hs; discriminate|].
    rewrite upd_other in Hs by assumption. rewrite upd_other by assumption. eauto.
  - intros i0 Hi. rewrite upd_other by lia. apply Hnone. lia.
  - intros id Hi. apply Hfresh. lia.
Qed.

Lemma in_mid {A} (x a : A) l r : In x (l ++ a :: r) -> x = a \/ In x (l ++ r).
Proof.
  intros H. apply in_app_or in H. destruct H as [H|[H|H]]; [right; apply in_or_app; auto | left; auto | right; apply in_or_app; auto].
Qed.

Lemma in_mid_inv {A} (x a : A) l r : In x (l ++ r) -> In x (l ++ a :: r).
Proof.
  intros H. apply in_app_or in H. apply in_or_app. destruct H; [left | right; right]; assumption.
Qed.

Lemma nodup_mid (l r : list handle) h :
  NoDup (map hid (l ++ h :: r)) -> NoDup (map hid (l ++ r)) /\ forall x, In x (l ++ r) -> hid x <> hid h.
Proof.
  rewrite !map_app. cbn [map]. intros N. apply NoDup_remove in N. destruct N as [N1 N2]. split; [assumption|].
  intros x Hx E. apply N2. rewrite <- map_app, <- E. apply in_map. assumption.
Qed.

(* the loop takes a live handle of timer i off the ready queue and enters run: the tick is the one the checker expects *)
Lemma tick_start res w m h r i :
  GInv res None w m -> w_ready w = h :: r -> w_canc w (hid h) = false -> htgt h = TRun i ->
  exists m', mon_step false res m (EvTick i (w_now w) (hwhen h) (eff w i)) = Some m' /\
             GInv res (Some (i, hid h)) (set_ready w r) m'.
Proof.
  intros H Er Hc Ht.
  assert (Hin : In h (handles w)). { unfold handles. rewrite Er. apply in_or_app. right. left. reflexivity. }
  pose proof (g_owner _ _ _ _ H h i Hin Ht Hc) as Hd.
  destruct (delegate_known _ _ _ _ _ _ H Hd) as (s & iv & d & Es & Hlt & Hwho).
  ginv H. cbn [option_map] in Hcur.
  assert (Hw : hwhen h = d).
  { destruct Hwho as [(h' & Hin' & _ & _ & Hw' & Hi') | Hr]; [|discriminate].
    assert (h' = h) by (eapply nodup_map_inj; eauto). subst h'. assumption. }
  assert (Hrd : hwhen h - res < w_now w). { apply Hrdy. rewrite Er. left. reflexivity. }
  cbn [mon_step]. rewrite Hcur, Es.
  replace (m_clock m <=? w_now w) with true by (symmetry; apply Z.leb_le; assumption).
  replace (hwhen h =? d) with true by (symmetry; apply Z.eqb_eq; assumption).
  replace (hwhen h - res <? w_now w) with true by (symmetry; apply Z.ltb_lt; assumption).
  rewrite Hver, Nat.eqb_refl. cbn [andb].
  eexists. split; [reflexivity|].
  unfold handles in *. rewrite Er in *.
  destruct (nodup_mid _ _ _ Hnd) as [Hnd' Hneq].
  constructor; wsimpl; try assumption; try reflexivity; try lia.
  - intros x Hx. apply Hids. apply in_mid_inv. assumption.
  - intros x Hx. apply Hrdy. right. assumption.
  - intros x i0 Hx. apply Htgt. apply in_mid_inv. assumption.
  - intros x i0 Hx. apply Hown. apply in_mid_inv. assumption.
  - intros i0 rid0 E. inversion E; subst i0 rid0. repeat split.
    + assumption.
    + eapply Htgt; eauto.
    + assumption.
    + intros x Hx Htx. destruct (w_canc w (hid x)) eqn:Ec; [reflexivity|]. exfalso.
      pose proof (Hown x i (in_mid_inv _ _ _ _ Hx) Htx Ec) as Ho. apply (Hneq x Hx). congruence.
  - intros i0 s0 iv0 d0 Hs.
    destruct (Halive i0 s0 iv0 d0 Hs) as (A & B & C & D & [(h0 & Hh0 & Ht0 & Hc0 & Hw0) | (rid0 & E & _)]); [|discriminate].
    repeat split; try assumption.
    apply in_mid in Hh0. destruct Hh0 as [->|Hh0].
    + right. assert (i0 = i) by congruence. subst i0. exists (hid h). split; [reflexivity | assumption].
    + left. exists h0. auto.
Qed.

Lemma eff_create w nx sched' ready' t :
  t_fn0 t = match w_bind w (w_nt w) with Some v => v | None => O end ->
  forall k, eff (mk_world (w_now w) nx sched' ready' (w_canc w) (S (w_nt w)) (upd (w_tm w) (w_nt w) t) (w_scr w) (w_bind w) (w_nver w) (w_pool w)) k
            = eff w k.
Proof.
  intros Ht k. unfold eff, fallback. cbn [w_bind w_nt w_tm]. destruct (w_bind w k) eqn:Eb; [reflexivity|].
  unfold upd. destruct (Nat.eqb k (w_nt w)) eqn:Ek.
  - apply Nat.eqb_eq in Ek. subst k. rewrite Eb in Ht. rewrite Ht.
    replace (w_nt w <? S (w_nt w))%nat with true by (symmetry; apply Nat.ltb_lt; lia).
    replace (w_nt w <? w_nt w)%nat with false by (symmetry; apply Nat.ltb_ge; lia). reflexivity.
  - apply Nat.eqb_neq in Ek. destruct (k <? w_nt w)%nat eqn:E1.
    + apply Nat.ltb_lt in E1. replace (k <? S (w_nt w))%nat with true by (symmetry; apply Nat.ltb_lt; lia). reflexivity.
    + apply Nat.ltb_ge in E1. replace (k <? S (w_nt w))%nat with false by (symmetry; apply Nat.ltb_ge; lia). reflexivity.
Qed.

(* _call_periodic: the first arming; also from inside the callback of another timer *)
Lemma create_timer_inv res run cfg iv w m w' evs :
  0 < res -> 0 <= iv -> GInv res run w m -> create_timer cfg iv w = (w', evs) ->
  exists m', mon_run false res m evs = Some m' /\ GInv res run w' m'.
Proof.
  intros Hres Hiv H E. unfold create_timer in E.
  pose proof H as H0. ginv H0.
  assert (Hno : forall h, In h (handles w) -> htgt h = TRun (w_nt w) -> w_canc w (hid h) = true).
  { intros h Hh Ht. specialize (Htgt h _ Hh Ht). lia. }
  assert (Hrun : (run = None /\ (run = None \/ exists rid, run = Some (w_nt w, rid))) \/
                 (run = run /\ forall rid, run <> Some (w_nt w, rid))).
  { right. split; [reflexivity|]. intros rid E'. destruct (Hrid _ _ E') as (_ & L & _). lia. }
  assert (Hs : mon_step false res m (EvCreate (w_nt w) (w_now w) iv) =
     Some (mk_mstate (w_now w) (m_cur m) (upd (m_st m) (w_nt w) (TAlive (w_now w) iv (w_now w + iv))) (m_ver m) (S (m_count m)))).
  { cbn [mon_step]. rewrite Hcount, Nat.eqb_refl.
    replace (m_clock m <=? w_now w) with true by (symmetry; apply Z.leb_le; assumption).
    replace (0 <=? iv) with true by (symmetry; apply Z.leb_le; assumption). reflexivity. }
  destruct (iv =? 0) eqn:Eiv.
  - apply Z.eqb_eq in Eiv. unfold call_soon in E. inversion E; subst w' evs; clear E.
    cbn [mon_run]. rewrite Hs. eexists. split; [reflexivity|].
    unfold add_timer. wsimpl. rewrite Hcount.
    eapply ginv_ext; [eapply (ginv_arm res run run w m (w_sched w) (w_ready w ++ [mk_handle (w_next w) (w_now w) (TRun (w_nt w))]) (w_nt w) _ (S (w_nt w)) (mk_handle (w_next w) (w_now w) (TRun (w_nt w))) (w_now w) iv (w_now w + iv)); try eassumption; try reflexivity | wsimpl; assumption | wsimpl; lia | reflexivity | reflexivity | reflexivity].
    + rewrite app_assoc. apply Permutation_sym. apply Permutation_cons_append.
    + intros h Hh. apply in_app_or in Hh. destruct Hh as [Hh|[Hh|[]]]; auto.
    + intros _. wsimpl. lia.
    + wsimpl. lia.
    + intros Hp. lia.
    + lia.
    + lia.
    + apply eff_create. reflexivity.
  - apply Z.eqb_neq in Eiv. unfold call_at in E. inversion E; subst w' evs; clear E.
    cbn [mon_run]. rewrite Hs. eexists. split; [reflexivity|].
    unfold add_timer. wsimpl. rewrite Hcount.
    set (hn := mk_handle (w_next w) (w_now w + iv) (TRun (w_nt w))).
    eapply ginv_ext; [eapply (ginv_arm res run run w m (insert_h (c_lifo cfg) hn (w_sched w)) (w_ready w) (w_nt w) _ (S (w_nt w)) hn (w_now w) iv (w_now w + iv)); try eassumption; try reflexivity | wsimpl; assumption | wsimpl; lia | reflexivity | reflexivity | reflexivity].
    + apply (Permutation_app_tail (w_ready w) (insert_h_perm (c_lifo cfg) hn (w_sched w))).
    + intros h Hh. right. assumption.
    + intros Hh. exfalso. specialize (Hids hn). unfold handles in Hids.
      specialize (Hids (in_or_app _ _ _ (or_intror Hh))). subst hn. cbn [hid] in Hids. lia.
    + intros _. wsimpl. lia.
    + lia.
    + lia.
    + apply eff_create. reflexivity.
Qed.

(* the body of a callback (clock advance, then .timerc / redefinition / raise / .timer) *)
Lemma action_inv res run cfg w m st w' evs raised :
  0 < res ->
  GInv res run w m -> do_action cfg st w = (w', evs, raised) ->
  exists m', mon_run false res m evs = Some m' /\ GInv res run w' m'.
Proof.
  intros Hres H E. unfold do_action in E.
  set (w1 := set_now w (w_now w + Z.max 0 (s_dur st))) in *.
  assert (H1 : GInv res run w1 m) by (apply ginv_advance; [assumption | lia]).
  destruct (s_act st) as [|j|k|rk| |k].
  - inversion E; subst. exists m. split; [reflexivity | assumption].
  - destruct (sys_timerc j w1) as [w2 r] eqn:Et. inversion E; subst w' evs raised; clear E.
    destruct (timerc_inv _ _ _ _ _ _ _ H1 Et) as (m' & Hs & Hg & _).
    exists m'. split; [|assumption]. unfold w1, set_now in Hs. cbn [w_now] in Hs.
    cbn [mon_run]. rewrite Hs. reflexivity.
  - inversion E; subst w' evs raised; clear E.
    eexists. split; [cbn [mon_run mon_step]; reflexivity|].
    apply (ginv_redefine _ _ _ _ k H1).
  - inversion E; subst. exists m. split; [reflexivity | assumption].
  - destruct (w_pool w1) as [|[iv scr] rest] eqn:Ep.
    + inversion E; subst. exists m. split; [reflexivity | assumption].
    + pose proof (ginv_pool _ _ _ _ rest H1) as H2.
      destruct (iv <? 0) eqn:En.
      * inversion E; subst. exists m. split; [reflexivity | assumption].
      * apply Z.ltb_ge in En.
        match type of E with context [create_timer cfg iv ?w2] => destruct (create_timer cfg iv w2) as [w3 e] eqn:Ec end.
        inversion E; subst w' evs raised; clear E.
        eapply create_timer_inv; [exact Hres | exact En | | exact Ec].
        apply ginv_scr. exact H2.
  - inversion E; subst w' evs raised; clear E.
    eexists. split; [cbn [mon_run mon_step]; reflexivity|].
    apply (ginv_undefine _ _ _ _ k H1).
Qed.

Definition flags_fixed (fl : flags) : Prop :=
  f_guard fl = true /\ f_clear fl = true /\ f_clear_base fl = true /\ f_mono fl = true /\ f_truth fl = true /\ f_resolve fl = true.

(* what follows the callback in run: raise / cancelled meanwhile / re-arm / stop *)
Lemma epilogue_inv res cfg fl i rid st raised w m w' evs :
  0 < res -> flags_fixed fl ->
  GInv res (Some (i, rid)) w m -> epilogue fl cfg i st raised w = (w', evs) ->
  exists m', mon_run false res m evs = Some m' /\ GInv res None w' m'.
Proof.
  intros Hres (Fg & Fc & Fcb & Fm & Ft & _) H E. unfold epilogue, continue_or_stop in E. rewrite Fg, Fc, Fcb, Ft in E.
  replace (match s_act st with ARaise RExc => true | _ => true end) with true in E by (destruct (s_act st) as [| | |[| |]| |]; reflexivity).
  set (b := klong_truth (s_ret st)) in *.
  pose proof (g_cur _ _ _ _ H) as Hcu. cbn [option_map fst] in Hcu.
  pose proof (g_clock _ _ _ _ H) as Hclk. apply Z.leb_le in Hclk.
  destruct raised.
  - (* the callback raised *)
    inversion E; subst w' evs; clear E.
    cbn [mon_run mon_step]. rewrite Hcu, Nat.eqb_refl, Hclk. cbn [andb].
    eexists. split; [reflexivity|].
    pose proof (ginv_raise _ _ _ _ _ H) as H1.
    eapply ginv_ext; [eapply ginv_finish; [exact H1|] | reflexivity | wsimpl; lia | reflexivity | | reflexivity].
    + wsimpl. rewrite upd_same. destruct (m_st m i); reflexivity.
    + intros i0. wsimpl. unfold upd. destruct (Nat.eqb i0 i) eqn:Ei; [|reflexivity].
      apply Nat.eqb_eq in Ei. subst i0. destruct (m_st m i); reflexivity.
  - cbn [andb] in E. destruct (t_delegate (w_tm w i)) as [x|] eqn:Ed; cbn [is_none] in E.
    + (* still armed: re-arm or stop *)
      destruct (delegate_known _ _ _ _ _ _ H Ed) as (s & iv & d & Es & Hlt & Hwho).
      pose proof H as H0. ginv H0.
      destruct (Hrid i rid eq_refl) as (R1 & R2 & R3 & R4).
      destruct (Halive i s iv d Es) as (A1 & A2 & A3 & A4 & _).
      destruct b.
      * (* returned true: re-arm *)
        inversion E; subst w' evs; clear E.
        cbn [mon_run mon_step]. rewrite Hcu, Nat.eqb_refl, Hclk, Es. cbn [andb].
        eexists. split; [reflexivity|].
        unfold rearm. rewrite A1, A2, Fm.
        destruct (iv =? 0) eqn:Eiv.
        -- apply Z.eqb_eq in Eiv. unfold call_soon, set_tm. wsimpl.
           eapply ginv_ext; [eapply (ginv_arm res (Some (i, rid)) None w m (w_sched w) (w_ready w ++ [mk_handle (w_next w) (w_now w) (TRun i)]) i _ (w_nt w) (mk_handle (w_next w) (w_now w) (TRun i)) s iv (next_due s iv d (w_now w))); try eassumption; try reflexivity | reflexivity | wsimpl; lia | wsimpl; first [assumption | symmetry; assumption] | reflexivity | reflexivity].
           ++ rewrite app_assoc. apply Permutation_sym. apply Permutation_cons_append.
           ++ intros h Hh. apply in_app_or in Hh. destruct Hh as [Hh|[Hh|[]]]; auto.
           ++ intros _. wsimpl. lia.
           ++ wsimpl. unfold next_due. rewrite Eiv. reflexivity.
           ++ lia.
           ++ left. split; [reflexivity | right; exists rid; reflexivity].
           ++ intros k. unfold eff, fallback. cbn [w_bind w_nt w_tm]. destruct (w_bind w k); [reflexivity|].
              destruct (k <? w_nt w)%nat; [|reflexivity]. unfold upd. destruct (Nat.eqb k i) eqn:Ek; [|reflexivity].
              apply Nat.eqb_eq in Ek. subst k. reflexivity.
        -- apply Z.eqb_neq in Eiv. assert (Hpos : 0 < iv) by lia.
           unfold call_at, set_tm. wsimpl.
           set (n' := Z.max (t_n (w_tm w i) + 1) ((w_now w - s) / iv + 1)).
           set (hn := mk_handle (w_next w) (s + n' * iv) (TRun i)).
           eapply ginv_ext; [eapply (ginv_arm res (Some (i, rid)) None w m (insert_h (c_lifo cfg) hn (w_sched w)) (w_ready w) i _ (w_nt w) hn s iv (next_due s iv d (w_now w))); try eassumption; try reflexivity | reflexivity | wsimpl; lia | wsimpl; first [assumption | symmetry; assumption] | reflexivity | reflexivity].
           ++ apply (Permutation_app_tail (w_ready w) (insert_h_perm (c_lifo cfg) hn (w_sched w))).
           ++ intros h Hh. right. assumption.
           ++ intros Hh. exfalso. specialize (Hids hn). unfold handles in Hids.
              specialize (Hids (in_or_app _ _ _ (or_intror Hh))). subst hn. cbn [hid] in Hids. lia.
           ++ subst hn. cbn [hwhen]. rewrite (A4 Hpos). rewrite next_due_boundary by assumption. reflexivity.
           ++ intros _. cbn [t_n]. rewrite (A4 Hpos). rewrite next_due_boundary by assumption. reflexivity.
           ++ left. split; [reflexivity | right; exists rid; reflexivity].
           ++ intros k. unfold eff, fallback. cbn [w_bind w_nt w_tm]. destruct (w_bind w k); [reflexivity|].
              destruct (k <? w_nt w)%nat; [|reflexivity]. unfold upd. destruct (Nat.eqb k i) eqn:Ek; [|reflexivity].
              apply Nat.eqb_eq in Ek. subst k. reflexivity.
      * (* returned false: handle.cancel() *)
        unfold handler_cancel in E. rewrite Ed in E. cbn [fst] in E. inversion E; subst w' evs; clear E.
        cbn [mon_run mon_step]. rewrite Hcu, Nat.eqb_refl, Hclk, Es. cbn [andb].
        eexists. split; [reflexivity|].
        pose proof (ginv_kill _ _ _ _ _ _ H Ed) as H1.
        eapply ginv_ext; [eapply ginv_finish; [exact H1|] | reflexivity | wsimpl; lia | reflexivity | | reflexivity].
        -- wsimpl. rewrite upd_same. reflexivity.
        -- intros i0. reflexivity.
    + (* cancelled from inside the callback: nothing is armed *)
      inversion E; subst w' evs; clear E.
      pose proof (dead_no_delegate _ _ _ _ _ H Ed) as Hd.
      cbn [mon_run mon_step]. rewrite Hcu, Nat.eqb_refl, Hclk. cbn [andb].
      eexists. split; [reflexivity|].
      eapply ginv_ext; [eapply ginv_finish; [exact H | exact Hd] | reflexivity | wsimpl; lia | reflexivity | | reflexivity].
      intros i0. wsimpl. unfold upd. destruct (Nat.eqb i0 i) eqn:Ei; [|reflexivity].
      apply Nat.eqb_eq in Ei. subst i0. destruct (m_st m i); try reflexivity; discriminate.
Qed.

(* _call_periodic.run as a whole, entered from a live handle of timer i *)
Lemma run_timer_inv res cfg fl w m h r i w' evs fatal :
  0 < res -> flags_fixed fl ->
  GInv res None w m -> w_ready w = h :: r -> w_canc w (hid h) = false -> htgt h = TRun i ->
  run_timer fl cfg i (hwhen h) (set_ready w r) = (w', evs, fatal) ->
  exists m', mon_run false res m evs = Some m' /\ GInv res None w' m'.
Proof.
  intros Hres Hfl H Er Hc Ht E.
  destruct (tick_start _ _ _ _ _ _ H Er Hc Ht) as (m1 & Hs1 & H1).
  unfold run_timer in E. destruct Hfl as (Fg & Fc & Fcb & Fm & Ft & Fr). rewrite Fr in E.
  match type of E with context [do_action cfg ?st ?w0] => destruct (do_action cfg st w0) as [[w1 evs1] raised] eqn:Ea end.
  match type of E with context [epilogue ?a ?b ?c ?st ?e ?f] => destruct (epilogue a b c st e f) as [w2 eve] eqn:Ee end.
  inversion E; subst w' evs; clear E.
  apply (ginv_scr _ _ _ _ (upd (w_scr (set_ready w r)) i (tl (w_scr (set_ready w r) i)))) in H1.
  destruct (action_inv _ _ _ _ _ _ _ _ _ Hres H1 Ea) as (m2 & Hs2 & H2).
  destruct (epilogue_inv _ _ _ _ _ _ _ _ _ _ _ Hres (conj Fg (conj Fc (conj Fcb (conj Fm (conj Ft Fr))))) H2 Ee) as (m3 & Hs3 & H3).
  exists m3. split; [|assumption].
  change (eff (set_ready w r) i) with (eff w i). cbn [mon_run]. wsimpl. rewrite Hs1. rewrite mon_run_app, Hs2. assumption.
Qed.

(* the handle sets may shrink by handles that are cancelled or not timer handles, and be rearranged *)
Lemma ginv_handles res w m sched' ready' :
  GInv res None w m ->
  (forall h, In h (sched' ++ ready') -> In h (handles w)) ->
  NoDup (map hid (sched' ++ ready')) ->
  (forall h i, In h (handles w) -> htgt h = TRun i -> w_canc w (hid h) = false -> In h (sched' ++ ready')) ->
  (forall h, In h ready' -> hwhen h - res < w_now w) ->
  GInv res None (mk_world (w_now w) (w_next w) sched' ready' (w_canc w) (w_nt w) (w_tm w) (w_scr w) (w_bind w) (w_nver w) (w_pool w)) m.
Proof.
  intros H Hsub Hn Hkeep Hr. ginv H. constructor; wsimpl; try assumption; eauto.
  - intros i rid E. discriminate.
  - intros i s iv d Hs. destruct (Halive i s iv d Hs) as (A & B & C & D & [(h & Hh & Ht & Hc & Hw) | (rid & E & _)]); [|discriminate].
    repeat split; try assumption. left. exists h. repeat split; eauto.
Qed.

Lemma dc_incl c l h : In h (drop_cancelled c l) -> In h l.
Proof.
  induction l as [|x l IH]; cbn [drop_cancelled]; [auto|].
  destruct (c (hid x)); [intros H; right; auto | auto].
Qed.

Lemma dc_live c l h : In h l -> c (hid h) = false -> In h (drop_cancelled c l).
Proof.
  induction l as [|x l IH]; cbn [drop_cancelled]; [auto|].
  intros [->|Hin] Hc.
  - rewrite Hc. left. reflexivity.
  - destruct (c (hid x)); [auto | right; assumption].
Qed.

Lemma dc_suffix c l : exists pre, l = pre ++ drop_cancelled c l.
Proof.
  induction l as [|x l [pre IH]]; cbn [drop_cancelled]; [exists []; reflexivity|].
  destruct (c (hid x)); [exists (x :: pre); cbn [app]; rewrite <- IH; reflexivity | exists []; reflexivity].
Qed.

Lemma dc_nil c l : drop_cancelled c l = [] -> forall h, In h l -> c (hid h) = true.
Proof.
  induction l as [|x l IH]; cbn [drop_cancelled]; [intros _ h []|].
  destruct (c (hid x)) eqn:E; [|discriminate]. intros Hn h [->|Hin]; auto.
Qed.

Lemma span_due_spec endt l a b : span_due endt l = (a, b) -> l = a ++ b /\ forall h, In h a -> hwhen h < endt.
Proof.
  revert a b. induction l as [|x l IH]; cbn [span_due]; intros a b E.
  - inversion E; subst. split; [reflexivity | intros h []].
  - destruct (hwhen x <? endt) eqn:Ex.
    + destruct (span_due endt l) as [a' b'] eqn:Es. inversion E; subst a b; clear E.
      destruct (IH a' b' eq_refl) as [-> Hall]. split; [reflexivity|].
      intros h [->|Hin]; [apply Z.ltb_lt; assumption | auto].
    + inversion E; subst. split; [reflexivity | intros h []].
Qed.

Lemma nodup_app_r {A} (a b : list A) : NoDup (a ++ b) -> NoDup b.
Proof.
  induction a as [|x a IH]; cbn [app]; [auto|]. intros N. inversion N; subst. auto.
Qed.

Lemma ginv_drop_cancelled res w m :
  GInv res None w m -> GInv res None (set_sched w (drop_cancelled (w_canc w) (w_sched w))) m.
Proof.
  intros H.
  pose proof (ginv_handles res w m (drop_cancelled (w_canc w) (w_sched w)) (w_ready w) H) as G.
  apply G; clear G.
  - intros h Hh. apply in_app_or in Hh. apply in_or_app. destruct Hh as [Hh|Hh]; [left; eapply dc_incl; eauto | right; assumption].
  - pose proof (g_nodup _ _ _ _ H) as N. unfold handles in N.
    destruct (dc_suffix (w_canc w) (w_sched w)) as [pre Ep]. rewrite Ep in N at 1.
    rewrite <- app_assoc, map_app in N. apply nodup_app_r in N. assumption.
  - intros h i Hh Ht Hc. apply in_app_or in Hh. apply in_or_app. destruct Hh as [Hh|Hh]; [left; apply dc_live; assumption | right; assumption].
  - apply (g_ready _ _ _ _ H).
Qed.

(* a handle leaves the ready queue without running a timer callback *)
Lemma ginv_pop res w m h r :
  GInv res None w m -> w_ready w = h :: r ->
  (w_canc w (hid h) = true \/ forall i, htgt h <> TRun i) ->
  GInv res None (set_ready w r) m.
Proof.
  intros H Er Hwhy.
  pose proof (ginv_handles res w m (w_sched w) r H) as G. apply G; clear G.
  - intros x Hx. unfold handles. rewrite Er. apply in_mid_inv. assumption.
  - pose proof (g_nodup _ _ _ _ H) as N. unfold handles in N. rewrite Er in N. apply nodup_mid in N. apply N.
  - intros x i Hx Ht Hc. unfold handles in Hx. rewrite Er in Hx. apply in_mid in Hx. destruct Hx as [->|Hx]; [|assumption].
    exfalso. destruct Hwhy as [Hw|Hw]; [congruence | eapply Hw; eauto].
  - intros x Hx. apply (g_ready _ _ _ _ H). rewrite Er. right. assumption.
Qed.

Lemma run_handle_inv res cfg fl w m h r w' evs fatal :
  0 < res -> flags_fixed fl ->
  GInv res None w m -> w_ready w = h :: r ->
  run_handle fl cfg h (set_ready w r) = (w', evs, fatal) ->
  exists m', mon_run false res m evs = Some m' /\ GInv res None w' m'.
Proof.
  intros Hres Hfl H Er E. unfold run_handle in E.
  change (w_canc (set_ready w r) (hid h)) with (w_canc w (hid h)) in E.
  destruct (w_canc w (hid h)) eqn:Ec.
  - inversion E; subst w' evs. exists m. split; [reflexivity|]. eapply ginv_pop; eauto.
  - destruct (htgt h) as [i|j|k|k] eqn:Et.
    + eapply run_timer_inv; eauto.
    + assert (H1 : GInv res None (set_ready w r) m).
      { eapply ginv_pop; eauto. right. intros i. congruence. }
      destruct (sys_timerc j (set_ready w r)) as [w1 b] eqn:Es. inversion E; subst w' evs; clear E.
      destruct (timerc_inv _ _ _ _ _ _ _ H1 Es) as (m' & Hs & Hg & _).
      exists m'. split; [|assumption]. unfold set_ready in Hs. cbn [w_now] in Hs.
      cbn [mon_run w_now set_ready]. rewrite Hs. reflexivity.
    + assert (H1 : GInv res None (set_ready w r) m).
      { eapply ginv_pop; eauto. right. intros i. congruence. }
      inversion E; subst w' evs; clear E.
      eexists. split; [cbn [mon_run mon_step]; reflexivity|].
      apply (ginv_redefine _ _ _ _ k H1).
    + assert (H1 : GInv res None (set_ready w r) m).
      { eapply ginv_pop; eauto. right. intros i. congruence. }
      inversion E; subst w' evs; clear E.
      eexists. split; [cbn [mon_run mon_step]; reflexivity|].
      apply (ginv_undefine _ _ _ _ k H1).
Qed.

Lemma run_ready_inv res cfg fl n : forall w m w' evs,
  0 < res -> flags_fixed fl ->
  GInv res None w m -> run_ready fl cfg n w = (w', evs) ->
  exists m', mon_run false res m evs = Some m' /\ GInv res None w' m'.
Proof.
  induction n as [|n IH]; intros w m w' evs Hres Hfl H E; cbn [run_ready] in E.
  - inversion E; subst. exists m. split; [reflexivity | assumption].
  - destruct (w_ready w) as [|h r] eqn:Er.
    + inversion E; subst. exists m. split; [reflexivity | assumption].
    + destruct (run_handle fl cfg h (set_ready w r)) as [[w1 e1] fatal] eqn:E1.
      destruct (run_handle_inv _ _ _ _ _ _ _ _ _ _ Hres Hfl H Er E1) as (m1 & Hs1 & H1).
      destruct fatal.
      * inversion E; subst w' evs; clear E. exists m1. split; assumption.
      * destruct (run_ready fl cfg n w1) as [w2 e2] eqn:E2.
        inversion E; subst w' evs; clear E.
        destruct (IH _ _ _ _ Hres Hfl H1 E2) as (m2 & Hs2 & H2).
        exists m2. split; [|assumption]. rewrite mon_run_app, Hs1. assumption.
Qed.

Lemma dispatch_due_inv res cfg fl w m w' evs :
  0 < res -> c_res cfg = res -> flags_fixed fl ->
  GInv res None w m -> dispatch_due fl cfg w = (w', evs) ->
  exists m', mon_run false res m evs = Some m' /\ GInv res None w' m'.
Proof.
  intros Hres Hc Hfl H E. unfold dispatch_due in E.
  destruct (span_due (w_now w + c_res cfg) (w_sched w)) as [due rest] eqn:Es.
  destruct (span_due_spec _ _ _ _ Es) as [Eapp Hdue].
  eapply run_ready_inv; [exact Hres | exact Hfl | | exact E].
  pose proof (ginv_handles res w m rest (w_ready w ++ due) H) as G. apply G; clear G.
  - intros h Hh. unfold handles. rewrite Eapp. apply in_app_or in Hh. destruct Hh as [Hh|Hh].
    + apply in_or_app. left. apply in_or_app. right. assumption.
    + apply in_app_or in Hh. destruct Hh as [Hh|Hh]; apply in_or_app; [right; assumption | left; apply in_or_app; left; assumption].
  - pose proof (g_nodup _ _ _ _ H) as N. unfold handles in N. rewrite Eapp in N.
    eapply Permutation_NoDup; [|exact N]. apply Permutation_map.
    rewrite <- app_assoc. apply Permutation_app_rot.
  - intros h i Hh _ _. unfold handles in Hh. rewrite Eapp in Hh.
    apply in_app_or in Hh. destruct Hh as [Hh|Hh].
    + apply in_app_or in Hh. destruct Hh as [Hh|Hh]; apply in_or_app; [right; apply in_or_app; right; assumption | left; assumption].
    + apply in_or_app. right. apply in_or_app. left. assumption.
  - intros h Hh. apply in_app_or in Hh. destruct Hh as [Hh|Hh]; [apply (g_ready _ _ _ _ H); assumption|].
    specialize (Hdue h Hh). lia.
Qed.

Lemma loop_once_inv res cfg fl lat w m w' evs :
  0 < res -> c_res cfg = res -> flags_fixed fl ->
  GInv res None w m -> loop_once fl cfg lat w = Some (w', evs) ->
  exists m', mon_run false res m evs = Some m' /\ GInv res None w' m'.
Proof.
  intros Hres Hc Hfl H E. unfold loop_once in E.
  pose proof (ginv_drop_cancelled _ _ _ H) as H0.
  set (w0 := set_sched w (drop_cancelled (w_canc w) (w_sched w))) in *.
  destruct (w_ready w0) as [|x r] eqn:Er.
  - destruct (drop_cancelled (w_canc w) (w_sched w)) as [|h s] eqn:Ed; [discriminate|].
    inversion E as [E']; clear E.
    eapply dispatch_due_inv; [exact Hres | exact Hc | exact Hfl | | exact E'].
    apply ginv_advance; [assumption | unfold w0, set_sched; cbn [w_now]; lia].
  - inversion E as [E']; clear E.
    eapply dispatch_due_inv; eauto.
Qed.

Lemma forallb_seq_true (f : nat -> bool) n : (forall i, (i < n)%nat -> f i = true) -> forallb f (seq 0 n) = true.
Proof.
  intros H. apply forallb_forall. intros i Hi. apply in_seq in Hi. apply H. lia.
Qed.

(* nothing ready, nothing scheduled: no timer is alive *)
Lemma loop_idle_inv res cfg fl lat w m :
  GInv res None w m -> loop_once fl cfg lat w = None ->
  mon_step false res m EvIdle = Some m.
Proof.
  intros H E. unfold loop_once in E.
  change (w_ready (set_sched w (drop_cancelled (w_canc w) (w_sched w)))) with (w_ready w) in E.
  destruct (w_ready w) as [|x r] eqn:Er; [|discriminate].
  destruct (drop_cancelled (w_canc w) (w_sched w)) as [|h s] eqn:Ed; [|discriminate].
  cbn [mon_step]. rewrite (g_cur _ _ _ _ H). cbn [option_map is_none andb].
  replace (no_alive m) with true; [reflexivity|]. symmetry. unfold no_alive.
  apply forallb_seq_true. intros i _.
  destruct (m_st m i) as [|s0 iv d|] eqn:Es; try reflexivity. exfalso.
  destruct (g_alive _ _ _ _ H i s0 iv d Es) as (_ & _ & _ & _ & [(h & Hh & Ht & Hcn & _) | (rid & E' & _)]); [|discriminate].
  unfold handles in Hh. rewrite Er, app_nil_r in Hh.
  rewrite (dc_nil _ _ Ed h Hh) in Hcn. discriminate.
Qed.

Lemma run_loop_inv res cfg fl fuel : forall lats w m w' evs,
  0 < res -> c_res cfg = res -> flags_fixed fl ->
  GInv res None w m -> run_loop fl cfg fuel lats w = (w', evs) ->
  mon_run false res m evs <> None.
Proof.
  induction fuel as [|f IH]; intros lats w m w' evs Hres Hc Hfl H E; cbn [run_loop] in E.
  - inversion E; subst. cbn [mon_run]. discriminate.
  - match type of E with context [loop_once ?a ?b ?l ?w] => destruct (loop_once a b l w) as [[w1 e1]|] eqn:El end.
    + match type of E with context [run_loop ?a ?b ?c ?l ?w] => destruct (run_loop a b c l w) as [w2 e2] eqn:E2 end.
      inversion E; subst w' evs; clear E.
      destruct (loop_once_inv _ _ _ _ _ _ _ _ Hres Hc Hfl H El) as (m1 & Hs1 & H1).
      rewrite mon_run_app, Hs1. eapply IH; eauto.
    + inversion E; subst w' evs; clear E.
      cbn [mon_run]. rewrite (loop_idle_inv _ _ _ _ _ _ H El). discriminate.
Qed.

(* ---- setting an experiment up -------------------------------------------------- *)
Lemma ginv_world0 res t0 pool : GInv res None (world0 t0 pool) (mstate0 t0).
Proof.
  constructor; unfold world0, mstate0, handles; cbn; try reflexivity; try lia; try constructor; try (intros; contradiction); try (intros; discriminate); auto.
Qed.

Lemma ginv_arm_ext res cfg w m t x :
  GInv res None w m -> GInv res None (fst (call_at cfg t (ext_target x) w)) m.
Proof.
  intros H. unfold call_at. cbn [fst].
  set (hn := mk_handle (w_next w) t (ext_target x)).
  assert (HP : Permutation (insert_h (c_lifo cfg) hn (w_sched w) ++ w_ready w) (hn :: handles w)).
  { apply (Permutation_app_tail (w_ready w) (insert_h_perm (c_lifo cfg) hn (w_sched w))). }
  ginv H.
  assert (HIn : forall h, In h (insert_h (c_lifo cfg) hn (w_sched w) ++ w_ready w) -> h = hn \/ In h (handles w)).
  { intros h Hh. pose proof (Permutation_in _ HP Hh) as [E|E]; auto. }
  assert (HIn' : forall h, In h (handles w) -> In h (insert_h (c_lifo cfg) hn (w_sched w) ++ w_ready w)).
  { intros h Hh. apply (Permutation_in _ (Permutation_sym HP)). right. assumption. }
  assert (Hnt : forall i, htgt hn <> TRun i) by (intros i; subst hn; cbn [htgt]; destruct x; discriminate).
  constructor; wsimpl; try assumption.
  - intros h Hh. destruct (HIn h Hh) as [->|Ho]; [subst hn; cbn [hid]; lia|]. specialize (Hids h Ho). lia.
  - apply (Permutation_NoDup (Permutation_sym (Permutation_map hid HP))). cbn [map]. constructor; [|assumption].
    intros Hc. apply in_map_iff in Hc. destruct Hc as (h & E & Hh). specialize (Hids h Hh). subst hn. cbn [hid] in E. lia.
  - intros h i Hh Ht. destruct (HIn h Hh) as [->|Ho]; [exfalso; eapply Hnt; eauto|]. eauto.
  - intros h i Hh Ht Hc. destruct (HIn h Hh) as [->|Ho]; [exfalso; eapply Hnt; eauto|]. eauto.
  - intros i rid E. discriminate.
  - intros i s iv d Hs. destruct (Halive i s iv d Hs) as (A & B & C & D & [(h & Hh & E) | (rid & E & _)]); [|discriminate].
    repeat split; try assumption. left. exists h. split; [apply HIn'; assumption | assumption].
  - intros id Hi. apply Hfresh. lia.
Qed.

Lemma arm_exts_inv res cfg xs : forall w m, GInv res None w m -> GInv res None (arm_exts cfg xs w) m.
Proof.
  induction xs as [|[t x] xs IH]; intros w m H; cbn [arm_exts]; [assumption|].
  apply IH. apply ginv_arm_ext. assumption.
Qed.

Lemma create_all_inv res cfg ts : forall w m w' evs,
  0 < res -> GInv res None w m -> create_all cfg ts w = (w', evs) ->
  exists m', mon_run false res m evs = Some m' /\ GInv res None w' m'.
Proof.
  induction ts as [|s ts IH]; intros w m w' evs Hres H E; cbn [create_all] in E.
  - inversion E; subst. exists m. split; [reflexivity | assumption].
  - set (w1 := set_now w (w_now w + Z.max 0 (ts_gap s))) in *.
    assert (H1 : GInv res None w1 m) by (apply ginv_advance; [assumption | lia]).
    destruct (ts_interval s <? 0) eqn:En.
    + eapply IH; eauto.
    + apply Z.ltb_ge in En.
      match type of E with context [create_timer cfg ?iv ?w2] => destruct (create_timer cfg iv w2) as [w3 e1] eqn:E1 end.
      destruct (create_all cfg ts w3) as [w4 e2] eqn:E2.
      inversion E; subst w' evs; clear E.
      apply (ginv_scr _ _ _ _ (upd (w_scr w1) (w_nt w1) (ts_script s))) in H1.
      destruct (create_timer_inv _ _ _ _ _ _ _ _ Hres En H1 E1) as (m1 & Hs1 & H2).
      destruct (IH _ _ _ _ Hres H2 E2) as (m2 & Hs2 & H3).
      exists m2. split; [|assumption]. rewrite mon_run_app, Hs1. assumption.
Qed.

(* ---- the main theorem: every history of the model is accepted by the checker ------ *)
Theorem simulate_accepted fl cfg t0 xs ts pool lats fuel :
  flags_fixed fl -> 0 < c_res cfg ->
  accepted false (c_res cfg) t0 (snd (simulate fl cfg t0 xs ts pool lats fuel)).
Proof.
  intros Hfl Hres. unfold accepted, simulate.
  destruct (create_all cfg ts (arm_exts cfg xs (world0 t0 pool))) as [w1 e1] eqn:E1.
  destruct (run_loop fl cfg fuel lats w1) as [w2 e2] eqn:E2.
  cbn [snd].
  pose proof (arm_exts_inv (c_res cfg) cfg xs _ _ (ginv_world0 (c_res cfg) t0 pool)) as H0.
  destruct (create_all_inv _ _ _ _ _ _ _ Hres H0 E1) as (m1 & Hs1 & H1).
  rewrite mon_run_app, Hs1.
  eapply run_loop_inv; eauto.
Qed.

(* ---- what acceptance by the checker means ------------------------------------------ *)
Definition mwf (m : mstate) : Prop :=
  (forall i, m_st m i <> TNone -> (i < m_count m)%nat) /\ (forall i, m_cur m = Some i -> (i < m_count m)%nat).

Lemma mwf0 t0 : mwf (mstate0 t0).
Proof. split; cbn; intros; congruence. Qed.

Ltac step_cases E :=
  match type of E with
  | (if ?c then _ else _) = Some _ => let C := fresh "C" in destruct c eqn:C; [|discriminate]
  end.

Lemma mwf_step strict res m e m' : mwf m -> mon_step strict res m e = Some m' -> mwf m'.
Proof.
  intros [W1 W2] E. destruct e as [i t iv|i t due v|i t o|j t r|k v|]; cbn [mon_step] in E.
  - step_cases E. inversion E; subst m'; clear E. repeat (apply andb_prop in C; destruct C as [C ?]).
    apply Nat.eqb_eq in H0. subst i.
    split; cbn; [|intros i0 Hc0; specialize (W2 i0 Hc0); lia]. intros i Hi. unfold upd in Hi. destruct (Nat.eqb i (m_count m)) eqn:Ei.
    + apply Nat.eqb_eq in Ei. lia.
    + specialize (W1 i Hi). lia.
  - destruct (m_cur m) eqn:Ec; [discriminate|]. destruct (m_st m i) as [|s iv d|] eqn:Es; try discriminate.
    step_cases E. inversion E; subst m'; clear E. split; cbn; [assumption|].
    intros i0 Hi. inversion Hi; subst i0. apply W1. congruence.
  - destruct (m_cur m) as [c|] eqn:Ec; [|discriminate]. step_cases E. inversion E; subst m'; clear E.
    apply andb_prop in C. destruct C as [C _]. apply Nat.eqb_eq in C. subst c.
    split; cbn; [|intros; discriminate]. intros i0 Hi. unfold upd in Hi. destruct (Nat.eqb i0 i) eqn:Ei.
    + apply Nat.eqb_eq in Ei. subst i0. apply W2. reflexivity.
    + auto.
  - step_cases E. inversion E; subst m'; clear E. split; cbn; [|assumption].
    intros i Hi. destruct (is_alive (m_st m j)) eqn:Ea; [|auto].
    unfold upd in Hi. destruct (Nat.eqb i j) eqn:Ei; [|auto].
    apply Nat.eqb_eq in Ei. subst i. apply W1. destruct (m_st m j); discriminate.
  - inversion E; subst m'. split; cbn; assumption.
  - step_cases E. inversion E; subst m'. split; assumption.
Qed.

Lemma mwf_run strict res tr : forall m m', mwf m -> mon_run strict res m tr = Some m' -> mwf m'.
Proof.
  induction tr as [|e tr IH]; intros m m' W E; cbn [mon_run] in E; [inversion E; subst; assumption|].
  destruct (mon_step strict res m e) as [m1|] eqn:Es; [|discriminate]. eapply IH; [eapply mwf_step; eauto | eauto].
Qed.

(* timer i has been stopped: callback returned false or raised, or .timerc returned 1 for it *)
Definition stops (i : nat) (e : event) : Prop :=
  match e with
  | EvCancel j _ true => j = i
  | EvEnd j _ RetFalse => j = i
  | EvEnd j _ Raised => j = i
  | _ => False
  end.

Definition stopped (m : mstate) (i : nat) : Prop := is_alive (m_st m i) = false /\ (i < m_count m)%nat.

Lemma stop_event strict res m e m' i : mwf m -> mon_step strict res m e = Some m' -> stops i e -> stopped m' i.
Proof.
  intros [W1 W2] E S. destruct e as [? ? ?|? ? ? ?|j t o|j t r|? ?|]; cbn [stops] in S; try contradiction.
  - cbn [mon_step] in E. destruct (m_cur m) as [c|] eqn:Ec; [|discriminate]. step_cases E. inversion E; subst m'; clear E.
    apply andb_prop in C. destruct C as [C _]. apply Nat.eqb_eq in C. subst c.
    assert (j = i) by (destruct o; auto; contradiction). subst j.
    split; cbn; [|apply W2; reflexivity]. rewrite upd_same. destruct (m_st m i), o; try reflexivity; contradiction.
  - destruct r; [|contradiction]. subst j. cbn [mon_step] in E. step_cases E. inversion E; subst m'; clear E.
    apply andb_prop in C. destruct C as [_ C]. apply eqb_prop in C. rewrite <- C.
    split; cbn; [rewrite upd_same; reflexivity|]. apply W1. destruct (m_st m i); discriminate.
Qed.

Lemma stopped_step strict res m e m' i :
  stopped m i -> mon_step strict res m e = Some m' ->
  stopped m' i /\ (forall t d v, e <> EvTick i t d v) /\ (forall t, e <> EvCancel i t true).
Proof.
  intros [S1 S2] E. destruct e as [i0 t iv|i0 t due v|i0 t o|j t r|k v|]; cbn [mon_step] in E.
  - step_cases E. inversion E; subst m'; clear E. repeat (apply andb_prop in C; destruct C as [C ?]).
    apply Nat.eqb_eq in H0. subst i0. repeat split; cbn; try discriminate; try lia.
    rewrite upd_other by lia. assumption.
  - destruct (m_cur m) eqn:Ec; [discriminate|]. destruct (m_st m i0) as [|s iv d|] eqn:Es; try discriminate.
    step_cases E. inversion E; subst m'; clear E. repeat split; cbn; try assumption; try discriminate.
    intros t0 d0 v0 Ee. inversion Ee; subst. rewrite Es in S1. discriminate.
  - destruct (m_cur m) as [c|] eqn:Ec; [|discriminate]. step_cases E. inversion E; subst m'; clear E.
    repeat split; cbn; try assumption; try discriminate.
    unfold upd. destruct (Nat.eqb i i0) eqn:Ei; [|assumption]. apply Nat.eqb_eq in Ei. subst i0.
    destruct (m_st m i); try reflexivity; discriminate.
  - step_cases E. inversion E; subst m'; clear E. apply andb_prop in C. destruct C as [_ C]. apply eqb_prop in C.
    repeat split; cbn; try assumption; try discriminate.
    + destruct (is_alive (m_st m j)); [|assumption]. unfold upd. destruct (Nat.eqb i j); [reflexivity | assumption].
    + intros t0 Ee. inversion Ee; subst. congruence.
  - inversion E; subst m'. repeat split; cbn; try assumption; discriminate.
  - step_cases E. inversion E; subst m'. repeat split; try assumption; discriminate.
Qed.

Lemma stopped_run strict res i tr : forall m, stopped m i -> mon_run strict res m tr <> None ->
  (forall t d v, ~ In (EvTick i t d v) tr) /\ (forall t, ~ In (EvCancel i t true) tr).
Proof.
  induction tr as [|e tr IH]; intros m S E; [split; intros; intros []|].
  cbn [mon_run] in E. destruct (mon_step strict res m e) as [m1|] eqn:Es; [|congruence].
  destruct (stopped_step _ _ _ _ _ _ S Es) as (S1 & N1 & N2).
  destruct (IH m1 S1 E) as [I1 I2].
  split.
  - intros t d v [Hh|Hh]; [apply (N1 _ _ _ Hh) | apply (I1 _ _ _ Hh)].
  - intros t [Hh|Hh]; [apply (N2 _ Hh) | apply (I2 _ Hh)].
Qed.

(* never again: after the stopping event no tick of that timer, and no second successful .timerc *)
Theorem no_tick_after_stop strict res t0 a e b i :
  accepted strict res t0 (a ++ e :: b) -> stops i e ->
  (forall t d v, ~ In (EvTick i t d v) b) /\ (forall t, ~ In (EvCancel i t true) b).
Proof.
  unfold accepted. intros A S. rewrite mon_run_app in A.
  destruct (mon_run strict res (mstate0 t0) a) as [m1|] eqn:E1; [|congruence].
  cbn [mon_run] in A. destruct (mon_step strict res m1 e) as [m2|] eqn:E2; [|congruence].
  eapply stopped_run; [|exact A].
  eapply stop_event; [eapply mwf_run; [apply mwf0 | exact E1] | exact E2 | exact S].
Qed.

(* never overlapping: while a callback runs no callback starts *)
Lemma cur_persists strict res i mid : forall m m',
  m_cur m = Some i -> (forall t o, ~ In (EvEnd i t o) mid) -> mon_run strict res m mid = Some m' -> m_cur m' = Some i.
Proof.
  induction mid as [|e mid IH]; intros m m' Hc Hn E; cbn [mon_run] in E; [inversion E; subst; assumption|].
  destruct (mon_step strict res m e) as [m1|] eqn:Es; [|discriminate].
  eapply IH; [| intros t o Hin; eapply Hn; right; exact Hin | exact E].
  destruct e as [i0 t iv|i0 t due v|i0 t o|j t r|k v|]; cbn [mon_step] in Es.
  - step_cases Es. inversion Es; subst m1. assumption.
  - rewrite Hc in Es. discriminate.
  - rewrite Hc in Es. step_cases Es. apply andb_prop in C. destruct C as [C _]. apply Nat.eqb_eq in C. subst i0.
    exfalso. eapply Hn. left. reflexivity.
  - step_cases Es. inversion Es; subst m1. assumption.
  - inversion Es; subst m1. assumption.
  - rewrite Hc in Es. discriminate.
Qed.

Theorem no_overlap strict res t0 a i t d v mid j t' d' v' b :
  accepted strict res t0 (a ++ EvTick i t d v :: mid ++ EvTick j t' d' v' :: b) ->
  exists te o, In (EvEnd i te o) mid.
Proof.
  unfold accepted. intros A. rewrite mon_run_app in A.
  destruct (mon_run strict res (mstate0 t0) a) as [m1|] eqn:E1; [|congruence].
  cbn [mon_run] in A. destruct (mon_step strict res m1 (EvTick i t d v)) as [m2|] eqn:E2; [|congruence].
  rewrite mon_run_app in A. destruct (mon_run strict res m2 mid) as [m3|] eqn:E3; [|congruence].
  assert (Hc2 : m_cur m2 = Some i).
  { cbn [mon_step] in E2. destruct (m_cur m1); [discriminate|]. destruct (m_st m1 i); try discriminate.
    step_cases E2. inversion E2; subst m2. reflexivity. }
  assert (Hdec : (exists te o, In (EvEnd i te o) mid) \/ (forall te o, ~ In (EvEnd i te o) mid)).
  { clear. induction mid as [|e mid [IH|IH]].
    - right. intros te o [].
    - left. destruct IH as (te & o & H). exists te, o. right. assumption.
    - destruct e as [| |i0 t0 o0| | |]; try (right; intros te o [H|H]; [discriminate | eapply IH; eauto]).
      destruct (Nat.eq_dec i0 i) as [->|Hne].
      + left. exists t0, o0. left. reflexivity.
      + right. intros te o [H|H]; [inversion H; contradiction | eapply IH; eauto]. }
  destruct Hdec as [Hex|Hno]; [assumption|]. exfalso.
  pose proof (cur_persists _ _ _ _ _ _ Hc2 Hno E3) as Hc3.
  cbn [mon_run mon_step] in A. rewrite Hc3 in A. congruence.
Qed.

(* an alive timer carries the start time and interval of its .timer call *)
Lemma alive_created strict res t0 pre : forall m, mon_run strict res (mstate0 t0) pre = Some m ->
  forall i s iv d, m_st m i = TAlive s iv d -> In (EvCreate i s iv) pre.
Proof.
  induction pre as [|e pre IH] using rev_ind; intros m E i s iv d Hs.
  - cbn in E. inversion E; subst m. cbn in Hs. discriminate.
  - rewrite mon_run_app in E. destruct (mon_run strict res (mstate0 t0) pre) as [m1|] eqn:E1; [|discriminate].
    cbn [mon_run] in E. destruct (mon_step strict res m1 e) as [m2|] eqn:E2; [|discriminate]. inversion E; subst m2; clear E.
    apply in_or_app.
    assert (Hold : forall d', m_st m1 i = TAlive s iv d' -> In (EvCreate i s iv) pre \/ In (EvCreate i s iv) [e]).
    { intros d' H'. left. eapply IH; eauto. }
    destruct e as [i0 t iv0|i0 t due v|i0 t o|j t r|k v|]; cbn [mon_step] in E2.
    + step_cases E2. inversion E2; subst m; clear E2. cbn [m_st] in Hs. unfold upd in Hs.
      destruct (Nat.eqb i i0) eqn:Ei; [|eauto]. apply Nat.eqb_eq in Ei. subst i0. inversion Hs; subst. right. left. reflexivity.
    + destruct (m_cur m1); [discriminate|]. destruct (m_st m1 i0); try discriminate. step_cases E2. inversion E2; subst m. eauto.
    + destruct (m_cur m1); [|discriminate]. step_cases E2. inversion E2; subst m; clear E2. cbn [m_st] in Hs. unfold upd in Hs.
      destruct (Nat.eqb i i0) eqn:Ei; [|eauto]. apply Nat.eqb_eq in Ei. subst i0.
      destruct (m_st m1 i) as [|s1 iv1 d1|] eqn:Es1; try discriminate.
      destruct o; try discriminate. inversion Hs; subst. eauto.
    + step_cases E2. inversion E2; subst m; clear E2. cbn [m_st] in Hs.
      destruct (is_alive (m_st m1 j)); [|eauto]. unfold upd in Hs. destruct (Nat.eqb i j); [discriminate | eauto].
    + inversion E2; subst m. eauto.
    + step_cases E2. inversion E2; subst m. eauto.
Qed.

(* phases of timer i between two of its ticks *)
Inductive phase := PhA | PhB (te : Z) | PhD.

Definition holds (i : nat) (s iv d1 t1 : Z) (p : phase) (m : mstate) : Prop :=
  match p with
  | PhA => m_cur m = Some i /\ t1 <= m_clock m /\ (m_st m i = TAlive s iv d1 \/ is_alive (m_st m i) = false)
  | PhB te => m_cur m <> Some i /\ (i < m_count m)%nat /\ m_st m i = TAlive s iv (next_due s iv d1 te)
  | PhD => m_cur m <> Some i /\ stopped m i
  end.

Definition trans_ok (i : nat) (t1 : Z) (p p' : phase) (seen : list event) : Prop :=
  match p, p' with
  | PhA, PhB te => In (EvEnd i te RetTrue) seen /\ t1 <= te
  | PhB te, PhB te' => te = te'
  | PhB _, PhA => False
  | PhD, PhA => False
  | PhD, PhB _ => False
  | _, _ => True
  end.

Lemma phase_step strict res i s iv d1 t1 p m e m' :
  mwf m -> holds i s iv d1 t1 p m -> mon_step strict res m e = Some m' ->
  (forall t d v, e <> EvTick i t d v) ->
  exists p', holds i s iv d1 t1 p' m' /\ trans_ok i t1 p p' [e].
Proof.
  intros W H E Hnt. pose proof W as [W1 W2]. destruct p as [|te|].
  - destruct H as (Hc & Hk & Hst).
    destruct e as [i0 t iv0|i0 t due v|i0 t o|j t r|k v|]; cbn [mon_step] in E.
    + step_cases E. inversion E; subst m'; clear E. repeat (apply andb_prop in C; destruct C as [C ?]).
      apply Nat.eqb_eq in H0. subst i0. apply Z.leb_le in C. pose proof (W2 i Hc) as Hlt.
      exists PhA. split; [|exact I]. unfold holds; cbn [m_cur m_st m_count m_clock].
      split; [assumption|]. split; [lia|]. rewrite upd_other by lia. assumption.
    + rewrite Hc in E. discriminate.
    + rewrite Hc in E. step_cases E. inversion E; subst m'; clear E.
      apply andb_prop in C. destruct C as [C1 C2]. apply Nat.eqb_eq in C1. subst i0. apply Z.leb_le in C2.
      destruct Hst as [Hst|Hst].
      * rewrite Hst. destruct o.
        -- exists (PhB t). split; [|split; [left; reflexivity | lia]].
           unfold holds, stopped; cbn [m_cur m_st m_count m_clock]. rewrite upd_same. split; [discriminate|]. split; [apply W2; assumption | reflexivity].
        -- exists PhD. split; [|exact I]. unfold holds, stopped; cbn [m_cur m_st m_count m_clock]. split; [discriminate|]. split; [rewrite upd_same; reflexivity | apply W2; assumption].
        -- exists PhD. split; [|exact I]. unfold holds, stopped; cbn [m_cur m_st m_count m_clock]. split; [discriminate|]. split; [rewrite upd_same; reflexivity | apply W2; assumption].
      * exists PhD. split; [|exact I]. unfold holds, stopped; cbn [m_cur m_st m_count m_clock]. split; [discriminate|]. split; [|apply W2; assumption].
        rewrite upd_same. destruct (m_st m i); try reflexivity; discriminate.
    + step_cases E. inversion E; subst m'; clear E. apply andb_prop in C. destruct C as [C1 C2]. apply Z.leb_le in C1.
      exists PhA. split; [|exact I]. unfold holds, stopped; cbn [m_cur m_st m_count m_clock]. split; [assumption|]. split; [lia|].
      destruct (is_alive (m_st m j)) eqn:Ea; [|assumption].
      unfold upd. destruct (Nat.eqb i j); [right; reflexivity | assumption].
    + inversion E; subst m'. exists PhA. split; [|exact I]. unfold holds, stopped; cbn [m_cur m_st m_count m_clock]. auto.
    + rewrite Hc in E. discriminate.
  - destruct H as (Hc & Hlt & Hst).
    destruct e as [i0 t iv0|i0 t due v|i0 t o|j t r|k v|]; cbn [mon_step] in E.
    + step_cases E. inversion E; subst m'; clear E. repeat (apply andb_prop in C; destruct C as [C ?]).
      apply Nat.eqb_eq in H0. subst i0. exists (PhB te). split; [|reflexivity]. cbn.
      split; [assumption|]. split; [lia|]. rewrite upd_other by lia. assumption.
    + destruct (m_cur m) eqn:Ec; [discriminate|]. destruct (m_st m i0) as [|s0 iv1 d0|] eqn:Es; try discriminate.
      step_cases E. inversion E; subst m'; clear E. exists (PhB te). split; [|reflexivity]. cbn.
      split; [|split; assumption]. intros Hx. inversion Hx; subst i0. eapply Hnt. reflexivity.
    + destruct (m_cur m) as [c|] eqn:Ec; [|discriminate]. step_cases E. inversion E; subst m'; clear E.
      apply andb_prop in C. destruct C as [C _]. apply Nat.eqb_eq in C. subst c.
      exists (PhB te). split; [|reflexivity]. unfold holds, stopped; cbn [m_cur m_st m_count m_clock]. split; [discriminate|]. split; [assumption|].
      rewrite upd_other; [assumption|]. intros ->. apply Hc. reflexivity.
    + step_cases E. inversion E; subst m'; clear E.
      destruct (Nat.eq_dec j i) as [->|Hne].
      * rewrite Hst. cbn [is_alive]. exists PhD. split; [|exact I]. unfold holds, stopped; cbn [m_cur m_st m_count m_clock]. split; [assumption|]. split; [rewrite upd_same; reflexivity | assumption].
      * exists (PhB te). split; [|reflexivity]. unfold holds, stopped; cbn [m_cur m_st m_count m_clock]. split; [assumption|]. split; [assumption|].
        destruct (is_alive (m_st m j)); [rewrite upd_other by auto|]; assumption.
    + inversion E; subst m'. exists (PhB te). split; [|reflexivity]. unfold holds, stopped; cbn [m_cur m_st m_count m_clock]. auto.
    + step_cases E. inversion E; subst m'. exists (PhB te). split; [|reflexivity]. unfold holds, stopped; cbn [m_cur m_st m_count m_clock]. auto.
  - destruct H as (Hc & Hsd).
    destruct (stopped_step _ _ _ _ _ _ Hsd E) as (Hsd' & _ & _).
    exists PhD. split; [|exact I]. unfold holds, stopped; cbn [m_cur m_st m_count m_clock]. split; [|assumption].
    destruct e as [i0 t iv0|i0 t due v|i0 t o|j t r|k v|]; cbn [mon_step] in E.
    + step_cases E. inversion E; subst m'. unfold holds, stopped; cbn [m_cur m_st m_count m_clock]. assumption.
    + destruct (m_cur m) eqn:Ec; [discriminate|]. destruct (m_st m i0) as [|s0 iv1 d0|] eqn:Es; try discriminate.
      step_cases E. inversion E; subst m'; clear E. unfold holds, stopped; cbn [m_cur m_st m_count m_clock]. intros Hx. inversion Hx; subst i0. eapply Hnt. reflexivity.
    + destruct (m_cur m) as [c|] eqn:Ec; [|discriminate]. step_cases E. inversion E; subst m'. unfold holds, stopped; cbn [m_cur m_st m_count m_clock]. discriminate.
    + step_cases E. inversion E; subst m'. unfold holds, stopped; cbn [m_cur m_st m_count m_clock]. assumption.
    + inversion E; subst m'. unfold holds, stopped; cbn [m_cur m_st m_count m_clock]. assumption.
    + step_cases E. inversion E; subst m'. assumption.
Qed.

Lemma trans_ok_app i t1 p p' p'' a b :
  trans_ok i t1 p p' a -> trans_ok i t1 p' p'' b -> trans_ok i t1 p p'' (a ++ b).
Proof.
  destruct p, p', p''; cbn; intros H1 H2; try exact I; try contradiction; try (subst; auto; fail).
  - destruct H2 as [H2 H3]. split; [apply in_or_app; right|]; assumption.
  - destruct H1 as [H1 H3]. subst. split; [apply in_or_app; left|]; assumption.
Qed.

Lemma phase_run strict res i s iv d1 t1 mid : forall p m m',
  mwf m -> holds i s iv d1 t1 p m -> mon_run strict res m mid = Some m' ->
  (forall t d v, ~ In (EvTick i t d v) mid) ->
  exists p', holds i s iv d1 t1 p' m' /\ trans_ok i t1 p p' mid.
Proof.
  induction mid as [|e mid IH]; intros p m m' W H E Hnt.
  - cbn in E. inversion E; subst m'. exists p. split; [assumption|]. destruct p; cbn; auto.
  - cbn [mon_run] in E. destruct (mon_step strict res m e) as [m1|] eqn:Es; [|discriminate].
    destruct (phase_step _ _ _ _ _ _ _ _ _ _ _ W H Es) as (p1 & H1 & T1).
    { intros t d v Hx. eapply Hnt. left. exact Hx. }
    destruct (IH p1 m1 m' (mwf_step _ _ _ _ _ W Es) H1 E) as (p2 & H2 & T2).
    { intros t d v Hx. eapply Hnt. right. exact Hx. }
    exists p2. split; [assumption|]. apply (trans_ok_app _ _ _ _ _ [e] mid T1 T2).
Qed.

Lemma tick_step_inv strict res m i t due v m' :
  mon_step strict res m (EvTick i t due v) = Some m' ->
  exists s iv, m_cur m = None /\ m_st m i = TAlive s iv due /\ m_clock m <= t /\
               m' = mk_mstate t (Some i) (m_st m) (m_ver m) (m_count m).
Proof.
  cbn [mon_step]. intros E. destruct (m_cur m) eqn:Ec; [discriminate|].
  destruct (m_st m i) as [|s iv d|] eqn:Es; try discriminate.
  destruct (m_clock m <=? t) eqn:C1; [|discriminate]. destruct (due =? d) eqn:C2; [|discriminate].
  cbn [andb] in E. step_cases E. inversion E; subst m'.
  apply Z.eqb_eq in C2. subst d. apply Z.leb_le in C1. exists s, iv. auto.
Qed.

(* once per elapsed interval, skipping what was missed: two consecutive ticks of a timer are separated by
   the end of the first callback with a true result, and the second tick serves exactly next_due *)
Theorem consecutive_ticks strict res t0 a i t1 d1 v1 mid t2 d2 v2 b :
  accepted strict res t0 (a ++ EvTick i t1 d1 v1 :: mid ++ EvTick i t2 d2 v2 :: b) ->
  (forall t d v, ~ In (EvTick i t d v) mid) ->
  exists s iv te, In (EvCreate i s iv) a /\ In (EvEnd i te RetTrue) mid /\ t1 <= te /\ d2 = next_due s iv d1 te.
Proof.
  unfold accepted. intros A Hnt. rewrite mon_run_app in A.
  destruct (mon_run strict res (mstate0 t0) a) as [m1|] eqn:E1; [|congruence].
  cbn [mon_run] in A. destruct (mon_step strict res m1 (EvTick i t1 d1 v1)) as [m2|] eqn:E2; [|congruence].
  rewrite mon_run_app in A. destruct (mon_run strict res m2 mid) as [m3|] eqn:E3; [|congruence].
  cbn [mon_run] in A. destruct (mon_step strict res m3 (EvTick i t2 d2 v2)) as [m4|] eqn:E4; [|congruence].
  pose proof (mwf_run _ _ _ _ _ (mwf0 t0) E1) as W1.
  pose proof (mwf_step _ _ _ _ _ W1 E2) as W2.
  destruct (tick_step_inv _ _ _ _ _ _ _ _ E2) as (s & iv & Hc1 & Hs1 & Hk1 & ->).
  destruct (tick_step_inv _ _ _ _ _ _ _ _ E4) as (s3 & iv3 & Hc3 & Hs3 & Hk3 & _).
  assert (HA : holds i s iv d1 t1 PhA (mk_mstate t1 (Some i) (m_st m1) (m_ver m1) (m_count m1))).
  { unfold holds; cbn [m_cur m_st m_clock]. split; [reflexivity|]. split; [lia|]. left. assumption. }
  destruct (phase_run _ _ _ _ _ _ _ _ _ _ _ W2 HA E3 Hnt) as (p' & Hp & T).
  destruct p' as [|te|].
  - destruct Hp as (Hc & _). congruence.
  - destruct Hp as (_ & _ & Hst). rewrite Hs3 in Hst. inversion Hst; subst s3 iv3.
    destruct T as [T1 T2].
    exists s, iv, te. repeat split; try assumption.
    eapply alive_created; eauto.
  - destruct Hp as (_ & Hsd & _). rewrite Hs3 in Hsd. discriminate.
Qed.

(* the strict reading differs from the tolerant one only by ticks that start before their deadline *)
Definition tick_on_time (e : event) : Prop :=
  match e with EvTick _ t due _ => due <= t | _ => True end.

Lemma strict_step res m e : tick_on_time e -> mon_step true res m e = None -> mon_step false res m e = None.
Proof.
  intros Hon E. destruct e as [i0 t iv0|i0 t due v|i0 t o|j t r|k v|]; cbn [mon_step] in *; try assumption.
  destruct (m_cur m); [reflexivity|]. destruct (m_st m i0) as [|s iv d|]; try reflexivity.
  cbn [tick_on_time] in Hon. apply Z.leb_le in Hon. rewrite Hon in E.
  destruct (m_clock m <=? t), (due =? d), (v =? m_ver m i0)%nat, (due - res <? t); cbn [andb] in *; try discriminate; try reflexivity.
Qed.

Lemma strict_same res m e m' : mon_step true res m e = Some m' -> mon_step false res m e = Some m' \/ mon_step false res m e = None.
Proof.
  intros E. destruct e as [i0 t iv0|i0 t due v|i0 t o|j t r|k v|]; cbn [mon_step] in *; auto.
  destruct (m_cur m); [discriminate|]. destruct (m_st m i0) as [|s iv d|]; try discriminate.
  destruct (m_clock m <=? t), (due =? d), (due <=? t), (v =? m_ver m i0)%nat, (due - res <? t); cbn [andb] in *; try discriminate; auto.
Qed.

Theorem strict_accepts_on_time res tr : forall m,
  Forall tick_on_time tr -> mon_run false res m tr <> None -> mon_run true res m tr <> None.
Proof.
  induction tr as [|e tr IH]; intros m F A; cbn [mon_run] in *; [discriminate|].
  inversion F as [|? ? Fe Ft]; subst.
  destruct (mon_step true res m e) as [m1|] eqn:Es.
  - destruct (strict_same _ _ _ _ Es) as [E'|E']; rewrite E' in A; [apply IH; assumption | congruence].
  - rewrite (strict_step _ _ _ Fe Es) in A. congruence.
Qed.

(* a timer is alive exactly when it was created and no stopping event happened to it *)
Definition live_history (j : nat) (pre : list event) : Prop :=
  (exists s iv, In (EvCreate j s iv) pre) /\ (forall e, In e pre -> ~ stops j e).

Lemma stops_dec j e : {stops j e} + {~ stops j e}.
Proof.
  destruct e as [| |i t o|i t r| |]; cbn [stops]; try (right; tauto).
  - destruct o; try (right; tauto); destruct (Nat.eq_dec i j); auto.
  - destruct r; try (right; tauto); destruct (Nat.eq_dec i j); auto.
Qed.

Lemma alive_iff strict res t0 pre : forall m, mon_run strict res (mstate0 t0) pre = Some m ->
  forall j, is_alive (m_st m j) = true <-> live_history j pre.
Proof.
  induction pre as [|e pre IH] using rev_ind; intros m E j.
  - cbn in E. inversion E; subst m. cbn. split; [discriminate|]. intros [(s & iv & []) _].
  - rewrite mon_run_app in E. destruct (mon_run strict res (mstate0 t0) pre) as [m1|] eqn:E1; [|discriminate].
    cbn [mon_run] in E. destruct (mon_step strict res m1 e) as [m2|] eqn:E2; [|discriminate]. inversion E; subst m2; clear E.
    specialize (IH m1 eq_refl j).
    pose proof (mwf_run _ _ _ _ _ (mwf0 t0) E1) as [W1 W2].
    assert (Hsnoc : forall P : Prop, (P <-> live_history j pre) -> ~ stops j e -> (forall s iv, e <> EvCreate j s iv) ->
                    (P <-> live_history j (pre ++ [e]))).
    { intros P HP Hns Hnc. rewrite HP. unfold live_history. split; intros [(s & iv & Hc) Hn]; split.
      - exists s, iv. apply in_or_app. left. assumption.
      - intros e' He'. apply in_app_or in He'. destruct He' as [He'|[<-|[]]]; auto.
      - apply in_app_or in Hc. destruct Hc as [Hc|[Hc|[]]]; [exists s, iv; assumption | exfalso; eapply Hnc; eauto].
      - intros e' He'. apply Hn. apply in_or_app. left. assumption. }
    assert (Hstop : stops j e -> is_alive (m_st m j) = false -> (is_alive (m_st m j) = true <-> live_history j (pre ++ [e]))).
    { intros Hs Hd. rewrite Hd. split; [discriminate|]. intros [_ Hn]. exfalso. apply (Hn e); [apply in_or_app; right; left; reflexivity | assumption]. }
    destruct (stops_dec j e) as [Hs|Hns].
    + apply Hstop; [assumption|]. eapply stop_event; [split; eassumption | exact E2 | exact Hs].
    + destruct e as [i0 t iv0|i0 t due v|i0 t o|j0 t r|k v|]; cbn [mon_step] in E2.
      * step_cases E2. inversion E2; subst m; clear E2. repeat (apply andb_prop in C; destruct C as [C ?]).
        apply Nat.eqb_eq in H0. subst i0. cbn [m_st].
        destruct (Nat.eq_dec j (m_count m1)) as [->|Hne].
        -- rewrite upd_same. cbn [is_alive]. split; [|reflexivity]. intros _. split.
           ++ exists t, iv0. apply in_or_app. right. left. reflexivity.
           ++ intros e' He'. apply in_app_or in He'. destruct He' as [He'|[<-|[]]]; [|exact Hns].
              intros Hst. assert (Hdead : stopped m1 (m_count m1)).
              { apply in_split in He'. destruct He' as (l1 & l2 & ->).
                rewrite mon_run_app in E1. destruct (mon_run strict res (mstate0 t0) l1) as [ma|] eqn:Ea; [|discriminate].
                cbn [mon_run] in E1. destruct (mon_step strict res ma e') as [mb|] eqn:Eb; [|discriminate].
                pose proof (stop_event _ _ _ _ _ _ (mwf_run _ _ _ _ _ (mwf0 t0) Ea) Eb Hst) as Sb.
                clear - Sb E1. revert mb Sb E1. induction l2 as [|x l2 IHl]; intros mb Sb E1; cbn [mon_run] in E1.
                - inversion E1; subst. assumption.
                - destruct (mon_step strict res mb x) as [mc|] eqn:Ec; [|discriminate].
                  destruct (stopped_step _ _ _ _ _ _ Sb Ec) as (Sc & _). eapply IHl; eauto. }
              destruct Hdead as [_ Hlt]. lia.
        -- rewrite upd_other by assumption. apply Hsnoc; [assumption | assumption|]. intros s iv Hx. inversion Hx. congruence.
      * destruct (m_cur m1); [discriminate|]. destruct (m_st m1 i0) as [|s iv d|]; try discriminate. step_cases E2. inversion E2; subst m.
        cbn [m_st]. apply Hsnoc; [assumption | assumption | discriminate].
      * destruct (m_cur m1) as [c|] eqn:Ec; [|discriminate]. step_cases E2. inversion E2; subst m; clear E2. cbn [m_st].
        destruct (Nat.eq_dec j i0) as [->|Hne].
        -- rewrite upd_same.
           assert (Ho : o = RetTrue) by (destruct o; auto; exfalso; apply Hns; reflexivity). subst o.
           apply Hsnoc; [|assumption | discriminate]. rewrite <- IH. destruct (m_st m1 i0); cbn; tauto.
        -- rewrite upd_other by assumption. apply Hsnoc; [assumption | assumption | discriminate].
      * step_cases E2. inversion E2; subst m; clear E2. cbn [m_st]. apply andb_prop in C. destruct C as [_ C]. apply eqb_prop in C.
        destruct (Nat.eq_dec j j0) as [->|Hne].
        -- destruct r; [exfalso; apply Hns; reflexivity|]. rewrite <- C.
           apply Hsnoc; [assumption | assumption | discriminate].
        -- apply Hsnoc; [|assumption | discriminate]. rewrite <- IH.
           destruct (is_alive (m_st m1 j0)); [rewrite upd_other by assumption|]; tauto.
      * inversion E2; subst m. cbn [m_st]. apply Hsnoc; [assumption | assumption | discriminate].
      * step_cases E2. inversion E2; subst m. apply Hsnoc; [assumption | assumption | discriminate].
Qed.

(* .timerc returns 1 exactly when it stops a live timer: one that was created and has not been stopped before *)
Theorem timerc_exact strict res t0 a j t r b :
  accepted strict res t0 (a ++ EvCancel j t r :: b) -> (r = true <-> live_history j a).
Proof.
  unfold accepted. intros A. rewrite mon_run_app in A.
  destruct (mon_run strict res (mstate0 t0) a) as [m1|] eqn:E1; [|congruence].
  cbn [mon_run mon_step] in A.
  destruct ((m_clock m1 <=? t) && Bool.eqb r (is_alive (m_st m1 j))) eqn:C; [|congruence].
  apply andb_prop in C. destruct C as [_ C]. apply eqb_prop in C. rewrite C.
  eapply alive_iff; eauto.
Qed.
