From Coq Require Import ZArith List Bool Lia.
From C15 Require Import Model Spec.
