(* C15/OnTime.v — "never before an interval boundary", literally, from a hypothesis on the
   dispatch latencies: ONE timer, no external handles, every wake-up at or after the
   earliest deadline  ==>  every callback starts at or after the deadline of its handle. *)
From Coq Require Import ZArith List Bool Arith Lia Permutation.
From C15 Require Import Model Spec Proofs.
Import ListNotations.
Open Scope Z_scope.

Definition iv0 (w : world) : Z := t_interval (w_tm w 0%nat).

(* callbacks that leave through SystemExit / KeyboardInterrupt end the loop's batch and leave handles queued: excluded here *)
Definition nofatal (st : step) : Prop := is_fatal st = false.

Record TInv (w : world) : Prop := mk_TInv {
  t_nofatal : Forall nofatal (w_scr w 0%nat);
  t_tgt : forall h, In h (handles w) -> htgt h = TRun 0;
  t_pool : w_pool w = [];
  t_nt : (w_nt w <= 1)%nat;
  t_rdy : forall h, In h (w_ready w) -> w_canc w (hid h) = false -> hwhen h <= w_now w;
  t_soon : iv0 w = 0 -> forall h, In h (handles w) -> hwhen h <= w_now w
}.

Ltac tinv H := destruct H as [Tnf Ttgt Tpool Tnt Trdy Tsoon].

Definition on_time (evs : list event) : Prop := Forall tick_on_time evs.

Lemma on_time_app a b : on_time a -> on_time b -> on_time (a ++ b).
Proof. unfold on_time. intros. apply Forall_app. auto. Qed.

Lemma tinv_advance w t : TInv w -> w_now w <= t -> TInv (set_now w t).
Proof.
  intros H Ht. tinv H. constructor; wsimpl; try assumption.
  - intros h Hh Hc. specialize (Trdy h Hh Hc). lia.
  - intros E h Hh. specialize (Tsoon E h Hh). lia.
Qed.

Lemma tinv_hcancel w j w' r :
  TInv w -> handler_cancel j w = (w', r) -> TInv w' /\ w_ready w' = w_ready w /\ w_sched w' = w_sched w /\ iv0 w' = iv0 w /\ w_now w' = w_now w.
Proof.
  intros H E. unfold handler_cancel in E.
  destruct (t_delegate (w_tm w j)) as [id|] eqn:Ed; [|inversion E; subst; auto].
  inversion E; subst w' r; clear E. tinv H.
  assert (Hiv : iv0 (set_delegate (cancel_handle w id) j None) = iv0 w).
  { unfold iv0. wsimpl. unfold upd. destruct (Nat.eqb 0 j) eqn:E0; [|reflexivity]. apply Nat.eqb_eq in E0. subst j. reflexivity. }
  refine (conj _ (conj eq_refl (conj eq_refl (conj Hiv eq_refl)))).
  constructor; try (wsimpl; assumption).
  - wsimpl. intros h Hh Hc. apply upd_true_false in Hc. destruct Hc as [_ Hc]. auto.
  - rewrite Hiv. wsimpl. assumption.
Qed.

Lemma tinv_timerc w j w' r :
  TInv w -> sys_timerc j w = (w', r) -> TInv w' /\ w_ready w' = w_ready w /\ w_sched w' = w_sched w /\ iv0 w' = iv0 w /\ w_now w' = w_now w.
Proof.
  intros H E. unfold sys_timerc in E.
  destruct (j <? w_nt w)%nat eqn:Ej; [eapply tinv_hcancel; eauto | inversion E; subst; auto].
Qed.

Lemma tinv_bind w b v : TInv w ->
  TInv (mk_world (w_now w) (w_next w) (w_sched w) (w_ready w) (w_canc w) (w_nt w) (w_tm w) (w_scr w) b v (w_pool w)).
Proof. intros H. tinv H. constructor; wsimpl; assumption. Qed.

Lemma tinv_scr w s : TInv w -> Forall nofatal (s 0%nat) -> TInv (set_scr w s).
Proof. intros H Hs. tinv H. constructor; wsimpl; assumption. Qed.

Lemma do_action_t cfg st w w' evs raised :
  TInv w -> do_action cfg st w = (w', evs, raised) ->
  TInv w' /\ w_ready w' = w_ready w /\ w_sched w' = w_sched w /\ iv0 w' = iv0 w /\ w_now w <= w_now w' /\ on_time evs.
Proof.
  intros H E. unfold do_action in E.
  set (w1 := set_now w (w_now w + Z.max 0 (s_dur st))) in *.
  assert (H1 : TInv w1) by (apply tinv_advance; [assumption | lia]).
  assert (Hn : w_now w <= w_now w1) by (unfold w1, set_now; cbn [w_now]; lia).
  destruct (s_act st) as [|j|k|rk| |k].
  - inversion E; subst. refine (conj H1 (conj eq_refl (conj eq_refl (conj eq_refl (conj Hn _))))). constructor.
  - destruct (sys_timerc j w1) as [w2 r] eqn:Et. inversion E; subst w' evs raised; clear E.
    destruct (tinv_timerc _ _ _ _ H1 Et) as (A & B & C & D & F).
    refine (conj A (conj B (conj C (conj D (conj _ _))))); [lia | repeat constructor].
  - inversion E; subst w' evs raised; clear E.
    refine (conj (tinv_bind w1 _ _ H1) (conj eq_refl (conj eq_refl (conj eq_refl (conj Hn _))))). repeat constructor.
  - inversion E; subst. refine (conj H1 (conj eq_refl (conj eq_refl (conj eq_refl (conj Hn _))))). constructor.
  - pose proof (t_pool _ H1) as Hp. rewrite Hp in E. inversion E; subst.
    refine (conj H1 (conj eq_refl (conj eq_refl (conj eq_refl (conj Hn _))))). constructor.
  - inversion E; subst w' evs raised; clear E.
    refine (conj (tinv_bind w1 _ _ H1) (conj eq_refl (conj eq_refl (conj eq_refl (conj Hn _))))). repeat constructor.
Qed.

Lemma insert_h_in b h l x : In x (insert_h b h l) -> x = h \/ In x l.
Proof. intros H. pose proof (Permutation_in _ (insert_h_perm b h l) H) as [E|E]; auto. Qed.

(* what follows the callback, for timer 0 *)
Lemma epilogue_t cfg fl st raised w w' evs :
  flags_fixed fl -> TInv w -> epilogue fl cfg 0%nat st raised w = (w', evs) ->
  TInv w' /\ (iv0 w <> 0 -> w_ready w' = w_ready w) /\ iv0 w' = iv0 w /\ on_time evs.
Proof.
  intros (Fg & Fc & Fcb & Fm & Ft & _) H E. unfold epilogue, continue_or_stop in E. rewrite Fg, Fc, Fcb, Ft in E.
  replace (match s_act st with ARaise RExc => true | _ => true end) with true in E by (destruct (s_act st) as [| | |[| |]| |]; reflexivity).
  assert (Hdel : forall d, TInv (set_delegate w 0%nat d) /\ iv0 (set_delegate w 0%nat d) = iv0 w).
  { intros d. assert (Hiv : iv0 (set_delegate w 0%nat d) = iv0 w) by (unfold iv0; wsimpl; rewrite upd_same; reflexivity).
    split; [|exact Hiv]. tinv H. constructor; try (wsimpl; assumption). }
  destruct raised.
  - inversion E; subst w' evs. destruct (Hdel None) as [A B].
    refine (conj A (conj _ (conj B _))); [intros _; reflexivity | repeat constructor].
  - cbn [andb] in E. destruct (is_none (t_delegate (w_tm w 0%nat))).
    + inversion E; subst w' evs. refine (conj H (conj (fun _ => eq_refl) (conj eq_refl _))). repeat constructor.
    + destruct (klong_truth (s_ret st)).
      * inversion E; subst w' evs; clear E. unfold rearm. fold (iv0 w). rewrite Fm.
        destruct (iv0 w =? 0) eqn:Ei.
        -- apply Z.eqb_eq in Ei. unfold call_soon, set_tm. wsimpl.
           assert (Hiv : iv0 (mk_world (w_now w) (S (w_next w)) (w_sched w) (w_ready w ++ [mk_handle (w_next w) (w_now w) (TRun 0)]) (w_canc w) (w_nt w)
                     (upd (w_tm w) 0%nat (mk_timer (iv0 w) (t_start (w_tm w 0%nat)) (Some (w_next w)) (t_n (w_tm w 0%nat)) (t_fn0 (w_tm w 0%nat)))) (w_scr w) (w_bind w) (w_nver w) (w_pool w)) = iv0 w).
           { unfold iv0 at 1. cbn [w_tm]. rewrite upd_same. reflexivity. }
           refine (conj _ (conj _ (conj Hiv _))); [|intros; lia|repeat constructor].
           tinv H. constructor; cbn [w_now w_sched w_ready w_canc w_nt w_pool]; try assumption.
           ++ unfold handles. cbn [w_sched w_ready]. intros h Hh. rewrite app_assoc in Hh. apply in_app_or in Hh.
              destruct Hh as [Hh|[<-|[]]]; [apply Ttgt; assumption | reflexivity].
           ++ intros h Hh Hc. apply in_app_or in Hh. destruct Hh as [Hh|[<-|[]]]; [auto | cbn [hwhen]; lia].
           ++ intros _ h Hh. unfold handles in Hh. cbn [w_sched w_ready] in Hh. rewrite app_assoc in Hh. apply in_app_or in Hh.
              destruct Hh as [Hh|[<-|[]]]; [apply Tsoon; assumption | cbn [hwhen]; lia].
        -- apply Z.eqb_neq in Ei. unfold call_at, set_tm. wsimpl.
           match goal with |- TInv ?W /\ _ => assert (Hiv : iv0 W = iv0 w) by (unfold iv0 at 1; cbn [w_tm]; rewrite upd_same; reflexivity) end.
           refine (conj _ (conj (fun _ => eq_refl) (conj Hiv _))); [|repeat constructor].
           tinv H. constructor; cbn [w_now w_sched w_ready w_canc w_nt w_pool]; try assumption.
           ++ unfold handles. cbn [w_sched w_ready]. intros h Hh. apply in_app_or in Hh. destruct Hh as [Hh|Hh].
              ** apply insert_h_in in Hh. destruct Hh as [->|Hh]; [reflexivity|]. apply Ttgt. apply in_or_app. auto.
              ** apply Ttgt. apply in_or_app. auto.
           ++ intros E0. rewrite Hiv in E0. contradiction.
      * destruct (handler_cancel 0%nat w) as [w2 r2] eqn:Eh. cbn [fst] in E. inversion E; subst w' evs; clear E.
        destruct (tinv_hcancel _ _ _ _ H Eh) as (A & B & C & D & F).
        refine (conj A (conj (fun _ => B) (conj D _))). repeat constructor.
Qed.

Lemma tinv_set_ready w h r : TInv w -> w_ready w = h :: r -> TInv (set_ready w r).
Proof.
  intros H Er. tinv H. constructor; wsimpl; try assumption.
  - intros x Hx. apply Ttgt. rewrite Er. apply in_mid_inv. assumption.
  - intros x Hx. apply Trdy. rewrite Er. right. assumption.
  - intros E x Hx. apply (Tsoon E). rewrite Er. apply in_mid_inv. assumption.
Qed.

Lemma run_handle_t cfg fl w h r w' evs fatal :
  flags_fixed fl -> TInv w -> w_ready w = h :: r ->
  run_handle fl cfg h (set_ready w r) = (w', evs, fatal) ->
  TInv w' /\ (iv0 w <> 0 -> w_ready w' = r) /\ iv0 w' = iv0 w /\ on_time evs /\ fatal = false.
Proof.
  intros Hfl H Er E. pose proof (tinv_set_ready _ _ _ H Er) as H0.
  unfold run_handle in E. change (w_canc (set_ready w r) (hid h)) with (w_canc w (hid h)) in E.
  destruct (w_canc w (hid h)) eqn:Ec.
  - inversion E; subst w' evs fatal. refine (conj H0 (conj (fun _ => eq_refl) (conj eq_refl (conj _ eq_refl)))). constructor.
  - assert (Ht : htgt h = TRun 0). { apply (t_tgt _ H). unfold handles. rewrite Er. apply in_or_app. right. left. reflexivity. }
    assert (Hon : hwhen h <= w_now w). { apply (t_rdy _ H); [rewrite Er; left; reflexivity | assumption]. }
    rewrite Ht in E. unfold run_timer in E.
    match type of E with context [do_action cfg ?st ?w0] => destruct (do_action cfg st w0) as [[w1 evs1] raised] eqn:Ea end.
    match type of E with context [epilogue ?a ?b ?c ?st ?e ?f] => destruct (epilogue a b c st e f) as [w2 eve] eqn:Ee end.
    assert (Hnf : Forall nofatal (w_scr w 0%nat)) by (apply (t_nofatal _ H)).
    assert (Hf : is_fatal match w_scr w 0%nat with s :: _ => s | [] => default_step end = false).
    { destruct (w_scr w 0%nat) as [|s0 rest]; [reflexivity|]. inversion Hnf; assumption. }
    inversion E; subst w' evs fatal; clear E.
    assert (Htl : Forall nofatal (upd (w_scr (set_ready w r)) 0%nat (tl (w_scr (set_ready w r) 0%nat)) 0%nat)).
    { rewrite upd_same. change (w_scr (set_ready w r) 0%nat) with (w_scr w 0%nat).
      destruct (w_scr w 0%nat) as [|s0 rest]; [constructor|]. inversion Hnf; assumption. }
    apply (tinv_scr _ (upd (w_scr (set_ready w r)) 0%nat (tl (w_scr (set_ready w r) 0%nat)))) in H0; [|exact Htl].
    destruct (do_action_t _ _ _ _ _ _ H0 Ea) as (A1 & A2 & A3 & A4 & A5 & A6).
    destruct (epilogue_t _ _ _ _ _ _ _ Hfl A1 Ee) as (B1 & B2 & B3 & B4).
    refine (conj B1 (conj _ (conj _ (conj _ Hf)))).
    + intros Hiv. rewrite B2 by (rewrite A4; exact Hiv). rewrite A2. reflexivity.
    + rewrite B3, A4. reflexivity.
    + constructor; [exact Hon|]. apply on_time_app; assumption.
Qed.

Lemma run_ready_t cfg fl n : forall w w' evs,
  flags_fixed fl -> TInv w -> run_ready fl cfg n w = (w', evs) ->
  TInv w' /\ (iv0 w <> 0 -> (length (w_ready w) <= n)%nat -> w_ready w' = []) /\ iv0 w' = iv0 w /\ on_time evs.
Proof.
  induction n as [|n IH]; intros w w' evs Hfl H E; cbn [run_ready] in E.
  - inversion E; subst. refine (conj H (conj _ (conj eq_refl _))); [|constructor].
    intros _ Hl. destruct (w_ready w'); [reflexivity | cbn in Hl; lia].
  - destruct (w_ready w) as [|h r] eqn:Er.
    + inversion E; subst. refine (conj H (conj _ (conj eq_refl _))); [auto | constructor].
    + destruct (run_handle fl cfg h (set_ready w r)) as [[w1 e1] fatal] eqn:E1.
      destruct (run_handle_t _ _ _ _ _ _ _ _ Hfl H Er E1) as (A1 & A2 & A3 & A4 & ->).
      destruct (run_ready fl cfg n w1) as [w2 e2] eqn:E2.
      inversion E; subst w' evs; clear E.
      destruct (IH _ _ _ Hfl A1 E2) as (B1 & B2 & B3 & B4).
      refine (conj B1 (conj _ (conj _ _))).
      * intros Hiv Hl. apply B2; [rewrite A3; exact Hiv|]. rewrite (A2 Hiv). cbn [length] in Hl. lia.
      * rewrite B3, A3. reflexivity.
      * apply on_time_app; assumption.
Qed.

Lemma dispatch_due_t cfg fl w w' evs :
  flags_fixed fl -> TInv w ->
  (forall h, In h (w_sched w) -> w_canc w (hid h) = false -> hwhen h < w_now w + c_res cfg -> hwhen h <= w_now w) ->
  dispatch_due fl cfg w = (w', evs) ->
  TInv w' /\ (iv0 w <> 0 -> w_ready w = [] -> w_ready w' = []) /\ iv0 w' = iv0 w /\ on_time evs.
Proof.
  intros Hfl H Hlive E. unfold dispatch_due in E.
  destruct (span_due (w_now w + c_res cfg) (w_sched w)) as [due rest] eqn:Es.
  destruct (span_due_spec _ _ _ _ Es) as [Eapp Hdue].
  set (w2 := set_ready (set_sched w rest) (w_ready w ++ due)) in *.
  assert (H2 : TInv w2).
  { tinv H. unfold w2. constructor; wsimpl; try assumption.
    - intros h Hh. apply Ttgt. rewrite Eapp. apply in_app_or in Hh. destruct Hh as [Hh|Hh].
      + apply in_or_app. left. apply in_or_app. right. assumption.
      + apply in_app_or in Hh. destruct Hh as [Hh|Hh]; apply in_or_app; [right; assumption | left; apply in_or_app; left; assumption].
    - intros h Hh Hc. apply in_app_or in Hh. destruct Hh as [Hh|Hh]; [auto|].
      apply Hlive; [rewrite Eapp; apply in_or_app; left; assumption | assumption | apply Hdue; assumption].
    - intros E0 h Hh. apply (Tsoon E0). rewrite Eapp. apply in_app_or in Hh. destruct Hh as [Hh|Hh].
      + apply in_or_app. left. apply in_or_app. right. assumption.
      + apply in_app_or in Hh. destruct Hh as [Hh|Hh]; apply in_or_app; [right; assumption | left; apply in_or_app; left; assumption]. }
  destruct (run_ready_t _ _ _ _ _ _ Hfl H2 E) as (A1 & A2 & A3 & A4).
  refine (conj A1 (conj _ (conj A3 A4))).
  intros Hiv _. apply A2; [exact Hiv | apply Nat.le_refl].
Qed.

Lemma dc_head c l h s : drop_cancelled c l = h :: s -> c (hid h) = false /\ In h l.
Proof.
  induction l as [|x l IH]; cbn [drop_cancelled]; [discriminate|].
  destruct (c (hid x)) eqn:E.
  - intros H. destruct (IH H). split; [assumption | right; assumption].
  - intros H. inversion H; subst. split; [assumption | left; reflexivity].
Qed.

Definition Bd (w : world) : Prop := iv0 w <> 0 -> w_ready w = [].

Lemma loop_once_t res cfg fl lat w m w' evs :
  flags_fixed fl -> c_res cfg = res -> 0 <= lat ->
  GInv res None w m -> TInv w -> Bd w ->
  loop_once fl cfg lat w = Some (w', evs) ->
  TInv w' /\ Bd w' /\ on_time evs.
Proof.
  intros Hfl Hc Hlat G H B E. unfold loop_once in E.
  pose proof (ginv_drop_cancelled _ _ _ G) as G0.
  set (w0 := set_sched w (drop_cancelled (w_canc w) (w_sched w))) in *.
  assert (H0 : TInv w0).
  { tinv H. unfold w0. constructor; wsimpl; try assumption.
    - intros h Hh. apply Ttgt. apply in_app_or in Hh. apply in_or_app. destruct Hh as [Hh|Hh]; [left; eapply dc_incl; eauto | right; assumption].
    - intros E0 h Hh. apply (Tsoon E0). apply in_app_or in Hh. apply in_or_app. destruct Hh as [Hh|Hh]; [left; eapply dc_incl; eauto | right; assumption]. }
  assert (Hiv0 : iv0 w0 = iv0 w) by reflexivity.
  change (w_ready w0) with (w_ready w) in E.
  destruct (w_ready w) as [|x r] eqn:Er.
  - destruct (drop_cancelled (w_canc w) (w_sched w)) as [|h0 s] eqn:Ed; [discriminate|].
    inversion E as [E']; clear E.
    destruct (dc_head _ _ _ _ Ed) as [Hc0 Hin0].
    set (w1 := set_now w0 (Z.max (w_now w0) (hwhen h0 + lat))) in *.
    assert (H1 : TInv w1) by (apply tinv_advance; [assumption | lia]).
    destruct (dispatch_due_t cfg fl w1 w' evs Hfl H1) as (A1 & A2 & A3 & A4); [|exact E'|].
    + (* the only live handle is the head the loop waited for *)
      intros h Hh Hcn _. unfold w1, w0 in Hh, Hcn. wsimpl.
      assert (h = h0).
      { pose proof (g_nodup _ _ _ _ G0) as N. unfold w0, handles in N. wsimpl.
        assert (I1 : In h ((h0 :: s) ++ w_ready w)) by (apply in_or_app; left; assumption).
        assert (I2 : In h0 ((h0 :: s) ++ w_ready w)) by (left; reflexivity).
        eapply nodup_map_inj; [exact N | exact I1 | exact I2 |].
        assert (T1 : htgt h = TRun 0). { apply (t_tgt _ H). apply in_or_app. left. eapply dc_incl. rewrite Ed. exact Hh. }
        assert (T2 : htgt h0 = TRun 0). { apply (t_tgt _ H). apply in_or_app. left. exact Hin0. }
        pose proof (g_owner _ _ _ _ G h 0%nat) as O1. pose proof (g_owner _ _ _ _ G h0 0%nat) as O2.
        assert (J1 : In h (handles w)). { apply in_or_app. left. eapply dc_incl. rewrite Ed. exact Hh. }
        assert (J2 : In h0 (handles w)). { apply in_or_app. left. exact Hin0. }
        specialize (O1 J1 T1 Hcn). specialize (O2 J2 T2 Hc0). congruence. }
      subst h. unfold w1. cbn [w_now]. lia.
    + refine (conj A1 (conj _ A4)). intros Hiv. apply A2; [rewrite A3 in Hiv; exact Hiv | exact Er].
  - inversion E as [E']; clear E.
    assert (Ez : iv0 w = 0). { destruct (Z.eq_dec (iv0 w) 0) as [Z0|Z0]; [assumption|]. specialize (B Z0). rewrite Er in B. discriminate. }
    destruct (dispatch_due_t cfg fl w0 w' evs Hfl H0) as (A1 & A2 & A3 & A4); [|exact E'|].
    + intros h Hh _ _. apply (t_soon _ H0 Ez). apply in_or_app. left. assumption.
    + refine (conj A1 (conj _ A4)). intros Hiv. rewrite A3 in Hiv. contradiction.
Qed.

Lemma run_loop_t res cfg fl fuel : forall lats w m w' evs,
  flags_fixed fl -> 0 < res -> c_res cfg = res -> Forall (fun l => 0 <= l) lats ->
  GInv res None w m -> TInv w -> Bd w ->
  run_loop fl cfg fuel lats w = (w', evs) -> on_time evs.
Proof.
  induction fuel as [|f IH]; intros lats w m w' evs Hfl Hres Hc Hl G H B E; cbn [run_loop] in E.
  - inversion E; subst. constructor.
  - set (lat := if match w_ready w with [] => true | _ :: _ => false end then hd 0 lats else 0) in *.
    set (lats' := if match w_ready w with [] => true | _ :: _ => false end then tl lats else lats) in *.
    assert (Hlat : 0 <= lat).
    { unfold lat. destruct (w_ready w); [|lia]. destruct lats as [|l ls]; cbn [hd]; [lia|]. inversion Hl; assumption. }
    assert (Hl' : Forall (fun l => 0 <= l) lats').
    { unfold lats'. destruct (w_ready w); [|assumption]. destruct lats as [|l ls]; cbn [tl]; [constructor|]. inversion Hl; assumption. }
    destruct (loop_once fl cfg lat w) as [[w1 e1]|] eqn:El.
    + destruct (run_loop fl cfg f lats' w1) as [w2 e2] eqn:E2.
      inversion E; subst w' evs; clear E.
      destruct (loop_once_inv _ _ _ _ _ _ _ _ Hres Hc Hfl G El) as (m1 & _ & G1).
      destruct (loop_once_t _ _ _ _ _ _ _ _ Hfl Hc Hlat G H B El) as (T1 & B1 & O1).
      apply on_time_app; [assumption|].
      exact (IH lats' w1 m1 w2 e2 Hfl Hres Hc Hl' G1 T1 B1 E2).
    + inversion E; subst. repeat constructor.
Qed.

Lemma create_timer_t cfg iv w w' evs :
  w_sched w = [] -> w_ready w = [] -> w_nt w = 0%nat -> w_pool w = [] -> Forall nofatal (w_scr w 0%nat) ->
  create_timer cfg iv w = (w', evs) -> TInv w' /\ Bd w' /\ on_time evs.
Proof.
  intros Es Er En Ep Hsc E. unfold create_timer in E. rewrite En in E.
  destruct (iv =? 0) eqn:Ei.
  - apply Z.eqb_eq in Ei. unfold call_soon, add_timer in E. cbn [w_now w_next w_sched w_ready w_canc w_nt w_tm w_scr w_bind w_nver w_pool] in E.
    rewrite Es, Er, En in E. inversion E; subst w' evs; clear E.
    refine (conj _ (conj _ _)); [| |repeat constructor].
    + constructor; unfold handles, iv0; cbn [w_now w_sched w_ready w_canc w_nt w_pool w_tm w_scr app]; try assumption; try lia.
      * intros h [<-|[]]. reflexivity.
      * intros h [<-|[]] _. cbn [hwhen]. lia.
      * intros _ h [<-|[]]. cbn [hwhen]. lia.
    + intros Hiv. exfalso. apply Hiv. unfold iv0. cbn [w_tm]. rewrite upd_same. cbn [t_interval]. exact Ei.
  - unfold call_at, add_timer in E. cbn [w_now w_next w_sched w_ready w_canc w_nt w_tm w_scr w_bind w_nver w_pool] in E.
    rewrite Es, Er, En in E. cbn [insert_h] in E. inversion E; subst w' evs; clear E.
    refine (conj _ (conj _ _)); [| |repeat constructor].
    + constructor; unfold handles, iv0; cbn [w_now w_sched w_ready w_canc w_nt w_pool w_tm w_scr app]; try assumption; try lia.
      * intros h [<-|[]]. reflexivity.
      * intros h [].
      * rewrite upd_same. cbn [t_interval]. intros E0. apply Z.eqb_neq in Ei. contradiction.
    + intros _. reflexivity.
Qed.

(* T15.ticks, literal form, from a hypothesis on the latencies: one timer, no external handles, every
   wake-up at or after the earliest deadline: every tick at or after the deadline of its handle, and
   (with C15_ticks) the strict checker accepts the history. *)
Theorem single_timer_on_time fl cfg t0 gap iv scr lats fuel :
  flags_fixed fl -> 0 < c_res cfg -> Forall (fun l => 0 <= l) lats -> Forall nofatal scr ->
  on_time (snd (simulate fl cfg t0 [] [mk_tspec gap iv scr] [] lats fuel)).
Proof.
  intros Hfl Hres Hl Hscr. unfold simulate.
  destruct (create_all cfg [mk_tspec gap iv scr] (arm_exts cfg [] (world0 t0 []))) as [w1 e1] eqn:E1.
  destruct (run_loop fl cfg fuel lats w1) as [w2 e2] eqn:E2. cbn [snd].
  pose proof (arm_exts_inv (c_res cfg) cfg [] _ _ (ginv_world0 (c_res cfg) t0 [])) as G0.
  destruct (create_all_inv _ _ _ _ _ _ _ Hres G0 E1) as (m1 & _ & G1).
  cbn [arm_exts create_all ts_gap ts_interval ts_script] in E1.
  assert (T : TInv w1 /\ Bd w1 /\ on_time e1).
  { destruct (iv <? 0) eqn:En.
    - inversion E1; subst w1 e1. refine (conj _ (conj _ _)); [| |constructor].
      + constructor; unfold handles, iv0; cbn; try reflexivity; try lia; try constructor; intros; contradiction.
      + intros _. reflexivity.
    - match type of E1 with context [create_timer cfg iv ?w0] => destruct (create_timer cfg iv w0) as [w3 e3] eqn:E3 end.
      inversion E1; subst w1 e1; clear E1. rewrite app_nil_r.
      eapply create_timer_t; [| | | | | exact E3]; try reflexivity. cbn [w_scr set_scr set_now world0 w_nt]. rewrite upd_same. exact Hscr. }
  destruct T as (T1 & B1 & O1).
  apply on_time_app; [assumption|].
  eapply run_loop_t; eauto.
Qed.
