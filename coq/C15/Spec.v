(* C15/Spec.v — the property as a checker over the observable history of a
   timer system (the list of events of Model.event, in the order they occur).
   The same checker, extracted, judges the histories observed on the real
   code (the property oracle of the harness), and Proofs.v shows that every
   history of the model passes it.  No proofs in this file. *)
From Coq Require Import ZArith List Bool Arith.
From C15 Require Import Model.
Import ListNotations.
Open Scope Z_scope.

(* The deadline after a callback that was armed for `due` finished at clock t and
   returned true: the first boundary start + k*iv that is later than the boundary
   just served and later than t (boundaries missed meanwhile are skipped).
   Interval 0 means "as soon as possible": armed at t. *)
Definition next_due (start iv due t : Z) : Z :=
  if iv =? 0 then t
  else start + Z.max ((due - start) / iv + 1) ((t - start) / iv + 1) * iv.

Inductive tstate := TNone | TAlive (start iv due : Z) | TDead.
Definition is_alive (s : tstate) : bool := match s with TAlive _ _ _ => true | _ => false end.

Record mstate := mk_mstate {
  m_clock : Z;                 (* clock of the latest event *)
  m_cur : option nat;          (* timer whose callback is running *)
  m_st : nat -> tstate;
  m_ver : nat -> nat;          (* version currently bound to callback name k *)
  m_count : nat                (* handlers returned by .timer so far *)
}.

Definition mstate0 (t0 : Z) : mstate := mk_mstate t0 None (fun _ => TNone) (fun _ => O) O.

Definition no_alive (m : mstate) : bool :=
  forallb (fun i => negb (is_alive (m_st m i))) (seq 0 (m_count m)).

(* strict = true: a callback may not start before its boundary at all;
   strict = false: not before it as far as the loop clock resolves (asyncio
   dispatches a handle when  when < time() + clock_resolution). *)
Definition mon_step (strict : bool) (res : Z) (m : mstate) (e : event) : option mstate :=
  match e with
  | EvCreate i t iv =>
      if (m_clock m <=? t) && (i =? m_count m)%nat && (0 <=? iv) then
        Some (mk_mstate t (m_cur m) (upd (m_st m) i (TAlive t iv (t + iv))) (m_ver m) (S (m_count m)))
      else None
  | EvTick i t due v =>
      match m_cur m, m_st m i with
      | None, TAlive s iv d =>
          if (m_clock m <=? t) && (due =? d) && (if strict then due <=? t else due - res <? t) && (v =? m_ver m i)%nat
          then Some (mk_mstate t (Some i) (m_st m) (m_ver m) (m_count m))
          else None
      | _, _ => None
      end
  | EvEnd i t o =>
      match m_cur m with
      | Some c =>
          if (c =? i)%nat && (m_clock m <=? t) then
            let s' := match m_st m i, o with
                      | TAlive s iv d, RetTrue => TAlive s iv (next_due s iv d t)
                      | TAlive _ _ _, _ => TDead
                      | other, _ => other
                      end in
            Some (mk_mstate t None (upd (m_st m) i s') (m_ver m) (m_count m))
          else None
      | None => None
      end
  | EvCancel j t r =>
      if (m_clock m <=? t) && Bool.eqb r (is_alive (m_st m j)) then
        Some (mk_mstate t (m_cur m) (if is_alive (m_st m j) then upd (m_st m) j TDead else m_st m) (m_ver m) (m_count m))
      else None
  | EvRedef k v => Some (mk_mstate (m_clock m) (m_cur m) (m_st m) (upd (m_ver m) k v) (m_count m))
  | EvIdle => if is_none (m_cur m) && no_alive m then Some m else None
  end.

Fixpoint mon_run (strict : bool) (res : Z) (m : mstate) (tr : list event) : option mstate :=
  match tr with
  | [] => Some m
  | e :: r => match mon_step strict res m e with Some m' => mon_run strict res m' r | None => None end
  end.

(* index of the first rejected event, for reports *)
Fixpoint mon_fail (strict : bool) (res : Z) (m : mstate) (tr : list event) (k : nat) : option nat :=
  match tr with
  | [] => None
  | e :: r => match mon_step strict res m e with Some m' => mon_fail strict res m' r (S k) | None => Some k end
  end.

Definition accepted (strict : bool) (res t0 : Z) (tr : list event) : Prop :=
  mon_run strict res (mstate0 t0) tr <> None.
