(* C15/Run.v — S-expression front end of the model and of the checker, extracted to OCaml.
   requests (all numbers; times in clock units of 2^-20 s):
     (run (g c m r) (res lifo) t0 ((t kind idx) ...) ((gap iv ((dur ret act arg) ...)) ...) (lat ...) fuel)
          -> (ok (ev ...) (d0 d1 ...))      d_i = 1 iff handler i still holds a delegate at the end
     (mon strict res t0 (ev ...))           -> (ok) | (fail k)        k = index of the first rejected event
     (validate y zkind)                     -> 0 neg | 1 call | 2 nofn | 3 ok
     (nextdue start iv due t)                -> deadline
   events: (0 i t iv) create  (1 i t due v) tick  (2 i t o) end, o = 0 true 1 false 2 raised
           (3 j t r) cancel  (4 k v) redef  (5) idle
   actions: 0 none, 1 cancel arg, 2 redefine arg, 3 raise (arg 0 an Exception, 1 asyncio.CancelledError, 2.. SystemExit / KeyboardInterrupt), 4 create the next timer of the pool, 5 unbind callback name arg; ret = code of the returned value (retv_of);  external kinds: 0 cancel idx, 1 redefine idx, 2 unbind idx *)
From Coq Require Import ZArith List String.
From KB Require Import Sx.
From C15 Require Import Generated Model Spec.
Import ListNotations.
Open Scope Z_scope.

Definition zb (z : Z) : bool := negb (Z.eqb z 0).
Definition zn (z : Z) : nat := Z.to_nat z.

(* return-value codes of the harness (harness/c15.py RETVALS) *)
Definition retv_of (r : Z) : retv :=
  if Z.eqb r 0 then RNum 0 else if Z.eqb r 1 then RNum 1 else if Z.eqb r 2 then RNum 2 else if Z.eqb r 3 then RNum (-1)
  else if Z.eqb r 4 then RNum 0 else if Z.eqb r 5 then RNum 3
  else if Z.eqb r 6 then RStr 0 else if Z.eqb r 7 then RStr 1
  else if Z.eqb r 8 then RList 0 false else if Z.eqb r 9 then RList 1 false else if Z.eqb r 10 then RList 1 true
  else if Z.eqb r 11 then RList 2 true else if Z.eqb r 12 then RList 2 false else ROther.

Definition step_of_sx (x : sx) : option step :=
  match x with
  | SL [SZ d; SZ r; SZ a; SZ g] =>
      Some (mk_step d (retv_of r)
              (if Z.eqb a 1 then ACancel (zn g) else if Z.eqb a 2 then ARedef (zn g) else if Z.eqb a 3 then ARaise (if Z.eqb g 0 then RExc else if Z.eqb g 1 then RCancelled else RFatal)
               else if Z.eqb a 4 then ASpawn else if Z.eqb a 5 then AUndef (zn g) else ANone))
  | _ => None
  end.

Fixpoint all_some {A B} (f : A -> option B) (l : list A) : option (list B) :=
  match l with
  | [] => Some []
  | a :: r => match f a, all_some f r with Some b, Some bs => Some (b :: bs) | _, _ => None end
  end.

Definition tspec_of_sx (x : sx) : option tspec :=
  match x with
  | SL [SZ gap; SZ iv; SL steps] =>
      match all_some step_of_sx steps with Some ss => Some (mk_tspec gap iv ss) | None => None end
  | _ => None
  end.

Definition pool_of_sx (x : sx) : option (Z * list step) :=
  match x with
  | SL [SZ iv; SL steps] => match all_some step_of_sx steps with Some ss => Some (iv, ss) | None => None end
  | _ => None
  end.

Definition ext_of_sx (x : sx) : option (Z * ext) :=
  match x with
  | SL [SZ t; SZ k; SZ i] => Some (t, if Z.eqb k 0 then XCancel (zn i) else if Z.eqb k 1 then XRedef (zn i) else XUndef (zn i))
  | _ => None
  end.

Definition sx_n (n : nat) : sx := SZ (Z.of_nat n).

Definition sx_event (e : event) : sx :=
  match e with
  | EvCreate i t iv => SL [SZ 0; sx_n i; SZ t; SZ iv]
  | EvTick i t due v => SL [SZ 1; sx_n i; SZ t; SZ due; sx_n v]
  | EvEnd i t o => SL [SZ 2; sx_n i; SZ t; SZ (match o with RetTrue => 0 | RetFalse => 1 | Raised => 2 end)]
  | EvCancel j t r => SL [SZ 3; sx_n j; SZ t; sx_bool r]
  | EvRedef k v => SL [SZ 4; sx_n k; sx_n v]
  | EvIdle => SL [SZ 5]
  end.

Definition event_of_sx (x : sx) : option event :=
  match x with
  | SL [SZ 0; SZ i; SZ t; SZ iv] => Some (EvCreate (zn i) t iv)
  | SL [SZ 1; SZ i; SZ t; SZ d; SZ v] => Some (EvTick (zn i) t d (zn v))
  | SL [SZ 2; SZ i; SZ t; SZ o] => Some (EvEnd (zn i) t (if Z.eqb o 0 then RetTrue else if Z.eqb o 1 then RetFalse else Raised))
  | SL [SZ 3; SZ j; SZ t; SZ r] => Some (EvCancel (zn j) t (zb r))
  | SL [SZ 4; SZ k; SZ v] => Some (EvRedef (zn k) (zn v))
  | SL [SZ 5] => Some EvIdle
  | _ => None
  end.

Definition zkind_of (z : Z) : zkind :=
  if Z.eqb z 0 then ZCall else if Z.eqb z 1 then ZFn else if Z.eqb z 2 then ZCallable else ZOther.

Definition dispatch (x : sx) : sx :=
  match x with
  | SL [SS t; SL [SZ g; SZ c; SZ cb; SZ m; SZ tr; SZ r]; SL [SZ res; SZ lifo]; SZ t0; SL xs; SL ts; SL pool; SL lats; SZ fuel] =>
      if is_tag "run" t then
        match all_some ext_of_sx xs, all_some tspec_of_sx ts, all_some pool_of_sx pool, sx_get_zs lats with
        | Some xs', Some ts', Some pool', Some lats' =>
            let '(w, tr) := simulate (mk_flags (zb g) (zb c) (zb cb) (zb m) (zb tr) (zb r)) (mk_config res (zb lifo)) t0 xs' ts' pool' lats' (zn fuel) in
            SL [sx_w "ok"; SL (map sx_event tr);
                SL (map (fun i => sx_bool (negb (is_none (t_delegate (w_tm w i))))) (seq 0 (w_nt w)))]
        | _, _, _, _ => sx_err "run"
        end
      else sx_err "op"
  | SL [SS t; SZ strict; SZ res; SZ t0; SL evs] =>
      if is_tag "mon" t then
        match all_some event_of_sx evs with
        | Some tr =>
            match mon_fail (zb strict) res (mstate0 t0) tr O with
            | None => SL [sx_w "ok"]
            | Some k => SL [sx_w "fail"; sx_n k]
            end
        | None => sx_err "mon"
        end
      else sx_err "op"
  | SL [SS t; SZ a; SZ b; SZ c; SZ d] =>
      if is_tag "nextdue" t then SZ (next_due a b c d) else sx_err "op"
  | SL [SS t; SZ y; SZ z] =>
      if is_tag "validate" t then
        SZ (match timer_validate y (zkind_of z) with TRNeg => 0 | TRCall => 1 | TRNoFn => 2 | TROk => 3 end)
      else sx_err "op"
  | SL [SS t] =>
      if is_tag "flags" t then SL [sx_bool (f_guard src_flags); sx_bool (f_clear src_flags); sx_bool (f_clear_base src_flags); sx_bool (f_mono src_flags); sx_bool (f_truth src_flags); sx_bool (f_resolve src_flags)]
      else sx_err "op"
  | _ => sx_err "shape"
  end.

Require Import ExtrOcamlBasic.
Extraction Language OCaml.
Extraction "extracted.ml" dispatch drv_add drv_mul drv_opp drv_div_eucl drv_ltb drv_eqb.
