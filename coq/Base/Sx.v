(* Base/Sx.v — the interchange type between the Python harness, the OCaml
   driver and the Gallina models.  One S-expression per line:
     integer  -12        -> SZ (-12)
     word     push       -> SS [112;117;115;104]   (code points)
     list     (a 1 (2))  -> SL [...]
   No proofs here; only definitions that are extracted. *)
From Coq Require Import ZArith List String Ascii.
Import ListNotations.
Open Scope Z_scope.

Inductive sx : Type :=
| SZ (z : Z)
| SS (s : list Z)
| SL (l : list sx).

(* tag "push" = the code points of the literal, so decoders can compare words *)
Fixpoint tag (s : string) : list Z :=
  match s with
  | EmptyString => []
  | String a r => Z.of_nat (nat_of_ascii a) :: tag r
  end.

Fixpoint zlist_eqb (a b : list Z) : bool :=
  match a, b with
  | [], [] => true
  | x :: a', y :: b' => Z.eqb x y && zlist_eqb a' b'
  | _, _ => false
  end.

Definition is_tag (s : string) (w : list Z) : bool := zlist_eqb (tag s) w.

Definition sx_err (msg : string) : sx := SL [SS (tag "bad"); SS (tag msg)].
Definition sx_bool (b : bool) : sx := SZ (if b then 1 else 0).
Definition sx_nat (n : nat) : sx := SZ (Z.of_nat n).
Definition sx_zs (l : list Z) : sx := SL (map SZ l).
Definition sx_w (s : string) : sx := SS (tag s).

Fixpoint sx_get_zs (l : list sx) : option (list Z) :=
  match l with
  | [] => Some []
  | SZ z :: r => match sx_get_zs r with Some zs => Some (z :: zs) | None => None end
  | _ => None
  end.

Definition sx_as_zs (x : sx) : option (list Z) :=
  match x with SL l => sx_get_zs l | _ => None end.

Definition sx_opt {A} (f : A -> sx) (o : option A) : sx :=
  match o with Some a => SL [sx_w "some"; f a] | None => sx_w "none" end.

(* Arithmetic the OCaml driver needs for reading / printing decimal integers of
   any size; naming them here makes extraction emit them. *)
Definition drv_add := Z.add.
Definition drv_mul := Z.mul.
Definition drv_opp := Z.opp.
Definition drv_div_eucl := Z.div_eucl.
Definition drv_ltb := Z.ltb.
Definition drv_eqb := Z.eqb.
