(* C18/Spec.v — what the property prescribes: a sequential register per file,
   linearizability of a complete call/return history against it, and the
   decision procedure `linearizable` (Wing-Gong search) that is proved sound and
   complete for that definition in Proofs.v.  Definitions only. *)
From Coq Require Import ZArith List Bool Permutation.
From C18 Require Import Model.
Import ListNotations.
Open Scope Z_scope.

(* the abstract object: one register per file (absent = the file does not exist) *)
Definition regs := list (file * content).

(* one finished operation of a history: what was called, what it returned, and the positions of
   its call and return events in the history *)
Record opr := mkOpr { r_op : op; r_res : result; r_call : nat; r_ret : nat }.

(* sequential specification.
     get f      returns the register's contents (FileNotFoundError iff absent), no effect
     update f c either reports success and sets the register, or reports failure and has no effect
     unload f   returns None, no effect on the register (it only drops the cached copy) *)
Definition seq_step (r : regs) (o : op) (res : result) : option regs :=
  match o, res with
  | OGet f, RCont c => match lookup f r with Some c' => if zlist_eqb c c' then Some r else None | None => None end
  | OGet f, RExn ENotFound => match lookup f r with None => Some r | Some _ => None end
  | OUpd f c, RBool true => Some (aset f c r)
  | OUpd f c, RBool false => Some r
  | OUnl f, RNone => Some r
  | _, _ => None
  end.

Fixpoint seq_run (r : regs) (l : list opr) : option regs :=
  match l with
  | [] => Some r
  | o :: l' => match seq_step r (r_op o) (r_res o) with Some r' => seq_run r' l' | None => None end
  end.

(* real-time order: b must not be placed after a if b returned before a was called *)
Definition rt_ok (a b : opr) : Prop := ~ (r_ret b < r_call a)%nat.

(* ---- operations of a history (oldest event first).  None = not a complete well-formed history *)
Definition pend := (nat * nat * op * nat)%type.     (* thread, op index, op, position of the call *)

Fixpoint take_pend (t i : nat) (p : list pend) : option (pend * list pend) :=
  match p with
  | [] => None
  | (t', i', o, n) :: r =>
      if ((t =? t') && (i =? i'))%nat then Some ((t', i', o, n), r)
      else match take_pend t i r with Some (x, r') => Some (x, (t', i', o, n) :: r') | None => None end
  end.

Fixpoint ops_from (h : list event) (pos : nat) (p : list pend) : option (list opr) :=
  match h with
  | [] => match p with [] => Some [] | _ => None end
  | ECall t i o :: h' => ops_from h' (S pos) ((t, i, o, pos) :: p)
  | ERet t i r :: h' =>
      match take_pend t i p with
      | Some ((_, _, o, n), p') =>
          match ops_from h' (S pos) p' with Some l => Some (mkOpr o r n pos :: l) | None => None end
      | None => None
      end
  end.

Definition ops_of (h : list event) : option (list opr) := ops_from h O [].

(* ---- the definition of linearizability (with the final register contents observed) *)
Definition lin_spec (init : regs) (h : list event) (final : regs) : Prop :=
  exists ops order,
    ops_of h = Some ops /\ Permutation order ops /\ ForallOrdPairs rt_ok order /\ seq_run init order = Some final.

(* ---- the checker *)
Fixpoint picks {A} (l : list A) : list (A * list A) :=
  match l with
  | [] => []
  | a :: r => (a, r) :: map (fun p => (fst p, a :: snd p)) (picks r)
  end.

Definition rt_okb (a b : opr) : bool := negb (r_ret b <? r_call a)%nat.

Fixpoint regs_eqb (a b : regs) : bool :=
  match a, b with
  | [], [] => true
  | (f, c) :: a', (g, d) :: b' => (f =? g) && zlist_eqb c d && regs_eqb a' b'
  | _, _ => false
  end.

Fixpoint lin_search (fuel : nat) (ops : list opr) (r final : regs) : bool :=
  match ops with
  | [] => regs_eqb r final
  | _ =>
      match fuel with
      | O => false
      | S k =>
          existsb (fun p =>
                     forallb (rt_okb (fst p)) (snd p) &&
                     match seq_step r (r_op (fst p)) (r_res (fst p)) with
                     | Some r' => lin_search k (snd p) r' final
                     | None => false
                     end) (picks ops)
      end
  end.

Definition linearizable (init : regs) (h : list event) (final : regs) : bool :=
  match ops_of h with
  | Some ops => lin_search (length ops) ops init final
  | None => false
  end.

(* ---- the per-state predicate of the finite-configuration theorems *)
Definition good_final (cf : config) (s : gstate) : bool :=
  linearizable (real_files (cfg_disk cf)) (rev (g_hist s)) (real_files (disk (g_core s))) && final_agree s.

(* every reachable state: not stuck unless everything has returned and finished; and when it has,
   and no in-flight entry was ever unloaded (ghost g_k = 0), the outcome is good *)
Definition state_ok (fl : flags) (cf : config) (s : gstate) : bool :=
  match enabled fl (cfg_max cf) s with
  | [] => quiescent s && ((negb (g_k s =? 0)) || good_final cf s)
  | _ => true
  end.

(* same without the exemption: used for configurations in which the defect cannot occur *)
Definition state_ok_strict (fl : flags) (cf : config) (s : gstate) : bool :=
  match enabled fl (cfg_max cf) s with
  | [] => quiescent s && (g_k s =? 0) && good_final cf s
  | _ => true
  end.

(* the witnesses of Properties.v: configuration + schedule (also replayed on the implementation) *)
Definition cA : content := [97; 48; 97; 97; 97].          (* initial contents of file 0, 5 bytes *)
Definition cB : content := [98; 48; 98; 98].              (* initial contents of file 1, 4 bytes *)
Definition u1 : content := [117; 49; 117].                (* payloads of the updates: 3, 7, 2 bytes *)
Definition u2 : content := [118; 50; 118; 118; 118; 118; 118].
Definition u3 : content := [119; 51].

Definition cfg_get_upd : config := mkCfg 1048576 [(0, cA)] [[OGet 0]; [OUpd 0 u2]].
Definition cfg_get_unl : config := mkCfg 1048576 [(0, cA)] [[OGet 0]; [OUnl 0]].
Definition cfg_upd_unl : config := mkCfg 1048576 [(0, cA)] [[OUpd 0 u1]; [OUnl 0]].

(* get: exists, getsize, lock(submit load 2) ; update: lock(unloads the pending load entry, submits write 3) ;
   write: open-wb (truncate) ; load: open, read (reads the truncated file), lock, done ; get returns b"" ; write: close, lock, done *)
Definition sch_k1_torn : list nat := [0; 0; 0; 1; 3; 2; 2; 2; 2; 0; 3; 3; 3; 1]%nat.
(* same start, but the write finishes first and the load's locked block then overwrites the writing entry *)
Definition sch_k1_acct : list nat := [0; 0; 0; 1; 2; 2; 3; 3; 3; 3; 1; 2; 2; 0]%nat.
(* unload while the load is pending: the load's locked block fails its assertion, get_file raises AssertionError *)
Definition sch_k2 : list nat := [0; 0; 0; 1; 2; 2; 2; 2; 0]%nat.
(* unload while the write is pending: the write's locked block fails its assertion, update_file raises *)
Definition sch_k3 : list nat := [0; 1; 2; 2; 2; 2; 0]%nat.


(* ---------------------------------------------------------------- all schedules of a configuration *)
Inductive reach (fl : flags) (cf : config) : gstate -> Prop :=
| reach_init : reach fl cf (init cf)
| reach_step : forall s t s', reach fl cf s -> step fl (cfg_max cf) s t = Some s' -> reach fl cf s'.

(* S contains the initial state, is closed under every step of every thread, every member satisfies P,
   and every step inside S decreases `weight` *)
Definition closed (fl : flags) (cf : config) (P : gstate -> bool) (st : sset) : bool :=
  smem (init cf) st &&
  forallb (fun s => P s && forallb (fun s' => smem s' st && (weight s' <? weight s)%nat) (successors fl (cfg_max cf) s))
          (sset_states st).

Definition check_conf (fl : flags) (cf : config) (P : gstate -> bool) (fuel : nat) : bool :=
  match reach_set fl cf fuel with
  | Some st => closed fl cf P st
  | None => false
  end.

(* ---------------------------------------------------------------- the configuration universes of the theorems *)
Definition u4 : content := [120; 52; 120; 120].
Definition BIG : Z := 1048576.

Definition ops1 (u : content) : list op := [OGet 0; OUpd 0 u; OUnl 0].
Definition ops2 (u : content) : list op := [OGet 0; OGet 1; OUpd 0 u; OUpd 1 u; OUnl 0; OUnl 1].

(* 2 client threads x 1 operation x files {0,1}: every ordered pair of operations, for four environments:
   file 0 on disk / files 0 and 1 on disk / both on disk with max_memory 6 (not both fit: eviction) / nothing on disk *)
Definition envs21 : list (list (file * content) * Z * content * content) :=
  [ ([(0, cA)], BIG, u1, u2); ([(0, cA); (1, cB)], BIG, u1, u2); ([(0, cA); (1, cB)], 6, u1, u3); ([], BIG, u1, u2) ].
Definition U21 : list config :=
  flat_map (fun e => match e with (d, mx, p, q) =>
     flat_map (fun a => map (fun b => mkCfg mx d [[a]; [b]]) (ops2 q)) (ops2 p) end) envs21.

(* 2 client threads x 2 operations on file 0 *)
Definition progs2 (u u' : content) : list (list op) :=
  flat_map (fun a => map (fun b => [a; b]) (ops1 u')) (ops1 u).
Definition U22 : list config :=
  flat_map (fun p => map (fun q => mkCfg BIG [(0, cA)] [p; q]) (progs2 u2 u4)) (progs2 u1 u3).

(* 3 client threads x 1 operation on file 0 *)
Definition U31 : list config :=
  flat_map (fun a => flat_map (fun b => map (fun c => mkCfg BIG [(0, cA)] [[a]; [b]; [c]]) (ops1 u3)) (ops1 u2)) (ops1 u1).

(* 2 client threads, 2 operations || 1 operation, files {0,1} both on disk, max_memory 6 (5 + 4 bytes do not fit
   together: every completion may evict the other file) *)
Definition opsE (u v : content) : list op := [OGet 0; OGet 1; OUpd 0 u; OUpd 1 v].
Definition U2112 : list config :=
  flat_map (fun a => flat_map (fun b => map (fun c => mkCfg 6 [(0, cA); (1, cB)] [[a; b]; [c]]) (opsE u4 u4)) (opsE u3 u1)) (opsE u1 u3).

(* 3 client threads x 1 get on files {0,1}, both on disk, max_memory 6: a load completes while another file's
   entry is cached or touched (eviction with three parties) *)
Definition U31e : list config :=
  flat_map (fun a => flat_map (fun b => map (fun c => mkCfg 6 [(0, cA); (1, cB)] [[a]; [b]; [c]]) [OGet 0; OGet 1]) [OGet 0; OGet 1]) [OGet 0; OGet 1].

(* 2 client threads x 1 operation on files {100,101}, which live in a subdirectory that does not exist yet: the
   first writes create it (makedirs is a step of its own then) *)
Definition opsD (u : content) : list op := [OGet 100; OGet 101; OUpd 100 u; OUpd 101 u; OUnl 100; OUnl 101].
Definition U21d : list config :=
  flat_map (fun a => map (fun b => mkCfg BIG [] [[a]; [b]]) (opsD u2)) (opsD u1).

(* the configuration class of the known defect: two different threads, same file, one may have an entry in
   flight (get or update) while the other unloads it (unload_file, or update_file against a get) *)
Definition op_file (o : op) : file := match o with OGet f | OUpd f _ | OUnl f => f end.
Definition clash (a b : op) : bool :=
  (op_file a =? op_file b) &&
  match a, b with
  | OGet _, OUpd _ _ | OUpd _ _, OGet _ => true
  | OGet _, OUnl _ | OUnl _, OGet _ => true
  | OUpd _ _, OUnl _ | OUnl _, OUpd _ _ => true
  | _, _ => false
  end.
Fixpoint racy_progs (ps : list (list op)) : bool :=
  match ps with
  | [] => false
  | p :: r => existsb (fun q => existsb (fun a => existsb (clash a) q) p) r || racy_progs r
  end.
Definition racy (cf : config) : bool := racy_progs (cfg_progs cf).

(* without the busy guard the racy configurations only satisfy the statement outside K; with it everything is strict *)
Definition conf_pred (fl : flags) (cf : config) : gstate -> bool :=
  if racy cf && negb (fl_busy_guard fl) then state_ok fl cf else state_ok_strict fl cf.

(* the code before the repair (update_file / unload_file without the busy guard) *)
Definition old_flags : flags := mkFlags false true false true false true true true true true false false.

Definition check_universe (fl : flags) (U : list config) (fuel : nat) : bool :=
  forallb (fun cf => check_conf fl cf (conf_pred fl cf) fuel) U.

(* ---- the statements *)
(* every run is finite (each step decreases `weight`), and when no thread can move every call has
   returned, every task has finished, the history is linearizable with the disk as final register
   contents, and disk / cached contents / accounting agree *)
Definition C18_full_statement (fl : flags) (cf : config) : Prop :=
  forall s, reach fl cf s ->
    (forall t s', step fl (cfg_max cf) s t = Some s' -> (weight s' < weight s)%nat) /\
    (enabled fl (cfg_max cf) s = [] ->
       quiescent s = true /\
       lin_spec (real_files (cfg_disk cf)) (rev (g_hist s)) (real_files (disk (g_core s))) /\ final_agree s = true).

(* the same, except that nothing is claimed about the outcome of runs in which a client unloaded an in-flight entry *)
Definition C18_outside_K_statement (fl : flags) (cf : config) : Prop :=
  forall s, reach fl cf s ->
    (forall t s', step fl (cfg_max cf) s t = Some s' -> (weight s' < weight s)%nat) /\
    (enabled fl (cfg_max cf) s = [] ->
       quiescent s = true /\
       (g_k s = 0 -> lin_spec (real_files (cfg_disk cf)) (rev (g_hist s)) (real_files (disk (g_core s))) /\ final_agree s = true)).

(* chunks of the universes (so that the reflective checks build in parallel) *)
Definition U22a := firstn 27 U22.
Definition U22b := firstn 27 (skipn 27 U22).
Definition U22c := skipn 54 U22.
Definition U31a := firstn 9 U31.
Definition U31b := firstn 9 (skipn 9 U31).
Definition U31c := skipn 18 U31.
Definition U2112a := firstn 32 U2112.
Definition U2112b := skipn 32 U2112.
Definition FUEL : nat := Z.to_nat 50000.
