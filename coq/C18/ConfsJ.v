(* C18/ConfsJ.v — reflective check of U31e (see Spec.v) *)
From Coq Require Import ZArith List Bool.
From C18 Require Import Model Generated Spec Proofs.
Lemma u31e_ok : check_universe gen_flags U31e FUEL = true.
Proof. vm_cast_no_check (eq_refl true). Qed.
