(* C18/Confs.v — assembles the chunk checks into the per-universe lemmas *)
From Coq Require Import ZArith List Bool.
From C18 Require Import Model Generated Spec Proofs ConfsA ConfsB ConfsC ConfsD ConfsE ConfsF ConfsG ConfsH ConfsI ConfsJ ConfsK.
Import ListNotations.
Open Scope Z_scope.

Lemma U22_split : U22 = U22a ++ U22b ++ U22c.
Proof. reflexivity. Qed.
Lemma U31_split : U31 = U31a ++ U31b ++ U31c.
Proof. reflexivity. Qed.

Lemma u22_ok : check_universe gen_flags U22 FUEL = true.
Proof.
  rewrite U22_split.
  exact (check_universe_app gen_flags U22a (U22b ++ U22c) FUEL u22a_ok (check_universe_app gen_flags U22b U22c FUEL u22b_ok u22c_ok)).
Qed.
Lemma u31_ok : check_universe gen_flags U31 FUEL = true.
Proof.
  rewrite U31_split.
  exact (check_universe_app gen_flags U31a (U31b ++ U31c) FUEL u31a_ok (check_universe_app gen_flags U31b U31c FUEL u31b_ok u31c_ok)).
Qed.

Lemma U2112_split : U2112 = U2112a ++ U2112b.
Proof. reflexivity. Qed.
Lemma u2112_ok : check_universe gen_flags U2112 FUEL = true.
Proof.
  rewrite U2112_split.
  exact (check_universe_app gen_flags U2112a U2112b FUEL u2112a_ok u2112b_ok).
Qed.

Definition universe_statement (U : list config) : Prop :=
  forall cf, In cf U ->
    C18_outside_K_statement gen_flags cf /\
    (fl_busy_guard gen_flags = true \/ racy cf = false -> C18_full_statement gen_flags cf).

Lemma conf_2x1 : shape_ok = true -> universe_statement U21.
Proof. intros _. exact (check_universe_sound _ _ _ u21_ok). Qed.
Lemma conf_2x2 : shape_ok = true -> universe_statement U22.
Proof. intros _. exact (check_universe_sound _ _ _ u22_ok). Qed.
Lemma conf_3x1 : shape_ok = true -> universe_statement U31.
Proof. intros _. exact (check_universe_sound _ _ _ u31_ok). Qed.

Lemma conf_2plus1_evict : shape_ok = true -> universe_statement U2112.
Proof. intros _. exact (check_universe_sound _ _ _ u2112_ok). Qed.

Lemma conf_3x1_evict : shape_ok = true -> universe_statement U31e.
Proof. intros _. exact (check_universe_sound _ _ _ u31e_ok). Qed.

Lemma conf_2x1_newdir : shape_ok = true -> universe_statement U21d.
Proof. intros _. exact (check_universe_sound _ _ _ u21d_ok). Qed.

Lemma k1_torn : exists s, reach old_flags cfg_get_upd s /\ enabled old_flags (cfg_max cfg_get_upd) s = [] /\
  ~ lin_spec (cfg_disk cfg_get_upd) (rev (g_hist s)) (disk (g_core s)) /\ final_agree s = false /\
  In (ERet 0 0 (RCont [])) (g_hist s) /\ mem (g_core s) = 2.
Proof.
  destruct (refutes_sound _ _ _ _ k1_torn_ok) as (s & Hr & He & Hc). exists s.
  unfold chk_k1_torn in Hc. repeat (apply andb_true_iff in Hc; destruct Hc as [Hc ?]).
  repeat split; auto.
  - apply not_lin. apply negb_true_iff. exact Hc.
  - apply negb_true_iff. assumption.
  - match goal with H : existsb _ _ = true |- _ => apply existsb_exists in H; destruct H as (e & Hin & Heq) end.
    apply event_eqb_ok in Heq. subst e. exact Hin.
  - apply Z.eqb_eq. assumption.
Qed.

Lemma k1_acct : exists s, reach old_flags cfg_get_upd s /\ enabled old_flags (cfg_max cfg_get_upd) s = [] /\
  lin_spec (cfg_disk cfg_get_upd) (rev (g_hist s)) (disk (g_core s)) /\ final_agree s = false /\ mem_agrees (g_core s) = false.
Proof.
  destruct (refutes_sound _ _ _ _ k1_acct_ok) as (s & Hr & He & Hc). exists s.
  unfold chk_k1_acct in Hc. repeat (apply andb_true_iff in Hc; destruct Hc as [Hc ?]).
  repeat split; auto.
  - apply linearizable_iff. exact Hc.
  - apply negb_true_iff. assumption.
  - apply negb_true_iff. assumption.
Qed.

Lemma k2 : exists s, reach old_flags cfg_get_unl s /\ enabled old_flags (cfg_max cfg_get_unl) s = [] /\
  ~ lin_spec (cfg_disk cfg_get_unl) (rev (g_hist s)) (disk (g_core s)) /\ final_agree s = false /\
  In (ERet 0 0 (RExn EAssert)) (g_hist s) /\ mem (g_core s) = -5.
Proof.
  destruct (refutes_sound _ _ _ _ k2_ok) as (s & Hr & He & Hc). exists s.
  unfold chk_k2 in Hc. repeat (apply andb_true_iff in Hc; destruct Hc as [Hc ?]).
  repeat split; auto.
  - apply not_lin. apply negb_true_iff. exact Hc.
  - apply negb_true_iff. assumption.
  - match goal with H : existsb _ _ = true |- _ => apply existsb_exists in H; destruct H as (e & Hin & Heq) end.
    apply event_eqb_ok in Heq. subst e. exact Hin.
  - apply Z.eqb_eq. assumption.
Qed.

Lemma k3 : exists s, reach old_flags cfg_upd_unl s /\ enabled old_flags (cfg_max cfg_upd_unl) s = [] /\
  ~ lin_spec (cfg_disk cfg_upd_unl) (rev (g_hist s)) (disk (g_core s)) /\ final_agree s = false /\
  In (ERet 0 0 (RExn EAssert)) (g_hist s).
Proof.
  destruct (refutes_sound _ _ _ _ k3_ok) as (s & Hr & He & Hc). exists s.
  unfold chk_k3 in Hc. repeat (apply andb_true_iff in Hc; destruct Hc as [Hc ?]).
  repeat split; auto.
  - apply not_lin. apply negb_true_iff. exact Hc.
  - apply negb_true_iff. assumption.
  - match goal with H : existsb _ _ = true |- _ => apply existsb_exists in H; destruct H as (e & Hin & Heq) end.
    apply event_eqb_ok in Heq. subst e. exact Hin.
Qed.
