(* C18/ConfsD.v — reflective check of the chunk U22c (see Spec.v) *)
From Coq Require Import ZArith List Bool.
From C18 Require Import Model Generated Spec Proofs.
Lemma u22c_ok : check_universe gen_flags U22c FUEL = true.
Proof. vm_cast_no_check (eq_refl true). Qed.
